import NTV.Proofs.Lemmas.FactorModPMain
import Mathlib.FieldTheory.Finite.Extension
import Mathlib.RingTheory.Ideal.Quotient.Operations
/-! # C08: irreducibility and distinctness of the returned factors

`poly_modpow` is modular exponentiation in `(ZMod p)[X]`; the distinct degree stage returns, under the
label d, a polynomial all of whose irreducible factors have degree exactly d (for a squarefree input);
the assembled factors are irreducible and pairwise distinct. -/
open Polynomial
namespace NTV.PolyMod
open NTV.PolyG NTV.Hensel

section prime
variable (p : ℕ) [hp : Fact p.Prime]

/-- reduction modulo G -/
noncomputable abbrev qm (G : (ZMod p)[X]) : (ZMod p)[X] →+* (ZMod p)[X] ⧸ Ideal.span {G} :=
  Ideal.Quotient.mk _

theorem qm_eq_iff {G a b : (ZMod p)[X]} : qm p G a = qm p G b ↔ G ∣ a - b := by
  rw [Ideal.Quotient.eq, Ideal.mem_span_singleton]

theorem rem_spec (a g : Poly) (ha : Good p a) (hg : GoodNZ p g) :
    qm p (mp p g) (mp p (polyDivrem a g p).2) = qm p (mp p g) (mp p a) ∧ Good p (polyDivrem a g p).2 := by
  obtain ⟨h1, _, _, h4⟩ := polyDivrem_mp p a g ha hg.1 hg.2
  refine ⟨?_, h4⟩
  rw [qm_eq_iff]
  refine ⟨-(mp p (polyDivrem a g p).1), ?_⟩
  rw [h1]; ring

theorem good_one : Good p [1] := by
  have h2 := hp.out.two_le
  constructor
  · intro j
    match j with
    | 0 => simp; omega
    | j + 1 => simp; omega
  · intro _; simp

theorem polyModpowLoop_spec (g : Poly) (hg : GoodNZ p g) : ∀ (n : Nat) (e : Int) (product current : Poly),
    e.toNat = n → Good p product →
    qm p (mp p g) (mp p (polyModpowLoop g p e product current)) =
      qm p (mp p g) (mp p product) * qm p (mp p g) (mp p current) ^ n ∧
    Good p (polyModpowLoop g p e product current) := by
  intro n
  induction n using Nat.strong_induction_on with
  | _ n ih =>
    intro e product current hn hprod
    unfold polyModpowLoop
    by_cases hpos : e > 0
    · simp only [hpos, ↓reduceDIte]
      have hlt : (e / 2).toNat < n := by omega
      obtain ⟨c1, c2⟩ := rem_spec p (polyMod (mul current current) p) g (good_polyMod p hp.out.pos _) hg
      rw [mp_polyMod, mp_mul, map_mul] at c1
      by_cases hodd : e % 2 = 1
      · simp only [hodd, ↓reduceIte]
        obtain ⟨p1, p2⟩ := rem_spec p (polyMod (mul product current) p) g (good_polyMod p hp.out.pos _) hg
        rw [mp_polyMod, mp_mul, map_mul] at p1
        obtain ⟨r1, r2⟩ := ih (e / 2).toNat hlt (e / 2) _ (polyDivrem (polyMod (mul current current) p) g p).2 rfl p2
        refine ⟨?_, r2⟩
        rw [r1, p1, c1]
        have hn2 : n = 2 * (e / 2).toNat + 1 := by omega
        rw [hn2, pow_succ, pow_mul]
        ring
      · simp only [hodd, ↓reduceIte]
        obtain ⟨r1, r2⟩ := ih (e / 2).toNat hlt (e / 2) product (polyDivrem (polyMod (mul current current) p) g p).2 rfl hprod
        refine ⟨?_, r2⟩
        rw [r1, c1]
        have hn2 : n = 2 * (e / 2).toNat := by omega
        rw [hn2, pow_mul]
        ring
    · simp only [hpos, ↓reduceDIte]
      have : n = 0 := by omega
      subst this
      exact ⟨by simp, hprod⟩

/-- `poly_modpow(x, e, g, p)` is x^e modulo g in `(ZMod p)[X]` (for g ≠ 0), and is a good list -/
theorem polyModpow_spec (x g : Poly) (e : Int) (hg : GoodNZ p g) :
    mp p g ∣ mp p (polyModpow x e g p) - mp p x ^ e.toNat ∧ Good p (polyModpow x e g p) := by
  obtain ⟨h1, h2⟩ := polyModpowLoop_spec p g hg e.toNat e [1] x rfl (good_one p)
  refine ⟨?_, h2⟩
  rw [← qm_eq_iff, map_pow]
  unfold polyModpow
  rw [h1]
  have : mp p [1] = 1 := by simp [mp, toPoly]
  rw [this, map_one, one_mul]

omit hp in
theorem mp_x : mp p [0, 1] = X := by simp [mp, toPoly]

/-- the irreducible factors of a part labelled d have degree exactly d -/
def DegPart (x : Poly × Nat) : Prop :=
  ∀ q : (ZMod p)[X], Irreducible q → q ∣ mp p x.1 → q.natDegree = x.2

/-- the key step of distinct degree factorisation: with V ∣ W − X^(p^n), an irreducible factor q of V
divides gcd(W − X, V) iff deg q ∣ n -/
theorem ddf_key {q V W A : (ZMod p)[X]} {n : ℕ} (hq : Irreducible q) (hqV : q ∣ V)
    (hVW : V ∣ W - X ^ (p ^ n)) (hA : IsGcd A (W - X) V) : q ∣ A ↔ q.natDegree ∣ n := by
  have hiff := hq.natDegree_dvd_iff_dvd_X_pow_card_pow_sub_X (n := n)
  rw [Nat.card_zmod] at hiff
  have hrel : (W - X) - (W - X ^ (p ^ n)) = X ^ p ^ n - X := by ring
  constructor
  · intro hqA
    rw [hiff, ← hrel]
    exact dvd_sub (hqA.trans hA.1) (hqV.trans hVW)
  · intro hd
    have h1 : q ∣ X ^ p ^ n - X := hiff.mp hd
    apply hA.2.2 q _ hqV
    have : W - X = (X ^ p ^ n - X) + (W - X ^ (p ^ n)) := by ring
    rw [this]
    exact dvd_add h1 (hqV.trans hVW)

theorem degreeLoop_sound : ∀ (fuel : Nat) (v w : Poly) (d : Nat) (result ds : Factors),
    GoodNZ p v → SqF p (mp p v) → mp p v ∣ mp p w - X ^ (p ^ d) →
    (∀ q : (ZMod p)[X], Irreducible q → q ∣ mp p v → d < q.natDegree) → (∀ x ∈ result, DegPart p x) →
    degreeLoop (p : Int) fuel v w d result = .ok ds → ∀ x ∈ ds, DegPart p x := by
  intro fuel
  induction fuel with
  | zero => intro v w d result ds _ _ _ _ _ h; simp [degreeLoop] at h
  | succ fuel ih =>
    intro v w d result ds hv hsq hw hdeg hres h
    simp only [degreeLoop] at h
    split at h
    · obtain ⟨ad, hg, h⟩ := (bind_ok_iff _ _ _).mp h
      obtain ⟨g1, g2⟩ := gcd_out p (good_polyModSub p hp.out.pos _ _) hv.1 (Or.inr hv.2) hg
      rw [mp_polyModSub, mp_x] at g1
      obtain ⟨m1, m2⟩ := polyModpow_spec p w v (p : Int) hv
      rw [Int.toNat_natCast] at m1
      set w1 := polyModpow w (p : Int) v p with hw1
      -- V ∣ W₁ − X^(p^(d+1))
      have hw' : mp p v ∣ mp p w1 - X ^ (p ^ (d + 1)) := by
        have h2 : mp p v ∣ mp p w ^ p - (X ^ (p ^ d)) ^ p := hw.trans (sub_dvd_pow_sub_pow _ _ p)
        have : mp p w1 - X ^ (p ^ (d + 1)) = (mp p w1 - mp p w ^ p) + (mp p w ^ p - (X ^ (p ^ d)) ^ p) := by
          rw [pow_succ, pow_mul]; ring
        rw [this]
        exact dvd_add m1 h2
      have key : ∀ q : (ZMod p)[X], Irreducible q → q ∣ mp p v → (q ∣ mp p ad ↔ q.natDegree ∣ d + 1) :=
        fun q hq hqv => ddf_key p hq hqv hw' g1
      split at h
      · -- a part of degree d + 1 is split off
        obtain ⟨e1, e2⟩ := divide_out p hv g2 g1.2.1
        have hpart : DegPart p (ad, d + 1) := by
          intro q hq hqa
          have hqv : q ∣ mp p v := hqa.trans g1.2.1
          have h1 := hdeg q hq hqv
          have h2 := Nat.le_of_dvd (by omega) ((key q hq hqv).mp hqa)
          show q.natDegree = d + 1
          omega
        have hres' : ∀ x ∈ result ++ [(ad, d + 1)], DegPart p x := by
          intro x hx
          rcases List.mem_append.mp hx with hx | hx
          · exact hres x hx
          · simp only [List.mem_singleton] at hx; subst hx; exact hpart
        have hv'v : mp p (polyDivrem v ad p).1 ∣ mp p v := ⟨mp p ad, e1⟩
        refine ih _ _ _ _ ds e2 (hsq.of_dvd p hv'v) ?_ ?_ hres' h
        · -- w ← w mod v'
          obtain ⟨r1, _⟩ := rem_spec p w1 _ m2 e2
          rw [qm_eq_iff] at r1
          have : mp p (polyDivrem w1 (polyDivrem v ad p).1 p).2 - X ^ (p ^ (d + 1)) =
              (mp p (polyDivrem w1 (polyDivrem v ad p).1 p).2 - mp p w1) + (mp p w1 - X ^ (p ^ (d + 1))) := by ring
          rw [this]
          exact dvd_add r1 (hv'v.trans hw')
        · intro q hq hqv'
          have hqv : q ∣ mp p v := hqv'.trans hv'v
          have h1 := hdeg q hq hqv
          by_contra hle
          have hdq : q.natDegree = d + 1 := by omega
          have hqa : q ∣ mp p ad := (key q hq hqv).mpr (by rw [hdq])
          have hsq' : SqF p (mp p (polyDivrem v ad p).1 * mp p ad) := by rw [← e1]; exact hsq
          exact hsq'.not_dvd_right p hq hqv' hqa
      · -- nothing of degree d + 1
        rename_i hd
        have hd0 : degU ad = 0 := by omega
        have hu : IsUnit (mp p ad) := isUnit_mp_of_degU_zero p g2 hd0
        refine ih _ _ _ _ ds hv hsq hw' ?_ hres h
        intro q hq hqv
        have h1 := hdeg q hq hqv
        by_contra hle
        have hdq : q.natDegree = d + 1 := by omega
        have hqa : q ∣ mp p ad := (key q hq hqv).mpr (by rw [hdq])
        exact hq.not_isUnit (isUnit_of_dvd_unit hqa hu)
    · rename_i hsmall
      simp only [pure, Except.pure, Except.ok.injEq] at h
      subst h
      split
      · rename_i hpos
        intro x hx
        rcases List.mem_append.mp hx with hx | hx
        · exact hres x hx
        · simp only [List.mem_singleton] at hx
          subst hx
          intro q hq hqv
          show q.natDegree = degU v
          rw [degU_eq_natDegree p v hv.1 hv.2] at hsmall ⊢
          obtain ⟨c, hc⟩ := hqv
          replace hc : mp p v = q * c := hc
          have hv0 := GoodNZ.mp_ne_zero p hv
          have hc0 : c ≠ 0 := by rintro rfl; rw [mul_zero] at hc; exact hv0 hc
          have hdeg' := natDegree_mul hq.ne_zero hc0
          rw [← hc] at hdeg'
          by_cases hcu : IsUnit c
          · have := natDegree_eq_zero_of_isUnit hcu
            omega
          · exfalso
            obtain ⟨q', hq', hq'c⟩ := WfDvdMonoid.exists_irreducible_factor hcu hc0
            have h1 := hdeg q hq ⟨c, hc⟩
            have h2 := hdeg q' hq' (hq'c.trans ⟨q, by rw [hc]; ring⟩)
            have h3 := natDegree_le_of_dvd hq'c hc0
            omega
      · exact hres

/-- `distinct_degree_sound`: on a squarefree input, every irreducible factor of the part that `degree`
returns under the label d has degree exactly d -/
theorem degree_sound (poly : Poly) (ds : Factors) (hpoly : GoodNZ p poly) (hsq : SqF p (mp p poly))
    (h : degree poly (p : Int) = .ok ds) : ∀ x ∈ ds, DegPart p x := by
  refine degreeLoop_sound p _ poly [0, 1] 0 [] ds hpoly hsq ?_ ?_ (by simp) h
  · rw [mp_x]; simp
  · intro q hq _
    exact hq.natDegree_pos

/-! ## assembly: irreducibility and distinctness -/

omit hp in
theorem mem_dvd_lprod {l : List Poly} {x : Poly} (hx : x ∈ l) : mp p x ∣ lprod p l :=
  List.dvd_prod (List.mem_map_of_mem hx)

omit hp in
theorem mem_dvd_pprod {l : Factors} {x : Poly × Nat} (hx : x ∈ l) : mp p x.1 ∣ pprod p l :=
  List.dvd_prod (List.mem_map.mpr ⟨x, hx, rfl⟩)

theorem normaliseAll_irred (d e : Nat) (hd1 : 1 ≤ d) (he : 1 ≤ e) : ∀ (l : List Poly) (result res' : Factors),
    (∀ x ∈ l, GoodNZ p x ∧ ∀ q : (ZMod p)[X], Irreducible q → q ∣ mp p x → q.natDegree = d) →
    (∀ x ∈ result, Irreducible (mp p x.1)) →
    normaliseAll (p : Int) d e l result = .ok res' →
    (∀ x ∈ res', Irreducible (mp p x.1)) ∧ Associated (pprod p res') (pprod p result * lprod p l) := by
  intro l
  induction l with
  | nil =>
    intro result res' _ hres h
    simp only [normaliseAll, pure, Except.pure, Except.ok.injEq] at h
    subst h
    exact ⟨hres, by simp⟩
  | cons factor rest ih =>
    intro result res' hl hres h
    simp only [normaliseAll] at h
    split at h
    · simp [throw, throwThe, MonadExceptOf.throw] at h
    rename_i hdeg
    have hdeg : degU factor = d := by simpa using hdeg
    obtain ⟨hf, hfd⟩ := hl factor (by simp)
    obtain ⟨s1, s2⟩ := normalise_one p factor d hf hdeg hd1 e he
    have hnd : (mp p factor).natDegree = d := by rw [← degU_eq_natDegree p factor hf.1 hf.2]; exact hdeg
    have hirr : Irreducible (mp p factor) := irreducible_of_factor_degrees p hd1 hnd hfd
    have hres' : ∀ x ∈ result ++ [(polyMod (mul factor (fromRaw [modinv (coefAt factor d) p])) p, e)],
        Irreducible (mp p x.1) := by
      intro x hx
      rcases List.mem_append.mp hx with hx | hx
      · exact hres x hx
      · simp only [List.mem_singleton] at hx; subst hx; exact s2.symm.irreducible hirr
    obtain ⟨i1, i2⟩ := ih _ res' (fun x hx => hl x (by simp [hx])) hres' h
    refine ⟨i1, i2.trans ?_⟩
    rw [pprod_append, pprod_cons, pprod_nil, mul_one, lprod_cons]
    have := (s2.mul_left (pprod p result)).mul_right (lprod p rest)
    exact this.trans (Associated.of_eq (by ring))

theorem splitAll_irred (e : Nat) (he : 1 ≤ e) : ∀ (ds result : Factors) (s : NTV.Draw.Stream) (res' : Factors)
    (s' : NTV.Draw.Stream), (∀ x ∈ ds, GoodNZ p x.1 ∧ DegPart p x) → (∀ x ∈ result, Irreducible (mp p x.1)) →
    splitAll (p : Int) e ds result s = .ok (res', s') →
    (∀ x ∈ res', Irreducible (mp p x.1)) ∧ Associated (pprod p res') (pprod p result * pprod p ds) := by
  intro ds
  induction ds with
  | nil =>
    intro result s res' s' _ hres h
    simp only [splitAll, pure, Except.pure, Except.ok.injEq, Prod.mk.injEq] at h
    obtain ⟨rfl, rfl⟩ := h
    exact ⟨hres, by simp⟩
  | cons x rest ih =>
    obtain ⟨prod, d⟩ := x
    intro result s res' s' hds hres h
    obtain ⟨hprod, hpart⟩ := hds (prod, d) (by simp)
    have hrest : ∀ x ∈ rest, GoodNZ p x.1 ∧ DegPart p x := fun x hx => hds x (by simp [hx])
    simp only [splitAll] at h
    split at h
    · rename_i hd0
      obtain ⟨i1, i2⟩ := ih _ _ _ _ hrest hres h
      refine ⟨i1, i2.trans ?_⟩
      rw [pprod_cons]
      have hu : IsUnit (mp p prod) := isUnit_mp_of_degU_zero p hprod hd0
      exact (associated_unit_mul_right (pprod p rest) _ hu).mul_left (pprod p result)
    · obtain ⟨⟨spl, s1⟩, h1, h⟩ := (bind_ok_iff _ _ _).mp h
      obtain ⟨r1, h2, h3⟩ := (bind_ok_iff _ _ _).mp h
      obtain ⟨f1, f2, f3⟩ := finalSplit_product p prod d s spl s1 hprod h1
      have hl : ∀ x ∈ spl, GoodNZ p x ∧ ∀ q : (ZMod p)[X], Irreducible q → q ∣ mp p x → q.natDegree = d :=
        fun x hx => ⟨f2 x hx, fun q hq hqx => hpart q hq ((hqx.trans (mem_dvd_lprod p hx)).trans f1.dvd)⟩
      obtain ⟨n1, n2⟩ := normaliseAll_irred p d e (by omega) he spl result r1 hl hres h2
      obtain ⟨i1, i2⟩ := ih _ _ _ _ hrest n1 h3
      refine ⟨i1, i2.trans ?_⟩
      rw [pprod_cons]
      have := (n2.trans (f1.mul_left (pprod p result))).mul_right (pprod p rest)
      exact this.trans (Associated.of_eq (by ring))

theorem factorAll_irred : ∀ (sqs result : Factors) (s : NTV.Draw.Stream) (res' : Factors)
    (s' : NTV.Draw.Stream), (∀ x ∈ sqs, Entry p x ∧ SqF p (mp p x.1)) → (∀ x ∈ result, Irreducible (mp p x.1)) →
    factorAll (p : Int) sqs result s = .ok (res', s') →
    (∀ x ∈ res', Irreducible (mp p x.1)) ∧ Associated (pprod p res') (pprod p result * pprod p sqs) := by
  intro sqs
  induction sqs with
  | nil =>
    intro result s res' s' _ hres h
    simp only [factorAll, pure, Except.pure, Except.ok.injEq, Prod.mk.injEq] at h
    obtain ⟨rfl, rfl⟩ := h
    exact ⟨hres, by simp⟩
  | cons x rest ih =>
    obtain ⟨sq, e⟩ := x
    intro result s res' s' hsqs hres h
    obtain ⟨⟨hsq, he⟩, hsqf⟩ := hsqs (sq, e) (by simp)
    simp only [factorAll] at h
    obtain ⟨degrees, h1, h⟩ := (bind_ok_iff _ _ _).mp h
    obtain ⟨⟨r1, s1⟩, h2, h3⟩ := (bind_ok_iff _ _ _).mp h
    obtain ⟨d1, d2⟩ := degree_product p sq degrees hsq h1
    have d3 := degree_sound p sq degrees hsq hsqf h1
    obtain ⟨p1, p2⟩ := splitAll_irred p e he degrees result s r1 s1 (fun x hx => ⟨d2 x hx, d3 x hx⟩) hres h2
    obtain ⟨i1, i2⟩ := ih _ _ _ _ (fun x hx => hsqs x (by simp [hx])) p1 h3
    refine ⟨i1, i2.trans ?_⟩
    rw [pprod_cons]
    have := (p2.trans (d1.mul_left (pprod p result))).mul_right (pprod p rest)
    exact this.trans (Associated.of_eq (by ring))

/-- every returned factor is irreducible over F_p, and no factor is returned twice -/
theorem factorizeModP_irreducible_nodup (f : Poly) (pusize : Nat) (s : NTV.Draw.Stream) (fs : Factors)
    (hpu : pusize = p ∨ f.length ≤ p) (h : factorizeModP f (p : Int) pusize s = .ok fs) :
    (∀ x ∈ fs, Irreducible (mp p x.1)) ∧ (fs.map Prod.fst).Nodup := by
  unfold factorizeModP at h
  obtain ⟨sq, h1, h⟩ := (bind_ok_iff _ _ _).mp h
  obtain ⟨⟨r, s'⟩, h2, h3⟩ := (bind_ok_iff _ _ _).mp h
  simp only [pure, Except.pure, Except.ok.injEq] at h3
  subst h3
  have hgood := good_polyMod p hp.out.pos f
  have hne : polyMod f p ≠ [] := by
    intro e
    rw [e] at h1
    simp [squarefree, throw, throwThe, MonadExceptOf.throw] at h1
  have hpu' : pusize = p ∨ (polyMod f p).length ≤ p := by
    rcases hpu with h | h
    · exact Or.inl h
    · exact Or.inr ((length_polyMod_le f p).trans h)
  obtain ⟨_, q2, q3⟩ := squarefree_product p (polyMod f p) pusize sq ⟨hgood, hne⟩ hpu' h1
  obtain ⟨a1, a2⟩ := factorAll_irred p sq [] s r s'
    (fun x hx => ⟨q2 x hx, q3.of_dvd p (mem_dvd_pprod p hx)⟩) (by simp) h2
  refine ⟨a1, ?_⟩
  rw [pprod_nil, one_mul] at a2
  have hsq : SqF p (pprod p r) := q3.of_dvd p a2.dvd
  have hnd : (r.map (fun x : Poly × Nat => mp p x.1)).Nodup := nodup_of_sqF_prod p _
    (by intro y hy; obtain ⟨x, hx, rfl⟩ := List.mem_map.mp hy; exact a1 x hx) hsq
  have : r.map (fun x => mp p x.1) = (r.map Prod.fst).map (mp p) := by simp
  rw [this] at hnd
  exact hnd.of_map _

end prime
end NTV.PolyMod
