import NTV.Proofs.Lemmas.PolyGcdMod
import Mathlib.Algebra.Polynomial.Roots
import Mathlib.Algebra.Polynomial.FieldDivision
import Mathlib.Data.ZMod.Basic
/-! Bridge from the list model of polynomials modulo p (`Reduced`, `Canon`, `PCong`, `DvdP`) to
Mathlib's `(ZMod p)[X]`: `red p l` is the image of the coefficient list `l` in `(ZMod p)[X]`. -/
open Polynomial
namespace NTV.PolyMod
open NTV.PolyG NTV.Hensel

/-- the image of a coefficient list in `(ZMod p)[X]` -/
noncomputable def red (p : ℕ) (l : List Int) : (ZMod p)[X] := (toPoly l).map (Int.castRingHom (ZMod p))

theorem pcong_map (p : ℕ) (F G : ℤ[X]) :
    PCong (p : ℤ) F G ↔ F.map (Int.castRingHom (ZMod p)) = G.map (Int.castRingHom (ZMod p)) := by
  constructor
  · rintro ⟨K, hK⟩
    have e : F = G + C (p : ℤ) * K := by linear_combination hK
    rw [e]
    simp
  · intro h
    rw [pcong_iff]
    intro j
    have h2 := congrArg (fun P => P.coeff j) h
    simp only [coeff_map, eq_intCast] at h2
    rw [coeff_sub, ← ZMod.intCast_zmod_eq_zero_iff_dvd]
    push_cast
    rw [h2]; ring

theorem dvdP_map (p : ℕ) (g f : ℤ[X]) :
    DvdP (p : ℤ) g f ↔ g.map (Int.castRingHom (ZMod p)) ∣ f.map (Int.castRingHom (ZMod p)) := by
  constructor
  · rintro ⟨k, hk⟩
    rw [pcong_map] at hk
    rw [hk, Polynomial.map_mul]
    exact Dvd.intro_left _ rfl
  · rintro ⟨k, hk⟩
    obtain ⟨k', rfl⟩ := Polynomial.map_surjective (Int.castRingHom (ZMod p)) (ZMod.intCast_surjective) k
    refine ⟨k', ?_⟩
    rw [pcong_map, hk, Polynomial.map_mul, mul_comm]

theorem red_nil (p : ℕ) : red p [] = 0 := by simp [red, toPoly]

theorem red_cons (p : ℕ) (c : Int) (cs : List Int) : red p (c :: cs) = C (c : ZMod p) + X * red p cs := by
  simp [red, toPoly]

theorem coeff_red (p : ℕ) (l : List Int) (j : Nat) : (red p l).coeff j = ((l.getD j 0 : Int) : ZMod p) := by
  simp [red, coeff_toPoly]

theorem red_fromRaw (p : ℕ) (l : List Int) : red p (fromRaw l) = red p l := by
  simp [red, toPoly_fromRaw]

theorem red_add (p : ℕ) (a b : List Int) : red p (add a b) = red p a + red p b := by
  simp [red, toPoly_add]

theorem red_sub (p : ℕ) (a b : List Int) : red p (sub a b) = red p a - red p b := by
  simp [red, toPoly_sub]

theorem red_mul (p : ℕ) (a b : List Int) : red p (mul a b) = red p a * red p b := by
  simp [red, toPoly_mul]

theorem red_polyMod (p : ℕ) (hp : 0 < p) (f : List Int) : red p (polyMod f p) = red p f := by
  have := (polyMod_reduced f p (by exact_mod_cast hp)).2.2
  rw [pcong_map] at this
  exact this

theorem toPoly_append (l m : List Int) : toPoly (l ++ m) = toPoly l + X ^ l.length * toPoly m := by
  induction l with
  | nil => simp [toPoly]
  | cons x xs ih => simp only [List.cons_append, toPoly, ih, List.length_cons]; ring

theorem red_append (p : ℕ) (l m : List Int) : red p (l ++ m) = red p l + X ^ l.length * red p m := by
  simp [red, toPoly_append]

/-- an integer in (0, p) is non-zero in ZMod p -/
theorem cast_ne_zero_of_range (p : ℕ) (c : Int) (h0 : 0 < c) (h1 : c < p) : (c : ZMod p) ≠ 0 := by
  rw [Ne, ZMod.intCast_zmod_eq_zero_iff_dvd]
  intro hd
  have := Int.le_of_dvd h0 hd
  omega

/-- two integers in [0, p) that agree in ZMod p are equal -/
theorem cast_inj_of_range (p : ℕ) (c d : Int) (hc0 : 0 ≤ c) (hc1 : c < p) (hd0 : 0 ≤ d) (hd1 : d < p)
    (h : (c : ZMod p) = (d : ZMod p)) : c = d := by
  rw [ZMod.intCast_eq_intCast_iff] at h
  have := Int.ModEq.eq h
  rw [Int.emod_eq_of_lt hc0 hc1, Int.emod_eq_of_lt hd0 hd1] at this
  exact this

theorem natDegree_red_le (p : ℕ) (l : List Int) : (red p l).natDegree ≤ l.length - 1 := by
  rw [natDegree_le_iff_coeff_eq_zero]
  intro N hN
  rw [coeff_red, getD_of_length_le l N (by omega)]
  simp

theorem degree_red_lt (p : ℕ) (l : List Int) : (red p l).degree < l.length := by
  rw [degree_lt_iff_coeff_zero]
  intro N hN
  rw [coeff_red, getD_of_length_le l N (by exact_mod_cast hN)]
  simp

/-- a reduced canonical non-empty list denotes a non-zero polynomial of degree length − 1 -/
theorem red_spec (p : ℕ) (l : List Int) (hne : l ≠ []) (hr : Reduced (p : Int) l) (hc : Canon l) :
    red p l ≠ 0 ∧ (red p l).natDegree = l.length - 1 := by
  have h0 := lc_ne_zero l hne hc
  have hl := lc_eq_getD l hne
  obtain ⟨h1, h2⟩ := hr (l.length - 1)
  rw [hl] at h1 h2
  have hcoef : (red p l).coeff (l.length - 1) ≠ 0 := by
    rw [coeff_red, hl]
    exact cast_ne_zero_of_range p _ (lt_of_le_of_ne h1 (Ne.symm h0)) h2
  refine ⟨fun e => by rw [e] at hcoef; simp at hcoef, ?_⟩
  exact le_antisymm (natDegree_red_le p l) (le_natDegree_of_ne_zero hcoef)

theorem ne_nil_of_red_ne_zero (p : ℕ) (l : List Int) (h : red p l ≠ 0) : l ≠ [] := by
  intro e; rw [e, red_nil] at h; exact h rfl

theorem red_eq_zero_iff (p : ℕ) (l : List Int) (hr : Reduced (p : Int) l) (hc : Canon l) :
    red p l = 0 ↔ l = [] := by
  constructor
  · intro h
    by_contra hne
    exact (red_spec p l hne hr hc).1 h
  · intro h; rw [h, red_nil]

end NTV.PolyMod
