import NTV.Proofs.Lemmas.FactorModPSquarefree
/-! # C08: `factorize_mod_p` — product identity, shape of the factors, irrelevance of `pusize` -/
open Polynomial
namespace NTV.PolyMod
open NTV.PolyG NTV.Hensel

theorem bind_congr_ok {α β : Type} (x : M α) (f g : α → M β) (h : ∀ a, x = .ok a → f a = g a) :
    x >>= f = x >>= g := by
  cases x with
  | error e => rfl
  | ok a => exact h a rfl

theorem length_polyMod_le (f : Poly) (p : Int) : (polyMod f p).length ≤ f.length := by
  unfold polyMod
  exact (length_fromRaw_le_length _).trans (by simp)

section prime
variable (p : ℕ) [hp : Fact p.Prime]

/-- when deg t₀ < p no p-th root is ever taken, so `pusize` is never read -/
theorem sqOuter_pusize_irrelevant (u u' : Nat) (fuel : Nat) (t0 : Poly) (e : Nat) (result : Factors)
    (ht0 : GoodNZ p t0) (he : 1 ≤ e) (hlen : t0.length ≤ p) (hres : ∀ x ∈ result, Entry p x) :
    sqOuter (p : Int) u fuel t0 e result = sqOuter (p : Int) u' fuel t0 e result := by
  cases fuel with
  | zero => rfl
  | succ fuel =>
    simp only [sqOuter]
    split
    · rfl
    · apply bind_congr_ok
      intro t hg
      apply bind_congr_ok
      rintro ⟨exit, r1⟩ hin
      cases exit with
      | done => rfl
      | root t' =>
        exfalso
        have hder : Good p (differentialMod t0 p) := by
          unfold differentialMod
          split
          · exact good_nil p hp.out.pos
          · exact good_polyMod p hp.out.pos _
        have hderm : mp p (differentialMod t0 p) = derivative (mp p t0) := by
          unfold differentialMod
          split
          · rename_i he; exact absurd (by cases t0 <;> simp_all) ht0.2
          · rw [mp_polyMod]; simp [mp, toPoly_differential, derivative_map]
        obtain ⟨g1, g2⟩ := gcd_out p ht0.1 hder (Or.inl ht0.2) hg
        rw [hderm] at g1
        obtain ⟨ev, gv⟩ := divide_out p ht0 g2 g1.1
        have hinv : SqInv p (mp p t) (mp p (polyDivrem t0 t p).1) :=
          sqInv_init p (GoodNZ.mp_ne_zero p ht0) g1 ev
        obtain ⟨_, _, i3, _⟩ := sqInner_spec p e he _ t _ 0 result (.root t') r1 g2 gv hinv hres hin
        obtain ⟨j1, j2, j3, j4, _⟩ := i3 t' rfl
        have hnd : (mp p t').natDegree ≠ 0 := by rw [← degU_eq_natDegree p t' j1.1 j1.2]; exact j2
        have hge := le_natDegree_of_derivative_eq_zero p j3 hnd
        have hle : (mp p t').natDegree ≤ (mp p t0).natDegree :=
          natDegree_le_of_dvd (j4.trans g1.1) (GoodNZ.mp_ne_zero p ht0)
        rw [(natDegree_mp p t0 ht0.1 ht0.2).1] at hle
        have : 0 < t0.length := List.length_pos_of_ne_nil ht0.2
        omega

theorem squarefree_pusize_irrelevant (poly : Poly) (u u' : Nat) (hpoly : Good p poly) (hlen : poly.length ≤ p) :
    squarefree poly (p : Int) u = squarefree poly (p : Int) u' := by
  unfold squarefree
  split
  · rfl
  · rename_i hne
    have hnz : GoodNZ p poly := ⟨hpoly, by intro e; apply hne; rw [e]; rfl⟩
    rw [polyMod_of_good p poly hpoly]
    exact sqOuter_pusize_irrelevant p u u' _ poly 1 [] hnz (le_refl 1) hlen (by simp)

/-- for deg f < p the value of `pusize` does not influence the result (whatever it is: a list of
factors, a panic or an inconclusive run), for every draw stream -/
theorem factorizeModP_pusize_irrelevant (f : Poly) (u u' : Nat) (s : NTV.Draw.Stream) (hlen : f.length ≤ p) :
    factorizeModP f (p : Int) u s = factorizeModP f (p : Int) u' s := by
  simp only [factorizeModP]
  rw [squarefree_pusize_irrelevant p (polyMod f p) u u' (good_polyMod p hp.out.pos f)
    ((length_polyMod_le f p).trans hlen)]

theorem fprod_monic (fs : Factors) (h : ∀ x ∈ fs, Shape p x) : (fprod p fs).Monic := by
  induction fs with
  | nil => simp
  | cons x fs ih =>
    rw [fprod_cons]
    exact ((Shape.monic p (h x (by simp))).pow _).mul (ih fun y hy => h y (by simp [hy]))

/-- the assembled result of `factorize_mod_p`, in `(ZMod p)[X]` -/
theorem factorizeModP_spec (f : Poly) (pusize : Nat) (s : NTV.Draw.Stream) (fs : Factors)
    (hpu : pusize = p ∨ f.length ≤ p) (h : factorizeModP f (p : Int) pusize s = .ok fs) :
    mp p f = C (mp p f).leadingCoeff * fprod p fs ∧ (∀ x ∈ fs, Shape p x) ∧ polyMod f p ≠ [] := by
  unfold factorizeModP at h
  obtain ⟨sq, h1, h⟩ := (bind_ok_iff _ _ _).mp h
  obtain ⟨⟨r, s'⟩, h2, h3⟩ := (bind_ok_iff _ _ _).mp h
  simp only [pure, Except.pure, Except.ok.injEq] at h3
  subst h3
  have hgood := good_polyMod p hp.out.pos f
  have hne : polyMod f p ≠ [] := by
    intro e
    rw [e] at h1
    simp [squarefree, throw, throwThe, MonadExceptOf.throw] at h1
  have hnz : GoodNZ p (polyMod f p) := ⟨hgood, hne⟩
  have hpu' : pusize = p ∨ (polyMod f p).length ≤ p := by
    rcases hpu with h | h
    · exact Or.inl h
    · exact Or.inr ((length_polyMod_le f p).trans h)
  obtain ⟨q1, q2, q3⟩ := squarefree_product p (polyMod f p) pusize sq hnz hpu' h1
  obtain ⟨a1, a2⟩ := factorAll_spec p sq [] s r s' q2 (by simp) h2
  rw [fprod_nil, one_mul] at a1
  have hass : Associated (fprod p r) (mp p f) := by rw [← mp_polyMod]; exact a1.trans q1
  refine ⟨?_, a2, hne⟩
  -- a monic associate
  have hmonic : (fprod p r).Monic := fprod_monic p r a2
  obtain ⟨u, hu⟩ := hass
  obtain ⟨c, hc⟩ := Polynomial.isUnit_iff.mp u.isUnit
  rw [← hc.2] at hu
  rw [← hu, leadingCoeff_mul, hmonic.leadingCoeff, one_mul, leadingCoeff_C]
  ring

/-! ## back to ℤ[X] -/

/-- ∏ gᵉ in ℤ[X] -/
noncomputable def factorProduct (fs : Factors) : ℤ[X] := (fs.map (fun x => toPoly x.1 ^ x.2)).prod
/-- ∏ g over the first components, in ℤ[X] -/
noncomputable def partProduct (fs : Factors) : ℤ[X] := (fs.map (fun x => toPoly x.1)).prod
/-- ∏ g over a list of polynomials, in ℤ[X] -/
noncomputable def listProduct (l : List Poly) : ℤ[X] := (l.map toPoly).prod

theorem map_factorProduct (fs : Factors) : (factorProduct fs).map (Int.castRingHom (ZMod p)) = fprod p fs := by
  induction fs with
  | nil => simp [factorProduct]
  | cons x fs ih =>
    rw [fprod_cons, ← ih]
    simp [factorProduct, mp]

theorem map_partProduct (fs : Factors) : (partProduct fs).map (Int.castRingHom (ZMod p)) = pprod p fs := by
  induction fs with
  | nil => simp [partProduct]
  | cons x fs ih =>
    rw [pprod_cons, ← ih]
    simp [partProduct, mp]

theorem map_listProduct (l : List Poly) : (listProduct l).map (Int.castRingHom (ZMod p)) = lprod p l := by
  induction l with
  | nil => simp [listProduct]
  | cons x fs ih =>
    rw [lprod_cons, ← ih]
    simp [listProduct, mp]

/-- "equal up to a unit of F_p" read back in ℤ[X]: a congruence after multiplying by an integer
constant c with 0 < c < p -/
theorem pcong_of_associated (F G : ℤ[X])
    (h : Associated (F.map (Int.castRingHom (ZMod p))) (G.map (Int.castRingHom (ZMod p)))) :
    ∃ c : ℤ, 0 < c ∧ c < p ∧ PCong (p : ℤ) (C c * F) G := by
  obtain ⟨u, hu⟩ := h
  obtain ⟨c', hc'⟩ := Polynomial.isUnit_iff.mp u.isUnit
  have hc0 : c' ≠ 0 := hc'.1.ne_zero
  have : NeZero p := ⟨hp.out.ne_zero⟩
  have hcast : (((c'.val : ℕ) : ℤ) : ZMod p) = c' := by rw [Int.cast_natCast, ZMod.natCast_zmod_val]
  refine ⟨(c'.val : ℤ), by exact_mod_cast (ZMod.val_pos.mpr hc0), by exact_mod_cast ZMod.val_lt c', ?_⟩
  rw [pcong_iff_map, ← hu, ← hc'.2, Polynomial.map_mul, map_C, eq_intCast, hcast, mul_comm]

end prime
end NTV.PolyMod
