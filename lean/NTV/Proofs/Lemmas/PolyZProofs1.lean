import NTV.Model.PolyZ
import NTV.Proofs.C09
import NTV.Proofs.Lemmas.GcdDvd
/-! Structure of `NTV.PolyZ.factorize` (model of src/poly_z/mod.rs), part 1: the loops.
Everything here holds for every input, every draw stream and whatever the modular stage (factorisation
modulo p, Hensel lifting) returns: only the exact trial divisions are used. -/
open Polynomial
namespace NTV.PolyZ
open NTV.PolyG NTV.PolyMod

/-- every integer polynomial is the value of a coefficient list -/
theorem exists_list (p : ℤ[X]) : ∃ l : List Int, toPoly l = p := by
  refine ⟨(List.range (p.natDegree + 1)).map p.coeff, ?_⟩
  ext n
  rw [coeff_toPoly]
  by_cases hn : n < p.natDegree + 1
  · simp [List.getD_eq_getElem?_getD, hn]
  · rw [getD_of_length_le _ _ (by simp; omega)]
    exact (coeff_eq_zero_of_natDegree_lt (by omega)).symm

theorem toPoly_ne_zero {a : List Int} (ha : a ≠ []) (hca : Canon a) : toPoly a ≠ 0 :=
  (natDegree_toPoly a ha hca).2.2

theorem quot_ne_nil {a q b : List Int} (ha : a ≠ []) (hca : Canon a) (h : toPoly a = toPoly q * toPoly b) :
    q ≠ [] := by
  rintro rfl
  simp only [toPoly, zero_mul] at h
  exact toPoly_ne_zero ha hca h

/-- `div_exact` fails on non-zero canonical arguments only if the divisor does not divide -/
theorem not_dvd_of_divExact_none {a f : List Int} (ha : a ≠ []) (hca : Canon a) (hf : f ≠ []) (hcf : Canon f)
    (h : divExact a f = none) : ¬ toPoly f ∣ toPoly a := by
  rintro ⟨q, hq⟩
  obtain ⟨q', hq'⟩ := exists_list q
  obtain ⟨q'', h''⟩ := divExact_complete a f q' ha hf hca hcf (by rw [hq', hq]; ring)
  rw [h] at h''; cases h''

/-- leading coefficients multiply -/
theorem lc_mul_of_toPoly {a q b : List Int} (ha : a ≠ []) (hca : Canon a) (hq : q ≠ []) (hcq : Canon q)
    (hb : b ≠ []) (hcb : Canon b) (h : toPoly a = toPoly q * toPoly b) : lc a = lc q * lc b := by
  rw [← (natDegree_toPoly a ha hca).2.1, ← (natDegree_toPoly q hq hcq).2.1, ← (natDegree_toPoly b hb hcb).2.1, h,
    leadingCoeff_mul]

/-! ### the multiplicity loop -/

/-- `while let Some(quo) = div_exact(&a, &factor)`: the loop divides `e - e0` times exactly and stops on
a cofactor that `div_exact` refuses -/
theorem multiplicity_spec (f : List Int) : ∀ (fuel : Nat) (a : List Int) (e0 : Nat) (a' : List Int) (e : Nat),
    a ≠ [] → Canon a → multiplicity f fuel a e0 = .ok (a', e) →
    e0 ≤ e ∧ toPoly a = toPoly a' * toPoly f ^ (e - e0) ∧ a' ≠ [] ∧ Canon a' ∧ divExact a' f = none := by
  intro fuel
  induction fuel with
  | zero => intro a e0 a' e _ _ h; simp [multiplicity, throw, throwThe, MonadExceptOf.throw] at h
  | succ fuel ih =>
    intro a e0 a' e ha hca h
    simp only [multiplicity] at h
    cases hd : divExact a f with
    | none =>
      rw [hd] at h
      simp only [pure, Except.pure, Except.ok.injEq, Prod.mk.injEq] at h
      obtain ⟨rfl, rfl⟩ := h
      exact ⟨le_refl _, by simp, ha, hca, hd⟩
    | some q =>
      rw [hd] at h
      obtain ⟨_, hq, hcq⟩ := divExact_sound a f q hd
      obtain ⟨h1, h2, h3, h4, h5⟩ := ih q (e0 + 1) a' e (quot_ne_nil ha hca hq) hcq h
      refine ⟨by omega, ?_, h3, h4, h5⟩
      rw [hq, h2, show e - e0 = (e - (e0 + 1)) + 1 by omega, pow_succ]; ring

/-- value of one output entry: f^e -/
noncomputable def pw (fe : List Int × Nat) : ℤ[X] := toPoly fe.1 ^ fe.2

/-- the `for factor in factors` loop: the output lists the given factors in order, the input is the last
cofactor `r` times the product of the powers, and each exponent is maximal for the cofactor the loop
had reached: the factor does not divide what was left after it -/
theorem multiplicities_spec : ∀ (fs : List (List Int)) (a : List Int) (res out : List (List Int × Nat)),
    a ≠ [] → Canon a → multiplicities fs a res = .ok out →
    ∃ (new : List (List Int × Nat)) (r : List Int), out = res ++ new ∧ new.map Prod.fst = fs ∧ r ≠ [] ∧ Canon r ∧
      toPoly a = toPoly r * (new.map pw).prod ∧
      ∀ l1 f e l2, new = l1 ++ (f, e) :: l2 → f ≠ [] → Canon f → ¬ toPoly f ∣ toPoly r * (l2.map pw).prod := by
  intro fs
  induction fs with
  | nil =>
    intro a res out ha hca h
    simp only [multiplicities, pure, Except.pure, Except.ok.injEq] at h
    subst h
    refine ⟨[], a, by simp, rfl, ha, hca, by simp, ?_⟩
    intro l1 f e l2 h; simp at h
  | cons f rest ih =>
    intro a res out ha hca h
    simp only [multiplicities, bind, Except.bind] at h
    split at h
    · cases h
    · rename_i v hv
      obtain ⟨a1, e⟩ := v
      obtain ⟨_, h2, h3, h4, h5⟩ := multiplicity_spec f _ a 0 a1 e ha hca hv
      obtain ⟨new, r, hout, hmap, hr, hcr, hprod, hmax⟩ := ih a1 _ out h3 h4 h
      refine ⟨(f, e) :: new, r, by rw [hout]; simp, by simp [hmap], hr, hcr, ?_, ?_⟩
      · rw [h2, hprod]; simp only [List.map_cons, List.prod_cons, pw, Nat.sub_zero]; ring
      · intro l1 f' e' l2 hsplit hf' hcf'
        cases l1 with
        | nil =>
          simp only [List.nil_append, List.cons.injEq, Prod.mk.injEq] at hsplit
          obtain ⟨⟨rfl, rfl⟩, rfl⟩ := hsplit
          rw [← hprod]
          exact not_dvd_of_divExact_none h3 h4 hf' hcf' h5
        | cons x l1 =>
          simp only [List.cons_append, List.cons.injEq] at hsplit
          exact hmax l1 f' e' l2 hsplit.2 hf' hcf'

/-! ### the recombination loop -/

/-- an accepted candidate of the subset loop: canonical, non-zero, positive leading coefficient,
primitive, and the new cofactor is the exact quotient -/
theorem subsetLoop_spec (pe pe2 : Int) (a : List Int) (lca : Int) (lifted : List Poly) (d : Nat)
    (ha : a ≠ []) (hca : Canon a) :
    ∀ (left bits : Nat) (pp a' : List Int) (l' : List Poly),
    subsetLoop pe pe2 a lca lifted d left bits = .ok (some (pp, a', l')) →
    pp ≠ [] ∧ Canon pp ∧ 0 < lc pp ∧ toPoly a = toPoly a' * toPoly pp ∧ a' ≠ [] ∧ Canon a' := by
  intro left
  induction left with
  | zero => intro bits pp a' l' h; simp [subsetLoop, pure, Except.pure] at h
  | succ left ih =>
    intro bits pp a' l' h
    simp only [subsetLoop] at h
    split at h
    · exact ih _ _ _ _ h
    · split at h
      · simp [throw, throwThe, MonadExceptOf.throw] at h
      · split at h
        · exact ih _ _ _ _ h
        · rename_i q hq
          obtain ⟨hprod, _, _⟩ := divExact_sound _ _ q hq
          simp only [bind, Except.bind, divExactExpect] at h
          split at h
          · cases h
          · rename_i a1 ha1
            split at ha1
            · rename_i q1 hq1
              simp only [pure, Except.pure, Except.ok.injEq, Option.some.injEq, Prod.mk.injEq] at h ha1
              obtain ⟨rfl, rfl, rfl⟩ := h
              subst ha1
              obtain ⟨hb, hq1', hcq1⟩ := divExact_sound _ _ q1 hq1
              have hcprod : Canon (sub (polyMod (add (subsetProd pe lifted bits (fromRaw [lca]))
                  (fromRaw (List.replicate (degU (subsetProd pe lifted bits (fromRaw [lca])) + 1) pe2))) pe)
                  (fromRaw (List.replicate (degU (subsetProd pe lifted bits (fromRaw [lca])) + 1) pe2))) :=
                canon_sub _ _ (canon_fromRaw _) (canon_fromRaw _)
              obtain ⟨_, _, s3, s4⟩ := contPP_spec _ hprod hcprod
              exact ⟨hb, s4, s3, hq1', quot_ne_nil ha hca hq1', hcq1⟩
            · simp [throw, throwThe, MonadExceptOf.throw] at ha1

/-- `'outer: while 2 * d <= lifted.len() { … }; result.push(a)`: the polynomials appended to `result`
multiply to the polynomial the loop started from, each is canonical and non-zero, and all have a positive
leading coefficient if the starting polynomial has -/
theorem combine_spec (pe pe2 : Int) : ∀ (fuel : Nat) (a : List Int) (lifted : List Poly) (d : Nat)
    (result out : List Poly), a ≠ [] → Canon a → combine pe pe2 fuel a lifted d result = .ok out →
    ∃ new : List Poly, out = result ++ new ∧ toPoly a = (new.map toPoly).prod ∧
      ∀ f ∈ new, f ≠ [] ∧ Canon f ∧ (0 < lc a → 0 < lc f) := by
  intro fuel
  induction fuel with
  | zero => intro a lifted d result out _ _ h; simp [combine, throw, throwThe, MonadExceptOf.throw] at h
  | succ fuel ih =>
    intro a lifted d result out ha hca h
    simp only [combine] at h
    split at h
    · split at h
      · simp [throw, throwThe, MonadExceptOf.throw] at h
      · simp only [bind, Except.bind] at h
        split at h
        · cases h
        · rename_i v hv
          split at h
          · rename_i pp a1 l1
            obtain ⟨s1, s2, s3, s4, s5, s6⟩ := subsetLoop_spec pe pe2 a _ lifted d ha hca _ _ pp a1 l1 hv
            obtain ⟨new, hout, hprod, hall⟩ := ih a1 l1 d _ out s5 s6 h
            have hlc := lc_mul_of_toPoly ha hca s5 s6 s1 s2 s4
            have hpos : 0 < lc a → 0 < lc a1 := by
              intro h0; rw [hlc] at h0
              exact (pos_iff_pos_of_mul_pos h0).mpr s3
            refine ⟨pp :: new, by rw [hout]; simp, ?_, ?_⟩
            · rw [s4, hprod]; simp only [List.map_cons, List.prod_cons]; ring
            · intro f hf
              rcases List.mem_cons.mp hf with rfl | hf
              · exact ⟨s1, s2, fun _ => s3⟩
              · obtain ⟨t1, t2, t3⟩ := hall f hf
                exact ⟨t1, t2, fun h0 => t3 (hpos h0)⟩
          · exact ih a lifted (d + 1) result out ha hca h
    · simp only [pure, Except.pure, Except.ok.injEq] at h
      subst h
      refine ⟨[a], rfl, by simp, ?_⟩
      intro f hf
      simp only [List.mem_singleton] at hf; subst hf
      exact ⟨ha, hca, id⟩

/-- `get_factors_of_squarefree`: whatever the modular stage returns, the returned polynomials multiply
(exactly, in ℤ[X]) to the argument; each is canonical and non-zero, and all have a positive leading
coefficient if the argument has -/
theorem getFactorsOfSquarefree_spec (a : List Int) (s : NTV.Draw.Stream) (out : List Poly) (hca : Canon a)
    (h : getFactorsOfSquarefree a s = .ok out) :
    a ≠ [] ∧ toPoly a = (out.map toPoly).prod ∧ ∀ f ∈ out, f ≠ [] ∧ Canon f ∧ (0 < lc a → 0 < lc f) := by
  unfold getFactorsOfSquarefree at h
  simp only [bind, Except.bind] at h
  split at h
  · simp [throw, throwThe, MonadExceptOf.throw] at h
  · rename_i hne
    have ha : a ≠ [] := by rintro rfl; simp at hne
    refine ⟨ha, ?_⟩
    split at h
    · cases h
    · split at h
      · cases h
      · split at h
        · cases h
        · split at h
          · simp [throw, throwThe, MonadExceptOf.throw] at h
          · split at h
            · cases h
            · obtain ⟨new, hout, hprod, hall⟩ := combine_spec _ _ _ a _ 1 [] out ha hca h
              simp only [List.nil_append] at hout
              subst hout
              exact ⟨hprod, hall⟩

end NTV.PolyZ
