import NTV.Proofs.Lemmas.RabinMonierCount
import Mathlib.Probability.Distributions.Uniform
/-! Measure-theoretic reading of the Rabin–Monier count: under the uniform distribution on base vectors
in [1, n−1]^k a composite n is accepted with probability ≤ (1/4)^k. -/
namespace NTV.Prime
open scoped ENNReal

theorem icc_nonempty (n : Nat) (hn : 1 < n) : (Finset.Icc 1 (n - 1)).Nonempty :=
  ⟨1, Finset.mem_Icc.mpr ⟨le_refl _, by omega⟩⟩

theorem baseVectors_nonempty (n k : Nat) (hn : 1 < n) :
    (Fintype.piFinset (fun _ : Fin k => Finset.Icc 1 (n - 1))).Nonempty :=
  Fintype.piFinset_nonempty.mpr (fun _ => icc_nonempty n hn)

/-- the uniform distribution on vectors of k bases in [1, n − 1] -/
noncomputable def uniformBases (n k : Nat) (hn : 1 < n) : PMF (Fin k → Nat) :=
  PMF.uniformOfFinset (Fintype.piFinset (fun _ : Fin k => Finset.Icc 1 (n - 1)))
    (baseVectors_nonempty n k hn)

/-- a ratio of naturals bounded by counting -/
theorem ennreal_div_le_of_mul_le (a b c : Nat) (hb : 0 < b) (hc : 0 < c) (h : c * a ≤ b) :
    ((a : ℝ≥0∞) / (b : ℝ≥0∞)) ≤ (1 / (c : ℝ≥0∞)) := by
  have hb0 : (b : ℝ≥0∞) ≠ 0 := by exact_mod_cast hb.ne'
  have hc0 : (c : ℝ≥0∞) ≠ 0 := by exact_mod_cast hc.ne'
  rw [ENNReal.div_le_iff hb0 (ENNReal.natCast_ne_top b), one_div]
  rw [← ENNReal.div_eq_inv_mul, ENNReal.le_div_iff_mul_le (Or.inl hc0) (Or.inl (ENNReal.natCast_ne_top c))]
  rw [mul_comm]
  exact_mod_cast h

theorem uniformBases_accept_le (n k : Nat) (hn : 1 < n) (hcomp : ¬ n.Prime) :
    (uniformBases n k hn).toOuterMeasure {f | isPrimeWith (n : Int) (List.ofFn f) = true}
      ≤ (1 / 4 : ℝ≥0∞) ^ k := by
  classical
  unfold uniformBases
  rw [PMF.toOuterMeasure_uniformOfFinset_apply]
  have hcount := four_pow_mul_card_accepting_le n k hn hcomp
  have hall := card_all_bases n k
  have hset : ∀ (inst : DecidablePred
      (fun x : Fin k → Nat => x ∈ {f : Fin k → Nat | isPrimeWith (n : Int) (List.ofFn f) = true})),
      @Finset.filter _ _ inst (Fintype.piFinset (fun _ : Fin k => Finset.Icc 1 (n - 1))) =
        accepting n k := by
    intro inst; unfold accepting; ext f; simp
  rw [hset, hall]
  have := ennreal_div_le_of_mul_le (accepting n k).card ((n - 1) ^ k) (4 ^ k)
    (Nat.pow_pos (by omega)) (Nat.pow_pos (by norm_num)) hcount
  calc ((accepting n k).card : ℝ≥0∞) / (((n - 1) ^ k : Nat) : ℝ≥0∞) ≤ 1 / ((4 ^ k : Nat) : ℝ≥0∞) := this
    _ = (1 / 4 : ℝ≥0∞) ^ k := by
      rw [one_div, one_div, Nat.cast_pow, ENNReal.inv_pow]; norm_cast

/-- the mass function of the uniform distribution on [1, n−1]^k is the product of k uniform mass
functions on [1, n−1]: the k bases are independent and each uniform on [1, n − 1]. -/
theorem uniformBases_apply_eq_prod (n k : Nat) (hn : 1 < n) (f : Fin k → Nat) :
    uniformBases n k hn f =
      ∏ i : Fin k, PMF.uniformOfFinset (Finset.Icc 1 (n - 1)) (icc_nonempty n hn) (f i) := by
  classical
  unfold uniformBases
  simp only [PMF.uniformOfFinset_apply, Fintype.mem_piFinset]
  by_cases h : ∀ i, f i ∈ Finset.Icc 1 (n - 1)
  · rw [if_pos h, Fintype.card_piFinset]
    simp only [Finset.prod_const, Finset.card_univ, Fintype.card_fin]
    simp only [h, if_true, Finset.prod_const, Finset.card_univ, Fintype.card_fin, Nat.cast_pow,
      ENNReal.inv_pow]
  · rw [if_neg h]
    simp only [not_forall] at h
    obtain ⟨i, hi⟩ := h
    exact (Finset.prod_eq_zero (Finset.mem_univ i) (if_neg hi)).symm

end NTV.Prime
