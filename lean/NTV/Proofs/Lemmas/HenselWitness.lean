import NTV.Proofs.Lemmas.HenselBridge
import Mathlib.RingTheory.PrincipalIdealDomain
import Mathlib.Algebra.Polynomial.Degree.Units
/-! C11, part 1: `poly_ext_gcd` / `poly_coprime_witness` on inputs whose leading coefficient is a unit
modulo the prime p: no error, Bezout identity modulo p. -/
open Polynomial
namespace NTV.PolyMod
open NTV.PolyG NTV.Hensel

/-- leading coefficient not divisible by p (for a non-empty list); implies canonical -/
def LcOK (p : ℤ) (l : List Int) : Prop := l ≠ [] → ¬ p ∣ lc l

theorem LcOK.canon {p : ℤ} {l : List Int} (h : LcOK p l) : Canon l := by
  intro hne
  rw [← lc_eq_getLast l hne]
  intro h0
  exact h hne (by rw [h0]; exact dvd_zero p)

theorem lcOK_nil (p : ℤ) : LcOK p [] := fun h => absurd rfl h

theorem lcOK_of_reduced (p : ℤ) (l : List Int) (hc : Canon l) (hr : Reduced p l) : LcOK p l := by
  intro hne hd
  have h0 := lc_ne_zero l hne hc
  have := hr (l.length - 1)
  rw [lc_eq_getD l hne] at this
  exact h0 (Int.eq_zero_of_dvd_of_nonneg_of_lt this.1 this.2 hd)

theorem lcOK_of_monic (p : ℤ) (hp : 1 < p) (l : List Int) (h : lc l = 1) : LcOK p l := by
  intro _ hd
  rw [h] at hd
  have := Int.eq_one_of_dvd_one (by omega) hd
  omega

theorem LcOK.coprime {p : ℕ} (hp : p.Prime) {l : List Int} (h : LcOK p l) (hne : l ≠ []) :
    IsCoprime (lc l) (p : ℤ) := by
  have hpi : Prime (p : ℤ) := Nat.prime_iff_prime_int.mp hp
  exact (IsCoprime.symm ((Prime.coprime_iff_not_dvd hpi).mpr (h hne)))

theorem polyDivrem_rem_reduced (a b : List Int) (p : Int) (hp0 : 0 < p) (ha : a ≠ []) (hb : b ≠ [])
    (hab : b.length ≤ a.length) (hinv : lc b * modinv (lc b) p ≡ 1 [ZMOD p]) :
    Reduced p (polyDivrem a b p).2 := by
  unfold polyDivrem
  have h1 : a.isEmpty = false := by cases a <;> simp_all
  have h2 : b.isEmpty = false := by cases b <;> simp_all
  have h3 : ¬ a.length < b.length := by omega
  simp only [h1, h2, Bool.or_self, h3, decide_false, Bool.false_eq_true, ↓reduceIte]
  apply reduced_fromRaw
  have hbl : 0 < b.length := List.length_pos_of_ne_nil hb
  have hblen : b.length = (b.length - 1) + 1 := by omega
  have hlen : a.length - b.length + 1 + b.length ≤ a.length + 1 := by omega
  intro j
  by_cases hj : j < b.length
  · exact divremLoop_window b _ p hp0 (b.length - 1) _ a [] (by omega) hlen j hj
  · have hdg := divremLoop_degree b (modinv (lc b) p) p hp0 (b.length - 1) hblen
      (by rw [lc_eq_getD b hb]; exact hinv)
      (a.length - b.length + 1) a [] hlen
      (by intro j hj; exact getD_of_length_le a j (by omega)) j (by omega)
    rw [hdg]; exact ⟨le_refl _, hp0⟩

/-- one division step of the Euclidean algorithm, in every branch -/
theorem polyDivrem_rel_lc (a b : List Int) (p : Nat) (hp : p.Prime) (ha : LcOK p a) (hb : LcOK p b) :
    PCong p (toPoly a) (toPoly (polyDivrem a b p).1 * toPoly b + toPoly (polyDivrem a b p).2) ∧
    LcOK p (polyDivrem a b p).2 ∧ (b ≠ [] → (polyDivrem a b p).2.length < b.length) := by
  have hp0 : (0 : Int) < p := by exact_mod_cast hp.pos
  by_cases hs : a.isEmpty || b.isEmpty || decide (a.length < b.length)
  · have e : polyDivrem a b p = ([], a) := by simp only [polyDivrem, hs, ↓reduceIte]
    rw [e]
    refine ⟨?_, ha, ?_⟩
    · simp only [toPoly, zero_mul, zero_add]; exact PCong.refl _ _
    · intro hbne
      simp only [Bool.or_eq_true, decide_eq_true_eq, List.isEmpty_iff] at hs
      have := List.length_pos_of_ne_nil hbne
      rcases hs with (h | h) | h
      · subst h; simpa using this
      · exact absurd h hbne
      · exact h
  · have hane : a ≠ [] := by intro e; simp [e] at hs
    have hbne : b ≠ [] := by intro e; simp [e] at hs
    have hab : b.length ≤ a.length := by
      simp only [Bool.or_eq_true, decide_eq_true_eq, not_or, not_lt] at hs; exact hs.2
    have hinv := modinv_spec p hp (lc b) (hb.coprime hp hbne)
    obtain ⟨c1, c2, _, c4⟩ := polyDivrem_contract a b p hp0 hane hbne hab hinv
    exact ⟨c1, lcOK_of_reduced _ _ c4 (polyDivrem_rem_reduced a b p hp0 hane hbne hab hinv), fun _ => c2⟩

theorem mapP_rel {p : ℕ} {a q b r : List Int}
    (h : PCong p (toPoly a) (toPoly q * toPoly b + toPoly r)) : mapP p a = mapP p q * mapP p b + mapP p r := by
  have := (pcong_iff_map p _ _).mp h
  simpa only [mapP, Polynomial.map_add, Polynomial.map_mul] using this

/-- `poly_ext_gcd`: enough fuel, Bezout identity, the result divides both arguments over F_p -/
theorem polyExtGcdAux_spec (p : Nat) (hp : p.Prime) : ∀ (fuel : Nat) (a b : List Int),
    LcOK p a → LcOK p b → (b.length + 1 < fuel ∨ (a = [] ∧ 1 ≤ fuel)) →
    ∃ g u v, polyExtGcdAux p fuel a b = .ok (g, u, v) ∧ LcOK p g ∧
      PCong p (toPoly g) (toPoly a * toPoly u + toPoly b * toPoly v) ∧
      mapP p g ∣ mapP p a ∧ mapP p g ∣ mapP p b := by
  intro fuel
  induction fuel with
  | zero => intro a b _ _ h; omega
  | succ f ih =>
    intro a b ha hb hfuel
    obtain ⟨hrel, hrlc, hrlen⟩ := polyDivrem_rel_lc a b p hp ha hb
    rcases hq : polyDivrem a b (p : Int) with ⟨quo, rem⟩
    rw [hq] at hrel hrlc hrlen
    simp only at hrel hrlc hrlen
    simp only [polyExtGcdAux, hq]
    by_cases hre : rem.isEmpty
    · have hr0 : rem = [] := List.isEmpty_iff.mp hre
      subst hr0
      simp only [List.isEmpty_nil, ↓reduceIte]
      refine ⟨b, [], [1], rfl, hb, ?_, ?_, dvd_refl _⟩
      · simp only [toPoly, mul_zero, zero_add, mul_zero, add_zero, map_one, mul_one]; exact PCong.refl _ _
      · have := mapP_rel hrel
        rw [this]
        simp only [mapP, toPoly, Polynomial.map_zero, add_zero]
        exact dvd_mul_left _ _
    · simp only [hre, Bool.false_eq_true, ↓reduceIte]
      have hfuel' : rem.length + 1 < f ∨ (b = [] ∧ 1 ≤ f) := by
        by_cases hbne : b = []
        · right
          refine ⟨hbne, ?_⟩
          rcases hfuel with h | ⟨h, _⟩
          · omega
          · exfalso
            subst h; subst hbne
            simp [polyDivrem] at hq
            exact hre (by rw [hq.2]; rfl)
        · left
          have := hrlen hbne
          rcases hfuel with h | ⟨h, _⟩
          · omega
          · exfalso
            subst h
            have e : polyDivrem [] b (p : Int) = ([], []) := by simp [polyDivrem]
            rw [e] at hq
            exact hre (by rw [← (Prod.mk.inj hq).2]; rfl)
      obtain ⟨g, u0, v0, hok, hg, hbez, hd1, hd2⟩ := ih b rem hb hrlc hfuel'
      rw [hok]
      refine ⟨g, v0, polyModSub u0 (polyMod (mul quo v0) p) p, rfl, hg, ?_, ?_, hd1⟩
      · -- g ≡ b u0 + rem v0, rem ≡ a - quo b
        have hv : PCong p (toPoly (polyModSub u0 (polyMod (mul quo v0) p) p))
            (toPoly u0 - toPoly quo * toPoly v0) := by
          unfold polyModSub
          refine PCong.trans (polyMod_cong _ _) ?_
          rw [toPoly_sub]
          refine PCong.sub (PCong.refl _ _) ?_
          refine PCong.trans (polyMod_cong _ _) ?_
          rw [toPoly_mul]; exact PCong.refl _ _
        have hrem : PCong p (toPoly rem) (toPoly a - toPoly quo * toPoly b) := by
          obtain ⟨w, hw⟩ := hrel
          exact ⟨-w, by linear_combination -hw⟩
        refine PCong.trans hbez ?_
        have h1 := PCong.add (PCong.refl (p : ℤ) (toPoly b * toPoly u0)) (PCong.mul hrem (PCong.refl (p : ℤ) (toPoly v0)))
        refine PCong.trans h1 ?_
        have h2 := PCong.add (PCong.refl (p : ℤ) (toPoly a * toPoly v0)) (PCong.mul (PCong.refl (p : ℤ) (toPoly b)) hv.symm)
        refine PCong.trans ?_ h2
        have e : toPoly b * toPoly u0 + (toPoly a - toPoly quo * toPoly b) * toPoly v0 =
            toPoly a * toPoly v0 + toPoly b * (toPoly u0 - toPoly quo * toPoly v0) := by ring
        rw [e]; exact PCong.refl _ _
      · rw [mapP_rel hrel]
        exact dvd_add (dvd_mul_of_dvd_right hd1 _) hd2

theorem pcong_C {p x y : ℤ} (h : x ≡ y [ZMOD p]) : PCong p (C x) (C y) := by
  obtain ⟨k, hk⟩ := (Int.modEq_iff_dvd.mp h.symm)
  exact ⟨C k, by rw [← C_sub, hk, C_mul]⟩

/-- C11: `poly_coprime_witness(a, b, p)` for a prime p and a, b with leading coefficients prime to p,
coprime over F_p: no error, and a·u + b·v ≡ 1 (mod p), with u, v reduced and canonical -/
theorem polyCoprimeWitness_spec (p : Nat) (hp : p.Prime) (a b : List Int) (ha : LcOK p a) (hb : LcOK p b)
    (hco : IsCoprime (mapP p a) (mapP p b)) :
    ∃ u v, polyCoprimeWitness a b p = .ok (u, v) ∧
      PCong p (toPoly a * toPoly u + toPoly b * toPoly v) 1 ∧
      Reduced p u ∧ Reduced p v ∧ Canon u ∧ Canon v := by
  have := Fact.mk hp
  have hp0 : (0 : Int) < p := by exact_mod_cast hp.pos
  obtain ⟨g, u, v, hok, hg, hbez, hd1, hd2⟩ :=
    polyExtGcdAux_spec p hp (a.length + b.length + 3) a b ha hb (Or.inl (by omega))
  have hunit : IsUnit (mapP p g) := hco.isUnit_of_dvd' hd1 hd2
  have hgne : g ≠ [] := by
    rintro rfl
    simp only [mapP, toPoly, Polynomial.map_zero] at hunit
    exact not_isUnit_zero hunit
  have hdeg0 := natDegree_eq_zero_of_isUnit hunit
  obtain ⟨d1, d2, _⟩ := natDegree_toPoly g hgne hg.canon
  have hlcz : (Int.castRingHom (ZMod p)) (toPoly g).leadingCoeff ≠ 0 := by
    rw [d2, eq_intCast, Ne, ZMod.intCast_zmod_eq_zero_iff_dvd]
    exact hg hgne
  have hlen : g.length = 1 := by
    have := natDegree_map_of_leadingCoeff_ne_zero _ hlcz
    rw [mapP] at hdeg0
    rw [hdeg0, d1] at this
    have := List.length_pos_of_ne_nil hgne
    omega
  obtain ⟨g0, rfl⟩ := List.length_eq_one_iff.mp hlen
  have hg0 : ¬ (p : ℤ) ∣ g0 := by simpa [lc] using hg hgne
  have hgcd : Int.gcd g0 p = 1 := by
    have := hg.coprime hp hgne
    rw [Int.isCoprime_iff_gcd_eq_one] at this
    simpa [lc] using this
  have hinv := egcdX_inv g0 p hgcd
  refine ⟨polyMod (polyMul u (Int.fmod (egcdX g0 p) p)) p, polyMod (polyMul v (Int.fmod (egcdX g0 p) p)) p, ?_, ?_,
    (polyMod_reduced _ _ hp0).1, (polyMod_reduced _ _ hp0).1, (polyMod_reduced _ _ hp0).2.1,
    (polyMod_reduced _ _ hp0).2.1⟩
  · unfold polyCoprimeWitness polyExtGcd
    rw [hok]
    simp [bind, Except.bind, degU, coefAt, pure, Except.pure]
  · set inv := Int.fmod (egcdX g0 p) p
    have hu : PCong p (toPoly (polyMod (polyMul u inv) p)) (C inv * toPoly u) := by
      refine PCong.trans (polyMod_cong _ _) ?_; rw [toPoly_polyMul]; exact PCong.refl _ _
    have hv : PCong p (toPoly (polyMod (polyMul v inv) p)) (C inv * toPoly v) := by
      refine PCong.trans (polyMod_cong _ _) ?_; rw [toPoly_polyMul]; exact PCong.refl _ _
    refine PCong.trans (PCong.add (PCong.mul (PCong.refl _ _) hu) (PCong.mul (PCong.refl _ _) hv)) ?_
    have e : toPoly a * (C inv * toPoly u) + toPoly b * (C inv * toPoly v) =
        C inv * (toPoly a * toPoly u + toPoly b * toPoly v) := by ring
    rw [e]
    refine PCong.trans (PCong.mul (PCong.refl _ _) hbez.symm) ?_
    have e2 : C inv * toPoly [g0] = C (g0 * inv) := by simp [toPoly]; ring
    rw [e2]
    simpa using pcong_C hinv

end NTV.PolyMod
