import Mathlib.RingTheory.IntegralClosure.IntegrallyClosed
import Mathlib.RingTheory.IntegralClosure.IsIntegral.Basic
import Mathlib.RingTheory.Finiteness.Basic
import Mathlib.RingTheory.Adjoin.FG
/-! # "Maximal order ⇒ integrally closed", abstract part.

`R` a commutative ring that is a finite ℤ-module, embedded in a field `K`; `O` its image. If every element of `K`
has a non-zero integer multiple in `O` (full rank) and `O` has no proper over-ring of finite index
(`∀ m ≥ 1, O ≤ S → m·S ⊆ O → S ≤ O`: the conclusion of `NTV.R2Abs.le_of_pmax_all`), then `R` is integrally closed:
for `y ∈ K` integral over `R` the ring `R[y]` is a finite ℤ-module, hence `m·R[y] ⊆ O` for some `m ≥ 1`. -/
namespace NTV.MaxOrd

variable {R K : Type*} [CommRing R] [Field K] [Algebra R K]

/-- finitely many elements of `K` have a common non-zero denominator with respect to `O` -/
theorem common_denominator (O : Subring K) (hspan : ∀ x : K, ∃ d : ℕ, d ≠ 0 ∧ (d : K) * x ∈ O)
    (s : Finset K) : ∃ m : ℕ, 1 ≤ m ∧ ∀ x ∈ s, (m : K) * x ∈ O := by
  classical
  induction s using Finset.induction_on with
  | empty => exact ⟨1, le_refl _, by simp⟩
  | insert a s _ ih =>
    obtain ⟨m, hm, hs⟩ := ih
    obtain ⟨d, hd, ha⟩ := hspan a
    refine ⟨d * m, Nat.one_le_iff_ne_zero.mpr (Nat.mul_ne_zero hd (by omega)), ?_⟩
    intro x hx
    rcases Finset.mem_insert.mp hx with rfl | hx
    · have := O.mul_mem (natCast_mem O m) ha
      convert this using 1
      push_cast; ring
    · have := O.mul_mem (natCast_mem O d) (hs x hx)
      convert this using 1
      push_cast; ring

/-- the elements with `m·x ∈ O`, a ℤ-submodule -/
def denomSub (O : Subring K) (m : ℕ) : Submodule ℤ K where
  carrier := {x | (m : K) * x ∈ O}
  add_mem' := fun {a b} ha hb => by
    show (m : K) * (a + b) ∈ O
    rw [mul_add]; exact O.add_mem ha hb
  zero_mem' := by
    show (m : K) * 0 ∈ O
    rw [mul_zero]; exact O.zero_mem
  smul_mem' := fun z a ha => by
    show (m : K) * (z • a) ∈ O
    rw [zsmul_eq_mul, mul_left_comm]
    exact O.mul_mem (intCast_mem O z) ha

/-- a subring of `K` that is a finitely generated ℤ-module has a common denominator -/
theorem exists_mul_mem_of_fg (O : Subring K) (hspan : ∀ x : K, ∃ d : ℕ, d ≠ 0 ∧ (d : K) * x ∈ O)
    (N : Submodule ℤ K) (hN : N.FG) : ∃ m : ℕ, 1 ≤ m ∧ ∀ x ∈ N, (m : K) * x ∈ O := by
  obtain ⟨s, hs⟩ := hN
  obtain ⟨m, hm, hall⟩ := common_denominator O hspan s
  refine ⟨m, hm, ?_⟩
  have hle : N ≤ denomSub O m := by
    rw [← hs, Submodule.span_le]
    intro x hx
    exact hall x hx
  intro x hx
  exact hle hx

/-- `R[y]` is a finitely generated ℤ-module when `R` is and `y` is integral over `R` -/
theorem adjoin_fg_int [Module.Finite ℤ R] (y : K) (hy : IsIntegral R y) :
    ((Algebra.adjoin R {y}).toSubring.toAddSubgroup.toIntSubmodule).FG := by
  have h1 : Module.Finite R (Algebra.adjoin R {y}) :=
    Module.Finite.of_fg hy.fg_adjoin_singleton
  have h2 : Module.Finite ℤ (Algebra.adjoin R {y}) := Module.Finite.trans R _
  obtain ⟨s, hs⟩ := h2.1
  classical
  refine ⟨s.image (fun x : Algebra.adjoin R {y} => (x : K)), ?_⟩
  apply le_antisymm
  · rw [Submodule.span_le]
    intro x hx
    simp only [Finset.coe_image, Set.mem_image] at hx
    obtain ⟨z, _, rfl⟩ := hx
    exact z.2
  · intro x hx
    have hx' : (⟨x, hx⟩ : Algebra.adjoin R {y}) ∈ Submodule.span ℤ (s : Set (Algebra.adjoin R {y})) := by
      rw [hs]; trivial
    have := Submodule.apply_mem_span_image_of_mem_span
      ((Algebra.adjoin R {y}).val.toLinearMap.restrictScalars ℤ) hx'
    simpa using this

/-- **the reduction**: an order (finite over ℤ, full rank in the field `K`) with no proper over-ring of finite
index contains every element of `K` that is integral over it -/
theorem mem_range_of_isIntegral [Module.Finite ℤ R]
    (hspan : ∀ x : K, ∃ d : ℕ, d ≠ 0 ∧ (d : K) * x ∈ (algebraMap R K).range)
    (hmax : ∀ m : ℕ, 1 ≤ m → ∀ S : Subring K, (algebraMap R K).range ≤ S →
      (∀ x ∈ S, (m : K) * x ∈ (algebraMap R K).range) → S ≤ (algebraMap R K).range)
    (y : K) (hy : IsIntegral R y) : y ∈ (algebraMap R K).range := by
  obtain ⟨m, hm, hall⟩ := exists_mul_mem_of_fg _ hspan _ (adjoin_fg_int y hy)
  have hle : (algebraMap R K).range ≤ (Algebra.adjoin R {y}).toSubring := by
    rintro _ ⟨r, rfl⟩
    exact (Algebra.adjoin R {y}).algebraMap_mem r
  apply hmax m hm (Algebra.adjoin R {y}).toSubring hle (fun x hx => hall x hx)
  exact Algebra.subset_adjoin (Set.mem_singleton y)

/-- … hence is integrally closed -/
theorem isIntegrallyClosed_of_maximal [Module.Finite ℤ R] (hinj : Function.Injective (algebraMap R K))
    (hspan : ∀ x : K, ∃ d : ℕ, d ≠ 0 ∧ (d : K) * x ∈ (algebraMap R K).range)
    (hmax : ∀ m : ℕ, 1 ≤ m → ∀ S : Subring K, (algebraMap R K).range ≤ S →
      (∀ x ∈ S, (m : K) * x ∈ (algebraMap R K).range) → S ≤ (algebraMap R K).range) :
    IsIntegrallyClosed R := by
  have : FaithfulSMul R K := (faithfulSMul_iff_algebraMap_injective R K).mpr hinj
  have : IsIntegrallyClosedIn R K := by
    rw [isIntegrallyClosedIn_iff]
    refine ⟨hinj, fun {x} hx => ?_⟩
    obtain ⟨r, hr⟩ := mem_range_of_isIntegral hspan hmax x hx
    exact ⟨r, hr⟩
  exact IsIntegrallyClosed.of_isIntegrallyClosedIn R K

end NTV.MaxOrd
