import NTV.Proofs.Lemmas.Round2RingB
import NTV.Proofs.Lemmas.Round2RingD
import Mathlib.FieldTheory.Finite.Basic
/-! Round 2: `mul_mod_p`, `pow_mod_p`, the bound `pow` and the Frobenius images `phi(w_i)` in terms of the
arithmetic of `K` (congruences modulo `m·O`). -/
open Matrix Finset
namespace NTV.R2Abs
open NTV.TableAbs

variable {K : Type*} [CommRing K]

/-- congruence modulo `m·O` -/
def CongO (O : Subring K) (m : ℕ) (x y : K) : Prop := x - y ∈ pO O m

theorem pO_neg {O : Subring K} {m : ℕ} {x : K} (hx : x ∈ pO O m) : -x ∈ pO O m := by
  obtain ⟨y, hy, rfl⟩ := hx
  exact ⟨-y, O.neg_mem hy, by ring⟩

theorem pO_sum {O : Subring K} {m : ℕ} {ι : Type*} (s : Finset ι) (g : ι → K)
    (hg : ∀ i ∈ s, g i ∈ pO O m) : ∑ i ∈ s, g i ∈ pO O m := by
  classical
  induction s using Finset.induction_on with
  | empty => simpa using pO_zero O m
  | insert a s ha ih =>
    rw [Finset.sum_insert ha]
    exact pO_add (hg a (by simp)) (ih (fun i hi => hg i (by simp [hi])))

namespace CongO
variable {O : Subring K} {m : ℕ} {x y z x' y' : K}

theorem refl (x : K) : CongO O m x x := by unfold CongO; rw [sub_self]; exact pO_zero O m

theorem symm (h : CongO O m x y) : CongO O m y x := by
  unfold CongO at *; rw [← neg_sub]; exact pO_neg h

theorem trans (h1 : CongO O m x y) (h2 : CongO O m y z) : CongO O m x z := by
  unfold CongO at *
  have := pO_add h1 h2
  rwa [sub_add_sub_cancel] at this

theorem add (h1 : CongO O m x x') (h2 : CongO O m y y') : CongO O m (x + y) (x' + y') := by
  unfold CongO at *
  have := pO_add h1 h2
  convert this using 1; ring

theorem mul (hx : x ∈ O) (hy' : y' ∈ O) (h1 : CongO O m x x') (h2 : CongO O m y y') :
    CongO O m (x * y) (x' * y') := by
  unfold CongO at *
  have := pO_add (pO_mul hx h2) (pO_mul hy' h1)
  convert this using 1; ring

theorem mul_left (a : K) (ha : a ∈ O) (h : CongO O m x y) : CongO O m (a * x) (a * y) := by
  unfold CongO at *
  rw [← mul_sub]; exact pO_mul ha h

theorem sum {ι : Type*} (s : Finset ι) (f g : ι → K) (h : ∀ i ∈ s, CongO O m (f i) (g i)) :
    CongO O m (∑ i ∈ s, f i) (∑ i ∈ s, g i) := by
  unfold CongO at *
  rw [← Finset.sum_sub_distrib]
  exact pO_sum s _ h

theorem mem_left (h : CongO O m x y) (hy : y ∈ O) : x ∈ O := by
  have := O.add_mem (pO_sub h) hy
  simpa using this

/-- congruent elements are together in `m·O` -/
theorem mem_pO_iff (h : CongO O m x y) : x ∈ pO O m ↔ y ∈ pO O m := by
  unfold CongO at h
  constructor
  · intro hx
    have := pO_add hx (pO_neg h)
    convert this using 1; ring
  · intro hy
    have := pO_add hy h
    convert this using 1; ring

end CongO

/-- Frobenius on finite sums -/
theorem frob_sum (O : Subring K) (p k : ℕ) (hp : p.Prime) {ι : Type*} (s : Finset ι) (x : ι → K)
    (hx : ∀ i ∈ s, x i ∈ O) : CongO O p ((∑ i ∈ s, x i) ^ p ^ k) (∑ i ∈ s, x i ^ p ^ k) := by
  classical
  induction s using Finset.induction_on with
  | empty =>
    simp only [Finset.sum_empty]
    rw [zero_pow (pow_ne_zero _ hp.ne_zero)]
    exact CongO.refl 0
  | insert a s ha ih =>
    rw [Finset.sum_insert ha, Finset.sum_insert ha]
    have hxa : x a ∈ O := hx a (by simp)
    have hxs : ∑ i ∈ s, x i ∈ O := O.sum_mem (fun i hi => hx i (by simp [hi]))
    obtain ⟨r, hr⟩ := exists_add_pow_prime_pow_eq hp (⟨x a, hxa⟩ : O) ⟨_, hxs⟩ k
    have hr' := congrArg (Subtype.val) hr
    simp only [Subring.coe_pow, Subring.coe_add, Subring.coe_mul, Subring.coe_natCast] at hr'
    have h1 : CongO O p ((x a + ∑ i ∈ s, x i) ^ p ^ k) (x a ^ p ^ k + (∑ i ∈ s, x i) ^ p ^ k) := by
      unfold CongO
      rw [hr']
      refine ⟨x a * (∑ i ∈ s, x i) * r.1, O.mul_mem (O.mul_mem hxa hxs) r.2, by ring⟩
    exact h1.trans ((CongO.refl _).add (ih (fun i hi => hx i (by simp [hi]))))

/-- Fermat for `q = p^k` -/
theorem frob_int (p k : ℕ) (hp : p.Prime) (c : ℤ) : (p : ℤ) ∣ c ^ p ^ k - c := by
  have : Fact p.Prime := ⟨hp⟩
  rw [← ZMod.intCast_zmod_eq_zero_iff_dvd]
  push_cast
  rw [ZMod.pow_card_pow, sub_self]

variable {n : ℕ} {q : ℚ →+* K} {Ω : Fin n → K} {T : Fin n → Fin n → Fin n → ℤ}

theorem el_eq_sum (c : Fin n → ℤ) : el q Ω c = ∑ i, (c i : K) * Ω i := by
  unfold el psi
  apply Finset.sum_congr rfl
  intro i _
  simp [castV]

theorem el_single [DecidableEq (Fin n)] (i : Fin n) : el q Ω (Pi.single i 1) = Ω i := by
  rw [el_eq_sum, Finset.sum_eq_single i]
  · simp
  · intro j _ hj; simp [Pi.single_eq_of_ne hj]
  · simp

theorem el_vecMul {r : ℕ} (v : Fin r → ℤ) (M : Matrix (Fin r) (Fin n) ℤ) :
    el q Ω (v ᵥ* M) = ∑ i, (v i : K) * el q Ω (M i) := by
  rw [Matrix.vecMul_eq_sum, el_sum]
  apply Finset.sum_congr rfl
  intro i _
  rw [el_zsmul]

/-- Frobenius on a coordinate vector: `(Σ c_i Ω_i)^q ≡ Σ c_i Ω_i^q` modulo `pO` -/
theorem frob_el (h : Ctx q Ω T) (one : ∃ e : Fin n → ℤ, el q Ω e = 1) (p k : ℕ) (hp : p.Prime)
    (hΩ : ∀ i, Ω i ∈ Olat h one) (c : Fin n → ℤ) :
    CongO (Olat h one) p (el q Ω c ^ p ^ k) (∑ i, (c i : K) * Ω i ^ p ^ k) := by
  rw [el_eq_sum]
  have hmem : ∀ i ∈ (Finset.univ : Finset (Fin n)), (c i : K) * Ω i ∈ Olat h one :=
    fun i _ => (Olat h one).mul_mem (intCast_mem _ _) (hΩ i)
  refine (frob_sum (Olat h one) p k hp Finset.univ _ hmem).trans ?_
  apply CongO.sum
  intro i _
  rw [mul_pow]
  unfold CongO
  rw [← sub_mul]
  obtain ⟨d, hd⟩ := frob_int p k hp (c i)
  refine ⟨(d : K) * Ω i ^ p ^ k, (Olat h one).mul_mem (intCast_mem _ _) ((Olat h one).pow_mem (hΩ i) _), ?_⟩
  have : ((c i : K)) ^ p ^ k - (c i : K) = (p : K) * (d : K) := by
    have := congrArg (fun z : ℤ => (z : K)) hd
    simpa using this
  rw [this]; ring

theorem Omega_mem (h : Ctx q Ω T) (one : ∃ e : Fin n → ℤ, el q Ω e = 1) (i : Fin n) : Ω i ∈ Olat h one := by
  classical
  exact ⟨Pi.single i 1, el_single i⟩

end NTV.R2Abs

namespace NTV.Round2
open NTV.Ord NTV.PolyG NTV.R2Abs
open NTV.TableAbs (Ctx mulVec)

variable {K : Type*} [CommRing K] {n : ℕ} {q : ℚ →+* K} {Ω : Fin n → K} {T : Fin n → Fin n → Fin n → ℤ}

/-- the list-level table `t` is the table `T` modulo `m` -/
def TableMod (n : ℕ) (t : Table) (T : Fin n → Fin n → Fin n → ℤ) (m : ℕ) : Prop :=
  ∀ i j k : Fin n, (m : ℤ) ∣ tent t i j k - T i j k

/-- **`mul_mod_p` multiplies modulo `m·O`** (for a table that is the true table modulo `m`, `m ∣ M`) -/
theorem mulModP_el (h : Ctx q Ω T) (one : ∃ e : Fin n → ℤ, el q Ω e = 1) (m : ℕ) (M : Int)
    (hM : (m : ℤ) ∣ M) (a b : List Int) (t : Table) (ha : a.length = n) (hb : b.length = n)
    (ht : Cube3 n t) (hT : TableMod n t T m) :
    CongO (Olat h one) m (el q Ω (vecZ (mulModP a b t M) n)) (el q Ω (vecZ a n) * el q Ω (vecZ b n)) := by
  unfold CongO
  rw [h.el_mul, ← el_sub, mem_pO_iff]
  intro k
  simp only [Pi.sub_apply, vecZ, NTV.TableAbs.mulVec]
  rw [mulModP_getD n a b t M ha hb ht k.val k.isLt, sum_range_fin]
  have e1 : ∀ X : Int, (m : ℤ) ∣ Int.tmod X M - X := by
    intro X
    have := Int.tmod_add_mul_tdiv X M
    have e : Int.tmod X M - X = -(M * X.tdiv M) := by omega
    rw [e]
    exact (Dvd.dvd.mul_right hM _).neg_right
  have e2 : (m : ℤ) ∣ (∑ i : Fin n, ∑ j ∈ Finset.range n, a.getD i 0 * b.getD j 0 * tent t i j k) -
      ∑ i : Fin n, ∑ j : Fin n, a.getD i 0 * b.getD j 0 * T i j k := by
    rw [← Finset.sum_sub_distrib]
    apply Finset.dvd_sum
    intro i _
    rw [sum_range_fin, ← Finset.sum_sub_distrib]
    apply Finset.dvd_sum
    intro j _
    rw [← mul_sub]
    exact Dvd.dvd.mul_left (hT i j k) _
  have := dvd_add (e1 (∑ i : Fin n, ∑ j ∈ Finset.range n, a.getD i 0 * b.getD j 0 * tent t i j k)) e2
  rw [sub_add_sub_cancel] at this
  exact this

/-- loop invariant of `pow_mod_p`: with `prod ≡ X^s` and `cur ≡ X^c` the answer is `≡ X^(s + c·e)` -/
theorem powLoop_el (h : Ctx q Ω T) (one : ∃ e : Fin n → ℤ, el q Ω e = 1) (m : ℕ) (p : Int)
    (hp : (m : ℤ) ∣ p) (t : Table) (ht : Cube3 n t) (hT : TableMod n t T m) (X : K) (hX : X ∈ Olat h one) :
    ∀ (fuel : Nat) (e : Int) (prod cur r : List Int) (s c : ℕ), 0 ≤ e → prod.length = n → cur.length = n →
      CongO (Olat h one) m (el q Ω (vecZ prod n)) (X ^ s) →
      CongO (Olat h one) m (el q Ω (vecZ cur n)) (X ^ c) →
      powLoop t p fuel e prod cur = .ok r →
      r.length = n ∧ CongO (Olat h one) m (el q Ω (vecZ r n)) (X ^ (s + c * e.toNat)) := by
  intro fuel
  induction fuel with
  | zero =>
    intro e prod cur r s c he hpl _ hps _ hr
    unfold powLoop at hr
    split at hr
    · cases hr
    · cases hr
      have : e = 0 := by omega
      subst this
      exact ⟨hpl, by simpa using hps⟩
  | succ fuel ih =>
    intro e prod cur r s c he hpl hcl hps hcs hr
    unfold powLoop at hr
    split at hr
    · rename_i hpos
      have hdiv : Int.tdiv e 2 = e / 2 := Int.tdiv_eq_ediv_of_nonneg he
      have hmod : Int.tmod e 2 = e % 2 := Int.tmod_eq_emod_of_nonneg he
      have hcur2 : CongO (Olat h one) m (el q Ω (vecZ (mulModP cur cur t p) n)) (X ^ (c + c)) := by
        rw [pow_add]
        exact (mulModP_el h one m p hp cur cur t hcl hcl ht hT).trans
          (CongO.mul (el_mem_Olat h one _) ((Olat h one).pow_mem hX _) hcs hcs)
      by_cases hodd : Int.tmod e 2 = 1
      · rw [if_pos hodd] at hr
        have hprod2 : CongO (Olat h one) m (el q Ω (vecZ (mulModP prod cur t p) n)) (X ^ (s + c)) := by
          rw [pow_add]
          exact (mulModP_el h one m p hp prod cur t hpl hcl ht hT).trans
            (CongO.mul (el_mem_Olat h one _) ((Olat h one).pow_mem hX _) hps hcs)
        obtain ⟨hl, hc⟩ := ih (Int.tdiv e 2) _ _ r (s + c) (c + c) (by rw [hdiv]; omega)
          (mulModP_length _ _ _ _ _ hpl ht.cube) (mulModP_length _ _ _ _ _ hcl ht.cube) hprod2 hcur2 hr
        refine ⟨hl, ?_⟩
        have : s + c + (c + c) * (Int.tdiv e 2).toNat = s + c * e.toNat := by
          rw [hdiv]
          rw [hmod] at hodd
          have h1 : e.toNat = 2 * (e / 2).toNat + 1 := by omega
          rw [h1]; ring
        rwa [this] at hc
      · rw [if_neg hodd] at hr
        obtain ⟨hl, hc⟩ := ih (Int.tdiv e 2) _ _ r s (c + c) (by rw [hdiv]; omega)
          hpl (mulModP_length _ _ _ _ _ hcl ht.cube) hps hcur2 hr
        refine ⟨hl, ?_⟩
        have : s + (c + c) * (Int.tdiv e 2).toNat = s + c * e.toNat := by
          rw [hdiv]
          rw [hmod] at hodd
          have h1 : e.toNat = 2 * (e / 2).toNat := by omega
          rw [h1]; ring
        rwa [this] at hc
    · cases hr
      have : e = 0 := by omega
      subst this
      exact ⟨hpl, by simpa using hps⟩

/-- **`pow_mod_p` raises to the power `e ≥ 1` modulo `m·O`** -/
theorem powModP_el (h : Ctx q Ω T) (one : ∃ e : Fin n → ℤ, el q Ω e = 1) (m : ℕ) (p : Int)
    (hp : (m : ℤ) ∣ p) (t : Table) (ht : Cube3 n t) (hT : TableMod n t T m) (a r : List Int) (e : Int)
    (he : 1 ≤ e) (ha : a.length = n) (hr : powModP a e t p = .ok r) :
    r.length = n ∧ CongO (Olat h one) m (el q Ω (vecZ r n)) (el q Ω (vecZ a n) ^ e.toNat) := by
  unfold powModP at hr
  have := powLoop_el h one m p hp t ht hT (el q Ω (vecZ a n)) (el_mem_Olat h one _) _ (e - 1) a a r 1 1
    (by omega) ha ha (by simpa using CongO.refl _) (by simpa using CongO.refl _) hr
  have e1 : 1 + 1 * (e - 1).toNat = e.toNat := by omega
  rwa [e1] at this

/-- the loop `while pow < deg { pow *= p }` -/
theorem powBound_spec (deg : Nat) (p : Int) :
    ∀ (fuel : Nat) (pow r : Int), powBound deg p fuel pow = .ok r → (deg : Int) ≤ r ∧ ∃ k : ℕ, r = pow * p ^ k := by
  intro fuel
  induction fuel with
  | zero =>
    intro pow r hr
    unfold powBound at hr
    split at hr
    · cases hr
    · cases hr; exact ⟨by omega, 0, by simp⟩
  | succ fuel ih =>
    intro pow r hr
    unfold powBound at hr
    split at hr
    · obtain ⟨h1, k, hk⟩ := ih _ _ hr
      exact ⟨h1, k + 1, by rw [hk, pow_succ]; ring⟩
    · cases hr; exact ⟨by omega, 0, by simp⟩

/-- the loop `while pow < deg { pow *= p }` returns the FIRST value `pow·p^k` that is `≥ deg` -/
theorem powBound_least (deg : Nat) (p : Int) :
    ∀ (fuel : Nat) (pow r : Int), powBound deg p fuel pow = .ok r →
      ∃ k : ℕ, r = pow * p ^ k ∧ (deg : Int) ≤ r ∧ ∀ j < k, pow * p ^ j < (deg : Int) := by
  intro fuel
  induction fuel with
  | zero =>
    intro pow r hr
    unfold powBound at hr
    split at hr
    · cases hr
    · cases hr; exact ⟨0, by simp, by omega, fun j hj => absurd hj (by omega)⟩
  | succ fuel ih =>
    intro pow r hr
    unfold powBound at hr
    split at hr
    · rename_i hlt
      obtain ⟨k, hk, h1, h2⟩ := ih _ _ hr
      refine ⟨k + 1, by rw [hk, pow_succ]; ring, h1, ?_⟩
      intro j hj
      cases j with
      | zero => simpa using hlt
      | succ j =>
        have := h2 j (by omega)
        rw [pow_succ]
        convert this using 1
        ring
    · cases hr; exact ⟨0, by simp, by omega, fun j hj => absurd hj (by omega)⟩

end NTV.Round2
