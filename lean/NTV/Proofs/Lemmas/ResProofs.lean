import Mathlib.RingTheory.Polynomial.Resultant.Basic
import Mathlib.Tactic
open Polynomial
namespace NTV.Res

/-- Euclid step for resultants over a field (the recursion of `resultant_rational`). -/
theorem resultant_euclid_step {K : Type*} [Field K] (a b q r : K[X])
    (h : a = q * b + r) (hb : b.natDegree ≠ 0) (hr : r ≠ 0) (hdeg : r.natDegree < b.natDegree)
    (hab : b.natDegree ≤ a.natDegree) :
    resultant a b = (-1) ^ (a.natDegree * b.natDegree) *
      (b.leadingCoeff ^ (a.natDegree - r.natDegree) * resultant b r) := by
  have hb0 : b ≠ 0 := by rintro rfl; simp at hb
  have hq : q.natDegree + b.natDegree = a.natDegree := by
    have hq0 : q ≠ 0 := by
      rintro rfl; simp only [zero_mul, zero_add] at h; subst h; omega
    have : (q * b + r).natDegree = (q * b).natDegree := by
      apply natDegree_add_eq_left_of_natDegree_lt
      rw [natDegree_mul hq0 hb0]; omega
    rw [h, this, natDegree_mul hq0 hb0]
  rw [resultant_comm]
  congr 1
  have e1 : b.resultant a b.natDegree a.natDegree = b.resultant r b.natDegree a.natDegree := by
    have : a = r + b * q := by rw [h]; ring
    have e := resultant_add_mul_right b r q b.natDegree a.natDegree (by omega) le_rfl
    rw [← this] at e
    exact e
  rw [e1]
  have e2 : a.natDegree = r.natDegree + (a.natDegree - r.natDegree) := by omega
  conv_lhs => rw [e2]
  rw [resultant_add_right_deg _ _ _ _ _ le_rfl]
  rfl

end NTV.Res
