import NTV.Proofs.Lemmas.RabinMonierMain
import NTV.Proofs.Lemmas.RabinMonierModel
/-! (R2) the Rabin–Monier bound for the model's round function `mrRound`. -/
namespace NTV.Prime
open NTV.RM

/-- with enough fuel the loop of `splitTwos` ends on an odd number -/
theorem splitTwos_odd (fuel d c : Nat) (hd : 0 < d) (hf : d ≤ fuel) :
    (splitTwos fuel d c).1 % 2 = 1 := by
  induction fuel generalizing d c with
  | zero => omega
  | succ f ih =>
    unfold splitTwos
    split
    · rename_i h
      simp only [Bool.and_eq_true, beq_iff_eq, bne_iff_ne, ne_eq] at h
      exact ih (d / 2) (c + 1) (by omega) (by omega)
    · rename_i h
      simp only [Bool.and_eq_true, beq_iff_eq, bne_iff_ne, ne_eq, not_and, not_not] at h
      show d % 2 = 1
      by_contra h'
      have := h (by omega)
      omega

/-- the decomposition computed by the model: n − 1 = d·2^c with d odd and c ≥ 1 (n odd, n > 1) -/
theorem splitTwos_decomp (n : Nat) (hodd : n % 2 = 1) (hn : 1 < n) :
    Odd (splitTwos n (n - 1) 0).1 ∧ 1 ≤ (splitTwos n (n - 1) 0).2 ∧
      n - 1 = (splitTwos n (n - 1) 0).1 * 2 ^ (splitTwos n (n - 1) 0).2 := by
  obtain ⟨h1, _⟩ := splitTwos_spec n (n - 1) 0
  have h2 := splitTwos_odd n (n - 1) 0 (by omega) (by omega)
  simp only [pow_zero, mul_one] at h1
  refine ⟨Nat.odd_iff.mpr h2, ?_, h1.symm⟩
  by_contra hc
  have : (splitTwos n (n - 1) 0).2 = 0 := by omega
  rw [this, pow_zero, mul_one] at h1
  omega

theorem natCast_pred_eq_neg_one (n : Nat) (hn : 1 ≤ n) : ((n - 1 : Nat) : ZMod n) = -1 := by
  rw [Nat.cast_sub hn]; simp

/-- the textbook condition on a natural number base, transported to `ZMod n` -/
theorem liar_zmod (n d c a : Nat) (hn : 3 ≤ n) (h : mrRound n d c a = true) :
    (a : ZMod n) ^ d = 1 ∨ ∃ i, i < c ∧ (a : ZMod n) ^ (d * 2 ^ i) = -1 := by
  rcases (strongLiar_iff n d c a hn).mp h with h | ⟨i, hi, h⟩
  · left
    have := (ZMod.natCast_eq_natCast_iff _ _ n).mpr h
    simpa using this
  · right
    refine ⟨i, hi, ?_⟩
    have := (ZMod.natCast_eq_natCast_iff _ _ n).mpr h
    rw [natCast_pred_eq_neg_one n (by omega)] at this
    simpa using this

theorem liar_isUnit (n d c a : Nat) (hn : 3 ≤ n) (hd : 0 < d) (h : mrRound n d c a = true) :
    IsUnit (a : ZMod n) := by
  rcases liar_zmod n d c a hn h with h | ⟨i, _, h⟩
  · exact IsUnit.of_pow_eq_one h (by omega)
  · have h2 : (a : ZMod n) ^ (d * 2 ^ i * 2) = 1 := by rw [pow_mul, h]; simp
    exact IsUnit.of_pow_eq_one h2 (by positivity)

/-- the map from bases to units used for counting -/
noncomputable def toUnit (n a : Nat) : (ZMod n)ˣ :=
  open Classical in if h : IsUnit (a : ZMod n) then h.unit else 1

theorem toUnit_val (n a : Nat) (h : IsUnit (a : ZMod n)) : ((toUnit n a : (ZMod n)ˣ) : ZMod n) = a := by
  unfold toUnit; rw [dif_pos h]; rfl

theorem liarU_toUnit (n d c a : Nat) (hn : 3 ≤ n) (hd : 0 < d) (h : mrRound n d c a = true) :
    LiarU d c (toUnit n a) := by
  have hu := liar_isUnit n d c a hn hd h
  rcases liar_zmod n d c a hn h with h | ⟨i, hi, h⟩
  · left; apply Units.ext; rw [Units.val_pow_eq_pow_val, toUnit_val n a hu, h]; rfl
  · right; refine ⟨i, hi, ?_⟩
    apply Units.ext; rw [Units.val_pow_eq_pow_val, toUnit_val n a hu, h]; rfl

/-- (R2) **Rabin–Monier**: for an odd composite n, at most (n − 1)/4 of the bases in [1, n − 1]
pass a Miller–Rabin round (with the decomposition n − 1 = d·2^c computed by the model). -/
theorem strong_liars_le_quarter (n : Nat) (hodd : n % 2 = 1) (hn : 1 < n) (hcomp : ¬ n.Prime) :
    ((Finset.Icc 1 (n - 1)).filter (fun a =>
      mrRound n (splitTwos n (n - 1) 0).1 (splitTwos n (n - 1) 0).2 a = true)).card ≤ (n - 1) / 4 := by
  classical
  obtain ⟨hd, hc, hdc⟩ := splitTwos_decomp n hodd hn
  set d := (splitTwos n (n - 1) 0).1
  set c := (splitTwos n (n - 1) 0).2
  have hn3 : 3 ≤ n := by omega
  have hd0 : 0 < d := hd.pos
  have : NeZero n := ⟨by omega⟩
  set L := (Finset.Icc 1 (n - 1)).filter (fun a => mrRound n d c a = true) with hL
  have hinj : Set.InjOn (toUnit n) (L : Set Nat) := by
    intro a ha b hb hab
    simp only [hL, Finset.coe_filter, Finset.mem_Icc, Set.mem_ofPred_eq] at ha hb
    have ua := liar_isUnit n d c a hn3 hd0 ha.2
    have ub := liar_isUnit n d c b hn3 hd0 hb.2
    have := congrArg (fun u : (ZMod n)ˣ => (u : ZMod n)) hab
    simp only [toUnit_val n a ua, toUnit_val n b ub] at this
    exact cast_eq_of_lt n a b (by omega) (by omega) this
  have hcard : (L.image (toUnit n)).card = L.card := Finset.card_image_of_injOn hinj
  have key := liarU_card_le n (Nat.odd_iff.mpr hodd) hn hcomp d c hd hc hdc (L.image (toUnit n))
    (by
      intro u hu
      obtain ⟨a, ha, rfl⟩ := Finset.mem_image.mp hu
      simp only [hL, Finset.mem_filter] at ha
      exact liarU_toUnit n d c a hn3 hd0 ha.2)
  rw [hcard] at key
  omega

end NTV.Prime
