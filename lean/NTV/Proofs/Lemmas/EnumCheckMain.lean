import NTV.Proofs.Lemmas.EnumCheckBox
import NTV.Proofs.Lemmas.EnumCheckSylv
import NTV.Proofs.Lemmas.EnumCheckInv
import NTV.Proofs.Lemmas.MatCheck
/-! Checker soundness for `NTV.Spec.Enum` (C20), part 5: `isPosDef` decides positive definiteness
(Sylvester), the box of `box` is complete, and `shortVectors` lists exactly the short vectors. -/
open Matrix
namespace NTV.EnumCheck
open NTV.Spec.Enum NTV.Spec.Mat
open NTV.RowOps (toM Rect ent)

/-! ### `isPosDef` -/

theorem isSquare_iff (Q : QMat) : isSquare Q = true ↔ Rect Q.length Q.length Q := by
  unfold isSquare Rect
  simp [List.all_eq_true]

theorem isSymmetric_iff (Q : QMat) :
    isSymmetric Q = true ↔ (toM Q.length Q.length Q).IsSymm := by
  unfold isSymmetric
  simp only [List.all_eq_true, List.mem_range, beq_iff_eq]
  constructor
  · intro h
    ext i j
    exact h j j.2 i i.2
  · intro h i hi j hj
    exact h.apply ⟨j, hj⟩ ⟨i, hi⟩

theorem rect_leading (Q : QMat) (n k : Nat) (hr : Rect n n Q) (hk : k ≤ n) : Rect k k (leading Q k) := by
  unfold leading
  refine ⟨by simp [hr.1, hk], ?_⟩
  intro r hrm
  simp only [List.mem_map] at hrm
  obtain ⟨r0, hr0, rfl⟩ := hrm
  have := hr.2 r0 (List.mem_of_mem_take hr0)
  simp [this, hk]

theorem ent_leading (Q : QMat) (k i j : Nat) (hi : i < k) (hj : j < k) :
    ent (leading Q k) i j = ent Q i j := by
  unfold leading NTV.RowOps.ent
  simp only [List.getD_eq_getElem?_getD, List.getElem?_map, List.getElem?_take, hi, if_true]
  cases Q[i]? with
  | none => simp
  | some r => simp [hj]

theorem toM_leading (Q : QMat) (n k : Nat) (hk : k ≤ n) :
    toM k k (leading Q k) = lead (toM n n Q) k hk := by
  ext i j
  show ent (leading Q k) i j = ent Q _ _
  rw [ent_leading Q k i j i.2 j.2]; rfl

/-- the reader-level notion: symmetric, and `xᵀQx > 0` for every non-zero rational vector -/
def IsPosDefForm (n : Nat) (Q : QMat) : Prop :=
  Rect n n Q ∧ (∀ i j : Fin n, ent Q i j = ent Q j i) ∧
    ∀ x : Fin n → ℚ, x ≠ 0 → 0 < ∑ i : Fin n, ∑ j : Fin n, x i * ent Q i j * x j

theorem qf_eq_sum {n : Nat} (M : Matrix (Fin n) (Fin n) ℚ) (x : Fin n → ℚ) :
    qf M x = ∑ i, ∑ j, x i * M i j * x j := by
  unfold qf dotProduct mulVec dotProduct
  apply Finset.sum_congr rfl
  intro i _
  rw [Finset.mul_sum]
  apply Finset.sum_congr rfl
  intro j _
  ring

theorem isPosDefForm_iff (n : Nat) (Q : QMat) :
    IsPosDefForm n Q ↔ Rect n n Q ∧ (toM n n Q).IsSymm ∧ PosDefQ (toM n n Q) := by
  unfold IsPosDefForm PosDefQ
  constructor
  · rintro ⟨h1, h2, h3⟩
    refine ⟨h1, ?_, ?_⟩
    · ext i j; exact h2 j i
    · intro y hy; rw [qf_eq_sum]; exact h3 y hy
  · rintro ⟨h1, h2, h3⟩
    refine ⟨h1, fun i j => h2.apply j i, ?_⟩
    intro y hy
    have := h3 y hy
    rwa [qf_eq_sum] at this

/-- **Sylvester's criterion decides positive definiteness**: the checker accepts exactly the square,
symmetric matrices whose form is positive on every non-zero rational vector -/
theorem isPosDef_iff (Q : QMat) : isPosDef Q = true ↔ IsPosDefForm Q.length Q := by
  rw [isPosDefForm_iff]
  unfold isPosDef
  simp only [Bool.and_eq_true, isSquare_iff, isSymmetric_iff, and_assoc]
  constructor
  · rintro ⟨hr, hs, hm⟩
    refine ⟨hr, hs, ?_⟩
    rw [sylvester _ _ hs]
    intro k hk
    rcases Nat.eq_zero_or_pos k with rfl | hkpos
    · simp
    · simp only [List.all_eq_true, List.mem_range, decide_eq_true_eq] at hm
      have h := hm (k - 1) (by omega)
      have e : k - 1 + 1 = k := by omega
      rw [e, NTV.MatCheck.qdet_spec _ k (rect_leading Q _ k hr hk), toM_leading Q _ k hk] at h
      exact h
  · rintro ⟨hr, hs, hp⟩
    refine ⟨hr, hs, ?_⟩
    rw [sylvester _ _ hs] at hp
    simp only [List.all_eq_true, List.mem_range, decide_eq_true_eq]
    intro t ht
    have hk : t + 1 ≤ Q.length := ht
    rw [NTV.MatCheck.qdet_spec _ (t + 1) (rect_leading Q _ (t + 1) hr hk), toM_leading Q _ (t + 1) hk]
    exact hp (t + 1) hk

/-! ### the box is complete -/

theorem inBox_of_forall (x : List Int) (n : Nat) (f : Nat → Nat) (hx : x.length = n)
    (h : ∀ i, i < n → (x.getD i 0).natAbs ≤ f i) : InBox x ((List.range n).map f) := by
  unfold InBox
  rw [List.forall₂_iff_get]
  refine ⟨by simp [hx], ?_⟩
  intro i h1 h2
  have hi : i < n := by rw [← hx]; exact h1
  have := h i hi
  simpa [List.getD_eq_getElem?_getD, List.getElem?_eq_getElem h1] using this

theorem inBox_iff (x : List Int) (b : List Nat) :
    InBox x b ↔ x.length = b.length ∧ ∀ i, i < b.length → (x.getD i 0).natAbs ≤ b.getD i 0 := by
  unfold InBox
  rw [List.forall₂_iff_get]
  constructor
  · rintro ⟨hl, h⟩
    refine ⟨hl, ?_⟩
    intro i hi
    have := h i (hl ▸ hi) hi
    simpa [List.getD_eq_getElem?_getD, List.getElem?_eq_getElem hi, List.getElem?_eq_getElem (hl ▸ hi)] using this
  · rintro ⟨hl, h⟩
    refine ⟨hl, ?_⟩
    intro i h1 h2
    have := h i h2
    simpa [List.getD_eq_getElem?_getD, List.getElem?_eq_getElem h1, List.getElem?_eq_getElem h2] using this

/-- the coordinate bound in list form -/
theorem coord_le (Q Qi : QMat) (n : Nat) (hpd : IsPosDefForm n Q) (hinv : inverse Q = some Qi)
    (c : ℚ) (x : List Int) (hx : x.length = n) (hq : quadVal Q x ≤ c) (i : Nat) (hi : i < n) :
    (x.getD i 0).natAbs ≤ floorSqrt (c * qent Qi i i) := by
  obtain ⟨hr, hs, hp⟩ := (isPosDefForm_iff n Q).mp hpd
  have hI := (inverse_spec Q Qi n hr hinv).2
  apply natAbs_le_floorSqrt
  have h1 := coord_bound (toM n n Q) (toM n n Qi) hs hp hI (vec n x) ⟨i, hi⟩
  have h2 : 0 ≤ toM n n Qi ⟨i, hi⟩ ⟨i, hi⟩ := inv_diag_nonneg (toM n n Q) (toM n n Qi) hp hI ⟨i, hi⟩
  rw [← quadVal_spec Q x n hr hx] at h1
  have e : toM n n Qi ⟨i, hi⟩ ⟨i, hi⟩ = qent Qi i i := rfl
  rw [e] at h1 h2
  calc ((x.getD i 0 : ℤ) : ℚ) ^ 2 ≤ quadVal Q x * qent Qi i i := h1
    _ ≤ c * qent Qi i i := mul_le_mul_of_nonneg_right hq h2

/-- for a positive-definite form the box exists -/
theorem box_isSome (Q : QMat) (n : Nat) (hpd : IsPosDefForm n Q) (c : ℚ) : (box Q c).isSome = true := by
  obtain ⟨hr, hs, hp⟩ := (isPosDefForm_iff n Q).mp hpd
  unfold box
  rw [Option.isSome_map]
  rw [inverse_isSome_iff Q n hr]
  have := (sylvester n _ hs).mp hp n le_rfl
  rw [lead_self] at this
  exact ne_of_gt this

/-- **K1, box completeness**: every integer vector with `xᵀQx ≤ c` lies in the box -/
theorem box_complete (Q : QMat) (n : Nat) (hpd : IsPosDefForm n Q) (c : ℚ) (b : List Nat)
    (hb : box Q c = some b) (x : List Int) (hx : x.length = n) (hq : quadVal Q x ≤ c) : InBox x b := by
  unfold box at hb
  cases hinv : inverse Q with
  | none => rw [hinv] at hb; simp at hb
  | some Qi =>
    rw [hinv] at hb
    simp only [Option.map_some, Option.some.injEq] at hb
    subst hb
    have hl : Q.length = n := hpd.1.1
    rw [hl]
    exact inBox_of_forall x n _ hx (fun i hi => coord_le Q Qi n hpd hinv c x hx hq i hi)

/-- what the box is: `b_i = ⌊√(c · (Q⁻¹)_{ii})⌋` with `Q⁻¹` the true inverse -/
theorem box_spec (Q : QMat) (n : Nat) (hr : Rect n n Q) (c : ℚ) (b : List Nat) (hb : box Q c = some b) :
    ∃ Qi : QMat, Rect n n Qi ∧ toM n n Qi * toM n n Q = 1 ∧ b.length = n ∧
      ∀ i, i < n → b.getD i 0 = floorSqrt (c * ent Qi i i) := by
  unfold box at hb
  cases hinv : inverse Q with
  | none => rw [hinv] at hb; simp at hb
  | some Qi =>
    rw [hinv] at hb
    simp only [Option.map_some, Option.some.injEq] at hb
    subst hb
    obtain ⟨h1, h2⟩ := inverse_spec Q Qi n hr hinv
    refine ⟨Qi, h1, h2, by simp [hr.1], ?_⟩
    intro i hi
    have hi' : i < Q.length := by rw [hr.1]; exact hi
    simp [List.getD_eq_getElem?_getD, hi']
    rfl

/-! ### `shortVectors` is exactly the set of short vectors modulo sign -/

/-- completeness: every non-zero `x ∈ ℤⁿ` with `xᵀQx ≤ c` is listed, as its sign representative, with
its value -/
theorem shortVectors_complete (Q : QMat) (n : Nat) (hpd : IsPosDefForm n Q) (c : ℚ) (b : List Nat)
    (hb : box Q c = some b) (x : List Int) (hx : x.length = n) (hnz : NonZero x) (hq : quadVal Q x ≤ c) :
    (canon x, quadVal Q x) ∈ shortVectors Q c b := by
  rw [mem_shortVectors]
  have hr := hpd.1
  refine ⟨?_, isCanonical_canon x hnz, ?_, ?_⟩
  · show InBox (canon x) b
    rw [inBox_canon]
    exact box_complete Q n hpd c b hb x hx hq
  · show quadVal Q (canon x) ≤ c
    rw [quadVal_canon Q x n hr hx]; exact hq
  · show quadVal Q x = quadVal Q (canon x)
    rw [quadVal_canon Q x n hr hx]

/-- soundness: every listed pair is a canonical non-zero vector of `ℤⁿ` with its exact value `≤ c` -/
theorem shortVectors_sound (Q : QMat) (n : Nat) (hr : Rect n n Q) (c : ℚ) (b : List Nat)
    (hb : box Q c = some b) (p : List Int × ℚ) (hp : p ∈ shortVectors Q c b) :
    p.1.length = n ∧ NonZero p.1 ∧ isCanonical p.1 = true ∧ canon p.1 = p.1 ∧
      p.2 = quadVal Q p.1 ∧ p.2 ≤ c := by
  rw [mem_shortVectors] at hp
  obtain ⟨h1, h2, h3, h4⟩ := hp
  obtain ⟨_, _, _, hbl, _⟩ := box_spec Q n hr c b hb
  refine ⟨?_, isCanonical_nonZero _ h2, h2, canon_of_canonical _ h2, h4, h4 ▸ h3⟩
  rw [← hbl]; exact ((inBox_iff _ _).mp h1).1

end NTV.EnumCheck
