import NTV.Proofs.Lemmas.FactorModPBasics
import Mathlib.FieldTheory.Perfect
import Mathlib.FieldTheory.Finite.Basic
import Mathlib.RingTheory.UniqueFactorizationDomain.Multiplicity
import Mathlib.Algebra.Polynomial.Expand
/-! # C08: the algebra behind the squarefree stage (Cohen 3.4.2) in `(ZMod p)[X]`

Multiplicities of irreducible factors under derivation in characteristic p, the invariant of the inner
loop, and the p-th root. No model functions here. -/
open Polynomial
namespace NTV.PolyMod
section
variable (p : ℕ) [hp : Fact p.Prime]

theorem irreducible_not_dvd_derivative {q : (ZMod p)[X]} (hq : Irreducible q) : ¬ q ∣ derivative q := by
  intro hd
  have hsep : q.Separable := PerfectField.separable_of_irreducible hq
  obtain ⟨a, b, hab⟩ := hsep
  have : q ∣ 1 := by
    rw [← hab]
    exact dvd_add (dvd_mul_left _ _) (dvd_mul_of_dvd_right hd _)
  exact hq.not_isUnit (isUnit_of_dvd_one this)

/-- if p ∣ m and qᵐ ∣ f then qᵐ ∣ f' -/
theorem pow_dvd_derivative_of_char_dvd {q f : (ZMod p)[X]} (m : ℕ) (hm : p ∣ m) (hf : q ^ m ∣ f) :
    q ^ m ∣ derivative f := by
  obtain ⟨h, rfl⟩ := hf
  rw [derivative_mul, derivative_pow]
  have : ((m : ℕ) : ZMod p) = 0 := (ZMod.natCast_eq_zero_iff m p).mpr hm
  rw [this]
  simp

/-- if p ∤ m ≥ 1 and f = qᵐ h with q ∤ h (q irreducible) then qᵐ ∤ f' -/
theorem not_pow_dvd_derivative {q h : (ZMod p)[X]} (hq : Irreducible q) (m : ℕ) (hm1 : 1 ≤ m)
    (hm : ¬ p ∣ m) (hh : ¬ q ∣ h) : ¬ q ^ m ∣ derivative (q ^ m * h) := by
  intro hd
  obtain ⟨n, rfl⟩ : ∃ n, m = n + 1 := ⟨m - 1, by omega⟩
  have hq0 : q ≠ 0 := hq.ne_zero
  have e : derivative (q ^ (n + 1) * h) =
      q ^ n * (C ((n + 1 : ℕ) : ZMod p) * derivative q * h + q * derivative h) := by
    rw [derivative_mul, derivative_pow]
    simp only [Nat.add_sub_cancel, pow_succ]
    ring
  rw [e, pow_succ, mul_dvd_mul_iff_left (pow_ne_zero n hq0)] at hd
  have h2 : q ∣ C ((n + 1 : ℕ) : ZMod p) * derivative q * h := by
    have := dvd_sub hd (dvd_mul_right q (derivative h))
    simpa using this
  have hc : ((n + 1 : ℕ) : ZMod p) ≠ 0 := by
    rw [Ne, ZMod.natCast_eq_zero_iff]; exact hm
  rcases hq.prime.dvd_or_dvd h2 with h3 | h3
  · rcases hq.prime.dvd_or_dvd h3 with h4 | h4
    · exact hq.not_isUnit (isUnit_of_dvd_unit h4 (Polynomial.isUnit_C.mpr (IsUnit.mk0 _ hc)))
    · exact irreducible_not_dvd_derivative p hq h4
  · exact hh h3

/-- the invariant of the inner loop of `squarefree`, for every irreducible q: q² ∤ V, and if q ∤ V
then the multiplicity of q in T is a multiple of p -/
def SqInv (T V : (ZMod p)[X]) : Prop :=
  ∀ q : (ZMod p)[X], Irreducible q → ¬ q ^ 2 ∣ V ∧ (¬ q ∣ V → p ∣ multiplicity q T)

theorem fin_mult {q f : (ZMod p)[X]} (hq : Irreducible q) (hf : f ≠ 0) : FiniteMultiplicity q f :=
  FiniteMultiplicity.of_not_isUnit hq.not_isUnit hf

/-- start of the inner loop: T = gcd(T₀, T₀'), V = T₀ / T -/
theorem sqInv_init {T0 T V : (ZMod p)[X]} (h0 : T0 ≠ 0) (hT : IsGcd T T0 (derivative T0))
    (hV : T0 = V * T) : SqInv p T V := by
  intro q hq
  have hT0 : T ≠ 0 := hT.ne_zero (Or.inl h0)
  have hV0 : V ≠ 0 := by rintro rfl; simp at hV; exact h0 hV
  have fT := fin_mult p hq hT0
  have fV := fin_mult p hq hV0
  have f0 := fin_mult p hq h0
  set m := multiplicity q T0 with hm
  have hadd : m = multiplicity q V + multiplicity q T := by
    rw [hm]
    have := multiplicity_mul hq.prime (hV ▸ f0)
    rw [← hV] at this
    exact this
  obtain ⟨h, hh1, hh2⟩ := f0.exists_eq_pow_mul_and_not_dvd
  rw [← hm] at hh1
  by_cases hpm : p ∣ m
  · have h1 : q ^ m ∣ T := hT.2.2 _ (pow_multiplicity_dvd q T0)
      (pow_dvd_derivative_of_char_dvd p m hpm (pow_multiplicity_dvd q T0))
    have h2 : m ≤ multiplicity q T := fT.le_multiplicity_of_pow_dvd h1
    have hV0' : multiplicity q V = 0 := by omega
    have hTm : multiplicity q T = m := by omega
    refine ⟨fV.not_pow_dvd_of_multiplicity_lt (by omega), fun _ => hTm ▸ hpm⟩
  · have hm1 : 1 ≤ m := by
      by_contra hlt
      have : m = 0 := by omega
      exact hpm (this ▸ dvd_zero p)
    have h1 : ¬ q ^ m ∣ T := by
      intro hd
      have := hd.trans hT.2.1
      rw [hh1] at this
      exact not_pow_dvd_derivative p hq m hm1 hpm hh2 this
    have h2 : multiplicity q T < m := fT.multiplicity_lt_iff_not_dvd.mpr h1
    have h3 : q ^ (m - 1) ∣ T := hT.2.2 _ ((pow_dvd_pow q (by omega)).trans (pow_multiplicity_dvd q T0))
      (pow_sub_one_dvd_derivative_of_pow_dvd (pow_multiplicity_dvd q T0))
    have h4 : m - 1 ≤ multiplicity q T := fT.le_multiplicity_of_pow_dvd h3
    have hV1 : multiplicity q V = 1 := by omega
    refine ⟨fV.not_pow_dvd_of_multiplicity_lt (by omega), fun hnd => ?_⟩
    exfalso
    exact hnd (dvd_of_multiplicity_pos (by omega))

/-- one round of the inner loop: W = gcd(T, V), T ← T / W, V ← W -/
theorem sqInv_step {T V W T1 : (ZMod p)[X]} (hT0 : T ≠ 0) (hinv : SqInv p T V)
    (hW : IsGcd W T V) (hT1 : T = T1 * W) : SqInv p T1 W := by
  intro q hq
  obtain ⟨i1, i2⟩ := hinv q hq
  refine ⟨fun hd => i1 (hd.trans hW.2.1), fun hnd => ?_⟩
  have hW0 : W ≠ 0 := by rintro rfl; simp at hT1; exact hT0 hT1
  have hT10 : T1 ≠ 0 := by rintro rfl; simp at hT1; exact hT0 hT1
  have hadd : multiplicity q T = multiplicity q T1 + multiplicity q W := by
    have := multiplicity_mul hq.prime (hT1 ▸ fin_mult p hq hT0)
    rw [← hT1] at this
    exact this
  have hW0' : multiplicity q W = 0 := multiplicity_eq_zero.mpr hnd
  by_cases hqV : q ∣ V
  · have hqT : ¬ q ∣ T := fun hd => hnd (hW.2.2 q hd hqV)
    have : multiplicity q T = 0 := multiplicity_eq_zero.mpr hqT
    have : multiplicity q T1 = 0 := by omega
    rw [this]; exact dvd_zero p
  · have := i2 hqV
    rw [hadd, hW0', add_zero] at this
    exact this

/-- at the exit of the inner loop (V constant) the derivative of T vanishes -/
theorem sqInv_exit {T V : (ZMod p)[X]} (hT0 : T ≠ 0) (hinv : SqInv p T V) (hV : IsUnit V) :
    derivative T = 0 := by
  by_contra hd0
  have hall : ∀ q : (ZMod p)[X], Irreducible q → p ∣ multiplicity q T := by
    intro q hq
    exact (hinv q hq).2 (fun hd => hq.not_isUnit (isUnit_of_dvd_unit hd hV))
  -- T divides T'
  have hdvd : T ∣ derivative T := by
    set G := EuclideanDomain.gcd T (derivative T) with hG
    obtain ⟨S, hS⟩ := EuclideanDomain.gcd_dvd_left T (derivative T)
    rw [← hG] at hS
    have hG0 : G ≠ 0 := by rintro e; rw [e, zero_mul] at hS; exact hT0 hS
    have hS0 : S ≠ 0 := by rintro rfl; rw [mul_zero] at hS; exact hT0 hS
    have hSu : IsUnit S := by
      by_contra hSu
      obtain ⟨q, hq, hqS⟩ := WfDvdMonoid.exists_irreducible_factor hSu hS0
      set n := multiplicity q T with hn
      have h1 : q ^ n ∣ G := EuclideanDomain.dvd_gcd (pow_multiplicity_dvd q T)
        (pow_dvd_derivative_of_char_dvd p n (hall q hq) (pow_multiplicity_dvd q T))
      have h2 : q ^ (n + 1) ∣ T := by
        rw [hS, pow_succ]
        exact mul_dvd_mul h1 hqS
      exact (fin_mult p hq hT0).not_pow_dvd_of_multiplicity_lt (by omega) h2
    have : T ∣ G := by
      obtain ⟨u, rfl⟩ := hSu
      exact ⟨↑u⁻¹, by rw [hS]; simp [mul_assoc]⟩
    exact this.trans (EuclideanDomain.gcd_dvd_right T (derivative T))
  have hle := natDegree_le_of_dvd hdvd hd0
  by_cases hnd : T.natDegree = 0
  · rw [eq_C_of_natDegree_eq_zero hnd] at hd0
    simp at hd0
  · have := natDegree_derivative_lt hnd
    omega

/-- a polynomial over F_p with zero derivative is the p-th power of its p-contraction -/
theorem eq_contract_pow {T : (ZMod p)[X]} (hd : derivative T = 0) : T = contract p T ^ p := by
  rw [← ZMod.expand_card, expand_contract p hd hp.out.ne_zero]

theorem le_natDegree_of_derivative_eq_zero {T : (ZMod p)[X]} (hd : derivative T = 0) (hn : T.natDegree ≠ 0) :
    p ≤ T.natDegree := by
  have := natDegree_expand p (contract p T)
  rw [expand_contract p hd hp.out.ne_zero] at this
  rw [this] at hn ⊢
  have : (contract p T).natDegree ≠ 0 := by intro e; rw [e] at hn; simp at hn
  exact Nat.le_mul_of_pos_left _ (Nat.pos_of_ne_zero this)

/-! ## squarefreeness, phrased with irreducible divisors -/

/-- no square of an irreducible polynomial divides X -/
def SqF (X : (ZMod p)[X]) : Prop := ∀ q : (ZMod p)[X], Irreducible q → ¬ q ^ 2 ∣ X

theorem SqF.of_dvd {A B : (ZMod p)[X]} (h : SqF p B) (hd : A ∣ B) : SqF p A :=
  fun q hq hqa => h q hq (hqa.trans hd)

theorem SqInv.sqF {T V : (ZMod p)[X]} (h : SqInv p T V) : SqF p V := fun q hq => (h q hq).1

/-- a product of two squarefree polynomials without common irreducible factor is squarefree -/
theorem sqF_mul {R V : (ZMod p)[X]} (hR : SqF p R) (hV : SqF p V)
    (hc : ∀ q : (ZMod p)[X], Irreducible q → q ∣ R → ¬ q ∣ V) : SqF p (R * V) := by
  intro q hq hd
  by_cases hqR : q ∣ R
  · have := hq.prime.pow_dvd_of_dvd_mul_right 2 (hc q hq hqR) hd
    exact hR q hq this
  · have := hq.prime.pow_dvd_of_dvd_mul_left 2 hqR hd
    exact hV q hq this

/-- in a squarefree product A·W an irreducible factor of A does not divide W -/
theorem SqF.not_dvd_right {A W : (ZMod p)[X]} (h : SqF p (A * W)) {q : (ZMod p)[X]} (hq : Irreducible q)
    (hqa : q ∣ A) : ¬ q ∣ W := by
  intro hqw
  apply h q hq
  rw [pow_two]
  exact mul_dvd_mul hqa hqw

/-- a list of irreducible polynomials with squarefree product has no repetition -/
theorem nodup_of_sqF_prod : ∀ (l : List (ZMod p)[X]), (∀ x ∈ l, Irreducible x) → SqF p l.prod → l.Nodup := by
  intro l
  induction l with
  | nil => intro _ _; exact List.nodup_nil
  | cons a l ih =>
    intro hirr hsq
    rw [List.prod_cons] at hsq
    rw [List.nodup_cons]
    refine ⟨fun hmem => ?_, ih (fun x hx => hirr x (by simp [hx])) (hsq.of_dvd p (dvd_mul_left _ _))⟩
    exact hsq.not_dvd_right p (hirr a (by simp)) (dvd_refl a) (List.dvd_prod hmem)

/-- a polynomial of degree d ≥ 1 all of whose irreducible factors have degree d is irreducible -/
theorem irreducible_of_factor_degrees {G : (ZMod p)[X]} {d : ℕ} (hd : 1 ≤ d) (hG : G.natDegree = d)
    (h : ∀ q : (ZMod p)[X], Irreducible q → q ∣ G → q.natDegree = d) : Irreducible G := by
  have hG0 : G ≠ 0 := by rintro rfl; simp at hG; omega
  have hnu : ¬ IsUnit G := by
    intro hu
    have := natDegree_eq_zero_of_isUnit hu
    omega
  obtain ⟨q, hq, c, hc⟩ := WfDvdMonoid.exists_irreducible_factor hnu hG0
  have hq0 : q ≠ 0 := hq.ne_zero
  have hc0 : c ≠ 0 := by rintro rfl; rw [mul_zero] at hc; exact hG0 hc
  have hdeg := natDegree_mul hq0 hc0
  rw [← hc, hG, h q hq ⟨c, hc⟩] at hdeg
  have hcu : IsUnit c := by
    rw [Polynomial.isUnit_iff_degree_eq_zero, degree_eq_natDegree hc0]
    have : c.natDegree = 0 := by omega
    rw [this]; rfl
  have : Associated q G := by
    obtain ⟨u, rfl⟩ := hcu
    exact ⟨u, hc.symm⟩
  exact this.irreducible hq

/-- the second invariant of the inner loop of `squarefree`: R (the product of the parts collected so
far) times V is squarefree and R has no irreducible factor in common with T -/
def SqJ (R T V : (ZMod p)[X]) : Prop :=
  SqF p (R * V) ∧ ∀ q : (ZMod p)[X], Irreducible q → q ∣ R → ¬ q ∣ T

theorem SqJ.sqF_left {R T V : (ZMod p)[X]} (h : SqJ p R T V) : SqF p R := h.1.of_dvd p (dvd_mul_right _ _)

theorem SqJ.init {R T0 T V : (ZMod p)[X]} (hR : SqF p R)
    (hc : ∀ q : (ZMod p)[X], Irreducible q → q ∣ R → ¬ q ∣ T0) (hV : SqF p V) (hT0 : T0 = V * T) :
    SqJ p R T V :=
  ⟨sqF_mul p hR hV (fun q hq hqR hqV => hc q hq hqR (hqV.trans ⟨T, hT0⟩)),
    fun q hq hqR hqT => hc q hq hqR (hqT.trans ⟨V, by rw [hT0]; ring⟩)⟩

theorem SqJ.step_skip {R T V W A T1 : (ZMod p)[X]} (h : SqJ p R T V) (hV : V = A * W) (hT : T = T1 * W) :
    SqJ p R T1 W :=
  ⟨h.1.of_dvd p (mul_dvd_mul_left R ⟨A, by rw [hV]; ring⟩),
    fun q hq hqR hqT => h.2 q hq hqR (hqT.trans ⟨W, hT⟩)⟩

theorem SqJ.step_push {R T V W A T1 : (ZMod p)[X]} (h : SqJ p R T V) (hW : IsGcd W T V) (hV : V = A * W)
    (hT : T = T1 * W) : SqJ p (R * A) T1 W := by
  refine ⟨by rw [mul_assoc, ← hV]; exact h.1, fun q hq hqRA hqT1 => ?_⟩
  have hqT : q ∣ T := hqT1.trans ⟨W, hT⟩
  rcases hq.prime.dvd_or_dvd hqRA with hqR | hqA
  · exact h.2 q hq hqR hqT
  · have hsqV : SqF p (A * W) := by rw [← hV]; exact h.1.of_dvd p (dvd_mul_left _ _)
    have hqW : ¬ q ∣ W := hsqV.not_dvd_right p hq hqA
    exact hqW (hW.2.2 q hqT (hqA.trans ⟨W, hV⟩))

end
end NTV.PolyMod
