import NTV.Proofs.Lemmas.Round2ProofsG
import NTV.Proofs.Lemmas.Round2RingK
/-! Round 2, list level: integer row lattices through `HNF::kernel`, `HNF::new`, truncation and `linComb`;
the values of `mul_mod_p`; the tables of `one_step`. -/
open Matrix Finset
namespace NTV.Round2
open NTV.Ord NTV.PolyG
open NTV.Hnf (InLattice)

/-! ### lattices -/

theorem inLattice_zero_rows {m : Nat} (A : IMat) (v : Fin m → ℤ) : InLattice 0 m A v ↔ v = 0 := by
  constructor
  · rintro ⟨c, rfl⟩
    funext j
    simp [Matrix.vecMul, dotProduct]
  · rintro rfl
    exact ⟨0, by simp⟩

theorem ent_take (U : IMat) (k i j : Nat) (hi : i < k) : NTV.Hnf.ent (U.take k) i j = NTV.Hnf.ent U i j := by
  simp [NTV.Hnf.ent, List.getD_eq_getElem?_getD, hi]

/-- `HNF::kernel` of a rectangular `N × m` matrix (`N, m ≥ 1`): the rows generate exactly the left kernel -/
theorem kernelM_lattice (A : IMat) (N m : Nat) (hr : NTV.Hnf.Rect N m A) (hN : 0 < N) (hm : 0 < m) (K : IMat)
    (h : kernelM A = .ok K) :
    ∃ k, NTV.Hnf.Rect k N K ∧ ∀ v : Fin N → ℤ, InLattice k N K v ↔ v ᵥ* NTV.Hnf.toM N m A = 0 := by
  unfold kernelM at h
  split at h
  · rename_i K' hK
    cases h
    unfold NTV.Hnf.kernel at hK
    cases hw : NTV.Hnf.hnfWithU A with
    | none => rw [hw] at hK; cases hK
    | some res =>
      obtain ⟨H, U, k⟩ := res
      rw [hw] at hK
      simp only [Option.map_some, Option.some.injEq] at hK
      obtain ⟨W, pv, R⟩ := NTV.Hnf.Result.of_spec A N m hr hN hm H U k hw
      subst hK
      have hrect : NTV.Hnf.Rect k N (U.take k) := by
        refine ⟨by simp [R.rU.1, R.hk], ?_⟩
        intro r hr
        exact R.rU.2 r (List.mem_of_mem_take hr)
      refine ⟨k, hrect, ?_⟩
      have hrow : ∀ i : Fin k, NTV.Hnf.toM k N (U.take k) i = NTV.Hnf.toM N N U ⟨i.val, by have := R.hk; omega⟩ := by
        intro i
        funext j
        simp only [NTV.Hnf.toM]
        exact ent_take U k i.val j.val i.isLt
      intro v
      constructor
      · rintro ⟨c, rfl⟩
        rw [Matrix.vecMul_vecMul]
        have : NTV.Hnf.toM k N (U.take k) * NTV.Hnf.toM N m A = 0 := by
          ext i j
          have := congrFun (R.annihilates ⟨i.val, by have := R.hk; omega⟩ i.isLt) j
          rw [Matrix.mul_apply_eq_vecMul, hrow i]
          exact this
        rw [this, Matrix.vecMul_zero]
      · intro hv
        obtain ⟨c, hc0, hc⟩ := R.saturated v hv
        refine ⟨fun i => c ⟨i.val, by have := R.hk; omega⟩, ?_⟩
        rw [← hc]
        funext j
        simp only [Matrix.vecMul, dotProduct]
        have hsplit : ∑ x : Fin N, c x * NTV.Hnf.toM N N U x j =
            ∑ x ∈ Finset.range N, (if hx : x < N then c ⟨x, hx⟩ * NTV.Hnf.ent U x j.val else 0) := by
          rw [← Fin.sum_univ_eq_sum_range (fun x => if hx : x < N then c ⟨x, hx⟩ * NTV.Hnf.ent U x j.val else 0) N]
          apply Finset.sum_congr rfl
          intro x _
          simp [NTV.Hnf.toM]
        have hsplit2 : ∑ x : Fin k, c ⟨x.val, by have := R.hk; omega⟩ * NTV.Hnf.toM k N (U.take k) x j =
            ∑ x ∈ Finset.range k, (if hx : x < N then c ⟨x, hx⟩ * NTV.Hnf.ent U x j.val else 0) := by
          rw [← Fin.sum_univ_eq_sum_range (fun x => if hx : x < N then c ⟨x, hx⟩ * NTV.Hnf.ent U x j.val else 0) k]
          apply Finset.sum_congr rfl
          intro x _
          have hx : x.val < N := by have := R.hk; omega
          rw [dif_pos hx, hrow x]
          simp [NTV.Hnf.toM]
        rw [hsplit, hsplit2]
        have hkN : k ≤ N := R.hk
        rw [← Finset.sum_range_add_sum_Ico _ hkN]
        have : ∑ x ∈ Finset.Ico k N, (if hx : x < N then c ⟨x, hx⟩ * NTV.Hnf.ent U x j.val else 0) = 0 := by
          apply Finset.sum_eq_zero
          intro x hx
          have hx' := Finset.mem_Ico.mp hx
          rw [dif_pos hx'.2, hc0 ⟨x, hx'.2⟩ hx'.1, zero_mul]
        rw [this, add_zero]
  · cases h

/-- `HNF::new` keeps the row lattice (any number of rows, `m ≥ 1` columns) -/
theorem hnfM_lattice (A : IMat) (N m : Nat) (hr : NTV.Hnf.Rect N m A) (hm : 0 < m) (H : IMat)
    (h : hnfM A = .ok H) :
    ∃ r, NTV.Hnf.Rect r m H ∧ ∀ v : Fin m → ℤ, InLattice r m H v ↔ InLattice N m A v := by
  unfold hnfM at h
  split at h
  · rename_i H' hH
    cases h
    by_cases hN : N = 0
    · have : A = [] := List.eq_nil_of_length_eq_zero (by rw [hr.1, hN])
      subst this
      have : H = [] := by simpa [NTV.Hnf.hnfNew, NTV.Hnf.hnfWithU] using hH.symm
      subst this
      subst hN
      exact ⟨0, ⟨rfl, by simp⟩, fun v => Iff.rfl⟩
    · obtain ⟨H2, r, h1, hH2, _, hlat⟩ := NTV.Hnf.hnfNew_lattice A N m hr (by omega) hm
      rw [h1] at hH
      cases hH
      exact ⟨r, hH2, hlat⟩
  · cases h

/-- truncating every row to its first `a` entries projects the lattice -/
theorem lattice_map_take (M : IMat) (r a b : Nat) (v : Fin a → ℤ) :
    InLattice r a (M.map (fun row => row.take a)) v ↔
      ∃ w : Fin (a + b) → ℤ, InLattice r (a + b) M w ∧ ∀ i : Fin a, w (Fin.castAdd b i) = v i := by
  have hent : ∀ i j, j < a → NTV.Hnf.ent (M.map (fun row => row.take a)) i j = NTV.Hnf.ent M i j := by
    intro i j hj
    simp only [NTV.Hnf.ent, List.getD_eq_getElem?_getD, List.getElem?_map]
    cases M[i]? with
    | none => simp
    | some row => simp [hj]
  have key : ∀ c : Fin r → ℤ, ∀ i : Fin a,
      (c ᵥ* NTV.Hnf.toM r (a + b) M) (Fin.castAdd b i) =
        (c ᵥ* NTV.Hnf.toM r a (M.map (fun row => row.take a))) i := by
    intro c i
    simp only [Matrix.vecMul, dotProduct, NTV.Hnf.toM, Fin.val_castAdd]
    apply Finset.sum_congr rfl
    intro x _
    rw [hent x.val i.val i.isLt]
  constructor
  · rintro ⟨c, rfl⟩
    exact ⟨c ᵥ* NTV.Hnf.toM r (a + b) M, ⟨c, rfl⟩, key c⟩
  · rintro ⟨w, ⟨c, rfl⟩, hw⟩
    refine ⟨c, ?_⟩
    funext i
    rw [← hw i, key c i]

/-! ### `linComb` -/

theorem foldl_zipWith_getD_int {γ : Type} (g : γ → Int) (row : γ → List Int) (l : List γ)
    (init : List Int) (deg k : Nat) (hk : k < deg) (hinit : init.length = deg)
    (hl : ∀ x ∈ l, (row x).length = deg) :
    (l.foldl (fun acc x => List.zipWith (fun r t => r + g x * t) acc (row x)) init).getD k 0 =
      init.getD k 0 + (l.map (fun x => g x * (row x).getD k 0)).sum := by
  induction l generalizing init with
  | nil => simp
  | cons x xs ih =>
    simp only [List.foldl_cons, List.map_cons, List.sum_cons]
    have hx : (row x).length = deg := hl x (by simp)
    rw [ih _ (by simp [hinit, hx]) (fun y hy => hl y (by simp [hy]))]
    have e : (List.zipWith (fun r t => r + g x * t) init (row x)).getD k 0 =
        init.getD k 0 + g x * (row x).getD k 0 := by
      simp [List.getD_eq_getElem?_getD, hinit, hx, hk]
    rw [e, add_assoc]

theorem zip_map_sum {α β : Type} (da : α) (db : β) (F : α → β → Int) (u : List α) (v : List β)
    (h : u.length = v.length) :
    ((List.zip u v).map (fun x => F x.1 x.2)).sum =
      ∑ j ∈ Finset.range v.length, F (u.getD j da) (v.getD j db) := by
  induction v generalizing u with
  | nil => simp
  | cons r rs ih =>
    cases u with
    | nil => simp at h
    | cons c cs =>
      simp only [List.zip_cons_cons, List.map_cons, List.sum_cons, List.length_cons]
      rw [Finset.sum_range_succ', ih cs (by simpa using h)]
      simp [add_comm]

theorem replicate_getD_zero (n k : Nat) : (List.replicate n (0 : Int)).getD k 0 = 0 := by
  simp [List.getD_eq_getElem?_getD, List.getElem?_replicate]
  split <;> rfl

/-- `linComb` is the vector-matrix product -/
theorem linComb_getD (deg r : Nat) (c : List Int) (rows : IMat) (hc : c.length = r)
    (hrows : NTV.Hnf.Rect r deg rows) (k : Nat) (hk : k < deg) :
    (linComb deg c rows).getD k 0 = ∑ j ∈ Finset.range r, c.getD j 0 * NTV.Hnf.ent rows j k := by
  unfold linComb
  have h1 := foldl_zipWith_getD_int (fun (cr : Int × List Int) => cr.1) (fun cr => cr.2) (List.zip c rows)
    (List.replicate deg 0) deg k hk (by simp) (fun x hx => hrows.2 x.2 (List.of_mem_zip hx).2)
  rw [h1, replicate_getD_zero, zero_add]
  have h2 := zip_map_sum (0 : Int) ([] : List Int) (fun a row => a * row.getD k 0) c rows (by rw [hc, hrows.1])
  rw [h2, hrows.1]
  rfl

theorem vecZ_linComb (deg r : Nat) (c : List Int) (rows : IMat) (hc : c.length = r)
    (hrows : NTV.Hnf.Rect r deg rows) :
    vecZ (linComb deg c rows) deg = vecZ c r ᵥ* NTV.Hnf.toM r deg rows := by
  funext k
  simp only [vecZ, Matrix.vecMul, dotProduct, NTV.Hnf.toM]
  rw [linComb_getD deg r c rows hc hrows k.val k.isLt,
    ← Fin.sum_univ_eq_sum_range (fun j => c.getD j 0 * NTV.Hnf.ent rows j k.val) r]

/-- the rows of a rectangular matrix, as vectors -/
theorem toM_row_eq_vecZ (M : IMat) (r m : Nat) (i : Fin r) :
    NTV.Hnf.toM r m M i = vecZ (M.getD i.val []) m := by
  funext j
  simp [NTV.Hnf.toM, NTV.Hnf.ent, vecZ]

/-- the lattice of `N.map (linComb · up)` is the image of the lattice of `N` under `· ᵥ* up` -/
theorem lattice_map_linComb (deg r s : Nat) (N up : IMat) (hN : NTV.Hnf.Rect s r N)
    (hup : NTV.Hnf.Rect r deg up) (v : Fin deg → ℤ) :
    InLattice s deg (N.map (fun row => linComb deg row up)) v ↔
      ∃ c : Fin r → ℤ, InLattice s r N c ∧ v = c ᵥ* NTV.Hnf.toM r deg up := by
  have hM : NTV.Hnf.toM s deg (N.map (fun row => linComb deg row up)) =
      NTV.Hnf.toM s r N * NTV.Hnf.toM r deg up := by
    ext i k
    rw [Matrix.mul_apply_eq_vecMul, toM_row_eq_vecZ N s r i, toM_row_eq_vecZ _ s deg i]
    have hi : i.val < N.length := by rw [hN.1]; exact i.isLt
    have hrow : (N.map (fun row => linComb deg row up)).getD i.val [] = linComb deg (N.getD i.val []) up := by
      simp [List.getD_eq_getElem?_getD, List.getElem?_eq_getElem hi]
    rw [hrow, vecZ_linComb deg r _ up (hN.row_length i.val i.isLt) hup]
  constructor
  · rintro ⟨d, rfl⟩
    exact ⟨d ᵥ* NTV.Hnf.toM s r N, ⟨d, rfl⟩, by rw [hM, Matrix.vecMul_vecMul]⟩
  · rintro ⟨c, ⟨d, rfl⟩, rfl⟩
    exact ⟨d, by rw [hM, Matrix.vecMul_vecMul]⟩

/-! ### `mul_mod_p` -/

theorem foldl_getD_add {γ : Type} (step : List Int → γ → List Int) (c : γ → Int) (deg k : Nat)
    (l : List γ)
    (hstep : ∀ res x, x ∈ l → res.length = deg →
      (step res x).length = deg ∧ (step res x).getD k 0 = res.getD k 0 + c x)
    (init : List Int) (hinit : init.length = deg) :
    (l.foldl step init).length = deg ∧ (l.foldl step init).getD k 0 = init.getD k 0 + (l.map c).sum := by
  induction l generalizing init with
  | nil => simp [hinit]
  | cons x xs ih =>
    simp only [List.foldl_cons, List.map_cons, List.sum_cons]
    obtain ⟨h1, h2⟩ := hstep init x (by simp) hinit
    obtain ⟨h3, h4⟩ := ih (fun res y hy => hstep res y (by simp [hy])) _ h1
    exact ⟨h3, by rw [h4, h2, add_assoc]⟩

/-- an `n × n × n` table -/
structure Cube3 (n : Nat) (t : Table) : Prop where
  len : t.length = n
  len2 : ∀ ti ∈ t, ti.length = n
  len3 : ∀ ti ∈ t, ∀ tij ∈ ti, tij.length = n

theorem Cube3.cube {n : Nat} {t : Table} (h : Cube3 n t) : Cube n t := h.len3

/-- the value of `mul_mod_p`: `result[k] = (Σ_i Σ_j a_i b_j t[i][j][k]) % m` (truncated remainder) -/
theorem mulModP_getD (n : Nat) (a b : List Int) (t : Table) (m : Int) (ha : a.length = n)
    (hb : b.length = n) (ht : Cube3 n t) (k : Nat) (hk : k < n) :
    (mulModP a b t m).getD k 0 =
      Int.tmod (∑ i ∈ Finset.range n, ∑ j ∈ Finset.range n, a.getD i 0 * b.getD j 0 * tent t i j k) m := by
  unfold mulModP
  have hlen := mulModP_length a b t m n ha ht.cube
  unfold mulModP at hlen
  simp only [List.length_map] at hlen
  rw [List.getD_eq_getElem?_getD, List.getElem?_map]
  have hk' : k < ((List.zip a t).foldl (fun res ati =>
      (List.zip b ati.2).foldl (fun res btij =>
        List.zipWith (fun r t => r + ati.1 * btij.1 * t) res btij.2) res) (List.replicate a.length 0)).length := by
    rw [hlen]; exact hk
  rw [List.getElem?_eq_getElem hk']
  simp only [Option.map_some, Option.getD_some]
  congr 1
  have hget : ∀ (l : List Int) (h : k < l.length), l[k] = l.getD k 0 := by
    intro l h; simp [List.getD_eq_getElem?_getD, List.getElem?_eq_getElem h]
  rw [hget]
  have houter := foldl_getD_add
    (fun res (ati : Int × List (List Int)) => (List.zip b ati.2).foldl (fun res btij =>
        List.zipWith (fun r t => r + ati.1 * btij.1 * t) res btij.2) res)
    (fun ati => ∑ j ∈ Finset.range n, ati.1 * b.getD j 0 * (ati.2.getD j []).getD k 0) n k (List.zip a t)
    (by
      intro res ati hati hres
      have hati2 : ati.2 ∈ t := (List.of_mem_zip hati).2
      refine ⟨?_, ?_⟩
      · exact foldl_zipWith_length (fun (btij : Int × List Int) r t => r + ati.1 * btij.1 * t)
          (fun btij => btij.2) n _ res hres (fun y hy => ht.len3 _ hati2 y.2 (List.of_mem_zip hy).2)
      · have h1 := foldl_zipWith_getD_int (fun (btij : Int × List Int) => ati.1 * btij.1) (fun btij => btij.2)
          (List.zip b ati.2) res n k hk hres (fun y hy => ht.len3 _ hati2 y.2 (List.of_mem_zip hy).2)
        rw [h1]
        congr 1
        have h2 := zip_map_sum (0 : Int) ([] : List Int) (fun bj row => ati.1 * bj * row.getD k 0) b ati.2
          (by rw [hb, ht.len2 _ hati2])
        rw [h2, ht.len2 _ hati2])
    (List.replicate a.length 0) (by simp [ha])
  rw [houter.2, replicate_getD_zero, zero_add]
  have h3 := zip_map_sum (0 : Int) ([] : List (List Int))
    (fun ai ti => ∑ j ∈ Finset.range n, ai * b.getD j 0 * (ti.getD j []).getD k 0) a t (by rw [ha, ht.len])
  rw [h3, ht.len]
  rfl

end NTV.Round2
