import NTV.Model.Elementary
import Mathlib.Tactic
import Mathlib.Data.Nat.Prime.Basic
namespace NTV.Elem
open Classical

theorem getD_set_false (a : Array Bool) (i j : Nat) :
    (a.setIfInBounds i false).getD j false = if i = j then false else a.getD j false := by
  simp only [Array.getD_eq_getD_getElem?, Array.getElem?_setIfInBounds]
  split
  · split <;> simp
  · rfl

theorem crossOut_size (i cnt j : Nat) (a : Array Bool) : (crossOut i cnt j a).size = a.size := by
  induction cnt generalizing j a with
  | zero => rfl
  | succ cnt ih => simp only [crossOut]; rw [ih]; simp

theorem crossOut_getD (i cnt j : Nat) (a : Array Bool) (x : Nat) :
    (crossOut i cnt j a).getD x false =
      if ∃ j', j ≤ j' ∧ j' < j + cnt ∧ x = i * j' then false else a.getD x false := by
  induction cnt generalizing j a with
  | zero =>
    have : ¬ ∃ j', j ≤ j' ∧ j' < j + 0 ∧ x = i * j' := by rintro ⟨j', a1, a2, _⟩; omega
    simp only [crossOut, this, ↓reduceIte]
  | succ cnt ih =>
    simp only [crossOut]
    rw [ih, getD_set_false]
    by_cases h1 : ∃ j', j + 1 ≤ j' ∧ j' < j + 1 + cnt ∧ x = i * j'
    · obtain ⟨j', a1, a2, a3⟩ := h1
      have h2 : ∃ j', j ≤ j' ∧ j' < j + (cnt + 1) ∧ x = i * j' := ⟨j', by omega, by omega, a3⟩
      have h1' : ∃ j', j + 1 ≤ j' ∧ j' < j + 1 + cnt ∧ x = i * j' := ⟨j', a1, a2, a3⟩
      rw [if_pos h1', if_pos h2]
    · rw [if_neg h1]
      by_cases h2 : i * j = x
      · have h3 : ∃ j', j ≤ j' ∧ j' < j + (cnt + 1) ∧ x = i * j' := ⟨j, le_refl _, by omega, h2.symm⟩
        rw [if_pos h2, if_pos h3]
      · have h3 : ¬ ∃ j', j ≤ j' ∧ j' < j + (cnt + 1) ∧ x = i * j' := by
          rintro ⟨j', a1, a2, a3⟩
          by_cases e : j' = j
          · subst e; exact h2 a3.symm
          · exact h1 ⟨j', by omega, by omega, a3⟩
        rw [if_neg h2, if_neg h3]

/-- x has a proper divisor d with 2 ≤ d < I -/
def Marked (I x : Nat) : Prop := ∃ d, 2 ≤ d ∧ d < I ∧ d < x ∧ d ∣ x

def SInv (bound I : Nat) (a : Array Bool) : Prop :=
  ∀ x, x ≤ bound → (a.getD x false = true ↔ (2 ≤ x ∧ ¬ Marked I x))

theorem marked_succ_of_marked_self {i x : Nat} (hi : Marked i i) : Marked (i + 1) x ↔ Marked i x := by
  constructor
  · rintro ⟨d, h1, h2, h3, h4⟩
    by_cases hd : d = i
    · subst hd
      obtain ⟨e, e1, e2, e3, e4⟩ := hi
      exact ⟨e, e1, e2, by omega, dvd_trans e4 h4⟩
    · exact ⟨d, h1, by omega, h3, h4⟩
  · rintro ⟨d, h1, h2, h3, h4⟩
    exact ⟨d, h1, by omega, h3, h4⟩

theorem sieveLoop_inv (bound : Nat) : ∀ (cnt i : Nat) (a : Array Bool), 2 ≤ i → i + cnt = bound + 1 →
    SInv bound i a → SInv bound (bound + 1) (sieveLoop bound cnt i a) := by
  intro cnt
  induction cnt with
  | zero =>
    intro i a _ hic h
    have : i = bound + 1 := by omega
    subst this; exact h
  | succ cnt ih =>
    intro i a hi hic h
    have hib : i ≤ bound := by omega
    simp only [sieveLoop]
    split
    · rename_i hkept
      apply ih (i + 1) _ (by omega) (by omega)
      intro x hx
      rw [crossOut_getD]
      have hnm : ¬ Marked i i := ((h i hib).mp hkept).2
      by_cases hdiv : i ∣ x ∧ i < x
      · -- x is crossed out now
        obtain ⟨⟨q, rfl⟩, hlt⟩ := hdiv
        have hq : 2 ≤ q := by
          by_contra hq
          interval_cases q <;> omega
        have hex : ∃ j', 2 ≤ j' ∧ j' < 2 + (bound / i - 1) ∧ i * q = i * j' := by
          refine ⟨q, hq, ?_, rfl⟩
          have : q ≤ bound / i := (Nat.le_div_iff_mul_le (by omega)).mpr (by rw [mul_comm]; exact hx)
          omega
        simp only [hex, ↓reduceIte, Bool.false_eq_true, false_iff, not_and, not_not]
        intro _
        exact ⟨i, hi, by omega, hlt, Dvd.intro q rfl⟩
      · have hnex : ¬ ∃ j', 2 ≤ j' ∧ j' < 2 + (bound / i - 1) ∧ x = i * j' := by
          rintro ⟨j', a1, _, a3⟩
          apply hdiv
          subst a3
          exact ⟨Dvd.intro j' rfl, by nlinarith⟩
        simp only [hnex, ↓reduceIte]
        rw [h x hx]
        have : Marked (i + 1) x ↔ Marked i x := by
          constructor
          · rintro ⟨d, h1, h2, h3, h4⟩
            by_cases hd : d = i
            · subst hd; exact absurd ⟨h4, h3⟩ hdiv
            · exact ⟨d, h1, by omega, h3, h4⟩
          · rintro ⟨d, h1, h2, h3, h4⟩
            exact ⟨d, h1, by omega, h3, h4⟩
        rw [this]
    · rename_i hkept
      apply ih (i + 1) _ (by omega) (by omega)
      intro x hx
      have hmi : Marked i i := by
        by_contra hnm
        exact hkept ((h i hib).mpr ⟨hi, hnm⟩)
      rw [h x hx, marked_succ_of_marked_self hmi]

theorem init_inv (bound : Nat) : SInv bound 2 (
    let a := Array.replicate (bound + 1) true
    let a := a.setIfInBounds 0 false
    if bound ≥ 1 then a.setIfInBounds 1 false else a) := by
  intro x hx
  have hnm : ¬ Marked 2 x := by rintro ⟨d, h1, h2, _, _⟩; omega
  simp only [hnm, not_false_eq_true, and_true]
  have base : (Array.replicate (bound + 1) true).getD x false = true := by
    have : x < bound + 1 := by omega
    simp [Array.getD_eq_getD_getElem?, Array.getElem?_replicate, this]
  by_cases hb : bound ≥ 1
  · simp only [hb, ↓reduceIte, getD_set_false, base]
    by_cases h1 : 1 = x
    · subst h1; simp
    · by_cases h0 : 0 = x
      · subst h0; simp
      · simp [h1, h0]; omega
  · simp only [hb, ↓reduceIte, getD_set_false, base]
    have : x = 0 := by omega
    subst this; simp

theorem not_marked_iff_prime (bound x : Nat) (hx : x ≤ bound) :
    (2 ≤ x ∧ ¬ Marked (bound + 1) x) ↔ x.Prime := by
  rw [Nat.prime_def_lt]
  constructor
  · rintro ⟨h2, hnm⟩
    refine ⟨h2, ?_⟩
    intro m hm hdvd
    by_contra h1
    have hm0 : m ≠ 0 := by rintro rfl; simp at hdvd; omega
    exact hnm ⟨m, by omega, by omega, hm, hdvd⟩
  · rintro ⟨h2, hall⟩
    refine ⟨h2, ?_⟩
    rintro ⟨d, h1, _, h3, h4⟩
    have := hall d h3 h4
    omega

/-- C19 (sieve), full: `primes(bound)` is exactly the increasing list of primes ≤ bound -/
theorem primes_spec (bound : Nat) : primes bound = (List.range (bound + 1)).filter (fun x => decide x.Prime) := by
  unfold primes
  apply List.filter_congr
  intro x hx
  have hxb : x ≤ bound := by have := List.mem_range.mp hx; omega
  have hinv : SInv bound (bound + 1) (sieveArray bound) := by
    unfold sieveArray
    by_cases hb : 2 ≤ bound
    · exact sieveLoop_inv bound (bound - 1) 2 _ (le_refl _) (by omega) (init_inv bound)
    · -- bound ≤ 1: the loop does not run
      have hcnt : bound - 1 = 0 := by omega
      rw [hcnt]
      simp only [sieveLoop]
      intro y hy
      have := init_inv bound y hy
      rw [this]
      have e1 : ¬ Marked 2 y := by rintro ⟨d, h1, h2, _, _⟩; omega
      have e2 : ¬ Marked (bound + 1) y := by rintro ⟨d, h1, h2, _, _⟩; omega
      simp [e1, e2]
  have := hinv x hxb
  rw [not_marked_iff_prime bound x hxb] at this
  by_cases hp : x.Prime
  · have h2 := hp.two_le
    simp [hp, this.mpr hp, h2]
  · have : ¬ (sieveArray bound).getD x false = true := fun h => hp (this.mp h)
    simp [hp, this]

end NTV.Elem
