import NTV.Proofs.Lemmas.EcmDriverInv
import NTV.Proofs.Lemmas.ElemProofs
/-! The release profile really wraps a multiplicity at `x = 2^(2^64)`: both drivers return `[(2, 0)]`
(product 1) for every B1, every stream and every fuel ≥ 2.
Everything is proved for `x = 2^E` with a *variable* E and the hypothesis `E = two64`, so that neither
the elaborator nor the kernel is ever tempted to evaluate the power. -/
namespace NTV.Ecm
open NTV.Draw (Stream)

theorem two64_pos : 0 < two64 := by unfold two64; norm_num

theorem pow_gt (E : Nat) (h2 : 2 ≤ E) : 2 < 2 ^ E :=
  calc 2 < 2 ^ 2 := by norm_num
    _ ≤ 2 ^ E := Nat.pow_le_pow_right (by norm_num) h2

theorem pow_even (E : Nat) (h2 : 2 ≤ E) : 2 ^ E % 2 = 0 := by
  obtain ⟨m, hm⟩ : ∃ m, E = m + 1 := ⟨E - 1, by omega⟩
  rw [hm, pow_succ]; omega

/-- the largest exponent for which `2^E` is a perfect power is E, with base 2 -/
theorem ppSearch_pow (E : Nat) (h2 : 2 ≤ E) : NTV.Elem.ppSearch (2 ^ E) (NTV.Elem.bits (2 ^ E)) = (2, E) := by
  obtain ⟨s1, s2, s3⟩ := NTV.Elem.ppSearch_spec (2 ^ E) (NTV.Elem.bits (2 ^ E))
  generalize NTV.Elem.ppSearch (2 ^ E) (NTV.Elem.bits (2 ^ E)) = r at s1 s2 s3
  obtain ⟨base, k⟩ := r
  simp only at s1 s2 s3
  have hbits : NTV.Elem.bits (2 ^ E) = E + 1 := by
    unfold NTV.Elem.bits
    rw [if_neg (by positivity), Nat.log2_two_pow]
  have hk : E ≤ k := by
    by_contra hlt
    exact s3 E (by omega) (by omega) ⟨2, rfl⟩
  have hdvd : base ∣ 2 ^ E := by
    rw [← s1]; exact dvd_pow_self base (by omega)
  obtain ⟨j, _, hj⟩ := (Nat.dvd_prime_pow Nat.prime_two).mp hdvd
  subst hj
  have hjk : j * k = E := by
    rw [← pow_mul] at s1
    exact Nat.pow_right_injective (le_refl 2) s1
  have hj1 : j = 1 := by
    have h0 : j ≠ 0 := by
      intro h; rw [h] at hjk; omega
    by_contra hne
    have : 2 ≤ j := by omega
    have : 2 * k ≤ j * k := Nat.mul_le_mul_right k this
    omega
  subst hj1
  simp only [pow_one, one_mul] at hjk ⊢
  rw [hjk]

theorem perfectPower_pow (E : Nat) (h2 : 2 ≤ E) :
    NTV.Elem.perfectPower (((2 ^ E : Nat)) : Int) = some (2, E) := by
  unfold NTV.Elem.perfectPower
  have h := pow_gt E h2
  rw [if_neg (by omega), if_neg (by omega)]
  simp only [Int.toNat_natCast, ppSearch_pow E h2]
  rfl

theorem isPrimeS_even (n : Int) (h2 : 2 < n) (he : n % 2 = 0) (s : Stream) : isPrimeS n s = some (false, s) := by
  unfold isPrimeS NTV.Prime.isPrimeS
  have h1 : ¬ (n ≤ 1) := by omega
  have h3 : (n == 2) = false := by simp; omega
  simp [h1, h3, he]

theorem isPrimeS_two (s : Stream) : isPrimeS 2 s = some (true, s) := by
  unfold isPrimeS NTV.Prime.isPrimeS
  simp

/-- release, `x = 2^E` with `E = 2^64`: the driver loop wraps `1 * 2^64` to 0 and returns `[(2, 0)]` -/
theorem factorizeWith_release_wrap_gen (ecmFn : Int → Nat → Nat → Stream → EcmRes) (E : Nat) (hE : E = two64)
    (bsel : Int → Option Nat) (stream : Stream) (fuel : Nat) :
    factorizeWith ecmFn (((2 ^ E : Nat)) : Int) bsel stream (fuel + 2) .release = .ok [(2, 0)] 0 stream := by
  have h2 : 2 ≤ E := by rw [hE]; unfold two64; norm_num
  have hgt := pow_gt E h2
  have hev := pow_even E h2
  have hm : mulU64 .release 1 E = .ok 0 := by
    rw [hE]
    unfold mulU64
    rw [if_neg (by omega)]
    simp
  generalize hX : (((2 ^ E : Nat)) : Int) = X
  have hXgt : 2 < X := by rw [← hX]; omega
  have hXev : X % 2 = 0 := by rw [← hX]; omega
  have hpp : NTV.Elem.perfectPower X = some (2, E) := by rw [← hX]; exact perfectPower_pow E h2
  unfold factorizeWith
  rw [if_neg (by omega)]
  -- first iteration: even, perfect power with k = 2^64, multiplicity 1 * 2^64 wraps to 0
  unfold driverLoop
  simp only [List.getLast?_singleton, List.dropLast_singleton]
  rw [if_neg (by omega), isPrimeS_even _ hXgt hXev]
  simp only [hpp]
  rw [if_pos (show E ≥ 2 from h2)]
  simp only [hm, List.nil_append]
  -- second iteration: 2 is prime, `0 + 0`
  unfold driverLoop
  simp only [List.getLast?_singleton, List.dropLast_singleton]
  rw [if_neg (by omega)]
  simp only [isPrimeS_two]
  have ha : mapAdd .release [] 2 0 = .ok [(2, 0)] := by
    unfold mapAdd addU64
    simp [two64, Except.map]
  simp only [ha]
  cases fuel with
  | zero => simp [driverLoop, sortPairs, insertSorted]
  | succ f => simp [driverLoop, sortPairs, insertSorted]

/-- **release, x = 2^(2^64)** -/
theorem factorizeWith_release_wrap (ecmFn : Int → Nat → Nat → Stream → EcmRes) (bsel : Int → Option Nat) (stream : Stream)
    (fuel : Nat) :
    factorizeWith ecmFn (((2 ^ two64 : Nat)) : Int) bsel stream (fuel + 2) .release = .ok [(2, 0)] 0 stream :=
  factorizeWith_release_wrap_gen ecmFn two64 rfl bsel stream fuel

theorem wrap_product_ne_gen (E : Nat) (h2 : 2 ≤ E) : prodPairs [(2, 0)] ≠ (((2 ^ E : Nat)) : Int) := by
  have := pow_gt E h2
  simp only [prodPairs, pow_zero, mul_one]
  omega

theorem wrap_product_ne : prodPairs [(2, 0)] ≠ (((2 ^ two64 : Nat)) : Int) :=
  wrap_product_ne_gen two64 (by unfold two64; norm_num)

end NTV.Ecm
