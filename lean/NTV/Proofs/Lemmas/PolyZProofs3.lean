import Mathlib.RingTheory.Polynomial.UniqueFactorization
import Mathlib.RingTheory.Polynomial.Content
import Mathlib.RingTheory.UniqueFactorizationDomain.Multiplicity
import Mathlib.Algebra.Squarefree.Basic
import Mathlib.Algebra.Polynomial.Derivative
import Mathlib.Data.List.Prime
import Mathlib.Tactic
/-! Algebra in ℤ[X] behind the multiplicity bookkeeping of `factorize` (no model here):
the quotient of A by gcd(A, A') is squarefree and contains every irreducible factor of A; pairwise
coprime factors have their true multiplicities read off by repeated exact division. -/
open Polynomial
namespace NTV.PolyZ.Alg

/-- `G` is a greatest common divisor of `A` and `B` -/
def IsGcd (G A B : ℤ[X]) : Prop := G ∣ A ∧ G ∣ B ∧ ∀ e : ℤ[X], e ∣ A → e ∣ B → e ∣ G

theorem pow_dvd_derivative (π B : ℤ[X]) (n : Nat) : π ^ n ∣ derivative (π ^ (n + 1) * B) := by
  rw [derivative_mul, derivative_pow]
  apply dvd_add
  · simp only [Nat.add_one_sub_one]
    exact ⟨C ((n + 1 : ℕ) : ℤ) * derivative π * B, by ring⟩
  · exact ⟨π * derivative B, by ring⟩

/-- A / gcd(A, A') is squarefree -/
theorem squarefree_quot {A S G : ℤ[X]} (hA : A ≠ 0) (hG : IsGcd G A (derivative A)) (hASG : A = S * G) :
    Squarefree S := by
  have hS0 : S ≠ 0 := by rintro rfl; simp at hASG; exact hA hASG
  have hG0 : G ≠ 0 := by rintro rfl; simp at hASG; exact hA hASG
  rw [squarefree_iff_irreducible_sq_not_dvd_of_ne_zero hS0]
  rintro π hπ ⟨T, hT⟩
  obtain ⟨j, H, hH, hGj⟩ := WfDvdMonoid.max_power_factor hG0 hπ
  have hA' : A = π ^ (j + 1) * (π * T * H) := by rw [hASG, hT, hGj]; ring
  have h1 : π ^ (j + 1) ∣ A := ⟨_, hA'⟩
  have h2 : π ^ (j + 1) ∣ derivative A := by
    have : A = π ^ (j + 1 + 1) * (T * H) := by rw [hA']; ring
    rw [this]; exact pow_dvd_derivative π _ (j + 1)
  have h3 := hG.2.2 _ h1 h2
  rw [hGj, pow_succ, mul_comm (π ^ j) π] at h3
  have hπj : π ^ j ≠ 0 := pow_ne_zero _ hπ.ne_zero
  rw [mul_comm π, mul_dvd_mul_iff_left hπj] at h3
  exact hH h3

/-- a non-constant polynomial does not divide its derivative -/
theorem not_dvd_derivative {π : ℤ[X]} (h : 0 < π.natDegree) : ¬ π ∣ derivative π := by
  intro hd
  have hne : derivative π ≠ 0 := by
    intro h0
    have := Polynomial.derivative_eq_zero.mp h0
    omega
  have := natDegree_le_of_dvd hd hne
  have := natDegree_derivative_lt (p := π) (by omega)
  omega

/-- a non-unit divisor of a primitive polynomial is not constant -/
theorem natDegree_pos_of_dvd_primitive {π A : ℤ[X]} (hA : A.IsPrimitive) (hd : π ∣ A) (hu : ¬ IsUnit π) :
    0 < π.natDegree := by
  by_contra h0
  have h0' : π.natDegree = 0 := by omega
  obtain ⟨k, hk⟩ := natDegree_eq_zero.mp h0'
  rw [← hk] at hd hu
  exact hu (isUnit_C.mpr (hA k hd))

/-- every irreducible factor of a primitive `A` divides A / gcd(A, A') (characteristic 0) -/
theorem irreducible_dvd_quot {A S G π : ℤ[X]} (hA : A ≠ 0) (hprim : A.IsPrimitive)
    (hG : G ∣ derivative A) (hASG : A = S * G) (hπ : Irreducible π) (hd : π ∣ A) : π ∣ S := by
  by_contra hS
  have hπp : Prime π := UniqueFactorizationMonoid.irreducible_iff_prime.mp hπ
  have hdeg := natDegree_pos_of_dvd_primitive hprim hd hπ.not_isUnit
  obtain ⟨k, M, hM, hAk⟩ := WfDvdMonoid.max_power_factor hA hπ
  have hk : k ≠ 0 := by
    rintro rfl
    simp only [pow_zero, one_mul] at hAk
    exact hM (hAk ▸ hd)
  obtain ⟨n, rfl⟩ := Nat.exists_eq_succ_of_ne_zero hk
  -- π^(n+1) ∣ G
  have h1 : π ^ (n + 1) ∣ G := by
    have : π ^ (n + 1) ∣ S * G := ⟨M, by rw [← hASG, hAk]⟩
    exact hπp.pow_dvd_of_dvd_mul_left _ hS this
  have h2 : π ^ (n + 1) ∣ derivative A := dvd_trans h1 hG
  rw [hAk, derivative_mul, derivative_pow] at h2
  simp only [Nat.add_one_sub_one] at h2
  have h3 : π ^ (n + 1) ∣ π ^ (n + 1) * derivative M := Dvd.intro _ rfl
  have h4 := (dvd_add_left h3).mp h2
  have h5 : π ^ n * π ∣ π ^ n * (C ((n.succ : ℕ) : ℤ) * derivative π * M) := by
    rw [← pow_succ]
    convert h4 using 1
    ring
  rw [mul_dvd_mul_iff_left (pow_ne_zero _ hπ.ne_zero)] at h5
  rcases hπp.dvd_or_dvd h5 with h6 | h6
  · rcases hπp.dvd_or_dvd h6 with h7 | h7
    · have hne : (C ((n.succ : ℕ) : ℤ) : ℤ[X]) ≠ 0 := by
        rw [Ne, C_eq_zero]; exact_mod_cast Nat.succ_ne_zero n
      have := natDegree_le_of_dvd h7 hne
      rw [natDegree_C] at this
      omega
    · exact not_dvd_derivative hdeg h7
  · exact hM h6

/-! ### lists of factors with exponents -/

/-- value of an entry: f^e -/
noncomputable def pw (fe : ℤ[X] × Nat) : ℤ[X] := fe.1 ^ fe.2

theorem pairwise_of_squarefree_prod : ∀ (l : List ℤ[X]), Squarefree l.prod → l.Pairwise IsRelPrime
  | [], _ => List.Pairwise.nil
  | f :: l, h => by
    rw [List.prod_cons, squarefree_mul_iff] at h
    refine List.Pairwise.cons ?_ (pairwise_of_squarefree_prod l h.2.2)
    intro g hg
    exact h.1.of_dvd_right (List.dvd_prod hg)

theorem isRelPrime_prod_pw {f : ℤ[X]} : ∀ (l : List (ℤ[X] × Nat)), (∀ ge ∈ l, IsRelPrime f ge.1) →
    IsRelPrime f (l.map pw).prod
  | [], _ => by simpa using isRelPrime_one_right
  | ge :: l, h => by
    rw [List.map_cons, List.prod_cons]
    exact IsRelPrime.mul_right ((h ge (by simp)).pow_right) (isRelPrime_prod_pw l fun x hx => h x (by simp [hx]))

/-- The bookkeeping facts established by a run, in ℤ[X]: `A = R · ∏ f^e`, and each `f` fails to divide
what was left after it. -/
structure Book (A R : ℤ[X]) (L : List (ℤ[X] × Nat)) : Prop where
  hprod : A = R * (L.map pw).prod
  hmax : ∀ l1 f e l2, L = l1 ++ (f, e) :: l2 → ¬ f ∣ R * (l2.map pw).prod

theorem Book.split {A R : ℤ[X]} {L l1 l2 : List (ℤ[X] × Nat)} {f : ℤ[X]} {e : Nat} (b : Book A R L)
    (h : L = l1 ++ (f, e) :: l2) : A = (l1.map pw).prod * f ^ e * (R * (l2.map pw).prod) := by
  rw [b.hprod, h]
  simp only [List.map_append, List.map_cons, List.prod_append, List.prod_cons, pw]
  ring

/-- each power divides A -/
theorem Book.pow_dvd {A R : ℤ[X]} {L : List (ℤ[X] × Nat)} (b : Book A R L) {f : ℤ[X]} {e : Nat}
    (h : (f, e) ∈ L) : f ^ e ∣ A := by
  obtain ⟨l1, l2, hs⟩ := List.append_of_mem h
  rw [b.split hs]
  exact ⟨(l1.map pw).prod * (R * (l2.map pw).prod), by ring⟩

/-- a listed factor is not a unit (a unit divides everything) -/
theorem Book.not_isUnit {A R : ℤ[X]} {L : List (ℤ[X] × Nat)} (b : Book A R L) {f : ℤ[X]} {e : Nat}
    (h : (f, e) ∈ L) : ¬ IsUnit f := by
  obtain ⟨l1, l2, hs⟩ := List.append_of_mem h
  intro hu
  exact b.hmax l1 f e l2 hs hu.dvd

theorem pairwise_split {α : Type} {P : α → α → Prop} (hsym : ∀ x y, P x y → P y x) {l l1 l2 : List α} {x : α}
    (hp : l.Pairwise P) (h : l = l1 ++ x :: l2) : ∀ y ∈ l1, P x y := by
  subst h
  intro y hy
  rw [List.pairwise_append] at hp
  exact hsym _ _ (hp.2.2 y hy x (by simp))

/-- with pairwise coprime factors, the recorded exponent is the true multiplicity in `A` -/
theorem Book.true_multiplicity {A R : ℤ[X]} {L : List (ℤ[X] × Nat)} (b : Book A R L)
    (hcop : (L.map Prod.fst).Pairwise IsRelPrime) (hA : A ≠ 0) {f : ℤ[X]} {e : Nat} (h : (f, e) ∈ L) :
    f ^ e ∣ A ∧ ¬ f ^ (e + 1) ∣ A := by
  refine ⟨b.pow_dvd h, ?_⟩
  obtain ⟨l1, l2, hs⟩ := List.append_of_mem h
  intro hd
  have hf0 : f ≠ 0 := by
    rintro rfl
    rw [zero_pow (by omega), zero_dvd_iff] at hd
    exact hA hd
  rw [b.split hs] at hd
  have h1 : f ^ e * f ∣ f ^ e * ((l1.map pw).prod * (R * (l2.map pw).prod)) := by
    rw [← pow_succ]; convert hd using 1; ring
  rw [mul_dvd_mul_iff_left (pow_ne_zero _ hf0)] at h1
  have hrel : IsRelPrime f (l1.map pw).prod := by
    apply isRelPrime_prod_pw
    intro ge hge
    have hsplit : L.map Prod.fst = l1.map Prod.fst ++ f :: l2.map Prod.fst := by rw [hs]; simp
    exact pairwise_split (fun x y (hxy : IsRelPrime x y) => hxy.symm) hcop hsplit _ (List.mem_map_of_mem hge)
  exact b.hmax l1 f e l2 hs (hrel.dvd_of_dvd_mul_left h1)

/-- with pairwise coprime factors that all divide `A`, every exponent is at least 1 -/
theorem Book.exponent_pos {A R : ℤ[X]} {L : List (ℤ[X] × Nat)} (b : Book A R L)
    (hcop : (L.map Prod.fst).Pairwise IsRelPrime) (hA : A ≠ 0) {f : ℤ[X]} {e : Nat} (h : (f, e) ∈ L)
    (hfA : f ∣ A) : 1 ≤ e := by
  by_contra he
  have he0 : e = 0 := by omega
  subst he0
  have := (b.true_multiplicity hcop hA h).2
  simp only [zero_add, pow_one] at this
  exact this hfA

/-- pairwise coprime non-units are pairwise distinct -/
theorem Book.nodup {A R : ℤ[X]} {L : List (ℤ[X] × Nat)} (b : Book A R L)
    (hcop : (L.map Prod.fst).Pairwise IsRelPrime) : (L.map Prod.fst).Nodup := by
  have hnu : ∀ f ∈ L.map Prod.fst, ¬ IsUnit f := by
    intro f hf
    obtain ⟨⟨f', e⟩, hfe, rfl⟩ := List.mem_map.mp hf
    exact b.not_isUnit hfe
  rw [List.Nodup]
  have : (L.map Prod.fst).Pairwise (fun x y => IsRelPrime x y ∧ ¬ IsUnit x) := by
    rw [List.pairwise_iff_forall_sublist] at hcop ⊢
    intro x y hxy
    exact ⟨hcop hxy, hnu x (hxy.subset (by simp))⟩
  refine this.imp ?_
  rintro x y ⟨hrel, hx⟩ rfl
  exact hx (isRelPrime_self.mp hrel)

/-- if every listed factor is irreducible and every irreducible factor of `A` divides the product of the
listed factors, nothing is left: the last cofactor is a unit -/
theorem Book.cofactor_isUnit {A R : ℤ[X]} {L : List (ℤ[X] × Nat)} (b : Book A R L) (hA : A ≠ 0)
    (hirr : ∀ fe ∈ L, Irreducible fe.1)
    (hcover : ∀ π : ℤ[X], Irreducible π → π ∣ A → π ∣ (L.map Prod.fst).prod) : IsUnit R := by
  by_contra hu
  have hR0 : R ≠ 0 := by rintro rfl; apply hA; rw [b.hprod]; simp
  obtain ⟨π, hπ, hπR⟩ := WfDvdMonoid.exists_irreducible_factor hu hR0
  have hπA : π ∣ A := by rw [b.hprod]; exact Dvd.dvd.mul_right hπR _
  have hπp : Prime π := UniqueFactorizationMonoid.irreducible_iff_prime.mp hπ
  obtain ⟨f, hf, hπf⟩ := hπp.dvd_prod_iff.mp (hcover π hπ hπA)
  obtain ⟨⟨f', e⟩, hfe, rfl⟩ := List.mem_map.mp hf
  have hassoc : Associated π f' := hπ.associated_of_dvd (hirr _ hfe) hπf
  obtain ⟨l1, l2, hs⟩ := List.append_of_mem hfe
  exact b.hmax l1 f' e l2 hs (Dvd.dvd.mul_right (hassoc.symm.dvd.trans hπR) _)

end NTV.PolyZ.Alg
