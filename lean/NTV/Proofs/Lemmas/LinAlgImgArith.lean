import NTV.Model.LinAlg
import Mathlib.FieldTheory.Finite.Basic
import Mathlib.Tactic
/-! Arithmetic of `image_mod_p` over `ZMod p`: the truncated remainder is the identity modulo `p`,
and `p - modinv x p` is `-x⁻¹`. -/
namespace NTV.LinAlg

theorem cast_tmod (p : Nat) (a : Int) : ((Int.tmod a p : Int) : ZMod p) = (a : ZMod p) := by
  rw [Int.tmod_def]
  push_cast
  simp

/-- a truncated remainder modulo `p > 0` that is divisible by `p` is `0` -/
theorem tmod_reduced (p : Nat) (hp : 0 < p) (a : Int) (h : (p : Int) ∣ Int.tmod a p) : Int.tmod a p = 0 := by
  have h1 := Int.tmod_lt_of_pos a (show (0:Int) < p by omega)
  have h2 := Int.lt_tmod_of_pos a (show (0:Int) < p by omega)
  obtain ⟨q, hq⟩ := h
  rw [hq] at h1 h2 ⊢
  have : q = 0 := by nlinarith
  simp [this]

theorem cast_modpowLoop (p : Nat) (fuel : Nat) : ∀ (e : Nat) (prod cur : Int), e < fuel →
    ((modpowLoop p fuel e prod cur : Int) : ZMod p) = (prod : ZMod p) * (cur : ZMod p) ^ e := by
  induction fuel with
  | zero => intro e _ _ h; omega
  | succ fuel ih =>
    intro e prod cur hf
    unfold modpowLoop
    by_cases he : (e : Int) > 0
    · rw [if_pos he]
      have hdiv : Int.fdiv (e : Int) 2 = ((e / 2 : Nat) : Int) := by
        rw [Int.fdiv_eq_ediv_of_nonneg _ (by omega)]; omega
      simp only [hdiv]
      rw [ih (e / 2) _ _ (by omega), cast_tmod]
      have hsplit : e = 2 * (e / 2) + e % 2 := by omega
      by_cases hodd : e % 2 = 1
      · have : ((e : Int) % 2 != 0) = true := by
          simp only [bne_iff_ne, ne_eq]; omega
        rw [if_pos this, cast_tmod]
        conv_rhs => rw [hsplit, hodd]
        push_cast
        ring
      · have : ¬ ((e : Int) % 2 != 0) = true := by
          simp only [bne_iff_ne, ne_eq, not_not]; omega
        rw [if_neg this]
        have h0 : e % 2 = 0 := by omega
        conv_rhs => rw [hsplit, h0]
        push_cast
        ring
    · rw [if_neg he]
      have : e = 0 := by omega
      subst this
      simp

theorem cast_modpow (p : Nat) (x : Int) (e : Nat) :
    ((modpow x e p : Int) : ZMod p) = (x : ZMod p) ^ e := by
  unfold modpow
  rw [cast_modpowLoop p _ e 1 x (by simp)]
  simp

/-- the multiplier `dd = p - modinv(x, p)` of the elimination step is `-x⁻¹` modulo a prime `p` -/
theorem cast_dd_mul (p : Nat) (hp : p.Prime) (x : Int) (hx : ((x : Int) : ZMod p) ≠ 0) :
    (((p : Int) - modinv x p : Int) : ZMod p) * (x : ZMod p) = -1 := by
  have : Fact p.Prime := ⟨hp⟩
  have h2 : 2 ≤ p := hp.two_le
  unfold modinv
  have : ((p : Int) - 2) = ((p - 2 : Nat) : Int) := by omega
  rw [this]
  push_cast
  rw [cast_modpow]
  have h1 := ZMod.pow_card_sub_one_eq_one hx
  have : p - 1 = (p - 2) + 1 := by omega
  rw [this, pow_succ] at h1
  simp only [CharP.cast_eq_zero, zero_sub, neg_mul, h1]

end NTV.LinAlg
