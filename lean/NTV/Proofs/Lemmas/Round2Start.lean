import NTV.Proofs.Lemmas.Round2RingK
import NTV.Proofs.Lemmas.Round2ProofsG
/-! The starting order `Z<1, a_nθ, a_nθ²+a_{n-1}θ, …>` of `non_monic_initial_order` is a ring
(closed under multiplication). -/
open Polynomial Matrix
namespace NTV.Round2
open NTV.Ord NTV.PolyG
open NTV.RowOps (toM Rect ent)
open NTV.Alg (modulus cls cls_eq_iff)
open NTV.TableAbs (psi)

/-! ### abstract part -/
section Abstract
variable {K : Type*} [CommRing K]

/-- Horner partial sums `c_0 = e0`, `c_{i+1} = θ c_i + e_i`, with `c_n = 0`: if all `c_i` lie in an additive
subgroup `M` then so do all products `c_i c_j`. -/
theorem horner_mul_mem (M : Submodule ℤ K) (θ : K) (c : ℕ → K) (e : ℕ → ℤ) (n : ℕ) (e0 : ℤ)
    (h0 : c 0 = (e0 : K)) (hrec : ∀ i < n, c (i + 1) = θ * c i + (e i : K))
    (hn : c n = 0) (hM : ∀ i ≤ n, c i ∈ M) :
    ∀ i ≤ n, ∀ j ≤ n, c i * c j ∈ M := by
  intro i
  induction i with
  | zero =>
    intro _ j hj
    rw [h0, ← zsmul_eq_mul]
    exact M.smul_mem _ (hM j hj)
  | succ i ih =>
    intro hi j hj
    rcases Nat.eq_or_lt_of_le hj with rfl | hj'
    · rw [hn, mul_zero]; exact M.zero_mem
    · have e1 : c (i + 1) * c j = c i * c (j + 1) - (e j : K) * c i + (e i : K) * c j := by
        rw [hrec i (by omega), hrec j hj']; ring
      rw [e1]
      refine M.add_mem (M.sub_mem (ih (by omega) (j + 1) (by omega)) ?_) ?_
      · rw [← zsmul_eq_mul]; exact M.smul_mem _ (hM i (by omega))
      · rw [← zsmul_eq_mul]; exact M.smul_mem _ (hM j hj)

/-- a finitely generated ℤ-module whose generators multiply into it is closed under multiplication -/
theorem span_mul_mem {n : ℕ} (Ω : Fin n → K)
    (h : ∀ i j, Ω i * Ω j ∈ Submodule.span ℤ (Set.range Ω)) (x y : K)
    (hx : x ∈ Submodule.span ℤ (Set.range Ω)) (hy : y ∈ Submodule.span ℤ (Set.range Ω)) :
    x * y ∈ Submodule.span ℤ (Set.range Ω) := by
  obtain ⟨u, rfl⟩ := (Submodule.mem_span_range_iff_exists_fun ℤ).mp hx
  obtain ⟨v, rfl⟩ := (Submodule.mem_span_range_iff_exists_fun ℤ).mp hy
  rw [Finset.sum_mul_sum]
  refine Submodule.sum_mem _ (fun k _ => Submodule.sum_mem _ (fun l _ => ?_))
  rw [smul_mul_smul_comm]
  exact Submodule.smul_mem _ _ (h k l)

/-- integer combinations, as `psi` and as elements of the span -/
theorem psi_castV_eq {n : ℕ} (q : ℚ →+* K) (Ω : Fin n → K) (z : Fin n → ℤ) :
    psi q Ω (NTV.TableAbs.castV z) = ∑ i, z i • Ω i := by
  simp [psi, NTV.TableAbs.castV, zsmul_eq_mul]

theorem mem_span_iff_psi {n : ℕ} (q : ℚ →+* K) (Ω : Fin n → K) (x : K) :
    x ∈ Submodule.span ℤ (Set.range Ω) ↔ ∃ z : Fin n → ℤ, x = psi q Ω (NTV.TableAbs.castV z) := by
  rw [Submodule.mem_span_range_iff_exists_fun]
  constructor
  · rintro ⟨z, rfl⟩; exact ⟨z, (psi_castV_eq q Ω z).symm⟩
  · rintro ⟨z, rfl⟩; exact ⟨z, (psi_castV_eq q Ω z).symm⟩

end Abstract

/-! ### the Horner partial sums of `f` as rational polynomials -/

/-- `c_i = a_n X^i + a_{n-1} X^{i-1} + … + a_{n-i}` -/
noncomputable def hornerP (f : List Int) : ℕ → ℚ[X]
  | 0 => C ((coefAt f (degU f) : ℤ) : ℚ)
  | i + 1 => X * hornerP f i + C ((coefAt f (degU f - i - 1) : ℤ) : ℚ)

theorem coeff_hornerP (f : List Int) (i j : ℕ) :
    (hornerP f i).coeff j = if j ≤ i then ((coefAt f (degU f - (i - j)) : ℤ) : ℚ) else 0 := by
  induction i generalizing j with
  | zero =>
    simp only [hornerP, coeff_C]
    by_cases hj : j = 0
    · subst hj; simp
    · simp [hj]
  | succ i ih =>
    simp only [hornerP, coeff_add, coeff_C]
    cases j with
    | zero => simp [Nat.sub_sub]
    | succ j =>
      rw [coeff_X_mul, ih]
      simp

theorem coeff_startRow (f : List Int) (i : ℕ) (hi : i < degU f) (c : ℕ) :
    (toPoly ((startBasis f).getD i [])).coeff c =
      if c < degU f then
        (if i = 0 then (if c = 0 then 1 else 0)
         else if 1 ≤ c ∧ c ≤ i then ((coefAt f (degU f - (i - c)) : ℤ) : ℚ) else 0)
      else 0 := by
  rw [coeff_toPoly]
  by_cases hc : c < degU f
  · simp [startBasis, List.getD_eq_getElem?_getD, hi, hc]
  · simp [startBasis, List.getD_eq_getElem?_getD, hi, hc]

theorem toPoly_startRow_zero (f : List Int) (hn : 0 < degU f) :
    toPoly ((startBasis f).getD 0 []) = 1 := by
  ext c
  rw [coeff_startRow f 0 hn, coeff_one]
  by_cases hc : c = 0
  · subst hc; simp [hn]
  · simp [hc]

theorem toPoly_startRow_succ (f : List Int) (i : ℕ) (h0 : 0 < i) (hi : i < degU f) :
    toPoly ((startBasis f).getD i []) = hornerP f i - C ((coefAt f (degU f - i) : ℤ) : ℚ) := by
  ext c
  rw [coeff_startRow f i hi, coeff_sub, coeff_hornerP, coeff_C]
  have hi0 : i ≠ 0 := by omega
  simp only [hi0, if_false]
  by_cases hc : c = 0
  · subst hc; simp
  · by_cases hci : c ≤ i
    · have h1 : 1 ≤ c := by omega
      have h2 : c < degU f := by omega
      simp [hc, hci, h1, h2]
    · simp [hc, hci]

theorem hornerP_top (f : List Int) (hl : f.length = degU f + 1) : hornerP f (degU f) = modulus f := by
  ext c
  rw [coeff_hornerP]
  unfold modulus
  rw [coeff_toPoly]
  by_cases hc : c ≤ degU f
  · have : degU f - (degU f - c) = c := by omega
    simp [hc, this, coefAt, NTV.Alg.intsToRats, List.getD_eq_getElem?_getD]
    have hlt : c < f.length := by omega
    simp [hlt]
  · have hlt : f.length ≤ c := by omega
    simp [hc, NTV.Alg.intsToRats, List.getD_eq_getElem?_getD, hlt]

/-! ### the classes in `K = ℚ[X]/(f)` -/

/-- the class of the Horner partial sum -/
noncomputable def cK (f : List Int) (i : ℕ) : ℚ[X] ⧸ Ideal.span {modulus f} := cls f (hornerP f i)

theorem cls_C_int (f : List Int) (z : ℤ) :
    cls f (C ((z : ℤ) : ℚ)) = ((z : ℤ) : ℚ[X] ⧸ Ideal.span {modulus f}) := by
  rw [show (C ((z : ℤ) : ℚ) : ℚ[X]) = ((z : ℤ) : ℚ[X]) from map_intCast C z, map_intCast]

theorem cK_zero (f : List Int) :
    cK f 0 = ((coefAt f (degU f) : ℤ) : ℚ[X] ⧸ Ideal.span {modulus f}) := by
  unfold cK hornerP
  exact cls_C_int f _

theorem cK_succ (f : List Int) (i : ℕ) :
    cK f (i + 1) = cls f X * cK f i + ((coefAt f (degU f - i - 1) : ℤ) : ℚ[X] ⧸ Ideal.span {modulus f}) := by
  unfold cK
  rw [hornerP, map_add, map_mul, cls_C_int]

theorem cK_top (f : List Int) (hl : f.length = degU f + 1) : cK f (degU f) = 0 := by
  unfold cK
  rw [hornerP_top f hl]
  have := (cls_eq_iff f (modulus f) 0).mpr (by simp)
  rw [this, map_zero]

theorem omegaK_start_zero (f : List Int) (hn : 0 < degU f) :
    omegaK f (startBasis f) (degU f) ⟨0, hn⟩ = 1 := by
  unfold omegaK
  rw [toPoly_startRow_zero f hn, map_one]

theorem omegaK_start_succ (f : List Int) (i : Fin (degU f)) (h0 : 0 < i.val) :
    omegaK f (startBasis f) (degU f) i =
      cK f i - ((coefAt f (degU f - i) : ℤ) : ℚ[X] ⧸ Ideal.span {modulus f}) := by
  unfold omegaK cK
  rw [toPoly_startRow_succ f i h0 i.2, map_sub, cls_C_int]

/-- the ℤ-span of the classes of the rows of the start basis -/
noncomputable def startM (f : List Int) : Submodule ℤ (ℚ[X] ⧸ Ideal.span {modulus f}) :=
  Submodule.span ℤ (Set.range (omegaK f (startBasis f) (degU f)))

theorem one_mem_startM (f : List Int) (hn : 0 < degU f) : (1 : ℚ[X] ⧸ Ideal.span {modulus f}) ∈ startM f := by
  rw [← omegaK_start_zero f hn]
  exact Submodule.subset_span ⟨_, rfl⟩

theorem int_mem_startM (f : List Int) (hn : 0 < degU f) (z : ℤ) :
    ((z : ℤ) : ℚ[X] ⧸ Ideal.span {modulus f}) ∈ startM f := by
  have := (startM f).smul_mem z (one_mem_startM f hn)
  rwa [zsmul_eq_mul, mul_one] at this

theorem cK_mem_startM (f : List Int) (hl : f.length = degU f + 1) (hn : 0 < degU f) (i : ℕ) (hi : i ≤ degU f) :
    cK f i ∈ startM f := by
  rcases Nat.eq_or_lt_of_le hi with rfl | hi'
  · rw [cK_top f hl]; exact (startM f).zero_mem
  · rcases Nat.eq_zero_or_pos i with rfl | h0
    · rw [cK_zero]; exact int_mem_startM f hn _
    · have h := omegaK_start_succ f ⟨i, hi'⟩ h0
      have e : cK f i = omegaK f (startBasis f) (degU f) ⟨i, hi'⟩ +
          ((coefAt f (degU f - i) : ℤ) : ℚ[X] ⧸ Ideal.span {modulus f}) := by
        rw [h]; simp
      rw [e]
      exact (startM f).add_mem (Submodule.subset_span ⟨_, rfl⟩) (int_mem_startM f hn _)

theorem cK_mul_mem (f : List Int) (hl : f.length = degU f + 1) (hn : 0 < degU f) (i j : ℕ)
    (hi : i ≤ degU f) (hj : j ≤ degU f) : cK f i * cK f j ∈ startM f :=
  horner_mul_mem (startM f) (cls f X) (cK f) (fun i => coefAt f (degU f - i - 1)) (degU f)
    (coefAt f (degU f)) (cK_zero f) (fun i _ => cK_succ f i) (cK_top f hl)
    (fun i hi => cK_mem_startM f hl hn i hi) i hi j hj

/-- products of the generators of the start module lie in it -/
theorem start_gen_mul_mem (f : List Int) (hl : f.length = degU f + 1) (hn : 0 < degU f)
    (i j : Fin (degU f)) :
    omegaK f (startBasis f) (degU f) i * omegaK f (startBasis f) (degU f) j ∈ startM f := by
  have hgen : ∀ k : Fin (degU f), omegaK f (startBasis f) (degU f) k ∈ startM f :=
    fun k => Submodule.subset_span ⟨_, rfl⟩
  rcases Nat.eq_zero_or_pos i.val with hi0 | hi0
  · have : i = ⟨0, hn⟩ := Fin.ext hi0
    rw [this, omegaK_start_zero f hn, one_mul]; exact hgen j
  rcases Nat.eq_zero_or_pos j.val with hj0 | hj0
  · have : j = ⟨0, hn⟩ := Fin.ext hj0
    rw [this, omegaK_start_zero f hn, mul_one]; exact hgen i
  rw [omegaK_start_succ f i hi0, omegaK_start_succ f j hj0]
  set α : ℤ := coefAt f (degU f - i) with hα
  set β : ℤ := coefAt f (degU f - j) with hβ
  have e : (cK f i - (α : ℚ[X] ⧸ Ideal.span {modulus f})) * (cK f j - (β : ℚ[X] ⧸ Ideal.span {modulus f})) =
      cK f i * cK f j - α • cK f j - β • cK f i + ((α * β : ℤ) : ℚ[X] ⧸ Ideal.span {modulus f}) := by
    rw [zsmul_eq_mul, zsmul_eq_mul]; push_cast; ring
  rw [e]
  have hci := cK_mem_startM f hl hn i (le_of_lt i.2)
  have hcj := cK_mem_startM f hl hn j (le_of_lt j.2)
  exact (startM f).add_mem ((startM f).sub_mem ((startM f).sub_mem
    (cK_mul_mem f hl hn i j (le_of_lt i.2) (le_of_lt j.2)) ((startM f).smul_mem _ hcj))
    ((startM f).smul_mem _ hci)) (int_mem_startM f hn _)

/-- the start module is closed under multiplication -/
theorem startM_mul_mem (f : List Int) (hl : f.length = degU f + 1) (hn : 0 < degU f)
    (x y : ℚ[X] ⧸ Ideal.span {modulus f}) (hx : x ∈ startM f) (hy : y ∈ startM f) : x * y ∈ startM f :=
  span_mul_mem _ (start_gen_mul_mem f hl hn) x y hx hy

/-! ### back to the list model -/

theorem nonMonicInitialOrder_len (f : List Int) (S : QMat) (h : nonMonicInitialOrder f = .ok S) :
    f.length = degU f + 1 := by
  unfold nonMonicInitialOrder at h
  simp only at h
  split at h
  · cases h
  · rename_i hne
    split at h
    · cases h
    · rename_i hd
      unfold degU at hd ⊢
      simp only [hne] at hd ⊢
      simp only [Bool.false_eq_true, if_false] at hd ⊢
      omega

/-- the starting order Z<1, a_nθ, a_nθ²+a_{n-1}θ, …> of `non_monic_initial_order` is a ring -/
theorem start_closed (f : List Int) (hf : NTV.PolyG.Canon f) (S : QMat)
    (hS : nonMonicInitialOrder f = .ok S)
    (hdet : (toM (degU f) (degU f) S).det ≠ 0) : NTV.Ord.Closed f S (degU f) := by
  obtain ⟨hn, hred⟩ := nonMonicInitialOrder_inv f S hS
  have hl := nonMonicInitialOrder_len f S hS
  obtain ⟨rS, hns⟩ := hnfReduce_ok_nonsing _ _ hn (startBasis_rect f) S hred
  have dB := hns hdet
  obtain ⟨O, hO, rO, U, hU, hrel⟩ := fromBasis_spans (startBasis f) _ hn (startBasis_rect f) dB
  have hOS : O = S := by
    unfold fromBasis at hO
    rw [hred] at hO
    injection hO with hO
    exact hO.symm
  subst hOS
  have hinv : toM (degU f) (degU f) (startBasis f) =
      (U⁻¹).map (Int.castRingHom ℚ) * toM (degU f) (degU f) O := by
    rw [hrel, ← Matrix.mul_assoc, ← Matrix.map_mul, Matrix.nonsing_inv_mul _ hU]
    simp
  have St : Setup f O (degU f) := ⟨hf, hl, hn, rS, hdet⟩
  apply St.closed_of_K
  intro i j
  have hmem : ∀ k, omegaK f O (degU f) k ∈ startM f := by
    intro k
    rw [omegaK_of_mul O (startBasis f) rS (startBasis_rect f) _ hrel k]
    have : U.map (Int.castRingHom ℚ) k = NTV.TableAbs.castV (U k) := rfl
    rw [this]
    exact (mem_span_iff_psi _ _ _).mpr ⟨_, rfl⟩
  have hprod := startM_mul_mem f hl hn _ _ (hmem i) (hmem j)
  obtain ⟨w, hw⟩ := (mem_span_iff_psi (qK f) _ _).mp hprod
  refine ⟨w ᵥ* U⁻¹, ?_⟩
  rw [hw, psi_vecMul (qK f) (omegaK f O (degU f)) (omegaK f (startBasis f) (degU f))
    ((U⁻¹).map (Int.castRingHom ℚ))
    (fun k => omegaK_of_mul (startBasis f) O (startBasis_rect f) rS _ hinv k)]
  congr 1
  ext c
  simp [NTV.TableAbs.castV, Matrix.vecMul, dotProduct]

/-- non-vacuity: f = 2x³ + 3x² + x + 5, start order Z<1, 2θ, 2θ² + 3θ> (stored in normal form) -/
example : NTV.Ord.Closed [5, 1, 3, 2] [[1, 0, 0], [0, 2, 0], [0, 1, 2]] 3 := by
  have hS : nonMonicInitialOrder [5, 1, 3, 2] = .ok [[1, 0, 0], [0, 2, 0], [0, 1, 2]] := by decide +kernel
  have hc : NTV.PolyG.Canon ([5, 1, 3, 2] : List Int) := by intro _; simp
  refine start_closed [5, 1, 3, 2] hc _ hS ?_
  show (toM 3 3 ([[1, 0, 0], [0, 2, 0], [0, 1, 2]] : QMat)).det ≠ 0
  rw [Matrix.det_fin_three]
  simp [toM, NTV.RowOps.ent]

example : nonMonicInitialOrder [2, 0, 0, 4] = .ok [[1, 0, 0], [0, 4, 0], [0, 0, 4]] := by decide +kernel

end NTV.Round2
