import NTV.Model.Ideal
import NTV.Proofs.C08
import NTV.Proofs.C15
/-! # Prime decomposition (C17), part A: the shape of a successful run of `decompose`, and the degree
identity Σ eᵢ · deg gᵢ = deg f read off the product identity of C08. -/
namespace NTV.DecompP
open NTV.Ideal NTV.PolyG NTV.PolyMod Polynomial

/-- a successful `mapM` in `Except`: same length, position by position -/
theorem mapM_ok_iff {α β : Type} (g : α → Except String β) (l : List α) (res : List β) :
    l.mapM g = .ok res ↔ res.length = l.length ∧ ∀ i (h : i < l.length) (h' : i < res.length),
      g l[i] = .ok res[i] := by
  induction l generalizing res with
  | nil =>
    rw [List.mapM_nil]
    constructor
    · intro h; cases h; simp
    · rintro ⟨h, _⟩
      have : res = [] := List.length_eq_zero_iff.mp h
      subst this; rfl
  | cons x xs ih =>
    rw [List.mapM_cons]
    constructor
    · intro h
      cases hx : g x with
      | error e => rw [hx] at h; cases h
      | ok y =>
        rw [hx] at h
        cases hxs : xs.mapM g with
        | error e => rw [hxs] at h; cases h
        | ok ys =>
          rw [hxs] at h
          have : res = y :: ys := by cases h; rfl
          subst this
          obtain ⟨h1, h2⟩ := (ih ys).mp hxs
          refine ⟨by simp [h1], ?_⟩
          intro i hi hi'
          cases i with
          | zero => exact hx
          | succ j => exact h2 j (by simpa using hi) (by simpa using hi')
    · rintro ⟨h1, h2⟩
      cases res with
      | nil => simp at h1
      | cons y ys =>
        have hx : g x = .ok y := h2 0 (by simp) (by simp)
        have hxs : xs.mapM g = .ok ys := by
          apply (ih ys).mpr
          refine ⟨by simpa using h1, ?_⟩
          intro i hi hi'
          exact h2 (i + 1) (by simpa using hi) (by simpa using hi')
        rw [hx, hxs]; rfl

/-- `primeAbove` hands the multiplicity through -/
theorem primeAbove_snd {f : List Int} {B : QMat} {t : Table} {p : Int} {g : List Int} {e : Nat}
    {P : HNF} {e' : Nat} (h : primeAbove f B t p g e = .ok (P, e')) : e' = e := by
  unfold primeAbove at h
  simp only [bind, Except.bind, pure, Except.pure] at h
  repeat' split at h
  all_goals first | (cases h; done) | (cases h; rfl)

/-- what a successful run of `decompose` went through -/
theorem decompose_ok {f : List Int} {B : QMat} {t : Table} {p : Int} {s : NTV.Draw.Stream}
    {res : List (HNF × Nat)} (h : decompose f B t p s = .ok res) :
    ∃ z idx fs, f ≠ [] ∧ NTV.Ord.trivialOrderMonic f = .ok z ∧ NTV.Ord.index B z = .ok idx ∧ p ≠ 0 ∧
      Int.tmod idx p ≠ 0 ∧ factorizeModP f p (wordOf p) s = .ok fs ∧
      fs.mapM (fun (x : List Int × Nat) => primeAbove f B t p x.1 x.2) = .ok res := by
  unfold decompose at h
  simp only [bind, Except.bind, throw, throwThe, MonadExceptOf.throw] at h
  split at h
  · cases h
  rename_i hemp
  split at h
  · cases h
  rename_i z hz
  split at h
  · cases h
  rename_i idx hidx
  split at h
  · cases h
  rename_i hp0
  split at h
  · cases h
  rename_i hmod
  split at h
  · cases h
  rename_i fs hfs
  refine ⟨z, idx, fs, ?_, hz, hidx, hp0, hmod, hfs, h⟩
  intro e; subst e; simp at hemp


/-! ### the degree identity -/
section deg
variable (p : ℕ) [hp : Fact p.Prime]

theorem natDegree_fprod (fs : Factors) (h : ∀ x ∈ fs, Shape p x) :
    (fprod p fs).natDegree = (fs.map (fun x => x.2 * degU x.1)).sum := by
  induction fs with
  | nil => simp
  | cons x fs ih =>
    have hx := h x (by simp)
    have hrest : ∀ y ∈ fs, Shape p y := fun y hy => h y (by simp [hy])
    have hne : x.1 ≠ [] := by intro e; have := hx.2.2.1; rw [e] at this; simp at this
    have hemp : x.1.isEmpty = false := by cases hq : x.1 <;> simp_all
    rw [fprod_cons, ((Shape.monic p hx).pow _).natDegree_mul (fprod_monic p fs hrest),
      (Shape.monic p hx).natDegree_pow, (natDegree_mp p x.1 hx.1 hne).1, ih hrest]
    have hd : degU x.1 = x.1.length - 1 := by unfold degU; rw [hemp]; rfl
    rw [List.map_cons, List.sum_cons, hd]

/-- Σ eᵢ · deg gᵢ = deg f for a monic f -/
theorem degree_sum_core (f : List Int) (n : Nat) (hfl : f.length = n + 1) (hmonic : lc f = 1)
    (pusize : Nat) (s : NTV.Draw.Stream) (fs : Factors) (hpu : pusize = p ∨ f.length ≤ p)
    (h : factorizeModP f (p : Int) pusize s = .ok fs) :
    (fs.map (fun x => x.2 * degU x.1)).sum = n := by
  obtain ⟨h1, h2, _⟩ := factorizeModP_spec p f pusize s fs hpu h
  have hne : f ≠ [] := by intro e; simp [e] at hfl
  have hcanon : Canon f := by
    intro hh
    rw [getLast_eq_getD f hh, lc_eq_getD f hh, hmonic]
    exact one_ne_zero
  obtain ⟨d1, d2, _⟩ := natDegree_toPoly f hne hcanon
  have hm : (toPoly f).Monic := by rw [Monic, d2, hmonic]
  have hmm : (mp p f).Monic := hm.map _
  have hd : (mp p f).natDegree = n := by
    unfold mp; rw [hm.natDegree_map, d1, hfl]; rfl
  rw [hmm.leadingCoeff, map_one, one_mul] at h1
  rw [← natDegree_fprod p fs h2, ← h1, hd]

end deg

end NTV.DecompP
