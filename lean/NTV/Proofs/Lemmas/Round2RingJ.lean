import NTV.Proofs.Lemmas.Round2RingI
/-! Round 2, maximality (Pohst–Zassenhaus, Cohen Theorem 6.1.3 (2)): if `one_step` does not enlarge the order
(`howmany = 0`) then the order is `p`-maximal. `p`-maximality at the level of stored bases (`PMaximal`), its
relation to the abstract notion `NTV.R2Abs.PMax`, and transfer along extensions of index prime to `p`. -/
open Matrix Finset Polynomial
namespace NTV.Round2
open NTV.Ord NTV.PolyG NTV.R2Abs
open NTV.TableAbs (Ctx psi)
open NTV.RowOps (toM Rect ent)

variable {f : List Int} {n : Nat}

/-- scaled change of basis at the level of elements: if `c • A = Q · B` (`Q` integral) then
`c · (Σ z_i α_i) = Σ (z·Q)_j β_j` -/
theorem el_scaled (A B : QMat) (rA : Rect n n A) (rB : Rect n n B) (c : ℚ) (hc : c ≠ 0)
    (Q : Matrix (Fin n) (Fin n) ℤ) (h : c • toM n n A = Q.map (Int.castRingHom ℚ) * toM n n B)
    (z : Fin n → ℤ) :
    (qK f) c * el (qK f) (omegaK f A n) z = el (qK f) (omegaK f B n) (z ᵥ* Q) := by
  have hrel : toM n n A = (c⁻¹ • Q.map (Int.castRingHom ℚ)) * toM n n B := by
    rw [Matrix.smul_mul, ← h, smul_smul, inv_mul_cancel₀ hc, one_smul]
  have hΩ := omegaK_of_mul (f := f) A B rA rB _ hrel
  unfold el
  rw [psi_vecMul (qK f) (omegaK f B n) (omegaK f A n) _ hΩ, Matrix.vecMul_smul, NTV.TableAbs.psi_smul,
    ← mul_assoc, ← map_mul, mul_inv_cancel₀ hc, map_one, one_mul]
  congr 1
  funext j
  simp [NTV.TableAbs.castV, Matrix.vecMul, dotProduct]

theorem el_of_mul (A B : QMat) (rA : Rect n n A) (rB : Rect n n B)
    (Q : Matrix (Fin n) (Fin n) ℤ) (h : toM n n A = Q.map (Int.castRingHom ℚ) * toM n n B)
    (z : Fin n → ℤ) :
    el (qK f) (omegaK f A n) z = el (qK f) (omegaK f B n) (z ᵥ* Q) := by
  have := el_scaled (f := f) A B rA rB 1 one_ne_zero Q (by rw [one_smul]; exact h) z
  rwa [map_one, one_mul] at this

/-- `p`-maximality of a stored order `O`: every order `S ⊇ O` (non-singular basis, closed under
multiplication) with `p^r·S ⊆ O` for some `r` is contained in `O` — there is no strictly larger order in which
`O` has `p`-power index -/
def PMaximal (f : List Int) (n : Nat) (O : QMat) (p : ℕ) : Prop :=
  ∀ S : QMat, Rect n n S → (toM n n S).det ≠ 0 → Closed f S n →
    (∃ A : Matrix (Fin n) (Fin n) ℤ, toM n n O = A.map (Int.castRingHom ℚ) * toM n n S) →
    (∃ (r : ℕ) (B : Matrix (Fin n) (Fin n) ℤ),
      ((p : ℚ) ^ r) • toM n n S = B.map (Int.castRingHom ℚ) * toM n n O) →
    ∃ R : Matrix (Fin n) (Fin n) ℤ, toM n n S = R.map (Int.castRingHom ℚ) * toM n n O

/-- abstract `p`-maximality of the ℤ-span of a stored basis (for every choice of the proofs) -/
def PMaxK (f : List Int) (n : Nat) (O : QMat) (p : ℕ) : Prop :=
  ∀ (hC : Ctx (qK f) (omegaK f O n) (tabT (tableOf f O n) n))
    (one : ∃ e : Fin n → ℤ, el (qK f) (omegaK f O n) e = 1), PMax (Olat hC one) p

/-- the abstract notion implies the one on stored bases -/
theorem PMaxK.pmaximal {O : QMat} {p : ℕ} (g : GoodOrder f n O) (h : PMaxK f n O p) : PMaximal f n O p := by
  classical
  intro S rS dS cS ⟨A, hA⟩ ⟨r, B, hB⟩
  have SS : Setup f S n := ⟨g.setup.canon, g.setup.len, g.setup.pos, rS, dS⟩
  obtain ⟨_, hCO⟩ := g.setup.ctx_of_closed g.closed
  obtain ⟨_, hCS⟩ := SS.ctx_of_closed cS
  have oneO := g.one.el_one g.setup
  have oneS := (g.one.of_sub ⟨A, hA⟩).el_one SS
  have hle : Olat hCO oneO ≤ Olat hCS oneS := by
    rintro _ ⟨z, rfl⟩
    exact ⟨z ᵥ* A, (el_of_mul O S g.setup.rect rS A hA z).symm⟩
  have hpr : ∀ x ∈ Olat hCS oneS,
      ((p : ℕ) : ℚ[X] ⧸ Ideal.span {NTV.Alg.modulus f}) ^ r * x ∈ Olat hCO oneO := by
    rintro _ ⟨z, rfl⟩
    by_cases hp0 : p = 0
    · subst hp0
      cases r with
      | zero =>
        have hB' : (1 : ℚ) • toM n n S = B.map (Int.castRingHom ℚ) * toM n n O := by simpa using hB
        have := el_scaled (f := f) S O rS g.setup.rect 1 one_ne_zero B hB' z
        rw [map_one] at this
        simp only [pow_zero]
        exact ⟨_, this.symm⟩
      | succ r => simp
    · have hc : ((p : ℚ) ^ r) ≠ 0 := pow_ne_zero _ (by exact_mod_cast hp0)
      have := el_scaled (f := f) S O rS g.setup.rect _ hc B hB z
      rw [map_pow, map_natCast] at this
      exact ⟨_, this.symm⟩
  have hSO := h hCO oneO (Olat hCS oneS) hle ⟨r, hpr⟩
  -- back to matrices
  have hrow : ∀ i : Fin n, ∃ v : Fin n → ℤ, el (qK f) (omegaK f O n) v = omegaK f S n i := by
    intro i
    exact hSO ⟨Pi.single i 1, el_single i⟩
  choose R hR using hrow
  refine ⟨Matrix.of R, ?_⟩
  have hM : toM n n S = (toM n n S * (toM n n O)⁻¹) * toM n n O := by
    rw [Matrix.mul_assoc, Matrix.nonsing_inv_mul _ (isUnit_iff_ne_zero.mpr g.setup.det), Matrix.mul_one]
  have hΩ := omegaK_of_mul (f := f) S O rS g.setup.rect _ hM
  have hrows : ∀ i, (toM n n S * (toM n n O)⁻¹) i = NTV.TableAbs.castV (R i) := by
    intro i
    apply hCO.inj
    rw [← hΩ i, ← hR i]
    rfl
  rw [hM]
  congr 1
  ext i j
  rw [hrows i]
  simp [NTV.TableAbs.castV]

/-- `p`-maximality passes to an order `o'` ⊇ `o` of index prime to `p` -/
theorem PMaxK.of_ext {o o' : QMat} {p : ℕ} {m : ℤ} (g : GoodOrder f n o)
    (ext : Ext n o o' m) (hcop : Nat.Coprime m.natAbs p) (h : PMaxK f n o p) : PMaxK f n o' p := by
  intro hC' one'
  obtain ⟨_, hC⟩ := g.setup.ctx_of_closed g.closed
  have one := g.one.el_one g.setup
  obtain ⟨Pm, hPm⟩ := ext.sub
  have hidx := (index_ok_iff o' o n ext.rect g.setup.rect ext.det m).mp ext.idx
  have hdetP : Pm.det = m := by
    have : ((Pm.det : ℤ) : ℚ) * (toM n n o').det = (m : ℚ) * (toM n n o').det := by
      rw [← hidx, hPm, Matrix.det_mul, det_map_cast]
    have := mul_right_cancel₀ ext.det this
    exact_mod_cast this
  have hmpos : 0 < m := by have := ext.pos; omega
  have hadj : (m : ℚ) • toM n n o' = (Pm.adjugate).map (Int.castRingHom ℚ) * toM n n o := by
    have e : ((m • (1 : Matrix (Fin n) (Fin n) ℤ)).map (Int.castRingHom ℚ)) =
        (m : ℚ) • (1 : Matrix (Fin n) (Fin n) ℚ) := by
      ext i j
      simp only [Matrix.map_apply, Matrix.smul_apply, Matrix.one_apply, smul_eq_mul, Int.coe_castRingHom]
      by_cases hij : i = j <;> simp [hij]
    rw [hPm, ← Matrix.mul_assoc, ← Matrix.map_mul, Matrix.adjugate_mul, hdetP, e, Matrix.smul_mul,
      Matrix.one_mul]
  apply PMax.of_coprime (Olat hC one) (Olat hC' one') p m.natAbs (h hC one)
  · rintro _ ⟨z, rfl⟩
    exact ⟨z ᵥ* Pm, (el_of_mul o o' g.setup.rect ext.rect Pm hPm z).symm⟩
  · rintro _ ⟨z, rfl⟩
    have hmq : (m : ℚ) ≠ 0 := by
      have : m ≠ 0 := by omega
      exact_mod_cast this
    have := el_scaled (f := f) o' o ext.rect g.setup.rect (m : ℚ) hmq Pm.adjugate hadj z
    have e : ((m.natAbs : ℕ) : ℚ[X] ⧸ Ideal.span {NTV.Alg.modulus f}) = (qK f) (m : ℚ) := by
      have h1 : ((m.natAbs : ℕ) : ℤ) = m := Int.natAbs_of_nonneg hmpos.le
      have h2 : ((m.natAbs : ℕ) : ℚ) = (m : ℚ) := by
        calc ((m.natAbs : ℕ) : ℚ) = (((m.natAbs : ℕ) : ℤ) : ℚ) := (Int.cast_natCast _).symm
          _ = (m : ℚ) := by rw [h1]
      rw [← h2, map_natCast]
    rw [e]
    exact ⟨_, this.symm⟩
  · exact hcop

/-- **Pohst–Zassenhaus (M4)**: if `one_step` returns `howmany = 0` on a good order `o` and a prime `p`, then
`o` is `p`-maximal -/
theorem oneStep_max {o : QMat} (g : GoodOrder f n o) (P : ℕ) (hP : P.Prime) (o' : QMat)
    (H : oneStep f o (P : ℤ) = .ok (o', 0)) : PMaxK f n o P := by
  intro hC one
  obtain ⟨g', ext⟩ := oneStep_good g P hP o' 0 H
  obtain ⟨_, S', hsem⟩ := oneStep_sem g.setup P hP o' 0 H
  obtain ⟨kk, hkk, hx⟩ := hsem hC one
  -- index 1: the two bases generate the same module
  obtain ⟨Pm, hPm⟩ := ext.sub
  have hidx := (index_ok_iff o' o n ext.rect g.setup.rect ext.det _).mp ext.idx
  have hdetP : Pm.det = 1 := by
    have : ((Pm.det : ℤ) : ℚ) * (toM n n o').det = ((1 : ℤ) : ℚ) * (toM n n o').det := by
      rw [hPm, Matrix.det_mul, det_map_cast] at hidx
      rw [hidx]; simp
    have := mul_right_cancel₀ ext.det this
    exact_mod_cast this
  have hU : IsUnit Pm.det := by rw [hdetP]; exact isUnit_one
  have hinv : toM n n o' = (Pm⁻¹).map (Int.castRingHom ℚ) * toM n n o := by
    rw [hPm, ← Matrix.mul_assoc, ← Matrix.map_mul, Matrix.nonsing_inv_mul _ hU]
    simp
  apply pmax_of_mult hC one P kk hP hkk
  intro x hxm
  obtain ⟨z, rfl⟩ := (hx x).mpr hxm
  exact ⟨z ᵥ* Pm⁻¹, (el_of_mul o' o ext.rect g.setup.rect _ hinv z).symm⟩

end NTV.Round2
