import Mathlib.RingTheory.AdjoinRoot
import Mathlib.Algebra.Polynomial.AlgebraMap
import Mathlib.Algebra.Polynomial.Reverse
/-! # Isomorphisms `k[X]/(F) ≃ k[X]/(G)` for an affine change of generator `θ' = c·θ + t`
(`G(c·X + t) = u·F(X)`), and irreducibility of `G` from that of `F`. -/
open Polynomial
namespace NTV.FieldDisc

variable {k : Type*} [Field k]

/-- two algebra maps between `k[X]/(F)` and `k[X]/(G)` that are inverse on the generators are inverse isomorphisms -/
noncomputable def equivOfHoms {F G : k[X]} (φ : AdjoinRoot F →ₐ[k] AdjoinRoot G) (ψ : AdjoinRoot G →ₐ[k] AdjoinRoot F)
    (h1 : φ (ψ (AdjoinRoot.root G)) = AdjoinRoot.root G) (h2 : ψ (φ (AdjoinRoot.root F)) = AdjoinRoot.root F) :
    AdjoinRoot F ≃ₐ[k] AdjoinRoot G :=
  AlgEquiv.ofAlgHom φ ψ (AdjoinRoot.algHom_ext (by simpa using h1)) (AdjoinRoot.algHom_ext (by simpa using h2))

/-- an algebra map out of `k[X]/(F)` from a root of `F` -/
noncomputable def homOfRoot (F : k[X]) {A : Type*} [CommRing A] [Algebra k A] (a : A) (ha : aeval a F = 0) :
    AdjoinRoot F →ₐ[k] A :=
  AdjoinRoot.liftAlgHom F (Algebra.ofId k A) a (by rw [← ha]; rfl)

@[simp] theorem homOfRoot_root (F : k[X]) {A : Type*} [CommRing A] [Algebra k A] (a : A) (ha : aeval a F = 0) :
    homOfRoot F a ha (AdjoinRoot.root F) = a := by
  simp [homOfRoot]

section affine
variable {F G : k[X]} {c t u : k}

theorem aeval_root_affine_F (hc : c ≠ 0) (hu : u ≠ 0) (h : G.comp (C c * X + C t) = C u * F) :
    aeval (algebraMap k (AdjoinRoot G) c⁻¹ * (AdjoinRoot.root G - algebraMap k (AdjoinRoot G) t)) F = 0 := by
  have h1 : aeval (algebraMap k (AdjoinRoot G) c⁻¹ * (AdjoinRoot.root G - algebraMap k (AdjoinRoot G) t))
      (C u * F) = 0 := by
    rw [← h, aeval_comp]
    have : aeval (algebraMap k (AdjoinRoot G) c⁻¹ * (AdjoinRoot.root G - algebraMap k (AdjoinRoot G) t))
        (C c * X + C t) = AdjoinRoot.root G := by
      simp only [map_add, map_mul, aeval_C, aeval_X]
      rw [← mul_assoc, ← map_mul, mul_inv_cancel₀ hc, map_one, one_mul, sub_add_cancel]
    rw [this, AdjoinRoot.aeval_eq, AdjoinRoot.mk_self]
  rw [map_mul, aeval_C] at h1
  have hu' : algebraMap k (AdjoinRoot G) u * algebraMap k (AdjoinRoot G) u⁻¹ = 1 := by
    rw [← map_mul, mul_inv_cancel₀ hu, map_one]
  calc _ = (algebraMap k (AdjoinRoot G) u⁻¹ * algebraMap k (AdjoinRoot G) u) * aeval _ F := by
        rw [mul_comm _ (algebraMap k (AdjoinRoot G) u), hu', one_mul]
    _ = 0 := by rw [mul_assoc, h1, mul_zero]

theorem aeval_root_affine_G (h : G.comp (C c * X + C t) = C u * F) :
    aeval (algebraMap k (AdjoinRoot F) c * AdjoinRoot.root F + algebraMap k (AdjoinRoot F) t) G = 0 := by
  have : aeval (AdjoinRoot.root F) (C c * X + C t)
      = algebraMap k (AdjoinRoot F) c * AdjoinRoot.root F + algebraMap k (AdjoinRoot F) t := by
    simp only [map_add, map_mul, aeval_C, aeval_X]
  rw [← this, ← aeval_comp, h, map_mul, AdjoinRoot.aeval_eq F, AdjoinRoot.mk_self, mul_zero]

/-- **`θ' = c·θ + t`**: if `G(c·X + t) = u·F(X)` with `c, u ≠ 0` then `k[X]/(F) ≃ k[X]/(G)`, `θ ↦ (θ' − t)/c` -/
noncomputable def affineEquiv (hc : c ≠ 0) (hu : u ≠ 0) (h : G.comp (C c * X + C t) = C u * F) :
    AdjoinRoot F ≃ₐ[k] AdjoinRoot G :=
  equivOfHoms (homOfRoot F _ (aeval_root_affine_F hc hu h)) (homOfRoot G _ (aeval_root_affine_G h))
    (by
      rw [homOfRoot_root, map_add, map_mul, homOfRoot_root, AlgHom.commutes, AlgHom.commutes,
        ← mul_assoc, ← map_mul, mul_inv_cancel₀ hc, map_one, one_mul, sub_add_cancel])
    (by
      rw [homOfRoot_root, map_mul, map_sub, homOfRoot_root, AlgHom.commutes, AlgHom.commutes,
        add_sub_cancel_right, ← mul_assoc, ← map_mul, inv_mul_cancel₀ hc, map_one, one_mul])

/-- irreducibility is preserved by an affine substitution -/
theorem irreducible_of_affine (hc : c ≠ 0) (hu : u ≠ 0) (h : G.comp (C c * X + C t) = C u * F)
    (hF : Irreducible F) : Irreducible G := by
  let _ : Invertible c := invertibleOfNonzero hc
  have h1 : (algEquivCMulXAddC c t) G = C u * F := by
    rw [algEquivCMulXAddC_apply]; exact h
  have h2 : Irreducible (C u * F) := by
    have hunit : IsUnit (C u : k[X]) := Polynomial.isUnit_C.mpr (isUnit_iff_ne_zero.mpr hu)
    exact (irreducible_isUnit_mul hunit).mpr hF
  rw [← h1] at h2
  exact (MulEquiv.irreducible_iff (algEquivCMulXAddC c t).toMulEquiv).mp h2

end affine

section reciprocal
variable {F G : k[X]} {u : k}

/-- the class of `X` is non-zero when the constant coefficient is -/
theorem root_ne_zero (F : k[X]) [Fact (Irreducible F)] (h0 : F.coeff 0 ≠ 0) : AdjoinRoot.root F ≠ 0 := by
  intro h
  have h1 : aeval (AdjoinRoot.root F) F = 0 := by rw [AdjoinRoot.aeval_eq, AdjoinRoot.mk_self]
  rw [h, ← coeff_zero_eq_aeval_zero'] at h1
  exact h0 ((algebraMap k (AdjoinRoot F)).injective (h1.trans (map_zero _).symm))

/-- in an algebra that is a field: `x⁻¹` is a root of the reversed polynomial iff `x ≠ 0` is a root -/
theorem aeval_inv_reverse {A : Type*} [Field A] [Algebra k A] (x : A) (hx : x ≠ 0) (P : k[X]) :
    aeval x⁻¹ P.reverse = 0 ↔ aeval x P = 0 := by
  let _ : Invertible x := invertibleOfNonzero hx
  have := eval₂_reverse_eq_zero_iff (algebraMap k A) x P
  rw [invOf_eq_inv] at this
  exact this

theorem aeval_inv_of_reverse {A : Type*} [Field A] [Algebra k A] (x : A) (hx : x ≠ 0) (P : k[X])
    (h : aeval x P.reverse = 0) : aeval x⁻¹ P = 0 := by
  have := (aeval_inv_reverse (k := k) x⁻¹ (inv_ne_zero hx) P)
  rw [inv_inv] at this
  exact this.mp h

theorem aeval_of_C_mul {A : Type*} [Field A] [Algebra k A] (x : A) {G P : k[X]} {u : k} (hu : u ≠ 0)
    (h : G = C u * P) (hx : aeval x G = 0) : aeval x P = 0 := by
  rw [h, map_mul, aeval_C] at hx
  rcases mul_eq_zero.mp hx with h2 | h2
  · exact absurd ((algebraMap k A).injective (h2.trans (map_zero _).symm)) hu
  · exact h2

/-- **`θ' = 1/θ`**: if `G = u·X^n·F(1/X)` (the reversed polynomial, `u ≠ 0`, `F(0) ≠ 0`), then `k[X]/(F) ≃ k[X]/(G)` -/
noncomputable def reciprocalEquiv [Fact (Irreducible F)] [Fact (Irreducible G)] (hu : u ≠ 0) (h0 : F.coeff 0 ≠ 0)
    (h : G = C u * F.reverse) : AdjoinRoot F ≃ₐ[k] AdjoinRoot G := by
  have hF0 : F ≠ 0 := fun e => h0 (by rw [e]; simp)
  have hG0 : G.coeff 0 ≠ 0 := by
    rw [h, coeff_C_mul, coeff_zero_reverse]
    exact mul_ne_zero hu (leadingCoeff_ne_zero.mpr hF0)
  have hθ := root_ne_zero F h0
  have hθ' := root_ne_zero G hG0
  have hrev : aeval (AdjoinRoot.root G) F.reverse = 0 :=
    aeval_of_C_mul _ hu h (by rw [AdjoinRoot.aeval_eq, AdjoinRoot.mk_self])
  have ha : aeval (AdjoinRoot.root G)⁻¹ F = 0 := aeval_inv_of_reverse _ hθ' F hrev
  have hb : aeval (AdjoinRoot.root F)⁻¹ G = 0 := by
    rw [h, map_mul, (aeval_inv_reverse (AdjoinRoot.root F) hθ F).mpr
      (by rw [AdjoinRoot.aeval_eq, AdjoinRoot.mk_self]), mul_zero]
  exact equivOfHoms (homOfRoot F _ ha) (homOfRoot G _ hb)
    (by rw [homOfRoot_root, map_inv₀, homOfRoot_root, inv_inv])
    (by rw [homOfRoot_root, map_inv₀, homOfRoot_root, inv_inv])

end reciprocal

end NTV.FieldDisc
