import NTV.Proofs.Lemmas.HnfCanon
import Mathlib.LinearAlgebra.Matrix.Rank
/-! Integer row lattices for C15 (`order::union`): the lattice of `hnfNew X` is the lattice of `X`
(`hnfNew_lattice`), the lattice of stacked generators is the sum of the lattices (`lattice_append`), and a
matrix whose lattice contains a full-rank sublattice has a square non-singular normal form (`hnfNew_full`). -/
open Matrix Finset
namespace NTV.Hnf

namespace InLattice
variable {n m : Nat} {X : Mat}

theorem add {v w : Fin m → ℤ} (hv : InLattice n m X v) (hw : InLattice n m X w) : InLattice n m X (v + w) := by
  obtain ⟨c, hc⟩ := hv
  obtain ⟨d, hd⟩ := hw
  exact ⟨c + d, by rw [Matrix.add_vecMul, hc, hd]⟩

theorem smul (z : ℤ) {v : Fin m → ℤ} (hv : InLattice n m X v) : InLattice n m X (z • v) := by
  obtain ⟨c, hc⟩ := hv
  exact ⟨z • c, by rw [Matrix.smul_vecMul, hc]⟩

theorem zero : InLattice n m X 0 := ⟨0, Matrix.zero_vecMul _⟩

theorem row (i : Fin n) : InLattice n m X (toM n m X i) := ⟨Pi.single i 1, Matrix.single_one_vecMul _ _⟩

theorem sum {ι : Type} (s : Finset ι) (f : ι → Fin m → ℤ) (h : ∀ i ∈ s, InLattice n m X (f i)) :
    InLattice n m X (∑ i ∈ s, f i) := by
  classical
  induction s using Finset.induction_on with
  | empty => simpa using zero
  | insert a s ha ih =>
    rw [Finset.sum_insert ha]
    exact add (h a (by simp)) (ih (fun i hi => h i (by simp [hi])))

/-- if every row of `Y` lies in the lattice of `X`, the lattice of `Y` is contained in that of `X` -/
theorem mono {n' : Nat} {Y : Matrix (Fin n') (Fin m) ℤ} (h : ∀ i : Fin n', InLattice n m X (Y i))
    (c : Fin n' → ℤ) : InLattice n m X (c ᵥ* Y) := by
  rw [Matrix.vecMul_eq_sum]
  exact sum _ _ (fun i _ => smul (c i) (h i))

/-- the rows of `Y` lie in the lattice of `X` iff `Y = C·X` for an integer matrix `C` -/
theorem exists_mul {n' : Nat} {Y : Matrix (Fin n') (Fin m) ℤ} (h : ∀ i : Fin n', InLattice n m X (Y i)) :
    ∃ C : Matrix (Fin n') (Fin n) ℤ, Y = C * toM n m X := by
  choose C hC using h
  refine ⟨Matrix.of C, ?_⟩
  ext i j
  rw [Matrix.mul_apply_eq_vecMul]
  exact (congrFun (hC i) j).symm

end InLattice

theorem length_le_of_pairwise_lt (pv : List Nat) (m : Nat) (h1 : pv.Pairwise (· < ·)) (h2 : ∀ p ∈ pv, p < m) :
    pv.length ≤ m := by
  have hnd : pv.Nodup := h1.imp (fun h => Nat.ne_of_lt h)
  rw [← List.toFinset_card_of_nodup hnd]
  have : pv.toFinset ⊆ Finset.range m := by
    intro p hp
    exact Finset.mem_range.mpr (h2 p (List.mem_toFinset.mp hp))
  simpa using Finset.card_le_card this

/-- C02 as a reusable fact: `HNF::new` never fails on a rectangular matrix, its result is rectangular with
at most `m` rows, and generates the same row lattice -/
theorem hnfNew_lattice (X : Mat) (n m : Nat) (hr : Rect n m X) (hn : 0 < n) (hm : 0 < m) :
    ∃ H r, hnfNew X = some H ∧ Rect r m H ∧ r ≤ m ∧ (∀ v, InLattice r m H v ↔ InLattice n m X v) := by
  obtain ⟨⟨H, U, k⟩, h1⟩ := Option.isSome_iff_exists.mp (hnfWithU_total X n m hr)
  obtain ⟨W, pv, R⟩ := Result.of_spec X n m hr hn hm H U k h1
  have hlen : pv.length = n - k := R.lenPv
  refine ⟨H, n - k, by simp [hnfNew, h1], R.rectH, ?_, ?_⟩
  · rw [← hlen]; exact length_le_of_pairwise_lt pv m R.shape.incr R.shape.lt
  · intro v
    constructor
    · rintro ⟨c, rfl⟩
      apply InLattice.mono
      intro t
      have := R.row_in_lattice t.val (by rw [hlen]; exact t.isLt)
      exact this
    · intro hv
      obtain ⟨c, hc⟩ := R.lattice_as_sum v hv
      refine ⟨fun t => c t.val, ?_⟩
      ext col
      rw [hc col.val col.isLt, hlen]
      simp only [Matrix.vecMul, dotProduct, toM]
      exact Fin.sum_univ_eq_sum_range (fun s => c s * ent H s col.val) (n - k)

theorem ent_append_left (X Y : Mat) (i j : Nat) (hi : i < X.length) : ent (X ++ Y) i j = ent X i j := by
  simp [ent, List.getD_eq_getElem?_getD, List.getElem?_append_left hi]

theorem ent_append_right (X Y : Mat) (i j : Nat) : ent (X ++ Y) (X.length + i) j = ent Y i j := by
  simp [ent, List.getD_eq_getElem?_getD, List.getElem?_append_right]

theorem rect_append (X Y : Mat) (n1 n2 m : Nat) (hX : Rect n1 m X) (hY : Rect n2 m Y) :
    Rect (n1 + n2) m (X ++ Y) := by
  refine ⟨by simp [hX.1, hY.1], ?_⟩
  intro r hr
  rcases List.mem_append.mp hr with h | h
  · exact hX.2 r h
  · exact hY.2 r h

theorem vecMul_append (X Y : Mat) (n1 n2 m : Nat) (hX : Rect n1 m X) (c : Fin (n1 + n2) → ℤ) :
    c ᵥ* toM (n1 + n2) m (X ++ Y) =
      (fun i => c (Fin.castAdd n2 i)) ᵥ* toM n1 m X + (fun i => c (Fin.natAdd n1 i)) ᵥ* toM n2 m Y := by
  ext col
  simp only [Matrix.vecMul, dotProduct, Pi.add_apply, toM]
  rw [Fin.sum_univ_add]
  congr 1
  · apply Finset.sum_congr rfl
    intro i _
    rw [Fin.val_castAdd, ent_append_left X Y i.val col.val (by rw [hX.1]; exact i.isLt)]
  · apply Finset.sum_congr rfl
    intro i _
    rw [Fin.val_natAdd]
    have := ent_append_right X Y i.val col.val
    rw [hX.1] at this
    rw [this]

/-- the lattice of stacked generators is the sum of the lattices -/
theorem lattice_append (X Y : Mat) (n1 n2 m : Nat) (hX : Rect n1 m X) (v : Fin m → ℤ) :
    InLattice (n1 + n2) m (X ++ Y) v ↔
      ∃ (c : Fin n1 → ℤ) (d : Fin n2 → ℤ), c ᵥ* toM n1 m X + d ᵥ* toM n2 m Y = v := by
  constructor
  · rintro ⟨c, rfl⟩
    exact ⟨_, _, (vecMul_append X Y n1 n2 m hX c).symm⟩
  · rintro ⟨c, d, rfl⟩
    refine ⟨Fin.addCases c d, ?_⟩
    rw [vecMul_append X Y n1 n2 m hX]
    simp

/-- a non-singular integer `n×n` matrix is not a product through fewer than `n` rows -/
theorem le_of_full_rank {n r : Nat} (F : Matrix (Fin n) (Fin n) ℤ) (hF : F.det ≠ 0)
    (C : Matrix (Fin n) (Fin r) ℤ) (H : Matrix (Fin r) (Fin n) ℤ) (h : F = C * H) : n ≤ r := by
  have hq : F.map (Int.castRingHom ℚ) = C.map (Int.castRingHom ℚ) * H.map (Int.castRingHom ℚ) := by
    rw [h, Matrix.map_mul]
  have hdet : (F.map (Int.castRingHom ℚ)).det ≠ 0 := by
    have e : (F.map (Int.castRingHom ℚ)).det = (Int.castRingHom ℚ) F.det := ((Int.castRingHom ℚ).map_det F).symm
    rw [e]
    simpa using hF
  have hu : IsUnit (F.map (Int.castRingHom ℚ)) :=
    (Matrix.isUnit_iff_isUnit_det _).mpr (isUnit_iff_ne_zero.mpr hdet)
  have h1 := Matrix.rank_of_isUnit _ hu
  rw [hq, Fintype.card_fin] at h1
  have h2 := Matrix.rank_mul_le_left (C.map (Int.castRingHom ℚ)) (H.map (Int.castRingHom ℚ))
  have h3 := Matrix.rank_le_width (C.map (Int.castRingHom ℚ))
  omega

/-- a rectangular `p×n` matrix whose row lattice contains a full-rank sublattice (the rows of a
non-singular `F`): the normal form is a non-singular `n×n` matrix with the same lattice -/
theorem hnfNew_full (X : Mat) (p n : Nat) (hr : Rect p n X) (hp : 0 < p) (hn : 0 < n)
    (F : Matrix (Fin n) (Fin n) ℤ) (hF : F.det ≠ 0) (hFX : ∀ i, InLattice p n X (F i)) :
    ∃ H, hnfNew X = some H ∧ Rect n n H ∧ (toM n n H).det ≠ 0 ∧
      ∀ v, InLattice n n H v ↔ InLattice p n X v := by
  obtain ⟨H, r, h1, hH, hrn, hlat⟩ := hnfNew_lattice X p n hr hp hn
  have hFH : ∀ i, InLattice r n H (F i) := fun i => (hlat _).mpr (hFX i)
  obtain ⟨C, hC⟩ := InLattice.exists_mul hFH
  have hnr : n ≤ r := le_of_full_rank F hF C _ hC
  have : r = n := le_antisymm hrn hnr
  subst this
  refine ⟨H, h1, hH, ?_, hlat⟩
  intro h0
  apply hF
  rw [hC, Matrix.det_mul, h0, mul_zero]

end NTV.Hnf
