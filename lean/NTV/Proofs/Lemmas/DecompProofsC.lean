import NTV.Proofs.Lemmas.DecompProofsB
import Mathlib.LinearAlgebra.Dimension.Constructions
import Mathlib.LinearAlgebra.Dimension.Free
import Mathlib.LinearAlgebra.FiniteDimensional.Defs
/-! # Prime decomposition (C17), part C: the ideals above p have full rank, and meet ℤ in pℤ or ℤ. -/
namespace NTV.DecompP
open NTV.Ideal NTV.IdealP NTV.Hnf Module

theorem pv_length_le {pv : List Nat} {n : Nat} (hinc : pv.Pairwise (· < ·)) (hlt : ∀ q ∈ pv, q < n) :
    pv.length ≤ n := by
  have hnd : pv.Nodup := hinc.imp (fun h => Nat.ne_of_lt h)
  rw [← List.toFinset_card_of_nodup hnd]
  calc pv.toFinset.card ≤ (Finset.range n).card := Finset.card_le_card (by
        intro q hq; rw [List.mem_toFinset] at hq; exact Finset.mem_range.mpr (hlt q hq))
    _ = n := Finset.card_range n

theorem finrank_Lat_le (n : Nat) (P : Mat) : finrank ℤ (Lat n P) ≤ P.length := by
  classical
  have h1 : Lat n P = Submodule.span ℤ (((P.map (vec n)).toFinset : Finset (Fin n → ℤ)) : Set (Fin n → ℤ)) := by
    unfold Lat
    congr 1
    ext u
    simp
  rw [h1]
  calc _ ≤ (P.map (vec n)).toFinset.card := finrank_span_finset_le_card _
    _ ≤ (P.map (vec n)).length := List.toFinset_card_le _
    _ = P.length := by simp

/-- a normal form whose lattice contains p·ℤⁿ (p ≠ 0) has n rows -/
theorem full_rank {n : Nat} {P : Mat} {pv : List Nat} (hH : IsHNF P n pv) (p : ℤ) (hp : p ≠ 0)
    (h : ∀ y : Fin n → ℤ, p • y ∈ Lat n P) : P.length = n := by
  apply le_antisymm
  · rw [← hH.len]; exact pv_length_le hH.incr hH.lt
  · let φ : (Fin n → ℤ) →ₗ[ℤ] (Fin n → ℤ) := p • LinearMap.id
    have hinj : Function.Injective φ := by
      intro a b hab
      have : p • a = p • b := hab
      exact smul_right_injective _ hp this
    have hle : LinearMap.range φ ≤ Lat n P := by
      rintro _ ⟨y, rfl⟩; exact h y
    calc n = finrank ℤ (Fin n → ℤ) := by simp
      _ = finrank ℤ (LinearMap.range φ) := (LinearMap.finrank_range_of_inj hinj).symm
      _ ≤ finrank ℤ (Lat n P) := Submodule.finrank_mono hle
      _ ≤ P.length := finrank_Lat_le n P


/-- **P ∩ ℤ.** For a prime p, `cap_z` of a returned ideal is p or 1; it is 1 exactly when P is the unit
ideal (its lattice is all of ℤⁿ); in general {z | z·e_0 ∈ L(P)} = cℤ. -/
theorem capZ_above {t : NTV.Ord.Table} {n : Nat} (T : TableRing t n) {f : List Int} (hf : NTV.PolyG.degU f = n)
    {B : NTV.Ord.QMat} (p : Nat) (hp : p.Prime) {g : List Int} {m : Nat} {P : HNF} {m' : Nat}
    (h : primeAbove f B t (p : Int) g m = .ok (P, m')) :
    P.length = n ∧
    ∃ c, capZ P = .ok c ∧ (c = p ∨ c = 1) ∧ (c = 1 ↔ Lat n P = ⊤) ∧
      ∀ z : ℤ, z • e n ⟨0, T.pos⟩ ∈ Lat n P ↔ c ∣ z := by
  obtain ⟨elem, A, Z, _, _, _, _, _, _, _, _, wP, ⟨pv, hH⟩, _, _, _, oP, hpy⟩ := primeAbove_lattice_core T hf h
  have hp0 : (p : Int) ≠ 0 := by exact_mod_cast hp.ne_zero
  have hfull := full_rank hH (p : Int) hp0 hpy
  obtain ⟨c, h1, h2, h3⟩ := capZ_core T.pos wP hH hfull
  refine ⟨hfull, c, h1, ?_, ?_, h3⟩
  · have hdvd : c ∣ (p : Int) := (h3 p).mp (hpy _)
    have hc : c = (c.natAbs : Int) := by omega
    rw [hc] at hdvd ⊢
    have := (Nat.dvd_prime hp).mp (Int.natCast_dvd_natCast.mp hdvd)
    rcases this with h | h
    · right; rw [h]; rfl
    · left; rw [h]
  · constructor
    · intro hc
      rw [eq_top_iff]
      intro y _
      have h0 : e n ⟨0, T.pos⟩ ∈ Lat n P := by
        have := (h3 1).mpr (by rw [hc])
        simpa using this
      have := oP y _ h0
      rwa [T.star_one] at this
    · intro htop
      have : (1 : ℤ) • e n ⟨0, T.pos⟩ ∈ Lat n P := by rw [htop]; trivial
      have hd := (h3 1).mp this
      exact Int.eq_one_of_dvd_one (le_of_lt h2) hd

end NTV.DecompP
