import NTV.Model.Poly
import Mathlib.Algebra.Polynomial.Basic
import Mathlib.Algebra.Polynomial.Coeff
import Mathlib.Tactic.Ring
open Polynomial
namespace NTV.Poly

noncomputable def toPoly : List Int → ℤ[X]
  | [] => 0
  | c :: cs => C c + X * toPoly cs

theorem toPoly_addRaw (a b : List Int) : toPoly (addRaw a b) = toPoly a + toPoly b := by
  fun_induction addRaw a b with
  | case1 b => simp [toPoly]
  | case2 a h => simp [toPoly]
  | case3 x xs y ys ih => simp only [toPoly, ih, C_add]; ring

theorem toPoly_smulRaw (c : Int) (a : List Int) : toPoly (smulRaw c a) = C c * toPoly a := by
  induction a with
  | nil => simp [smulRaw, toPoly]
  | cons x xs ih =>
    simp only [smulRaw, List.map_cons, toPoly, C_mul] at ih ⊢
    rw [ih]; ring

theorem toPoly_mulRaw (a b : List Int) : toPoly (mulRaw a b) = toPoly a * toPoly b := by
  induction a with
  | nil => simp [mulRaw, toPoly]
  | cons x xs ih =>
    simp only [mulRaw, toPoly_addRaw, toPoly_smulRaw, toPoly, ih, C_0]; ring

theorem toPoly_append_zero (l : List Int) : toPoly (l ++ [0]) = toPoly l := by
  induction l with
  | nil => simp [toPoly]
  | cons x xs ih => simp [toPoly, ih]

theorem toPoly_reverse_dropWhile (l : List Int) :
    toPoly ((l.dropWhile (· == 0)).reverse) = toPoly l.reverse := by
  induction l with
  | nil => rfl
  | cons x xs ih =>
    by_cases hx : x = 0
    · subst hx
      simp only [List.dropWhile_cons, beq_self_eq_true, ↓reduceIte, List.reverse_cons, ih, toPoly_append_zero]
    · have : (x == 0) = false := by simpa using hx
      simp [List.dropWhile_cons, this]

theorem toPoly_fromRaw (l : List Int) : toPoly (fromRaw l) = toPoly l := by
  unfold fromRaw
  rw [toPoly_reverse_dropWhile, List.reverse_reverse]

theorem toPoly_mul (a b : Poly) : toPoly (mul a b) = toPoly a * toPoly b := by
  unfold mul
  cases a with
  | nil => simp [toPoly]
  | cons x xs =>
    cases b with
    | nil => simp [toPoly]
    | cons y ys => simp [toPoly_fromRaw, toPoly_mulRaw]

end NTV.Poly
