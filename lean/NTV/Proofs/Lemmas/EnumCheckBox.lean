import NTV.Proofs.Lemmas.EnumCheckCS
/-! Checker soundness for `NTV.Spec.Enum` (C20), part 3: the list side — `boxVectors` lists every vector
of the box exactly once, `canon`/`isCanonical` pick one of `±x`, and membership in `shortVectors`. -/
open Matrix
namespace NTV.EnumCheck
open NTV.Spec.Enum NTV.Spec.Mat
open NTV.RowOps (toM Rect)

/-- `x` lies in the box `b`: same length and `|x_i| ≤ b_i` -/
def InBox (x : List Int) (b : List Nat) : Prop := List.Forall₂ (fun (t : Int) (k : Nat) => t.natAbs ≤ k) x b

theorem head_range (h : Int) (b : Nat) :
    (∃ t : Nat, t < 2 * b + 1 ∧ h = Int.ofNat t - Int.ofNat b) ↔ h.natAbs ≤ b := by
  constructor
  · rintro ⟨t, ht, rfl⟩
    simp only [Int.ofNat_eq_natCast]; omega
  · intro hb
    refine ⟨(h + b).toNat, ?_, ?_⟩
    · omega
    · simp only [Int.ofNat_eq_natCast]; omega

theorem mem_boxVectors (b : List Nat) (x : List Int) : x ∈ boxVectors b ↔ InBox x b := by
  induction b generalizing x with
  | nil => simp [boxVectors, InBox]
  | cons k rest ih =>
    simp only [boxVectors, List.mem_flatMap, List.mem_range, List.mem_map]
    constructor
    · rintro ⟨t, ht, v, hv, rfl⟩
      refine List.Forall₂.cons ?_ ((ih v).mp hv)
      exact (head_range _ k).mp ⟨t, ht, rfl⟩
    · intro h
      cases h with
      | cons h1 h2 =>
        obtain ⟨t, ht, e⟩ := (head_range _ k).mpr h1
        exact ⟨t, ht, _, (ih _).mpr h2, by rw [e]⟩

theorem nodup_boxVectors (b : List Nat) : (boxVectors b).Nodup := by
  induction b with
  | nil => simp [boxVectors]
  | cons k rest ih =>
    simp only [boxVectors]
    rw [List.nodup_flatMap]
    constructor
    · intro t _
      refine List.Nodup.map ?_ ih
      intro v w h; simpa using h
    · refine List.Pairwise.imp ?_ (List.nodup_range (n := 2 * k + 1))
      intro s t hne
      show List.Disjoint _ _
      intro x hs ht
      simp only [List.mem_map] at hs ht
      obtain ⟨v, _, rfl⟩ := hs
      obtain ⟨w, _, e⟩ := ht
      simp only [List.cons.injEq, Int.ofNat_eq_natCast] at e
      omega

/-! ### sign representatives -/

/-- `x` has a non-zero coordinate -/
def NonZero (x : List Int) : Prop := ∃ t ∈ x, t ≠ 0

/-- `-x` -/
def negv (x : List Int) : List Int := x.map (fun t => -t)

theorem negv_negv (x : List Int) : negv (negv x) = x := by
  simp [negv, List.map_map]

theorem length_negv (x : List Int) : (negv x).length = x.length := by simp [negv]

theorem nonZero_negv (x : List Int) : NonZero (negv x) ↔ NonZero x := by
  simp only [NonZero, negv, List.mem_map]
  constructor
  · rintro ⟨t, ⟨a, ha, rfl⟩, hne⟩
    exact ⟨a, ha, by simpa using hne⟩
  · rintro ⟨t, ht, hne⟩
    exact ⟨-t, ⟨t, ht, rfl⟩, by simpa using hne⟩

theorem isCanonical_nonZero (x : List Int) (h : isCanonical x = true) : NonZero x := by
  induction x with
  | nil => simp [isCanonical] at h
  | cons a rest ih =>
    by_cases ha : a = 0
    · subst ha
      simp only [isCanonical, beq_self_eq_true, ↓reduceIte] at h
      obtain ⟨t, ht, hne⟩ := ih h
      exact ⟨t, List.mem_cons_of_mem _ ht, hne⟩
    · exact ⟨a, List.mem_cons_self, ha⟩

/-- of `x` and `-x` at most one is canonical -/
theorem isCanonical_negv (x : List Int) (h : isCanonical x = true) : isCanonical (negv x) = false := by
  induction x with
  | nil => simp [isCanonical] at h
  | cons a rest ih =>
    by_cases ha : a = 0
    · subst ha
      simp only [isCanonical, beq_self_eq_true, ↓reduceIte] at h
      simpa [negv, isCanonical] using ih h
    · have hna : (-a == 0) = false := by simpa using ha
      have ha' : (a == 0) = false := by simpa using ha
      simp only [isCanonical, ha', Bool.false_eq_true, ↓reduceIte, decide_eq_true_eq] at h
      simp only [negv, List.map_cons, isCanonical, hna, Bool.false_eq_true, ↓reduceIte, decide_eq_false_iff_not]
      omega

/-- of `x` and `-x` at least one is canonical when `x ≠ 0` -/
theorem isCanonical_negv_of_not (x : List Int) (hnz : NonZero x) (h : isCanonical x = false) :
    isCanonical (negv x) = true := by
  induction x with
  | nil => obtain ⟨t, ht, _⟩ := hnz; simp at ht
  | cons a rest ih =>
    by_cases ha : a = 0
    · subst ha
      simp only [isCanonical, beq_self_eq_true, ↓reduceIte] at h
      have hnz' : NonZero rest := by
        obtain ⟨t, ht, hne⟩ := hnz
        rcases List.mem_cons.mp ht with rfl | ht
        · exact absurd rfl hne
        · exact ⟨t, ht, hne⟩
      simpa [negv, isCanonical] using ih hnz' h
    · have hna : (-a == 0) = false := by simpa using ha
      have ha' : (a == 0) = false := by simpa using ha
      simp only [isCanonical, ha', Bool.false_eq_true, ↓reduceIte, decide_eq_false_iff_not] at h
      simp only [negv, List.map_cons, isCanonical, hna, Bool.false_eq_true, ↓reduceIte, decide_eq_true_eq]
      omega

theorem canon_cases (x : List Int) : canon x = x ∨ canon x = negv x := by
  unfold canon negv; split <;> simp

theorem canon_of_canonical (x : List Int) (h : isCanonical x = true) : canon x = x := by
  unfold canon; rw [if_pos h]

theorem isCanonical_canon (x : List Int) (hnz : NonZero x) : isCanonical (canon x) = true := by
  unfold canon
  by_cases h : isCanonical x = true
  · rw [if_pos h]; exact h
  · rw [if_neg h]
    exact isCanonical_negv_of_not x hnz (by simpa using h)

theorem inBox_negv (x : List Int) (b : List Nat) : InBox (negv x) b ↔ InBox x b := by
  unfold InBox negv
  rw [List.forall₂_map_left_iff]
  simp only [Int.natAbs_neg]

theorem vec_negv (n : Nat) (x : List Int) : vec n (negv x) = - vec n x := by
  funext i
  unfold vec negv
  simp only [List.getD_eq_getElem?_getD, List.getElem?_map, Pi.neg_apply]
  cases x[(i : Nat)]? <;> simp

theorem qf_neg {n : Nat} (M : Matrix (Fin n) (Fin n) ℚ) (v : Fin n → ℚ) : qf M (-v) = qf M v := by
  simp [qf, mulVec_neg]

theorem quadVal_negv (Q : QMat) (x : List Int) (n : Nat) (hr : Rect n n Q) (hx : x.length = n) :
    quadVal Q (negv x) = quadVal Q x := by
  rw [quadVal_spec Q _ n hr (by rw [length_negv]; exact hx), quadVal_spec Q x n hr hx, vec_negv, qf_neg]

theorem quadVal_canon (Q : QMat) (x : List Int) (n : Nat) (hr : Rect n n Q) (hx : x.length = n) :
    quadVal Q (canon x) = quadVal Q x := by
  rcases canon_cases x with h | h <;> rw [h]
  exact quadVal_negv Q x n hr hx

theorem inBox_canon (x : List Int) (b : List Nat) : InBox (canon x) b ↔ InBox x b := by
  rcases canon_cases x with h | h <;> rw [h]
  exact inBox_negv x b

/-! ### `shortVectors` -/

theorem mem_shortVectors (Q : QMat) (c : ℚ) (b : List Nat) (p : List Int × ℚ) :
    p ∈ shortVectors Q c b ↔
      InBox p.1 b ∧ isCanonical p.1 = true ∧ quadVal Q p.1 ≤ c ∧ p.2 = quadVal Q p.1 := by
  unfold shortVectors
  simp only [List.mem_filterMap, List.mem_filter, mem_boxVectors]
  constructor
  · rintro ⟨x, ⟨hb, hc⟩, h⟩
    split at h
    · rename_i hle
      simp only [Option.some.injEq] at h
      subst h
      exact ⟨hb, hc, hle, rfl⟩
    · simp at h
  · rintro ⟨hb, hc, hle, hv⟩
    refine ⟨p.1, ⟨hb, hc⟩, ?_⟩
    rw [if_pos hle, ← hv]

theorem filterMap_fst {α β : Type} (l : List α) (p : α → Prop) [DecidablePred p] (v : α → β) :
    (l.filterMap (fun x => if p x then some (x, v x) else none)).map Prod.fst = l.filter (fun x => decide (p x)) := by
  induction l with
  | nil => simp
  | cons a t ih =>
    by_cases h : p a
    · simp [h, ih]
    · simp [h, ih]

theorem shortVectors_fst (Q : QMat) (c : ℚ) (b : List Nat) :
    (shortVectors Q c b).map Prod.fst =
      ((boxVectors b).filter isCanonical).filter (fun x => decide (quadVal Q x ≤ c)) := by
  unfold shortVectors
  exact filterMap_fst _ (fun x => quadVal Q x ≤ c) (fun x => quadVal Q x)

/-- no vector is listed twice -/
theorem nodup_shortVectors (Q : QMat) (c : ℚ) (b : List Nat) :
    ((shortVectors Q c b).map Prod.fst).Nodup := by
  rw [shortVectors_fst]
  exact ((nodup_boxVectors b).filter _).filter _

end NTV.EnumCheck
