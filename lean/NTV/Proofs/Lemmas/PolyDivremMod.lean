import NTV.Proofs.Lemmas.HenselModel
import NTV.Proofs.Lemmas.PolyModBasics
open Polynomial
namespace NTV.PolyMod
open NTV.PolyG NTV.Hensel

theorem pcong_iff (p : ℤ) (F G : ℤ[X]) : PCong p F G ↔ ∀ j, p ∣ (F - G).coeff j := by
  rw [← C_dvd_iff_dvd_coeff]
  constructor
  · rintro ⟨h, hh⟩; exact ⟨h, hh⟩
  · rintro ⟨h, hh⟩; exact ⟨h, hh⟩

theorem rowUpdate_length (coef p : Int) : ∀ (ts b : List Int), (rowUpdate coef p ts b).length = ts.length := by
  intro ts
  induction ts with
  | nil => intro b; cases b <;> simp [rowUpdate]
  | cons t ts ih => intro b; cases b <;> simp [rowUpdate, ih]

theorem rowUpdate_getD (coef p : Int) : ∀ (ts b : List Int) (j : Nat), b.length ≤ ts.length →
    (rowUpdate coef p ts b).getD j 0 =
      if j < b.length then Int.fmod (ts.getD j 0 - coef * b.getD j 0) p else ts.getD j 0 := by
  intro ts
  induction ts with
  | nil => intro b j h; cases b <;> simp_all [rowUpdate]
  | cons t ts ih =>
    intro b j h
    cases b with
    | nil => simp [rowUpdate]
    | cons c cs =>
      simp only [rowUpdate]
      cases j with
      | zero => simp
      | succ j =>
        have := ih cs j (by simpa using h)
        simp only [List.getD_eq_getElem?_getD, List.getElem?_cons_succ, List.length_cons,
          Nat.add_lt_add_iff_right] at this ⊢
        exact this

/-- one row operation of `poly_divrem` -/
def stepTmp (b : List Int) (coef p : Int) (i : Nat) (tmp : List Int) : List Int :=
  tmp.take i ++ rowUpdate coef p (tmp.drop i) b

theorem stepTmp_length (b : List Int) (coef p : Int) (i : Nat) (tmp : List Int) (h : i ≤ tmp.length) :
    (stepTmp b coef p i tmp).length = tmp.length := by
  simp [stepTmp, rowUpdate_length]; omega

theorem stepTmp_getD (b : List Int) (coef p : Int) (i : Nat) (tmp : List Int) (h : i + b.length ≤ tmp.length) (j : Nat) :
    (stepTmp b coef p i tmp).getD j 0 =
      if i ≤ j ∧ j < i + b.length then Int.fmod (tmp.getD j 0 - coef * b.getD (j - i) 0) p else tmp.getD j 0 := by
  unfold stepTmp
  by_cases hj : j < i
  · have h1 : ¬ (i ≤ j ∧ j < i + b.length) := by omega
    simp only [h1, ↓reduceIte, List.getD_eq_getElem?_getD]
    rw [List.getElem?_append_left (by simp; omega), List.getElem?_take]
    simp [hj]
  · have hlen : (tmp.take i).length = i := by simp; omega
    simp only [List.getD_eq_getElem?_getD]
    rw [List.getElem?_append_right (by omega), hlen]
    have := rowUpdate_getD coef p (tmp.drop i) b (j - i) (by simp; omega)
    simp only [List.getD_eq_getElem?_getD] at this
    rw [this]
    have e : (tmp.drop i)[j - i]? = tmp[j]? := by
      rw [List.getElem?_drop]; congr 1; omega
    by_cases hw : j - i < b.length
    · have h1 : i ≤ j ∧ j < i + b.length := by omega
      simp only [hw, h1, ↓reduceIte, and_self, e]
    · have h1 : ¬ (i ≤ j ∧ j < i + b.length) := by omega
      simp only [hw, h1, ↓reduceIte, e]

/-- congruence form of one row operation: tmp' ≡ tmp − coef·xⁱ·b (mod p) -/
theorem stepTmp_pcong (b : List Int) (coef p : Int) (i : Nat) (tmp : List Int) (h : i + b.length ≤ tmp.length) :
    PCong p (toPoly (stepTmp b coef p i tmp)) (toPoly tmp - C coef * (X ^ i * toPoly b)) := by
  rw [pcong_iff]
  intro j
  simp only [coeff_sub, coeff_toPoly, coeff_C_mul, coeff_X_pow_mul', stepTmp_getD b coef p i tmp h j]
  by_cases hw : i ≤ j ∧ j < i + b.length
  · simp only [hw, and_self, ↓reduceIte]
    have := (fmod_modEq (tmp.getD j 0 - coef * b.getD (j - i) 0) p)
    rw [Int.modEq_iff_dvd] at this
    have e : Int.fmod (tmp.getD j 0 - coef * b.getD (j - i) 0) p - (tmp.getD j 0 - coef * b.getD (j - i) 0)
        = -((tmp.getD j 0 - coef * b.getD (j - i) 0) - Int.fmod (tmp.getD j 0 - coef * b.getD (j - i) 0) p) := by ring
    rw [e]; exact (Int.dvd_neg).mpr this
  · simp only [hw, ↓reduceIte]
    by_cases hij : i ≤ j
    · have : b.getD (j - i) 0 = 0 := getD_of_length_le b _ (by omega)
      simp only [List.getD_eq_getElem?_getD] at this
      simp [hij, this]
    · simp [hij]

end NTV.PolyMod

namespace NTV.PolyMod
open NTV.PolyG NTV.Hensel

theorem divremLoop_succ (b : List Int) (invlc p : Int) (bdeg i : Nat) (tmp quo : List Int) :
    divremLoop b invlc p bdeg (i + 1) tmp quo =
      divremLoop b invlc p bdeg i (stepTmp b (Int.fmod (tmp.getD (i + bdeg) 0 * invlc) p) p i tmp)
        (Int.fmod (tmp.getD (i + bdeg) 0 * invlc) p :: quo) := rfl

theorem PCong.add {q : ℤ} {f g f' g' : ℤ[X]} (h1 : PCong q f f') (h2 : PCong q g g') : PCong q (f + g) (f' + g') := by
  obtain ⟨w1, hw1⟩ := h1; obtain ⟨w2, hw2⟩ := h2
  exact ⟨w1 + w2, by linear_combination hw1 + hw2⟩

/-- the identity kept by the division loop, modulo p -/
theorem divremLoop_identity (b : List Int) (invlc p : Int) (bdeg : Nat) :
    ∀ (i : Nat) (tmp quo : List Int), i + b.length ≤ tmp.length + 1 →
    PCong p (toPoly (divremLoop b invlc p bdeg i tmp quo).2 +
        toPoly (divremLoop b invlc p bdeg i tmp quo).1 * toPoly b)
      (toPoly tmp + X ^ i * toPoly quo * toPoly b) := by
  intro i
  induction i with
  | zero => intro tmp quo _; simp only [divremLoop, pow_zero, one_mul]; exact PCong.refl _ _
  | succ i ih =>
    intro tmp quo hlen
    rw [divremLoop_succ]
    set coef := Int.fmod (tmp.getD (i + bdeg) 0 * invlc) p
    have hstep := stepTmp_pcong b coef p i tmp (by omega)
    have hl : (stepTmp b coef p i tmp).length = tmp.length := stepTmp_length b coef p i tmp (by omega)
    refine PCong.trans (ih _ _ (by rw [hl]; omega)) ?_
    have e : toPoly tmp + X ^ (i + 1) * toPoly quo * toPoly b =
        (toPoly tmp - C coef * (X ^ i * toPoly b)) + X ^ i * toPoly (coef :: quo) * toPoly b := by
      simp only [toPoly]; ring
    rw [e]
    exact PCong.add hstep (PCong.refl _ _)

theorem divremLoop_length (b : List Int) (invlc p : Int) (bdeg : Nat) :
    ∀ (i : Nat) (tmp quo : List Int), i + b.length ≤ tmp.length + 1 →
      (divremLoop b invlc p bdeg i tmp quo).2.length = tmp.length := by
  intro i
  induction i with
  | zero => intro tmp quo _; rfl
  | succ i ih =>
    intro tmp quo hlen
    rw [divremLoop_succ, ih _ _ (by rw [stepTmp_length _ _ _ _ _ (by omega)]; omega)]
    exact stepTmp_length _ _ _ _ _ (by omega)

/-- degree part: with `lc(b)·invlc ≡ 1 (mod p)` the remainder vanishes from index deg b on -/
theorem divremLoop_degree (b : List Int) (invlc p : Int) (hp : 0 < p) (bdeg : Nat) (hb : b.length = bdeg + 1)
    (hinv : b.getD bdeg 0 * invlc ≡ 1 [ZMOD p]) :
    ∀ (i : Nat) (tmp quo : List Int), i + b.length ≤ tmp.length + 1 →
      (∀ j, i + bdeg ≤ j → tmp.getD j 0 = 0) →
      ∀ j, bdeg ≤ j → (divremLoop b invlc p bdeg i tmp quo).2.getD j 0 = 0 := by
  intro i
  induction i with
  | zero => intro tmp quo _ hZ j hj; simp only [divremLoop]; exact hZ j (by omega)
  | succ i ih =>
    intro tmp quo hlen hZ
    rw [divremLoop_succ]
    set top := tmp.getD (i + bdeg) 0
    set coef := Int.fmod (top * invlc) p
    apply ih _ _ (by rw [stepTmp_length _ _ _ _ _ (by omega)]; omega)
    intro j hj
    rw [stepTmp_getD b coef p i tmp (by omega) j]
    by_cases hw : i ≤ j ∧ j < i + b.length
    · simp only [hw, and_self, ↓reduceIte]
      have hje : j = i + bdeg := by omega
      subst hje
      have e1 : i + bdeg - i = bdeg := by omega
      rw [e1]
      -- top - coef * lc b ≡ 0
      have hc : coef ≡ top * invlc [ZMOD p] := fmod_modEq _ _
      have h1 : coef * b.getD bdeg 0 ≡ top [ZMOD p] := by
        have := hc.mul_right (b.getD bdeg 0)
        refine this.trans ?_
        have e : top * invlc * b.getD bdeg 0 = top * (b.getD bdeg 0 * invlc) := by ring
        rw [e]
        simpa using (Int.ModEq.refl top).mul hinv
      have hdvd : p ∣ top - coef * b.getD bdeg 0 := by
        have := (Int.modEq_iff_dvd.mp h1)
        exact this
      rw [Int.fmod_eq_emod_of_nonneg _ (le_of_lt hp)]
      exact Int.emod_eq_zero_of_dvd hdvd
    · simp only [hw, ↓reduceIte]
      exact hZ j (by omega)

end NTV.PolyMod

namespace NTV.PolyMod
open NTV.PolyG NTV.Hensel

/-- C08/C11/C12 foundation: the contract of `poly_divrem(a, b, p)` (main branch): if the inverse of the
leading coefficient of b used by the routine is a true inverse modulo p (always the case for a prime p
not dividing lc b: `modinv_spec`), then a ≡ q·b + r (mod p) with deg r < deg b, both canonical. -/
theorem polyDivrem_contract (a b : List Int) (p : Int) (hp : 0 < p) (ha : a ≠ []) (hb : b ≠ [])
    (hab : b.length ≤ a.length) (hinv : lc b * modinv (lc b) p ≡ 1 [ZMOD p]) :
    PCong p (toPoly a) (toPoly (polyDivrem a b p).1 * toPoly b + toPoly (polyDivrem a b p).2) ∧
    (polyDivrem a b p).2.length < b.length ∧ Canon (polyDivrem a b p).1 ∧ Canon (polyDivrem a b p).2 := by
  unfold polyDivrem
  have h1 : a.isEmpty = false := by cases a <;> simp_all
  have h2 : b.isEmpty = false := by cases b <;> simp_all
  have h3 : ¬ a.length < b.length := by omega
  simp only [h1, h2, Bool.or_self, h3, decide_false, Bool.false_eq_true, ↓reduceIte]
  have hbl : 0 < b.length := List.length_pos_of_ne_nil hb
  have hblen : b.length = (b.length - 1) + 1 := by omega
  have hlen : a.length - b.length + 1 + b.length ≤ a.length + 1 := by omega
  have hid := divremLoop_identity b (modinv (lc b) p) p (b.length - 1) (a.length - b.length + 1) a [] hlen
  have hdg := divremLoop_degree b (modinv (lc b) p) p hp (b.length - 1) hblen
    (by rw [lc_eq_getD b hb]; exact hinv) (a.length - b.length + 1) a [] hlen
    (by intro j hj; exact getD_of_length_le a j (by omega))
  refine ⟨?_, ?_, canon_fromRaw _, canon_fromRaw _⟩
  · simp only [toPoly_fromRaw]
    simp only [toPoly, mul_zero, zero_mul, add_zero] at hid
    have := PCong.symm hid
    have e : toPoly (divremLoop b (modinv (lc b) p) p (b.length - 1) (a.length - b.length + 1) a []).1 * toPoly b +
        toPoly (divremLoop b (modinv (lc b) p) p (b.length - 1) (a.length - b.length + 1) a []).2 =
        toPoly (divremLoop b (modinv (lc b) p) p (b.length - 1) (a.length - b.length + 1) a []).2 +
        toPoly (divremLoop b (modinv (lc b) p) p (b.length - 1) (a.length - b.length + 1) a []).1 * toPoly b := by ring
    rw [e]; exact this
  · have := length_fromRaw_le _ (b.length - 1) hdg
    omega

/-- for a prime p not dividing lc b the hypothesis on the inverse holds (Fermat) -/
theorem polyDivrem_contract_prime (a b : List Int) (p : Nat) (hp : p.Prime) (ha : a ≠ []) (hb : b ≠ [])
    (hab : b.length ≤ a.length) (hlc : IsCoprime (lc b) (p : Int)) :
    PCong p (toPoly a) (toPoly (polyDivrem a b p).1 * toPoly b + toPoly (polyDivrem a b p).2) ∧
    (polyDivrem a b p).2.length < b.length ∧ Canon (polyDivrem a b p).1 ∧ Canon (polyDivrem a b p).2 :=
  polyDivrem_contract a b p (by exact_mod_cast hp.pos) ha hb hab (modinv_spec p hp (lc b) hlc)

end NTV.PolyMod
