import Mathlib.LinearAlgebra.Matrix.Block
import Mathlib.Tactic
open Matrix
namespace NTV.Det
variable {R : Type} [CommRing R]

/-- Gaussian elimination found no pivot in column `i`: the first `i` columns are already
upper-triangular and column `i` vanishes from row `i` on, so the determinant is 0. -/
theorem det_zero_of_no_pivot {n : Nat} (M : Matrix (Fin n) (Fin n) R) (i : Fin n)
    (hlow : ∀ r c : Fin n, c.val < i.val → c.val < r.val → M r c = 0)
    (hcol : ∀ r : Fin n, i.val ≤ r.val → M r i = 0) : M.det = 0 := by
  rw [twoBlockTriangular_det M (fun r : Fin n => r.val < i.val)]
  · have : (toSquareBlockProp M fun r : Fin n => ¬ r.val < i.val).det = 0 := by
      apply det_eq_zero_of_column_eq_zero ⟨i, by simp⟩
      intro r
      simp only [toSquareBlockProp, of_apply]
      exact hcol r.1 (by have := r.2; omega)
    rw [this, mul_zero]
  · intro r hr c hc
    exact hlow r c hc (by omega)

/-- fully eliminated matrix: determinant is the product of the diagonal -/
theorem det_upper {n : Nat} (M : Matrix (Fin n) (Fin n) R)
    (hlow : ∀ r c : Fin n, c.val < r.val → M r c = 0) : M.det = ∏ i, M i i := by
  apply det_of_upperTriangular
  intro r c hrc
  exact hlow r c hrc

end NTV.Det
