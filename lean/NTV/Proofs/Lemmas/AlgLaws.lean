import NTV.Proofs.Lemmas.AlgProofs
import Mathlib.RingTheory.Ideal.Quotient.Basic
/-! Helper lemmas for C14: the product of `NTV.Alg` on reduced representatives, congruences modulo
the minimal polynomial, uniqueness of reduced representatives. -/
open Polynomial
namespace NTV.Alg
open NTV.PolyG

/-- the modulus as a rational polynomial -/
noncomputable def modulus (f : List Int) : Rat[X] := toPoly (intsToRats f)

/-- canonical representative of degree < deg f -/
def Reduced (f : List Int) (a : List Rat) : Prop := Canon a ∧ a.length ≤ f.length - 1

theorem length_intsToRats (f : List Int) : (intsToRats f).length = f.length := by simp [intsToRats]

theorem canon_intsToRats (f : List Int) (hf : Canon f) : Canon (intsToRats f) := by
  intro h
  have hf0 : f ≠ [] := by intro e; simp [intsToRats, e] at h
  have : (intsToRats f).getLast h = ((f.getLast hf0 : Int) : Rat) := by
    simp [intsToRats, List.getLast_map]
  rw [this]
  exact_mod_cast hf hf0

theorem intsToRats_ne_nil (f : List Int) (hn : 2 ≤ f.length) : intsToRats f ≠ [] := by
  intro e
  have := length_intsToRats f
  rw [e] at this
  simp at this
  omega

theorem modulus_facts (f : List Int) (hf : Canon f) (hn : 2 ≤ f.length) :
    (modulus f).natDegree = f.length - 1 ∧ modulus f ≠ 0 := by
  have h := natDegree_toPoly (intsToRats f) (intsToRats_ne_nil f hn) (canon_intsToRats f hf)
  rw [length_intsToRats] at h
  exact ⟨h.1, h.2.2⟩

/-- a reduced representative is its own remainder -/
theorem mod_self_of_reduced (f : List Int) (hf : Canon f) (hn : 2 ≤ f.length) (a : List Rat)
    (ha : Reduced f a) : toPoly a % modulus f = toPoly a := by
  obtain ⟨hdeg, hne⟩ := modulus_facts f hf hn
  apply (mod_eq_self_iff hne).mpr
  rw [degree_eq_natDegree hne]
  by_cases h0 : toPoly a = 0
  · rw [h0, degree_zero]; exact WithBot.bot_lt_coe _
  · rw [degree_eq_natDegree h0]
    have h1 := natDegree_toPoly_le a
    have hapos : a ≠ [] := by intro e; apply h0; rw [e]; rfl
    have : 0 < a.length := List.length_pos_of_ne_nil hapos
    have : (toPoly a).natDegree < (modulus f).natDegree := by rw [hdeg]; have := ha.2; omega
    exact_mod_cast this

/-- reduced representatives congruent modulo f are equal lists -/
theorem eq_of_reduced_of_dvd_sub (f : List Int) (hf : Canon f) (hn : 2 ≤ f.length) (r s : List Rat)
    (hr : Reduced f r) (hs : Reduced f s) (h : modulus f ∣ toPoly r - toPoly s) : r = s := by
  apply toPoly_inj r s hr.1 hs.1
  rw [← mod_self_of_reduced f hf hn r hr, ← mod_self_of_reduced f hf hn s hs]
  exact mod_eq_of_dvd_sub h

/-- `p % F ≡ p` -/
theorem dvd_mod_sub (F p : Rat[X]) : F ∣ p % F - p := by
  rw [EuclideanDomain.mod_eq_sub_mul_div]
  exact ⟨-(p / F), by ring⟩

/-- the product of reduced representatives: value, reducedness, congruence -/
theorem mul_ok (f : List Int) (hf : Canon f) (hn : 2 ≤ f.length) (a b : List Rat)
    (ha : Reduced f a) (hb : Reduced f b) :
    ∃ r, mul f a b = .ok r ∧ Reduced f r ∧ toPoly r = (toPoly a * toPoly b) % modulus f := by
  have hl := length_intsToRats f
  obtain ⟨r, h1, h2, h3, h4⟩ := mulWithMod_spec a b (intsToRats f) (intsToRats_ne_nil f hn)
    (canon_intsToRats f hf) (by omega) (by rw [hl]; exact ha.2) (by rw [hl]; exact hb.2)
  exact ⟨r, h1, ⟨h3, by rw [hl] at h4; exact h4⟩, h2⟩

theorem mul_congr (f : List Int) (hf : Canon f) (hn : 2 ≤ f.length) (a b : List Rat)
    (ha : Reduced f a) (hb : Reduced f b) :
    ∃ r, mul f a b = .ok r ∧ Reduced f r ∧ modulus f ∣ toPoly r - toPoly a * toPoly b := by
  obtain ⟨r, h1, h2, h3⟩ := mul_ok f hf hn a b ha hb
  exact ⟨r, h1, h2, by rw [h3]; exact dvd_mod_sub _ _⟩

theorem getD_addRaw (a b : List Rat) (j : Nat) : (addRaw a b).getD j 0 = a.getD j 0 + b.getD j 0 := by
  rw [← coeff_toPoly, toPoly_addRaw, coeff_add, coeff_toPoly, coeff_toPoly]

/-- sums and differences of reduced representatives are reduced -/
theorem reduced_add (f : List Int) (a b : List Rat) (ha : Reduced f a) (hb : Reduced f b) :
    Reduced f (add a b) := by
  refine ⟨canon_add a b ha.1 hb.1, ?_⟩
  unfold NTV.Alg.add NTV.PolyG.add
  split
  · exact hb.2
  · split
    · exact ha.2
    · apply length_fromRaw_le
      intro j hj
      rw [getD_addRaw, getD_of_length_le a j (by have := ha.2; omega),
        getD_of_length_le b j (by have := hb.2; omega)]
      ring

theorem reduced_sub (f : List Int) (a b : List Rat) (ha : Reduced f a) (hb : Reduced f b) :
    Reduced f (sub a b) := by
  refine ⟨canon_sub a b ha.1 hb.1, ?_⟩
  unfold NTV.Alg.sub NTV.PolyG.sub
  split
  · simpa [neg] using hb.2
  · split
    · exact ha.2
    · apply length_fromRaw_le
      intro j hj
      rw [getD_subRaw, getD_of_length_le a j (by have := ha.2; omega),
        getD_of_length_le b j (by have := hb.2; omega)]
      ring

theorem reduced_one (f : List Int) (hn : 2 ≤ f.length) : Reduced f [1] := by
  refine ⟨?_, by simp; omega⟩
  intro h
  simp

theorem reduced_nil (f : List Int) : Reduced f [] := ⟨canon_nil, by simp⟩

/-! ### residue classes modulo f -/

/-- the class of a polynomial in ℚ[X]/(f) -/
noncomputable def cls (f : List Int) : Rat[X] →+* Rat[X] ⧸ Ideal.span {modulus f} := Ideal.Quotient.mk _

theorem cls_eq_iff (f : List Int) (p q : Rat[X]) : cls f p = cls f q ↔ modulus f ∣ p - q := by
  unfold cls
  rw [Ideal.Quotient.eq, Ideal.mem_span_singleton]

/-- reduced representatives of the same class are equal lists -/
theorem eq_of_reduced_of_cls_eq (f : List Int) (hf : Canon f) (hn : 2 ≤ f.length) (r s : List Rat)
    (hr : Reduced f r) (hs : Reduced f s) (h : cls f (toPoly r) = cls f (toPoly s)) : r = s :=
  eq_of_reduced_of_dvd_sub f hf hn r s hr hs ((cls_eq_iff f _ _).mp h)

/-- the product of `NTV.Alg` represents the product of the classes -/
theorem mul_cls (f : List Int) (hf : Canon f) (hn : 2 ≤ f.length) (a b : List Rat)
    (ha : Reduced f a) (hb : Reduced f b) :
    ∃ r, mul f a b = .ok r ∧ Reduced f r ∧ cls f (toPoly r) = cls f (toPoly a) * cls f (toPoly b) := by
  obtain ⟨r, h1, h2, h3⟩ := mul_congr f hf hn a b ha hb
  exact ⟨r, h1, h2, by rw [← map_mul]; exact (cls_eq_iff f _ _).mpr h3⟩

/-- loop invariant of the binary exponentiation: the answer represents `prod · cur^e` -/
theorem powLoop_cls (f : List Int) (hf : Canon f) (hn : 2 ≤ f.length) :
    ∀ (fuel e : Nat) (cur prod : List Rat), e < 2 ^ fuel → Reduced f cur → Reduced f prod →
    ∃ r, powLoop f fuel e cur prod = .ok r ∧ Reduced f r ∧
      cls f (toPoly r) = cls f (toPoly prod) * cls f (toPoly cur) ^ e := by
  intro fuel
  induction fuel with
  | zero =>
    intro e cur prod he _ hp
    have : e = 0 := by simpa using he
    subst this
    exact ⟨prod, by simp [powLoop], hp, by simp⟩
  | succ fuel ih =>
    intro e cur prod he hc hp
    by_cases h0 : e = 0
    · subst h0
      exact ⟨prod, by simp [powLoop], hp, by simp⟩
    · obtain ⟨c2, hc2, hc2r, hc2c⟩ := mul_cls f hf hn cur cur hc hc
      have hhalf : e / 2 < 2 ^ fuel := by
        rw [Nat.div_lt_iff_lt_mul (by norm_num)]
        rw [pow_succ] at he
        exact he
      by_cases hodd : e % 2 = 1
      · obtain ⟨p2, hp2, hp2r, hp2c⟩ := mul_cls f hf hn prod cur hp hc
        obtain ⟨r, hr, hrr, hrc⟩ := ih (e / 2) c2 p2 hhalf hc2r hp2r
        refine ⟨r, ?_, hrr, ?_⟩
        · simp [powLoop, h0, hodd, hp2, hc2, hr]
        · rw [hrc, hp2c, hc2c, ← pow_two, ← pow_mul, mul_assoc, ← pow_succ']
          congr 2
          omega
      · obtain ⟨r, hr, hrr, hrc⟩ := ih (e / 2) c2 prod hhalf hc2r hp
        refine ⟨r, ?_, hrr, ?_⟩
        · simp [powLoop, h0, hodd, hc2, hr]
        · rw [hrc, hc2c, ← pow_two, ← pow_mul]
          congr 2
          omega

/-- `pow` represents the power of the class -/
theorem pow_cls (f : List Int) (hf : Canon f) (hn : 2 ≤ f.length) (a : List Rat) (ha : Reduced f a) (e : Nat) :
    ∃ r, pow f a e = .ok r ∧ Reduced f r ∧ cls f (toPoly r) = cls f (toPoly a) ^ e := by
  have hfuel : e < 2 ^ (e.log2 + 2) := by
    have := Nat.lt_log2_self (n := e)
    calc e < 2 ^ (e.log2 + 1) := this
      _ ≤ 2 ^ (e.log2 + 2) := Nat.pow_le_pow_right (by norm_num) (by omega)
  obtain ⟨r, h1, h2, h3⟩ := powLoop_cls f hf hn (e.log2 + 2) e a [1] hfuel ha (reduced_one f hn)
  refine ⟨r, h1, h2, ?_⟩
  rw [h3]
  simp [toPoly]

end NTV.Alg
