import NTV.Model.Ideal
import NTV.Proofs.Lemmas.IdealProofsC
import NTV.Proofs.Lemmas.TableProofs2
/-! # Prime decomposition (C17), part B: `to_z_basis_int` and the closure (g, e) ↦ ((g(θ)) + (p), e). -/
open Matrix
namespace NTV.C14aux
open NTV.Ord NTV.PolyG
open NTV.RowOps (ent)
/-- the coefficients of `elt basis a` are those of `Σ_i a_i ω_i` (as in C14) -/
theorem elt_coef (basis : QMat) (a : List Int) (c : Nat) (hc : c < basis.length) :
    coefAt (elt basis a) c = ∑ i ∈ Finset.range basis.length, ((a.getD i 0 : Int) : Rat) * ent basis i c := by
  unfold elt comb coefAt
  rw [NTV.PolyG.getD_fromRaw]
  simp only [List.getD_eq_getElem?_getD, List.getElem?_map, List.getElem?_range hc, Option.map_some,
    Option.getD_some]
  apply Finset.sum_congr rfl
  intro i _
  cases a[i]? <;> simp
end NTV.C14aux

namespace NTV.DecompP
open NTV.Ideal NTV.PolyG NTV.IdealP NTV.Ord
open NTV.RowOps (toM Rect ent)

/-- `to_z_basis_int`: a returned vector has `n` entries and solves `x · B = (coefficients of a)`; every
entry of the rational solution is an integer -/
theorem toZBasisInt_spec (B : NTV.Ord.QMat) (n : Nat) (hB : Rect n n B) (a : List Rat) (x : List Int)
    (h : toZBasisInt B a = .ok x) :
    x.length = n ∧
    (fun k : Fin n => ((x.getD k 0 : Int) : Rat)) ᵥ* toM n n B = fun c : Fin n => coefAt a c := by
  unfold toZBasisInt toZBasis solveExpect at h
  simp only [bind, Except.bind] at h
  split at h
  · cases h
  rename_i y hy
  split at hy
  · rename_i y' hs
    cases hy
    have hb : ((List.range B.length).map (fun k => coefAt a k)).length = n := by simp [hB.1]
    have hlen := NTV.LinAlg.solve_length B _ y n hB hb hs
    have hsol := NTV.LinAlg.solve_ok B _ y n hB hb hs
    have ht := tabulate_int y n hlen
    simp only [bind, Except.bind] at ht
    rw [hB.1, ht] at h
    unfold cellSpec at h
    split at h
    · rename_i hint
      cases h
      refine ⟨by simp, ?_⟩
      have hx : (fun k : Fin n => ((((List.range n).map fun k => toInteger (y.getD k 0)).getD k 0 : Int) : Rat))
          = fun k : Fin n => y.getD k 0 := by
        funext k
        have hk := hint k k.2
        simp only [List.getD_eq_getElem?_getD, List.getElem?_map, List.getElem?_range k.2, Option.map_some,
          Option.getD_some]
        rw [← List.getD_eq_getElem?_getD]
        generalize y.getD k 0 = q at hk
        unfold isInteger at hk
        unfold toInteger
        have hden : q.den = 1 := by simpa using hk
        rw [hden]
        simp only [Nat.cast_one, Int.tdiv_one]
        exact (Rat.den_eq_one_iff q).mp hden
      rw [hx, hsol]
      funext c
      simp [List.getD_eq_getElem?_getD, hB.1, c.2]
    · cases h
  · split at hy <;> cases hy


/-- … hence `Σ_k x_k · ω_k = a` in ℚ[x]/(f), as an equality of stored expressions, for every canonical
`a` of degree < n -/
theorem elt_of_solution (B : NTV.Ord.QMat) (n : Nat) (hB : Rect n n B) (a : List Rat) (x : List Int)
    (ha : Canon a) (hlen : a.length ≤ n)
    (h : (fun k : Fin n => ((x.getD k 0 : Int) : Rat)) ᵥ* toM n n B = fun c : Fin n => coefAt a c) :
    elt B x = a := by
  refine toPoly_inj (elt B x) a (by unfold elt comb; exact canon_fromRaw _) ha ?_
  ext c
  rw [coeff_toPoly, coeff_toPoly]
  by_cases hc : c < n
  · have h1 := NTV.C14aux.elt_coef B x c (by rw [hB.1]; exact hc)
    unfold coefAt at h1
    rw [h1, hB.1]
    have h2 := congrFun h ⟨c, hc⟩
    simp only [Matrix.vecMul, dotProduct, coefAt] at h2
    rw [← h2, ← Fin.sum_univ_eq_sum_range (fun k => ((x.getD k 0 : Int) : Rat) * ent B k c) n]
    rfl
  · have h0 : a.getD c 0 = 0 := by
      rw [List.getD_eq_getElem?_getD, List.getElem?_eq_none (by omega)]; rfl
    rw [h0]
    unfold elt comb
    rw [getD_fromRaw, List.getD_eq_getElem?_getD, List.getElem?_eq_none (by simp [hB.1]; omega)]
    rfl


/-- the rational copy of a factor: `Polynomial::from_raw(poly.map(BigRational::from_integer))` -/
def ratOf (g : List Int) : List Rat := fromRaw (g.map (fun (c : Int) => (c : Rat)))

/-- the coordinate vector handed to `Ideal::principal` by the closure of `decompose` -/
def elemSpec (f : List Int) (B : NTV.Ord.QMat) (g : List Int) : Except String (List Int) :=
  if degU (ratOf g) ≥ degU f then .ok (List.replicate (degU f) 0) else toZBasisInt B (ratOf g)

/-- the steps of a successful run of the closure -/
theorem primeAbove_ok {f : List Int} {B : NTV.Ord.QMat} {t : NTV.Ord.Table} {p : Int} {g : List Int} {m : Nat}
    {P : HNF} {m' : Nat} (h : primeAbove f B t p g m = .ok (P, m')) :
    ∃ elem A Z, elemSpec f B g = .ok elem ∧ principal t elem = .ok A ∧ degU f ≠ 0 ∧
      principal t (p :: List.replicate (degU f - 1) 0) = .ok Z ∧ add A Z = .ok P ∧ m' = m := by
  unfold primeAbove at h
  simp only [bind, Except.bind, pure, Except.pure, throw, throwThe, MonadExceptOf.throw] at h
  split at h
  · rename_i hc
    split at h
    · cases h
    rename_i A hA
    split at h
    · cases h
    rename_i hdeg
    split at h
    · cases h
    rename_i Z hZ
    split at h
    · cases h
    rename_i S hS
    cases h
    refine ⟨_, A, Z, ?_, hA, hdeg, hZ, hS, rfl⟩
    unfold elemSpec ratOf; rw [if_pos hc]
  · rename_i hc
    split at h
    · cases h
    rename_i elem helem
    split at h
    · cases h
    rename_i A hA
    split at h
    · cases h
    rename_i hdeg
    split at h
    · cases h
    rename_i Z hZ
    split at h
    · cases h
    rename_i S hS
    cases h
    refine ⟨elem, A, Z, ?_, hA, hdeg, hZ, hS, rfl⟩
    unfold elemSpec ratOf; rw [if_neg hc]; exact helem

theorem vec_pelem (n : Nat) (hn : 0 < n) (p : Int) :
    vec n (p :: List.replicate (n - 1) 0) = p • e n ⟨0, hn⟩ := by
  funext k
  unfold vec e
  rcases k with ⟨k, hk⟩
  cases k with
  | zero => simp
  | succ j =>
    have : (⟨j + 1, hk⟩ : Fin n) ≠ ⟨0, hn⟩ := by intro h; cases h
    simp [this, List.getD_eq_getElem?_getD, List.getElem?_replicate]
    split <;> rfl

/-- **the closure of `decompose`, as lattices.** For a table that is a ring with identity e_0 and f of
degree n: a returned `P` is the sum of the principal ideal of the coordinate vector `elem` and of (p);
it is an ideal of the order containing p·e_0 and p·ℤⁿ. -/
theorem primeAbove_lattice_core {t : NTV.Ord.Table} {n : Nat} (T : TableRing t n) {f : List Int} (hf : degU f = n)
    {B : NTV.Ord.QMat} {p : Int} {g : List Int} {m : Nat} {P : HNF} {m' : Nat}
    (h : primeAbove f B t p g m = .ok (P, m')) :
    ∃ elem A Z, elemSpec f B g = .ok elem ∧ elem.length = n ∧ principal t elem = .ok A ∧
      principal t (p :: List.replicate (n - 1) 0) = .ok Z ∧ add A Z = .ok P ∧ m' = m ∧
      Wid n A ∧ Wid n Z ∧ Wid n P ∧ (∃ pv, NTV.Hnf.IsHNF P n pv) ∧
      Lat n A = LinearMap.range (starB t n (vec n elem)) ∧
      Lat n Z = LinearMap.range (starB t n (p • e n ⟨0, T.pos⟩)) ∧
      Lat n P = Lat n A ⊔ Lat n Z ∧ IsOIdeal t n P ∧ (∀ y : Fin n → ℤ, p • y ∈ Lat n P) := by
  obtain ⟨elem, A, Z, h1, h2, _, h4, h5, h6⟩ := primeAbove_ok h
  rw [hf] at h4
  have hlen : elem.length = n := by
    by_contra hne
    unfold principal at h2
    rw [T.len] at h2
    simp [hne, bind, Except.bind, throw, throwThe, MonadExceptOf.throw] at h2
  have hplen : (p :: List.replicate (n - 1) 0).length = n := by
    have := T.pos; simp; omega
  obtain ⟨wA, hA, lA, oA⟩ := principal_spec T hlen h2
  obtain ⟨wZ, hZ, lZ, oZ⟩ := principal_spec T hplen h4
  obtain ⟨wP, hP, lP⟩ := add_spec wA wZ T.pos h5
  rw [vec_pelem n T.pos p] at lZ
  refine ⟨elem, A, Z, h1, hlen, h2, h4, h5, h6, wA, wZ, wP, hP, lA, lZ, lP,
    isOIdeal_of_lat_sup lP oA oZ, ?_⟩
  intro y
  rw [lP]
  apply Submodule.mem_sup_right
  rw [lZ]
  refine ⟨y, ?_⟩
  rw [starB_apply, star_smul_left, T.one_star]

/-- the rational copy of a canonical integer list is the list of the casts: same length, same degree,
and it denotes the image of the polynomial in ℚ[X] -/
theorem ratOf_canon (g : List Int) (hg : Canon g) :
    ratOf g = g.map (fun (c : Int) => (c : Rat)) ∧ degU (ratOf g) = degU g ∧
    toPoly (ratOf g) = (toPoly g).map (Int.castRingHom ℚ) := by
  have hc : Canon (g.map (fun (c : Int) => (c : Rat))) := by
    intro hne
    have hne' : g ≠ [] := by intro e; apply hne; rw [e]; rfl
    rw [List.getLast_map (by simpa using hne')]
    have := hg hne'
    exact_mod_cast this
  have h1 : ratOf g = g.map (fun (c : Int) => (c : Rat)) :=
    toPoly_inj _ _ (canon_fromRaw _) hc (toPoly_fromRaw _)
  refine ⟨h1, ?_, ?_⟩
  · rw [h1]; cases g <;> simp [degU]
  · rw [h1]
    clear h1 hc hg
    induction g with
    | nil => simp [toPoly]
    | cons c cs ih => simp [toPoly, ih]

end NTV.DecompP
