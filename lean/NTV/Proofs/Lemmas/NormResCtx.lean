import NTV.Proofs.Lemmas.TableAbs
import Mathlib.RingTheory.Norm.Defs
import Mathlib.LinearAlgebra.Dimension.Constructions
import Mathlib.LinearAlgebra.FiniteDimensional.Lemmas
/-! C14 (norm = resultant), table part: in the abstract setting of `NTV.TableAbs`, when `Ω` has as many
members as the dimension of `K` over ℚ, `det (reg T a)` is the algebra norm of `Σ a_i Ω_i`. -/
open Matrix
namespace NTV.TableAbs

variable {K : Type*} [CommRing K] [Algebra ℚ K] {n : ℕ} [NeZero n]
variable {q : ℚ →+* K} {Ω : Fin n → K} {T : Fin n → Fin n → Fin n → ℤ}

omit [NeZero n] in
theorem psi_eq_sum_smul (x : Fin n → ℚ) : psi q Ω x = ∑ i, x i • Ω i := by
  have hq : q = algebraMap ℚ K := RingHom.ext_rat _ _
  unfold psi
  apply Finset.sum_congr rfl
  intro i _
  rw [Algebra.smul_def, hq]

omit [NeZero n] in
theorem Ctx.linearIndependent (h : Ctx q Ω T) : LinearIndependent ℚ Ω := by
  rw [Fintype.linearIndependent_iff]
  intro g hg i
  rw [← psi_eq_sum_smul (q := q)] at hg
  exact congrFun (h.indep g hg) i

/-- `Ω` as a basis -/
noncomputable def Ctx.basis (h : Ctx q Ω T) (hdim : Module.finrank ℚ K = n) : Module.Basis (Fin n) ℚ K :=
  basisOfLinearIndependentOfCardEqFinrank h.linearIndependent (by simp [hdim])

theorem Ctx.basis_apply (h : Ctx q Ω T) (hdim : Module.finrank ℚ K = n) (i : Fin n) :
    h.basis hdim i = Ω i := by
  simp [Ctx.basis]

theorem Ctx.repr_psi (h : Ctx q Ω T) (hdim : Module.finrank ℚ K = n) (x : Fin n → ℚ) (i : Fin n) :
    (h.basis hdim).repr (psi q Ω x) i = x i := by
  rw [psi_eq_sum_smul]
  have : ∑ i, x i • Ω i = ∑ i, x i • h.basis hdim i := by simp [h.basis_apply hdim]
  rw [this, Module.Basis.repr_sum_self]

/-- the matrix of the multiplication by `Σ a_i Ω_i` in the basis `Ω` is the transpose of `reg T a` -/
theorem Ctx.leftMulMatrix_eq (h : Ctx q Ω T) (hdim : Module.finrank ℚ K = n) (a : Fin n → ℤ) :
    Algebra.leftMulMatrix (h.basis hdim) (psi q Ω (castV a)) = (castM (reg T a))ᵀ := by
  classical
  ext i j
  rw [Algebra.leftMulMatrix_eq_repr_mul, h.basis_apply hdim, ← psi_single (q := q) (Ω := Ω) j,
    h.reg_is_mult, h.repr_psi hdim, Matrix.single_one_vecMul]
  rfl

/-- `det (reg T a)` is the norm of `Σ a_i Ω_i` -/
theorem Ctx.norm_eq_det (h : Ctx q Ω T) (hdim : Module.finrank ℚ K = n) (a : Fin n → ℤ) :
    Algebra.norm ℚ (psi q Ω (castV a)) = (((reg T a).det : ℤ) : ℚ) := by
  classical
  rw [Algebra.norm_eq_matrix_det (h.basis hdim), h.leftMulMatrix_eq hdim, Matrix.det_transpose, det_castM]

end NTV.TableAbs
