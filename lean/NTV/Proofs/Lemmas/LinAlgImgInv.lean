import NTV.Proofs.Lemmas.LinAlgImgStep
/-! The linear-algebra invariant of `image_mod_p` over `ZMod p` (`InvB`): the working matrix has the
same linear relations among its rows as the input, processed rows vanish outside the pivot columns,
and the row recorded for a pivot column `i` is `-e_i`. -/
namespace NTV.LinAlg
open NTV.RowOps (toM Rect)

/-- entry modulo `p` -/
def cm (p : Nat) (a : IMat) (s i : Nat) : ZMod p := ((entZ a s i : Int) : ZMod p)

structure InvB (p n m k : Nat) (M : IMat) (st : ImgSt) : Prop where
  rel : ∀ y : Fin n → ZMod p, (∀ i : Fin m, ∑ s : Fin n, y s * cm p M s i = 0) ↔
      (∀ i : Fin m, ∑ s : Fin n, y s * cm p st.mat s i = 0)
  zero : ∀ s < k, ∀ i < m, st.c.getD i 0 = 0 → cm p st.mat s i = 0
  piv : ∀ i < m, st.c.getD i 0 ≠ 0 → ∀ i' < m,
      cm p st.mat (st.c.getD i 0 - 1) i' = if i' = i then -1 else 0
  red : ∀ s, k ≤ s → s < n → ∀ i < m, (p : Int) ∣ entZ st.mat s i → entZ st.mat s i = 0

theorem entZ_mem {n m : Nat} {M : IMat} (hM : Rect n m M) (s i : Nat) (hs : s < n) (hi : i < m) :
    ∃ row ∈ M, entZ M s i ∈ row := by
  have hs' : s < M.length := by rw [hM.1]; exact hs
  have hl : i < (M[s]).length := by rw [hM.2 _ (List.getElem_mem hs')]; exact hi
  refine ⟨M[s], List.getElem_mem hs', ?_⟩
  have : entZ M s i = M[s][i] := by
    unfold entZ NTV.RowOps.ent
    simp [List.getD_eq_getElem?_getD, List.getElem?_eq_getElem hs', List.getElem?_eq_getElem hl]
  rw [this]; exact List.getElem_mem hl

theorem InvB.init {p n m : Nat} {M : IMat} (hM : Rect n m M)
    (hred : ∀ row ∈ M, ∀ x ∈ row, (p : Int) ∣ x → x = 0) :
    InvB p n m 0 M { mat := M, c := List.replicate m 0, r := 0 } where
  rel := fun _ => Iff.rfl
  zero := by intro s hs; omega
  piv := by
    intro i hi hc
    exfalso; apply hc
    simp [List.getD_eq_getElem?_getD, hi]
  red := by
    intro s _ hs i hi hd
    obtain ⟨row, h1, h2⟩ := entZ_mem hM s i hs hi
    exact hred row h1 _ h2 hd

theorem InvB.skip {p n m k : Nat} {M : IMat} {st : ImgSt} (h : InvB p n m k M st) (hk : k < n)
    (hf : findFrom 0 m (fun j => (st.mat.getD k []).getD j 0 != 0 && st.c.getD j 0 == 0) = none) :
    InvB p n m (k + 1) M { st with r := st.r + 1 } where
  rel := h.rel
  zero := by
    intro s hs i hi hc
    by_cases hsk : s < k
    · exact h.zero s hsk i hi hc
    · have : s = k := by omega
      subst this
      have := findFrom_none hf i (Nat.zero_le _) hi
      simp only [hc, beq_self_eq_true, Bool.and_true, bne_eq_false_iff_eq] at this
      unfold cm entZ NTV.RowOps.ent
      rw [this]; simp
  piv := h.piv
  red := fun s hs => h.red s (by omega)

theorem cm_imgMat {n m : Nat} {mat : IMat} (hr : Rect n m mat) (p : Nat) (k j : Nat) (dd : Int)
    (s i : Nat) (hs : s < n) (hi : i < m) :
    cm p (imgMat p k j dd mat) s i =
      if s < k then cm p mat s i
      else if s = k then (if i = j then -1 else 0)
      else if i = j then cm p mat s j * (dd : ZMod p)
      else (cm p mat s j * (dd : ZMod p)) * cm p mat k i + cm p mat s i := by
  unfold cm
  rw [ent_imgMat hr _ _ _ _ _ _ hs hi]
  split_ifs <;> simp [cast_tmod]

/-- the pivot step is a pair of column operations on the whole matrix modulo `p`: column `j` is
multiplied by `d`, then every other column `i` gains `mat[k][i]` times the new column `j` -/
theorem cm_imgMat_cols {n m : Nat} {mat : IMat} (hr : Rect n m mat) (p : Nat) (k j : Nat) (dd : Int)
    (hk : k < n) (hj : j < m)
    (hz : ∀ s < k, cm p mat s j = 0) (hd : (dd : ZMod p) * cm p mat k j = -1) (s : Nat) (hs : s < n) :
    cm p (imgMat p k j dd mat) s j = (dd : ZMod p) * cm p mat s j ∧
    ∀ i < m, i ≠ j → cm p (imgMat p k j dd mat) s i =
      cm p mat s i + cm p mat k i * cm p (imgMat p k j dd mat) s j := by
  constructor
  · rw [cm_imgMat hr p k j dd s j hs hj]
    by_cases h1 : s < k
    · simp [h1, hz s h1]
    · by_cases h2 : s = k
      · subst h2; simp [hd]
      · simp [h1, h2, mul_comm]
  · intro i hi hij
    rw [cm_imgMat hr p k j dd s i hs hi, cm_imgMat hr p k j dd s j hs hj]
    by_cases h1 : s < k
    · simp [h1, hz s h1]
    · by_cases h2 : s = k
      · subst h2; simp [hij]
      · simp only [h1, h2, hij, if_false, if_true]; ring

theorem InvB.pivot {p n m k : Nat} (hp : p.Prime) {M : IMat} {st : ImgSt} (hA : InvA n m k st)
    (h : InvB p n m k M st) (hk : k < n) (j : Nat)
    (hf : findFrom 0 m (fun j => (st.mat.getD k []).getD j 0 != 0 && st.c.getD j 0 == 0) = some j) :
    InvB p n m (k + 1) M
      { mat := imgMat p k j ((p : Int) - modinv ((st.mat.getD k []).getD j 0) p) st.mat,
        c := st.c.set j (k + 1), r := st.r } := by
  have : Fact p.Prime := ⟨hp⟩
  obtain ⟨_, hj, hpj⟩ := findFrom_some hf
  simp only [Bool.and_eq_true, bne_iff_ne, ne_eq, beq_iff_eq] at hpj
  obtain ⟨ha, hc⟩ := hpj
  have ha' : entZ st.mat k j ≠ 0 := ha
  have hane : cm p st.mat k j ≠ 0 := by
    unfold cm
    rw [Ne, ZMod.intCast_zmod_eq_zero_iff_dvd]
    exact fun hd => ha' (h.red k (le_refl _) hk j hj hd)
  set dd := (p : Int) - modinv ((st.mat.getD k []).getD j 0) p with hdd
  have hd : (dd : ZMod p) * cm p st.mat k j = -1 := cast_dd_mul p hp _ hane
  have hdne : (dd : ZMod p) ≠ 0 := by
    intro h0; rw [h0, zero_mul] at hd; exact absurd hd.symm (by simp)
  have hz : ∀ s < k, cm p st.mat s j = 0 := fun s hs => h.zero s hs j hj hc
  have hcols := cm_imgMat_cols hA.rect p k j dd hk hj hz hd
  have hgetc : ∀ i < m, (st.c.set j (k + 1)).getD i 0 = if i = j then k + 1 else st.c.getD i 0 := by
    intro i hi
    have : i < st.c.length := by rw [hA.clen]; exact hi
    simp only [List.getD_eq_getElem?_getD, List.getElem?_set]
    by_cases hij : j = i
    · subst hij; simp [this]
    · have : ¬ i = j := fun e => hij e.symm
      simp [hij, this]
  refine ⟨?_, ?_, ?_, ?_⟩
  · intro y
    rw [h.rel y]
    -- column sums
    have hsj : ∑ s : Fin n, y s * cm p (imgMat p k j dd st.mat) s j
        = (dd : ZMod p) * ∑ s : Fin n, y s * cm p st.mat s j := by
      rw [Finset.mul_sum]
      apply Finset.sum_congr rfl
      intro s _
      rw [(hcols s s.2).1]; ring
    have hsi : ∀ i < m, i ≠ j → ∑ s : Fin n, y s * cm p (imgMat p k j dd st.mat) s i
        = ∑ s : Fin n, y s * cm p st.mat s i
          + cm p st.mat k i * ∑ s : Fin n, y s * cm p (imgMat p k j dd st.mat) s j := by
      intro i hi hij
      rw [Finset.mul_sum, ← Finset.sum_add_distrib]
      apply Finset.sum_congr rfl
      intro s _
      rw [(hcols s s.2).2 i hi hij]; ring
    constructor
    · intro h0 i
      have hj0 : ∑ s : Fin n, y s * cm p (imgMat p k j dd st.mat) s j = 0 := by
        rw [hsj, h0 ⟨j, hj⟩, mul_zero]
      by_cases hij : (i : Nat) = j
      · rw [hij]; exact hj0
      · rw [hsi i i.2 hij, h0 i, hj0]; simp
    · intro h0 i
      have hj0 := h0 ⟨j, hj⟩
      simp only at hj0
      have hj1 : ∑ s : Fin n, y s * cm p st.mat s j = 0 := by
        rw [hsj] at hj0
        exact (mul_eq_zero.mp hj0).resolve_left hdne
      by_cases hij : (i : Nat) = j
      · rw [hij]; exact hj1
      · have := h0 i
        rw [hsi i i.2 hij, hj0] at this
        simpa using this
  · intro s hs i hi hci
    rw [hgetc i hi] at hci
    have hij : i ≠ j := by
      intro e; rw [if_pos e] at hci; omega
    rw [if_neg hij] at hci
    simp only
    rw [cm_imgMat hA.rect p k j dd s i (by omega) hi]
    by_cases hsk : s < k
    · rw [if_pos hsk]; exact h.zero s hsk i hi hci
    · have : s = k := by omega
      simp [this, hij]
  · intro i hi hci i' hi'
    simp only at hci ⊢
    rw [hgetc i hi] at hci ⊢
    by_cases hij : i = j
    · subst hij
      simp only [if_true, Nat.add_sub_cancel]
      rw [cm_imgMat hA.rect p k i dd k i' hk hi']
      simp
    · rw [if_neg hij] at hci ⊢
      have hle : st.c.getD i 0 ≤ k := by
        have hi2 : i < st.c.length := by rw [hA.clen]; exact hi
        apply hA.cle
        rw [List.getD_eq_getElem?_getD, List.getElem?_eq_getElem hi2]
        exact List.getElem_mem hi2
      have hlt : st.c.getD i 0 - 1 < k := by omega
      rw [cm_imgMat hA.rect p k j dd _ i' (by omega) hi', if_pos hlt]
      exact h.piv i hi hci i' hi'
  · intro s hs hsn i hi hdvd
    simp only at hdvd ⊢
    have h1 : ¬ s < k := by omega
    have h2 : ¬ s = k := by omega
    rw [ent_imgMat hA.rect _ _ _ _ _ _ hsn hi] at hdvd ⊢
    simp only [h1, h2, if_false] at hdvd ⊢
    split_ifs at hdvd ⊢ <;> exact tmod_reduced p hp.pos _ hdvd

end NTV.LinAlg
