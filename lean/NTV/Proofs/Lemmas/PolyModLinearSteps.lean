import NTV.Proofs.Lemmas.PolyModOpsZMod
import Mathlib.NumberTheory.LegendreSymbol.Basic
/-! The steps of `find_linear_factors_impl` (src/poly_mod/linear.rs), specified in `(ZMod p)[X]`:
deflation at the drawn shift, the adjusted polynomials `xapow ± 1`, one gcd split. -/
open Polynomial
namespace NTV.PolyMod
open NTV.PolyG NTV.Hensel

/-- reduced, canonical and non-zero modulo p -/
def GoodL (p : ℕ) (poly : List Int) : Prop := Reduced (p : Int) poly ∧ Canon poly ∧ red p poly ≠ 0

theorem GoodL.ne_nil {p : ℕ} {poly : List Int} (h : GoodL p poly) : poly ≠ [] :=
  ne_nil_of_red_ne_zero p poly h.2.2

theorem GoodL.natDegree {p : ℕ} {poly : List Int} (h : GoodL p poly) : (red p poly).natDegree = poly.length - 1 :=
  (red_spec p poly h.ne_nil h.1 h.2.1).2

theorem good_of (p : ℕ) (poly : List Int) (hr : Reduced (p : Int) poly) (hc : Canon poly) (hne : poly ≠ []) :
    GoodL p poly := ⟨hr, hc, (red_spec p poly hne hr hc).1⟩

/-- the list of values found by one stage: appended to `result`, all in [0, p), and accounting for the
difference of the root multisets of `P` (before) and `P'` (after) -/
def Stage (p : ℕ) [Fact p.Prime] (P P' : (ZMod p)[X]) (result result' : List Int) : Prop :=
  ∃ rs : List Int, result' = result ++ rs ∧ (∀ r ∈ rs, 0 ≤ r ∧ r < (p : Int)) ∧
    P.roots = Multiset.map (Int.cast : Int → ZMod p) (rs : Multiset Int) + P'.roots

theorem Stage.refl (p : ℕ) [Fact p.Prime] (P : (ZMod p)[X]) (result : List Int) : Stage p P P result result :=
  ⟨[], by simp, by simp, by simp⟩

theorem Stage.trans {p : ℕ} [Fact p.Prime] {P P' P'' : (ZMod p)[X]} {r r' r'' : List Int}
    (h1 : Stage p P P' r r') (h2 : Stage p P' P'' r' r'') : Stage p P P'' r r'' := by
  obtain ⟨rs1, e1, g1, m1⟩ := h1
  obtain ⟨rs2, e2, g2, m2⟩ := h2
  refine ⟨rs1 ++ rs2, by rw [e2, e1, List.append_assoc], ?_, ?_⟩
  · intro x hx
    rcases List.mem_append.mp hx with h | h
    · exact g1 x h
    · exact g2 x h
  · rw [m1, m2, ← Multiset.coe_add, Multiset.map_add, add_assoc]

/-! ### deflation at the shift -/

def deflate (p : Int) (poly : Poly) (result : List Int) (a : Int) : M (Poly × List Int) :=
  if polyOfMod poly a p = 0 then do
    let q ← divideByXA poly a p
    pure (q, result ++ [a])
  else pure (poly, result)

theorem deflate_spec (p : ℕ) [Fact p.Prime] (poly result : List Int) (a : Int) (ha0 : 0 ≤ a) (ha1 : a < p)
    (hg : GoodL p poly) (poly1 result1 : List Int) (h : deflate p poly result a = .ok (poly1, result1)) :
    GoodL p poly1 ∧ Stage p (red p poly) (red p poly1) result result1 ∧
      ((poly1 = poly ∧ result1 = result ∧ (red p poly).eval (a : ZMod p) ≠ 0) ∨ poly1.length < poly.length) := by
  have hp : 0 < p := (Fact.out : p.Prime).pos
  unfold deflate at h
  split at h
  · rename_i hz
    cases hq : divideByXA poly a p with
    | error e => rw [hq] at h; simp [bind, Except.bind] at h
    | ok q =>
      rw [hq] at h
      simp only [bind, Except.bind, pure, Except.pure, Except.ok.injEq, Prod.mk.injEq] at h
      obtain ⟨rfl, rfl⟩ := h
      obtain ⟨d1, d2, d3, d4⟩ := divideByXA_red p hp poly a q hq
      have hq0 : red p q ≠ 0 := by
        intro e; apply hg.2.2; rw [d1, e, mul_zero]
      refine ⟨⟨d2, d3, hq0⟩, ⟨[a], rfl, ?_, ?_⟩, Or.inr d4⟩
      · intro r hr; simp at hr; subst hr; exact ⟨ha0, ha1⟩
      · rw [d1, roots_mul (by rw [← d1]; exact hg.2.2), roots_X_sub_C]
        simp
  · rename_i hz
    simp only [pure, Except.pure, Except.ok.injEq, Prod.mk.injEq] at h
    obtain ⟨rfl, rfl⟩ := h
    refine ⟨hg, Stage.refl _ _ _, Or.inl ⟨rfl, rfl, ?_⟩⟩
    rw [Ne, ← polyOfMod_eq_zero_iff p hp]; exact hz

/-! ### the polynomials (x − a)^((p−1)/2) ± 1 -/

def adjust (p : Int) (x : Poly) : Poly := if coefAt x 0 ≥ p then sub x (fromRaw [p]) else x

theorem getD_add_int (a b : List Int) (j : Nat) : (add a b).getD j 0 = a.getD j 0 + b.getD j 0 := by
  rw [← coeff_toPoly, toPoly_add, coeff_add, coeff_toPoly, coeff_toPoly]

theorem getD_sub_int (a b : List Int) (j : Nat) : (sub a b).getD j 0 = a.getD j 0 - b.getD j 0 := by
  rw [← coeff_toPoly, toPoly_sub, coeff_sub, coeff_toPoly, coeff_toPoly]

theorem getD_singleton (c : Int) (j : Nat) : [c].getD j 0 = if j = 0 then c else 0 := by
  cases j <;> simp

/-- `x + c` followed by the conditional subtraction of p on the constant coefficient stays reduced and
canonical and is x + c in (ZMod p)[X]; `cl` is `[c]` written either as a literal or through `from_raw` -/
theorem adjust_add_spec (p : ℕ) (hp : 1 < p) (x cl : List Int) (c : Int) (hc0 : 0 ≤ c) (hc1 : c < p)
    (hcl : ∀ j, cl.getD j 0 = if j = 0 then c else 0) (hclc : Canon cl)
    (hrx : Reduced (p : Int) x) (hcx : Canon x) :
    Reduced (p : Int) (adjust p (add x cl)) ∧ Canon (adjust p (add x cl)) ∧
      red p (adjust p (add x cl)) = red p x + C (c : ZMod p) := by
  have hcan : Canon (add x cl) := canon_add x cl hcx hclc
  have hred : red p (add x cl) = red p x + C (c : ZMod p) := by
    rw [red_add]
    congr 1
    ext j
    rw [coeff_red, hcl, coeff_C]
    split <;> simp
  have hP : fromRaw [(p : Int)] = [(p : Int)] := by
    have : p ≠ 0 := by omega
    simp [fromRaw, this]
  unfold adjust
  split
  · rename_i hge
    refine ⟨?_, canon_sub _ _ hcan (canon_fromRaw _), ?_⟩
    · intro j
      rw [getD_sub_int, getD_add_int, hcl, hP, getD_singleton]
      simp only [coefAt, getD_add_int, hcl, ↓reduceIte] at hge
      obtain ⟨h1, h2⟩ := hrx j
      by_cases hj : j = 0
      · subst hj; simp only [↓reduceIte]; omega
      · simp only [hj, ↓reduceIte]; omega
    · rw [red_sub, hred, hP, red_cons, red_nil]
      simp
  · rename_i hge
    refine ⟨?_, hcan, hred⟩
    intro j
    rw [getD_add_int, hcl]
    simp only [coefAt, getD_add_int, hcl, ↓reduceIte] at hge
    obtain ⟨h1, h2⟩ := hrx j
    by_cases hj : j = 0
    · subst hj; simp only [↓reduceIte]; omega
    · simp only [hj, ↓reduceIte]; omega

/-- x − a as built by the routine: `from_raw([(-a).mod_floor(p), 1])` -/
theorem xa_spec (p : ℕ) (hp : 1 < p) (a : Int) :
    Reduced (p : Int) (fromRaw [Int.fmod (-a) p, 1]) ∧ Canon (fromRaw [Int.fmod (-a) p, 1]) ∧
      red p (fromRaw [Int.fmod (-a) p, 1]) = X - C (a : ZMod p) := by
  have hp0 : (0 : Int) < p := by omega
  refine ⟨reduced_fromRaw _ _ (reduced_of_mem _ hp0 _ ?_), canon_fromRaw _, ?_⟩
  · intro x hx
    simp only [List.mem_cons, List.not_mem_nil, or_false] at hx
    rcases hx with rfl | rfl
    · exact ⟨Int.fmod_nonneg_of_pos _ hp0, Int.fmod_lt_of_pos _ hp0⟩
    · omega
  · rw [red_fromRaw, red_cons, red_cons, red_nil]
    have := fmod_modEq (-a) p
    rw [← ZMod.intCast_eq_intCast_iff] at this
    rw [this]
    simp only [Int.cast_neg, C_neg, Int.cast_one, C_1, mul_zero, add_zero, mul_one]
    ring

/-- a^((p−1)/2) = ±1 for a ≠ 0 in ZMod p (also for p = 2, where the exponent is 0) -/
theorem pow_half_dichotomy (p : ℕ) [Fact p.Prime] (a : ZMod p) (ha : a ≠ 0) :
    a ^ ((p - 1) / 2) = 1 ∨ a ^ ((p - 1) / 2) = -1 := by
  rcases Nat.Prime.eq_two_or_odd (Fact.out : p.Prime) with h2 | hodd
  · subst h2; left; simp
  · have : (p - 1) / 2 = p / 2 := by omega
    rw [this]
    exact ZMod.pow_div_two_eq_neg_one_or_one p ha

/-- "an unchanged polynomial has no linear factor": if the shift is not a root and both gcds are
constants, there is no root at all -/
theorem no_root_of_unchanged (p : ℕ) [Fact p.Prime] (P A : (ZMod p)[X]) (a : ZMod p)
    (hA : P ∣ A - (X - C a) ^ ((p - 1) / 2)) (ha : P.eval a ≠ 0)
    (h1 : ∀ d : (ZMod p)[X], d ∣ A + 1 → d ∣ P → d.natDegree = 0)
    (h2 : ∀ d : (ZMod p)[X], d ∣ A - 1 → d ∣ P → d.natDegree = 0) : P.roots = 0 := by
  apply Multiset.eq_zero_of_forall_notMem
  intro r hr
  have hroot : IsRoot P r := isRoot_of_mem_roots hr
  have hra : r - a ≠ 0 := by
    intro e
    have : r = a := by linear_combination e
    rw [this] at hroot
    exact ha hroot
  have hd : X - C r ∣ P := dvd_iff_isRoot.mpr hroot
  have hev : A.eval r = (r - a) ^ ((p - 1) / 2) := by
    have := dvd_iff_isRoot.mp (hd.trans hA)
    simp only [IsRoot.def, eval_sub, eval_pow, eval_X, eval_C] at this
    linear_combination this
  have hdeg : (X - C r).natDegree = 1 := natDegree_X_sub_C r
  rcases pow_half_dichotomy p (r - a) hra with h | h
  · have : X - C r ∣ A - 1 := by
      rw [dvd_iff_isRoot]; simp [hev, h]
    have := h2 _ this hd
    omega
  · have : X - C r ∣ A + 1 := by
      rw [dvd_iff_isRoot]; simp [hev, h]
    have := h1 _ this hd
    omega

/-! ### one gcd split -/

def splitAfter (p : Int) (rec : Poly → List Int → NTV.Draw.Stream → M (List Int × NTV.Draw.Stream))
    (gcd : Poly) (poly : Poly) (result : List Int) (s : NTV.Draw.Stream) : M (Poly × List Int × NTV.Draw.Stream) :=
  if degU gcd > 0 then do
    let quo := (polyDivrem poly gcd p).1
    let (result, s) ← rec gcd result s
    pure (quo, result, s)
  else pure (poly, result, s)

/-- what the recursive calls are assumed / shown to do -/
def RecSpec (p : ℕ) [Fact p.Prime] (rec : Poly → List Int → NTV.Draw.Stream → M (List Int × NTV.Draw.Stream)) : Prop :=
  ∀ (poly result : List Int) (s : NTV.Draw.Stream) (res : List Int) (s' : NTV.Draw.Stream), GoodL p poly →
    rec poly result s = .ok (res, s') → Stage p (red p poly) 1 result res

theorem degU_pos_iff (l : List Int) (h : l ≠ []) : degU l > 0 ↔ 2 ≤ l.length := by
  unfold degU
  have : l.isEmpty = false := by cases l <;> simp_all
  simp only [this, Bool.false_eq_true, ↓reduceIte]
  omega

theorem splitAfter_spec (p : ℕ) [Fact p.Prime]
    (rec : Poly → List Int → NTV.Draw.Stream → M (List Int × NTV.Draw.Stream)) (hrec : RecSpec p rec)
    (x gcd poly result : List Int) (s : NTV.Draw.Stream) (hrx : Reduced (p : Int) x) (hcx : Canon x)
    (hg : GoodL p poly) (hgcd : polyGcd x poly p = .ok gcd)
    (poly' result' : List Int) (s' : NTV.Draw.Stream)
    (h : splitAfter p rec gcd poly result s = .ok (poly', result', s')) :
    GoodL p poly' ∧ Stage p (red p poly) (red p poly') result result' ∧
      ((poly' = poly ∧ result' = result ∧ ∀ d : (ZMod p)[X], d ∣ red p x → d ∣ red p poly → d.natDegree = 0) ∨
        poly'.length < poly.length) := by
  have hpp : p.Prime := Fact.out
  obtain ⟨g1, g2, g3, g4, g5, g6⟩ := polyGcd_red p hpp x poly gcd hrx hg.1 hcx hg.2.1 hg.ne_nil hgcd
  have hgg : GoodL p gcd := good_of p gcd g2 g3 g1
  unfold splitAfter at h
  split at h
  · rename_i hdeg
    rw [degU_pos_iff gcd g1] at hdeg
    cases hr : rec gcd result s with
    | error e => rw [hr] at h; simp [bind, Except.bind] at h
    | ok v =>
      obtain ⟨res, s2⟩ := v
      rw [hr] at h
      simp only [bind, Except.bind, pure, Except.pure, Except.ok.injEq, Prod.mk.injEq] at h
      obtain ⟨rfl, rfl, rfl⟩ := h
      obtain ⟨q1, q2, q3, q4, q5, q6, q7⟩ := polyDivrem_red p hpp poly gcd hg.1 g2 hg.2.1 g3 g1
      -- the remainder vanishes
      have hrem : red p (polyDivrem poly gcd p).2 = 0 := by
        have hdvd : red p gcd ∣ red p (polyDivrem poly gcd p).2 := by
          have : red p (polyDivrem poly gcd p).2 = red p poly - red p (polyDivrem poly gcd p).1 * red p gcd := by
            rw [q1]; ring
          rw [this]
          exact dvd_sub g5 (Dvd.intro_left _ rfl)
        apply eq_zero_of_dvd_of_degree_lt hdvd
        refine lt_of_lt_of_le (degree_red_lt p _) ?_
        rw [degree_eq_natDegree hgg.2.2, hgg.natDegree]
        have : (polyDivrem poly gcd p).2.length ≤ gcd.length - 1 := by omega
        exact_mod_cast this
      rw [hrem, add_zero] at q1
      have hq0 : red p (polyDivrem poly gcd p).1 ≠ 0 := by
        intro e; apply hg.2.2; rw [q1, e, zero_mul]
      obtain ⟨rs, e1, e2, e3⟩ := hrec gcd result s res s2 hgg hr
      have hpl := List.length_pos_of_ne_nil hg.ne_nil
      refine ⟨⟨q2, q3, hq0⟩, ⟨rs, e1, e2, ?_⟩, Or.inr (by omega)⟩
      rw [q1, roots_mul (by rw [← q1]; exact hg.2.2), e3]
      simp [add_comm]
  · rename_i hdeg
    rw [degU_pos_iff gcd g1] at hdeg
    simp only [pure, Except.pure, Except.ok.injEq, Prod.mk.injEq] at h
    obtain ⟨rfl, rfl, rfl⟩ := h
    refine ⟨hg, Stage.refl _ _ _, Or.inl ⟨rfl, rfl, ?_⟩⟩
    intro d hd1 hd2
    have := natDegree_le_of_dvd (g6 d hd1 hd2) hgg.2.2
    rw [hgg.natDegree] at this
    omega

end NTV.PolyMod
