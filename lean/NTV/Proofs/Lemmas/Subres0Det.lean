import Mathlib.LinearAlgebra.Matrix.Determinant.Basic
import Mathlib.LinearAlgebra.Matrix.Block
import Mathlib.RingTheory.Polynomial.Basic
import Mathlib.Tactic
/-! # Determinant polynomials (for subresultants)

`detPolN j k P` is the determinant of the `k × k` matrix over `R[X]` whose row `i` is
`(P i, coeff (P i) (j+1), …, coeff (P i) (j+k-1))`: column 0 holds the polynomial itself, column `c ≥ 1`
its coefficient of degree `j + c` (as a constant). For rows of degree `≤ j+k-1` this is (up to the order
of the columns, i.e. up to sign) the classical "determinant polynomial" of the coefficient matrix. -/
open Polynomial
namespace NTV.Subres
variable {R : Type*} [CommRing R]

/-- the matrix behind `detPolN` -/
noncomputable def dpMat (j k : ℕ) (P : ℕ → R[X]) : Matrix (Fin k) (Fin k) R[X] :=
  Matrix.of fun i c => if c.val = 0 then P i.val else C ((P i.val).coeff (j + c.val))

/-- determinant polynomial of the first `k` rows of the family `P` -/
noncomputable def detPolN (j k : ℕ) (P : ℕ → R[X]) : R[X] := (dpMat j k P).det

theorem detPolN_congr (j k : ℕ) (P P' : ℕ → R[X]) (h : ∀ i, i < k → P i = P' i) :
    detPolN j k P = detPolN j k P' := by
  unfold detPolN dpMat
  congr 1
  ext i c
  simp only [Matrix.of_apply, h i.val i.isLt]

theorem detPolN_one (j : ℕ) (P : ℕ → R[X]) : detPolN j 1 P = P 0 := by
  simp [detPolN, dpMat]

/-- rows that are `R`-linear combinations (matrix `U`) of the rows `P` -/
theorem detPolN_mul (j k : ℕ) (P P' : ℕ → R[X]) (U : Matrix (Fin k) (Fin k) R)
    (h : ∀ i : Fin k, P' i.val = ∑ l : Fin k, C (U i l) * P l.val) :
    detPolN j k P' = C U.det * detPolN j k P := by
  have hm : dpMat j k P' = (C : R →+* R[X]).mapMatrix U * dpMat j k P := by
    ext i c
    simp only [dpMat, Matrix.of_apply, Matrix.mul_apply, RingHom.mapMatrix_apply, Matrix.map_apply, h i]
    by_cases hc : c.val = 0
    · simp [hc]
    · simp only [hc, ↓reduceIte, finsetSum_coeff, coeff_C_mul, map_sum, map_mul]
  unfold detPolN
  rw [hm, Matrix.det_mul, ← RingHom.map_det]

/-- expansion along the top-degree column when only the last row reaches that degree -/
theorem detPolN_succ (j k : ℕ) (hk : 1 ≤ k) (P : ℕ → R[X])
    (h : ∀ i, i < k → (P i).coeff (j + k) = 0) :
    detPolN j (k + 1) P = C ((P k).coeff (j + k)) * detPolN j k P := by
  unfold detPolN
  rw [Matrix.det_succ_column _ (Fin.last k), Finset.sum_eq_single (Fin.last k)]
  · have hk0 : ¬ k = 0 := by omega
    have e1 : dpMat j (k + 1) P (Fin.last k) (Fin.last k) = C ((P k).coeff (j + k)) := by
      simp [dpMat, hk0]
    have e2 : (dpMat j (k + 1) P).submatrix (Fin.last k).succAbove (Fin.last k).succAbove = dpMat j k P := by
      ext i c
      simp only [dpMat, Matrix.submatrix_apply, Fin.succAbove_last, Matrix.of_apply, Fin.val_castSucc]
    rw [e1, e2]
    simp [← two_mul]
  · intro i _ hi
    have hlt : i.val < k := by
      rcases Fin.eq_castSucc_or_eq_last i with ⟨i', rfl⟩ | rfl
      · simp
      · exact absurd rfl hi
    have hk0 : ¬ k = 0 := by omega
    have : dpMat j (k + 1) P i (Fin.last k) = 0 := by
      simp [dpMat, hk0, h i.val hlt]
    rw [this]; simp
  · intro h'; exact absurd (Finset.mem_univ _) h'

/-- permuting the rows changes the determinant polynomial by a unit (a sign) -/
theorem detPolN_perm (j k : ℕ) (P P' : ℕ → R[X]) (σ : Equiv.Perm (Fin k))
    (h : ∀ i : Fin k, P' i.val = P (σ i).val) :
    Associated (detPolN j k P') (detPolN j k P) := by
  have hm : dpMat j k P' = (dpMat j k P).submatrix σ id := by
    ext i c
    simp [dpMat, h i]
  unfold detPolN
  rw [hm, Matrix.det_permute]
  have hu : IsUnit ((Equiv.Perm.sign σ : ℤ) : R[X]) := by
    rcases Int.units_eq_one_or (Equiv.Perm.sign σ) with e | e <;> simp [e]
  exact (associated_isUnit_mul_left_iff hu).mpr (Associated.refl _)

end NTV.Subres
