import NTV.Proofs.Lemmas.Round2RingM
/-! Round 2: from `p`-maximality at every prime to maximality. The list-level notion `PMaximal` implies the
abstract one `PMaxK` (every subring `S ⊇ O` with `p^r S ⊆ O` is a lattice with a basis: Hermite normal form of a
finite generating set); an order that is `p`-maximal at every prime is contained in no strictly larger order. -/
open Matrix Finset Polynomial
namespace NTV.R2Abs

variable {K : Type*} [CommRing K]

/-- the subring `O + c·S` for subrings `O ⊆ S` -/
def addSmul (O S : Subring K) (hOS : O ≤ S) (c : ℕ) : Subring K where
  carrier := {z | ∃ a ∈ O, ∃ s ∈ S, z = a + (c : K) * s}
  mul_mem' := by
    rintro _ _ ⟨a, ha, s, hs, rfl⟩ ⟨b, hb, t, ht, rfl⟩
    refine ⟨a * b, O.mul_mem ha hb, a * t + b * s + (c : K) * (s * t), ?_, by ring⟩
    exact S.add_mem (S.add_mem (S.mul_mem (hOS ha) ht) (S.mul_mem (hOS hb) hs))
      (S.mul_mem (natCast_mem S c) (S.mul_mem hs ht))
  one_mem' := ⟨1, O.one_mem, 0, S.zero_mem, by simp⟩
  add_mem' := by
    rintro _ _ ⟨a, ha, s, hs, rfl⟩ ⟨b, hb, t, ht, rfl⟩
    exact ⟨a + b, O.add_mem ha hb, s + t, S.add_mem hs ht, by ring⟩
  zero_mem' := ⟨0, O.zero_mem, 0, S.zero_mem, by simp⟩
  neg_mem' := by
    rintro _ ⟨a, ha, s, hs, rfl⟩
    exact ⟨-a, O.neg_mem ha, -s, S.neg_mem hs, by ring⟩

/-- an order that is `p`-maximal at every prime has no proper over-ring of finite index -/
theorem le_of_pmax_all (O : Subring K) (h : ∀ p : ℕ, p.Prime → PMax O p) :
    ∀ m : ℕ, 1 ≤ m → ∀ S : Subring K, O ≤ S → (∀ x ∈ S, (m : K) * x ∈ O) → S ≤ O := by
  intro m
  induction m using Nat.strong_induction_on with
  | _ m ih =>
    intro hm S hOS hmS
    by_cases h1 : m = 1
    · subst h1
      intro x hx
      simpa using hmS x hx
    · have hp := Nat.minFac_prime h1
      obtain ⟨m', hm'⟩ := Nat.minFac_dvd m
      have hm'pos : 1 ≤ m' := by
        rcases Nat.eq_zero_or_pos m' with h0 | h0
        · rw [h0, mul_zero] at hm'; omega
        · exact h0
      have hlt : m' < m := by
        have := hp.two_le
        nlinarith
      have hS' : addSmul O S hOS m' ≤ O := by
        apply h _ hp (addSmul O S hOS m') (fun a ha => ⟨a, ha, 0, S.zero_mem, by simp⟩)
        refine ⟨1, ?_⟩
        rintro _ ⟨a, ha, s, hs, rfl⟩
        have h2 : (m : K) * s ∈ O := hmS s hs
        have h3 : ((Nat.minFac m : ℕ) : K) * a ∈ O := O.mul_mem (natCast_mem O _) ha
        have := O.add_mem h3 h2
        convert this using 1
        rw [pow_one, mul_add, ← mul_assoc]
        congr 2
        conv_rhs => rw [hm']
        push_cast
        rfl
      apply ih m' hlt hm'pos S hOS
      intro x hx
      exact hS' ⟨0, O.zero_mem, x, hx, by simp⟩

end NTV.R2Abs

namespace NTV.Round2
open NTV.Ord NTV.PolyG NTV.R2Abs
open NTV.TableAbs (Ctx psi)
open NTV.RowOps (toM Rect ent)
open NTV.Hnf (InLattice)

variable {f : List Int} {n : Nat}

/-- a rational matrix as a list matrix -/
def qmatOfFn (M : Matrix (Fin n) (Fin n) ℚ) : QMat := List.ofFn fun i => List.ofFn fun j => M i j

theorem qmatOfFn_rect (M : Matrix (Fin n) (Fin n) ℚ) : Rect n n (qmatOfFn M) := by
  refine ⟨by simp [qmatOfFn], ?_⟩
  intro r hr
  simp only [qmatOfFn, List.mem_ofFn] at hr
  obtain ⟨i, rfl⟩ := hr
  simp

theorem qmatOfFn_toM (M : Matrix (Fin n) (Fin n) ℚ) : toM n n (qmatOfFn M) = M := by
  ext i j
  simp [toM, ent, qmatOfFn, List.getD_eq_getElem?_getD, i.isLt, j.isLt]

/-- an integer matrix as a list matrix -/
def imatOfFn {m : ℕ} (s : Fin m → Fin n → ℤ) : IMat := List.ofFn fun i => List.ofFn fun j => s i j

theorem imatOfFn_rect {m : ℕ} (s : Fin m → Fin n → ℤ) : NTV.Hnf.Rect m n (imatOfFn s) := by
  refine ⟨by simp [imatOfFn], ?_⟩
  intro r hr
  simp only [imatOfFn, List.mem_ofFn] at hr
  obtain ⟨i, rfl⟩ := hr
  simp

theorem imatOfFn_toM {m : ℕ} (s : Fin m → Fin n → ℤ) : NTV.Hnf.toM m n (imatOfFn s) = Matrix.of s := by
  ext i j
  simp [NTV.Hnf.toM, NTV.Hnf.ent, imatOfFn, List.getD_eq_getElem?_getD, i.isLt, j.isLt]

/-- the inclusion of the spans gives an integral change of basis -/
theorem matrix_of_le {O S : QMat} (gO : GoodOrder f n O) (rS : Rect n n S)
    (hCO : Ctx (qK f) (omegaK f O n) (tabT (tableOf f O n) n))
    (hrow : ∀ i : Fin n, ∃ v : Fin n → ℤ, el (qK f) (omegaK f O n) v = omegaK f S n i) :
    ∃ R : Matrix (Fin n) (Fin n) ℤ, toM n n S = R.map (Int.castRingHom ℚ) * toM n n O := by
  choose R hR using hrow
  refine ⟨Matrix.of R, ?_⟩
  have hM : toM n n S = (toM n n S * (toM n n O)⁻¹) * toM n n O := by
    rw [Matrix.mul_assoc, Matrix.nonsing_inv_mul _ (isUnit_iff_ne_zero.mpr gO.setup.det), Matrix.mul_one]
  have hΩ := omegaK_of_mul (f := f) S O rS gO.setup.rect _ hM
  have hrows : ∀ i, (toM n n S * (toM n n O)⁻¹) i = NTV.TableAbs.castV (R i) := by
    intro i
    apply hCO.inj
    rw [← hΩ i, ← hR i]
    rfl
  rw [hM]
  congr 1
  ext i j
  rw [hrows i]
  simp [NTV.TableAbs.castV]

/-- **the list-level notion of p-maximality implies the abstract one**: every subring `S ⊇ O` of `K` with
`p^r·S ⊆ O` is the ℤ-span of a stored-style basis (Hermite normal form of a finite generating set) -/
theorem PMaximal.pmaxK {O : QMat} {p : ℕ} (hp : p ≠ 0) (g : GoodOrder f n O) (h : PMaximal f n O p) :
    PMaxK f n O p := by
  classical
  intro hC one S hOS ⟨r, hr⟩
  have hn : 0 < n := g.setup.pos
  have hpq : ((p : ℚ) ^ r) ≠ 0 := pow_ne_zero _ (by exact_mod_cast hp)
  have hpz : ((p : ℤ) ^ r) ≠ 0 := pow_ne_zero _ (by exact_mod_cast hp)
  -- S in coordinates: c ↦ p^(-r)·el c
  let ι : (Fin n → ℤ) → ℚ[X] ⧸ Ideal.span {NTV.Alg.modulus f} :=
    fun c => (qK f) (((p : ℚ) ^ r)⁻¹) * el (qK f) (omegaK f O n) c
  have hι_add : ∀ a b, ι (a + b) = ι a + ι b := by
    intro a b; simp only [ι]; rw [el_add, mul_add]
  have hι_smul : ∀ (z : ℤ) a, ι (z • a) = (z : ℚ[X] ⧸ Ideal.span {NTV.Alg.modulus f}) * ι a := by
    intro z a; simp only [ι]; rw [el_zsmul]; ring
  have hcancel : (qK f) ((p : ℚ) ^ r) * (qK f) (((p : ℚ) ^ r)⁻¹) = 1 := by
    rw [← map_mul, mul_inv_cancel₀ hpq, map_one]
  have hpK : (qK f) ((p : ℚ) ^ r) = ((p : ℕ) : ℚ[X] ⧸ Ideal.span {NTV.Alg.modulus f}) ^ r := by
    rw [map_pow, map_natCast]
  let N : Submodule ℤ (Fin n → ℤ) :=
    { carrier := {c | ι c ∈ S}
      add_mem' := by
        intro a b ha hb
        show ι (a + b) ∈ S
        rw [hι_add]; exact S.add_mem ha hb
      zero_mem' := by
        show ι 0 ∈ S
        simp only [ι]; rw [el_zero, mul_zero]; exact S.zero_mem
      smul_mem' := by
        intro z a ha
        show ι (z • a) ∈ S
        rw [hι_smul]; exact S.mul_mem (intCast_mem S z) ha }
  have hNmem : ∀ c, c ∈ N ↔ ι c ∈ S := fun c => Iff.rfl
  -- every element of S is ι c for a unique c ∈ N
  have hSι : ∀ x ∈ S, ∃ c ∈ N, x = ι c := by
    intro x hx
    obtain ⟨c, hc⟩ := hr x hx
    have : x = ι c := by
      simp only [ι]
      rw [hc, ← hpK, ← mul_assoc, mul_comm ((qK f) _), hcancel, one_mul]
    exact ⟨c, by rw [hNmem, ← this]; exact hx, this⟩
  -- generators of N
  obtain ⟨m, s, hs⟩ := Submodule.fg_iff_exists_fin_generating_family.mp (IsNoetherian.noetherian N)
  have hlatX : ∀ v : Fin n → ℤ, InLattice m n (imatOfFn s) v ↔ v ∈ N := by
    intro v
    rw [← hs, Submodule.mem_span_range_iff_exists_fun]
    unfold InLattice
    rw [imatOfFn_toM]
    constructor
    · rintro ⟨c, rfl⟩
      exact ⟨c, by rw [Matrix.vecMul_eq_sum]; rfl⟩
    · rintro ⟨c, rfl⟩
      exact ⟨c, by rw [Matrix.vecMul_eq_sum]; rfl⟩
  -- N ⊇ p^r·ℤⁿ (because O ⊆ S)
  have hfull : ∀ i : Fin n, ((p : ℤ) ^ r • (1 : Matrix (Fin n) (Fin n) ℤ)) i ∈ N := by
    intro i
    rw [hNmem]
    have : ((p : ℤ) ^ r • (1 : Matrix (Fin n) (Fin n) ℤ)) i = (p : ℤ) ^ r • (Pi.single i 1 : Fin n → ℤ) := by
      funext j
      simp [Matrix.one_apply, Pi.single_apply, eq_comm]
    rw [this, hι_smul]
    have : ((((p : ℤ) ^ r : ℤ)) : ℚ[X] ⧸ Ideal.span {NTV.Alg.modulus f}) = (qK f) ((p : ℚ) ^ r) := by
      rw [hpK]; push_cast; rfl
    rw [this]
    simp only [ι]
    rw [← mul_assoc, hcancel, one_mul]
    exact hOS (el_mem_Olat hC one _)
  have hm : 0 < m := by
    by_contra h0
    have h0' : m = 0 := by omega
    subst h0'
    have := (inLattice_zero_rows _ _).mp ((hlatX _).mpr (hfull ⟨0, hn⟩))
    have := congrFun this ⟨0, hn⟩
    simp at this
    exact hp this.1
  have hdetF : ((p : ℤ) ^ r • (1 : Matrix (Fin n) (Fin n) ℤ)).det ≠ 0 := by
    rw [Matrix.det_smul, Matrix.det_one, mul_one]
    exact pow_ne_zero _ hpz
  obtain ⟨H, _, rH, dH, hlatH⟩ := NTV.Hnf.hnfNew_full (imatOfFn s) m n (imatOfFn_rect s) hm hn _ hdetF
    (fun i => (hlatX _).mpr (hfull i))
  -- the basis of S
  let SM : Matrix (Fin n) (Fin n) ℚ :=
    (((p : ℚ) ^ r)⁻¹) • ((NTV.Hnf.toM n n H).map (Int.castRingHom ℚ) * toM n n O)
  have rS := qmatOfFn_rect SM
  have hSM : ((p : ℚ) ^ r) • toM n n (qmatOfFn SM) = (NTV.Hnf.toM n n H).map (Int.castRingHom ℚ) * toM n n O := by
    rw [qmatOfFn_toM, smul_smul, mul_inv_cancel₀ hpq, one_smul]
  have dS : (toM n n (qmatOfFn SM)).det ≠ 0 := by
    rw [qmatOfFn_toM, Matrix.det_smul, Matrix.det_mul, det_map_cast]
    refine mul_ne_zero (pow_ne_zero _ (inv_ne_zero hpq)) (mul_ne_zero ?_ g.setup.det)
    exact_mod_cast dH
  have SS : Setup f (qmatOfFn SM) n := ⟨g.setup.canon, g.setup.len, g.setup.pos, rS, dS⟩
  -- el_S z = ι (z·H)
  have hel : ∀ z : Fin n → ℤ, el (qK f) (omegaK f (qmatOfFn SM) n) z = ι (z ᵥ* NTV.Hnf.toM n n H) := by
    intro z
    have := el_scaled (f := f) (qmatOfFn SM) O rS g.setup.rect _ hpq _ hSM z
    simp only [ι]
    rw [← this, ← mul_assoc, mul_comm ((qK f) _), hcancel, one_mul]
  have hspan : ∀ x, (∃ z : Fin n → ℤ, x = el (qK f) (omegaK f (qmatOfFn SM) n) z) ↔ x ∈ S := by
    intro x
    constructor
    · rintro ⟨z, rfl⟩
      rw [hel]
      exact (hNmem _).mp ((hlatX _).mp ((hlatH _).mp ⟨z, rfl⟩))
    · intro hx
      obtain ⟨c, hcN, rfl⟩ := hSι x hx
      obtain ⟨z, hz⟩ := (hlatH _).mpr ((hlatX _).mpr hcN)
      exact ⟨z, by rw [hel, hz]⟩
  -- S is closed under multiplication
  have cS : Closed f (qmatOfFn SM) n := by
    apply SS.closed_of_K
    intro i j
    have hi := (hspan _).mp ⟨Pi.single i 1, (el_single i).symm⟩
    have hj := (hspan _).mp ⟨Pi.single j 1, (el_single j).symm⟩
    obtain ⟨z, hz⟩ := (hspan _).mpr (S.mul_mem hi hj)
    exact ⟨z, hz⟩
  -- O ⊆ S as matrices
  have hA : ∃ A : Matrix (Fin n) (Fin n) ℤ, toM n n O = A.map (Int.castRingHom ℚ) * toM n n (qmatOfFn SM) := by
    -- p^r·e_i ∈ lattice(H)
    have hrows : ∀ i : Fin n, InLattice n n H (((p : ℤ) ^ r • (1 : Matrix (Fin n) (Fin n) ℤ)) i) :=
      fun i => (hlatH _).mpr ((hlatX _).mpr (hfull i))
    obtain ⟨C, hCm⟩ := NTV.Hnf.InLattice.exists_mul hrows
    refine ⟨C, ?_⟩
    rw [qmatOfFn_toM]
    simp only [SM]
    rw [Matrix.mul_smul, ← Matrix.mul_assoc, ← Matrix.map_mul, ← hCm]
    have e : (((p : ℤ) ^ r • (1 : Matrix (Fin n) (Fin n) ℤ)).map (Int.castRingHom ℚ)) =
        ((p : ℚ) ^ r) • (1 : Matrix (Fin n) (Fin n) ℚ) := by
      ext i j
      simp only [Matrix.map_apply, Matrix.smul_apply, Matrix.one_apply, smul_eq_mul, Int.coe_castRingHom]
      by_cases hij : i = j <;> simp [hij]
    rw [e, Matrix.smul_mul, Matrix.one_mul, smul_smul, inv_mul_cancel₀ hpq, one_smul]
  obtain ⟨R, hR⟩ := h (qmatOfFn SM) rS dS cS hA ⟨r, NTV.Hnf.toM n n H, hSM⟩
  -- conclude
  intro x hx
  obtain ⟨z, rfl⟩ := (hspan x).mpr hx
  exact ⟨z ᵥ* R, (el_of_mul (qmatOfFn SM) O rS g.setup.rect R hR z).symm⟩

/-- **maximality**: an order that is `p`-maximal at every prime contains every order that contains it -/
theorem maximal_of_pmaximal_all {O : QMat} (g : GoodOrder f n O)
    (h : ∀ p : ℕ, p.Prime → PMaximal f n O p) (S : QMat) (rS : Rect n n S) (dS : (toM n n S).det ≠ 0)
    (cS : Closed f S n) (hA : ∃ A : Matrix (Fin n) (Fin n) ℤ, toM n n O = A.map (Int.castRingHom ℚ) * toM n n S) :
    ∃ R : Matrix (Fin n) (Fin n) ℤ, toM n n S = R.map (Int.castRingHom ℚ) * toM n n O := by
  classical
  obtain ⟨A, hA⟩ := hA
  have SS : Setup f S n := ⟨g.setup.canon, g.setup.len, g.setup.pos, rS, dS⟩
  obtain ⟨_, hCO⟩ := g.setup.ctx_of_closed g.closed
  obtain ⟨_, hCS⟩ := SS.ctx_of_closed cS
  have oneO := g.one.el_one g.setup
  have oneS := (g.one.of_sub ⟨A, hA⟩).el_one SS
  have hle : Olat hCO oneO ≤ Olat hCS oneS := by
    rintro _ ⟨z, rfl⟩
    exact ⟨z ᵥ* A, (el_of_mul O S g.setup.rect rS A hA z).symm⟩
  have hdetA : A.det ≠ 0 := by
    intro h0
    apply g.setup.det
    rw [hA, Matrix.det_mul, det_map_cast, h0]
    simp
  -- det A · S ⊆ O
  have hadj : ((A.det : ℤ) : ℚ) • toM n n S = (A.adjugate).map (Int.castRingHom ℚ) * toM n n O := by
    have e : ((A.det • (1 : Matrix (Fin n) (Fin n) ℤ)).map (Int.castRingHom ℚ)) =
        ((A.det : ℤ) : ℚ) • (1 : Matrix (Fin n) (Fin n) ℚ) := by
      ext i j
      simp only [Matrix.map_apply, Matrix.smul_apply, Matrix.one_apply, smul_eq_mul, Int.coe_castRingHom]
      by_cases hij : i = j <;> simp [hij]
    rw [hA, ← Matrix.mul_assoc, ← Matrix.map_mul, Matrix.adjugate_mul, e, Matrix.smul_mul, Matrix.one_mul]
  have hm : ∀ x ∈ Olat hCS oneS,
      ((A.det.natAbs : ℕ) : ℚ[X] ⧸ Ideal.span {NTV.Alg.modulus f}) * x ∈ Olat hCO oneO := by
    rintro _ ⟨z, rfl⟩
    have hq : ((A.det : ℤ) : ℚ) ≠ 0 := by exact_mod_cast hdetA
    have h1 := el_scaled (f := f) S O rS g.setup.rect _ hq A.adjugate hadj z
    have h2 : (qK f) ((A.det : ℤ) : ℚ) * el (qK f) (omegaK f S n) z ∈ Olat hCO oneO := ⟨_, h1.symm⟩
    have hcast : (qK f) ((A.det : ℤ) : ℚ) = ((A.det : ℤ) : ℚ[X] ⧸ Ideal.span {NTV.Alg.modulus f}) := by simp
    have hnat : ((A.det.natAbs : ℕ) : ℚ[X] ⧸ Ideal.span {NTV.Alg.modulus f}) =
        (((A.det.natAbs : ℕ) : ℤ) : ℚ[X] ⧸ Ideal.span {NTV.Alg.modulus f}) := (Int.cast_natCast _).symm
    rw [hcast] at h2
    rcases Int.natAbs_eq A.det with he | he
    · have e : (((A.det.natAbs : ℕ) : ℤ) : ℚ[X] ⧸ Ideal.span {NTV.Alg.modulus f}) = ((A.det : ℤ) : _) :=
        congrArg Int.cast he.symm
      rw [hnat, e]; exact h2
    · have e' : ((A.det.natAbs : ℕ) : ℤ) = -A.det := by omega
      have e : (((A.det.natAbs : ℕ) : ℤ) : ℚ[X] ⧸ Ideal.span {NTV.Alg.modulus f}) = -((A.det : ℤ) : _) := by
        rw [e']; simp
      rw [hnat, e]
      have := (Olat hCO oneO).neg_mem h2
      convert this using 1
      ring
  have hall : ∀ p : ℕ, p.Prime → PMax (Olat hCO oneO) p :=
    fun p hp => (h p hp).pmaxK hp.ne_zero g hCO oneO
  have hSO := le_of_pmax_all (Olat hCO oneO) hall A.det.natAbs
    (Nat.one_le_iff_ne_zero.mpr (Int.natAbs_ne_zero.mpr hdetA)) (Olat hCS oneS) hle hm
  exact matrix_of_le g rS hCO (fun i => hSO ⟨Pi.single i 1, el_single i⟩)

end NTV.Round2
