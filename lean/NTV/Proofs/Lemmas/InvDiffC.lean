import NTV.Proofs.Lemmas.InvDiffB
import NTV.Proofs.Lemmas.NormResAdj
import NTV.Proofs.Lemmas.NormResCtx
import Mathlib.RingTheory.Trace.Basic
/-! C16 (inverse different), algebra part.

* in the abstract setting of `NTV.TableAbs` (a family `Ω` spanning `K` over ℚ with an integral table `T`) the
  integer matrix `Σ_k Σ_l T i j k · T l k l` computed by `MultTable::trace` on the table entries is Mathlib's
  trace matrix `Algebra.traceMatrix ℚ Ω`;
* in `ℚ[X]/(F)`, `F ≠ 0`, the determinant of the trace matrix of the power basis `1, θ, …, θ^{n−1}` is the
  discriminant of the monic normalisation of `F`, i.e. `disc(F) / lc(F)^{2n−2}` (no irreducibility or
  separability hypothesis). -/
open Polynomial Matrix

namespace NTV.TableAbs

variable {K : Type*} [CommRing K] [Algebra ℚ K] {n : ℕ} [NeZero n]
variable {q : ℚ →+* K} {Ω : Fin n → K} {T : Fin n → Fin n → Fin n → ℤ}

/-- the trace matrix as computed from the table -/
def trZ (T : Fin n → Fin n → Fin n → ℤ) : Matrix (Fin n) (Fin n) ℤ :=
  fun i j => ∑ k, ∑ l, T i j k * T l k l

/-- the trace of `reg T a` is the algebra trace of `Σ a_i Ω_i` -/
theorem Ctx.algebra_trace (h : Ctx q Ω T) (hdim : Module.finrank ℚ K = n) (a : Fin n → ℤ) :
    Algebra.trace ℚ K (psi q Ω (castV a)) = (((reg T a).trace : ℤ) : ℚ) := by
  classical
  rw [Algebra.trace_eq_matrix_trace (h.basis hdim), h.leftMulMatrix_eq hdim, Matrix.trace_transpose]
  simp [Matrix.trace, castM]

/-- the matrix computed by `get_inv_diff` is the trace matrix of `Ω` -/
theorem Ctx.traceMatrix_eq (h : Ctx q Ω T) (hdim : Module.finrank ℚ K = n) :
    Algebra.traceMatrix ℚ Ω = (trZ T).map (Int.castRingHom ℚ) := by
  ext i j
  rw [Algebra.traceMatrix_apply, Algebra.traceForm_apply, h.table i j]
  change Algebra.trace ℚ K (psi q Ω (castV (T i j))) = _
  rw [h.algebra_trace hdim, ← h.trace_eq]
  simp [trZ]

end NTV.TableAbs

namespace NTV.InvDiff

/-- the trace matrix of the power basis of `ℚ[X]/(F)` (any field of characteristic zero): its determinant
is the discriminant of the monic normalisation of `F` -/
theorem det_traceMatrix_powers {k : Type*} [Field k] [CharZero k] (F : k[X]) (hF : F ≠ 0) :
    (Algebra.traceMatrix k (fun i : Fin F.natDegree => (AdjoinRoot.root F) ^ (i : ℕ))).det
      = (F * C F.leadingCoeff⁻¹).discr := by
  set pb := AdjoinRoot.powerBasis hF with hpb
  have hM : (Algebra.leftMulMatrix pb.basis pb.gen).charpoly = F * C F.leadingCoeff⁻¹ := by
    rw [charpoly_leftMulMatrix, AdjoinRoot.minpoly_powerBasis_gen hF]
  have hgen : pb.gen = AdjoinRoot.root F := by rw [hpb, AdjoinRoot.powerBasis_gen]
  have key := hankel_det_eq_discr (Algebra.leftMulMatrix pb.basis pb.gen)
  rw [hM] at key
  rw [← key]
  congr 1
  ext i j
  rw [Algebra.traceMatrix_apply, Algebra.traceForm_apply, ← pow_add,
    Algebra.trace_eq_matrix_trace pb.basis, map_pow, hgen]
  rfl

/-- `disc(a · G) = a^{2n−2} · disc(G)` over a field, `n = deg G ≥ 1` -/
theorem discr_C_mul {k : Type*} [Field k] (a : k) (ha : a ≠ 0) (G : k[X]) (hG : 0 < G.natDegree) :
    (C a * G).discr = a ^ (2 * (G.natDegree - 1)) * G.discr := by
  have hG0 : G ≠ 0 := by intro h; rw [h] at hG; simp at hG
  have hdeg : (C a * G).natDegree = G.natDegree := natDegree_C_mul ha
  have hlc : (C a * G).leadingCoeff = a * G.leadingCoeff := by rw [leadingCoeff_mul, leadingCoeff_C]
  have h1 := resultant_deriv (f := C a * G) (by rw [← natDegree_pos_iff_degree_pos, hdeg]; exact hG)
  have h2 := resultant_deriv (f := G) (by rw [← natDegree_pos_iff_degree_pos]; exact hG)
  rw [hdeg, hlc, derivative_C_mul, resultant_C_mul_left, resultant_C_mul_right, h2] at h1
  have hl : G.leadingCoeff ≠ 0 := leadingCoeff_ne_zero.mpr hG0
  have hs : ((-1 : k) ^ (G.natDegree * (G.natDegree - 1) / 2)) ≠ 0 := pow_ne_zero _ (by simp)
  have hpow : a ^ (G.natDegree - 1) * (a ^ G.natDegree) = a * a ^ (2 * (G.natDegree - 1)) := by
    rw [← pow_add, ← pow_succ']
    congr 1
    omega
  have : (-1 : k) ^ (G.natDegree * (G.natDegree - 1) / 2) * (a * G.leadingCoeff) * (C a * G).discr
      = (-1 : k) ^ (G.natDegree * (G.natDegree - 1) / 2) * (a * G.leadingCoeff)
        * (a ^ (2 * (G.natDegree - 1)) * G.discr) := by
    rw [← h1]
    calc a ^ (G.natDegree - 1) * (a ^ G.natDegree *
          ((-1) ^ (G.natDegree * (G.natDegree - 1) / 2) * G.leadingCoeff * G.discr))
        = (a ^ (G.natDegree - 1) * a ^ G.natDegree) *
          ((-1) ^ (G.natDegree * (G.natDegree - 1) / 2) * G.leadingCoeff * G.discr) := by ring
      _ = _ := by rw [hpow]; ring
  exact mul_left_cancel₀ (mul_ne_zero hs (mul_ne_zero ha hl)) this

/-- the discriminant commutes with an injective map into a domain (degree ≥ 1) -/
theorem discr_map_of_injective {R S : Type*} [CommRing R] [CommRing S] [IsDomain S] (φ : R →+* S)
    (hφ : Function.Injective φ) (f : R[X]) (hf : 0 < f.natDegree) :
    (f.map φ).discr = φ f.discr := by
  have hdeg : (f.map φ).natDegree = f.natDegree := natDegree_map_eq_of_injective hφ f
  have hlc : (f.map φ).leadingCoeff = φ f.leadingCoeff := leadingCoeff_map_of_injective hφ f
  have hf0 : f ≠ 0 := by intro h; rw [h] at hf; simp at hf
  have h1 := resultant_deriv (f := f.map φ) (by rw [← natDegree_pos_iff_degree_pos, hdeg]; exact hf)
  have h2 := congrArg φ (resultant_deriv (f := f) (by rw [← natDegree_pos_iff_degree_pos]; exact hf))
  rw [hdeg, hlc, derivative_map, resultant_map_map, h2] at h1
  simp only [map_mul, map_pow, map_neg, map_one] at h1
  have hl : φ f.leadingCoeff ≠ 0 := by
    rw [Ne, map_eq_zero_iff φ hφ]; exact leadingCoeff_ne_zero.mpr hf0
  have hs : ((-1 : S) ^ (f.natDegree * (f.natDegree - 1) / 2)) ≠ 0 := pow_ne_zero _ (by simp)
  exact (mul_left_cancel₀ (mul_ne_zero hs hl) h1).symm

end NTV.InvDiff
