import NTV.Proofs.Lemmas.HnfTotal
import Mathlib.LinearAlgebra.Matrix.NonsingularInverse
namespace NTV.Hnf
open Matrix

/-- Rows of a matrix in HNF shape are ℤ-linearly independent (echelon argument on the largest
index with a non-zero coefficient). Stated for an n×m matrix `W` whose rows `k..n-1` carry the pivots. -/
theorem echelon_indep {n m : Nat} (W : Matrix (Fin n) (Fin m) ℤ) (k : Nat) (pv : List Nat)
    (hlen : pv.length = n - k) (hk : k ≤ n)
    (hincr : pv.Pairwise (· < ·)) (hlt : ∀ p ∈ pv, p < m)
    (hpos : ∀ t (ht : t < pv.length), ∀ (hr : k + t < n), W ⟨k + t, hr⟩ ⟨pv[t], hlt _ (List.getElem_mem ht)⟩ ≠ 0)
    (hlast : ∀ t (ht : t < pv.length), ∀ (hr : k + t < n), ∀ col : Fin m, pv[t] < col.val → W ⟨k + t, hr⟩ col = 0)
    (hzero : ∀ r : Fin n, r.val < k → ∀ col, W r col = 0)
    (c : Fin n → ℤ) (hc : c ᵥ* W = 0) : ∀ r : Fin n, k ≤ r.val → c r = 0 := by
  -- strong downward induction: show c r = 0 for all r ≥ k, from the top
  by_contra hne
  simp only [not_forall] at hne
  obtain ⟨r0, hr0k, hr0⟩ := hne
  -- the largest index with non-zero coefficient
  obtain ⟨r, hrmem, hrmax⟩ := Finset.exists_max_image (Finset.univ.filter (fun r : Fin n => k ≤ r.val ∧ c r ≠ 0))
    (fun r => r.val) ⟨r0, by simp [hr0k, hr0]⟩
  simp only [Finset.mem_filter, Finset.mem_univ, true_and] at hrmem hrmax
  obtain ⟨hrk, hcr⟩ := hrmem
  obtain ⟨t, hrt⟩ : ∃ t, k + t = r.val := ⟨r.val - k, by omega⟩
  have htlt : t < pv.length := by rw [hlen]; omega
  set p : Fin m := ⟨pv[t], hlt _ (List.getElem_mem htlt)⟩ with hp
  have hcol := congrFun hc p
  simp only [Matrix.vecMul, dotProduct, Pi.zero_apply] at hcol
  rw [Finset.sum_eq_single r] at hcol
  · have hW : W r p ≠ 0 := by
      have := hpos t htlt (by omega)
      have e : (⟨k + t, by omega⟩ : Fin n) = r := Fin.ext hrt
      rw [e] at this; exact this
    exact (mul_ne_zero hcr hW) hcol
  · intro r' _ hne'
    by_cases hr'k : r'.val < k
    · rw [hzero r' hr'k]; ring
    · by_cases hlt' : r'.val < r.val
      · -- earlier pivot row vanishes at column p
        obtain ⟨t', hrt'⟩ : ∃ t', k + t' = r'.val := ⟨r'.val - k, by omega⟩
        have ht'lt : t' < pv.length := by rw [hlen]; omega
        have hpiv : pv[t'] < pv[t] := by
          have := List.pairwise_iff_getElem.mp hincr t' t ht'lt htlt (by omega)
          exact this
        have := hlast t' ht'lt (by omega) p (by simpa [hp] using hpiv)
        have e : (⟨k + t', by omega⟩ : Fin n) = r' := Fin.ext (by omega)
        rw [e] at this; rw [this]; ring
      · -- later rows have zero coefficient by maximality
        have hgt : r.val < r'.val := by
          rcases Nat.lt_or_ge r.val r'.val with h | h
          · exact h
          · exfalso; apply hne'; apply Fin.ext; omega
        have : c r' = 0 := by
          by_contra hcr'
          have := hrmax r' ⟨by omega, hcr'⟩
          omega
        rw [this]; ring
  · intro h; exact absurd (Finset.mem_univ r) h

end NTV.Hnf

namespace NTV.Hnf
open Matrix

/-- Saturation of the kernel (abstract form): if `U` is unimodular, `U * A = W`, the first `k` rows of `W`
vanish and the remaining rows are in echelon shape, then every integer vector `u` with `u * A = 0` is an
integer combination of the first `k` rows of `U`. -/
theorem kernel_saturated_abs {n m : Nat} (U : Matrix (Fin n) (Fin n) ℤ) (A W : Matrix (Fin n) (Fin m) ℤ)
    (hU : IsUnit U.det) (hUA : U * A = W) (k : Nat) (pv : List Nat)
    (hlen : pv.length = n - k) (hk : k ≤ n)
    (hincr : pv.Pairwise (· < ·)) (hlt : ∀ p ∈ pv, p < m)
    (hpos : ∀ t (ht : t < pv.length), ∀ (hr : k + t < n), W ⟨k + t, hr⟩ ⟨pv[t], hlt _ (List.getElem_mem ht)⟩ ≠ 0)
    (hlast : ∀ t (ht : t < pv.length), ∀ (hr : k + t < n), ∀ col : Fin m, pv[t] < col.val → W ⟨k + t, hr⟩ col = 0)
    (hzero : ∀ r : Fin n, r.val < k → ∀ col, W r col = 0)
    (u : Fin n → ℤ) (hu : u ᵥ* A = 0) :
    ∃ c : Fin n → ℤ, (∀ r : Fin n, k ≤ r.val → c r = 0) ∧ c ᵥ* U = u := by
  refine ⟨u ᵥ* U⁻¹, ?_, ?_⟩
  · apply echelon_indep W k pv hlen hk hincr hlt hpos hlast hzero
    rw [← hUA, ← Matrix.vecMul_vecMul, Matrix.vecMul_vecMul u, Matrix.nonsing_inv_mul _ hU]
    simpa using hu
  · rw [Matrix.vecMul_vecMul, Matrix.nonsing_inv_mul _ hU]; simp

/-- and the first `k` rows of `U` do lie in the kernel -/
theorem kernel_rows_abs {n m : Nat} (U : Matrix (Fin n) (Fin n) ℤ) (A W : Matrix (Fin n) (Fin m) ℤ)
    (hUA : U * A = W) (k : Nat) (hzero : ∀ r : Fin n, r.val < k → ∀ col, W r col = 0)
    (r : Fin n) (hr : r.val < k) : U r ᵥ* A = 0 := by
  have : (U * A) r = U r ᵥ* A := Matrix.mul_apply_eq_vecMul U A r
  rw [← this, hUA]; ext col; exact hzero r hr col

end NTV.Hnf
