import NTV.Model.Inv
import Mathlib.Tactic.Ring
import Mathlib.Tactic.Linarith
import Mathlib.Data.Int.GCD
namespace NTV

theorem extgcd_spec (a b : Int) :
    (extgcd a b).1 = (extgcd a b).2.1 * a + (extgcd a b).2.2 * b ∧
    (extgcd a b).1.natAbs = Int.gcd a b := by
  fun_induction extgcd a b with
  | case1 a => simp
  | case2 a b h q r g x y heq ih =>
    simp only [heq] at ih
    obtain ⟨ih1, ih2⟩ := ih
    simp only
    have hr : r = a - b * q := by simp [r, q, Int.tmod_def]
    constructor
    · rw [ih1, hr]; ring
    · rw [ih2, hr]
      have : a - b * q = a + b * (-q) := by ring
      rw [this, Int.gcd_comm b, Int.gcd_add_mul_left_left b a (-q)]

theorem zmod_spec (x m : Int) (hm : 0 < m) : 0 ≤ zmod x m ∧ zmod x m < m ∧ (m ∣ zmod x m - x) := by
  unfold zmod
  have h1 := Int.tmod_lt_of_pos x hm
  have h2 := Int.lt_tmod_of_pos x hm
  have h3 : m ∣ x.tmod m - x := Int.dvd_tmod_sub_self
  simp only
  split
  · refine ⟨by omega, by omega, ?_⟩
    have : x.tmod m + m - x = (x.tmod m - x) + m := by ring
    rw [this]; exact Int.dvd_add h3 (Int.dvd_refl m)
  · exact ⟨by omega, h1, h3⟩

/-- C19 (modular inverse), model level, all integers a and all moduli m ≥ 1. -/
theorem inv_spec (a m : Int) (hm : 1 ≤ m) :
    (Int.gcd a m = 1 → ∃ x, inv a m = .ok x ∧ 0 ≤ x ∧ x < m ∧ m ∣ a * x - 1) ∧
    (Int.gcd a m ≠ 1 → inv a m = .error (Int.gcd a m)) := by
  obtain ⟨hb, hg⟩ := extgcd_spec a m
  unfold inv
  generalize extgcd a m = t at hb hg
  obtain ⟨g, x, y⟩ := t
  simp only at hb hg ⊢
  constructor
  · intro h1
    rw [h1] at hg
    simp only [hg, ne_eq, not_true_eq_false, ↓reduceIte]
    refine ⟨_, rfl, ?_⟩
    obtain ⟨z0, z1, z2⟩ := zmod_spec (x * g) m (by omega)
    refine ⟨z0, z1, ?_⟩
    have hgg : g * g = 1 := by
      rcases Int.natAbs_eq g with h | h <;> rw [h, hg] <;> simp
    have : a * zmod (x * g) m - 1 = a * (zmod (x * g) m - x * g) + (-(y * g)) * m := by
      have : a * (x * g) - 1 = (-(y*g)) * m := by
        have : a * (x * g) = g * (x * a) := by ring
        rw [this]
        have hxa : x * a = g - y * m := by rw [hb]; ring
        rw [hxa]; 
        have : g * (g - y * m) = g * g - y * g * m := by ring
        rw [this, hgg]; ring
      linarith
    rw [this]
    exact Int.dvd_add (Dvd.dvd.mul_left z2 a) (Dvd.intro_left _ rfl)
  · intro h1
    have : g.natAbs ≠ 1 := by rw [hg]; exact h1
    simp [hg, h1]

end NTV
