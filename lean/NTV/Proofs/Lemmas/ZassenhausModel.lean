import NTV.Model.PolyZ
import NTV.Proofs.Lemmas.PolyZProofs1
import NTV.Proofs.Lemmas.ZassenhausRecomb
/-! # Berlekamp–Zassenhaus, part 3: the subset enumeration of the model
bit masks and sub-lists, the product of a subset modulo p^e, the symmetric residue, and what a run of
`subsetLoop` establishes (`subsetLoop_some`, `subsetLoop_none`). -/
open Polynomial
namespace NTV.PolyZ
open NTV.PolyG NTV.PolyMod NTV.Hensel

/-! ### bit masks -/

/-- the entries selected by a bit mask (bit i ↔ entry i) -/
def selBits {α : Type} : List α → Nat → List α
  | [], _ => []
  | f :: fs, bits => if bits % 2 = 1 then f :: selBits fs (bits / 2) else selBits fs (bits / 2)

/-- the mask of the entries satisfying `p` -/
def maskOf {α : Type} (p : α → Bool) : List α → Nat
  | [] => 0
  | f :: fs => (if p f then 1 else 0) + 2 * maskOf p fs

theorem selBits_perm : ∀ (L : List Poly) (bits : Nat), L.Perm (selBits L bits ++ removeBits L bits)
  | [], _ => by simp [selBits, removeBits]
  | f :: fs, bits => by
    simp only [selBits, removeBits]
    split
    · simpa using selBits_perm fs (bits / 2)
    · exact ((selBits_perm fs (bits / 2)).cons f).trans List.perm_middle.symm

theorem selBits_zero {α : Type} : ∀ (L : List α), selBits L 0 = []
  | [] => rfl
  | f :: fs => by simp [selBits, selBits_zero fs]

theorem countOnes_eq {α : Type} : ∀ (L : List α) (fuel bits : Nat), bits < 2 ^ L.length → L.length ≤ fuel →
    countOnes fuel bits = (selBits L bits).length
  | [], fuel, bits, hb, _ => by
    have : bits = 0 := by simpa using hb
    subst this
    cases fuel <;> simp [countOnes, selBits]
  | f :: fs, 0, bits, _, hf => by simp at hf
  | f :: fs, fuel + 1, bits, hb, hf => by
    simp only [countOnes]
    by_cases h0 : bits = 0
    · subst h0; simp [selBits_zero]
    · simp only [h0, ↓reduceIte, selBits]
      have hb' : bits / 2 < 2 ^ fs.length := by
        rw [List.length_cons, pow_succ] at hb; omega
      rw [countOnes_eq fs fuel (bits / 2) hb' (by simpa using hf)]
      rcases Nat.mod_two_eq_zero_or_one bits with h | h <;> (simp [h]; try omega)

theorem selBits_maskOf {α : Type} (p : α → Bool) : ∀ (L : List α), selBits L (maskOf p L) = L.filter p
  | [] => rfl
  | f :: fs => by
    simp only [maskOf, selBits, List.filter_cons]
    by_cases hp : p f
    · have h1 : (1 + 2 * maskOf p fs) % 2 = 1 := by omega
      have h2 : (1 + 2 * maskOf p fs) / 2 = maskOf p fs := by omega
      simp only [hp, ↓reduceIte, h1, h2, selBits_maskOf p fs]
    · have h1 : (0 + 2 * maskOf p fs) % 2 ≠ 1 := by omega
      have h2 : (0 + 2 * maskOf p fs) / 2 = maskOf p fs := by omega
      simp only [hp, Bool.false_eq_true, ↓reduceIte, h1, h2, selBits_maskOf p fs]

theorem maskOf_lt {α : Type} (p : α → Bool) : ∀ (L : List α), maskOf p L < 2 ^ L.length
  | [] => by simp [maskOf]
  | f :: fs => by
    have := maskOf_lt p fs
    simp only [maskOf, List.length_cons, pow_succ]
    split <;> omega

/-! ### the product of a subset -/

theorem subsetProd_cong (pe : Int) : ∀ (L : List Poly) (bits : Nat) (prod : Poly),
    PCong pe (toPoly (subsetProd pe L bits prod)) (toPoly prod * ((selBits L bits).map toPoly).prod)
  | [], _, prod => by simpa [subsetProd, selBits] using PCong.refl pe (toPoly prod)
  | f :: fs, bits, prod => by
    simp only [subsetProd, selBits]
    split
    · refine (subsetProd_cong pe fs (bits / 2) _).trans ?_
      have h1 : PCong pe (toPoly (polyMod (mul prod f) pe)) (toPoly prod * toPoly f) := by
        have := polyMod_cong (mul prod f) pe
        rwa [toPoly_mul] at this
      have := PCong.mul h1 (PCong.refl pe ((selBits fs (bits / 2)).map toPoly).prod)
      simpa [mul_assoc] using this
    · exact subsetProd_cong pe fs (bits / 2) prod

/-! ### the symmetric residue -/

/-- `prod = poly_mod(&(&prod + &bias), &pe) - bias` with `bias = [pe2; deg prod + 1]` -/
def symres (pe pe2 : Int) (prod : Poly) : Poly :=
  sub (polyMod (add prod (fromRaw (List.replicate (degU prod + 1) pe2))) pe)
    (fromRaw (List.replicate (degU prod + 1) pe2))

theorem canon_symres (pe pe2 : Int) (prod : Poly) : Canon (symres pe pe2 prod) :=
  canon_sub _ _ (canon_fromRaw _) (canon_fromRaw _)

theorem symres_cong (pe pe2 : Int) (prod : Poly) : PCong pe (toPoly (symres pe pe2 prod)) (toPoly prod) := by
  unfold symres
  rw [toPoly_sub]
  have h1 := polyMod_cong (add prod (fromRaw (List.replicate (degU prod + 1) pe2))) pe
  rw [toPoly_add] at h1
  have := PCong.sub h1 (PCong.refl pe (toPoly (fromRaw (List.replicate (degU prod + 1) pe2))))
  simpa using this

theorem getD_replicate (n : Nat) (x : Int) (j : Nat) : (List.replicate n x).getD j 0 = if j < n then x else 0 := by
  simp only [List.getD_eq_getElem?_getD, List.getElem?_replicate]
  split <;> simp

theorem coeff_polyMod (f : Poly) (p : Int) (j : Nat) : (toPoly (polyMod f p)).coeff j = Int.fmod (f.getD j 0) p := by
  unfold polyMod
  rw [toPoly_fromRaw, coeff_toPoly]
  simp only [List.getD_eq_getElem?_getD, List.getElem?_map]
  cases f[j]? <;> simp

/-- the coefficients of the symmetric residue lie in [-pe2, pe - pe2) -/
theorem symres_range (pe pe2 : Int) (hpe : 0 < pe) (h0 : 0 ≤ pe2) (h1 : pe2 < pe) (prod : Poly) (hne : prod ≠ [])
    (j : Nat) : -pe2 ≤ (toPoly (symres pe pe2 prod)).coeff j ∧ (toPoly (symres pe pe2 prod)).coeff j < pe - pe2 := by
  unfold symres
  have hd : degU prod + 1 = prod.length := by
    have he : prod.isEmpty = false := by cases prod <;> simp_all
    have := List.length_pos_of_ne_nil hne
    simp only [degU, he, Bool.false_eq_true, ↓reduceIte]; omega
  rw [hd, toPoly_sub, coeff_sub, coeff_polyMod, toPoly_fromRaw, coeff_toPoly, getD_replicate,
    ← coeff_toPoly, toPoly_add, coeff_add, toPoly_fromRaw, coeff_toPoly, coeff_toPoly, getD_replicate]
  by_cases hj : j < prod.length
  · simp only [hj, ↓reduceIte]
    have := Int.fmod_nonneg_of_pos (prod.getD j 0 + pe2) hpe
    have := Int.fmod_lt_of_pos (prod.getD j 0 + pe2) hpe
    omega
  · simp only [hj, ↓reduceIte, add_zero, sub_zero]
    rw [getD_of_length_le prod j (by omega)]
    simp; omega

/-- two polynomials congruent modulo `pe` with coefficients in the same window of length `pe` are equal -/
theorem eq_of_cong_of_range (pe lo : Int) (F G : ℤ[X]) (hc : PCong pe F G)
    (hF : ∀ j, lo ≤ F.coeff j ∧ F.coeff j < lo + pe) (hG : ∀ j, lo ≤ G.coeff j ∧ G.coeff j < lo + pe) : F = G := by
  ext j
  have hd := (pcong_iff pe F G).mp hc j
  rw [coeff_sub] at hd
  obtain ⟨k, hk⟩ := hd
  have := hF j; have := hG j
  have hk0 : k = 0 := by
    by_contra hk0
    rcases lt_or_gt_of_ne hk0 with h | h
    · have : pe * k ≤ pe * (-1) := Int.mul_le_mul_of_nonneg_left (by omega) (by omega)
      omega
    · have : pe * 1 ≤ pe * k := Int.mul_le_mul_of_nonneg_left (by omega) (by omega)
      omega
  rw [hk0, mul_zero] at hk
  omega

/-! ### what a run of `subsetLoop` establishes -/

/-- the candidate tested for the mask `bits` -/
def cand (pe pe2 : Int) (lca : Int) (lifted : List Poly) (bits : Nat) : Poly :=
  symres pe pe2 (subsetProd pe lifted bits (fromRaw [lca]))

/-- a successful search: the mask found, its candidate divides `lc(a)·a`, the output is the primitive part
of the candidate, the exact quotient and the remaining lifted factors -/
theorem subsetLoop_some (pe pe2 : Int) (a : List Int) (lca : Int) (lifted : List Poly) (d : Nat) :
    ∀ (left b : Nat) (pp a' : List Int) (l' : List Poly),
    subsetLoop pe pe2 a lca lifted d left b = .ok (some (pp, a', l')) →
    ∃ bits q, b ≤ bits ∧ bits < b + left ∧ countOnes 64 bits = d ∧
      divExact (polyMul a lca) (cand pe pe2 lca lifted bits) = some q ∧
      pp = (contPP (cand pe pe2 lca lifted bits)).2 ∧ divExact a pp = some a' ∧ l' = removeBits lifted bits := by
  intro left
  induction left with
  | zero => intro b pp a' l' h; simp [subsetLoop, pure, Except.pure] at h
  | succ left ih =>
    intro b pp a' l' h
    simp only [subsetLoop] at h
    split at h
    · obtain ⟨bits, q, h1, h2, h3⟩ := ih _ _ _ _ h
      exact ⟨bits, q, by omega, by omega, h3⟩
    · rename_i hcnt
      split at h
      · simp [throw, throwThe, MonadExceptOf.throw] at h
      · split at h
        · obtain ⟨bits, q, h1, h2, h3⟩ := ih _ _ _ _ h
          exact ⟨bits, q, by omega, by omega, h3⟩
        · rename_i q hq
          simp only [bind, Except.bind, divExactExpect] at h
          split at h
          · cases h
          · rename_i a1 ha1
            split at ha1
            · rename_i q1 hq1
              simp only [pure, Except.pure, Except.ok.injEq, Option.some.injEq, Prod.mk.injEq] at h ha1
              obtain ⟨rfl, rfl, rfl⟩ := h
              subst ha1
              exact ⟨b, q, le_refl _, by omega, not_not.mp hcnt, hq, rfl, hq1, rfl⟩
            · simp [throw, throwThe, MonadExceptOf.throw] at ha1

/-- an exhausted search: every mask of the range with `d` bits set had a candidate that does not divide -/
theorem subsetLoop_none (pe pe2 : Int) (a : List Int) (lca : Int) (lifted : List Poly) (d : Nat) :
    ∀ (left b : Nat), subsetLoop pe pe2 a lca lifted d left b = .ok none →
    ∀ bits, b ≤ bits → bits < b + left → countOnes 64 bits = d →
      subsetProd pe lifted bits (fromRaw [lca]) ≠ [] ∧
      divExact (polyMul a lca) (cand pe pe2 lca lifted bits) = none := by
  intro left
  induction left with
  | zero => intro b _ bits h1 h2; omega
  | succ left ih =>
    intro b h bits h1 h2 hc
    simp only [subsetLoop] at h
    split at h
    · rename_i hcnt
      have : bits ≠ b := by rintro rfl; exact hcnt hc
      exact ih _ h bits (by omega) (by omega) hc
    · split at h
      · simp [throw, throwThe, MonadExceptOf.throw] at h
      · rename_i hne
        split at h
        · rename_i hq
          by_cases hb : bits = b
          · subst hb
            refine ⟨?_, hq⟩
            intro h0; rw [h0] at hne; simp at hne
          · exact ih _ h bits (by omega) (by omega) hc
        · simp only [bind, Except.bind, divExactExpect] at h
          split at h
          · cases h
          · simp [pure, Except.pure] at h

end NTV.PolyZ
