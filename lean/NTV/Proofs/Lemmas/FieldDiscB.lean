import NTV.Proofs.Lemmas.MaxOrderClosedC
/-! # A maximal order is the set of integral elements (abstract part, then the model).

`Olat` (the ℤ-span of a ℚ-basis `Ω` of the field `K`, `Ω_0 = 1`, closed under multiplication through an integral
table) that is `p`-maximal at every prime is exactly `{x ∈ K | x integral over ℤ}`. -/
open Matrix Finset Polynomial
namespace NTV.FieldDisc
open NTV.Ord NTV.PolyG NTV.Round2 NTV.IdealP NTV.R2Abs NTV.MaxOrd
open NTV.TableAbs (Ctx psi castV)
open NTV.RowOps (toM Rect ent)
open NTV.Alg (modulus cls cls_eq_iff)

section abstract
variable {K : Type*} [Field K] {n : ℕ} {q : ℚ →+* K} {Ω : Fin n → K} {t : NTV.Ord.Table}

/-- every element of the lattice is integral over ℤ (it lies in a subring that is a finite ℤ-module) -/
theorem isIntegral_of_mem_Olat (hC : Ctx q Ω (tabT t n)) (T : TableRing t n) (hΩ : Ω ⟨0, T.pos⟩ = 1)
    (one : ∃ e : Fin n → ℤ, el q Ω e = 1) (x : K) (hx : x ∈ Olat hC one) : IsIntegral ℤ x := by
  rw [← phiHom_range hC T hΩ one] at hx
  obtain ⟨y, rfl⟩ := hx
  exact map_isIntegral_int (phiHom hC T hΩ) (Algebra.IsIntegral.isIntegral (R := ℤ) y)

/-- every element of `K` integral over ℤ lies in a lattice that is `p`-maximal at every prime -/
theorem mem_Olat_of_isIntegral (hC : Ctx q Ω (tabT t n)) (T : TableRing t n) (hΩ : Ω ⟨0, T.pos⟩ = 1)
    (one : ∃ e : Fin n → ℤ, el q Ω e = 1) (hspan : ∀ x : K, ∃ c : Fin n → ℚ, psi q Ω c = x)
    (hmax : ∀ p : ℕ, p.Prime → PMax (Olat hC one) p) (x : K) (hx : IsIntegral ℤ x) :
    x ∈ Olat hC one := by
  let _ : Algebra (RT T) K := (phiHom hC T hΩ).toAlgebra
  have halg : algebraMap (RT T) K = phiHom hC T hΩ := rfl
  have hrange : (algebraMap (RT T) K).range = Olat hC one := by rw [halg]; exact phiHom_range hC T hΩ one
  rw [← hrange]
  apply mem_range_of_isIntegral (R := RT T) (K := K)
  · intro x
    obtain ⟨c, rfl⟩ := hspan x
    obtain ⟨d, hd, z, hz⟩ := clear_den c
    refine ⟨d, hd, ?_⟩
    rw [hrange]
    refine ⟨z, ?_⟩
    have e1 : ((d : ℕ) : K) = q (d : ℚ) := by rw [map_natCast]
    rw [e1, ← NTV.TableAbs.psi_smul]
    unfold el
    congr 1
    funext i
    simp only [NTV.TableAbs.castV, Pi.smul_apply, smul_eq_mul]
    exact (hz i).symm
  · rw [hrange]
    exact le_of_pmax_all (Olat hC one) hmax
  · exact hx.tower_top

end abstract

end NTV.FieldDisc
