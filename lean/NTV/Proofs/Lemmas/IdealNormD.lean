import NTV.Proofs.Lemmas.IdealNormC
import NTV.Proofs.Lemmas.IdealProofsD
import Mathlib.NumberTheory.Zsqrtd.GaussianInt
import Mathlib.RingTheory.PrincipalIdealDomain
/-! # Ideal norm, part D: non-vacuity of the Dedekind hypothesis. The ring of the table of ℤ[i]
(`f = x² + 1`, basis 1, θ) is isomorphic to Mathlib's `GaussianInt`, a Euclidean domain, hence a Dedekind
domain. -/
namespace NTV.IdealP
open NTV.Hnf NTV.Ord

/-- the multiplication table of ℤ[i] (the value of `getMultTable [[1,0],[0,1]] [1,0,1]`, see C14) -/
def tGauss : Table := [[[1, 0], [0, 1]], [[0, 1], [-1, 0]]]

theorem tGauss_ring : TableRing tGauss 2 := TableRing.of_basis (by decide +kernel)

theorem star_tGauss (x y : Fin 2 → ℤ) :
    star tGauss 2 x y = ![x 0 * y 0 - x 1 * y 1, x 0 * y 1 + x 1 * y 0] := by
  funext k
  fin_cases k
  · simp [star, Fin.sum_univ_two, tent, tGauss]; ring
  · simp [star, Fin.sum_univ_two, tent, tGauss]

/-- `RT tGauss_ring ≃+* ℤ[i]`, (a, b) ↦ a + b i -/
def gaussEquiv : RT tGauss_ring ≃+* GaussianInt where
  toFun := fun x => ⟨RT.toVec tGauss_ring x 0, RT.toVec tGauss_ring x 1⟩
  invFun := fun z => RT.ofVec tGauss_ring ![z.re, z.im]
  left_inv := fun x => by
    show RT.ofVec tGauss_ring ![RT.toVec tGauss_ring x 0, RT.toVec tGauss_ring x 1] = x
    apply (RT.toVec tGauss_ring).injective
    rw [RT.toVec_ofVec]
    funext k; fin_cases k <;> rfl
  right_inv := fun z => by
    apply Zsqrtd.ext <;> simp
  map_mul' := fun x y => by
    apply Zsqrtd.ext
    · simp only [RT.toVec_mul, star_tGauss, Zsqrtd.re_mul]
      simp; ring
    · simp only [RT.toVec_mul, star_tGauss, Zsqrtd.im_mul]
      simp
  map_add' := fun x y => by
    apply Zsqrtd.ext <;> simp

instance : IsDomain (RT tGauss_ring) := MulEquiv.isDomain GaussianInt gaussEquiv.toMulEquiv

instance : IsPrincipalIdealRing (RT tGauss_ring) :=
  IsPrincipalIdealRing.of_surjective gaussEquiv.symm.toRingHom gaussEquiv.symm.surjective

/-- the ring of the table of ℤ[i] is a Dedekind domain -/
instance gauss_isDedekindDomain : IsDedekindDomain (RT tGauss_ring) := inferInstance

end NTV.IdealP
