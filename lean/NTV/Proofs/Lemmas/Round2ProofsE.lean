import NTV.Proofs.Lemmas.Round2ProofsD
/-! `round2::one_step` enlarges the order: containment, index `p^howmany`, discriminant. -/
open Matrix Finset
namespace NTV.Round2
open NTV.Ord NTV.PolyG
open NTV.RowOps (toM Rect ent)

/-- `o'` is a non-singular stored order containing (the module of) `o` with index `i ≥ 1` -/
structure Ext (n : Nat) (o o' : QMat) (i : Int) : Prop where
  rect : Rect n n o'
  det : (toM n n o').det ≠ 0
  stored : fromBasis o' = .ok o'
  sub : ∃ P : Matrix (Fin n) (Fin n) ℤ, toM n n o = P.map (Int.castRingHom ℚ) * toM n n o'
  idx : index o' o = .ok i
  pos : 1 ≤ i

theorem Ext.refl (n : Nat) (o : QMat) (ho : Rect n n o) (hd : (toM n n o).det ≠ 0)
    (hst : fromBasis o = .ok o) : Ext n o o 1 where
  rect := ho
  det := hd
  stored := hst
  sub := ⟨1, by simp⟩
  idx := by rw [index_ok_iff o o n ho ho hd]; simp
  pos := le_refl 1

theorem Ext.trans {n : Nat} {o o' o'' : QMat} {i j : Int} (ho : Rect n n o) (h1 : Ext n o o' i)
    (h2 : Ext n o' o'' j) : Ext n o o'' (i * j) where
  rect := h2.rect
  det := h2.det
  stored := h2.stored
  sub := by
    obtain ⟨P, hP⟩ := h1.sub
    obtain ⟨Q, hQ⟩ := h2.sub
    exact ⟨P * Q, by rw [hP, hQ, Matrix.map_mul, Matrix.mul_assoc]⟩
  idx := by
    have a := (index_ok_iff o' o n h1.rect ho h1.det i).mp h1.idx
    have b := (index_ok_iff o'' o' n h2.rect h1.rect h2.det j).mp h2.idx
    rw [index_ok_iff o'' o n h2.rect ho h2.det, a, b]
    push_cast; ring
  pos := by have := h1.pos; have := h2.pos; nlinarith

theorem howmanyLoop_spec (p : Int) (hp : 0 < p) (fuel : Nat) (i : Int) (h0 h : Nat) (hi : 1 ≤ i)
    (H : howmanyLoop p fuel i h0 = .ok h) : h0 ≤ h ∧ i = p ^ (h - h0) := by
  induction fuel generalizing i h0 with
  | zero =>
    unfold howmanyLoop at H
    split at H
    · cases H
    · cases H
      exact ⟨le_refl _, by simp; omega⟩
  | succ fuel ih =>
    unfold howmanyLoop at H
    split at H
    · rename_i hgt
      obtain ⟨r, hr, H⟩ := (bind_ok _ _ _).mp H
      unfold remX at hr
      rw [if_neg (by omega)] at hr
      cases hr
      split at H
      · cases H
      · rename_i hr0
        have hr0' : Int.tmod i p = 0 := by simpa using hr0
        have hdiv : p * Int.tdiv i p = i := by
          have := Int.mul_tdiv_add_tmod i p
          rw [hr0', add_zero] at this
          exact this
        have hq : 1 ≤ Int.tdiv i p := by
          by_contra hq
          have : Int.tdiv i p ≤ 0 := by omega
          have : p * Int.tdiv i p ≤ 0 := Int.mul_nonpos_of_nonneg_of_nonpos hp.le this
          omega
        obtain ⟨hle, hpow⟩ := ih (Int.tdiv i p) (h0 + 1) hq H
        refine ⟨by omega, ?_⟩
        rw [← hdiv, hpow, ← pow_succ']
        congr 1
        omega
    · cases H
      exact ⟨le_refl _, by simp; omega⟩

/-- the core of C06: a successful `one_step` on a non-singular stored order `o` returns a non-singular stored
order containing `o` with index exactly `p^howmany` -/
theorem oneStep_ext (f : List Int) (o : Order) (p : Int) (o' : Order) (h : Nat) (hdeg : 0 < degU f)
    (ho : Rect (degU f) (degU f) o) (hdet : (toM (degU f) (degU f) o).det ≠ 0) (hst : fromBasis o = .ok o)
    (hp : 0 < p) (H : oneStep f o p = .ok (o', h)) : Ext (degU f) o o' (p ^ h) := by
  obtain ⟨up, u, r, nb, index, rup, hu, _, hnb, hnewO, hindex, hhm⟩ := oneStep_inv f o p o' h hdeg H
  generalize degU f = n at *
  have hp0 : p ≠ 0 := by omega
  have hpq : (p : ℚ) ≠ 0 := by exact_mod_cast hp0
  obtain ⟨ru, du, C, hC⟩ := lastHnf_spec n r hdeg p hp0 up u rup hu
  obtain ⟨rnb, hnbM⟩ := newBasisM_spec n p u o nb ru ho hnb
  have dnb : (toM n n nb).det ≠ 0 := by
    rw [hnbM, Matrix.det_smul, Matrix.det_mul, det_map_cast]
    refine mul_ne_zero (pow_ne_zero _ (inv_ne_zero hpq)) (mul_ne_zero ?_ hdet)
    exact_mod_cast du
  obtain ⟨O, hO, rO, U, hU, hrel⟩ := fromBasis_spans nb n hdeg rnb dnb
  rw [hnewO] at hO
  injection hO with hO
  subst hO
  have dO : (toM n n o').det ≠ 0 := by
    rw [hrel, Matrix.det_mul, det_map_cast]
    refine mul_ne_zero ?_ dnb
    exact_mod_cast hU.ne_zero
  have sO : fromBasis o' = .ok o' := by
    have := hnfReduce_canonical nb o' n hdeg rnb rO U hU hrel
    unfold fromBasis at hnewO ⊢
    rw [this, hnewO]
  -- containment: o = C · nb = C · U⁻¹ · o'
  have hCnb : toM n n o = C.map (Int.castRingHom ℚ) * toM n n nb := by
    rw [hnbM, Matrix.mul_smul, ← Matrix.mul_assoc, ← Matrix.map_mul, ← hC]
    ext i j
    simp only [Matrix.smul_apply, Matrix.mul_apply, Matrix.map_apply, Int.coe_castRingHom, Matrix.one_apply,
      smul_eq_mul]
    rw [Finset.sum_eq_single i]
    · simp; field_simp
    · intro b _ hb; simp [Ne.symm hb]
    · intro hi; exact absurd (Finset.mem_univ i) hi
  have hsub : toM n n o = (C * U⁻¹).map (Int.castRingHom ℚ) * toM n n o' := by
    rw [hrel, ← Matrix.mul_assoc, ← Matrix.map_mul, Matrix.mul_assoc, Matrix.nonsing_inv_mul _ hU,
      Matrix.mul_one]
    exact hCnb
  -- the index is det (C · U⁻¹) ≥ 1
  have hidx : NTV.Ord.index o' o = .ok (C * U⁻¹).det := by
    rw [index_ok_iff o' o n rO ho dO, hsub, Matrix.det_mul, det_map_cast]
  rw [hidx] at hindex
  injection hindex with hindex
  have posO := stored_det_pos o' n hdeg rO dO sO
  have poso := stored_det_pos o n hdeg ho hdet hst
  have hipos : 1 ≤ index := by
    have e := (index_ok_iff o' o n rO ho dO _).mp hidx
    rw [hindex] at e
    have : (0 : ℚ) < (index : ℚ) := by
      by_contra hneg
      have : (index : ℚ) ≤ 0 := not_lt.mp hneg
      have : (index : ℚ) * (toM n n o').det ≤ 0 := mul_nonpos_of_nonpos_of_nonneg this posO.le
      linarith
    have : 0 < index := by exact_mod_cast this
    omega
  obtain ⟨_, hpow⟩ := howmanyLoop_spec p hp _ index 0 h hipos hhm
  rw [Nat.sub_zero] at hpow
  exact ⟨rO, dO, sO, ⟨_, hsub⟩, by rw [hidx, hindex, hpow], by rw [← hpow]; exact hipos⟩

end NTV.Round2
