import NTV.Proofs.Lemmas.PolyDivremMod
import Mathlib.Data.Nat.Prime.Basic
open Polynomial
namespace NTV.PolyMod
open NTV.PolyG NTV.Hensel

/-- g divides f modulo p -/
def DvdP (p : ℤ) (g f : ℤ[X]) : Prop := ∃ k : ℤ[X], PCong p f (k * g)

theorem DvdP.refl (p : ℤ) (g : ℤ[X]) : DvdP p g g := ⟨1, by simpa using PCong.refl p g⟩
theorem DvdP.zero (p : ℤ) (g : ℤ[X]) : DvdP p g 0 := ⟨0, by simpa using PCong.refl p 0⟩
theorem DvdP.of_rel {p : ℤ} {g a b r Q : ℤ[X]} (h : PCong p a (Q * b + r)) (hb : DvdP p g b) (hr : DvdP p g r) :
    DvdP p g a := by
  obtain ⟨k1, h1⟩ := hb
  obtain ⟨k2, h2⟩ := hr
  refine ⟨Q * k1 + k2, PCong.trans h ?_⟩
  have e : (Q * k1 + k2) * g = Q * (k1 * g) + k2 * g := by ring
  rw [e]
  exact PCong.add (PCong.mul (PCong.refl p Q) h1) h2

/-- all coefficients in [0, p) -/
def Reduced (p : ℤ) (l : List Int) : Prop := ∀ j, 0 ≤ l.getD j 0 ∧ l.getD j 0 < p

theorem reduced_nil (p : ℤ) (hp : 0 < p) : Reduced p [] := fun j => by simp; exact hp

theorem getD_fromRaw_int (l : List Int) (j : Nat) : (fromRaw l).getD j 0 = l.getD j 0 := getD_fromRaw l j

theorem reduced_fromRaw (p : ℤ) (l : List Int) (h : Reduced p l) : Reduced p (fromRaw l) := by
  intro j; rw [getD_fromRaw_int]; exact h j

theorem lc_coprime (p : Nat) (hp : p.Prime) (b : List Int) (hb : b ≠ []) (hc : Canon b) (hr : Reduced (p : Int) b) :
    IsCoprime (lc b) (p : Int) := by
  have h0 := lc_ne_zero b hb hc
  have hl := lc_eq_getD b hb
  obtain ⟨h1, h2⟩ := hr (b.length - 1)
  rw [hl] at h1 h2
  have hpos : 0 < lc b := lt_of_le_of_ne h1 (Ne.symm h0)
  rw [Int.isCoprime_iff_gcd_eq_one]
  have : (lc b).natAbs < p := by omega
  have hnd : ¬ p ∣ (lc b).natAbs := fun hd => by
    have := Nat.le_of_dvd (by omega) hd
    omega
  have := (Nat.Prime.coprime_iff_not_dvd hp).mpr hnd
  simpa [Int.gcd, Nat.coprime_comm] using this

/-- after the last row operation (index 0) every entry of the window lies in [0, p) -/
theorem divremLoop_window (b : List Int) (invlc p : Int) (hp : 0 < p) (bdeg : Nat) :
    ∀ (i : Nat) (tmp quo : List Int), 1 ≤ i → i + b.length ≤ tmp.length + 1 →
      ∀ j, j < b.length → 0 ≤ (divremLoop b invlc p bdeg i tmp quo).2.getD j 0 ∧
        (divremLoop b invlc p bdeg i tmp quo).2.getD j 0 < p := by
  intro i
  induction i with
  | zero => intro _ _ h; omega
  | succ i ih =>
    intro tmp quo _ hlen j hj
    rw [divremLoop_succ]
    by_cases hi : i = 0
    · subst hi
      simp only [divremLoop]
      rw [stepTmp_getD b _ p 0 tmp (by omega) j]
      have : 0 ≤ j ∧ j < 0 + b.length := by omega
      simp only [this, and_self, ↓reduceIte]
      exact ⟨Int.fmod_nonneg_of_pos _ hp, Int.fmod_lt_of_pos _ hp⟩
    · exact ih _ _ (by omega) (by rw [stepTmp_length _ _ _ _ _ (by omega)]; omega) j hj

end NTV.PolyMod

namespace NTV.PolyMod
open NTV.PolyG NTV.Hensel

/-- what one call of `poly_divrem` gives the Euclidean algorithm, in every branch: a relation
a ≡ Q·b + r (mod p) with r reduced and canonical -/
theorem polyDivrem_rel (a b : List Int) (p : Nat) (hp : p.Prime) (hra : Reduced (p : Int) a)
    (hrb : Reduced (p : Int) b) (hcb : Canon b) :
    ∃ Q : ℤ[X], PCong (p : Int) (toPoly a) (Q * toPoly b + toPoly (polyDivrem a b p).2) ∧
      Reduced (p : Int) (polyDivrem a b p).2 ∧ (Canon a → Canon (polyDivrem a b p).2) := by
  have hp0 : (0 : Int) < p := by exact_mod_cast hp.pos
  by_cases hs : a.isEmpty || b.isEmpty || decide (a.length < b.length)
  · refine ⟨0, ?_, ?_, ?_⟩
    · simp only [polyDivrem, hs, ↓reduceIte, zero_mul, zero_add]; exact PCong.refl _ _
    · simp only [polyDivrem, hs, ↓reduceIte]; exact hra
    · intro hca; simp only [polyDivrem, hs, ↓reduceIte]; exact hca
  · have ha : a ≠ [] := by intro e; simp [e] at hs
    have hb : b ≠ [] := by intro e; simp [e] at hs
    have hab : b.length ≤ a.length := by
      simp only [Bool.or_eq_true, decide_eq_true_eq, not_or, not_lt] at hs; exact hs.2
    obtain ⟨c1, c2, _, c4⟩ := polyDivrem_contract_prime a b p hp ha hb hab (lc_coprime p hp b hb hcb hrb)
    refine ⟨toPoly (polyDivrem a b p).1, c1, ?_, fun _ => c4⟩
    -- reducedness of the remainder
    unfold polyDivrem
    have h1 : a.isEmpty = false := by cases a <;> simp_all
    have h2 : b.isEmpty = false := by cases b <;> simp_all
    have h3 : ¬ a.length < b.length := by omega
    simp only [h1, h2, Bool.or_self, h3, decide_false, Bool.false_eq_true, ↓reduceIte]
    apply reduced_fromRaw
    have hbl : 0 < b.length := List.length_pos_of_ne_nil hb
    have hblen : b.length = (b.length - 1) + 1 := by omega
    have hlen : a.length - b.length + 1 + b.length ≤ a.length + 1 := by omega
    intro j
    by_cases hj : j < b.length
    · exact divremLoop_window b _ p hp0 (b.length - 1) _ a [] (by omega) hlen j hj
    · have hdg := divremLoop_degree b (modinv (lc b) p) p hp0 (b.length - 1) hblen
        (by rw [lc_eq_getD b hb]; exact modinv_spec p hp (lc b) (lc_coprime p hp b hb hcb hrb))
        (a.length - b.length + 1) a [] hlen
        (by intro j hj; exact getD_of_length_le a j (by omega)) j (by omega)
      rw [hdg]; exact ⟨le_refl _, hp0⟩

/-- C08/C12 foundation: the polynomial returned by `poly_gcd(a, b, p)` divides both arguments modulo
the prime p (for reduced canonical arguments), and is itself reduced and canonical -/
theorem polyGcdAux_dvd (p : Nat) (hp : p.Prime) : ∀ (fuel : Nat) (a b g : List Int),
    Reduced (p : Int) a → Reduced (p : Int) b → Canon a → Canon b →
    polyGcdAux (p : Int) fuel a b = .ok g →
    DvdP p (toPoly g) (toPoly a) ∧ DvdP p (toPoly g) (toPoly b) ∧ Reduced (p : Int) g ∧ Canon g := by
  intro fuel
  induction fuel with
  | zero => intro a b g _ _ _ _ h; simp [polyGcdAux] at h
  | succ fuel ih =>
    intro a b g hra hrb hca hcb h
    simp only [polyGcdAux] at h
    obtain ⟨Q, hrel, hrr, hcr⟩ := polyDivrem_rel a b p hp hra hrb hcb
    split at h
    · rename_i hre
      simp only [Except.ok.injEq] at h
      subst h
      have hr0 : (polyDivrem a b (p : Int)).2 = [] := by
        cases hq : (polyDivrem a b (p : Int)).2 <;> simp_all
      rw [hr0] at hrel
      refine ⟨⟨Q, by simpa [toPoly] using hrel⟩, DvdP.refl _ _, hrb, hcb⟩
    · obtain ⟨d1, d2, d3, d4⟩ := ih b (polyDivrem a b (p : Int)).2 g hrb hrr hcb (hcr hca) h
      exact ⟨DvdP.of_rel hrel d1 d2, d1, d3, d4⟩

theorem polyGcd_dvd (p : Nat) (hp : p.Prime) (a b g : List Int)
    (hra : Reduced (p : Int) a) (hrb : Reduced (p : Int) b) (hca : Canon a) (hcb : Canon b)
    (h : polyGcd a b (p : Int) = .ok g) :
    DvdP p (toPoly g) (toPoly a) ∧ DvdP p (toPoly g) (toPoly b) ∧ Reduced (p : Int) g ∧ Canon g :=
  polyGcdAux_dvd p hp _ a b g hra hrb hca hcb h

end NTV.PolyMod

namespace NTV.PolyMod
open NTV.PolyG NTV.Hensel

/-- `poly_mod(f, p)` is reduced, canonical and congruent to f -/
theorem polyMod_reduced (f : List Int) (p : Int) (hp : 0 < p) :
    Reduced p (polyMod f p) ∧ Canon (polyMod f p) ∧ PCong p (toPoly (polyMod f p)) (toPoly f) := by
  refine ⟨?_, canon_fromRaw _, polyMod_cong f p⟩
  unfold polyMod
  apply reduced_fromRaw
  intro j
  simp only [List.getD_eq_getElem?_getD, List.getElem?_map]
  cases f[j]? with
  | none => simp; exact hp
  | some c => simp only [Option.map_some, Option.getD_some]; exact ⟨Int.fmod_nonneg_of_pos _ hp, Int.fmod_lt_of_pos _ hp⟩

end NTV.PolyMod
