import NTV.Proofs.Lemmas.PolyModZMod
/-! Specifications of the primitives of src/poly_mod/prim.rs in `(ZMod p)[X]` (p prime):
`poly_divrem` (total form), `poly_gcd` (a greatest common divisor), `poly_modpow`, `divide_by_x_a`,
`poly_of_mod`. -/
open Polynomial
namespace NTV.PolyMod
open NTV.PolyG NTV.Hensel

theorem reduced_of_mem (p : Int) (hp : 0 < p) (l : List Int) (h : ∀ x ∈ l, 0 ≤ x ∧ x < p) : Reduced p l := by
  intro j
  by_cases hj : j < l.length
  · have : l.getD j 0 = l[j] := by simp [List.getD_eq_getElem?_getD, hj]
    rw [this]; exact h _ (List.getElem_mem hj)
  · rw [getD_of_length_le l j (by omega)]; exact ⟨le_refl _, hp⟩

theorem length_fromRaw_le_lengthL (l : List Int) : (fromRaw l).length ≤ l.length :=
  length_fromRaw_le l l.length (fun j hj => getD_of_length_le l j hj)

theorem divremLoop_quo (b : List Int) (invlc p : Int) (hp : 0 < p) (bdeg : Nat) :
    ∀ (i : Nat) (tmp quo : List Int), (∀ x ∈ quo, 0 ≤ x ∧ x < p) →
      (∀ x ∈ (divremLoop b invlc p bdeg i tmp quo).1, 0 ≤ x ∧ x < p) ∧
      (divremLoop b invlc p bdeg i tmp quo).1.length = i + quo.length := by
  intro i
  induction i with
  | zero => intro tmp quo h; simp only [divremLoop]; exact ⟨h, by simp⟩
  | succ i ih =>
    intro tmp quo h
    rw [divremLoop_succ]
    have := ih (stepTmp b (Int.fmod (tmp.getD (i + bdeg) 0 * invlc) p) p i tmp)
      (Int.fmod (tmp.getD (i + bdeg) 0 * invlc) p :: quo) (by
        intro x hx
        rcases List.mem_cons.mp hx with rfl | hx
        · exact ⟨Int.fmod_nonneg_of_pos _ hp, Int.fmod_lt_of_pos _ hp⟩
        · exact h x hx)
    refine ⟨this.1, ?_⟩
    rw [this.2]; simp; omega

/-- `poly_divrem(a, b, p)` in every branch, for reduced canonical arguments with b ≠ 0:
a = q·b + r in (ZMod p)[X], deg r < deg b, both outputs reduced and canonical -/
theorem polyDivrem_red (p : ℕ) (hp : p.Prime) (a b : List Int) (hra : Reduced (p : Int) a)
    (hrb : Reduced (p : Int) b) (hca : Canon a) (hcb : Canon b) (hb : b ≠ []) :
    red p a = red p (polyDivrem a b p).1 * red p b + red p (polyDivrem a b p).2 ∧
    Reduced (p : Int) (polyDivrem a b p).1 ∧ Canon (polyDivrem a b p).1 ∧
    Reduced (p : Int) (polyDivrem a b p).2 ∧ Canon (polyDivrem a b p).2 ∧
    (polyDivrem a b p).2.length < b.length ∧ (polyDivrem a b p).1.length ≤ a.length + 1 - b.length := by
  have hp0 : (0 : Int) < p := by exact_mod_cast hp.pos
  have hbl : 0 < b.length := List.length_pos_of_ne_nil hb
  by_cases hs : a.isEmpty || b.isEmpty || decide (a.length < b.length)
  · have e : polyDivrem a b p = ([], a) := by simp only [polyDivrem, hs, ↓reduceIte]
    rw [e]
    refine ⟨by simp [red_nil], reduced_nil _ hp0, canon_nil, hra, hca, ?_, by simp⟩
    have h2 : b.isEmpty = false := by cases b <;> simp_all
    simp only [h2, Bool.or_false, Bool.or_eq_true, decide_eq_true_eq] at hs
    rcases hs with h | h
    · have : a = [] := by cases a <;> simp_all
      simp [this, hbl]
    · exact h
  · have ha : a ≠ [] := by intro e; simp [e] at hs
    have hab : b.length ≤ a.length := by
      simp only [Bool.or_eq_true, decide_eq_true_eq, not_or, not_lt] at hs; exact hs.2
    obtain ⟨c1, c2, c3, c4⟩ := polyDivrem_contract_prime a b p hp ha hb hab (lc_coprime p hp b hb hcb hrb)
    obtain ⟨_, _, hrr, _⟩ := polyDivrem_rel a b p hp hra hrb hcb
    rw [pcong_map] at c1
    have hq : Reduced (p : Int) (polyDivrem a b p).1 ∧ (polyDivrem a b p).1.length ≤ a.length + 1 - b.length := by
      unfold polyDivrem
      have h1 : a.isEmpty = false := by cases a <;> simp_all
      have h2 : b.isEmpty = false := by cases b <;> simp_all
      have h3 : ¬ a.length < b.length := by omega
      simp only [h1, h2, Bool.or_self, h3, decide_false, Bool.false_eq_true, ↓reduceIte]
      have := divremLoop_quo b (modinv (lc b) p) p hp0 (b.length - 1) (a.length - b.length + 1) a []
        (by intro x hx; simp at hx)
      refine ⟨reduced_fromRaw _ _ (reduced_of_mem _ hp0 _ this.1), ?_⟩
      have h4 := length_fromRaw_le_lengthL
        (divremLoop b (modinv (lc b) p) p (b.length - 1) (a.length - b.length + 1) a []).1
      rw [this.2] at h4
      simp only [List.length_nil, add_zero] at h4
      omega
    refine ⟨?_, hq.1, c3, hrr, c4, c2, hq.2⟩
    have := c1
    simp only [Polynomial.map_add, Polynomial.map_mul] at this
    exact this

/-- `poly_gcd(a, b, p)` returns a greatest common divisor of a and b in (ZMod p)[X] (b ≠ 0) -/
theorem polyGcdAux_red (p : ℕ) (hp : p.Prime) : ∀ (fuel : Nat) (a b g : List Int),
    Reduced (p : Int) a → Reduced (p : Int) b → Canon a → Canon b → b ≠ [] →
    polyGcdAux (p : Int) fuel a b = .ok g →
    g ≠ [] ∧ Reduced (p : Int) g ∧ Canon g ∧ red p g ∣ red p a ∧ red p g ∣ red p b ∧
      ∀ d : (ZMod p)[X], d ∣ red p a → d ∣ red p b → d ∣ red p g := by
  intro fuel
  induction fuel with
  | zero => intro a b g _ _ _ _ _ h; simp [polyGcdAux] at h
  | succ fuel ih =>
    intro a b g hra hrb hca hcb hb h
    simp only [polyGcdAux] at h
    obtain ⟨hrel, _, _, hrr, hcr, _, _⟩ := polyDivrem_red p hp a b hra hrb hca hcb hb
    split at h
    · rename_i hre
      simp only [Except.ok.injEq] at h
      subst h
      have hr0 : (polyDivrem a b (p : Int)).2 = [] := by
        cases hq : (polyDivrem a b (p : Int)).2 <;> simp_all
      rw [hr0, red_nil, add_zero] at hrel
      exact ⟨hb, hrb, hcb, ⟨_, by rw [hrel, mul_comm]⟩, dvd_refl _, fun d _ h2 => h2⟩
    · rename_i hre
      have hr0 : (polyDivrem a b (p : Int)).2 ≠ [] := by
        intro e; rw [e] at hre; simp at hre
      obtain ⟨d1, d2, d3, d4, d5, d6⟩ := ih b (polyDivrem a b (p : Int)).2 g hrb hrr hcb hcr hr0 h
      refine ⟨d1, d2, d3, ?_, d4, ?_⟩
      · rw [hrel]; exact dvd_add (Dvd.dvd.mul_left d4 _) d5
      · intro d ha hbd
        apply d6 d hbd
        have : red p (polyDivrem a b (p : Int)).2 = red p a - red p (polyDivrem a b (p : Int)).1 * red p b := by
          rw [hrel]; ring
        rw [this]
        exact dvd_sub ha (Dvd.dvd.mul_left hbd _)

theorem polyGcd_red (p : ℕ) (hp : p.Prime) (a b g : List Int)
    (hra : Reduced (p : Int) a) (hrb : Reduced (p : Int) b) (hca : Canon a) (hcb : Canon b) (hb : b ≠ [])
    (h : polyGcd a b (p : Int) = .ok g) :
    g ≠ [] ∧ Reduced (p : Int) g ∧ Canon g ∧ red p g ∣ red p a ∧ red p g ∣ red p b ∧
      ∀ d : (ZMod p)[X], d ∣ red p a → d ∣ red p b → d ∣ red p g :=
  polyGcdAux_red p hp _ a b g hra hrb hca hcb hb h

/-- `poly_modpow`: the loop keeps product·current^e modulo g -/
theorem polyModpowLoop_red (p : ℕ) (hp : p.Prime) (g : List Int) (hrg : Reduced (p : Int) g) (hcg : Canon g)
    (hg : g ≠ []) : ∀ (n : Nat) (e : Int) (product current : List Int), e.toNat = n →
    Reduced (p : Int) product → Canon product → Reduced (p : Int) current → Canon current →
    Reduced (p : Int) (polyModpowLoop g p e product current) ∧ Canon (polyModpowLoop g p e product current) ∧
    red p g ∣ red p (polyModpowLoop g p e product current) - red p product * red p current ^ n := by
  have hp0 : (0 : Int) < p := by exact_mod_cast hp.pos
  intro n
  induction n using Nat.strong_induction_on with
  | _ n ih =>
    intro e product current hn hrp hcp hrc hcc
    unfold polyModpowLoop
    by_cases hpos : e > 0
    · simp only [hpos, ↓reduceDIte]
      have hlt : (e / 2).toNat < n := by omega
      -- the two divisions
      obtain ⟨m1, _, _, m4, m5, _, _⟩ := polyDivrem_red p hp (polyMod (mul product current) p) g
        (polyMod_reduced _ _ hp0).1 hrg (polyMod_reduced _ _ hp0).2.1 hcg hg
      obtain ⟨s1, _, _, s4, s5, _, _⟩ := polyDivrem_red p hp (polyMod (mul current current) p) g
        (polyMod_reduced _ _ hp0).1 hrg (polyMod_reduced _ _ hp0).2.1 hcg hg
      rw [red_polyMod p hp.pos, red_mul] at m1 s1
      have hsq : red p g ∣ red p (polyDivrem (polyMod (mul current current) p) g p).2 - red p current * red p current :=
        ⟨-red p (polyDivrem (polyMod (mul current current) p) g p).1, by rw [s1]; ring⟩
      have hsqn : ∀ k : Nat, red p g ∣ red p (polyDivrem (polyMod (mul current current) p) g p).2 ^ k
          - (red p current * red p current) ^ k := fun k => hsq.trans (sub_dvd_pow_sub_pow _ _ k)
      by_cases hodd : e % 2 = 1
      · simp only [hodd, ↓reduceIte]
        have hn2 : n = 2 * (e / 2).toNat + 1 := by omega
        obtain ⟨r1, r2, r3⟩ := ih (e / 2).toNat hlt (e / 2)
          (polyDivrem (polyMod (mul product current) p) g p).2
          (polyDivrem (polyMod (mul current current) p) g p).2 rfl m4 m5 s4 s5
        refine ⟨r1, r2, ?_⟩
        have hm : red p g ∣ red p (polyDivrem (polyMod (mul product current) p) g p).2 - red p product * red p current :=
          ⟨-red p (polyDivrem (polyMod (mul product current) p) g p).1, by rw [m1]; ring⟩
        have key : red p product * red p current ^ n =
            (red p product * red p current) * (red p current * red p current) ^ (e / 2).toNat := by
          rw [hn2, pow_succ, pow_mul]; ring
        rw [key]
        set A := red p (polyDivrem (polyMod (mul product current) p) g p).2
        set B := red p (polyDivrem (polyMod (mul current current) p) g p).2
        have e3 : ∀ R : (ZMod p)[X], R - red p product * red p current * (red p current * red p current) ^ (e / 2).toNat
            = (R - A * B ^ (e / 2).toNat) + A * (B ^ (e / 2).toNat - (red p current * red p current) ^ (e / 2).toNat)
              + (A - red p product * red p current) * (red p current * red p current) ^ (e / 2).toNat := by
          intro R; ring
        rw [e3]
        exact dvd_add (dvd_add r3 (Dvd.dvd.mul_left (hsqn _) _)) (Dvd.dvd.mul_right hm _)
      · simp only [hodd, ↓reduceIte]
        have hn2 : n = 2 * (e / 2).toNat := by omega
        obtain ⟨r1, r2, r3⟩ := ih (e / 2).toNat hlt (e / 2) product
          (polyDivrem (polyMod (mul current current) p) g p).2 rfl hrp hcp s4 s5
        refine ⟨r1, r2, ?_⟩
        have key : red p product * red p current ^ n =
            red p product * (red p current * red p current) ^ (e / 2).toNat := by
          rw [hn2, pow_mul]; ring
        rw [key]
        set B := red p (polyDivrem (polyMod (mul current current) p) g p).2
        have e3 : ∀ R : (ZMod p)[X], R - red p product * (red p current * red p current) ^ (e / 2).toNat
            = (R - red p product * B ^ (e / 2).toNat)
              + red p product * (B ^ (e / 2).toNat - (red p current * red p current) ^ (e / 2).toNat) := by
          intro R; ring
        rw [e3]
        exact dvd_add r3 (Dvd.dvd.mul_left (hsqn _) _)
    · simp only [hpos, ↓reduceDIte]
      have : n = 0 := by omega
      subst this
      exact ⟨hrp, hcp, by simp⟩

theorem polyModpow_red (p : ℕ) (hp : p.Prime) (x g : List Int) (e : Int) (hrg : Reduced (p : Int) g) (hcg : Canon g)
    (hg : g ≠ []) (hrx : Reduced (p : Int) x) (hcx : Canon x) :
    Reduced (p : Int) (polyModpow x e g p) ∧ Canon (polyModpow x e g p) ∧
    red p g ∣ red p (polyModpow x e g p) - red p x ^ e.toNat := by
  have hp1 : (1 : Int) < p := by exact_mod_cast hp.one_lt
  have h1r : Reduced (p : Int) [1] := by
    apply reduced_of_mem _ (by omega)
    intro x hx; simp at hx; omega
  have h1c : Canon ([1] : List Int) := by intro h; simp
  have := polyModpowLoop_red p hp g hrg hcg hg e.toNat e [1] x rfl h1r h1c hrx hcx
  unfold polyModpow
  refine ⟨this.1, this.2.1, ?_⟩
  have h3 := this.2.2
  have e1 : red p [1] = 1 := by simp [red_cons, red_nil]
  rw [e1, one_mul] at h3
  exact h3

end NTV.PolyMod

namespace NTV.PolyMod
open NTV.PolyG NTV.Hensel

theorem eval_red (p : ℕ) (f : List Int) (a : Int) :
    (red p f).eval (a : ZMod p) = ((NTV.PolyG.eval f a : Int) : ZMod p) := by
  have : (a : ZMod p) = Int.castRingHom (ZMod p) a := by simp
  rw [this, red, eval_map, eval₂_at_apply, eval_eq]
  simp

/-- the root test `poly_of_mod(f, a, p) == 0` decides whether a is a root of f in ZMod p -/
theorem polyOfMod_eq_zero_iff (p : ℕ) (hp : 0 < p) (f : List Int) (a : Int) :
    polyOfMod f a p = 0 ↔ (red p f).eval (a : ZMod p) = 0 := by
  rw [eval_red, ZMod.intCast_zmod_eq_zero_iff_dvd]
  have hm := polyOfMod_modEq f a p
  constructor
  · intro h
    rw [h] at hm
    exact Int.modEq_zero_iff_dvd.mp hm.symm
  · intro h
    have hd : (p : Int) ∣ polyOfMod f a p := Int.modEq_zero_iff_dvd.mp (hm.trans (Int.modEq_zero_iff_dvd.mpr h))
    cases f with
    | nil => simp [polyOfMod]
    | cons c cs =>
      simp only [polyOfMod, List.foldr_cons] at hd ⊢
      apply Int.eq_zero_of_dvd_of_natAbs_lt_natAbs hd
      rw [Int.natAbs_tmod]
      exact Nat.mod_lt _ (by simpa using hp)

/-- invariant of the synthetic-division loop of `divide_by_x_a` -/
theorem divXALoop_red (p : ℕ) (a : Int) : ∀ (cs : List Int) (carry : Int) (acc : List Int),
    C (carry : ZMod p) * X ^ cs.length + X * red p cs.reverse + (X - C (a : ZMod p)) * X ^ cs.length * red p acc
      = (X - C (a : ZMod p)) * red p (divXALoop a p cs carry acc).2 + C ((divXALoop a p cs carry acc).1 : ZMod p) := by
  intro cs
  induction cs with
  | nil => intro carry acc; simp [divXALoop, red_nil]; ring
  | cons c cs ih =>
    intro carry acc
    simp only [divXALoop]
    rw [← ih]
    simp only [List.reverse_cons, red_append, red_cons, red_nil, List.length_cons, List.length_reverse]
    have hk : ((Int.fmod (carry + c) p : Int) : ZMod p) = (carry : ZMod p) + (c : ZMod p) := by
      have := fmod_modEq (carry + c) p
      rw [← ZMod.intCast_eq_intCast_iff] at this
      rw [this]; push_cast; ring
    push_cast
    rw [hk]
    simp only [C_add, C_mul]
    ring

theorem divXALoop_mem (p : Int) (hp : 0 < p) (a : Int) : ∀ (cs : List Int) (carry : Int) (acc : List Int),
    (∀ x ∈ acc, 0 ≤ x ∧ x < p) →
    (∀ x ∈ (divXALoop a p cs carry acc).2, 0 ≤ x ∧ x < p) ∧
      (divXALoop a p cs carry acc).2.length = cs.length + acc.length := by
  intro cs
  induction cs with
  | nil => intro carry acc h; simp only [divXALoop]; exact ⟨h, by simp⟩
  | cons c cs ih =>
    intro carry acc h
    simp only [divXALoop]
    have := ih (Int.fmod (carry + c) p * a) (Int.fmod (carry + c) p :: acc) (by
      intro x hx
      rcases List.mem_cons.mp hx with rfl | hx
      · exact ⟨Int.fmod_nonneg_of_pos _ hp, Int.fmod_lt_of_pos _ hp⟩
      · exact h x hx)
    refine ⟨this.1, ?_⟩
    rw [this.2]; simp; omega

/-- `divide_by_x_a(poly, a, p)` (when it does not panic) is the exact quotient by (X − a) in (ZMod p)[X] -/
theorem divideByXA_red (p : ℕ) (hp : 0 < p) (poly : List Int) (a : Int) (q : List Int)
    (h : divideByXA poly a p = .ok q) :
    red p poly = (X - C (a : ZMod p)) * red p q ∧ Reduced (p : Int) q ∧ Canon q ∧ q.length < poly.length := by
  have hp0 : (0 : Int) < p := by exact_mod_cast hp
  cases poly with
  | nil => simp [divideByXA] at h
  | cons c0 rest =>
    simp only [divideByXA] at h
    split at h
    · simp at h
    · rename_i hz
      simp only [ne_eq, Decidable.not_not] at hz
      simp only [Except.ok.injEq] at h
      subst h
      have hinv := divXALoop_red p a rest.reverse 0 []
      have hmem := divXALoop_mem p hp0 a rest.reverse 0 [] (by intro x hx; simp at hx)
      simp only [List.reverse_reverse, List.length_reverse, red_nil, mul_zero, add_zero, Int.cast_zero,
        C_0, zero_mul, zero_add, List.length_nil] at hinv hmem
      refine ⟨?_, reduced_fromRaw _ _ (reduced_of_mem _ hp0 _ hmem.1), canon_fromRaw _, ?_⟩
      · rw [red_cons, red_fromRaw, hinv]
        have hc : (((divXALoop a p rest.reverse 0 []).1 : Int) : ZMod p) + (c0 : ZMod p) = 0 := by
          have := fmod_modEq ((divXALoop a p rest.reverse 0 []).1 + c0) p
          rw [hz, ← ZMod.intCast_eq_intCast_iff] at this
          have h2 := this.symm
          push_cast at h2
          exact h2
        have : C (c0 : ZMod p) = - C (((divXALoop a p rest.reverse 0 []).1 : Int) : ZMod p) := by
          rw [← C_neg]; congr 1; linear_combination hc
        rw [this]; ring
      · have := length_fromRaw_le_lengthL (divXALoop a p rest.reverse 0 []).2
        rw [hmem.2] at this
        simp only [List.length_cons]; omega

end NTV.PolyMod
