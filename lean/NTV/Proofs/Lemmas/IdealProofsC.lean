import NTV.Proofs.Lemmas.IdealProofsB
import NTV.Proofs.Lemmas.HnfDet
/-! # Ideals, part C: what `add`, `mul`, `principal`, `contains`, `capZ` of the ideal model compute,
in terms of lattices. -/
namespace NTV.IdealP
open NTV.Hnf NTV.Ord Finset
open NTV.Ideal (add mul principal contains capZ)

/-! ### sum -/

theorem add_total {m : Nat} {I J : Mat} (hI : Wid m I) (hJ : Wid m J) (hm : 0 < m) :
    ∃ S, add I J = .ok S ∧ Wid m S ∧ (∃ pv, IsHNF S m pv) ∧ Lat m S = Lat m I ⊔ Lat m J := by
  obtain ⟨S, pv, h1, h2, h3, h4⟩ := ideal_hnfNew_total (hI.append hJ) hm
  exact ⟨S, h1, h2, ⟨pv, h3⟩, by rw [h4, Lat_append]⟩

theorem add_spec {m : Nat} {I J S : Mat} (hI : Wid m I) (hJ : Wid m J) (hm : 0 < m) (h : add I J = .ok S) :
    Wid m S ∧ (∃ pv, IsHNF S m pv) ∧ Lat m S = Lat m I ⊔ Lat m J := by
  obtain ⟨S', h1, h2⟩ := add_total hI hJ hm
  rw [h] at h1; cases h1; exact h2

/-! ### product -/

/-- the generating rows handed to the normal form by `mul` -/
def prodRows (t : Table) (I J : Mat) : Mat := (I.map (fun v => J.map (fun w => tmulV t v w))).flatten

theorem mem_prodRows {t : Table} {I J : Mat} {r : Row} :
    r ∈ prodRows t I J ↔ ∃ v ∈ I, ∃ w ∈ J, tmulV t v w = r := by
  simp only [prodRows, List.mem_flatten, List.mem_map]
  constructor
  · rintro ⟨l, ⟨v, hv, rfl⟩, hr⟩
    obtain ⟨w, hw, rfl⟩ := List.mem_map.mp hr
    exact ⟨v, hv, w, hw, rfl⟩
  · rintro ⟨v, hv, w, hw, rfl⟩
    exact ⟨_, ⟨v, hv, rfl⟩, List.mem_map.mpr ⟨w, hw, rfl⟩⟩

theorem mul_eq {t : Table} {n : Nat} {I J : Mat} (ht : t.length = n) (hI : Wid n I) (hJ : Wid n J) :
    mul t I J = NTV.Ideal.hnfNew (prodRows t I J) := by
  unfold mul
  have h1 : I.mapM (fun v => J.mapM (fun w => tmul t v w)) =
      .ok (I.map (fun v => J.map (fun w => tmulV t v w))) := by
    apply mapM_ok
    intro v hv
    apply mapM_ok
    intro w hw
    exact tmul_eq ht (hI v hv) (hJ w hw)
  rw [h1]; rfl

theorem Wid_prodRows {t : Table} {n : Nat} {I J : Mat} (hI : Wid n I) : Wid n (prodRows t I J) := by
  intro r hr
  obtain ⟨v, hv, w, _, rfl⟩ := mem_prodRows.mp hr
  rw [tmulV_length, hI v hv]

theorem Lat_prodRows {t : Table} {n : Nat} {I J : Mat} (hI : Wid n I) :
    Lat n (prodRows t I J) = Submodule.map₂ (starB t n) (Lat n I) (Lat n J) := by
  unfold Lat
  rw [Submodule.map₂_span_span]
  congr 1
  ext u
  simp only [Set.mem_image, Set.mem_image2, Set.mem_ofPred_eq]
  constructor
  · rintro ⟨r, hr, rfl⟩
    obtain ⟨v, hv, w, hw, rfl⟩ := mem_prodRows.mp hr
    exact ⟨vec n v, ⟨v, hv, rfl⟩, vec n w, ⟨w, hw, rfl⟩, by rw [starB_apply, vec_tmulV (hI v hv)]⟩
  · rintro ⟨_, ⟨v, hv, rfl⟩, _, ⟨w, hw, rfl⟩, rfl⟩
    exact ⟨tmulV t v w, mem_prodRows.mpr ⟨v, hv, w, hw, rfl⟩, by rw [starB_apply, vec_tmulV (hI v hv)]⟩

theorem mul_total {t : Table} {n : Nat} {I J : Mat} (ht : t.length = n) (hn : 0 < n) (hI : Wid n I)
    (hJ : Wid n J) :
    ∃ P, mul t I J = .ok P ∧ Wid n P ∧ (∃ pv, IsHNF P n pv) ∧
      Lat n P = Submodule.map₂ (starB t n) (Lat n I) (Lat n J) := by
  obtain ⟨P, pv, h1, h2, h3, h4⟩ := ideal_hnfNew_total (Wid_prodRows (t := t) (J := J) hI) hn
  exact ⟨P, by rw [mul_eq ht hI hJ, h1], h2, ⟨pv, h3⟩, by rw [h4, Lat_prodRows hI]⟩

theorem mul_spec {t : Table} {n : Nat} {I J P : Mat} (ht : t.length = n) (hn : 0 < n) (hI : Wid n I)
    (hJ : Wid n J) (h : mul t I J = .ok P) :
    Wid n P ∧ (∃ pv, IsHNF P n pv) ∧ Lat n P = Submodule.map₂ (starB t n) (Lat n I) (Lat n J) := by
  obtain ⟨P', h1, h2⟩ := mul_total ht hn hI hJ
  rw [h] at h1; cases h1; exact h2

/-- two calls of `mul` whose product lattices agree return the same value -/
theorem mul_congr {t : Table} {n : Nat} {I J I' J' : Mat} (ht : t.length = n) (hn : 0 < n)
    (hI : Wid n I) (hJ : Wid n J) (hI' : Wid n I') (hJ' : Wid n J')
    (h : Submodule.map₂ (starB t n) (Lat n I) (Lat n J) = Submodule.map₂ (starB t n) (Lat n I') (Lat n J')) :
    mul t I J = mul t I' J' := by
  rw [mul_eq ht hI hJ, mul_eq ht hI' hJ']
  apply ideal_hnfNew_congr
  apply hnfNew_canonical (Wid_prodRows hI) (Wid_prodRows hI') hn
  rw [Lat_prodRows hI, Lat_prodRows hI', h]

/-- an element of `map₂ f p q` is a finite sum of products -/
theorem mem_map₂_iff_list {n : Nat} (f : (Fin n → ℤ) →ₗ[ℤ] (Fin n → ℤ) →ₗ[ℤ] (Fin n → ℤ))
    (p q : Submodule ℤ (Fin n → ℤ)) (u : Fin n → ℤ) :
    u ∈ Submodule.map₂ f p q ↔
      ∃ l : List ((Fin n → ℤ) × (Fin n → ℤ)), (∀ xy ∈ l, xy.1 ∈ p ∧ xy.2 ∈ q) ∧
        u = (l.map (fun xy => f xy.1 xy.2)).sum := by
  constructor
  · intro hu
    rw [Submodule.map₂_eq_span_image2] at hu
    induction hu using Submodule.span_induction with
    | mem x hx =>
      obtain ⟨a, ha, b, hb, rfl⟩ := hx
      exact ⟨[(a, b)], by simpa using ⟨ha, hb⟩, by simp⟩
    | zero => exact ⟨[], by simp, by simp⟩
    | add x y _ _ ihx ihy =>
      obtain ⟨l1, h1, rfl⟩ := ihx
      obtain ⟨l2, h2, rfl⟩ := ihy
      refine ⟨l1 ++ l2, ?_, by simp⟩
      intro xy hxy
      rcases List.mem_append.mp hxy with h | h
      · exact h1 xy h
      · exact h2 xy h
    | smul c x _ ih =>
      obtain ⟨l, h1, rfl⟩ := ih
      refine ⟨l.map (fun xy => (c • xy.1, xy.2)), ?_, ?_⟩
      · intro xy hxy
        obtain ⟨xy', h', rfl⟩ := List.mem_map.mp hxy
        exact ⟨p.smul_mem c (h1 xy' h').1, (h1 xy' h').2⟩
      · rw [List.smul_sum, List.map_map, List.map_map]
        congr 1
        apply List.map_congr_left
        intro xy _
        simp only [Function.comp, map_smul, LinearMap.smul_apply]
  · rintro ⟨l, hl, rfl⟩
    apply list_sum_mem
    intro x hx
    obtain ⟨xy, hxy, rfl⟩ := List.mem_map.mp hx
    exact Submodule.apply_mem_map₂ f (hl xy hxy).1 (hl xy hxy).2

/-! ### ring laws on lattices -/

section laws
variable {t : Table} {n : Nat}

theorem map₂_star_comm (T : TableRing t n) (p q : Submodule ℤ (Fin n → ℤ)) :
    Submodule.map₂ (starB t n) p q = Submodule.map₂ (starB t n) q p := by
  rw [← Submodule.map₂_flip]
  congr 1
  exact LinearMap.ext fun x => LinearMap.ext fun y => by
    simp only [LinearMap.flip_apply, starB_apply]; exact T.star_comm y x

theorem map₂_star_assoc_le (T : TableRing t n) (p q r : Submodule ℤ (Fin n → ℤ)) :
    Submodule.map₂ (starB t n) (Submodule.map₂ (starB t n) p q) r ≤
      Submodule.map₂ (starB t n) p (Submodule.map₂ (starB t n) q r) := by
  rw [Submodule.map₂_le]
  intro xy hxy c hc
  -- the set of `xy` with `xy ⋆ c` in the right-hand side is a submodule containing the generators
  have : Submodule.map₂ (starB t n) p q ≤
      Submodule.comap ((starB t n).flip c) (Submodule.map₂ (starB t n) p (Submodule.map₂ (starB t n) q r)) := by
    rw [Submodule.map₂_le]
    intro a ha b hb
    simp only [Submodule.mem_comap, LinearMap.flip_apply, starB_apply]
    rw [T.star_assoc]
    exact Submodule.apply_mem_map₂ (starB t n) ha (Submodule.apply_mem_map₂ (starB t n) hb hc)
  exact this hxy

theorem map₂_star_assoc (T : TableRing t n) (p q r : Submodule ℤ (Fin n → ℤ)) :
    Submodule.map₂ (starB t n) (Submodule.map₂ (starB t n) p q) r =
      Submodule.map₂ (starB t n) p (Submodule.map₂ (starB t n) q r) := by
  apply le_antisymm (map₂_star_assoc_le T p q r)
  rw [map₂_star_comm T p, map₂_star_comm T q r]
  refine le_trans (map₂_star_assoc_le T r q p) ?_
  rw [map₂_star_comm T r, map₂_star_comm T q p]

end laws

/-! ### ideals of the order -/

/-- the lattice of `I` is closed under multiplication by every element of ℤⁿ (the order) -/
def IsOIdeal (t : Table) (n : Nat) (I : Mat) : Prop :=
  ∀ a : Fin n → ℤ, ∀ v ∈ Lat n I, star t n a v ∈ Lat n I

/-- it is enough to be closed under multiplication by the basis vectors -/
theorem isOIdeal_of_basis {t : Table} {n : Nat} {I : Mat}
    (h : ∀ i : Fin n, ∀ v ∈ Lat n I, star t n (e n i) v ∈ Lat n I) : IsOIdeal t n I := by
  intro a v hv
  have : star t n a v = ∑ i, a i • star t n (e n i) v := by
    conv_lhs => rw [eq_sum_e a]
    rw [← starB_apply, map_sum, LinearMap.sum_apply]
    simp only [map_smul, LinearMap.smul_apply, starB_apply]
  rw [this]
  exact Submodule.sum_mem _ (fun i _ => Submodule.smul_mem _ _ (h i v hv))

/-- closure under `a ⋆ ·` as an inclusion of submodules -/
theorem isOIdeal_iff {t : Table} {n : Nat} {I : Mat} :
    IsOIdeal t n I ↔ ∀ a, Lat n I ≤ Submodule.comap (starB t n a) (Lat n I) := Iff.rfl

theorem isOIdeal_of_lat_sup {t : Table} {n : Nat} {I J S : Mat} (hS : Lat n S = Lat n I ⊔ Lat n J)
    (hI : IsOIdeal t n I) (hJ : IsOIdeal t n J) : IsOIdeal t n S := by
  intro a v hv
  rw [hS] at hv ⊢
  obtain ⟨x, hx, y, hy, rfl⟩ := Submodule.mem_sup.mp hv
  rw [star_add_right]
  exact Submodule.add_mem_sup (hI a x hx) (hJ a y hy)

theorem isOIdeal_of_lat_mul {t : Table} {n : Nat} (T : TableRing t n) {I J P : Mat}
    (hP : Lat n P = Submodule.map₂ (starB t n) (Lat n I) (Lat n J)) (hI : IsOIdeal t n I) :
    IsOIdeal t n P := by
  intro a
  show Lat n P ≤ Submodule.comap (starB t n a) (Lat n P)
  rw [hP, Submodule.map₂_le]
  intro x hx y hy
  simp only [Submodule.mem_comap, starB_apply]
  rw [← T.star_assoc]
  exact Submodule.apply_mem_map₂ (starB t n) (hI a x hx) hy

/-! ### principal ideals -/

/-- the rows handed to the normal form by `principal` -/
def prinRows (t : Table) (n : Nat) (x : List Int) : Mat :=
  (List.range n).map (fun i => tmulV t x (NTV.Ideal.unit n i))

theorem principal_eq {t : Table} {n : Nat} {x : List Int} (ht : t.length = n) (hx : x.length = n) :
    principal t x = NTV.Ideal.hnfNew (prinRows t n x) := by
  unfold principal
  have h1 : (List.range t.length).mapM (fun i => tmul t x (NTV.Ideal.unit t.length i)) =
      .ok (prinRows t n x) := by
    rw [ht]
    apply mapM_ok
    intro i _
    exact tmul_eq ht hx (unit_length n i)
  simp only [ht, hx, ne_eq, not_true_eq_false, ↓reduceIte] at h1 ⊢
  rw [h1]; rfl

theorem Wid_prinRows {t : Table} {n : Nat} {x : List Int} (hx : x.length = n) : Wid n (prinRows t n x) := by
  intro r hr
  obtain ⟨i, _, rfl⟩ := List.mem_map.mp hr
  rw [tmulV_length, hx]

theorem span_e_top (n : Nat) : Submodule.span ℤ (Set.range (e n)) = ⊤ := by
  rw [eq_top_iff]
  intro x _
  rw [eq_sum_e x]
  exact Submodule.sum_mem _ (fun i _ => Submodule.smul_mem _ _ (Submodule.subset_span ⟨i, rfl⟩))

/-- the lattice generated by the rows `x ⋆ e_i` is `x ⋆ ℤⁿ` -/
theorem Lat_prinRows {t : Table} {n : Nat} {x : List Int} (hx : x.length = n) :
    Lat n (prinRows t n x) = LinearMap.range (starB t n (vec n x)) := by
  rw [LinearMap.range_eq_map, ← span_e_top n, Submodule.map_span]
  unfold Lat
  congr 1
  ext u
  simp only [Set.mem_image, Set.mem_ofPred_eq, Set.mem_range]
  constructor
  · rintro ⟨r, hr, rfl⟩
    obtain ⟨i, hi, rfl⟩ := List.mem_map.mp hr
    have hi' : i < n := List.mem_range.mp hi
    exact ⟨e n ⟨i, hi'⟩, ⟨⟨i, hi'⟩, rfl⟩, by rw [starB_apply, vec_tmulV hx, ← vec_unit n ⟨i, hi'⟩]⟩
  · rintro ⟨_, ⟨i, rfl⟩, rfl⟩
    exact ⟨tmulV t x (NTV.Ideal.unit n i.val), List.mem_map.mpr ⟨i.val, List.mem_range.mpr i.isLt, rfl⟩,
      by rw [starB_apply, vec_tmulV hx, vec_unit]⟩

theorem principal_total {t : Table} {n : Nat} (T : TableRing t n) {x : List Int} (hx : x.length = n) :
    ∃ P, principal t x = .ok P ∧ Wid n P ∧ (∃ pv, IsHNF P n pv) ∧
      Lat n P = LinearMap.range (starB t n (vec n x)) ∧ IsOIdeal t n P := by
  obtain ⟨P, pv, h1, h2, h3, h4⟩ := ideal_hnfNew_total (Wid_prinRows (t := t) hx) T.pos
  have hL : Lat n P = LinearMap.range (starB t n (vec n x)) := by rw [h4, Lat_prinRows hx]
  refine ⟨P, by rw [principal_eq T.len hx, h1], h2, ⟨pv, h3⟩, hL, ?_⟩
  intro a v hv
  rw [hL] at hv ⊢
  obtain ⟨y, rfl⟩ := hv
  refine ⟨star t n a y, ?_⟩
  simp only [starB_apply]
  rw [← T.star_assoc, T.star_comm (vec n x) a, T.star_assoc]

theorem principal_spec {t : Table} {n : Nat} (T : TableRing t n) {x : List Int} {P : Mat} (hx : x.length = n)
    (h : principal t x = .ok P) :
    Wid n P ∧ (∃ pv, IsHNF P n pv) ∧ Lat n P = LinearMap.range (starB t n (vec n x)) ∧ IsOIdeal t n P := by
  obtain ⟨P', h1, h2⟩ := principal_total T hx
  rw [h] at h1; cases h1; exact h2

/-! ### membership -/

theorem range_star_le_iff {t : Table} {n : Nat} (T : TableRing t n) {I : Mat} (hI : IsOIdeal t n I)
    (x : Fin n → ℤ) : LinearMap.range (starB t n x) ≤ Lat n I ↔ x ∈ Lat n I := by
  constructor
  · intro h
    have : x = starB t n x (e n ⟨0, T.pos⟩) := by rw [starB_apply, T.star_one]
    rw [this]
    exact h ⟨_, rfl⟩
  · rintro hx _ ⟨y, rfl⟩
    rw [starB_apply, T.star_comm]
    exact hI y x hx

theorem contains_spec {t : Table} {n : Nat} (T : TableRing t n) {I₀ I : Mat} (hI₀ : Wid n I₀)
    (hnf : NTV.Ideal.hnfNew I₀ = .ok I) (hI : IsOIdeal t n I) {x : List Int} (hx : x.length = n) :
    ∃ b, contains t I x = .ok b ∧ (b = true ↔ vec n x ∈ Lat n I) := by
  obtain ⟨hW, _, _⟩ := ideal_hnfNew_spec hI₀ T.pos hnf
  obtain ⟨P, hP, hPW, _, hPL, _⟩ := principal_total T hx
  obtain ⟨S, hS, hSW, _, hSL⟩ := add_total hW hPW T.pos
  refine ⟨S == I, by simp [contains, hP, hS, bind, Except.bind, pure, Except.pure], ?_⟩
  rw [beq_iff_eq, ← range_star_le_iff T hI, ← hPL]
  have hidem := ideal_hnfNew_idem hI₀ T.pos hnf
  constructor
  · intro h
    subst h
    rw [hSL]; exact le_sup_right
  · intro h
    have : NTV.Ideal.hnfNew (I ++ P) = NTV.Ideal.hnfNew I := by
      apply ideal_hnfNew_congr
      apply hnfNew_canonical (hW.append hPW) hW T.pos
      rw [Lat_append]; exact sup_eq_left.mpr h
    have h2 : add I P = .ok I := by unfold add; rw [this, hidem]
    rw [hS] at h2; cases h2; rfl

/-! ### intersection with ℤ -/

theorem mem_Lat_iff_sum {m : Nat} {A : Mat} (v : Fin m → ℤ) :
    v ∈ Lat m A ↔ ∃ c : ℕ → ℤ, ∀ col (hc : col < m), v ⟨col, hc⟩ = ∑ s ∈ range A.length, c s * ent A s col := by
  rw [mem_Lat_iff (n := A.length) rfl]
  constructor
  · rintro ⟨c, rfl⟩
    refine ⟨fun s => if h : s < A.length then c ⟨s, h⟩ else 0, ?_⟩
    intro col hc
    simp only [Matrix.vecMul, dotProduct, toM]
    rw [← Fin.sum_univ_eq_sum_range (fun s => (if h : s < A.length then c ⟨s, h⟩ else 0) * ent A s col)]
    apply Finset.sum_congr rfl
    intro s _
    simp
  · rintro ⟨c, hc⟩
    refine ⟨fun s => c s.val, ?_⟩
    funext col
    rw [hc col.val col.isLt]
    simp only [Matrix.vecMul, dotProduct, toM]
    rw [Fin.sum_univ_eq_sum_range (fun s => c s * ent A s col.val)]

theorem capZ_core {n : Nat} (hn : 0 < n) {I : Mat} {pv : List Nat} (hW : Wid n I) (hH : IsHNF I n pv)
    (hfull : I.length = n) :
    ∃ c, capZ I = .ok c ∧ 0 < c ∧ ∀ z : ℤ, z • e n ⟨0, hn⟩ ∈ Lat n I ↔ c ∣ z := by
  have hpvlen : pv.length = n := by rw [hH.len, hfull]
  have hid := pairwise_lt_eq_id pv n hpvlen hH.incr hH.lt
  have h0 : 0 < pv.length := by omega
  have hpv0 : pv[0] = 0 := hid 0 h0
  have hpos : 0 < ent I 0 0 := by have := hH.pos 0 h0; rwa [hpv0] at this
  have hlast : ∀ col, 0 < col → col < n → ent I 0 col = 0 := by
    intro col h1 h2; have := hH.last 0 h0 col (by rw [hpv0]; exact h1) h2; exact this
  -- shape of the first row
  obtain ⟨r0, rs, rfl⟩ : ∃ r0 rs, I = r0 :: rs := by
    cases I with
    | nil => simp at hfull; omega
    | cons r0 rs => exact ⟨r0, rs, rfl⟩
  have hr0 : r0.length = n := hW r0 (by simp)
  obtain ⟨x, xs, rfl⟩ : ∃ x xs, r0 = x :: xs := by
    cases r0 with
    | nil => simp at hr0; omega
    | cons x xs => exact ⟨x, xs, rfl⟩
  have hx : ent ((x :: xs) :: rs) 0 0 = x := by simp [ent]
  refine ⟨x, rfl, by rw [← hx]; exact hpos, ?_⟩
  intro z
  constructor
  · intro hz
    by_cases hz0 : z = 0
    · rw [hz0]; exact dvd_zero _
    obtain ⟨c, hc⟩ := (mem_Lat_iff_sum _).mp hz
    have hF := hH.toF
    have hlen : ((x :: xs) :: rs).length = pv.length := hH.len.symm
    obtain ⟨s0, hs0, hp, hv, _⟩ := NTV.HnfU.pivot_match hF
      (fun col => if h : col < n then (z • e n ⟨0, hn⟩) ⟨col, h⟩ else 0) c
      (by intro col hcol; simp only [hcol, ↓reduceDIte]; rw [hc col hcol, hlen])
      0 hn (by simp [e, hn, hz0])
      (by
        intro col h1 h2
        have : (⟨col, h2⟩ : Fin n) ≠ ⟨0, hn⟩ := by intro h; cases h; omega
        simp [e, h2, this])
    have hs00 : s0 = 0 := by rw [hid s0 hs0] at hp; exact hp
    subst hs00
    simp only [hn, ↓reduceDIte, e, Pi.smul_apply, Pi.single_eq_same, smul_eq_mul, mul_one] at hv
    rw [hx] at hv
    exact ⟨c 0, by rw [hv]; ring⟩
  · rintro ⟨q, rfl⟩
    have hrow : vec n (x :: xs) ∈ Lat n ((x :: xs) :: rs) := row_mem_Lat (by simp)
    have : (x * q) • e n ⟨0, hn⟩ = q • vec n (x :: xs) := by
      funext k
      by_cases hk : k = ⟨0, hn⟩
      · subst hk; simp [e, vec, mul_comm]
      · have hk0 : 0 < k.val := by
          rcases Nat.eq_zero_or_pos k.val with h | h
          · exact absurd (Fin.ext h) hk
          · exact h
        have := hlast k.val hk0 k.isLt
        simp only [ent, List.getD_eq_getElem?_getD, List.getElem?_cons_zero, Option.getD_some] at this
        simp [e, vec, hk, this]
    rw [this]
    exact Submodule.smul_mem _ _ hrow

/-! ### the product lattice on generators, distributivity -/

theorem map₂_Lat_eq_span {t : Table} {n : Nat} (I J : Mat) :
    Submodule.map₂ (starB t n) (Lat n I) (Lat n J) =
      Submodule.span ℤ {u | ∃ v ∈ I, ∃ w ∈ J, u = star t n (vec n v) (vec n w)} := by
  unfold Lat
  rw [Submodule.map₂_span_span]
  congr 1
  ext u
  simp only [Set.mem_image, Set.mem_image2, Set.mem_ofPred_eq]
  constructor
  · rintro ⟨_, ⟨v, hv, rfl⟩, _, ⟨w, hw, rfl⟩, rfl⟩
    exact ⟨v, hv, w, hw, rfl⟩
  · rintro ⟨v, hv, w, hw, rfl⟩
    exact ⟨vec n v, ⟨v, hv, rfl⟩, vec n w, ⟨w, hw, rfl⟩, rfl⟩

theorem mul_add_distrib_core {t : Table} {n : Nat} {I J K S IJ IK : Mat} (ht : t.length = n) (hn : 0 < n)
    (hI : Wid n I) (hJ : Wid n J) (hK : Wid n K) (hS : add J K = .ok S) (hIJ : mul t I J = .ok IJ)
    (hIK : mul t I K = .ok IK) : mul t I S = add IJ IK := by
  obtain ⟨hSW, _, hSL⟩ := add_spec hJ hK hn hS
  obtain ⟨hIJW, _, hIJL⟩ := mul_spec ht hn hI hJ hIJ
  obtain ⟨hIKW, _, hIKL⟩ := mul_spec ht hn hI hK hIK
  rw [mul_eq ht hI hSW]
  unfold add
  apply ideal_hnfNew_congr
  apply hnfNew_canonical (Wid_prodRows hI) (hIJW.append hIKW) hn
  rw [Lat_prodRows hI, Lat_append, hSL, Submodule.map₂_sup_right, hIJL, hIKL]

end NTV.IdealP
