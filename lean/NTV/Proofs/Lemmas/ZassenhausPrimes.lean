import NTV.Model.PolyZ
import NTV.Proofs.Lemmas.PrimesIter
import Mathlib.NumberTheory.Bertrand
import Mathlib.Data.Nat.Choose.Factorization
import Mathlib.Data.Nat.Choose.Central
import Mathlib.Data.Nat.Count
import Mathlib.Tactic

/-! The prime search of `get_factors_of_squarefree` (`NTV.PolyZ.primeSearch`) returns a genuine prime with
no i32 wrap-around: the search sees at most 100000 primes and (Chebyshev/Erdős, via the central binomial
coefficient) there are more than 100000 primes below 2^31. -/
namespace NTV.PolyZ

/-- `C(2n, n) ≤ (2n)^π(2n)`: each prime power in the central binomial coefficient is at most `2n` -/
theorem centralBinom_le_pow_count (n : Nat) (hn : 0 < n) :
    Nat.centralBinom n ≤ (2 * n) ^ Nat.count Nat.Prime (2 * n + 1) := by
  classical
  rw [← Nat.prod_pow_factorization_centralBinom n, Nat.count_eq_card_filter_range,
    ← Finset.prod_const, Finset.prod_filter]
  apply Finset.prod_le_prod'
  intro p _
  split
  · rename_i hp
    exact Nat.pow_factorization_choose_le (by omega)
  · rename_i hp
    rw [Nat.factorization_eq_zero_of_not_prime _ hp, pow_zero]

/-- Chebyshev-type lower bound at powers of two: `2^(k+1) ≤ (k+1)·(π(2^(k+1)) + 1)` -/
theorem chebyshev_pow_two (k : Nat) :
    2 ^ (k + 1) ≤ (k + 1) * (Nat.count Nat.Prime (2 ^ (k + 1) + 1) + 1) := by
  have hn : 0 < 2 ^ k := Nat.pow_pos (by norm_num)
  have h1 := Nat.four_pow_le_two_mul_self_mul_centralBinom (2 ^ k) hn
  have h2 := centralBinom_le_pow_count (2 ^ k) hn
  have e : 2 * 2 ^ k = 2 ^ (k + 1) := by rw [pow_succ]; ring
  rw [e] at h1 h2
  have h3 : (4 : Nat) ^ (2 ^ k) = 2 ^ (2 ^ (k + 1)) := by
    rw [show (4 : Nat) = 2 ^ 2 by norm_num, ← pow_mul, pow_succ 2 k, mul_comm]
  rw [h3] at h1
  have h4 : 2 ^ (2 ^ (k + 1)) ≤ 2 ^ ((k + 1) * (Nat.count Nat.Prime (2 ^ (k + 1) + 1) + 1)) := by
    calc 2 ^ (2 ^ (k + 1)) ≤ 2 ^ (k + 1) * Nat.centralBinom (2 ^ k) := h1
      _ ≤ 2 ^ (k + 1) * (2 ^ (k + 1)) ^ Nat.count Nat.Prime (2 ^ (k + 1) + 1) :=
          Nat.mul_le_mul_left _ h2
      _ = 2 ^ ((k + 1) * (Nat.count Nat.Prime (2 ^ (k + 1) + 1) + 1)) := by
          rw [← pow_mul, ← pow_add]; congr 1; ring
  exact (Nat.pow_le_pow_iff_right (by norm_num)).mp h4

/-- there are at least 100000 primes below 2^31 (`Nat.count p n` counts the `k < n` with `p k`) -/
theorem count_primes_lower : 100000 ≤ Nat.count Nat.Prime (2 ^ 31) := by
  have h := chebyshev_pow_two 21
  have hm : Nat.count Nat.Prime (2 ^ (21 + 1) + 1) ≤ Nat.count Nat.Prime (2 ^ 31) :=
    Nat.count_monotone _ (by norm_num)
  generalize Nat.count Nat.Prime (2 ^ (21 + 1) + 1) = x at h hm
  generalize Nat.count Nat.Prime (2 ^ 31) = y at hm ⊢
  norm_num at h
  omega


/-- soundness of `Primes::next`: a returned value is the least prime ≥ the state -/
theorem nextPrime_sound : ∀ (fuel s q : Nat), NTV.Elem.nextPrime fuel s = some q →
    q.Prime ∧ s ≤ q ∧ ∀ k, s ≤ k → k < q → ¬ k.Prime := by
  intro fuel
  induction fuel with
  | zero => intro s q h; simp [NTV.Elem.nextPrime] at h
  | succ fuel ih =>
    intro s q h
    simp only [NTV.Elem.nextPrime] at h
    by_cases hs : NTV.Elem.isPrimeTD s = true
    · simp only [hs, ↓reduceIte, Option.some.injEq] at h
      subst h
      exact ⟨(NTV.Elem.isPrimeTD_iff s).mp hs, le_refl _, fun k h1 h2 => by omega⟩
    · simp only [hs, Bool.false_eq_true, ↓reduceIte] at h
      obtain ⟨hq, hle, hno⟩ := ih (s + 1) q h
      refine ⟨hq, by omega, fun k h1 h2 => ?_⟩
      by_cases e : k = s
      · subst e; exact fun hp => hs ((NTV.Elem.isPrimeTD_iff k).mpr hp)
      · exact hno k (by omega) h2

theorem count_prime_eq_of_gap (s q : Nat) (hle : s ≤ q) (hno : ∀ k, s ≤ k → k < q → ¬ k.Prime) :
    Nat.count Nat.Prime q = Nat.count Nat.Prime s := by
  induction q, hle using Nat.le_induction with
  | base => rfl
  | succ q hsq ih =>
    rw [Nat.count_succ, if_neg (hno q hsq (by omega)), add_zero]
    exact ih (fun k h1 h2 => hno k h1 (by omega))

theorem asI32_of_lt (now : Nat) (h : now < 2 ^ 31) : asI32 now = (now : Int) := by
  unfold asI32
  have : now % 2 ^ 32 = now := Nat.mod_eq_of_lt (by omega)
  simp only [this, h, ↓reduceIte]

/-- a prime whose index among the primes is below 100000 is below 2^31 -/
theorem lt_of_count_lt (now : Nat) (h : Nat.count Nat.Prime now < 100000) : now < 2 ^ 31 := by
  by_contra hc
  have := Nat.count_monotone Nat.Prime (not_lt.mp hc)
  have := count_primes_lower
  omega

/-- `primeSearch` from any iterator state: as long as (number of primes below the state) + (primes still
to be tried) ≤ 100000, a returned `(p, pu)` is a genuine prime `pu < 2^31` with `p = pu` (the `as i32`
conversion did not wrap), `pu ∤ lc`, and `gcd(a mod p, (a mod p)')` computed by the model has degree 0 -/
theorem primeSearch_spec (a : List Int) (n : Nat) : ∀ (fuel state : Nat) (p : Int) (pu : Nat),
    Nat.count Nat.Prime state + fuel ≤ 100000 →
    primeSearch a n fuel state = .ok (p, pu) →
    pu.Prime ∧ p = (pu : Int) ∧ pu < 2 ^ 31 ∧ ¬ ((pu : Int) ∣ NTV.PolyG.coefAt a n) ∧
    ∃ g, NTV.PolyMod.polyGcd (NTV.PolyMod.polyMod a p)
        (NTV.PolyMod.differentialMod (NTV.PolyMod.polyMod a p) p) p = .ok g ∧
      NTV.PolyG.degU g = 0 := by
  intro fuel
  induction fuel with
  | zero => intro state p pu _ h; simp [primeSearch, throw, throwThe, MonadExceptOf.throw] at h
  | succ fuel ih =>
    intro state p pu hinv h
    rw [primeSearch] at h
    split at h
    · simp [throw, throwThe, MonadExceptOf.throw] at h
    · rename_i now hnow
      obtain ⟨hprime, hle, hno⟩ := nextPrime_sound _ _ _ hnow
      have hc : Nat.count Nat.Prime now = Nat.count Nat.Prime state :=
        count_prime_eq_of_gap state now hle hno
      have hc1 : Nat.count Nat.Prime (now + 1) = Nat.count Nat.Prime state + 1 := by
        rw [Nat.count_succ, if_pos hprime, hc]
      have hlt : now < 2 ^ 31 := lt_of_count_lt now (by omega)
      have hrec : Nat.count Nat.Prime (now + 1) + fuel ≤ 100000 := by omega
      have hI : asI32 now = (now : Int) := asI32_of_lt now hlt
      simp only [hI] at h
      split at h
      · simp [throw, throwThe, MonadExceptOf.throw] at h
      · split at h
        · exact ih (now + 1) p pu hrec h
        · rename_i hnz hnd
          cases hg : NTV.PolyMod.polyGcd (NTV.PolyMod.polyMod a (now : Int))
              (NTV.PolyMod.differentialMod (NTV.PolyMod.polyMod a (now : Int)) (now : Int)) (now : Int) with
          | error e => rw [hg] at h; simp [bind, Except.bind] at h
          | ok g =>
            rw [hg] at h
            simp only [bind, Except.bind] at h
            split at h
            · rename_i hdeg
              simp only [pure, Except.pure, Except.ok.injEq, Prod.mk.injEq] at h
              obtain ⟨h1, h2⟩ := h
              subst h2
              subst h1
              refine ⟨hprime, rfl, hlt, ?_, g, hg, hdeg⟩
              intro hd
              exact hnd (Int.tmod_eq_zero_of_dvd hd)
            · exact ih (now + 1) p pu hrec h

/-- the call actually made by `getFactorsOfSquarefree`: fuel 100000 from state 2 -/
theorem primeSearch_top (a : List Int) (n : Nat) (p : Int) (pu : Nat) :
    primeSearch a n 100000 2 = .ok (p, pu) →
    pu.Prime ∧ p = (pu : Int) ∧ pu < 2 ^ 31 ∧ ¬ ((pu : Int) ∣ NTV.PolyG.coefAt a n) ∧
    ∃ g, NTV.PolyMod.polyGcd (NTV.PolyMod.polyMod a p)
        (NTV.PolyMod.differentialMod (NTV.PolyMod.polyMod a p) p) p = .ok g ∧
      NTV.PolyG.degU g = 0 := by
  apply primeSearch_spec a n 100000 2 p pu
  have : Nat.count Nat.Prime 2 = 0 := by decide
  omega

/-- the hypothesis is satisfiable: x^4 + 1 is squarefree modulo 3 (and not modulo 2) -/
example : primeSearch [1, 0, 0, 0, 1] 4 100000 2 = .ok (3, 3) := by decide +kernel

/-- 2, 3, 5 divide the leading coefficient of 30x^4 + x^2 + 6; the search returns 7 -/
example : primeSearch [6, 0, 1, 0, 30] 4 100000 2 = .ok (7, 7) := by decide +kernel

example : Nat.Prime 7 ∧ ¬ ((7 : Int) ∣ NTV.PolyG.coefAt [6, 0, 1, 0, 30] 4) :=
  have h := primeSearch_top [6, 0, 1, 0, 30] 4 7 7 (by decide +kernel)
  ⟨h.1, h.2.2.2.1⟩

end NTV.PolyZ
