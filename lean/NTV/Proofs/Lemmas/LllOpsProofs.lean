import NTV.Model.LllOps
import NTV.Proofs.Lemmas.HnfProofs
namespace NTV.LllOps
open Matrix
open NTV.Hnf (Inv Rect toM idMat Rect_idMat toM_idMat)

def toSt (s : State) : NTV.Hnf.St := ⟨s.B, s.H⟩

theorem redRows_eq (m : IMat) (k l : Nat) (q : Int) : redRows m k l q = NTV.Hnf.subMulRow m k l q := by
  unfold redRows NTV.Hnf.subMulRow
  apply List.ext_getElem?
  intro i
  rw [List.getElem?_set, List.getElem?_modify]
  by_cases hik : k = i
  · subst hik
    by_cases hlt : k < m.length
    · simp only [hlt, ↓reduceIte, List.getElem?_eq_getElem hlt, Option.map_some, Option.some.injEq]
      unfold rowSubMul NTV.Hnf.rowSubMul
      have : m.getD k [] = m[k] := by simp [List.getD_eq_getElem?_getD, List.getElem?_eq_getElem hlt]
      rw [this]
      show some (List.zipWith (fun x y => x - q * y) m[k] (List.getD m l [])) =
        some (List.zipWith (fun x y => x - y * q) m[k] (List.getD m l []))
      congr 2
      funext x y; ring
    · have : m[k]? = none := by simp; omega
      simp [hlt, this]
  · simp [hik]

theorem swapRows_eq (m : IMat) (k : Nat) : swapRows m k = NTV.Hnf.swapRows m k (k + 1) := rfl

theorem identity_eq (n : Nat) : identity n = idMat n := rfl

/-- an operation of `lll` with indices in range -/
def OpValid (n : Nat) : Op → Prop
  | .red k l _ => k < n ∧ l < n ∧ k ≠ l
  | .swap k => k + 1 < n

theorem applyOp_Inv {n m : Nat} {A0 : Matrix (Fin n) (Fin m) ℤ} (s : State) (op : Op)
    (h : Inv n m A0 (toSt s)) (hv : OpValid n op) : Inv n m A0 (toSt (applyOp s op)) := by
  cases op with
  | red k l q =>
    obtain ⟨hk, hl, hkl⟩ := hv
    have := NTV.Hnf.Inv.subMul' h k l hk hl hkl q
    simpa [applyOp, red, toSt, NTV.Hnf.St.subMul, redRows_eq] using this
  | swap k =>
    have hk : k + 1 < n := hv
    have := NTV.Hnf.Inv.swap h ⟨k, by omega⟩ ⟨k + 1, hk⟩
    simpa [applyOp, swap, toSt, NTV.Hnf.St.swap, swapRows_eq] using this

/-- C20 (integer bookkeeping of `lll`), full: for EVERY sequence of `red!`/`swap!` operations with
indices in range — whatever multipliers q the floating-point part chooses and whatever swaps it decides —
the transformation matrix stays unimodular and the basis is `H · B₀`. -/
theorem applyOps_inv (B0 : IMat) (n m : Nat) (hr : Rect n m B0) (ops : List Op)
    (hv : ∀ op ∈ ops, OpValid n op) :
    Rect n m (applyOps (init B0) ops).B ∧ Rect n n (applyOps (init B0) ops).H ∧
    IsUnit (toM n n (applyOps (init B0) ops).H).det ∧
    toM n n (applyOps (init B0) ops).H * toM n m B0 = toM n m (applyOps (init B0) ops).B := by
  have h0 : Inv n m (toM n m B0) (toSt (init B0)) := by
    have hlen : B0.length = n := hr.1
    refine ⟨hr, ?_, ?_, ?_⟩
    · simp only [toSt, init, hlen, identity_eq]; exact Rect_idMat n
    · simp only [toSt, init, hlen, identity_eq, toM_idMat]; simp
    · simp only [toSt, init, hlen, identity_eq, toM_idMat]; simp
  have key : ∀ (l : List Op) (s : State), Inv n m (toM n m B0) (toSt s) → (∀ op ∈ l, OpValid n op) →
      Inv n m (toM n m B0) (toSt (applyOps s l)) := by
    intro l
    induction l with
    | nil => intro s h _; exact h
    | cons op rest ih =>
      intro s h hvl
      simp only [applyOps, List.foldl_cons]
      exact ih _ (applyOp_Inv s op h (hvl op (by simp))) (fun o ho => hvl o (by simp [ho]))
  have := key ops (init B0) h0 hv
  exact ⟨this.ra, this.ru, this.det, this.ua⟩

end NTV.LllOps
