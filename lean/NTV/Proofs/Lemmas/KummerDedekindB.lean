import NTV.Proofs.Lemmas.KummerDedekindA
import Mathlib.RingTheory.Ideal.Norm.AbsNorm
/-! # Kummer–Dedekind, part B (abstract): comaximality of the ideals `(p, g_i(ϑ))`, the product
`∏ (p, g_i(ϑ))^{e_i}` against `pR`. The inclusion `⊆` always holds; equality holds exactly when `p` lies in every
`(p, g_i(ϑ))^{e_i}` — which is the case when all `e_i = 1`, when `R` is a Dedekind domain, or when Dedekind's
criterion holds at the ramified `g_i`. -/
open Polynomial Matrix

namespace NTV.KD

variable {R : Type*} [CommRing R] {n : ℕ}
variable {p : ℕ} {v : R ≃ₗ[ℤ] (Fin n → ℤ)} {ϑ : R} {F : ℤ[X]} {M : Matrix (Fin n) (Fin n) ℤ}

/-- coprime factors modulo `p` give comaximal ideals -/
theorem Pof_sup_eq_top (ϑ : R) (g g' : ℤ[X])
    (hc : IsCoprime (g.map (Int.castRingHom (ZMod p))) (g'.map (Int.castRingHom (ZMod p)))) :
    Pof p ϑ g ⊔ Pof p ϑ g' = ⊤ := by
  obtain ⟨a', b', hab⟩ := hc
  obtain ⟨a, rfl⟩ := red_surjective p a'
  obtain ⟨b, rfl⟩ := red_surjective p b'
  have hk : (a * g + b * g' - 1).map (Int.castRingHom (ZMod p)) = 0 := by
    rw [Polynomial.map_sub, Polynomial.map_add, Polynomial.map_mul, Polynomial.map_mul, Polynomial.map_one]
    rw [sub_eq_zero]
    exact hab
  have hz := aeval_mem_of_map_eq_zero (p := p) ϑ _ hk
  rw [Ideal.eq_top_iff_one]
  have h1 : aeval ϑ (a * g + b * g') ∈ Pof p ϑ g ⊔ Pof p ϑ g' := by
    rw [map_add, map_mul, map_mul]
    exact Ideal.add_mem _ (Ideal.mem_sup_left (Ideal.mul_mem_left _ _ (aeval_mem_Pof ϑ g)))
      (Ideal.mem_sup_right (Ideal.mul_mem_left _ _ (aeval_mem_Pof ϑ g')))
  have h2 : aeval ϑ (a * g + b * g' - 1) ∈ Pof p ϑ g ⊔ Pof p ϑ g' :=
    Ideal.mem_sup_left (span_p_le_Pof ϑ g hz)
  have := Ideal.sub_mem _ h1 h2
  rwa [← map_sub, sub_sub_cancel, map_one] at this

variable {ι : Type*} [Fintype ι]

/-- `∏ (p, g_i(ϑ))^{e_i} ⊆ pR` when `∏ ḡ_i^{e_i} = F̄` -/
theorem Ctx.prod_le (H : Ctx p v ϑ F M) (g : ι → ℤ[X]) (e : ι → ℕ)
    (hprod : ∏ i, (g i).map (Int.castRingHom (ZMod p)) ^ e i = F.map (Int.castRingHom (ZMod p))) :
    ∏ i, Pof p ϑ (g i) ^ e i ≤ Ideal.span {(p : R)} := by
  rw [← H.ker_rho]
  have : RingHom.ker H.rho = Ideal.comap H.rho ⊥ := rfl
  rw [this, ← Ideal.map_le_iff_le_comap, le_bot_iff]
  rw [← Ideal.mapHom_apply, map_prod]
  simp only [map_pow, Ideal.mapHom_apply, H.map_Pof, Ideal.span_singleton_pow, Ideal.prod_span_singleton]
  rw [Ideal.span_singleton_eq_bot]
  simp only [← map_pow, ← map_prod]
  rw [piF_eq_zero_iff, Polynomial.map_prod]
  simp only [Polynomial.map_pow]
  rw [hprod]

/-- **the product formula, sharp form**: for pairwise coprime `ḡ_i` with `∏ ḡ_i^{e_i} = F̄`,
`∏ (p, g_i(ϑ))^{e_i} = pR` iff `p ∈ (p, g_i(ϑ))^{e_i}` for every `i` -/
theorem Ctx.prod_eq_iff (H : Ctx p v ϑ F M) (g : ι → ℤ[X]) (e : ι → ℕ)
    (hprod : ∏ i, (g i).map (Int.castRingHom (ZMod p)) ^ e i = F.map (Int.castRingHom (ZMod p)))
    (hcop : ∀ i j, i ≠ j →
      IsCoprime ((g i).map (Int.castRingHom (ZMod p))) ((g j).map (Int.castRingHom (ZMod p)))) :
    ∏ i, Pof p ϑ (g i) ^ e i = Ideal.span {(p : R)} ↔ ∀ i, (p : R) ∈ Pof p ϑ (g i) ^ e i := by
  classical
  constructor
  · intro h i
    have hp : (p : R) ∈ ∏ i, Pof p ϑ (g i) ^ e i := by rw [h]; exact Ideal.subset_span rfl
    exact Ideal.prod_le_inf (s := Finset.univ) (f := fun i => Pof p ϑ (g i) ^ e i) hp |>
      fun h' => (Finset.inf_le (Finset.mem_univ i) : (Finset.univ.inf fun i => Pof p ϑ (g i) ^ e i) ≤ _) h'
  · intro h
    apply le_antisymm (H.prod_le g e hprod)
    rw [Ideal.prod_eq_iInf_of_pairwise_isCoprime]
    · rw [Ideal.span_le, Set.singleton_subset_iff, SetLike.mem_coe]
      simp only [Ideal.mem_iInf]
      intro i _
      exact h i
    · intro i _ j _ hij
      show IsCoprime (Pof p ϑ (g i) ^ e i) (Pof p ϑ (g j) ^ e j)
      apply IsCoprime.pow
      rw [Ideal.isCoprime_iff_sup_eq]
      exact Pof_sup_eq_top ϑ _ _ (hcop i j hij)

/-- in particular for an unramified prime (all `e_i = 1`) -/
theorem Ctx.prod_eq_of_unramified (H : Ctx p v ϑ F M) (g : ι → ℤ[X]) (e : ι → ℕ)
    (hprod : ∏ i, (g i).map (Int.castRingHom (ZMod p)) ^ e i = F.map (Int.castRingHom (ZMod p)))
    (hcop : ∀ i j, i ≠ j →
      IsCoprime ((g i).map (Int.castRingHom (ZMod p))) ((g j).map (Int.castRingHom (ZMod p))))
    (he : ∀ i, e i = 1) :
    ∏ i, Pof p ϑ (g i) ^ e i = Ideal.span {(p : R)} := by
  rw [H.prod_eq_iff g e hprod hcop]
  intro i
  rw [he i, pow_one]
  exact p_mem_Pof ϑ _

/-! ### Dedekind's criterion at one factor -/

section prime
variable [hp : Fact p.Prime]

/-- if `F = g^e · u + p · h` and the irreducible `ḡ ∣ F̄` does not divide `h̄`, then `p ∈ (p, g(ϑ))^e` -/
theorem Ctx.p_mem_pow_of_criterion (H : Ctx p v ϑ F M) (g u h : ℤ[X]) (e : ℕ)
    (hF : F = g ^ e * u + C (p : ℤ) * h)
    (hg : g.map (Int.castRingHom (ZMod p)) ∣ F.map (Int.castRingHom (ZMod p)))
    (hirr : Irreducible (g.map (Int.castRingHom (ZMod p))))
    (hndvd : ¬ g.map (Int.castRingHom (ZMod p)) ∣ h.map (Int.castRingHom (ZMod p))) :
    (p : R) ∈ Pof p ϑ g ^ e := by
  have hmax := H.Pof_isMaximal g hg hirr
  have hH : aeval ϑ h ∉ Pof p ϑ g := fun hh => hndvd ((H.aeval_mem_Pof_iff g hg h).mp hh)
  have hrel : (p : R) * aeval ϑ h = -(aeval ϑ g ^ e * aeval ϑ u) := by
    have := H.root
    rw [hF, map_add, map_mul, map_mul, map_pow, aeval_C] at this
    simp only [algebraMap_int_eq, eq_intCast, Int.cast_natCast] at this
    linear_combination this
  have hpH : (p : R) * aeval ϑ h ∈ Pof p ϑ g ^ e := by
    rw [hrel]
    exact neg_mem (Ideal.mul_mem_right _ _ (Ideal.pow_mem_pow (aeval_mem_Pof ϑ g) e))
  have hsup : Ideal.span {aeval ϑ h} ⊔ Pof p ϑ g = ⊤ := by
    by_contra hne
    have hle : Pof p ϑ g ≤ Ideal.span {aeval ϑ h} ⊔ Pof p ϑ g := le_sup_right
    have := hmax.eq_of_le hne hle
    apply hH
    rw [this]
    exact Ideal.mem_sup_left (Ideal.subset_span rfl)
  have hc : IsCoprime (Ideal.span {aeval ϑ h}) (Pof p ϑ g ^ e) :=
    (Ideal.isCoprime_iff_sup_eq.mpr hsup).pow_right
  obtain ⟨i, hi, j, hj, hij⟩ := Ideal.isCoprime_iff_exists.mp hc
  obtain ⟨a, rfl⟩ := Ideal.mem_span_singleton'.mp hi
  have : (p : R) = a * ((p : R) * aeval ϑ h) + (p : R) * j := by
    linear_combination (p : R) * hij.symm
  rw [this]
  exact Ideal.add_mem _ (Ideal.mul_mem_left _ _ hpH) (Ideal.mul_mem_left _ _ hj)

end prime

/-! ### Dedekind domains -/

section dedekind
variable [hp : Fact p.Prime] [IsDedekindDomain R]

/-- in a Dedekind domain (the maximal order) `∏ (p, g_i(ϑ))^{e_i} = pR`, by multiplicativity of the norm -/
theorem Ctx.prod_eq_of_dedekind (H : Ctx p v ϑ F M) (g : ι → ℤ[X]) (e : ι → ℕ)
    (hprod : ∏ i, (g i).map (Int.castRingHom (ZMod p)) ^ e i = F.map (Int.castRingHom (ZMod p)))
    (hm : ∀ i, ((g i).map (Int.castRingHom (ZMod p))).Monic) (he : ∀ i, e i ≠ 0) :
    ∏ i, Pof p ϑ (g i) ^ e i = Ideal.span {(p : R)} := by
  classical
  have : Module.Free ℤ R := Module.Free.of_equiv v.symm
  have hdvd : ∀ i, (g i).map (Int.castRingHom (ZMod p)) ∣ F.map (Int.castRingHom (ZMod p)) := by
    intro i
    rw [← hprod]
    exact (dvd_pow_self _ (he i)).trans (Finset.dvd_prod_of_mem _ (Finset.mem_univ i))
  have hN : ∀ i, Ideal.absNorm (Pof p ϑ (g i)) = p ^ ((g i).map (Int.castRingHom (ZMod p))).natDegree := by
    intro i
    rw [Ideal.absNorm_apply, Submodule.cardQuot_apply]
    exact H.card_quot_Pof (g i) (hdvd i) (hm i)
  have hNp : Ideal.absNorm (Ideal.span {(p : R)}) = p ^ n := by
    rw [Ideal.absNorm_apply, Submodule.cardQuot_apply]
    exact H.card_quot_p
  have hdeg : ∑ i, e i * ((g i).map (Int.castRingHom (ZMod p))).natDegree = n := by
    have h1 := congrArg natDegree hprod
    rw [H.monic.natDegree_map, H.deg, natDegree_prod_of_monic _ _ (fun i _ => (hm i).pow _)] at h1
    rw [← h1]
    exact Finset.sum_congr rfl (fun i _ => ((hm i).natDegree_pow _).symm)
  have hNprod : Ideal.absNorm (∏ i, Pof p ϑ (g i) ^ e i) = p ^ n := by
    rw [map_prod]
    simp only [map_pow, hN, ← pow_mul]
    rw [Finset.prod_pow_eq_pow_sum]
    congr 1
    rw [← hdeg]
    exact Finset.sum_congr rfl (fun i _ => mul_comm _ _)
  have hle := H.prod_le g e hprod
  obtain ⟨K, hK⟩ := Ideal.dvd_iff_le.mpr hle
  have h2 := congrArg Ideal.absNorm hK
  rw [map_mul, hNprod, hNp] at h2
  have hp0 : p ^ n ≠ 0 := pow_ne_zero _ hp.out.ne_zero
  have hK1 : Ideal.absNorm K = 1 := by
    have : p ^ n * 1 = p ^ n * Ideal.absNorm K := by rw [mul_one]; exact h2
    exact (Nat.eq_of_mul_eq_mul_left (Nat.pos_of_ne_zero hp0) this).symm
  rw [Ideal.absNorm_eq_one_iff] at hK1
  rw [hK, hK1, Ideal.mul_top]

end dedekind

/-- an integrally closed domain that is a finite free ℤ-module (the maximal order of a number field) is a
Dedekind domain -/
theorem isDedekindDomain_of_finite_int [IsDomain R] [IsIntegrallyClosed R] (v : R ≃ₗ[ℤ] (Fin n → ℤ)) :
    IsDedekindDomain R := by
  have hfin : Module.Finite ℤ R := Module.Finite.equiv v.symm
  have hint : Algebra.IsIntegral ℤ R := Algebra.IsIntegral.of_finite ℤ R
  have hnoeth : IsNoetherianRing R := IsNoetherianRing.of_finite ℤ R
  have hdim : Ring.DimensionLEOne R := Ring.DimensionLEOne.of_isIntegral (R := ℤ) R
  exact { }

end NTV.KD
