import NTV.Proofs.Lemmas.Round2RingE
/-! Round 2, integer level: the row lattices computed by `one_step` —
`ip` (kernel of `[phi ; p·I]`, truncated) and one iteration `upStep` of the `U_p` loop. -/
open Matrix Finset
namespace NTV.Round2
open NTV.Ord NTV.PolyG
open NTV.Hnf (InLattice)

/-- `v·Φ + p·d = 0` for some `d` iff `p` divides every entry of `v·Φ` -/
theorem exists_smul_iff_dvd {n : ℕ} (p : ℤ) (x : Fin n → ℤ) :
    (∃ d : Fin n → ℤ, x + p • d = 0) ↔ ∀ k, p ∣ x k := by
  constructor
  · rintro ⟨d, hd⟩ k
    have := congrFun hd k
    simp only [Pi.add_apply, Pi.smul_apply, smul_eq_mul, Pi.zero_apply] at this
    exact ⟨-d k, by linarith⟩
  · intro hk
    choose d hd using hk
    refine ⟨fun k => -d k, ?_⟩
    funext k
    simp only [Pi.add_apply, Pi.smul_apply, smul_eq_mul, Pi.zero_apply]
    rw [hd k]; ring

/-- **the lattice `ip`** (integer level): the truncated normal form of the kernel of `[Φ ; p·I]` generates
`{v | p divides every entry of v·Φ}` -/
theorem ip_lattice_int (n : ℕ) (hn : 0 < n) (p : ℤ) (phiw K0 ip0 : IMat)
    (rphiw : NTV.Hnf.Rect n n phiw) (hK : kernelM (phiw ++ scalarRows n p) = .ok K0)
    (hip0 : hnfM K0 = .ok ip0) :
    ∃ r0, NTV.Hnf.Rect r0 n (ip0.map (fun row => row.take n)) ∧
      ∀ v : Fin n → ℤ, InLattice r0 n (ip0.map (fun row => row.take n)) v ↔
        ∀ k, p ∣ (v ᵥ* NTV.Hnf.toM n n phiw) k := by
  have rstack := NTV.Hnf.rect_append _ _ _ _ _ rphiw (scalarRows_rect n p)
  obtain ⟨k0, rK, hKlat⟩ := kernelM_lattice _ (n + n) n rstack (by omega) hn K0 hK
  obtain ⟨r0, rip0, hiplat⟩ := hnfM_lattice K0 k0 (n + n) rK (by omega) ip0 hip0
  refine ⟨r0, rect_map_take ip0 r0 (n + n) n rip0 (by omega), ?_⟩
  intro v
  rw [lattice_map_take ip0 r0 n n v, ← exists_smul_iff_dvd p]
  constructor
  · rintro ⟨w, hw, hwv⟩
    have h0 := (hKlat w).mp ((hiplat w).mp hw)
    rw [NTV.Hnf.vecMul_append phiw (scalarRows n p) n n n rphiw, scalarRows_toM] at h0
    refine ⟨fun i => w (Fin.natAdd n i), ?_⟩
    have e : (fun i => w (Fin.castAdd n i)) = v := funext hwv
    rw [e] at h0
    rw [← h0]
    congr 1
    rw [Matrix.vecMul_smul, Matrix.vecMul_one]
  · rintro ⟨d, hd⟩
    refine ⟨Fin.addCases v d, ?_, fun i => by simp⟩
    apply (hiplat _).mpr
    apply (hKlat _).mpr
    rw [NTV.Hnf.vecMul_append phiw (scalarRows n p) n n n rphiw, scalarRows_toM]
    simp only [Fin.addCases_left, Fin.addCases_right]
    rw [Matrix.vecMul_smul, Matrix.vecMul_one]
    exact hd

/-- the rows `p·ip` built by the inner loop of `upStep` -/
theorem bot_spec (n r0 : ℕ) (p : ℤ) (ip bot : IMat) (hip : NTV.Hnf.Rect r0 n ip)
    (h : tabulate ip.length (fun i => tabulate n (fun j => do
      let e ← idx (← idx ip i) j
      pure (e * p))) = .ok bot) :
    NTV.Hnf.Rect r0 n bot ∧ NTV.Hnf.toM r0 n bot = p • NTV.Hnf.toM r0 n ip := by
  obtain ⟨hl, hrow⟩ := tabulate_inv _ _ _ h
  rw [hip.1] at hl hrow
  have hrows : ∀ i (hi : i < r0), ∃ (hb : i < bot.length), (bot[i]).length = n ∧
      ∀ j < n, (bot[i]).getD j 0 = NTV.Hnf.ent ip i j * p := by
    intro i hi
    have hb : i < bot.length := by omega
    have h1 := hrow i hi hb
    obtain ⟨hl2, hcol⟩ := tabulate_inv _ _ _ h1
    refine ⟨hb, hl2, ?_⟩
    intro j hj
    have hj' : j < (bot[i]).length := by omega
    have h2 := hcol j hj hj'
    have hi' : i < ip.length := by rw [hip.1]; exact hi
    rw [idx_ok ip i hi'] at h2
    simp only [bind, Except.bind] at h2
    have hjr : j < (ip[i]).length := by rw [hip.2 _ (List.getElem_mem hi')]; exact hj
    rw [idx_ok _ j hjr] at h2
    simp only [pure, Except.pure, Except.ok.injEq] at h2
    rw [getD_eq_getElem _ _ _ hj', ← h2]
    simp [NTV.Hnf.ent, List.getD_eq_getElem?_getD, List.getElem?_eq_getElem hi', List.getElem?_eq_getElem hjr]
  refine ⟨⟨hl, ?_⟩, ?_⟩
  · intro x hx
    obtain ⟨i, hi, rfl⟩ := List.mem_iff_getElem.mp hx
    obtain ⟨_, h2, _⟩ := hrows i (by omega)
    exact h2
  · ext i j
    obtain ⟨hb, _, h3⟩ := hrows i.val i.isLt
    simp only [NTV.Hnf.toM, Matrix.smul_apply, smul_eq_mul]
    have : NTV.Hnf.ent bot i.val j.val = (bot[i.val]).getD j.val 0 := by
      simp [NTV.Hnf.ent, List.getD_eq_getElem?_getD, List.getElem?_eq_getElem hb]
    rw [this, h3 j.val j.isLt]; ring

/-- **one iteration of the `U_p` loop** (integer level): the new generators span
`{c·up | c·top ∈ p·lattice(ip)}` where `top_j = mul_mod_p(η, up_j)` -/
theorem upStep_lattice_int (n : ℕ) (hn : 0 < n) (p p2 : ℤ) (t2 : Table) (ct2 : Cube n t2) (ip up : IMat)
    (etai : List Int) (r0 r : ℕ) (hr0 : 0 < r0) (hip : NTV.Hnf.Rect r0 n ip) (hup : NTV.Hnf.Rect r n up)
    (he : etai.length = n) (up' : IMat) (h : upStep n p p2 t2 ip up etai = .ok up') :
    ∃ r', NTV.Hnf.Rect r' n up' ∧ ∀ v : Fin n → ℤ, InLattice r' n up' v ↔
      ∃ c : Fin r → ℤ, v = c ᵥ* NTV.Hnf.toM r n up ∧
        ∃ d : Fin r0 → ℤ, c ᵥ* NTV.Hnf.toM r n (up.map (fun uj => mulModP etai uj t2 p2)) +
          p • (d ᵥ* NTV.Hnf.toM r0 n ip) = 0 := by
  unfold upStep at h
  obtain ⟨bot, hbot, h⟩ := (bind_ok _ _ _).mp h
  obtain ⟨K, hK, h⟩ := (bind_ok _ _ _).mp h
  obtain ⟨N0, hN0, h⟩ := (bind_ok _ _ _).mp h
  obtain ⟨rbot, hbotM⟩ := bot_spec n r0 p ip bot hip hbot
  have rtop : NTV.Hnf.Rect r n (up.map (fun uj => mulModP etai uj t2 p2)) := by
    refine ⟨by simp [hup.1], ?_⟩
    intro x hx
    obtain ⟨y, _, rfl⟩ := List.mem_map.mp hx
    exact mulModP_length _ _ _ _ _ he ct2
  have rstack := NTV.Hnf.rect_append _ _ _ _ _ rtop rbot
  obtain ⟨k0, rK, hKlat⟩ := kernelM_lattice _ (r + r0) n rstack (by omega) hn K hK
  obtain ⟨s, rN0, hN0lat⟩ := hnfM_lattice K k0 (r + r0) rK (by omega) N0 hN0
  have rN : NTV.Hnf.Rect s r (N0.map (fun row => row.take up.length)) := by
    rw [hup.1]; exact rect_map_take N0 s (r + r0) r rN0 (by omega)
  have rfin : NTV.Hnf.Rect s n ((N0.map (fun row => row.take up.length)).map (fun row => linComb n row up)) := by
    refine ⟨by simp [rN0.1], ?_⟩
    intro x hx
    obtain ⟨y, _, rfl⟩ := List.mem_map.mp hx
    exact linComb_length n _ up hup.2
  obtain ⟨r', rup', hup'lat⟩ := hnfM_lattice _ s n rfin hn up' h
  refine ⟨r', rup', ?_⟩
  intro v
  rw [hup'lat v, lattice_map_linComb n r s _ up rN hup v]
  constructor
  · rintro ⟨c, hc, rfl⟩
    refine ⟨c, rfl, ?_⟩
    rw [hup.1, lattice_map_take N0 s r r0 c] at hc
    obtain ⟨w, hw, hwc⟩ := hc
    have h0 := (hKlat w).mp ((hN0lat w).mp hw)
    rw [NTV.Hnf.vecMul_append _ bot r r0 n rtop, hbotM] at h0
    have e : (fun i => w (Fin.castAdd r0 i)) = c := funext hwc
    rw [e, Matrix.vecMul_smul] at h0
    exact ⟨fun i => w (Fin.natAdd r i), h0⟩
  · rintro ⟨c, rfl, d, hd⟩
    refine ⟨c, ?_, rfl⟩
    rw [hup.1, lattice_map_take N0 s r r0 c]
    refine ⟨Fin.addCases c d, ?_, fun i => by simp⟩
    apply (hN0lat _).mpr
    apply (hKlat _).mpr
    rw [NTV.Hnf.vecMul_append _ bot r r0 n rtop, hbotM]
    simp only [Fin.addCases_left, Fin.addCases_right]
    rw [Matrix.vecMul_smul]
    exact hd

/-- the last normal form `u = HNF(up ++ p·I)` generates `lattice(up) + p·ℤⁿ` -/
theorem u_lattice_int (n r : ℕ) (hn : 0 < n) (p : ℤ) (up u : IMat) (hup : NTV.Hnf.Rect r n up)
    (h : hnfM (up ++ scalarRows n p) = .ok u) :
    ∃ ru, NTV.Hnf.Rect ru n u ∧ ∀ v : Fin n → ℤ, InLattice ru n u v ↔
      ∃ a : Fin n → ℤ, InLattice r n up a ∧ ∃ d : Fin n → ℤ, v = a + p • d := by
  have rstack := NTV.Hnf.rect_append up (scalarRows n p) r n n hup (scalarRows_rect n p)
  obtain ⟨ru, rU, hlat⟩ := hnfM_lattice _ (r + n) n rstack hn u h
  refine ⟨ru, rU, ?_⟩
  intro v
  rw [hlat v, NTV.Hnf.lattice_append up (scalarRows n p) r n n hup, scalarRows_toM]
  constructor
  · rintro ⟨c, d, rfl⟩
    exact ⟨_, ⟨c, rfl⟩, d, by rw [Matrix.vecMul_smul, Matrix.vecMul_one]⟩
  · rintro ⟨a, ⟨c, rfl⟩, d, rfl⟩
    exact ⟨c, d, by rw [Matrix.vecMul_smul, Matrix.vecMul_one]⟩

end NTV.Round2
