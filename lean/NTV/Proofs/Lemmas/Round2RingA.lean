import Mathlib.Algebra.CharP.Lemmas
import Mathlib.Algebra.Ring.Subring.Basic
import Mathlib.Algebra.BigOperators.Fin
import Mathlib.RingTheory.Coprime.Lemmas
/-! Round 2 (Pohst–Zassenhaus), the commutative algebra. `K` is a commutative ring, `O` a subring, `p` a prime
number. `pO O p = p·O`, `radQ O p q = {x ∈ O | x^q ∈ pO}` (for `q = p^k` an ideal of `O`: Frobenius),
`multR I = {x ∈ K | x·I ⊆ I}` (the multiplier ring), the description of `(1/p)(U + pO)` as the multiplier ring,
and the maximality argument: an over-ring `S ⊇ O` with `p^r S ⊆ O` is contained in `O` as soon as the
multiplier ring of the `p`-radical is. No list-level model is involved here. -/
namespace NTV.R2Abs

variable {K : Type*} [CommRing K]

/-- `p·O` -/
def pO (O : Subring K) (p : ℕ) : Set K := {x | ∃ y ∈ O, x = (p : K) * y}

theorem pO_sub {O : Subring K} {p : ℕ} {x : K} (h : x ∈ pO O p) : x ∈ O := by
  obtain ⟨y, hy, rfl⟩ := h
  exact O.mul_mem (natCast_mem O p) hy

theorem pO_zero (O : Subring K) (p : ℕ) : (0 : K) ∈ pO O p := ⟨0, O.zero_mem, by simp⟩

theorem pO_add {O : Subring K} {p : ℕ} {x y : K} (hx : x ∈ pO O p) (hy : y ∈ pO O p) : x + y ∈ pO O p := by
  obtain ⟨a, ha, rfl⟩ := hx
  obtain ⟨b, hb, rfl⟩ := hy
  exact ⟨a + b, O.add_mem ha hb, by ring⟩

theorem pO_mul {O : Subring K} {p : ℕ} {a x : K} (ha : a ∈ O) (hx : x ∈ pO O p) : a * x ∈ pO O p := by
  obtain ⟨b, hb, rfl⟩ := hx
  exact ⟨a * b, O.mul_mem ha hb, by ring⟩

theorem pO_mul' {O : Subring K} {p : ℕ} {a x : K} (ha : a ∈ O) (hx : x ∈ pO O p) : x * a ∈ pO O p := by
  rw [mul_comm]; exact pO_mul ha hx

theorem pO_pow {O : Subring K} {p : ℕ} {x : K} (hx : x ∈ pO O p) (t : ℕ) (ht : 1 ≤ t) : x ^ t ∈ pO O p := by
  obtain ⟨s, rfl⟩ : ∃ s, t = s + 1 := ⟨t - 1, by omega⟩
  rw [pow_succ]
  exact pO_mul (O.pow_mem (pO_sub hx) s) hx

/-- `{x ∈ O | x^q ∈ pO}` -/
def radQ (O : Subring K) (p q : ℕ) : Set K := {x | x ∈ O ∧ x ^ q ∈ pO O p}

/-- an ideal of the subring `O`, as a subset of `K` -/
structure IdealIn (O : Subring K) (I : Set K) : Prop where
  sub : ∀ x ∈ I, x ∈ O
  zero : (0 : K) ∈ I
  add : ∀ x ∈ I, ∀ y ∈ I, x + y ∈ I
  mul : ∀ a ∈ O, ∀ x ∈ I, a * x ∈ I

theorem IdealIn.neg {O : Subring K} {I : Set K} (h : IdealIn O I) {x : K} (hx : x ∈ I) : -x ∈ I := by
  have := h.mul (-1) (O.neg_mem O.one_mem) x hx
  simpa using this

theorem IdealIn.sub' {O : Subring K} {I : Set K} (h : IdealIn O I) {x y : K} (hx : x ∈ I) (hy : y ∈ I) :
    x - y ∈ I := by
  rw [sub_eq_add_neg]; exact h.add x hx _ (h.neg hy)

theorem IdealIn.zsmul {O : Subring K} {I : Set K} (h : IdealIn O I) (c : ℤ) {x : K} (hx : x ∈ I) :
    c • x ∈ I := by
  rw [zsmul_eq_mul]
  exact h.mul _ (intCast_mem O c) x hx

theorem IdealIn.sum {O : Subring K} {I : Set K} (h : IdealIn O I) {ι : Type*} (s : Finset ι) (g : ι → K)
    (hg : ∀ i ∈ s, g i ∈ I) : ∑ i ∈ s, g i ∈ I := by
  classical
  induction s using Finset.induction_on with
  | empty => simpa using h.zero
  | insert a s ha ih =>
    rw [Finset.sum_insert ha]
    exact h.add _ (hg a (by simp)) _ (ih (fun i hi => hg i (by simp [hi])))

/-- Frobenius: for a prime `p` and `q = p^k` the set `radQ O p q` is an ideal of `O` -/
theorem radQ_ideal (O : Subring K) (p k : ℕ) (hp : p.Prime) : IdealIn O (radQ O p (p ^ k)) where
  sub := fun x hx => hx.1
  zero := ⟨O.zero_mem, by
    rw [zero_pow (pow_ne_zero _ hp.ne_zero)]; exact pO_zero O p⟩
  add := by
    rintro x ⟨hx, hxq⟩ y ⟨hy, hyq⟩
    refine ⟨O.add_mem hx hy, ?_⟩
    obtain ⟨r, hr⟩ := exists_add_pow_prime_pow_eq hp (⟨x, hx⟩ : O) ⟨y, hy⟩ k
    have hr' := congrArg (Subtype.val) hr
    simp only [Subring.coe_pow, Subring.coe_add, Subring.coe_mul, Subring.coe_natCast] at hr'
    rw [hr']
    refine pO_add (pO_add hxq hyq) ⟨x * y * r.1, O.mul_mem (O.mul_mem hx hy) r.2, by ring⟩
  mul := by
    rintro a ha x ⟨hx, hxq⟩
    refine ⟨O.mul_mem ha hx, ?_⟩
    rw [mul_pow]
    exact pO_mul (O.pow_mem ha _) hxq

theorem pO_sub_radQ (O : Subring K) (p q : ℕ) (hq : 1 ≤ q) {x : K} (hx : x ∈ pO O p) : x ∈ radQ O p q :=
  ⟨pO_sub hx, pO_pow hx q hq⟩

theorem p_mem_radQ (O : Subring K) (p q : ℕ) (hq : 1 ≤ q) : (p : K) ∈ radQ O p q :=
  pO_sub_radQ O p q hq ⟨1, O.one_mem, by simp⟩

/-- the multiplier set `{x | x·I ⊆ I}` -/
def multR (I : Set K) : Set K := {x | ∀ y ∈ I, x * y ∈ I}

/-- the multiplier ring of an ideal of `O` -/
def multRing (O : Subring K) (I : Set K) (h : IdealIn O I) : Subring K where
  carrier := multR I
  mul_mem' := by
    intro a b ha hb y hy
    rw [mul_assoc]
    exact ha _ (hb y hy)
  one_mem' := by intro y hy; simpa using hy
  add_mem' := by
    intro a b ha hb y hy
    rw [add_mul]
    exact h.add _ (ha y hy) _ (hb y hy)
  zero_mem' := by intro y _; simpa using h.zero
  neg_mem' := by
    intro a ha y hy
    rw [neg_mul]
    exact h.neg (ha y hy)

theorem mem_multRing {O : Subring K} {I : Set K} (h : IdealIn O I) (x : K) :
    x ∈ multRing O I h ↔ ∀ y ∈ I, x * y ∈ I := Iff.rfl

theorem le_multRing (O : Subring K) (I : Set K) (h : IdealIn O I) : O ≤ multRing O I h :=
  fun a ha y hy => h.mul a ha y hy

/-- `p·I` -/
def pI (I : Set K) (p : ℕ) : Set K := {x | ∃ y ∈ I, x = (p : K) * y}

/-- the set computed by the `U_p` loop of Round 2: `{u ∈ I | u·I ⊆ p·I}` -/
def U0 (I : Set K) (p : ℕ) : Set K := {x | x ∈ I ∧ ∀ y ∈ I, y * x ∈ pI I p}

/-- **the new order is the multiplier ring**: `p·x ∈ U0 + pO ↔ x·I ⊆ I` (for an ideal `I ∋ p` of `O`,
`K` without `p`-torsion) -/
theorem mem_multR_iff (O : Subring K) (I : Set K) (h : IdealIn O I) (p : ℕ) (hpI : (p : K) ∈ I)
    (hcancel : ∀ x y : K, (p : K) * x = p * y → x = y) (x : K) :
    (∃ u ∈ U0 I p, ∃ w ∈ pO O p, (p : K) * x = u + w) ↔ x ∈ multR I := by
  constructor
  · rintro ⟨u, ⟨_, hu⟩, w, ⟨w', hw', rfl⟩, hx⟩ y hy
    obtain ⟨t, ht, hty⟩ := hu y hy
    have : x * y = t + w' * y := by
      apply hcancel
      calc (p : K) * (x * y) = (p * x) * y := by ring
        _ = (u + p * w') * y := by rw [hx]
        _ = y * u + p * (w' * y) := by ring
        _ = p * (t + w' * y) := by rw [hty]; ring
    rw [this]
    exact h.add _ ht _ (h.mul _ hw' _ hy)
  · intro hx
    refine ⟨p * x, ⟨?_, ?_⟩, 0, pO_zero O p, by simp⟩
    · rw [mul_comm]; exact hx _ hpI
    · intro y hy
      exact ⟨x * y, hx y hy, by ring⟩

/-- **the maximality argument** (Pohst–Zassenhaus). `S ⊇ O` is a ring with `p^r·S ⊆ O`; the `p`-radical
`I = radQ O p q` is generated over ℤ by finitely many `η_j`, and it IS the radical: `z ∈ O`, `z^t ∈ pO` ⇒
`z^q ∈ pO`. If every element of `S` that multiplies `I` into itself lies in `O`, then `S ⊆ O`. -/
theorem over_le_of_mult (O S : Subring K) (p r q : ℕ) (hOS : O ≤ S)
    (hpr : ∀ x ∈ S, (p : K) ^ r * x ∈ O)
    (hrad : ∀ z ∈ O, ∀ t : ℕ, z ^ t ∈ pO O p → z ^ q ∈ pO O p)
    (m : ℕ) (η : Fin m → K) (hη : ∀ j, η j ∈ radQ O p q)
    (hgen : ∀ y ∈ radQ O p q, ∃ c : Fin m → ℤ, y = ∑ j, c j • η j)
    (hmult : ∀ x ∈ S, (∀ y ∈ radQ O p q, x * y ∈ radQ O p q) → x ∈ O) : S ≤ O := by
  intro x0 hx0
  by_contra hx0O
  -- a power of each generator pushes `S` into `O`
  have hpow : ∀ y ∈ radQ O p q, ∀ x ∈ S, y ^ (q * r) * x ∈ O := by
    rintro y ⟨hy, w, hw, hyw⟩ x hx
    rw [pow_mul, hyw, mul_pow]
    have := O.mul_mem (O.pow_mem hw r) (hpr x hx)
    convert this using 1
    ring
  -- step A: kill the generators one at a time
  have stepA : ∀ j : ℕ, j ≤ m → ∃ x ∈ S, x ∉ O ∧ ∀ i : Fin m, i.val < j → x * η i ∈ O := by
    intro j
    induction j with
    | zero => intro _; exact ⟨x0, hx0, hx0O, fun i hi => absurd hi (by omega)⟩
    | succ j ih =>
      intro hj
      obtain ⟨x, hxS, hxO, hxi⟩ := ih (by omega)
      set e : K := η ⟨j, by omega⟩ with he
      have heI : e ∈ radQ O p q := hη _
      have heO : e ∈ O := heI.1
      have hex : ∃ N, e ^ N * x ∈ O := ⟨q * r, hpow e heI x hxS⟩
      classical
      set N := Nat.find hex with hN
      have hNspec : e ^ N * x ∈ O := Nat.find_spec hex
      have hN0 : N ≠ 0 := by
        intro h0
        rw [h0] at hNspec
        simp only [pow_zero, one_mul] at hNspec
        exact hxO hNspec
      obtain ⟨N', hN'⟩ : ∃ N', N = N' + 1 := ⟨N - 1, by omega⟩
      have hmin : e ^ N' * x ∉ O := Nat.find_min hex (by omega)
      refine ⟨e ^ N' * x, S.mul_mem (S.pow_mem (hOS heO) _) hxS, hmin, ?_⟩
      intro i hi
      by_cases hij : i.val < j
      · have := O.mul_mem (O.pow_mem heO N') (hxi i hij)
        convert this using 1
        ring
      · have : i = ⟨j, by omega⟩ := Fin.ext (show i.val = j by omega)
        rw [this, ← he]
        rw [hN'] at hNspec
        convert hNspec using 1
        ring
  obtain ⟨x, hxS, hxO, hxη⟩ := stepA m le_rfl
  apply hxO
  apply hmult x hxS
  intro y hy
  obtain ⟨c, hc⟩ := hgen y hy
  have hxyO : x * y ∈ O := by
    rw [hc, Finset.mul_sum]
    apply O.sum_mem
    intro j _
    rw [mul_smul_comm]
    exact O.zsmul_mem (hxη j j.isLt) _
  refine ⟨hxyO, ?_⟩
  apply hrad _ hxyO (q * (r + 1))
  obtain ⟨hyO, w, hw, hyw⟩ := hy
  rw [mul_pow, pow_mul y, hyw, mul_pow]
  refine ⟨(p : K) ^ r * x ^ (q * (r + 1)) * w ^ (r + 1), ?_, by ring⟩
  exact O.mul_mem (hpr _ (S.pow_mem hxS _)) (O.pow_mem hw _)

/-- `O` is `p`-maximal: no strictly larger subring `S` with `p^r·S ⊆ O` -/
def PMax (O : Subring K) (p : ℕ) : Prop :=
  ∀ S : Subring K, O ≤ S → (∃ r : ℕ, ∀ x ∈ S, (p : K) ^ r * x ∈ O) → S ≤ O

/-- `p`-maximality passes to an over-ring of index prime to `p`: if `m·O₂ ⊆ O ⊆ O₂` with `gcd(m, p) = 1` and
`O` is `p`-maximal then so is `O₂` -/
theorem PMax.of_coprime (O O₂ : Subring K) (p m : ℕ) (h : PMax O p) (hle : O ≤ O₂)
    (hm : ∀ x ∈ O₂, (m : K) * x ∈ O) (hcop : Nat.Coprime m p) : PMax O₂ p := by
  intro S hS ⟨r, hr⟩
  -- the ring O + m·S
  let S' : Subring K :=
    { carrier := {z | ∃ a ∈ O, ∃ s ∈ S, z = a + (m : K) * s}
      mul_mem' := by
        rintro _ _ ⟨a, ha, s, hs, rfl⟩ ⟨b, hb, t, ht, rfl⟩
        refine ⟨a * b, O.mul_mem ha hb, a * t + b * s + (m : K) * (s * t), ?_, by ring⟩
        have haS : a ∈ S := hS (hle ha)
        have hbS : b ∈ S := hS (hle hb)
        exact S.add_mem (S.add_mem (S.mul_mem haS ht) (S.mul_mem hbS hs))
          (S.mul_mem (natCast_mem S m) (S.mul_mem hs ht))
      one_mem' := ⟨1, O.one_mem, 0, S.zero_mem, by simp⟩
      add_mem' := by
        rintro _ _ ⟨a, ha, s, hs, rfl⟩ ⟨b, hb, t, ht, rfl⟩
        exact ⟨a + b, O.add_mem ha hb, s + t, S.add_mem hs ht, by ring⟩
      zero_mem' := ⟨0, O.zero_mem, 0, S.zero_mem, by simp⟩
      neg_mem' := by
        rintro _ ⟨a, ha, s, hs, rfl⟩
        exact ⟨-a, O.neg_mem ha, -s, S.neg_mem hs, by ring⟩ }
  have hOS' : O ≤ S' := fun a ha => ⟨a, ha, 0, S.zero_mem, by simp⟩
  have hS'O : S' ≤ O := by
    apply h S' hOS'
    refine ⟨r, ?_⟩
    rintro _ ⟨a, ha, s, hs, rfl⟩
    have h1 : (p : K) ^ r * a ∈ O := O.mul_mem (O.pow_mem (natCast_mem O p) r) ha
    have h2 : (m : K) * ((p : K) ^ r * s) ∈ O := hm _ (hr s hs)
    have := O.add_mem h1 h2
    convert this using 1
    ring
  -- m·S ⊆ O₂ and p^r·S ⊆ O₂ with gcd(m, p^r) = 1
  intro s hs
  have h1 : (m : K) * s ∈ O₂ := hle (hS'O ⟨0, O.zero_mem, s, hs, by simp⟩)
  have h2 : (p : K) ^ r * s ∈ O₂ := hr s hs
  have hc : Nat.Coprime m (p ^ r) := Nat.Coprime.pow_right r hcop
  have hb := Nat.isCoprime_iff_coprime.mpr hc
  obtain ⟨u, v, huv⟩ := hb
  have hK : ((u : ℤ) : K) * (m : K) + ((v : ℤ) : K) * (p : K) ^ r = 1 := by
    have := congrArg (fun z : ℤ => (z : K)) huv
    simpa using this
  have : s = ((u : ℤ) : K) * ((m : K) * s) + ((v : ℤ) : K) * ((p : K) ^ r * s) := by
    calc s = (((u : ℤ) : K) * (m : K) + ((v : ℤ) : K) * (p : K) ^ r) * s := by rw [hK, one_mul]
      _ = _ := by ring
  rw [this]
  exact O₂.add_mem (O₂.mul_mem (intCast_mem O₂ u) h1) (O₂.mul_mem (intCast_mem O₂ v) h2)

end NTV.R2Abs
