import NTV.Model.PolyG
import Mathlib.Algebra.Polynomial.Basic
import Mathlib.Algebra.Polynomial.Coeff
import Mathlib.Algebra.Polynomial.Degree.Lemmas
import Mathlib.Tactic
open Polynomial
namespace NTV.PolyG
variable {R : Type} [CommRing R] [DecidableEq R]

noncomputable def toPoly : List R → R[X]
  | [] => 0
  | c :: cs => C c + X * toPoly cs

theorem toPoly_addRaw (a b : List R) : toPoly (addRaw a b) = toPoly a + toPoly b := by
  fun_induction addRaw a b with
  | case1 b => simp [toPoly]
  | case2 a h => simp [toPoly]
  | case3 x xs y ys ih => simp only [toPoly, ih, C_add]; ring

theorem toPoly_subRaw (a b : List R) : toPoly (subRaw a b) = toPoly a - toPoly b := by
  fun_induction subRaw a b with
  | case1 a => simp [toPoly]
  | case2 y ys ih => simp only [toPoly, ih, C_neg]; ring
  | case3 x xs y ys ih => simp only [toPoly, ih, C_sub]; ring

theorem toPoly_smulRaw (c : R) (a : List R) : toPoly (smulRaw c a) = C c * toPoly a := by
  induction a with
  | nil => simp [smulRaw, toPoly]
  | cons x xs ih =>
    simp only [smulRaw, List.map_cons, toPoly, C_mul] at ih ⊢
    rw [ih]; ring

theorem toPoly_mulRaw (a b : List R) : toPoly (mulRaw a b) = toPoly a * toPoly b := by
  induction a with
  | nil => simp [mulRaw, toPoly]
  | cons x xs ih => simp only [mulRaw, toPoly_addRaw, toPoly_smulRaw, toPoly, ih, C_0]; ring

theorem toPoly_append_zero (l : List R) : toPoly (l ++ [0]) = toPoly l := by
  induction l with
  | nil => simp [toPoly]
  | cons x xs ih => simp [toPoly, ih]

theorem toPoly_reverse_dropWhile (l : List R) :
    toPoly ((l.dropWhile (fun x => decide (x = 0))).reverse) = toPoly l.reverse := by
  induction l with
  | nil => rfl
  | cons x xs ih =>
    by_cases hx : x = 0
    · subst hx
      simp only [List.dropWhile_cons, decide_true, ↓reduceIte, List.reverse_cons, ih, toPoly_append_zero]
    · simp [List.dropWhile_cons, hx]

theorem toPoly_fromRaw (l : List R) : toPoly (fromRaw l) = toPoly l := by
  unfold fromRaw
  rw [toPoly_reverse_dropWhile, List.reverse_reverse]

theorem toPoly_replicate_append (i : Nat) (l : List R) : toPoly (List.replicate i 0 ++ l) = X ^ i * toPoly l := by
  induction i with
  | zero => simp
  | succ i ih => simp only [List.replicate_succ, List.cons_append, toPoly, ih, C_0]; ring

theorem coeff_toPoly (l : List R) (i : Nat) : (toPoly l).coeff i = l.getD i 0 := by
  induction l generalizing i with
  | nil => simp [toPoly]
  | cons x xs ih =>
    cases i with
    | zero => simp [toPoly]
    | succ i => simp [toPoly, ih, coeff_X_mul]

/-- identity maintained by the long-division loop, for any choice of quotient coefficients -/
theorem divLoop_identity (b : List R) (coefOf : R → R) (bdeg : Nat) (i : Nat) (tmp acc : List R) :
    toPoly (divLoop b coefOf bdeg i tmp acc).2 + toPoly (divLoop b coefOf bdeg i tmp acc).1 * toPoly b
      = toPoly tmp + X ^ i * toPoly acc * toPoly b := by
  induction i generalizing tmp acc with
  | zero => simp [divLoop]
  | succ i ih =>
    simp only [divLoop]
    rw [ih, toPoly_subRaw, toPoly_replicate_append, toPoly_smulRaw]
    simp only [toPoly]
    ring

theorem getD_subRaw (a b : List R) (j : Nat) : (subRaw a b).getD j 0 = a.getD j 0 - b.getD j 0 := by
  rw [← coeff_toPoly, toPoly_subRaw, coeff_sub, coeff_toPoly, coeff_toPoly]

theorem getD_shift_smul (i : Nat) (c : R) (b : List R) (j : Nat) :
    (List.replicate i 0 ++ smulRaw c b).getD j 0 = if j < i then 0 else c * b.getD (j - i) 0 := by
  rw [← coeff_toPoly, toPoly_replicate_append, toPoly_smulRaw, coeff_X_pow_mul', coeff_C_mul, coeff_toPoly]
  split <;> rename_i h
  · have : ¬ j < i := by omega
    simp [this]
  · have : j < i := by omega
    simp [this]

/-- degree part: if every chosen coefficient cancels the current top entry, the remainder vanishes
from index `bdeg` on. -/
theorem divLoop_degree (b : List R) (bdeg : Nat) (hb : b.length = bdeg + 1) (coefOf : R → R)
    (hcancel : ∀ t, coefOf t * b.getD bdeg 0 = t) (i : Nat) (tmp acc : List R)
    (hZ : ∀ j, i + bdeg ≤ j → tmp.getD j 0 = 0) :
    ∀ j, bdeg ≤ j → (divLoop b coefOf bdeg i tmp acc).2.getD j 0 = 0 := by
  induction i generalizing tmp acc with
  | zero => intro j hj; simp only [divLoop]; exact hZ j (by omega)
  | succ i ih =>
    simp only [divLoop]
    apply ih
    intro j hj
    rw [getD_subRaw, getD_shift_smul]
    have : ¬ j < i := by omega
    simp only [this, ↓reduceIte]
    by_cases hje : j = i + bdeg
    · subst hje
      have e : i + bdeg - i = bdeg := by omega
      rw [e, hcancel]; ring
    · have h1 : tmp.getD j 0 = 0 := hZ j (by omega)
      have h2 : b.getD (j - i) 0 = 0 := by
        simp only [List.getD_eq_getElem?_getD]
        have : b[j - i]? = none := by simp; omega
        simp [this]
      rw [h1, h2]; ring

end NTV.PolyG
