import NTV.Proofs.Lemmas.PolyRing
open Polynomial
namespace NTV.PolyG

theorem toPoly_map_mul_right (c : Int) (l : List Int) : toPoly (l.map (· * c)) = C c * toPoly l := by
  induction l with
  | nil => simp [toPoly]
  | cons x xs ih => simp only [List.map_cons, toPoly, ih, C_mul]; ring

theorem getD_map_mul_right (c : Int) (l : List Int) (j : Nat) : (l.map (· * c)).getD j 0 = l.getD j 0 * c := by
  simp only [List.getD_eq_getElem?_getD, List.getElem?_map]
  cases l[j]? <;> simp

theorem getD_of_length_le {α : Type} [Zero α] (l : List α) (j : Nat) (h : l.length ≤ j) : l.getD j 0 = 0 := by
  simp only [List.getD_eq_getElem?_getD]
  have : l[j]? = none := by simp; omega
  simp [this]

/-- Degree part of the pseudo-division contract: with every coefficient of `tmp` divisible by
`lcb^i` and `tmp` vanishing from index `i + bdeg` on, the loop ends with a remainder vanishing from
index `bdeg` on; every truncated division `top / lcb` performed on the way is exact. -/
theorem pdivLoop_degree (b : List Int) (bdeg : Nat) (hb : b.length = bdeg + 1) (lcb : Int)
    (hlc : b.getD bdeg 0 = lcb) (hlc0 : lcb ≠ 0) (i : Nat) (tmp acc : List Int)
    (hD : ∀ j, lcb ^ i ∣ tmp.getD j 0) (hZ : ∀ j, i + bdeg ≤ j → tmp.getD j 0 = 0) :
    ∀ j, bdeg ≤ j → (divLoop b (fun top => Int.tdiv top lcb) bdeg i tmp acc).2.getD j 0 = 0 := by
  induction i generalizing tmp acc with
  | zero => intro j hj; simp only [divLoop]; exact hZ j (by omega)
  | succ i ih =>
    simp only [divLoop]
    set top := tmp.getD (i + bdeg) 0 with htop
    set coef := Int.tdiv top lcb with hcoef
    have hdvd : lcb ∣ top := Dvd.dvd.trans (Dvd.intro_left (lcb ^ i) (by ring)) (hD (i + bdeg))
    have hexact : coef * lcb = top := Int.tdiv_mul_cancel hdvd
    have hcoefD : lcb ^ i ∣ coef := by
      obtain ⟨w, hw⟩ := hD (i + bdeg)
      rw [← htop] at hw
      refine ⟨w, ?_⟩
      have : coef * lcb = lcb ^ i * w * lcb := by rw [hexact, hw]; ring
      exact mul_right_cancel₀ hlc0 this
    apply ih
    · intro j
      rw [getD_subRaw, getD_shift_smul]
      have h1 : lcb ^ i ∣ tmp.getD j 0 := Dvd.dvd.trans (Dvd.intro (lcb) (by ring)) (hD j)
      split
      · simpa using h1
      · exact Dvd.dvd.sub h1 (Dvd.dvd.mul_right hcoefD _)
    · intro j hj
      rw [getD_subRaw, getD_shift_smul]
      have : ¬ j < i := by omega
      simp only [this, ↓reduceIte]
      by_cases hje : j = i + bdeg
      · subst hje
        have : i + bdeg - i = bdeg := by omega
        rw [this, hlc, ← htop, ← hexact]; ring
      · have h1 : tmp.getD j 0 = 0 := hZ j (by omega)
        have h2 : b.getD (j - i) 0 = 0 := getD_of_length_le b _ (by omega)
        rw [h1, h2]; ring

theorem lc_eq_getD (b : List Int) (hb : b ≠ []) : b.getD (b.length - 1) 0 = lc b := by
  unfold lc
  rw [List.getLastD_eq_getLast?, List.getLast?_eq_some_getLast hb]
  exact (getLast_eq_getD b hb).symm

theorem lc_ne_zero (b : List Int) (hb : b ≠ []) (hcb : Canon b) : lc b ≠ 0 := by
  unfold lc; rw [List.getLastD_eq_getLast?, List.getLast?_eq_some_getLast hb]; exact hcb hb

/-- C09: the pseudo-division contract, main branch (deg a ≥ deg b, both non-zero, b canonical):
`lc(b)^(deg a − deg b + 1) · a = q·b + r`, `r = 0 ∨ deg r < deg b`, results canonical. -/
theorem pseudoDivRem_spec (a b : List Int) (ha : a ≠ []) (hb : b ≠ []) (hcb : Canon b) (hab : b.length ≤ a.length) :
    C (lc b ^ (a.length - b.length + 1)) * toPoly a
      = toPoly (pseudoDivRem a b).1 * toPoly b + toPoly (pseudoDivRem a b).2 ∧
    (pseudoDivRem a b).2.length < b.length ∧ Canon (pseudoDivRem a b).1 ∧ Canon (pseudoDivRem a b).2 := by
  unfold pseudoDivRem
  have h1 : a.isEmpty = false := by cases a <;> simp_all
  have h2 : b.isEmpty = false := by cases b <;> simp_all
  have h3 : ¬ a.length < b.length := by omega
  simp only [h1, h2, Bool.or_self, h3, decide_false, Bool.false_eq_true, ↓reduceIte]
  have hblen : b.length = (b.length - 1) + 1 := by
    have : 0 < b.length := List.length_pos_of_ne_nil hb; omega
  have hid := divLoop_identity b (fun top => Int.tdiv top (lc b)) (b.length - 1) (a.length - b.length + 1)
    (a.map (· * lc b ^ (a.length - b.length + 1))) []
  have hdg := pdivLoop_degree b (b.length - 1) hblen (lc b) (lc_eq_getD b hb) (lc_ne_zero b hb hcb)
    (a.length - b.length + 1) (a.map (· * lc b ^ (a.length - b.length + 1))) []
    (by intro j; rw [getD_map_mul_right]; exact Dvd.intro_left _ rfl)
    (by intro j hj; rw [getD_map_mul_right, getD_of_length_le a j (by omega)]; ring)
  refine ⟨?_, ?_, canon_fromRaw _, canon_fromRaw _⟩
  · simp only [toPoly_fromRaw]
    simp only [toPoly, mul_zero, zero_mul, add_zero, toPoly_map_mul_right] at hid
    rw [← hid]; ring
  · have := length_fromRaw_le _ (b.length - 1) hdg
    have : 0 < b.length := List.length_pos_of_ne_nil hb
    omega

/-- identity kept by the loop of `div_exact` whenever it does not exit early -/
theorem divExactLoop_identity (b : List Int) (lcb : Int) (bdeg : Nat) (i : Nat) (tmp acc q r : List Int)
    (h : divExactLoop b lcb bdeg i tmp acc = some (q, r)) :
    toPoly r + toPoly q * toPoly b = toPoly tmp + X ^ i * toPoly acc * toPoly b := by
  induction i generalizing tmp acc with
  | zero => simp only [divExactLoop, Option.some.injEq, Prod.mk.injEq] at h; obtain ⟨rfl, rfl⟩ := h; simp
  | succ i ih =>
    simp only [divExactLoop] at h
    split at h
    · exact absurd h (by simp)
    · rw [ih _ _ h, toPoly_subRaw, toPoly_replicate_append, toPoly_smulRaw]
      simp only [toPoly]
      ring

theorem toPoly_eq_zero_of_all_zero (r : List Int) (h : r.all (· == 0) = true) : toPoly r = 0 := by
  induction r with
  | nil => rfl
  | cons x xs ih =>
    simp only [List.all_cons, Bool.and_eq_true, beq_iff_eq] at h
    simp [toPoly, h.1, ih h.2]

/-- C09: soundness of exact division: a returned quotient satisfies `a = q·b` (and `b ≠ 0`). -/
theorem divExact_sound (a b q : List Int) (h : divExact a b = some q) :
    b ≠ [] ∧ toPoly a = toPoly q * toPoly b ∧ Canon q := by
  unfold divExact at h
  split at h
  · exact absurd h (by simp)
  · rename_i hb
    have hbne : b ≠ [] := by intro e; simp [e] at hb
    split at h
    · rename_i ha
      simp only [Option.some.injEq] at h; subst h
      have : a = [] := by cases a <;> simp_all
      subst this
      exact ⟨hbne, by simp [toPoly], canon_nil⟩
    · split at h
      · exact absurd h (by simp)
      · split at h
        · exact absurd h (by simp)
        · rename_i q' r heq
          split at h
          · rename_i hall
            simp only [Option.some.injEq] at h; subst h
            have hid := divExactLoop_identity b (lc b) (b.length - 1) _ a [] q' r heq
            rw [toPoly_eq_zero_of_all_zero r hall] at hid
            refine ⟨hbne, ?_, canon_fromRaw _⟩
            simp only [toPoly, mul_zero, zero_mul, add_zero, zero_add] at hid
            rw [toPoly_fromRaw, hid]
          · exact absurd h (by simp)

end NTV.PolyG
