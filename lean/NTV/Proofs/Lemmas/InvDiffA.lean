import NTV.Model.Ideal
import NTV.Proofs.Lemmas.OrdSpan
import NTV.Proofs.Lemmas.TableProofs2
import NTV.Proofs.Lemmas.HnfDet
import NTV.Proofs.Lemmas.IdealProofsB
/-! C16, last sentence — `MultTable::get_inv_diff` (list level).

For an `n × n × n` table the routine builds the integer trace matrix `Tr`, inverts it over ℚ, clears the
denominators by their lcm `d` and normalises `d · Tr⁻¹`. Here: the routine returns exactly when
`det Tr ≠ 0`; then `norm(numerator) · |det Tr| = dⁿ`, and the lattice of the numerator is
`{v | d ∣ (v · Tr)_j for all j}`. -/
open Matrix
namespace NTV.InvDiff
open NTV.Ord
open NTV.Ideal (getInvDiff HNF)
open NTV.RowOps (toM Rect ent)
open NTV.IdealP (Wid Lat)

/-- `Tr[i][j] = trace(ω_i ω_j)` as `MultTable::trace` computes it from the coordinate vector `t[i][j]` -/
def trEnt (t : Table) (n i j : Nat) : Int :=
  ∑ k : Fin n, ∑ l : Fin n, tent t i j k * tent t l k l

/-- the trace matrix of a table, as a Mathlib matrix over ℤ -/
def traceMatrix (t : Table) (n : Nat) : Matrix (Fin n) (Fin n) ℤ := fun i j => trEnt t n i j

/-- the rational list matrix `tr_mat` built by `get_inv_diff` -/
def trList (t : Table) (n : Nat) : QMat :=
  (List.range n).map (fun i => (List.range n).map (fun j => ((trEnt t n i j : Int) : Rat)))

/-- the table is `n × n × n` -/
def Shape (t : Table) (n : Nat) : Prop := t.length = n ∧ ∀ r ∈ t, r.length = n ∧ ∀ s ∈ r, s.length = n

theorem trList_rect (t : Table) (n : Nat) : Rect n n (trList t n) := by
  refine ⟨by simp [trList], ?_⟩
  intro r hr
  simp only [trList, List.mem_map, List.mem_range] at hr
  obtain ⟨i, _, rfl⟩ := hr
  simp

theorem toM_trList (t : Table) (n : Nat) :
    toM n n (trList t n) = (traceMatrix t n).map (Int.castRingHom ℚ) := by
  ext i j
  simp [toM, ent, trList, traceMatrix, List.getD_eq_getElem?_getD, i.isLt, j.isLt]

theorem det_trList (t : Table) (n : Nat) :
    (toM n n (trList t n)).det = (((traceMatrix t n).det : ℤ) : ℚ) := by
  rw [toM_trList]
  exact ((Int.castRingHom ℚ).map_det _).symm

/-- `MultTable::trace` on the entry `t[i][j]` of a cubic table -/
theorem ttrace_entry (t : Table) (n : Nat) (hs : Shape t n) (i j : Nat) (hi : i < n) (hj : j < n) :
    ∃ (hi' : i < t.length) (hj' : j < (t[i]).length),
      ttrace t ((t[i])[j]) = .ok (trEnt t n i j) := by
  have hi' : i < t.length := by rw [hs.1]; exact hi
  have hrow := hs.2 _ (List.getElem_mem hi')
  have hj' : j < (t[i]).length := by rw [hrow.1]; exact hj
  have hv : ((t[i])[j]).length = n := hrow.2 _ (List.getElem_mem hj')
  refine ⟨hi', hj', ?_⟩
  rw [ttrace_eq t _ hs.1 (by omega)]
  congr 1
  unfold trEnt
  apply Finset.sum_congr rfl
  intro k _
  apply Finset.sum_congr rfl
  intro l _
  congr 1
  simp [vecZ, tent, List.getD_eq_getElem?_getD, List.getElem?_eq_getElem hi', List.getElem?_eq_getElem hj']

/-- the first loop of `get_inv_diff` never panics on a cubic table and builds `trList` -/
theorem trMat_ok (t : Table) (n : Nat) (hs : Shape t n) :
    (List.range n).mapM (fun i => (List.range n).mapM (fun j => do
      let blk ← NTV.Ord.idx t i
      let v ← NTV.Ord.idx blk j
      let tr ← NTV.Ord.ttrace t v
      (pure (tr : Rat) : M Rat))) = .ok (trList t n) := by
  unfold trList
  apply mapM_ok
  intro i hi
  apply mapM_ok
  intro j hj
  have hi := List.mem_range.mp hi
  have hj := List.mem_range.mp hj
  obtain ⟨hi', hj', h⟩ := ttrace_entry t n hs i j hi hj
  rw [idx_ok t i hi']
  simp only [bind, Except.bind]
  rw [idx_ok _ j hj']
  simp only [h]
  rfl

/-- the integer matrix `int` of `get_inv_diff` is the matrix `scaled` of `hnf_reduce` -/
theorem map_eq_scaled (B : QMat) (n : Nat) (hB : Rect n n B) :
    B.map (fun r => r.map (fun e => toInteger (e * ((lcmDen B 1 : Int) : Rat)))) = scaled B n := by
  apply List.ext_getElem
  · simp [scaled, hB.1]
  intro i h1 h2
  have hi : i < B.length := by simpa using h1
  have hin : i < n := by rw [← hB.1]; exact hi
  have hrow : (B[i]).length = n := hB.2 _ (List.getElem_mem hi)
  simp only [List.getElem_map, scaled, List.getElem_range]
  apply List.ext_getElem
  · simp [hrow]
  intro j h3 h4
  have hj : j < (B[i]).length := by simpa using h3
  simp only [List.getElem_map, List.getElem_range]
  congr 2
  simp [ent, List.getD_eq_getElem?_getD, List.getElem?_eq_getElem hi, List.getElem?_eq_getElem hj]

/-- `get_inv_diff` after the trace matrix has been built: failing inversion -/
theorem getInvDiff_inv_err (t : Table) (n : Nat) (hs : Shape t n) (e : String)
    (hinv : NTV.LinAlg.inv (trList t n) = .error e) :
    getInvDiff t = if e == NTV.LinAlg.errNotInvertible then .error "panic unwrap" else .error e := by
  have h := trMat_ok t n hs
  unfold getInvDiff
  rw [hs.1]
  simp only [bind, Except.bind, pure, Except.pure] at h ⊢
  rw [h]
  simp only [hinv]
  by_cases he : e == NTV.LinAlg.errNotInvertible <;> simp [he, throw, throwThe, MonadExceptOf.throw]

/-- `get_inv_diff` after the trace matrix has been built: successful inversion -/
theorem getInvDiff_inv_ok (t : Table) (n : Nat) (hs : Shape t n) (d : QMat)
    (hinv : NTV.LinAlg.inv (trList t n) = .ok d) (h : HNF)
    (hh : NTV.Ideal.hnfNew (d.map (fun r => r.map (fun e =>
            toInteger (e * ((lcmDen d 1 : Int) : Rat))))) = .ok h) :
    getInvDiff t = .ok (lcmDen d 1, h) := by
  have h := trMat_ok t n hs
  unfold getInvDiff
  rw [hs.1]
  simp only [bind, Except.bind, pure, Except.pure] at h ⊢
  rw [h]
  simp only [hinv, hh]

/-- singular trace matrix: the `.unwrap()` of the inversion panics -/
theorem getInvDiff_singular (t : Table) (n : Nat) (hs : Shape t n) (hdet : (traceMatrix t n).det = 0) :
    getInvDiff t = .error "panic unwrap" := by
  have h0 : (toM n n (trList t n)).det = 0 := by rw [det_trList, hdet]; simp
  cases h : NTV.LinAlg.inv (trList t n) with
  | ok B =>
    have h1 := NTV.LinAlg.inv_ok _ B n (trList_rect t n) h
    have := congrArg Matrix.det h1
    rw [det_mul, h0, mul_zero, det_one] at this
    exact absurd this zero_ne_one
  | error e =>
    rw [getInvDiff_inv_err t n hs e h, (NTV.LinAlg.inv_err _ n (trList_rect t n) e h).1]
    rfl

/-- non-singular trace matrix: everything `get_inv_diff` does -/
theorem getInvDiff_nonsingular (t : Table) (n : Nat) (hs : Shape t n) (hn : 0 < n)
    (hdet : (traceMatrix t n).det ≠ 0) :
    ∃ (B : QMat) (H : HNF), NTV.LinAlg.inv (trList t n) = .ok B ∧ Rect n n B ∧
      toM n n B * (traceMatrix t n).map (Int.castRingHom ℚ) = 1 ∧
      getInvDiff t = .ok (lcmDen B 1, H) ∧ 0 < lcmDen B 1 ∧ H.length = n ∧ Wid n H ∧
      NTV.Ideal.norm H * |(traceMatrix t n).det| = lcmDen B 1 ^ n ∧
      (NTV.Hnf.toM n n (scaled B n)).map (Int.castRingHom ℚ) = ((lcmDen B 1 : Int) : Rat) • toM n n B ∧
      Lat n H = Lat n (scaled B n) := by
  have hdq : (toM n n (trList t n)).det ≠ 0 := by
    rw [det_trList]; exact_mod_cast hdet
  cases hinv : NTV.LinAlg.inv (trList t n) with
  | error e => exact absurd (NTV.LinAlg.inv_err _ n (trList_rect t n) e hinv).2 hdq
  | ok B =>
  have hBA := NTV.LinAlg.inv_ok _ B n (trList_rect t n) hinv
  rw [toM_trList] at hBA
  have hB : Rect n n B := NTV.LinAlg.inv_rect _ B n (trList_rect t n) hinv
  have hLpos : 0 < lcmDen B 1 := lcmDen_pos B 1 one_pos
  have hLq : ((lcmDen B 1 : Int) : Rat) ≠ 0 := by
    have : lcmDen B 1 ≠ 0 := by omega
    exact_mod_cast this
  set S := scaled B n with hS
  have hSr := scaled_rect B n
  obtain ⟨⟨H, Ul, k⟩, h1⟩ := Option.isSome_iff_exists.mp (NTV.Hnf.hnfWithU_total S n n hSr)
  obtain ⟨W, pv, R⟩ := NTV.Hnf.Result.of_spec S n n hSr hn hn H Ul k h1
  have hcast : (NTV.Hnf.toM n n S).map (Int.castRingHom ℚ) = ((lcmDen B 1 : Int) : Rat) • toM n n B := by
    ext i j
    simp only [Matrix.map_apply, Int.coe_castRingHom, Matrix.smul_apply, smul_eq_mul]
    exact scaled_cast B n hB i j
  have hdetB : (toM n n B).det * (((traceMatrix t n).det : ℤ) : ℚ) = 1 := by
    have := congrArg Matrix.det hBA
    rw [det_mul, det_one] at this
    rw [← this]
    congr 1
    exact (Int.castRingHom ℚ).map_det _
  have hdetS : (((NTV.Hnf.toM n n S).det : ℤ) : ℚ) = ((lcmDen B 1 : Int) : Rat) ^ n * (toM n n B).det := by
    have := congrArg Matrix.det hcast
    rw [Matrix.det_smul, Fintype.card_fin] at this
    rw [← this]
    exact (Int.castRingHom ℚ).map_det _
  have hprod : (NTV.Hnf.toM n n S).det * (traceMatrix t n).det = lcmDen B 1 ^ n := by
    have : (((NTV.Hnf.toM n n S).det * (traceMatrix t n).det : ℤ) : ℚ) = ((lcmDen B 1 ^ n : ℤ) : ℚ) := by
      rw [Int.cast_mul, Int.cast_pow, hdetS, mul_assoc, hdetB, mul_one]
    exact_mod_cast this
  have hdetS0 : (NTV.Hnf.toM n n S).det ≠ 0 := by
    intro h0
    rw [h0, zero_mul] at hprod
    exact absurd hprod.symm (pow_ne_zero _ (by omega))
  have hdetW : (NTV.Hnf.toM n n W).det ≠ 0 := by
    rw [← R.ua, Matrix.det_mul]
    exact mul_ne_zero (R.det.ne_zero) hdetS0
  have hk : k = 0 := by
    by_contra hk0
    have hkpos : 0 < k := Nat.pos_of_ne_zero hk0
    apply hdetW
    apply Matrix.det_eq_zero_of_row_eq_zero ⟨0, hn⟩
    intro j
    exact R.zero 0 hkpos j j.isLt
  subst hk
  have hHW : H = W := by rw [R.hH]; simp
  have hnew : NTV.Ideal.hnfNew S = .ok H := by simp [NTV.Ideal.hnfNew, NTV.Hnf.hnfNew, h1]
  have hSW : Wid n S := hSr.2
  obtain ⟨hWid, _, hLat⟩ := NTV.IdealP.ideal_hnfNew_spec hSW hn hnew
  refine ⟨B, H, rfl, hB, hBA, ?_, hLpos, by rw [R.lenH]; simp, hWid, ?_, hcast, hLat⟩
  · apply getInvDiff_inv_ok t n hs B hinv
    rw [map_eq_scaled B n hB, ← hS, hnew]
  · show NTV.Hnf.determinant H * _ = _
    rw [NTV.Hnf.determinant_eq_index S n hSr hn H Ul h1, ← abs_mul, hprod]
    exact abs_of_pos (pow_pos hLpos n)

/-- membership in the numerator lattice: `v ∈ L(H)` iff `d` divides every coordinate of `v · Tr`, i.e.
`(1/d)·v` pairs integrally (under the trace form) with every basis vector -/
theorem mem_numerator_iff (t : Table) (n : Nat) (B : QMat)
    (hBA : toM n n B * (traceMatrix t n).map (Int.castRingHom ℚ) = 1)
    (hcast : (NTV.Hnf.toM n n (scaled B n)).map (Int.castRingHom ℚ) = ((lcmDen B 1 : Int) : Rat) • toM n n B)
    (hL : lcmDen B 1 ≠ 0) (v : Fin n → ℤ) :
    v ∈ Lat n (scaled B n) ↔ ∀ j : Fin n, lcmDen B 1 ∣ (v ᵥ* traceMatrix t n) j := by
  have hAB : (traceMatrix t n).map (Int.castRingHom ℚ) * toM n n B = 1 := mul_eq_one_comm.mp hBA
  have hLq : ((lcmDen B 1 : Int) : Rat) ≠ 0 := by exact_mod_cast hL
  have hinj : Function.Injective (fun w : Fin n → ℤ => (fun i => ((w i : ℤ) : ℚ))) := by
    intro a b h
    funext i
    have := congrFun h i
    simp only at this
    exact_mod_cast this
  have hvm : ∀ (w : Fin n → ℤ) (M : Matrix (Fin n) (Fin n) ℤ),
      (fun i => (((w ᵥ* M) i : ℤ) : ℚ)) = (fun i => ((w i : ℤ) : ℚ)) ᵥ* M.map (Int.castRingHom ℚ) := by
    intro w M
    funext i
    simp [Matrix.vecMul, dotProduct]
  rw [NTV.IdealP.mem_Lat_iff (n := n) (scaled_rect B n).1]
  constructor
  · rintro ⟨c, rfl⟩ j
    refine ⟨c j, ?_⟩
    have : (fun i => ((((c ᵥ* NTV.Hnf.toM n n (scaled B n)) ᵥ* traceMatrix t n) i : ℤ) : ℚ))
        = fun i => (((lcmDen B 1 * c i : ℤ)) : ℚ) := by
      rw [hvm, hvm, hcast, Matrix.vecMul_vecMul, Matrix.smul_mul, hBA, Matrix.vecMul_smul, Matrix.vecMul_one]
      funext i
      simp
    have := congrFun this j
    exact_mod_cast this
  · intro h
    choose c hc using h
    refine ⟨c, ?_⟩
    apply hinj
    simp only
    rw [hvm, hcast]
    have h1 : (fun i => ((v i : ℤ) : ℚ)) ᵥ* (traceMatrix t n).map (Int.castRingHom ℚ)
        = ((lcmDen B 1 : Int) : Rat) • (fun i => ((c i : ℤ) : ℚ)) := by
      rw [← hvm]
      funext i
      rw [hc i]
      simp
    have h2 : (fun i => ((v i : ℤ) : ℚ)) = (((lcmDen B 1 : Int) : Rat) • (fun i => ((c i : ℤ) : ℚ))) ᵥ* toM n n B := by
      rw [← h1, Matrix.vecMul_vecMul, hAB, Matrix.vecMul_one]
    rw [h2, Matrix.vecMul_smul, Matrix.smul_vecMul]

end NTV.InvDiff
