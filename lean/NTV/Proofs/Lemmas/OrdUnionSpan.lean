import NTV.Proofs.Lemmas.OrdSpan
import NTV.Proofs.Lemmas.OrdUnionLat
/-! `order::union` on two non-singular rational matrices: never a panic; the result is `hnf_reduce` of a
non-singular matrix `N` whose ℤ-module is the sum of the two modules. -/
open Matrix
namespace NTV.Ord
open NTV.RowOps (toM Rect ent)

/-- an integer vector read as a rational one -/
def castV {n : Nat} (c : Fin n → ℤ) : Fin n → ℚ := fun i => (c i : ℚ)

theorem castV_vecMul {p n : Nat} (c : Fin p → ℤ) (M : Matrix (Fin p) (Fin n) ℤ) :
    castV (c ᵥ* M) = castV c ᵥ* M.map (Int.castRingHom ℚ) := by
  ext j
  simp [castV, Matrix.vecMul, dotProduct]

theorem castV_add {n : Nat} (a b : Fin n → ℤ) : castV (a + b) = castV a + castV b := by
  ext j; simp [castV]

/-- the integer matrix `L · A` computed by `union` (L any common multiple of the denominators) -/
def scaledBy (L : Int) (A : QMat) (n : Nat) : IMat :=
  (List.range n).map (fun i => (List.range n).map (fun j => toInteger (ent A i j * (L : Rat))))

theorem scaledBy_rect (L : Int) (A : QMat) (n : Nat) : NTV.Hnf.Rect n n (scaledBy L A n) := by
  refine ⟨by simp [scaledBy], ?_⟩
  intro r hr
  simp only [scaledBy, List.mem_map, List.mem_range] at hr
  obtain ⟨i, _, rfl⟩ := hr
  simp

theorem scaledBy_ent (L : Int) (A : QMat) (n : Nat) (i j : Nat) (hi : i < n) (hj : j < n) :
    NTV.Hnf.ent (scaledBy L A n) i j = toInteger (ent A i j * (L : Rat)) := by
  simp [NTV.Hnf.ent, scaledBy, List.getD_eq_getElem?_getD, hi, hj]

theorem scaledBy_cast (L : Int) (A : QMat) (n : Nat) (hA : Rect n n A) (hL : AllDenDvd A L) (i j : Fin n) :
    ((NTV.Hnf.toM n n (scaledBy L A n) i j : Int) : Rat) = (L : Rat) * toM n n A i j := by
  simp only [NTV.Hnf.toM, toM]
  rw [scaledBy_ent L A n i j i.isLt j.isLt]
  obtain ⟨row, hrow, hmem⟩ := ent_mem A n hA i j i.isLt j.isLt
  obtain ⟨z, hz⟩ := (den_dvd_iff _ _).mp (hL row hrow _ hmem)
  rw [hz, toInteger_intCast, ← hz]; ring

theorem scaledBy_map (L : Int) (A : QMat) (n : Nat) (hA : Rect n n A) (hL : AllDenDvd A L) :
    (NTV.Hnf.toM n n (scaledBy L A n)).map (Int.castRingHom ℚ) = (L : Rat) • toM n n A := by
  ext i j
  simp only [Matrix.map_apply, Int.coe_castRingHom, Matrix.smul_apply, smul_eq_mul]
  exact scaledBy_cast L A n hA hL i j

theorem scaledBy_det_ne (L : Int) (A : QMat) (n : Nat) (hA : Rect n n A) (hL : AllDenDvd A L) (hL0 : L ≠ 0)
    (hdet : (toM n n A).det ≠ 0) : (NTV.Hnf.toM n n (scaledBy L A n)).det ≠ 0 := by
  intro h0
  have := congrArg Matrix.det (scaledBy_map L A n hA hL)
  have hd : ((NTV.Hnf.toM n n (scaledBy L A n)).map (Int.castRingHom ℚ)).det =
      (Int.castRingHom ℚ) (NTV.Hnf.toM n n (scaledBy L A n)).det := ((Int.castRingHom ℚ).map_det _).symm
  rw [hd, h0, Matrix.det_smul] at this
  simp only [map_zero] at this
  have hLq : (L : Rat) ≠ 0 := by exact_mod_cast hL0
  rcases mul_eq_zero.mp this.symm with hz | hz
  · exact hLq (eq_zero_of_pow_eq_zero hz)
  · exact hdet hz

/-- the conversion loops of `union` -/
theorem toInt_ok (A : QMat) (n : Nat) (hA : Rect n n A) (L : Int) :
    tabulate n (fun i => tabulate n (fun j => do
      let row ← idx A i
      let e ← idx row j
      pure (toInteger (e * (L : Rat))))) = .ok (scaledBy L A n) := by
  apply tabulate_ok
  intro i hi
  apply tabulate_ok
  intro j hj
  have hi' : i < A.length := by rw [hA.1]; exact hi
  have hrow : (A[i]).length = n := hA.2 _ (List.getElem_mem hi')
  have hj' : j < (A[i]).length := by omega
  rw [idx_ok A i hi']
  simp only [bind, Except.bind]
  rw [idx_ok _ j hj']
  simp only [pure, Except.pure]
  congr 2
  simp [ent, List.getD_eq_getElem?_getD, List.getElem?_eq_getElem hi', List.getElem?_eq_getElem hj']

/-- the matrix `H / L` -/
def unscaled (n : Nat) (L : Int) (H : IMat) : QMat :=
  (List.range n).map (fun i => (List.range n).map (fun j => ((NTV.Hnf.ent H i j : Int) : Rat) / (L : Rat)))

theorem unscaled_rect (n : Nat) (L : Int) (H : IMat) : Rect n n (unscaled n L H) := by
  refine ⟨by simp [unscaled], ?_⟩
  intro r hr
  simp only [unscaled, List.mem_map, List.mem_range] at hr
  obtain ⟨i, _, rfl⟩ := hr
  simp

theorem unscaled_toM (n : Nat) (L : Int) (H : IMat) :
    toM n n (unscaled n L H) = ((L : Rat))⁻¹ • (NTV.Hnf.toM n n H).map (Int.castRingHom ℚ) := by
  ext i j
  simp only [unscaled, toM, ent, Matrix.smul_apply, Matrix.map_apply, Int.coe_castRingHom, smul_eq_mul, NTV.Hnf.toM]
  simp [List.getD_eq_getElem?_getD, i.isLt, j.isLt]
  ring


theorem idx_zero_ok (A : QMat) (n : Nat) (hn : 0 < n) (hA : Rect n n A) :
    ∃ ra, idx A 0 = .ok ra ∧ ra.length = n := by
  have h0 : 0 < A.length := by rw [hA.1]; exact hn
  exact ⟨A[0], idx_ok A 0 h0, hA.2 _ (List.getElem_mem h0)⟩

/-- `union` evaluated, given the three normal forms -/
theorem union_eval (A B : QMat) (n : Nat) (hn : 0 < n) (hA : Rect n n A) (hB : Rect n n B)
    (ha hb H : IMat)
    (hha : NTV.Hnf.hnfNew (scaledBy (lcmDen B (lcmDen A 1)) A n) = some ha)
    (hhb : NTV.Hnf.hnfNew (scaledBy (lcmDen B (lcmDen A 1)) B n) = some hb)
    (rha : NTV.Hnf.Rect n n ha) (rhb : NTV.Hnf.Rect n n hb)
    (hH : NTV.Hnf.hnfNew (ha ++ hb) = some H) (rH : NTV.Hnf.Rect n n H) :
    union A B = hnfReduce (unscaled n (lcmDen B (lcmDen A 1)) H) := by
  obtain ⟨ra, hra, hral⟩ := idx_zero_ok A n hn hA
  obtain ⟨rb, hrb, hrbl⟩ := idx_zero_ok B n hn hB
  have tA := toInt_ok A n hA (lcmDen B (lcmDen A 1))
  have tB := toInt_ok B n hB (lcmDen B (lcmDen A 1))
  unfold union
  simp only [bind, Except.bind, hra, hrb, hral, hrbl, hA.1, hB.1] at tA tB ⊢
  rw [tA, tB]
  simp only [ne_eq, not_true_eq_false, if_false, hha, hhb]
  have hu : NTV.Hnf.union ha hb = .ok (some H) := by
    have la : 0 < ha.length := by rw [rha.1]; exact hn
    have lb : 0 < hb.length := by rw [rhb.1]; exact hn
    obtain ⟨xa, ta, rfl⟩ := List.exists_cons_of_length_pos la
    obtain ⟨xb, tb, rfl⟩ := List.exists_cons_of_length_pos lb
    have wa : xa.length = n := rha.2 xa (by simp)
    have wb : xb.length = n := rhb.2 xb (by simp)
    simp only [NTV.Hnf.union, wa, wb, if_true, hH]
  rw [hu]
  simp only
  have h0 : 0 < H.length := by rw [rH.1]; exact hn
  have hr0 : idx H 0 = .ok H[0] := idx_ok H 0 h0
  have hl0 : (H[0]).length = n := rH.2 _ (List.getElem_mem h0)
  rw [hr0]
  simp only [hl0]
  have hun := unscale_ok n (lcmDen B (lcmDen A 1)) H rH
  unfold unscale at hun
  simp only [bind, Except.bind] at hun
  rw [hun]
  rfl


/-- from the integer lattices to the rational modules: if `L(H) = L(ia) + L(ib)` and the three rational
matrices are the integer ones divided by `L`, the module of `N` is the sum of the modules of `A` and `B` -/
theorem module_of_lattice {n : Nat} (L : ℚ) (hL : L ≠ 0) (H ia ib : Matrix (Fin n) (Fin n) ℤ)
    (N A B : Matrix (Fin n) (Fin n) ℚ)
    (hN : N = L⁻¹ • H.map (Int.castRingHom ℚ))
    (hA : ia.map (Int.castRingHom ℚ) = L • A) (hB : ib.map (Int.castRingHom ℚ) = L • B)
    (hlat : ∀ w : Fin n → ℤ, (∃ c : Fin n → ℤ, c ᵥ* H = w) ↔ ∃ c d : Fin n → ℤ, c ᵥ* ia + d ᵥ* ib = w)
    (v : Fin n → ℚ) :
    (∃ c : Fin n → ℤ, castV c ᵥ* N = v) ↔ ∃ c d : Fin n → ℤ, castV c ᵥ* A + castV d ᵥ* B = v := by
  have key : ∀ c d : Fin n → ℤ, L⁻¹ • castV (c ᵥ* ia + d ᵥ* ib) = castV c ᵥ* A + castV d ᵥ* B := by
    intro c d
    rw [castV_add, castV_vecMul, castV_vecMul, hA, hB, Matrix.vecMul_smul, Matrix.vecMul_smul, ← smul_add,
      smul_smul, inv_mul_cancel₀ hL, one_smul]
  constructor
  · rintro ⟨c, rfl⟩
    obtain ⟨c', d', h⟩ := (hlat (c ᵥ* H)).mp ⟨c, rfl⟩
    refine ⟨c', d', ?_⟩
    rw [← key, h, hN, Matrix.vecMul_smul, castV_vecMul]
  · rintro ⟨c, d, rfl⟩
    obtain ⟨c', h⟩ := (hlat (c ᵥ* ia + d ᵥ* ib)).mpr ⟨c, d, rfl⟩
    refine ⟨c', ?_⟩
    rw [← key, ← h, hN, Matrix.vecMul_smul, castV_vecMul]

/-- C15 core of `union`: on non-singular `A`, `B` the routine reaches the final `hnf_reduce` (no panic before
it) with a non-singular matrix `N` whose ℤ-module is the sum of the modules of `A` and `B` -/
theorem union_core (A B : QMat) (n : Nat) (hn : 0 < n) (hA : Rect n n A) (hB : Rect n n B)
    (hdA : (toM n n A).det ≠ 0) (hdB : (toM n n B).det ≠ 0) :
    ∃ N : QMat, Rect n n N ∧ (toM n n N).det ≠ 0 ∧ union A B = hnfReduce N ∧
      ∀ v : Fin n → ℚ, (∃ c : Fin n → ℤ, castV c ᵥ* toM n n N = v) ↔
        ∃ c d : Fin n → ℤ, castV c ᵥ* toM n n A + castV d ᵥ* toM n n B = v := by
  have hLpos : 0 < lcmDen B (lcmDen A 1) := lcmDen_pos B _ (lcmDen_pos A 1 one_pos)
  have hL0 : lcmDen B (lcmDen A 1) ≠ 0 := by omega
  have hLq : ((lcmDen B (lcmDen A 1) : Int) : Rat) ≠ 0 := by exact_mod_cast hL0
  have hLB : AllDenDvd B (lcmDen B (lcmDen A 1)) := (lcmDen_spec B _).2.1
  have hLA : AllDenDvd A (lcmDen B (lcmDen A 1)) := fun row hr e he =>
    dvd_trans ((lcmDen_spec A 1).2.1 row hr e he) (lcmDen_spec B _).1
  generalize hLdef : lcmDen B (lcmDen A 1) = L at *
  have hdia := scaledBy_det_ne L A n hA hLA hL0 hdA
  have hdib := scaledBy_det_ne L B n hB hLB hL0 hdB
  obtain ⟨ha, hha, rha, dha, lha⟩ := NTV.Hnf.hnfNew_full (scaledBy L A n) n n (scaledBy_rect L A n) hn hn
    _ hdia (fun i => NTV.Hnf.InLattice.row i)
  obtain ⟨hb, hhb, rhb, dhb, lhb⟩ := NTV.Hnf.hnfNew_full (scaledBy L B n) n n (scaledBy_rect L B n) hn hn
    _ hdib (fun i => NTV.Hnf.InLattice.row i)
  have hstack := NTV.Hnf.rect_append ha hb n n n rha rhb
  -- the lattice of the stacked normal forms is L(ia) + L(ib)
  have hsum : ∀ w : Fin n → ℤ, NTV.Hnf.InLattice (n + n) n (ha ++ hb) w ↔
      ∃ c d : Fin n → ℤ, c ᵥ* NTV.Hnf.toM n n (scaledBy L A n) + d ᵥ* NTV.Hnf.toM n n (scaledBy L B n) = w := by
    intro w
    rw [NTV.Hnf.lattice_append ha hb n n n rha]
    constructor
    · rintro ⟨c, d, rfl⟩
      obtain ⟨c', hc'⟩ := (lha _).mp ⟨c, rfl⟩
      obtain ⟨d', hd'⟩ := (lhb _).mp ⟨d, rfl⟩
      exact ⟨c', d', by rw [hc', hd']⟩
    · rintro ⟨c, d, rfl⟩
      obtain ⟨c', hc'⟩ := (lha _).mpr ⟨c, rfl⟩
      obtain ⟨d', hd'⟩ := (lhb _).mpr ⟨d, rfl⟩
      exact ⟨c', d', by rw [hc', hd']⟩
  obtain ⟨H, hH, rH, dH, lH⟩ := NTV.Hnf.hnfNew_full (ha ++ hb) (n + n) n hstack (by omega) hn
    _ hdia (fun i => (hsum _).mpr ⟨Pi.single i 1, 0, by rw [Matrix.single_one_vecMul, Matrix.zero_vecMul, add_zero]; rfl⟩)
  refine ⟨unscaled n L H, unscaled_rect n L H, ?_, ?_, ?_⟩
  · rw [unscaled_toM, Matrix.det_smul]
    apply mul_ne_zero (pow_ne_zero _ (inv_ne_zero hLq))
    have e : ((NTV.Hnf.toM n n H).map (Int.castRingHom ℚ)).det = (Int.castRingHom ℚ) (NTV.Hnf.toM n n H).det :=
      ((Int.castRingHom ℚ).map_det _).symm
    rw [e]
    simpa using dH
  · subst hLdef
    exact union_eval A B n hn hA hB ha hb H hha hhb rha rhb hH rH
  · intro v
    exact module_of_lattice (L : Rat) hLq _ _ _ _ _ _ (unscaled_toM n L H) (scaledBy_map L A n hA hLA)
      (scaledBy_map L B n hB hLB) (fun w => (lH w).trans (hsum w)) v

end NTV.Ord
