import NTV.Proofs.Lemmas.PrimeWitness
/-! (R1) one Miller–Rabin round of the model is exactly the textbook strong-probable-prime test. -/
namespace NTV.Prime

/-- the verdict computed from the result of the inner loop -/
def loopVerdict (res : Option Bool × Nat) : Bool :=
  match res with
  | (some b, _) => b
  | (none, tmp) => tmp == 1

theorem mrRound_eq_verdict (n d c r : Nat) :
    mrRound n d c r = if r ^ d % n == 1 then true else loopVerdict (mrLoop n c (r ^ d % n)) := by
  unfold mrRound loopVerdict
  simp only
  split
  · rfl
  · split <;> simp_all

theorem pow_two_pow_succ_mod (n t i : Nat) :
    t ^ 2 ^ (i + 1) % n = (t * t % n) ^ 2 ^ i % n := by
  rw [← Nat.pow_mod, pow_succ', pow_mul, sq]

theorem one_pow_mod_ne (n k : Nat) (hn : 3 ≤ n) : (1 : Nat) ^ k % n ≠ n - 1 := by
  rw [one_pow, Nat.mod_eq_of_lt (by omega)]; omega

/-- the inner loop, started from `tmp ≠ 1`, passes iff one of tmp, tmp², …, tmp^(2^(c-1)) is ≡ −1 -/
theorem loopVerdict_iff (n : Nat) (hn : 3 ≤ n) (c tmp : Nat) (hlt : tmp < n) (h1 : tmp ≠ 1) :
    loopVerdict (mrLoop n c tmp) = true ↔ ∃ i, i < c ∧ tmp ^ 2 ^ i % n = n - 1 := by
  induction c generalizing tmp with
  | zero => simp [mrLoop, loopVerdict, h1]
  | succ c ih =>
    unfold mrLoop
    by_cases hm : tmp = n - 1
    · simp only [hm, beq_self_eq_true, ↓reduceIte, loopVerdict, true_iff]
      exact ⟨0, by omega, by simp⟩
    · have hb : (tmp == n - 1) = false := by simpa using hm
      simp only [hb, Bool.false_eq_true, ↓reduceIte]
      by_cases hs : tmp * tmp % n = 1
      · simp only [hs, beq_self_eq_true, ↓reduceIte, loopVerdict, Bool.false_eq_true, false_iff,
          not_exists, not_and]
        intro i _
        cases i with
        | zero => simpa [Nat.mod_eq_of_lt hlt] using hm
        | succ i => rw [pow_two_pow_succ_mod, hs]; exact one_pow_mod_ne n _ hn
      · have hb' : (tmp * tmp % n == 1) = false := by simpa using hs
        simp only [hb', Bool.false_eq_true, ↓reduceIte]
        rw [ih _ (Nat.mod_lt _ (by omega)) hs]
        constructor
        · rintro ⟨i, hi, h⟩
          exact ⟨i + 1, by omega, by rw [pow_two_pow_succ_mod]; exact h⟩
        · rintro ⟨i, hi, h⟩
          cases i with
          | zero => exfalso; apply hm; simpa [Nat.mod_eq_of_lt hlt] using h
          | succ i => exact ⟨i, by omega, by rw [← pow_two_pow_succ_mod]; exact h⟩

/-- (R1) a round passes iff the base is a strong probable-prime base ("strong liar" when n is
composite): `a^d ≡ 1` or `a^(d·2^i) ≡ −1 (mod n)` for some `i < c`. -/
theorem strongLiar_iff (n d c a : Nat) (hn : 3 ≤ n) :
    mrRound n d c a = true ↔
      (a ^ d ≡ 1 [MOD n] ∨ ∃ i, i < c ∧ a ^ (d * 2 ^ i) ≡ n - 1 [MOD n]) := by
  rw [mrRound_eq_verdict]
  have h1n : 1 % n = 1 := Nat.mod_eq_of_lt (by omega)
  have hn1 : (n - 1) % n = n - 1 := Nat.mod_eq_of_lt (by omega)
  have hpow : ∀ i, a ^ (d * 2 ^ i) % n = (a ^ d % n) ^ 2 ^ i % n := by
    intro i; rw [← Nat.pow_mod, pow_mul]
  by_cases h : a ^ d % n = 1
  · simp only [h, beq_self_eq_true, ↓reduceIte, true_iff]
    left; unfold Nat.ModEq; rw [h, h1n]
  · have hb : (a ^ d % n == 1) = false := by simpa using h
    simp only [hb, Bool.false_eq_true, ↓reduceIte]
    rw [loopVerdict_iff n hn c _ (Nat.mod_lt _ (by omega)) h]
    unfold Nat.ModEq
    rw [h1n, hn1]
    constructor
    · rintro ⟨i, hi, hh⟩
      right; exact ⟨i, hi, by rw [hpow]; exact hh⟩
    · rintro (h' | ⟨i, hi, hh⟩)
      · exact absurd h' h
      · exact ⟨i, hi, by rw [← hpow]; exact hh⟩

end NTV.Prime
