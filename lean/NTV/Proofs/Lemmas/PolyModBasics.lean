import NTV.Model.PolyModLinear
import Mathlib.Tactic
import Mathlib.Data.Int.ModEq
namespace NTV.PolyMod

theorem tmod_modEq (x m : Int) : Int.tmod x m ≡ x [ZMOD m] := by
  rw [Int.modEq_iff_dvd]
  have := Int.dvd_tmod_sub_self (x := x) (m := m)
  have h2 : x - Int.tmod x m = -(Int.tmod x m - x) := by ring
  rw [h2]; exact (Int.dvd_neg).mpr this

theorem fmod_modEq (x m : Int) : Int.fmod x m ≡ x [ZMOD m] := by
  rw [Int.modEq_iff_dvd, Int.fmod_def]
  exact ⟨Int.fdiv x m, by ring⟩

/-- `modpow` computes x^e modulo m, as a congruence (the representative may be negative) -/
theorem modpowLoop_modEq (m : Int) : ∀ (n : Nat) (e product current : Int), e.toNat = n →
    modpowLoop m e product current ≡ product * current ^ n [ZMOD m] := by
  intro n
  induction n using Nat.strong_induction_on with
  | _ n ih =>
    intro e product current hn
    unfold modpowLoop
    by_cases hpos : e > 0
    · simp only [hpos, ↓reduceDIte]
      have hlt : (e / 2).toNat < n := by omega
      have hrec := ih (e / 2).toNat hlt (e / 2)
        (if e % 2 = 1 then Int.tmod (product * current) m else product) (Int.tmod (current * current) m) rfl
      refine hrec.trans ?_
      have hc : Int.tmod (current * current) m ^ (e / 2).toNat ≡ (current * current) ^ (e / 2).toNat [ZMOD m] :=
        (tmod_modEq _ _).pow _
      by_cases hodd : e % 2 = 1
      · simp only [hodd, ↓reduceIte]
        have hn2 : n = 2 * (e / 2).toNat + 1 := by omega
        have := (tmod_modEq (product * current) m).mul hc
        refine this.trans ?_
        have e3 : product * current * (current * current) ^ (e / 2).toNat = product * current ^ n := by
          rw [hn2, pow_succ, pow_mul]; ring
        rw [e3]
      · simp only [hodd, ↓reduceIte]
        have hn2 : n = 2 * (e / 2).toNat := by omega
        have := (Int.ModEq.refl product).mul hc
        refine this.trans ?_
        have e3 : product * (current * current) ^ (e / 2).toNat = product * current ^ n := by
          rw [hn2, pow_mul]; ring
        rw [e3]
    · simp only [hpos, ↓reduceDIte]
      have : n = 0 := by omega
      subst this; simp

theorem modpow_modEq (x e m : Int) : modpow x e m ≡ x ^ e.toNat [ZMOD m] := by
  have := modpowLoop_modEq m e.toNat e 1 x rfl
  simpa [modpow] using this

/-- `poly_of_mod` evaluates f at a modulo p (Horner with a truncated `%` after every step) -/
theorem polyOfMod_modEq (f : List Int) (a p : Int) :
    polyOfMod f a p ≡ NTV.PolyG.eval f a [ZMOD p] := by
  induction f with
  | nil => simp [polyOfMod, NTV.PolyG.eval]
  | cons c cs ih =>
    simp only [polyOfMod, NTV.PolyG.eval, List.foldr_cons] at ih ⊢
    refine (tmod_modEq _ _).trans ?_
    exact (ih.mul_right a).add_right c

/-- a drawn shift lies in [0, p) -/
theorem draw_shift_range (p : Int) (s : NTV.Draw.Stream) (a : Int) (rest : NTV.Draw.Stream)
    (h : NTV.Draw.range 0 p s = some (a, rest)) : 0 ≤ a ∧ a < p := by
  unfold NTV.Draw.range at h
  split at h
  · simp at h
  · rename_i v r hb
    simp only [Option.some.injEq, Prod.mk.injEq] at h
    have := NTV.Draw.below_lt _ _ _ _ hb
    obtain ⟨rfl, _⟩ := h
    omega

end NTV.PolyMod

namespace NTV.PolyMod
/-- `modinv(x, p) = x^(p-2) mod p` is an inverse of x modulo a prime p not dividing x (Fermat) -/
theorem modinv_spec (p : Nat) (hp : p.Prime) (x : Int) (hx : IsCoprime x (p : Int)) :
    x * modinv x (p : Int) ≡ 1 [ZMOD (p : Int)] := by
  have h2 := hp.two_le
  have hm := modpow_modEq x ((p : Int) - 2) (p : Int)
  have ht : ((p : Int) - 2).toNat = p - 2 := by omega
  rw [ht] at hm
  have h1 : x * modinv x (p : Int) ≡ x * x ^ (p - 2) [ZMOD (p : Int)] := (Int.ModEq.refl x).mul hm
  refine h1.trans ?_
  have : x * x ^ (p - 2) = x ^ (p - 1) := by
    rw [← pow_succ']; congr 1; omega
  rw [this]
  exact Int.ModEq.pow_card_sub_one_eq_one hp hx
end NTV.PolyMod
