import NTV.Proofs.Lemmas.Round2ProofsB
import NTV.Proofs.Lemmas.HnfDet
/-! Linear algebra of `round2::one_step`: the new basis is `(1/p)·u·o`, `u` is a square non-singular
normal form whose lattice contains `p·ℤⁿ`; determinants of stored orders are positive. -/
open Matrix Finset
namespace NTV.Round2
open NTV.Ord NTV.PolyG
open NTV.RowOps (toM Rect ent)

theorem foldl_zipWith_getD (g : Int → Rat) (l : List (Int × List Rat)) (init : List Rat) (deg k : Nat)
    (hk : k < deg) (hinit : init.length = deg) (hl : ∀ x ∈ l, x.2.length = deg) :
    (l.foldl (fun acc uo => List.zipWith (fun r x => r + g uo.1 * x) acc uo.2) init).getD k 0 =
      init.getD k 0 + (l.map (fun uo => g uo.1 * uo.2.getD k 0)).sum := by
  induction l generalizing init with
  | nil => simp
  | cons x xs ih =>
    simp only [List.foldl_cons, List.map_cons, List.sum_cons]
    have hx : x.2.length = deg := hl x (by simp)
    rw [ih _ (by simp [hinit, hx]) (fun y hy => hl y (by simp [hy]))]
    have e : (List.zipWith (fun r x_1 => r + g x.1 * x_1) init x.2).getD k 0 =
        init.getD k 0 + g x.1 * x.2.getD k 0 := by
      simp [List.getD_eq_getElem?_getD, hinit, hx, hk]
    rw [e, add_assoc]

theorem zip_sum (F : Int → List Rat → Rat) (ui : List Int) (o : QMat) (h : ui.length = o.length) :
    ((List.zip ui o).map (fun uo => F uo.1 uo.2)).sum =
      ∑ j ∈ range o.length, F (ui.getD j 0) (o.getD j []) := by
  induction o generalizing ui with
  | nil => simp
  | cons r rs ih =>
    cases ui with
    | nil => simp at h
    | cons c cs =>
      simp only [List.zip_cons_cons, List.map_cons, List.sum_cons, List.length_cons]
      rw [Finset.sum_range_succ', ih cs (by simpa using h)]
      simp [add_comm]

theorem newBasisM_spec (n : Nat) (p : Int) (u : IMat) (o nb : QMat) (hu : NTV.Hnf.Rect n n u)
    (ho : Rect n n o) (h : newBasisM n p u o = .ok nb) :
    Rect n n nb ∧ toM n n nb =
      ((p : ℚ))⁻¹ • ((NTV.Hnf.toM n n u).map (Int.castRingHom ℚ) * toM n n o) := by
  unfold newBasisM at h
  obtain ⟨hlen, hrow⟩ := tabulate_inv _ _ _ h
  have hrow' : ∀ i (hi : i < n) (hr : i < nb.length), nb[i] = (List.zip (u.getD i []) o).foldl
      (fun acc uo => List.zipWith (fun r x => r + ((uo.1 : Rat) / (p : Rat)) * x) acc uo.2)
      (List.replicate n (0 : Rat)) := by
    intro i hi hr
    have hui : i < u.length := by rw [hu.1]; exact hi
    have := hrow i hi hr
    rw [idx_ok u i hui] at this
    simp only [bind, Except.bind, pure, Except.pure, Except.ok.injEq] at this
    rw [← this]
    simp [List.getD_eq_getElem?_getD, List.getElem?_eq_getElem hui]
  have hzl : ∀ i, ∀ x ∈ List.zip (u.getD i []) o, x.2.length = n :=
    fun i x hx => ho.2 x.2 (List.of_mem_zip hx).2
  refine ⟨⟨hlen, ?_⟩, ?_⟩
  · intro r hr
    obtain ⟨i, hi, rfl⟩ := List.mem_iff_getElem.mp hr
    rw [hrow' i (by omega) hi]
    exact foldl_zipWith_length (fun (uo : Int × List Rat) r x => r + ((uo.1 : Rat) / (p : Rat)) * x)
      (fun uo => uo.2) n _ _ (by simp) (hzl i)
  · ext i k
    have hi : i.val < nb.length := by rw [hlen]; exact i.isLt
    have hui : i.val < u.length := by rw [hu.1]; exact i.isLt
    have huil : (u.getD i.val []).length = o.length := by
      have : u.getD i.val [] = u[i.val] := by
        simp [List.getD_eq_getElem?_getD, List.getElem?_eq_getElem hui]
      rw [this, hu.2 _ (List.getElem_mem hui), ho.1]
    have e1 : toM n n nb i k = (nb[i.val]).getD k.val 0 := by
      simp [toM, ent, List.getD_eq_getElem?_getD, List.getElem?_eq_getElem hi]
    rw [e1, hrow' i.val i.isLt hi,
      foldl_zipWith_getD (fun c => (c : Rat) / (p : Rat)) _ _ n k.val k.isLt (by simp) (hzl i.val),
      zip_sum (fun c row => (c : Rat) / (p : Rat) * row.getD k.val 0) _ o huil, ho.1]
    simp only [Matrix.smul_apply, Matrix.mul_apply, Matrix.map_apply, Int.coe_castRingHom, smul_eq_mul,
      Finset.mul_sum]
    rw [← Fin.sum_univ_eq_sum_range (fun j => (((u.getD i.val []).getD j 0 : Int) : Rat) / (p : Rat) * (o.getD j []).getD k.val 0) n]
    have : (List.replicate n (0 : Rat)).getD k.val 0 = 0 := by
      simp [List.getD_eq_getElem?_getD, List.getElem?_replicate]
    rw [this, zero_add]
    apply Finset.sum_congr rfl
    intro j _
    simp only [toM, ent, NTV.Hnf.toM, NTV.Hnf.ent]
    ring

end NTV.Round2
