import Mathlib.LinearAlgebra.Matrix.Nondegenerate
import Mathlib.LinearAlgebra.Matrix.Adjugate
/-! # `Ideal::inv`, part A: the linear algebra of exact right division by a non-singular integer matrix.

`M` is a square integer matrix of non-zero determinant and `m` an integer.
* `exists_quotient_of_divisibility`: an integer matrix `D` with `D * M = m • 1` exists as soon as every integer
  vector `u` with `s·m ∣ (u · M)_j` for all `j` is divisible by `s` (for every `s ≠ 0`);
* `rowspan_quotient_iff`: the row lattice of such a `D` is `{v | m ∣ (v · M)_j for all j}`. -/
open Matrix
namespace NTV.IdealInv

variable {n : ℕ}

/-- integrality of `m · M⁻¹` from a divisibility criterion -/
theorem exists_quotient_of_divisibility (M : Matrix (Fin n) (Fin n) ℤ) (m : ℤ) (hdet : M.det ≠ 0)
    (h : ∀ (u : Fin n → ℤ) (s : ℤ), s ≠ 0 → (∀ j, s * m ∣ (u ᵥ* M) j) → ∀ i, s ∣ u i) :
    ∃ D : Matrix (Fin n) (Fin n) ℤ, D * M = m • (1 : Matrix (Fin n) (Fin n) ℤ) := by
  set s := M.det with hs
  set U : Matrix (Fin n) (Fin n) ℤ := m • adjugate M with hU
  have hUM : U * M = (s * m) • (1 : Matrix (Fin n) (Fin n) ℤ) := by
    rw [hU, Matrix.smul_mul, adjugate_mul, smul_smul, mul_comm]
  have hdiv : ∀ r i, s ∣ U r i := by
    intro r
    apply h (U r) s hdet
    intro j
    have : (U r ᵥ* M) j = (U * M) r j := rfl
    rw [this, hUM]
    by_cases hrj : r = j
    · simp [hrj]
    · simp [hrj]
  choose D hD using hdiv
  refine ⟨Matrix.of D, ?_⟩
  have hsD : s • Matrix.of D = U := by
    ext r i
    simp only [Matrix.smul_apply, Matrix.of_apply, smul_eq_mul]
    exact (hD r i).symm
  have : s • (Matrix.of D * M) = s • (m • (1 : Matrix (Fin n) (Fin n) ℤ)) := by
    rw [← Matrix.smul_mul, hsD, hUM, smul_smul]
  ext r i
  have e := congrFun (congrFun this r) i
  simp only [Matrix.smul_apply, smul_eq_mul] at e
  simpa using mul_left_cancel₀ hdet e

/-- the row lattice of the exact quotient `D = m · M⁻¹` -/
theorem rowspan_quotient_iff (M D : Matrix (Fin n) (Fin n) ℤ) (m : ℤ) (hdet : M.det ≠ 0)
    (hD : D * M = m • (1 : Matrix (Fin n) (Fin n) ℤ)) (v : Fin n → ℤ) :
    (∃ k : Fin n → ℤ, k ᵥ* D = v) ↔ ∀ j, m ∣ (v ᵥ* M) j := by
  constructor
  · rintro ⟨k, rfl⟩ j
    rw [vecMul_vecMul, hD, vecMul_smul, vecMul_one]
    exact ⟨k j, by simp⟩
  · intro h
    choose k hk using h
    refine ⟨k, ?_⟩
    have h0 : (k ᵥ* D - v) ᵥ* M = 0 := by
      rw [sub_vecMul, vecMul_vecMul, hD, vecMul_smul, vecMul_one]
      funext j
      simp [hk j]
    have := eq_zero_of_vecMul_eq_zero hdet h0
    exact sub_eq_zero.mp this

/-- a matrix with `D * M = m • 1`, `m ≠ 0`, has non-zero determinant -/
theorem det_ne_zero_of_mul_eq_smul_one (M D : Matrix (Fin n) (Fin n) ℤ) (m : ℤ) (hm : m ≠ 0)
    (hD : D * M = m • (1 : Matrix (Fin n) (Fin n) ℤ)) : D.det ≠ 0 := by
  intro h0
  have := congrArg Matrix.det hD
  rw [det_mul, h0, zero_mul, det_smul, det_one, mul_one] at this
  exact pow_ne_zero _ hm this.symm

end NTV.IdealInv
