import NTV.Proofs.Lemmas.PolyDivZ
open Polynomial
namespace NTV.PolyG

theorem all_zero_of_toPoly_zero (r : List Int) (h : toPoly r = 0) : r.all (· == 0) = true := by
  rw [List.all_eq_true]
  intro x hx
  obtain ⟨i, hi, rfl⟩ := List.mem_iff_getElem.mp hx
  have := congrArg (fun p => p.coeff i) h
  simp only [coeff_toPoly, coeff_zero] at this
  simp only [List.getD_eq_getElem?_getD, List.getElem?_eq_getElem hi, Option.getD_some] at this
  simp [this]

theorem toPoly_take_add (s : List Int) (i : Nat) (hs : s.length ≤ i + 1) :
    toPoly (s.take i) + C (s.getD i 0) * X ^ i = toPoly s := by
  ext n
  simp only [coeff_add, coeff_toPoly, coeff_C_mul, coeff_X_pow]
  by_cases hn : n = i
  · subst hn
    have : (s.take n).getD n 0 = 0 := getD_of_length_le _ _ (by simp)
    simp [this]
  · simp only [hn, ↓reduceIte, mul_zero, add_zero]
    by_cases hlt : n < i
    · simp [List.getD_eq_getElem?_getD, List.getElem?_take, hlt]
    · rw [getD_of_length_le _ _ (by simp; omega), getD_of_length_le s n (by omega)]

theorem natDegree_toPoly_le (s : List Int) : (toPoly s).natDegree ≤ s.length - 1 := by
  rw [natDegree_le_iff_coeff_eq_zero]
  intro N hN
  rw [coeff_toPoly]; exact getD_of_length_le s N (by omega)

/-- if `tmp = s·b` with `deg s < i`, the loop of `div_exact` never exits early and leaves a zero remainder -/
theorem divExactLoop_complete (b : List Int) (hb : b ≠ []) (hcb : Canon b) :
    ∀ (i : Nat) (tmp acc s : List Int), s.length ≤ i → toPoly tmp = toPoly s * toPoly b →
    ∃ q r, divExactLoop b (lc b) (b.length - 1) i tmp acc = some (q, r) ∧ r.all (· == 0) = true := by
  intro i
  induction i with
  | zero =>
    intro tmp acc s hs htmp
    have : s = [] := List.length_eq_zero_iff.mp (by omega)
    subst this
    refine ⟨acc, tmp, rfl, all_zero_of_toPoly_zero tmp (by simpa [toPoly] using htmp)⟩
  | succ i ih =>
    intro tmp acc s hs htmp
    have hlc0 := lc_ne_zero b hb hcb
    have hblen : 0 < b.length := List.length_pos_of_ne_nil hb
    have hbd := natDegree_toPoly b hb hcb
    have htop : tmp.getD (i + (b.length - 1)) 0 = s.getD i 0 * lc b := by
      rw [← coeff_toPoly, htmp,
        coeff_mul_add_eq_of_natDegree_le (le_trans (natDegree_toPoly_le s) (by omega)) (le_of_eq hbd.1),
        coeff_toPoly, coeff_toPoly, lc_eq_getD b hb]
    simp only [divExactLoop, htop]
    have hmod : (s.getD i 0 * lc b).fmod (lc b) = 0 := Int.mul_fmod_left _ _
    have hdiv : (s.getD i 0 * lc b).fdiv (lc b) = s.getD i 0 := Int.mul_fdiv_cancel _ hlc0
    simp only [hmod, ne_eq, not_true_eq_false, ↓reduceIte, hdiv]
    apply ih _ _ (s.take i) (by simp)
    rw [toPoly_subRaw, toPoly_replicate_append, toPoly_smulRaw, htmp]
    have := toPoly_take_add s i hs
    rw [← this]; ring

/-- C09: completeness of exact division: if `a = q'·b` in ℤ[x] with `a, b ≠ 0` (canonical), then
`div_exact` returns a quotient (which by soundness is the canonical form of q') -/
theorem divExact_complete (a b q' : List Int) (ha : a ≠ []) (hb : b ≠ []) (hca : Canon a) (hcb : Canon b)
    (h : toPoly a = toPoly q' * toPoly b) : ∃ q, divExact a b = some q := by
  have hda := natDegree_toPoly a ha hca
  have hdb := natDegree_toPoly b hb hcb
  have hq0 : toPoly q' ≠ 0 := by intro e; rw [e, zero_mul] at h; exact hda.2.2 h
  have hdeg : (toPoly a).natDegree = (toPoly q').natDegree + (toPoly b).natDegree := by
    rw [h]; exact natDegree_mul hq0 hdb.2.2
  have halen : 0 < a.length := List.length_pos_of_ne_nil ha
  have hblen : 0 < b.length := List.length_pos_of_ne_nil hb
  have hlen : b.length ≤ a.length := by omega
  -- canonical representative of q'
  set s := fromRaw q' with hs
  have hsP : toPoly s = toPoly q' := toPoly_fromRaw q'
  have hsne : s ≠ [] := by intro e; rw [e] at hsP; exact hq0 (by simpa [toPoly] using hsP.symm)
  have hsd := natDegree_toPoly s hsne (canon_fromRaw q')
  have hslen : s.length ≤ a.length - b.length + 1 := by
    have : 0 < s.length := List.length_pos_of_ne_nil hsne
    rw [hsP] at hsd; omega
  obtain ⟨q, r, hloop, hall⟩ := divExactLoop_complete b hb hcb (a.length - b.length + 1) a [] s hslen
    (by rw [hsP]; exact h)
  refine ⟨fromRaw q, ?_⟩
  unfold divExact
  have h1 : b.isEmpty = false := by cases b <;> simp_all
  have h2 : a.isEmpty = false := by cases a <;> simp_all
  have h3 : ¬ a.length < b.length := by omega
  simp only [h1, h2, Bool.false_eq_true, ↓reduceIte, h3, hloop, hall]

end NTV.PolyG
