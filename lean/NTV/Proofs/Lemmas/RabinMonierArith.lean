import NTV.Proofs.Lemmas.RabinMonierLiars
import Mathlib.RingTheory.ZMod.UnitsCyclic
import Mathlib.Data.Nat.Factorization.Basic
/-! Arithmetic side of the Rabin–Monier bound: shape of an odd composite number, exponents of the
unit groups modulo odd prime powers, "Korselt"-type facts for numbers with two prime factors. -/
namespace NTV.RM
open ZMod

theorem exponent_units_prime_pow (p α : ℕ) (hp : p.Prime) (hp2 : p ≠ 2) (hα : 1 ≤ α) :
    Monoid.exponent (ZMod (p ^ α))ˣ = p ^ (α - 1) * (p - 1) := by
  have : NeZero (p ^ α) := ⟨pow_ne_zero _ hp.ne_zero⟩
  have hcyc := ZMod.isCyclic_units_of_prime_pow p hp hp2 α
  rw [IsCyclic.exponent_eq_card, Nat.card_eq_fintype_card, ZMod.card_units_eq_totient,
    Nat.totient_prime_pow hp (by omega)]

/-- shape of a composite number: a prime power p^α (α ≥ 2), or p^α·q^β with p < q, or a product of
three pairwise coprime factors > 1. -/
theorem composite_cases (n : ℕ) (hn1 : 1 < n) (hcomp : ¬ n.Prime) :
    (∃ p α, p.Prime ∧ 2 ≤ α ∧ n = p ^ α) ∨
    (∃ p q α β, p.Prime ∧ q.Prime ∧ p < q ∧ 1 ≤ α ∧ 1 ≤ β ∧ n = p ^ α * q ^ β) ∨
    (∃ m₁ k₁ k₂, n = m₁ * (k₁ * k₂) ∧ m₁.Coprime (k₁ * k₂) ∧ k₁.Coprime k₂ ∧
      1 < m₁ ∧ 1 < k₁ ∧ 1 < k₂) := by
  have hn0 : n ≠ 0 := by omega
  have hp : (n.minFac).Prime := Nat.minFac_prime (by omega)
  set p := n.minFac with hpdef
  obtain ⟨α, m, hpm, hnm⟩ := Nat.exists_eq_pow_mul_and_not_dvd hn0 p hp.ne_one
  have hα : 1 ≤ α := by
    by_contra h
    have : α = 0 := by omega
    rw [this, pow_zero, one_mul] at hnm
    exact hpm (hnm ▸ Nat.minFac_dvd n)
  have hm0 : m ≠ 0 := by
    intro h; rw [h, mul_zero] at hnm; exact hn0 hnm
  have hcop_pm : (p ^ α).Coprime m := Nat.Coprime.pow_left _ ((Nat.Prime.coprime_iff_not_dvd hp).mpr hpm)
  by_cases hm1 : m = 1
  · left
    refine ⟨p, α, hp, ?_, by rw [hnm, hm1, mul_one]⟩
    by_contra h
    have : α = 1 := by omega
    rw [this, hm1, pow_one, mul_one] at hnm
    exact hcomp (hnm ▸ hp)
  · right
    have hq : (m.minFac).Prime := Nat.minFac_prime hm1
    set q := m.minFac with hqdef
    have hqm : q ∣ m := Nat.minFac_dvd m
    obtain ⟨β, m', hqm', hmm'⟩ := Nat.exists_eq_pow_mul_and_not_dvd hm0 q hq.ne_one
    have hβ : 1 ≤ β := by
      by_contra h
      have : β = 0 := by omega
      rw [this, pow_zero, one_mul] at hmm'
      exact hqm' (hmm' ▸ hqm)
    have hm'0 : m' ≠ 0 := by
      intro h; rw [h, mul_zero] at hmm'; exact hm0 hmm'
    have hcop_qm : (q ^ β).Coprime m' :=
      Nat.Coprime.pow_left _ ((Nat.Prime.coprime_iff_not_dvd hq).mpr hqm')
    by_cases hm'1 : m' = 1
    · left
      have hqn : q ∣ n := by rw [hnm]; exact Dvd.dvd.mul_left hqm _
      have hpq : p ≤ q := Nat.minFac_le_of_dvd hq.two_le hqn
      have hne : p ≠ q := by
        intro h; exact hpm (h ▸ hqm)
      refine ⟨p, q, α, β, hp, hq, by omega, hα, hβ, ?_⟩
      rw [hnm, hmm', hm'1, mul_one]
    · right
      refine ⟨p ^ α, q ^ β, m', by rw [hnm, hmm'], by rw [← hmm']; exact hcop_pm, hcop_qm, ?_, ?_, ?_⟩
      · exact Nat.one_lt_pow (by omega) hp.one_lt
      · exact Nat.one_lt_pow (by omega) hq.one_lt
      · omega

/-- a number with exactly two prime factors is not a Carmichael number (Korselt), in the form needed:
the exponent of the unit group modulo one of the two prime powers does not divide n − 1 -/
theorem two_primes_not_carmichael (p q α β : ℕ) (hp : p.Prime) (hq : q.Prime) (hp2 : p ≠ 2)
    (hq2 : q ≠ 2) (hpq : p < q) (hα : 1 ≤ α) (hβ : 1 ≤ β) :
    ¬ Monoid.exponent (ZMod (p ^ α))ˣ ∣ p ^ α * q ^ β - 1 ∨
    ¬ Monoid.exponent (ZMod (q ^ β))ˣ ∣ p ^ α * q ^ β - 1 := by
  rw [exponent_units_prime_pow p α hp hp2 hα, exponent_units_prime_pow q β hq hq2 hβ]
  have hpos : 1 ≤ p ^ α * q ^ β := Nat.one_le_iff_ne_zero.mpr
    (mul_ne_zero (pow_ne_zero _ hp.ne_zero) (pow_ne_zero _ hq.ne_zero))
  by_cases h2 : 2 ≤ α
  · left
    intro h
    have h1 : p ∣ p ^ α * q ^ β - 1 :=
      dvd_trans (Dvd.dvd.mul_right (dvd_pow_self p (by omega)) _) h
    have h3 : p ∣ p ^ α * q ^ β := Dvd.dvd.mul_right (dvd_pow_self p (by omega)) _
    have h4 : p ∣ 1 := by
      have := (Nat.dvd_sub h3 h1)
      rwa [Nat.sub_sub_self hpos] at this
    exact hp.one_lt.ne' (Nat.dvd_one.mp h4)
  · by_cases h2' : 2 ≤ β
    · right
      intro h
      have h1 : q ∣ p ^ α * q ^ β - 1 :=
        dvd_trans (Dvd.dvd.mul_right (dvd_pow_self q (by omega)) _) h
      have h3 : q ∣ p ^ α * q ^ β := Dvd.dvd.mul_left (dvd_pow_self q (by omega)) _
      have h4 : q ∣ 1 := by
        have := (Nat.dvd_sub h3 h1)
        rwa [Nat.sub_sub_self hpos] at this
      exact hq.one_lt.ne' (Nat.dvd_one.mp h4)
    · right
      have ea : α = 1 := by omega
      have eb : β = 1 := by omega
      subst ea eb
      simp only [pow_one, Nat.sub_self, pow_zero, one_mul]
      intro h
      -- p q − 1 = p (q − 1) + (p − 1)
      have hq1 := hq.one_lt
      have hp1 := hp.one_lt
      have e : p * q - 1 = p * (q - 1) + (p - 1) := by
        have : p * q = p * (q - 1) + p := by
          conv_lhs => rw [show q = (q - 1) + 1 by omega]
          ring
        omega
      rw [e] at h
      have h5 : q - 1 ∣ p - 1 := (Nat.dvd_add_right (Dvd.intro_left _ rfl)).mp h
      have := Nat.le_of_dvd (by omega) h5
      omega

end NTV.RM
