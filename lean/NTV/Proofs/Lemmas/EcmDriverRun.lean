import NTV.Proofs.Lemmas.EcmProofs
import Mathlib.Logic.Relation
/-! The work-stack driver `driverLoop` as a transition system.
`Step ecmFn prof bsel st st'` is one iteration of `while let Some(..) = stack.pop()` that does not leave
the loop; `driverLoop_ok_run`: a run that returns `.ok result count rest` is a finite chain of steps
from the start state to a state with an empty stack whose map, sorted, is the result.
Also: every stream-consuming routine returns a suffix of the stream it was given. -/
namespace NTV.Ecm
open NTV.Draw (Stream)

/-- one iteration of the driver loop (the five `continue`/fall-through paths of the Rust) -/
inductive Step (ecmFn : Int → Nat → Nat → Stream → EcmRes) (prof : Profile) (bsel : Int → Option Nat) : DState → DState → Prop
  /-- `if now <= 1 { continue }` -/
  | drop (st : DState) (now : Int) (mult : Nat) (h : st.stack.getLast? = some (now, mult)) (hle : now ≤ 1) :
      Step ecmFn prof bsel st { st with stack := st.stack.dropLast }
  /-- `if is_prime(&now) { *map.entry(now).or_insert(0) += multiplicity; continue }` -/
  | prime (st : DState) (now : Int) (mult : Nat) (s : Stream) (m : List (Int × Nat))
      (h : st.stack.getLast? = some (now, mult)) (hgt : 1 < now)
      (hp : isPrimeS now st.stream = some (true, s)) (hm : mapAdd prof st.map now mult = .ok m) :
      Step ecmFn prof bsel st { st with stack := st.stack.dropLast, map := m, stream := s }
  /-- `if k >= 2 { stack.push((b, multiplicity * k)); continue }` -/
  | power (st : DState) (now : Int) (mult : Nat) (s : Stream) (base : Int) (k m : Nat)
      (h : st.stack.getLast? = some (now, mult)) (hgt : 1 < now)
      (hp : isPrimeS now st.stream = some (false, s))
      (hpp : NTV.Elem.perfectPower now = some (base, k)) (hk : k ≥ 2) (hm : mulU64 prof mult k = .ok m) :
      Step ecmFn prof bsel st { st with stack := st.stack.dropLast ++ [(base, m)], stream := s }
  /-- `if fac == 1 { stack.push((now, multiplicity)); continue }` -/
  | retry (st : DState) (now : Int) (mult : Nat) (s : Stream) (base : Int) (k b b2 : Nat)
      (fac : Int) (nowcount : Nat) (s' : Stream) (count : Nat)
      (h : st.stack.getLast? = some (now, mult)) (hgt : 1 < now)
      (hp : isPrimeS now st.stream = some (false, s))
      (hpp : NTV.Elem.perfectPower now = some (base, k)) (hk : ¬ k ≥ 2) (hb : bsel now = some b)
      (hb2 : mulU64 prof 100 b = .ok b2)
      (hf : ecmFn now b b2 s = .found fac nowcount s') (hc : addU64 prof st.count nowcount = .ok count)
      (h1 : fac = 1) :
      Step ecmFn prof bsel st { stack := st.stack.dropLast ++ [(now, mult)], map := st.map, count := count, stream := s' }
  /-- `stack.push((fac, multiplicity)); stack.push((now / fac, multiplicity))` -/
  | split (st : DState) (now : Int) (mult : Nat) (s : Stream) (base : Int) (k b b2 : Nat)
      (fac : Int) (nowcount : Nat) (s' : Stream) (count : Nat)
      (h : st.stack.getLast? = some (now, mult)) (hgt : 1 < now)
      (hp : isPrimeS now st.stream = some (false, s))
      (hpp : NTV.Elem.perfectPower now = some (base, k)) (hk : ¬ k ≥ 2) (hb : bsel now = some b)
      (hb2 : mulU64 prof 100 b = .ok b2)
      (hf : ecmFn now b b2 s = .found fac nowcount s') (hc : addU64 prof st.count nowcount = .ok count)
      (h1 : fac ≠ 1) :
      Step ecmFn prof bsel st
        { stack := st.stack.dropLast ++ [(fac, mult), (Int.tdiv now fac, mult)], map := st.map, count := count, stream := s' }

/-- a run of the driver that returns is a finite chain of `Step`s ending with an empty stack -/
theorem driverLoop_ok_run (ecmFn : Int → Nat → Nat → Stream → EcmRes) (prof : Profile) (bsel : Int → Option Nat)
    (fuel : Nat) (st : DState) (result : List (Int × Nat)) (count : Nat) (rest : Stream)
    (h : driverLoop ecmFn prof bsel fuel st = .ok result count rest) :
    ∃ fin : DState, Relation.ReflTransGen (Step ecmFn prof bsel) st fin ∧ fin.stack = [] ∧
      result = sortPairs fin.map ∧ count = fin.count ∧ rest = fin.stream := by
  induction fuel generalizing st with
  | zero =>
    unfold driverLoop at h
    split at h
    · rename_i hemp
      injection h with h1 h2 h3
      exact ⟨st, .refl, by simpa using hemp, h1.symm, h2.symm, h3.symm⟩
    · cases h
  | succ f ih =>
    unfold driverLoop at h
    split at h
    · rename_i hnone
      injection h with h1 h2 h3
      exact ⟨st, .refl, by simpa using hnone, h1.symm, h2.symm, h3.symm⟩
    · rename_i now mult hsome
      simp only at h
      split at h
      · rename_i hle
        obtain ⟨fin, hr, hfin⟩ := ih _ h
        exact ⟨fin, .head (.drop st now mult hsome hle) hr, hfin⟩
      · rename_i hgt
        have hnow : 1 < now := by omega
        split at h
        · cases h
        · rename_i s hp
          split at h
          · cases h
          · rename_i m hm
            obtain ⟨fin, hr, hfin⟩ := ih _ h
            exact ⟨fin, .head (.prime st now mult s m hsome hnow hp hm) hr, hfin⟩
        · rename_i s hp
          split at h
          · cases h
          · rename_i base k hpp
            split at h
            · rename_i hk
              split at h
              · cases h
              · rename_i m hm
                obtain ⟨fin, hr, hfin⟩ := ih _ h
                exact ⟨fin, .head (.power st now mult s base k m hsome hnow hp hpp hk hm) hr, hfin⟩
            · rename_i hk
              split at h
              · cases h
              · rename_i b hb
                split at h
                · cases h
                · rename_i b2 hb2
                  split at h
                  · cases h
                  · cases h
                  · rename_i fac nowcount s' hfound
                    split at h
                    · cases h
                    · rename_i cnt hc
                      split at h
                      · rename_i h1
                        have h1' : fac = 1 := by simpa using h1
                        obtain ⟨fin, hr, hfin⟩ := ih _ h
                        exact ⟨fin, .head (.retry st now mult s base k b b2 fac nowcount s' cnt hsome hnow hp hpp hk hb
                          hb2 hfound hc h1') hr, hfin⟩
                      · rename_i h1
                        have h1' : fac ≠ 1 := by simpa using h1
                        obtain ⟨fin, hr, hfin⟩ := ih _ h
                        exact ⟨fin, .head (.split st now mult s base k b b2 fac nowcount s' cnt hsome hnow hp hpp hk hb
                          hb2 hfound hc h1') hr, hfin⟩

/-- an invariant of single steps holds at the end of every returning run -/
theorem run_invariant {ecmFn : Int → Nat → Nat → Stream → EcmRes} {prof : Profile} {bsel : Int → Option Nat}
    (P : DState → Prop) (hstep : ∀ st st', P st → Step ecmFn prof bsel st st' → P st')
    {st fin : DState} (h0 : P st) (hr : Relation.ReflTransGen (Step ecmFn prof bsel) st fin) : P fin := by
  induction hr with
  | refl => exact h0
  | tail _ hs ih => exact hstep _ _ ih hs

/-! ## every consumer of the draw stream returns a suffix of it -/

theorem below_suffix (bound : Nat) (s : Stream) (v : Nat) (rest : Stream)
    (h : NTV.Draw.below bound s = some (v, rest)) : rest <:+ s := by
  induction s with
  | nil => simp [NTV.Draw.below] at h
  | cons c cs ih =>
    simp only [NTV.Draw.below] at h
    split at h
    · simp at h
    · split at h
      · simp only [Option.some.injEq, Prod.mk.injEq] at h
        rw [← h.2]; exact List.suffix_cons c cs
      · exact (ih h).trans (List.suffix_cons c cs)

theorem range_suffix (lo hi : Int) (s : Stream) (v : Int) (rest : Stream)
    (h : NTV.Draw.range lo hi s = some (v, rest)) : rest <:+ s := by
  unfold NTV.Draw.range at h
  split at h
  · cases h
  · rename_i v' r hb
    simp only [Option.some.injEq, Prod.mk.injEq] at h
    rw [← h.2]; exact below_suffix _ _ _ _ hb

theorem roundsS_suffix (n d c k : Nat) (s : Stream) (v : Bool) (rest : Stream)
    (h : NTV.Prime.roundsS n d c k s = some (v, rest)) : rest <:+ s := by
  induction k generalizing s with
  | zero =>
    simp only [NTV.Prime.roundsS, Option.some.injEq, Prod.mk.injEq] at h
    rw [← h.2]; exact List.suffix_refl _
  | succ k ih =>
    unfold NTV.Prime.roundsS at h
    split at h
    · cases h
    · rename_i r s' hr
      have hs := range_suffix _ _ _ _ _ hr
      split at h
      · exact (ih _ h).trans hs
      · simp only [Option.some.injEq, Prod.mk.injEq] at h
        rw [← h.2]; exact hs

theorem isPrimeS_suffix (n : Int) (s : Stream) (v : Bool) (rest : Stream)
    (h : isPrimeS n s = some (v, rest)) : rest <:+ s := by
  unfold isPrimeS NTV.Prime.isPrimeS at h
  split at h
  · simp only [Option.some.injEq, Prod.mk.injEq] at h; rw [← h.2]; exact List.suffix_refl _
  · split at h
    · simp only [Option.some.injEq, Prod.mk.injEq] at h; rw [← h.2]; exact List.suffix_refl _
    · split at h
      · simp only [Option.some.injEq, Prod.mk.injEq] at h; rw [← h.2]; exact List.suffix_refl _
      · exact roundsS_suffix _ _ _ _ _ _ _ h

/-- what `is_prime` accepts is at least 2 -/
theorem isPrimeS_true_ge (n : Int) (s : Stream) (rest : Stream)
    (h : isPrimeS n s = some (true, rest)) : 2 ≤ n := by
  unfold isPrimeS NTV.Prime.isPrimeS at h
  split at h
  · simp at h
  · omega

theorem debugAssertComposite_suffix (n : Int) (prof : Profile) (s s' : Stream)
    (h : debugAssertComposite n prof s = .ok s') : s' <:+ s := by
  unfold debugAssertComposite at h
  split at h
  · injection h with h; rw [← h]; exact List.suffix_refl _
  · split at h
    · cases h
    · cases h
    · rename_i s2 hp
      injection h with h
      rw [← h]; exact isPrimeS_suffix _ _ _ _ hp

theorem ecmLoop_suffix (n : Int) (b1 b2 : Nat) (prof : Profile) (f count : Nat) (s : Stream)
    (fac : Int) (c : Nat) (rest : Stream)
    (h : ecmLoop n b1 b2 prof f count s = .found fac c rest) : rest <:+ s := by
  induction f generalizing count s with
  | zero => simp [ecmLoop] at h
  | succ f ih =>
    unfold ecmLoop at h
    split at h
    · cases h
    · split at h
      · cases h
      · split at h
        · cases h
        · rename_i a s1 h1
          split at h
          · cases h
          · rename_i x s2 h2
            split at h
            · cases h
            · rename_i y s3 h3
              have hs : s3 <:+ s :=
                ((range_suffix _ _ _ _ _ h3).trans (range_suffix _ _ _ _ _ h2)).trans (range_suffix _ _ _ _ _ h1)
              split at h
              · exact (ih _ _ h).trans hs
              · split at h
                · exact (ih _ _ h).trans hs
                · split at h
                  · cases h
                  · injection h with _ _ h3
                    rw [← h3]; exact hs
              · cases h
              · cases h

theorem ecm_suffix (n : Int) (b1 b2 : Nat) (stream : Stream) (fuel : Nat) (prof : Profile)
    (fac : Int) (c : Nat) (rest : Stream) (h : ecm n b1 b2 stream fuel prof = .found fac c rest) :
    rest <:+ stream := by
  unfold ecm at h
  split at h
  · rename_i r hr
    subst h
    unfold debugAssertComposite at hr
    split at hr
    · cases hr
    · split at hr <;> cases hr
  · rename_i s hs
    exact (ecmLoop_suffix _ _ _ _ _ _ _ _ _ _ h).trans (debugAssertComposite_suffix _ _ _ _ hs)

theorem drawN_suffix (n : Int) (k : Nat) (s : Stream) (vs : List Int) (rest : Stream)
    (h : drawN n k s = some (vs, rest)) : rest <:+ s := by
  induction k generalizing s vs with
  | zero => simp only [drawN, Option.some.injEq, Prod.mk.injEq] at h; rw [← h.2]; exact List.suffix_refl _
  | succ k ih =>
    unfold drawN at h
    split at h
    · cases h
    · rename_i v s1 h1
      split at h
      · cases h
      · rename_i vs' s2 h2
        simp only [Option.some.injEq, Prod.mk.injEq] at h
        obtain ⟨_, rfl⟩ := h
        exact (ih _ _ h2).trans (range_suffix _ _ _ _ _ h1)

theorem drawPts_suffix (n : Int) (k : Nat) (s : Stream) (ps : List Point) (rest : Stream)
    (h : drawPts n k s = some (ps, rest)) : rest <:+ s := by
  induction k generalizing s ps with
  | zero => simp only [drawPts, Option.some.injEq, Prod.mk.injEq] at h; rw [← h.2]; exact List.suffix_refl _
  | succ k ih =>
    unfold drawPts at h
    split at h
    · cases h
    · rename_i x s1 h1
      split at h
      · cases h
      · rename_i y s2 h2
        split at h
        · cases h
        · rename_i ps' s3 h3
          simp only [Option.some.injEq, Prod.mk.injEq] at h
          obtain ⟨_, rfl⟩ := h
          exact ((ih _ _ h3).trans (range_suffix _ _ _ _ _ h2)).trans (range_suffix _ _ _ _ _ h1)

theorem ecmParLoop_suffix (n : Int) (b1 b2 pc : Nat) (prof : Profile) (f count : Nat) (s : Stream)
    (fac : Int) (c : Nat) (rest : Stream)
    (h : ecmParLoop n b1 b2 pc prof f count s = .found fac c rest) : rest <:+ s := by
  induction f generalizing count s with
  | zero => simp [ecmParLoop] at h
  | succ f ih =>
    unfold ecmParLoop at h
    split at h
    · cases h
    · split at h
      · cases h
      · split at h
        · cases h
        · rename_i as s1 h1
          split at h
          · cases h
          · rename_i pts s2 h2
            have hs : s2 <:+ s := (drawPts_suffix _ _ _ _ _ h2).trans (drawN_suffix _ _ _ _ _ h1)
            split at h
            · exact (ih _ _ h).trans hs
            · split at h
              · exact (ih _ _ h).trans hs
              · split at h
                · cases h
                · split at h
                  · cases h
                  · injection h with _ _ h3
                    rw [← h3]; exact hs
            · cases h
            · cases h

theorem ecmParallel_suffix (n : Int) (b1 b2 : Nat) (stream : Stream) (fuel : Nat) (prof : Profile)
    (fac : Int) (c : Nat) (rest : Stream) (h : ecmParallel n b1 b2 stream fuel prof = .found fac c rest) :
    rest <:+ stream := by
  unfold ecmParallel at h
  split at h
  · rename_i r hr
    subst h
    unfold debugAssertComposite at hr
    split at hr
    · cases hr
    · split at hr <;> cases hr
  · rename_i s hs
    split at h
    · cases h
    · exact (ecmParLoop_suffix _ _ _ _ _ _ _ _ _ _ _ h).trans (debugAssertComposite_suffix _ _ _ _ hs)

end NTV.Ecm
