import NTV.Proofs.Lemmas.KummerDedekindE
import NTV.Proofs.C08
import NTV.Proofs.C15
/-! Panic-freedom of `prime_decomp::decompose` under the hypotheses of the Kummer–Dedekind theorem (monic `f`,
order ⊇ ℤ[θ] given by a basis matrix with an integral inverse, table of that order, `p` prime not dividing the
index): the only failure is `inconclusive stream` (the draws of `factorize_mod_p` ran out). -/
open Matrix
namespace NTV.KD
open NTV.IdealP NTV.Ord NTV.Hnf NTV.DecompP Polynomial
open NTV.RowOps (toM Rect ent)
open NTV.PolyG (toPoly coeff_toPoly Canon lc degU coefAt fromRaw)
open NTV.PolyMod (Factors factorizeModP)
open NTV.Ideal (primeAbove decompose wordOf principal)

variable {f : List Int} {B : QMat} {n : Nat} {t : Table} {Cm : Matrix (Fin n) (Fin n) ℤ}

/-- `to_z_basis_int` succeeds on every element with integer coefficients when the basis matrix has an integral
inverse (the order contains ℤ[θ]): the system is non-singular and the solution is integral -/
theorem toZBasisInt_total (hB : Rect n n B) (hC : Cm.map (Int.castRingHom ℚ) * toM n n B = 1) (a : List Rat)
    (hint : ∀ c < n, ∃ z : Int, coefAt a c = (z : Rat)) : ∃ x, toZBasisInt B a = .ok x := by
  have hdet := det_ne_zero_of_inverse hC
  have hb : ((List.range B.length).map (fun k => coefAt a k)).length = n := by simp [hB.1]
  cases hs : NTV.LinAlg.solve B ((List.range B.length).map (fun k => coefAt a k)) with
  | error e => exact absurd (NTV.LinAlg.solve_err B _ n hB hb e hs).2 hdet
  | ok y =>
    have hlen := NTV.LinAlg.solve_length B _ y n hB hb hs
    have hsol := NTV.LinAlg.solve_ok B _ y n hB hb hs
    have hC' : toM n n B * Cm.map (Int.castRingHom ℚ) = 1 := mul_eq_one_comm.mp hC
    have hv : (fun k : Fin n => y.getD k 0) =
        (fun c : Fin n => ((List.range B.length).map (fun k => coefAt a k)).getD c 0) ᵥ* Cm.map (Int.castRingHom ℚ) := by
      rw [← hsol, Matrix.vecMul_vecMul, hC', Matrix.vecMul_one]
    have hall : ∀ k < n, isInteger (y.getD k 0) = true := by
      intro k hk
      rw [isInteger_iff]
      have hk' := congrFun hv ⟨k, hk⟩
      simp only [Matrix.vecMul, dotProduct, Matrix.map_apply, eq_intCast] at hk'
      rw [hk']
      have hz : ∀ c : Fin n, ∃ z : Int,
          ((List.range B.length).map (fun k => coefAt a k)).getD c 0 = (z : Rat) := by
        intro c
        obtain ⟨z, hz⟩ := hint c c.2
        refine ⟨z, ?_⟩
        simp [List.getD_eq_getElem?_getD, hB.1, c.2, hz]
      choose zs hzs using hz
      refine ⟨∑ c : Fin n, zs c * Cm c ⟨k, hk⟩, ?_⟩
      push_cast
      apply Finset.sum_congr rfl
      intro c _
      rw [hzs c]
    unfold toZBasisInt toZBasis solveExpect
    rw [hs]
    have ht := tabulate_int y n hlen
    simp only [bind, Except.bind] at ht ⊢
    rw [hB.1, ht]
    unfold cellSpec
    rw [if_pos hall]
    exact ⟨_, rfl⟩

theorem coefAt_ratOf (g : List Int) (c : Nat) : coefAt (ratOf g) c = ((g.getD c 0 : Int) : Rat) := by
  unfold ratOf coefAt
  rw [NTV.PolyG.getD_fromRaw]
  simp only [List.getD_eq_getElem?_getD, List.getElem?_map]
  cases g[c]? <;> simp

/-- the closure (g, e) ↦ ((g(θ)) + (p), e) of `decompose` never panics -/
theorem primeAbove_total (T : TableRing t n) (hf : degU f = n) (hB : Rect n n B)
    (hC : Cm.map (Int.castRingHom ℚ) * toM n n B = 1) (p : Int) (g : List Int) (m : Nat) :
    ∃ r, primeAbove f B t p g m = .ok r := by
  have hn := T.pos
  -- the coordinate vector
  have helem : ∃ elem, elemSpec f B g = .ok elem ∧ elem.length = n := by
    unfold elemSpec
    split
    · exact ⟨_, rfl, by rw [hf]; simp⟩
    · obtain ⟨x, hx⟩ := toZBasisInt_total hB hC (ratOf g) (fun c _ => ⟨_, coefAt_ratOf g c⟩)
      exact ⟨x, hx, (toZBasisInt_spec B n hB _ x hx).1⟩
  obtain ⟨elem, he, hel⟩ := helem
  obtain ⟨A, hA, wA, _⟩ := principal_total T hel
  have hplen : (p :: List.replicate (n - 1) 0).length = n := by simp; omega
  obtain ⟨Z, hZ, wZ, _⟩ := principal_total T hplen
  obtain ⟨S, hS, _⟩ := add_total wA wZ T.pos
  refine ⟨(S, m), ?_⟩
  unfold primeAbove
  unfold elemSpec ratOf at he
  subst hf
  by_cases hc : degU (fromRaw (g.map (fun (c : Int) => (c : Rat)))) ≥ degU f
  · rw [if_pos hc] at he
    cases he
    simp only [if_pos hc, bind, Except.bind, pure, Except.pure, hA, show ¬ degU f = 0 by omega, if_false, hZ, hS]
  · rw [if_neg hc] at he
    simp only [if_neg hc, bind, Except.bind, pure, Except.pure, he, hA, show ¬ degU f = 0 by omega, if_false,
      hZ, hS]

theorem mapM_total {α β : Type} (g : α → Except String β) : ∀ (l : List α), (∀ x ∈ l, ∃ r, g x = .ok r) →
    ∃ res, l.mapM g = .ok res := by
  intro l
  induction l with
  | nil => intro _; exact ⟨[], rfl⟩
  | cons a l ih =>
    intro h
    obtain ⟨r, hr⟩ := h a (by simp)
    obtain ⟨rs, hrs⟩ := ih (fun x hx => h x (by simp [hx]))
    refine ⟨r :: rs, ?_⟩
    rw [List.mapM_cons, hr, hrs]
    rfl

/-- **panic-freedom of `decompose`** under the hypotheses of the Kummer–Dedekind theorem -/
theorem decompose_no_panic (hn : 1 ≤ n) (hfl : f.length = n + 1) (hmonic : lc f = 1) (hB : Rect n n B)
    (hC : Cm.map (Int.castRingHom ℚ) * toM n n B = 1) (h0 : B.getD 0 [] = 1 :: List.replicate (n - 1) 0)
    (ht : IsTable f B n t) (p : Nat) (hp : p.Prime) (hidx : ¬ (p : ℤ) ∣ Cm.det) (hlen : f.length < 2 ^ 64)
    (s : NTV.Draw.Stream) (e : String) (h : decompose f B t (p : Int) s = .error e) :
    e = "inconclusive stream" := by
  have T : TableRing t n := tableRing_of hn hfl hmonic hB hC ht h0
  have hne : f ≠ [] := by intro e0; simp [e0] at hfl
  have hemp : f.isEmpty = false := by cases f <;> simp_all
  have hdeg : degU f = n := by simp [degU, hemp, hfl]
  have hz := (NTV.C15.power_basis_discriminant f n hn hfl hmonic).1
  have hindex : index B (identityQ n) = .ok Cm.det := by
    apply NTV.C15.index_is_det_of_change_of_basis B (identityQ n) n hB (identityQ_rect n)
      (det_ne_zero_of_inverse hC) Cm
    rw [identityQ_toM]
    exact hC.symm
  have hp0 : (p : Int) ≠ 0 := by have := hp.pos; omega
  have hmod : ¬ Int.tmod Cm.det (p : Int) = 0 := fun h0 => hidx (Int.dvd_iff_tmod_eq_zero.mpr h0)
  unfold decompose at h
  simp only [hemp, Bool.false_eq_true, if_false, hz, hindex, hp0, hmod, bind, Except.bind,
    throw, throwThe, MonadExceptOf.throw] at h
  -- the modular factorisation
  have hfnz : (toPoly f).map (Int.castRingHom (ZMod p)) ≠ 0 := by
    have : Fact p.Prime := ⟨hp⟩
    intro hzero
    have := congrArg (fun F => F.coeff n) hzero
    simp only [coeff_map, coeff_toPoly, coeff_zero, eq_intCast] at this
    have hl := NTV.PolyG.lc_eq_getD f hne
    rw [hfl, Nat.add_sub_cancel, hmonic] at hl
    rw [hl] at this
    simp at this
  have hw : p < 2 ^ 64 → wordOf (p : Int) = p := by
    intro hlt
    have hc : (0 : Int) ≤ (p : Int) ∧ (p : Int) < 2 ^ 64 := ⟨by omega, by exact_mod_cast hlt⟩
    unfold wordOf; rw [if_pos hc]; omega
  cases hfs : factorizeModP f (p : Int) (wordOf (p : Int)) s with
  | error e' =>
    rw [hfs] at h
    simp only [Except.error.injEq] at h
    subst h
    exact NTV.C08.no_panic p hp f _ s _ hfnz hw hlen hfs
  | ok fs =>
    rw [hfs] at h
    exfalso
    obtain ⟨res, hres⟩ := mapM_total (fun (x : List Int × Nat) => primeAbove f B t (p : Int) x.1 x.2) fs
      (fun x _ => primeAbove_total T hdeg hB hC (p : Int) x.1 x.2)
    simp only at h
    rw [show (fs.mapM (fun (x : List Int × Nat) => match x with | (poly, e) => primeAbove f B t (p : Int) poly e))
      = fs.mapM (fun (x : List Int × Nat) => primeAbove f B t (p : Int) x.1 x.2) from rfl, hres] at h
    cases h

end NTV.KD
