import NTV.Proofs.Lemmas.PolyZProofs2
import NTV.Proofs.Lemmas.PolyZProofs3
import NTV.Proofs.C10
/-! Structure of `NTV.PolyZ.factorize`, part 3: what a successful run gives in ℤ[X]. -/
open Polynomial
namespace NTV.PolyZ
open NTV.PolyG NTV.PolyMod NTV.Res

/-- the exactness flag of the subresultant gcd of pp(a) and its derivative: every division of the
recurrence leaves no remainder (the Rust code discards nothing — its `/` is then the exact quotient).
True by the fundamental theorem of subresultants: proved below as `gcdExact_holds` for every non-zero
canonical `a` (from `NTV.Res.resultantSmartGcd_flag`). -/
def GcdExact (a : List Int) : Prop :=
  ∀ g ok, resultantSmartGcdE (contPP a).2 (differential (contPP a).2) = some (.ok (g, ok)) → ok = true

/-- the abstract entries of an output list -/
noncomputable def entries (fs : List (List Int × Nat)) : List (ℤ[X] × Nat) := fs.map fun fe => (toPoly fe.1, fe.2)

theorem map_pw_entries (fs : List (List Int × Nat)) : (entries fs).map Alg.pw = fs.map pw := by
  simp [entries, List.map_map, Function.comp_def, Alg.pw, pw]

theorem map_fst_entries (fs : List (List Int × Nat)) : (entries fs).map Prod.fst = (fs.map Prod.fst).map toPoly := by
  simp [entries, List.map_map, Function.comp_def]

theorem mem_entries {fs : List (List Int × Nat)} {f : List Int} {e : Nat} (h : (f, e) ∈ fs) :
    (toPoly f, e) ∈ entries fs := List.mem_map.mpr ⟨(f, e), h, rfl⟩

/-- the run as a `Book` in ℤ[X] -/
theorem Run.book {a : List Int} {c : Int} {fs : List (List Int × Nat)} {g sq r : List Int} (R : Run a c fs g sq r) :
    Alg.Book (toPoly (contPP a).2) (toPoly r) (entries fs) := by
  refine ⟨by rw [map_pw_entries]; exact R.hprod, ?_⟩
  intro l1 f e l2 hsplit
  unfold entries at hsplit
  obtain ⟨fs1, fs2', h1, h2, h3⟩ := List.map_eq_append_iff.mp hsplit
  obtain ⟨fe, fs2, h4, h5, h6⟩ := List.map_eq_cons_iff.mp h3
  obtain ⟨f', e'⟩ := fe
  simp only [Prod.mk.injEq] at h5
  obtain ⟨rfl, rfl⟩ := h5
  subst h4 h6
  have := R.hmax fs1 f' e' fs2 h1
  rw [← map_pw_entries] at this
  exact this

section facts
variable {a : List Int} (ha : a ≠ []) (hca : Canon a)
include ha hca

theorem pp_facts : (toPoly (contPP a).2).IsPrimitive ∧ toPoly (contPP a).2 ≠ 0 ∧
    0 < (toPoly (contPP a).2).leadingCoeff ∧ (toPoly (contPP a).2).natDegree = a.length - 1 ∧
    (contPP a).1 ≠ 0 := by
  obtain ⟨s1, s2, s3, s4⟩ := contPP_spec a ha hca
  have hne := pp_ne_nil a ha hca
  have hc := contPP_fst_ne_zero a ha hca
  obtain ⟨d1, d2, d3⟩ := natDegree_toPoly _ hne s4
  refine ⟨isPrimitive_of_list _ s2, d3, by rw [d2]; exact s3, ?_, hc⟩
  rw [← (natDegree_toPoly a ha hca).1, ← s1, natDegree_C_mul hc]

/-- the content: non-zero, sign of the leading coefficient, absolute value = content -/
theorem content_facts : (contPP a).1 ≠ 0 ∧ (0 < (contPP a).1 ↔ 0 < lc a) ∧ (toPoly a).content = |(contPP a).1| := by
  obtain ⟨s1, s2, s3, s4⟩ := contPP_spec a ha hca
  obtain ⟨p1, p2, p3, _, p5⟩ := pp_facts ha hca
  refine ⟨p5, ?_, ?_⟩
  · rw [← (natDegree_toPoly a ha hca).2.1, ← s1, leadingCoeff_mul, leadingCoeff_C]
    constructor
    · intro h; exact mul_pos h p3
    · intro h; exact (pos_iff_pos_of_mul_pos h).mpr p3
  · rw [← s1, content_C_mul, p1.content_eq_one, mul_one, Int.abs_eq_normalize]

end facts

/-- a primitive constant with positive leading coefficient is 1 -/
theorem eq_one_of_primitive_const {P : ℤ[X]} (hp : P.IsPrimitive) (hd : P.natDegree = 0) (hl : 0 < P.leadingCoeff) :
    P = 1 := by
  obtain ⟨k, rfl⟩ := natDegree_eq_zero.mp hd
  have hu := hp k (dvd_refl _)
  rw [leadingCoeff_C] at hl
  rcases Int.isUnit_iff.mp hu with rfl | rfl
  · simp
  · omega

/-- a unit with positive leading coefficient is 1 -/
theorem eq_one_of_isUnit {P : ℤ[X]} (hu : IsUnit P) (hl : 0 < P.leadingCoeff) : P = 1 := by
  obtain ⟨k, hk, rfl⟩ := Polynomial.isUnit_iff.mp hu
  rw [leadingCoeff_C] at hl
  rcases Int.isUnit_iff.mp hk with rfl | rfl
  · simp
  · omega

/-- constants: the run returns the content and no factor, and the primitive part is 1 -/
theorem factorize_const (a : List Int) (s : NTV.Draw.Stream) (c : Int) (fs : List (List Int × Nat))
    (hca : Canon a) (hlen : a.length = 1) (h : factorize a s = .ok (c, fs)) :
    c = (contPP a).1 ∧ fs = [] ∧ toPoly (contPP a).2 = 1 := by
  have ha : a ≠ [] := by rintro rfl; simp at hlen
  have he : a.isEmpty = false := by cases a <;> simp_all
  have hd : degU a = 0 := by simp [degU, he, hlen]
  unfold factorize at h
  simp only [he, Bool.false_eq_true, ↓reduceIte, hd, pure, Except.pure, Except.ok.injEq, Prod.mk.injEq] at h
  obtain ⟨p1, _, p3, p4, _⟩ := pp_facts ha hca
  exact ⟨h.1.symm, h.2.symm, eq_one_of_primitive_const p1 (by rw [p4, hlen]) p3⟩

section run
variable {a : List Int} {c : Int} {fs : List (List Int × Nat)} {g sq r : List Int}

/-- the listed polynomials multiply to `sq`, which divides pp(a) -/
theorem Run.sq_dvd (R : Run a c fs g sq r) : toPoly sq ∣ toPoly (contPP a).2 := by
  rcases R.hsq with ⟨_, h⟩ | ⟨_, h⟩
  · exact ⟨_, h⟩
  · rw [h]

theorem Run.factor_dvd (R : Run a c fs g sq r) {f : List Int} {e : Nat} (h : (f, e) ∈ fs) :
    toPoly f ∣ toPoly (contPP a).2 := by
  refine dvd_trans ?_ R.sq_dvd
  rw [R.hprod_sq]
  apply List.dvd_prod
  exact List.mem_map_of_mem (List.mem_map_of_mem (f := Prod.fst) h)

/-- unconditional shape of a listed factor: canonical, non-constant, primitive -/
theorem Run.factor_shape (R : Run a c fs g sq r) (ha : a ≠ []) (hca : Canon a) {f : List Int} {e : Nat}
    (h : (f, e) ∈ fs) : Canon f ∧ 2 ≤ f.length ∧ (toPoly f).IsPrimitive ∧ toPoly f ∣ toPoly (contPP a).2 := by
  obtain ⟨p1, _, _, _, _⟩ := pp_facts ha hca
  obtain ⟨f1, f2, _⟩ := R.hfac _ h
  have hd := R.factor_dvd h
  have hnu := R.book.not_isUnit (mem_entries h)
  have hdeg := Alg.natDegree_pos_of_dvd_primitive p1 hd hnu
  rw [(natDegree_toPoly f f1 f2).1] at hdeg
  exact ⟨f2, by omega, isPrimitive_of_dvd p1 hd, hd⟩

/-- under the exactness flag: `sq` is squarefree with positive leading coefficient and contains every
irreducible factor of pp(a) -/
theorem Run.exact (R : Run a c fs g sq r) (ha : a ≠ []) (hca : Canon a) (hlen : 2 ≤ a.length) (hx : GcdExact a) :
    Squarefree (toPoly sq) ∧ 0 < lc sq ∧
    ∀ π : ℤ[X], Irreducible π → π ∣ toPoly (contPP a).2 → π ∣ toPoly sq := by
  obtain ⟨p1, p2, p3, p4, _⟩ := pp_facts ha hca
  obtain ⟨_, _, s3, s4⟩ := contPP_spec a ha hca
  have hne := pp_ne_nil a ha hca
  set A := toPoly (contPP a).2 with hA
  -- the derivative is non-zero
  have hder : toPoly (differential (contPP a).2) = derivative A := toPoly_differential _
  have hder0 : derivative A ≠ 0 := by
    intro h0
    have := Polynomial.derivative_eq_zero.mp h0
    omega
  have hdne : differential (contPP a).2 ≠ [] := by
    intro e; rw [e] at hder; simp only [toPoly] at hder; exact hder0 hder.symm
  -- the gcd routine returned with the flag set
  have hg := R.hgcd
  unfold resultantGcd at hg
  split at hg
  · simp [throw, throwThe, MonadExceptOf.throw] at hg
  · simp [throw, throwThe, MonadExceptOf.throw] at hg
  · rename_i g' ok hres
    simp only [pure, Except.pure, Except.ok.injEq] at hg
    subst hg
    have hok := hx g' ok hres
    subst hok
    obtain ⟨g1, g2, g3⟩ := NTV.C10.is_gcd_partial _ _ g' hne hdne s4 (canon_differential _) hres
    obtain ⟨pp, d, _, hd, hshape, hlpp, hcpp, _⟩ :=
      NTV.C10.result_shape_partial _ _ g' hne hdne s4 (canon_differential _) hres
    rw [hder] at g2 g3
    have hppne : pp ≠ [] := by rintro rfl; simp [lc] at hlpp
    have hGlc : 0 < (toPoly g').leadingCoeff := by
      rw [hshape, leadingCoeff_mul, leadingCoeff_C, (natDegree_toPoly pp hppne hcpp).2.1]
      exact mul_pos hd hlpp
    have hgcd : Alg.IsGcd (toPoly g') A (derivative A) := ⟨g1, g2, fun e h1 h2 => g3 e h1 h2⟩
    rcases R.hsq with ⟨_, hsq⟩ | ⟨hdg, hsq⟩
    · refine ⟨Alg.squarefree_quot p2 hgcd hsq, ?_, fun π hπ hd => Alg.irreducible_dvd_quot p2 p1 g2 hsq hπ hd⟩
      rw [← (natDegree_toPoly sq R.sq_ne R.sq_canon).2.1]
      have := p3
      rw [hA, hsq, leadingCoeff_mul] at this
      exact (pos_iff_pos_of_mul_pos this).mpr hGlc
    · subst hsq
      refine ⟨?_, s3, fun π _ hd => hd⟩
      -- g is a constant dividing a primitive polynomial, hence a unit
      have hg'ne : g' ≠ [] := by rintro rfl; simp [degU] at hdg
      have hglen : g'.length = 1 := by
        have he : g'.isEmpty = false := by cases g' <;> simp_all
        simp only [degU, he, Bool.false_eq_true, ↓reduceIte] at hdg
        have := List.length_pos_of_ne_nil hg'ne
        omega
      obtain ⟨k, rfl⟩ := List.length_eq_one_iff.mp hglen
      have hk : toPoly [k] = C k := by simp [toPoly]
      rw [hk] at hgcd
      have hu : IsUnit (C k : ℤ[X]) := isUnit_C.mpr (p1 k hgcd.1)
      have hgcd1 : Alg.IsGcd 1 A (derivative A) :=
        ⟨one_dvd _, one_dvd _, fun e h1 h2 => (hgcd.2.2 e h1 h2).trans hu.dvd⟩
      exact Alg.squarefree_quot p2 hgcd1 (mul_one A).symm

/-- under the exactness flag the listed factors are pairwise coprime -/
theorem Run.pairwise (R : Run a c fs g sq r) (ha : a ≠ []) (hca : Canon a) (hlen : 2 ≤ a.length) (hx : GcdExact a) :
    ((entries fs).map Prod.fst).Pairwise IsRelPrime := by
  rw [map_fst_entries]
  apply Alg.pairwise_of_squarefree_prod
  rw [← R.hprod_sq]
  exact (R.exact ha hca hlen hx).1

theorem leadingCoeff_prod_pw_pos : ∀ (L : List (ℤ[X] × Nat)), (∀ fe ∈ L, 0 < fe.1.leadingCoeff) →
    0 < (L.map Alg.pw).prod.leadingCoeff
  | [], _ => by simp
  | fe :: L, h => by
    rw [List.map_cons, List.prod_cons, leadingCoeff_mul, Alg.pw, leadingCoeff_pow]
    exact mul_pos (pow_pos (h fe (by simp)) _) (leadingCoeff_prod_pw_pos L fun x hx => h x (by simp [hx]))

/-- under the exactness flag, if every listed factor is irreducible then nothing is left over -/
theorem Run.cofactor_one (R : Run a c fs g sq r) (ha : a ≠ []) (hca : Canon a) (hlen : 2 ≤ a.length)
    (hx : GcdExact a) (hirr : ∀ fe ∈ fs, Irreducible (toPoly fe.1)) : toPoly r = 1 := by
  obtain ⟨_, p2, p3, _, _⟩ := pp_facts ha hca
  obtain ⟨_, x2, x3⟩ := R.exact ha hca hlen hx
  have hirr' : ∀ fe ∈ entries fs, Irreducible fe.1 := by
    intro fe hfe
    obtain ⟨fe', h1, rfl⟩ := List.mem_map.mp hfe
    exact hirr fe' h1
  have hu := R.book.cofactor_isUnit p2 hirr' (by
    intro π hπ hd
    rw [map_fst_entries, ← R.hprod_sq]; exact x3 π hπ hd)
  apply eq_one_of_isUnit hu
  have hpos : 0 < ((entries fs).map Alg.pw).prod.leadingCoeff := by
    apply leadingCoeff_prod_pw_pos
    intro fe hfe
    obtain ⟨fe', h1, rfl⟩ := List.mem_map.mp hfe
    obtain ⟨f1, f2, f3⟩ := R.hfac _ h1
    rw [(natDegree_toPoly _ f1 f2).2.1]
    exact f3 x2
  have := p3
  rw [R.book.hprod, leadingCoeff_mul] at this
  exact (pos_iff_pos_of_mul_pos this).mpr hpos

end run
end NTV.PolyZ

/-! ### `GcdExact` is a theorem (fundamental theorem of subresultants, `resultantSmartGcd_flag`) -/
namespace NTV.PolyZ
open NTV.PolyG NTV.PolyMod NTV.Res

/-- gcd(f, 0): the loop stops at once with the flag it was given -/
theorem resultantSmartGcdE_nil_right_flag (f r : List Int) (ok : Bool)
    (h : resultantSmartGcdE f [] = some (.ok (r, ok))) : ok = true := by
  unfold resultantSmartGcdE at h
  by_cases he : f.isEmpty
  · simp only [he, ↓reduceIte, Option.some.injEq, Except.ok.injEq, Prod.mk.injEq] at h
    exact h.2.symm
  · simp only [he, Bool.false_eq_true, ↓reduceIte, bind, Except.bind, pure, Except.pure] at h
    cases hc : Res.content f with
    | error e => rw [hc] at h; simp at h
    | ok cf =>
      rw [hc] at h
      have hc0 : Res.content ([] : List Int) = .ok (contPP ([] : List Int)).1 := by simp [Res.content]
      have hp0 : ∀ d, Res.polyDiv ([] : List Int) d = .ok [] := by intro d; simp [Res.polyDiv]
      simp only [hc0, hp0] at h
      cases hp : Res.polyDiv f cf with
      | error e => rw [hp] at h; simp at h
      | ok f1 =>
        rw [hp] at h
        simp only [gcdLoop, List.isEmpty_nil, ↓reduceIte] at h
        cases hc2 : Res.content f1 with
        | error e => rw [hc2] at h; simp at h
        | ok c2 =>
          rw [hc2] at h
          simp only [] at h
          cases hp2 : Res.polyDiv f1 c2 with
          | error e => rw [hp2] at h; simp at h
          | ok p2 =>
            rw [hp2] at h
            simp only [Option.some.injEq, Except.ok.injEq, Prod.mk.injEq] at h
            exact h.2.symm

/-- **the exactness flag always holds**: for every non-zero canonical `a`, the subresultant gcd of pp(a) and
pp(a)' performs only exact divisions (for a constant `a` the derivative is 0 and no division is made) -/
theorem gcdExact_holds (a : List Int) (ha : a ≠ []) (hca : Canon a) : GcdExact a := by
  intro g ok h
  obtain ⟨_, _, _, s4⟩ := contPP_spec a ha hca
  have hne := pp_ne_nil a ha hca
  by_cases hd : differential (contPP a).2 = []
  · rw [hd] at h
    exact resultantSmartGcdE_nil_right_flag _ g ok h
  · exact resultantSmartGcd_flag _ _ hne hd s4 (canon_differential _) g ok h

end NTV.PolyZ
