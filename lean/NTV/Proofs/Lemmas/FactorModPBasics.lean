import NTV.Proofs.Lemmas.PolyGcdMod
import NTV.Proofs.Lemmas.ContPP
import NTV.Model.PolyModFactor
import Mathlib.Algebra.Polynomial.FieldDivision
import Mathlib.Data.ZMod.Basic
/-! # C08: the bridge from the list model modulo p to `(ZMod p)[X]`

`mp p l` is the image of the coefficient list `l` in `(ZMod p)[X]`; `Good p l` says that `l` is a
canonical list with coefficients in [0, p). On good lists the model operations `polyMod`, `mul`,
`polyDivrem`, `polyGcd` are the field operations of `(ZMod p)[X]`. -/
open Polynomial
namespace NTV.PolyMod
open NTV.PolyG NTV.Hensel

/-- the image of a coefficient list in `(ZMod p)[X]` -/
noncomputable def mp (p : ℕ) (l : List Int) : (ZMod p)[X] := (toPoly l).map (Int.castRingHom (ZMod p))

/-- canonical with coefficients in [0, p) -/
def Good (p : ℕ) (l : List Int) : Prop := Reduced (p : ℤ) l ∧ Canon l

theorem pcong_iff_map (p : ℕ) (F G : ℤ[X]) :
    PCong (p : ℤ) F G ↔ F.map (Int.castRingHom (ZMod p)) = G.map (Int.castRingHom (ZMod p)) := by
  rw [pcong_iff]
  constructor
  · intro h
    ext j
    have := h j
    rw [coeff_sub] at this
    simp only [coeff_map, eq_intCast]
    rw [eq_comm, ZMod.intCast_eq_intCast_iff_dvd_sub]
    exact this
  · intro h j
    have := congrArg (fun P => P.coeff j) h
    simp only [coeff_map, eq_intCast] at this
    rw [coeff_sub]
    rw [eq_comm, ZMod.intCast_eq_intCast_iff_dvd_sub] at this
    exact this

theorem pcong_iff_mp (p : ℕ) (a b : List Int) : PCong (p : ℤ) (toPoly a) (toPoly b) ↔ mp p a = mp p b :=
  pcong_iff_map p _ _

theorem coeff_mp (p : ℕ) (l : List Int) (j : ℕ) : (mp p l).coeff j = ((l.getD j 0 : ℤ) : ZMod p) := by
  simp [mp, coeff_map, coeff_toPoly]

@[simp] theorem mp_nil (p : ℕ) : mp p [] = 0 := by simp [mp, toPoly]

theorem mp_mul (p : ℕ) (a b : List Int) : mp p (mul a b) = mp p a * mp p b := by
  simp [mp, toPoly_mul]

theorem mp_sub (p : ℕ) (a b : List Int) : mp p (sub a b) = mp p a - mp p b := by
  simp [mp, toPoly_sub]

theorem mp_add (p : ℕ) (a b : List Int) : mp p (add a b) = mp p a + mp p b := by
  simp [mp, toPoly_add]

theorem mp_fromRaw (p : ℕ) (l : List Int) : mp p (fromRaw l) = mp p l := by
  simp [mp, toPoly_fromRaw]

theorem mp_polyMod (p : ℕ) (f : List Int) : mp p (polyMod f p) = mp p f :=
  (pcong_iff_mp p _ _).mp (polyMod_cong f p)

theorem good_polyMod (p : ℕ) (hp : 0 < p) (f : List Int) : Good p (polyMod f p) :=
  ⟨(polyMod_reduced f p (by exact_mod_cast hp)).1, (polyMod_reduced f p (by exact_mod_cast hp)).2.1⟩

theorem good_nil (p : ℕ) (hp : 0 < p) : Good p [] := ⟨reduced_nil _ (by exact_mod_cast hp), canon_nil⟩

theorem mp_polyModSub (p : ℕ) (a b : List Int) : mp p (polyModSub a b p) = mp p a - mp p b := by
  unfold polyModSub; rw [mp_polyMod, mp_sub]

theorem good_polyModSub (p : ℕ) (hp : 0 < p) (a b : List Int) : Good p (polyModSub a b p) :=
  good_polyMod p hp _

/-- a good list is fixed by `poly_mod` -/
theorem polyMod_of_good (p : ℕ) (l : List Int) (h : Good p l) : polyMod l p = l := by
  unfold polyMod
  have : l.map (fun c => Int.fmod c p) = l := by
    apply List.ext_getElem (by simp)
    intro i h1 h2
    simp only [List.getElem_map]
    have := h.1 i
    simp only [List.getD_eq_getElem?_getD, List.getElem?_eq_getElem h2, Option.getD_some] at this
    rw [Int.fmod_eq_emod_of_nonneg _ (by omega)]
    exact Int.emod_eq_of_lt this.1 this.2
  rw [this]
  exact fromRaw_of_canon l h.2

section prime
variable (p : ℕ) [hp : Fact p.Prime]

theorem cast_ne_zero_of_reduced {c : ℤ} (h0 : 0 < c) (h1 : c < p) : ((c : ℤ) : ZMod p) ≠ 0 := by
  rw [Ne, ZMod.intCast_zmod_eq_zero_iff_dvd]
  intro hd
  have := Int.le_of_dvd h0 hd
  omega

omit hp in
theorem lc_pos_of_good (l : List Int) (h : Good p l) (hne : l ≠ []) : 0 < lc l ∧ lc l < p := by
  have h0 := lc_ne_zero l hne h.2
  have := h.1 (l.length - 1)
  rw [lc_eq_getD l hne] at this
  omega

theorem natDegree_mp (l : List Int) (h : Good p l) (hne : l ≠ []) :
    (mp p l).natDegree = l.length - 1 ∧ (mp p l).leadingCoeff = ((lc l : ℤ) : ZMod p) ∧ mp p l ≠ 0 := by
  obtain ⟨d1, d2, d3⟩ := natDegree_toPoly l hne h.2
  obtain ⟨l0, l1⟩ := lc_pos_of_good p l h hne
  have hlc : (Int.castRingHom (ZMod p)) (toPoly l).leadingCoeff ≠ 0 := by
    rw [d2]; simpa using cast_ne_zero_of_reduced p l0 l1
  have hd : (mp p l).natDegree = l.length - 1 := by
    unfold mp; rw [natDegree_map_of_leadingCoeff_ne_zero _ hlc, d1]
  refine ⟨hd, ?_, ?_⟩
  · unfold mp; rw [leadingCoeff_map_of_leadingCoeff_ne_zero _ hlc, d2]; simp
  · intro e
    have : (mp p l).leadingCoeff = 0 := by rw [e]; simp
    unfold mp at this
    rw [leadingCoeff_map_of_leadingCoeff_ne_zero _ hlc] at this
    exact hlc this

theorem mp_eq_zero_iff (l : List Int) (h : Good p l) : mp p l = 0 ↔ l = [] := by
  constructor
  · intro e
    by_contra hne
    exact (natDegree_mp p l h hne).2.2 e
  · rintro rfl; simp

theorem degU_eq_natDegree (l : List Int) (h : Good p l) (hne : l ≠ []) : degU l = (mp p l).natDegree := by
  rw [(natDegree_mp p l h hne).1]
  unfold degU
  cases l <;> simp_all

/-- good lists are determined by their image -/
theorem mp_inj (a b : List Int) (ha : Good p a) (hb : Good p b) (h : mp p a = mp p b) : a = b := by
  have hcoef : ∀ i, a.getD i 0 = b.getD i 0 := by
    intro i
    have := congrArg (fun P => P.coeff i) h
    simp only [coeff_mp] at this
    rw [ZMod.intCast_eq_intCast_iff_dvd_sub] at this
    have h1 := ha.1 i
    have h2 := hb.1 i
    obtain ⟨k, hk⟩ := this
    have hp0 : (0 : ℤ) < p := by exact_mod_cast hp.out.pos
    have : k = 0 := by
      by_contra hk0
      rcases lt_or_gt_of_ne hk0 with hk1 | hk1
      · have : (p : ℤ) * k ≤ (p : ℤ) * (-1) := Int.mul_le_mul_of_nonneg_left (by omega) (le_of_lt hp0)
        omega
      · have : (p : ℤ) * 1 ≤ (p : ℤ) * k := Int.mul_le_mul_of_nonneg_left (by omega) (le_of_lt hp0)
        omega
    rw [this] at hk
    omega
  apply toPoly_inj a b ha.2 hb.2
  ext i
  rw [coeff_toPoly, coeff_toPoly, hcoef]

end prime
end NTV.PolyMod

namespace NTV.PolyMod
open NTV.PolyG NTV.Hensel

theorem divremLoop_quo_range (b : List Int) (invlc p : Int) (hp : 0 < p) (bdeg : Nat) :
    ∀ (i : Nat) (tmp quo : List Int), (∀ c ∈ quo, 0 ≤ c ∧ c < p) →
      ∀ c ∈ (divremLoop b invlc p bdeg i tmp quo).1, 0 ≤ c ∧ c < p := by
  intro i
  induction i with
  | zero => intro tmp quo h; simpa [divremLoop] using h
  | succ i ih =>
    intro tmp quo h
    rw [divremLoop_succ]
    apply ih
    intro c hc
    rcases List.mem_cons.mp hc with rfl | hc
    · exact ⟨Int.fmod_nonneg_of_pos _ hp, Int.fmod_lt_of_pos _ hp⟩
    · exact h c hc

theorem reduced_of_forall_mem (p : Int) (hp : 0 < p) (l : List Int) (h : ∀ c ∈ l, 0 ≤ c ∧ c < p) :
    Reduced p l := by
  intro j
  simp only [List.getD_eq_getElem?_getD]
  by_cases hj : j < l.length
  · rw [List.getElem?_eq_getElem hj]; exact h _ (List.getElem_mem hj)
  · have : l[j]? = none := by simp; omega
    rw [this]; exact ⟨le_refl _, hp⟩

/-- the quotient of `poly_divrem` has coefficients in [0, p) -/
theorem polyDivrem_quo_reduced (a b : List Int) (p : Int) (hp : 0 < p) : Reduced p (polyDivrem a b p).1 := by
  unfold polyDivrem
  split
  · exact reduced_nil p hp
  · apply reduced_fromRaw
    apply reduced_of_forall_mem p hp
    exact divremLoop_quo_range b _ p hp _ _ _ _ (by simp)

section prime
variable (p : ℕ) [hp : Fact p.Prime]

theorem degree_mp_lt (a b : List Int) (ha : Good p a) (hb : Good p b) (hbne : b ≠ [])
    (h : a.length < b.length) : (mp p a).degree < (mp p b).degree := by
  by_cases hane : a = []
  · subst hane
    rw [mp_nil, degree_zero]
    exact bot_lt_iff_ne_bot.mpr (by rw [Ne, degree_eq_bot]; exact (natDegree_mp p b hb hbne).2.2)
  · apply degree_lt_degree
    rw [(natDegree_mp p a ha hane).1, (natDegree_mp p b hb hbne).1]
    have : 0 < a.length := List.length_pos_of_ne_nil hane
    omega

/-- `poly_divrem` on good lists is Euclidean division in `(ZMod p)[X]` -/
theorem polyDivrem_mp (a b : List Int) (ha : Good p a) (hb : Good p b) (hbne : b ≠ []) :
    mp p a = mp p (polyDivrem a b p).1 * mp p b + mp p (polyDivrem a b p).2 ∧
    (mp p (polyDivrem a b p).2).degree < (mp p b).degree ∧
    Good p (polyDivrem a b p).1 ∧ Good p (polyDivrem a b p).2 := by
  have hp0 : (0 : ℤ) < p := by exact_mod_cast hp.out.pos
  obtain ⟨Q, hrel, hrr, hcr⟩ := polyDivrem_rel a b p hp.out ha.1 hb.1 hb.2
  by_cases hs : a.isEmpty || b.isEmpty || decide (a.length < b.length)
  · have e : polyDivrem a b p = ([], a) := by simp only [polyDivrem, hs, ↓reduceIte]
    rw [e]
    refine ⟨by simp, ?_, good_nil p hp.out.pos, ha⟩
    simp only [Bool.or_eq_true, decide_eq_true_eq] at hs
    rcases hs with (hs | hs) | hs
    · have : a = [] := by cases a <;> simp_all
      subst this
      exact degree_mp_lt p [] b ha hb hbne (List.length_pos_of_ne_nil hbne)
    · exfalso; cases b <;> simp_all
    · exact degree_mp_lt p a b ha hb hbne hs
  · have hane : a ≠ [] := by intro e; simp [e] at hs
    have hab : b.length ≤ a.length := by
      simp only [Bool.or_eq_true, decide_eq_true_eq, not_or, not_lt] at hs; exact hs.2
    obtain ⟨c1, c2, c3, c4⟩ := polyDivrem_contract_prime a b p hp.out hane hbne hab
      (lc_coprime p hp.out b hbne hb.2 hb.1)
    have gq : Good p (polyDivrem a b p).1 := ⟨polyDivrem_quo_reduced a b p hp0, c3⟩
    have gr : Good p (polyDivrem a b p).2 := ⟨hrr, c4⟩
    refine ⟨?_, degree_mp_lt p _ b gr hb hbne c2, gq, gr⟩
    have := (pcong_iff_map p _ _).mp c1
    simpa [mp] using this

/-- exact division: if b divides a in `(ZMod p)[X]` the quotient of `poly_divrem` is the cofactor -/
theorem polyDivrem_exact (a b : List Int) (ha : Good p a) (hb : Good p b) (hbne : b ≠ [])
    (hdvd : mp p b ∣ mp p a) :
    mp p a = mp p (polyDivrem a b p).1 * mp p b ∧ Good p (polyDivrem a b p).1 := by
  obtain ⟨h1, h2, h3, _⟩ := polyDivrem_mp p a b ha hb hbne
  refine ⟨?_, h3⟩
  have hr : mp p b ∣ mp p (polyDivrem a b p).2 := by
    have : mp p (polyDivrem a b p).2 = mp p a - mp p (polyDivrem a b p).1 * mp p b := by
      rw [eq_sub_iff_add_eq, add_comm]; exact h1.symm
    rw [this]
    exact dvd_sub hdvd (dvd_mul_left _ _)
  have hz := eq_zero_of_dvd_of_degree_lt hr h2
  rw [hz, add_zero] at h1
  exact h1

/-- g is a greatest common divisor of a and b -/
def IsGcd {R : Type} [CommRing R] (g a b : R) : Prop := g ∣ a ∧ g ∣ b ∧ ∀ c, c ∣ a → c ∣ b → c ∣ g

theorem polyGcdAux_isGcd : ∀ (fuel : Nat) (a b g : List Int), Good p a → Good p b →
    polyGcdAux (p : Int) fuel a b = .ok g → IsGcd (mp p g) (mp p a) (mp p b) ∧ Good p g := by
  intro fuel
  induction fuel with
  | zero => intro a b g _ _ h; simp [polyGcdAux] at h
  | succ fuel ih =>
    intro a b g ha hb h
    simp only [polyGcdAux] at h
    obtain ⟨Q, hrel, hrr, hcr⟩ := polyDivrem_rel a b p hp.out ha.1 hb.1 hb.2
    have hrel' : mp p a = Q.map (Int.castRingHom (ZMod p)) * mp p b + mp p (polyDivrem a b p).2 := by
      have := (pcong_iff_map p _ _).mp hrel
      simpa [mp] using this
    split at h
    · rename_i hre
      simp only [Except.ok.injEq] at h
      subst h
      have hr0 : (polyDivrem a b (p : Int)).2 = [] := by
        cases hq : (polyDivrem a b (p : Int)).2 <;> simp_all
      rw [hr0, mp_nil, add_zero] at hrel'
      exact ⟨⟨⟨_, by rw [hrel']; ring⟩, dvd_refl _, fun c _ h2 => h2⟩, hb⟩
    · obtain ⟨⟨d1, d2, d3⟩, d4⟩ := ih b (polyDivrem a b (p : Int)).2 g hb ⟨hrr, hcr ha.2⟩ h
      refine ⟨⟨?_, d1, ?_⟩, d4⟩
      · rw [hrel']; exact dvd_add (dvd_mul_of_dvd_right d1 _) d2
      · intro c ca cb
        apply d3 c cb
        have : mp p (polyDivrem a b p).2 = mp p a - Q.map (Int.castRingHom (ZMod p)) * mp p b := by
          rw [hrel']; ring
        rw [this]
        exact dvd_sub ca (dvd_mul_of_dvd_right cb _)

/-- `poly_gcd` on good lists returns a greatest common divisor in `(ZMod p)[X]` -/
theorem polyGcd_isGcd (a b g : List Int) (ha : Good p a) (hb : Good p b)
    (h : polyGcd a b (p : Int) = .ok g) : IsGcd (mp p g) (mp p a) (mp p b) ∧ Good p g :=
  polyGcdAux_isGcd p _ a b g ha hb h

theorem IsGcd.ne_zero {R : Type} [CommRing R] {g a b : R} (h : IsGcd g a b) (hab : a ≠ 0 ∨ b ≠ 0) : g ≠ 0 := by
  rintro rfl
  rcases hab with h0 | h0
  · exact h0 (zero_dvd_iff.mp h.1)
  · exact h0 (zero_dvd_iff.mp h.2.1)

end prime
end NTV.PolyMod
