import NTV.Proofs.Lemmas.Subres0Det
/-! # Subresultant polynomials with formal degrees

`sres j p q F G` is the determinant polynomial of the rows `F, XF, …, X^(p-1)F, G, XG, …, X^(q-1)G`:
the `j`-th subresultant polynomial (up to sign) of `F` of formal degree `q + j` and `G` of formal degree
`p + j`. -/
open Polynomial
namespace NTV.Subres
variable {R : Type*} [CommRing R]

/-- the rows `F, XF, …, X^(p-1)F, G, XG, …` -/
noncomputable def rowsN (p : ℕ) (F G : R[X]) : ℕ → R[X] :=
  fun i => if i < p then X ^ i * F else X ^ (i - p) * G

/-- `j`-th subresultant of `F` (formal degree `q + j`) and `G` (formal degree `p + j`) -/
noncomputable def sres (j p q : ℕ) (F G : R[X]) : R[X] := detPolN j (p + q) (rowsN p F G)

theorem sres_one_zero (j : ℕ) (F G : R[X]) : sres j 1 0 F G = F := by
  simp [sres, detPolN_one, rowsN]

theorem sres_zero_one (j : ℕ) (F G : R[X]) : sres j 0 1 F G = G := by
  simp [sres, detPolN_one, rowsN]

/-- lowering the formal degree of `F` by one removes the top row of `G` -/
theorem sres_succ (j p q : ℕ) (F G : R[X]) (hF : p = 0 ∨ F.natDegree ≤ q + j) (hG : G.natDegree ≤ p + j)
    (hk : 1 ≤ p + q) : sres j p (q + 1) F G = C (G.coeff (p + j)) * sres j p q F G := by
  unfold sres
  rw [← add_assoc, detPolN_succ j (p + q) hk]
  · have h1 : ¬ (p + q < p) := by omega
    have h2 : p + q - p = q := by omega
    have h3 : q ≤ j + (p + q) := by omega
    have h4 : j + (p + q) - q = p + j := by omega
    simp only [rowsN, h1, ↓reduceIte, h2, coeff_X_pow_mul', h3, h4]
  · intro i hi
    simp only [rowsN]
    split
    · rename_i hip
      rw [coeff_X_pow_mul']
      have : i ≤ j + (p + q) := by omega
      rw [if_pos this]
      rcases hF with hF | hF
      · omega
      · exact coeff_eq_zero_of_natDegree_lt (by omega)
    · rename_i hip
      rw [coeff_X_pow_mul']
      have : i - p ≤ j + (p + q) := by omega
      rw [if_pos this]
      exact coeff_eq_zero_of_natDegree_lt (by omega)

theorem sres_add_deg (j p q t : ℕ) (F G : R[X]) (hF : p = 0 ∨ F.natDegree ≤ q + j) (hG : G.natDegree ≤ p + j)
    (hk : 1 ≤ p + q) : sres j p (q + t) F G = C (G.coeff (p + j) ^ t) * sres j p q F G := by
  induction t with
  | zero => simp
  | succ t ih =>
    rw [← add_assoc, sres_succ j p (q + t) F G (by rcases hF with h | h; exact Or.inl h; exact Or.inr (by omega)) hG
      (by omega), ih, pow_succ, C_mul]
    ring

theorem sres_zero_left (j q : ℕ) (F G : R[X]) (hG : G.natDegree ≤ j) :
    sres j 0 (q + 1) F G = C (G.coeff j ^ q) * G := by
  have := sres_add_deg j 0 1 q F G (Or.inl rfl) (by simpa using hG) (by omega)
  rw [add_comm 1 q, sres_zero_one] at this
  simpa using this

theorem prod_fin_add_ite (p q : ℕ) (s t : R) :
    (∏ i : Fin (p + q), (if i.val < p then s else t)) = s ^ p * t ^ q := by
  rw [Fin.prod_univ_add]
  simp

/-- scaling a block of rows -/
theorem sres_scale (j p q : ℕ) (F G F' G' : R[X]) (s t : R) (hF : F' = C s * F) (hG : G' = C t * G) :
    sres j p q F' G' = C (s ^ p * t ^ q) * sres j p q F G := by
  unfold sres
  rw [detPolN_mul j (p + q) (rowsN p F G) (rowsN p F' G')
    (Matrix.diagonal fun i : Fin (p + q) => if i.val < p then s else t)]
  · rw [Matrix.det_diagonal, prod_fin_add_ite]
  · intro i
    rw [Finset.sum_eq_single i]
    · simp only [Matrix.diagonal_apply_eq, rowsN, hF, hG]
      split <;> ring
    · intro l _ hl
      rw [Matrix.diagonal_apply_ne _ hl.symm]; simp
    · intro h; exact absurd (Finset.mem_univ _) h

theorem sres_C_mul_right (j p q : ℕ) (F G : R[X]) (t : R) :
    sres j p q F (C t * G) = C (t ^ q) * sres j p q F G := by
  rw [sres_scale j p q F G F (C t * G) 1 t (by simp) rfl]; simp

theorem sres_C_mul_left (j p q : ℕ) (F G : R[X]) (s : R) :
    sres j p q (C s * F) G = C (s ^ p) * sres j p q F G := by
  rw [sres_scale j p q F G (C s * F) G s 1 rfl (by simp)]; simp

/-- swapping the two polynomials is a permutation of the rows -/
theorem sres_swap (j p q : ℕ) (F G : R[X]) : Associated (sres j q p G F) (sres j p q F G) := by
  unfold sres
  rw [Nat.add_comm q p]
  refine detPolN_perm j (p + q) (rowsN p F G) (rowsN q G F)
    ⟨fun i => if h : i.val < q then ⟨i.val + p, by omega⟩ else ⟨i.val - q, by omega⟩,
     fun i => if h : i.val < p then ⟨i.val + q, by omega⟩ else ⟨i.val - p, by omega⟩, ?_, ?_⟩ ?_
  · intro i
    ext
    by_cases h : i.val < q
    · have h2 : ¬ (i.val + p < p) := by omega
      simp [h, h2]
    · have h2 : i.val - q < p := by omega
      simp [h, h2]; omega
  · intro i
    ext
    by_cases h : i.val < p
    · have h2 : ¬ (i.val + q < q) := by omega
      simp [h, h2]
    · have h2 : i.val - p < q := by omega
      simp [h, h2]; omega
  · intro i
    simp only [rowsN, Equiv.coe_fn_mk]
    by_cases h : i.val < q
    · have h2 : ¬ (i.val + p < p) := by omega
      simp [h, h2]
    · have h2 : i.val - q < p := by omega
      simp [h, h2]

/-- adding a monomial multiple of `G` to `F` is a unimodular row operation -/
theorem sres_add_monomial_mul (j p q t : ℕ) (F G : R[X]) (c : R) (ht : t + p ≤ q) :
    sres j p q (F + C c * X ^ t * G) G = sres j p q F G := by
  unfold sres
  set U : Matrix (Fin (p + q)) (Fin (p + q)) R :=
    Matrix.of fun i l => (if i = l then 1 else 0) + (if i.val < p ∧ l.val = p + t + i.val then c else 0) with hU
  have htri : U.BlockTriangular id := by
    intro i l hli
    have h1 : ¬ (i = l) := by intro e; subst e; exact lt_irrefl _ hli
    have h2 : ¬ (i.val < p ∧ l.val = p + t + i.val) := by
      intro h; have : l.val < i.val := hli; omega
    simp [hU, h1, h2]
  have hdet : U.det = 1 := by
    rw [Matrix.det_of_isUpperTriangular htri]
    apply Finset.prod_eq_one
    intro i _
    have h2 : ¬ (i.val < p ∧ i.val = p + t + i.val) := by omega
    simp only [hU, Matrix.of_apply, h2, ↓reduceIte, add_zero]
  rw [detPolN_mul j (p + q) (rowsN p F G) (rowsN p (F + C c * X ^ t * G) G) U, hdet]
  · simp
  · intro i
    simp only [hU, Matrix.of_apply, C_add, add_mul, Finset.sum_add_distrib]
    have e1 : ∑ l : Fin (p + q), C (if i = l then (1 : R) else 0) * rowsN p F G l.val = rowsN p F G i.val := by
      rw [Finset.sum_eq_single i]
      · simp
      · intro l _ hl; simp [Ne.symm hl]
      · intro h; exact absurd (Finset.mem_univ _) h
    rw [e1]
    by_cases hi : i.val < p
    · have hlt : p + t + i.val < p + q := by omega
      have e2 : ∑ l : Fin (p + q), C (if i.val < p ∧ l.val = p + t + i.val then c else 0) * rowsN p F G l.val
          = C c * rowsN p F G (p + t + i.val) := by
        rw [Finset.sum_eq_single ⟨p + t + i.val, hlt⟩]
        · simp [hi]
        · intro l _ hl
          have : ¬ (i.val < p ∧ l.val = p + t + i.val) := by
            intro h; exact hl (Fin.ext h.2)
          simp [this]
        · intro h; exact absurd (Finset.mem_univ _) h
      rw [e2]
      have h3 : ¬ (p + t + i.val < p) := by omega
      have h4 : p + t + i.val - p = t + i.val := by omega
      simp only [rowsN, hi, ↓reduceIte, h3, h4]
      ring
    · have e2 : ∑ l : Fin (p + q), C (if i.val < p ∧ l.val = p + t + i.val then c else 0) * rowsN p F G l.val = 0 := by
        apply Finset.sum_eq_zero
        intro l _
        have : ¬ (i.val < p ∧ l.val = p + t + i.val) := fun h => hi h.1
        simp [this]
      rw [e2]
      simp [rowsN, hi]

/-- `S_j(F + Q G, G) = S_j(F, G)` when `deg Q ≤ (formal deg F) − (formal deg G)` -/
theorem sres_add_mul (j p q : ℕ) (F G Q : R[X]) (hQ : Q.natDegree + p ≤ q) :
    sres j p q (F + Q * G) G = sres j p q F G := by
  have key : ∀ n, n ≤ Q.natDegree + 1 → ∀ F : R[X],
      sres j p q (F + (∑ i ∈ Finset.range n, C (Q.coeff i) * X ^ i) * G) G = sres j p q F G := by
    intro n
    induction n with
    | zero => intro _ F; simp
    | succ n ih =>
      intro hn F
      rw [Finset.sum_range_succ, add_mul, ← add_assoc, sres_add_monomial_mul j p q n _ G _ (by omega),
        ih (by omega)]
  have := key (Q.natDegree + 1) le_rfl F
  rwa [← Q.as_sum_range_C_mul_X_pow] at this

end NTV.Subres
