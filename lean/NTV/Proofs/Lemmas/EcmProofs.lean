import NTV.Model.Ecm
import NTV.Proofs.Lemmas.InvProofs
import Mathlib.Tactic.Ring
import Mathlib.Tactic.Linarith
/-! Lemmas about the ECM model (`NTV.Ecm`):
* every `Err d` leaving `simplify / addPt / mulPt / ecmOneshot` and their batched versions is
  `gcd(z, n)` for some z, hence divides n;
* a factor returned by the curve loops `ecm / ecmParallel` is a proper divisor;
* the work-stack driver keeps `∏ stack^mult · ∏ map = x` (dev profile: no wrapping). -/
namespace NTV.Ecm

/-! ## `Err` values are divisors -/

theorem inv_err (a m d : Int) (h : NTV.inv a m = .error d) : d = (Int.gcd a m : Int) ∧ Int.gcd a m ≠ 1 := by
  obtain ⟨_, hg⟩ := NTV.extgcd_spec a m
  unfold NTV.inv at h
  generalize NTV.extgcd a m = t at hg h
  obtain ⟨g, x, y⟩ := t
  simp only at hg h
  split at h
  · rename_i hne
    injection h with h
    subst h
    rw [hg] at hne ⊢
    exact ⟨rfl, hne⟩
  · cases h

/-- what an `Err(d)` is: a non-negative divisor of the modulus -/
def Dv (n d : Int) : Prop := d ∣ n ∧ 0 ≤ d

theorem inv_err_dvd (a m d : Int) (h : NTV.inv a m = .error d) : Dv m d := by
  rw [(inv_err a m d h).1]
  exact ⟨Int.gcd_dvd_right a m, Int.natCast_nonneg _⟩

theorem simplify_err_dvd (p : Point) (n d : Int) (h : simplify p n = .error d) : Dv n d := by
  unfold simplify at h
  split at h
  · cases h
  · split at h
    · rename_i g hg
      injection h with h
      subst h
      exact inv_err_dvd _ _ _ hg
    · cases h

theorem addPt_err_dvd (p1 p2 : Point) (a n d : Int) (h : addPt p1 p2 a n = .error d) : Dv n d := by
  unfold addPt at h
  split at h
  · cases h
  · split at h
    · cases h
    · exact simplify_err_dvd _ _ _ h

theorem mulLoop_err_dvd (a n d : Int) (f e : Nat) (sum cur : Point)
    (h : mulLoop a n f e sum cur = .error d) : Dv n d := by
  induction f generalizing e sum cur with
  | zero => simp [mulLoop] at h
  | succ f ih =>
    unfold mulLoop at h
    split at h
    · cases h
    · split at h
      · rename_i g hg
        injection h with h
        subst h
        split at hg
        · exact addPt_err_dvd _ _ _ _ _ hg
        · cases hg
      · by_cases he : (e / 2 == 0) = true
        · simp only [he, ↓reduceIte] at h
          cases h
        · simp only [he, Bool.false_eq_true, ↓reduceIte] at h
          split at h
          · rename_i g hg
            injection h with h
            subst h
            exact addPt_err_dvd _ _ _ _ _ hg
          · exact ih _ _ _ h

theorem mulPt_err_dvd (p : Point) (e a n d : Int) (h : mulPt p e a n = .error d) : Dv n d := by
  unfold mulPt at h
  split at h
  · cases h
  · exact mulLoop_err_dvd _ _ _ _ _ _ _ h

/-- a computation all of whose `Err(d)` exits are divisors of n -/
def Good {α : Type} (n : Int) (r : Except Stop α) : Prop := ∀ d, r = .error (.factor d) → Dv n d

theorem good_bind {α β : Type} {n : Int} {m : Except Stop α} {f : α → Except Stop β}
    (hm : Good n m) (hf : ∀ a, Good n (f a)) : Good n (m >>= f) := by
  intro d h
  cases m with
  | error e =>
    have : e = .factor d := by
      simp only [bind, Except.bind] at h
      injection h
    exact hm d (by rw [this])
  | ok a => exact hf a d h

theorem good_pure {α : Type} {n : Int} (a : α) : Good n (pure a : Except Stop α) := by
  intro d h; cases h

theorem good_ok {α : Type} {n : Int} (a : α) : Good n (.ok a : Except Stop α) := by
  intro d h; cases h

theorem good_liftP {α : Type} {n : Int} (r : Except String α) : Good n (liftP r) := by
  intro d h
  cases r <;> simp [liftP] at h

theorem good_liftE {α : Type} {n : Int} (r : Except Int α) (hr : ∀ d, r = .error d → Dv n d) :
    Good n (liftE r) := by
  intro d h
  cases r with
  | ok a => simp [liftE] at h
  | error e =>
    simp only [liftE] at h
    injection h with h
    injection h with h
    subst h
    exact hr _ rfl

theorem stage1_good (a n : Int) (f k : Nat) (pt : Point) : Good n (stage1 a n f k pt) := by
  induction f generalizing k pt with
  | zero => intro d h; simp [stage1] at h
  | succ f ih =>
    intro d h
    unfold stage1 at h
    split at h
    · rename_i g hg
      injection h with h
      injection h with h
      subst h
      exact mulPt_err_dvd _ _ _ _ _ hg
    · split at h
      · cases h
      · exact ih _ _ d h

theorem stage2While_good (a n : Int) (prof : Profile) (b2 : Nat) (p6 : Point) (f cur : Nat) (pt : Point) :
    Good n (stage2While a n prof b2 p6 f cur pt) := by
  induction f generalizing cur pt with
  | zero =>
    intro d h
    unfold stage2While at h
    split at h <;> cases h
  | succ f ih =>
    intro d h
    unfold stage2While at h
    split at h
    · split at h
      · cases h
      · split at h
        · rename_i g hg
          injection h with h
          injection h with h
          subst h
          exact addPt_err_dvd _ _ _ _ _ hg
        · split at h
          · cases h
          · exact ih _ _ d h
    · cases h

theorem stage2One_good (a n : Int) (prof : Profile) (b2 : Nat) (pt : Point) (init : Nat) :
    Good n (stage2One a n prof b2 pt init) := by
  unfold stage2One
  refine good_bind (good_liftE _ (fun d h => addPt_err_dvd _ _ _ _ _ h)) (fun p2 => ?_)
  refine good_bind (good_liftE _ (fun d h => addPt_err_dvd _ _ _ _ _ h)) (fun p4 => ?_)
  refine good_bind (good_liftE _ (fun d h => addPt_err_dvd _ _ _ _ _ h)) (fun p6 => ?_)
  refine good_bind (good_liftE _ (fun d h => mulPt_err_dvd _ _ _ _ _ h)) (fun pt' => ?_)
  split
  · intro d h; cases h
  · exact stage2While_good _ _ _ _ _ _ _ _

/-- **every `Err(d)` of `ecm_oneshot` is a non-negative divisor of n** -/
theorem ecmOneshot_factor_dvd (pt : Point) (a n : Int) (b1 b2 : Nat) (prof : Profile) (d : Int)
    (h : ecmOneshot pt a n b1 b2 prof = .factor d) : d ∣ n ∧ 0 ≤ d := by
  unfold ecmOneshot at h
  simp only at h
  split at h
  · cases h
  · rename_i s hs
    subst h
    revert hs
    generalize hrun : (do
        let hi ← liftP (addU64 prof b1 1)
        let pt ← stage1 a n (hi - 1) 1 pt
        let inits ← liftP (stage2Inits prof b1)
        let pt ← stage2One a n prof b2 pt inits.1
        let _ ← stage2One a n prof b2 pt inits.2
        pure () : Except Stop Unit) = run
    intro hs
    have hgood : Good n run := by
      rw [← hrun]
      refine good_bind (good_liftP _) (fun hi => ?_)
      refine good_bind (stage1_good _ _ _ _ _) (fun pt1 => ?_)
      refine good_bind (good_liftP _) (fun inits => ?_)
      refine good_bind (stage2One_good _ _ _ _ _ _) (fun pt2 => ?_)
      refine good_bind (stage2One_good _ _ _ _ _ _) (fun _ => ?_)
      exact good_pure _
    exact hgood d hs

/-! ## batched versions -/

theorem manySimplify_err_dvd (pts : List Point) (n d : Int) (h : manySimplify pts n = .error d) : Dv n d := by
  unfold manySimplify at h
  simp only at h
  split at h
  · rename_i g hg
    split at h
    · split at h
      · injection h with h
        subst h
        exact ⟨Int.gcd_dvd_right _ _, Int.natCast_nonneg _⟩
      · injection h with h
        subst h
        exact inv_err_dvd _ _ _ hg
    · injection h with h
      subst h
      exact inv_err_dvd _ _ _ hg
  · cases h

theorem manyAdds_good (pts : List (Point × Point × Int)) (n : Int) : Good n (manyAdds pts n) := by
  unfold manyAdds
  simp only
  split
  · intro d h; cases h
  · exact good_liftE _ (fun d h => manySimplify_err_dvd _ _ _ h)

theorem manyMulsLoop_good (n : Int) (as : List Int) (f e : Nat) (sum cur : List Point) :
    Good n (manyMulsLoop n as f e sum cur) := by
  induction f generalizing e sum cur with
  | zero => intro d h; simp [manyMulsLoop] at h
  | succ f ih =>
    intro d h
    unfold manyMulsLoop at h
    split at h
    · cases h
    · split at h
      · rename_i s hs
        injection h with h
        subst h
        split at hs
        · exact manyAdds_good _ _ d hs
        · cases hs
      · by_cases he : (e / 2 == 0) = true
        · simp only [he, ↓reduceIte] at h
          cases h
        · simp only [he, Bool.false_eq_true, ↓reduceIte] at h
          split at h
          · rename_i s hs
            injection h with h
            subst h
            exact manyAdds_good _ _ d hs
          · exact ih _ _ _ d h

theorem manyMuls_good (pts : List Point) (as : List Int) (e : Nat) (n : Int) : Good n (manyMuls pts as e n) := by
  unfold manyMuls
  split
  · exact good_ok _
  · exact manyMulsLoop_good _ _ _ _ _ _

theorem pStage1_good (n : Int) (as : List Int) (f mult : Nat) (pts : List Point) :
    Good n (pStage1 n as f mult pts) := by
  induction f generalizing mult pts with
  | zero => intro d h; simp [pStage1] at h
  | succ f ih =>
    intro d h
    unfold pStage1 at h
    split at h
    · rename_i s hs
      injection h with h
      subst h
      exact manyMuls_good _ _ _ _ d hs
    · exact ih _ _ d h

theorem pStage2While_good (n : Int) (as : List Int) (prof : Profile) (b2 : Nat) (p6 : List Point)
    (f cur : Nat) (t0 : List Point) : Good n (pStage2While n as prof b2 p6 f cur t0) := by
  induction f generalizing cur t0 with
  | zero =>
    intro d h
    unfold pStage2While at h
    split at h <;> cases h
  | succ f ih =>
    intro d h
    unfold pStage2While at h
    split at h
    · split at h
      · cases h
      · split at h
        · rename_i s hs
          injection h with h
          subst h
          exact manyAdds_good _ _ d hs
        · exact ih _ _ d h
    · cases h

theorem pStage2One_good (n : Int) (as : List Int) (prof : Profile) (b2 : Nat) (joint : List Point) (init : Nat) :
    Good n (pStage2One n as prof b2 joint init) := by
  unfold pStage2One
  refine good_bind (manyAdds_good _ _) (fun p2 => ?_)
  refine good_bind (manyAdds_good _ _) (fun p4 => ?_)
  refine good_bind (manyAdds_good _ _) (fun p6 => ?_)
  refine good_bind (manyMuls_good _ _ _ _) (fun j => ?_)
  refine good_bind (pStage2While_good _ _ _ _ _ _ _ _) (fun _ => ?_)
  exact good_pure _

/-- **every `Err(d)` of `ecm_oneshot_parallel` divides n** -/
theorem ecmOneshotParallel_factor_dvd (pts : List Point) (as : List Int) (n : Int) (b1 b2 : Nat)
    (prof : Profile) (d : Int) (h : ecmOneshotParallel pts as n b1 b2 prof = .factor d) : d ∣ n ∧ 0 ≤ d := by
  unfold ecmOneshotParallel at h
  simp only at h
  split at h
  · cases h
  · rename_i s hs
    subst h
    revert hs
    generalize hrun : (do
        let hi ← liftP (addU64 prof b1 1)
        let joint ← pStage1 n as (hi - 1) 1 pts
        let inits ← liftP (stage2Inits prof b1)
        let joint ← pStage2One n as prof b2 joint inits.1
        let _ ← pStage2One n as prof b2 joint inits.2
        pure () : Except Stop Unit) = run
    intro hs
    have hgood : Good n run := by
      rw [← hrun]
      refine good_bind (good_liftP _) (fun hi => ?_)
      refine good_bind (pStage1_good _ _ _ _ _) (fun j1 => ?_)
      refine good_bind (good_liftP _) (fun inits => ?_)
      refine good_bind (pStage2One_good _ _ _ _ _ _) (fun j2 => ?_)
      refine good_bind (pStage2One_good _ _ _ _ _ _) (fun _ => ?_)
      exact good_pure _
    exact hgood d hs

/-! ## the curve loops return proper divisors -/

theorem proper_of (n fac : Int) (hn : 1 < n) (hd : Dv n fac) (h1 : fac ≠ 1) (h2 : fac ≠ n) :
    1 < fac ∧ fac < n ∧ fac ∣ n := by
  obtain ⟨hdvd, h0⟩ := hd
  have hne : fac ≠ 0 := by
    intro h
    rw [h] at hdvd
    have := Int.zero_dvd.mp hdvd
    omega
  have hle : fac ≤ n := Int.le_of_dvd (by omega) hdvd
  exact ⟨by omega, by omega, hdvd⟩

theorem ecmLoop_found (n : Int) (b1 b2 : Nat) (prof : Profile) (f count : Nat) (s : NTV.Draw.Stream)
    (fac : Int) (c : Nat) (rest : NTV.Draw.Stream)
    (h : ecmLoop n b1 b2 prof f count s = .found fac c rest) : Dv n fac ∧ fac ≠ 1 ∧ fac ≠ n := by
  induction f generalizing count s with
  | zero => simp [ecmLoop] at h
  | succ f ih =>
    unfold ecmLoop at h
    split at h
    · cases h
    · split at h
      · cases h
      · split at h
        · cases h
        · split at h
          · cases h
          · split at h
            · cases h
            · split at h
              · exact ih _ _ h
              · rename_i d hd
                split at h
                · exact ih _ _ h
                · rename_i hne
                  split at h
                  · cases h
                  · injection h with h1 h2 h3
                    subst h1
                    have hdv := ecmOneshot_factor_dvd _ _ _ _ _ _ _ hd
                    simp only [Bool.or_eq_true, beq_iff_eq, not_or] at hne
                    exact ⟨hdv, hne.1, hne.2⟩
              · cases h
              · cases h

/-- **`ecm` returns a proper divisor**: 1 < d < n and d ∣ n, for every n > 1, every B1, B2, every
stream of draws and both profiles -/
theorem ecm_found_proper (n : Int) (hn : 1 < n) (b1 b2 : Nat) (stream : NTV.Draw.Stream) (fuel : Nat) (prof : Profile)
    (fac : Int) (c : Nat) (rest : NTV.Draw.Stream) (h : ecm n b1 b2 stream fuel prof = .found fac c rest) :
    1 < fac ∧ fac < n ∧ fac ∣ n := by
  unfold ecm at h
  split at h
  · rename_i r hr
    subst h
    unfold debugAssertComposite at hr
    split at hr
    · cases hr
    · split at hr <;> cases hr
  · obtain ⟨hd, h1, h2⟩ := ecmLoop_found _ _ _ _ _ _ _ _ _ _ h
    exact proper_of n fac hn hd h1 h2

theorem ecmParLoop_found (n : Int) (b1 b2 pc : Nat) (prof : Profile) (f count : Nat) (s : NTV.Draw.Stream)
    (fac : Int) (c : Nat) (rest : NTV.Draw.Stream)
    (h : ecmParLoop n b1 b2 pc prof f count s = .found fac c rest) : Dv n fac ∧ fac ≠ 1 ∧ fac ≠ n := by
  induction f generalizing count s with
  | zero => simp [ecmParLoop] at h
  | succ f ih =>
    unfold ecmParLoop at h
    split at h
    · cases h
    · split at h
      · cases h
      · split at h
        · cases h
        · split at h
          · cases h
          · split at h
            · exact ih _ _ h
            · rename_i d hd
              split at h
              · exact ih _ _ h
              · rename_i hne
                split at h
                · cases h
                · split at h
                  · cases h
                  · injection h with h1 h2 h3
                    subst h1
                    have hdv := ecmOneshotParallel_factor_dvd _ _ _ _ _ _ _ hd
                    simp only [Bool.or_eq_true, beq_iff_eq, not_or] at hne
                    exact ⟨hdv, hne.1, hne.2⟩
            · cases h
            · cases h

/-- **`ecm_parallel::ecm` returns a proper divisor** -/
theorem ecmParallel_found_proper (n : Int) (hn : 1 < n) (b1 b2 : Nat) (stream : NTV.Draw.Stream) (fuel : Nat)
    (prof : Profile) (fac : Int) (c : Nat) (rest : NTV.Draw.Stream)
    (h : ecmParallel n b1 b2 stream fuel prof = .found fac c rest) : 1 < fac ∧ fac < n ∧ fac ∣ n := by
  unfold ecmParallel at h
  split at h
  · rename_i r hr
    subst h
    unfold debugAssertComposite at hr
    split at hr
    · cases hr
    · split at hr <;> cases hr
  · split at h
    · cases h
    · obtain ⟨hd, h1, h2⟩ := ecmParLoop_found _ _ _ _ _ _ _ _ _ _ _ h
      exact proper_of n fac hn hd h1 h2

/-! ## the driver invariant `∏ stack^mult · ∏ map = x` -/

/-- `∏ p^e` over a list of (p, e) -/
def prodPairs : List (Int × Nat) → Int
  | [] => 1
  | pe :: l => pe.1 ^ pe.2 * prodPairs l

theorem prodPairs_append (l1 l2 : List (Int × Nat)) : prodPairs (l1 ++ l2) = prodPairs l1 * prodPairs l2 := by
  induction l1 with
  | nil => simp [prodPairs]
  | cons a l ih => simp only [List.cons_append, prodPairs, ih]; ring

theorem prodPairs_insertSorted (v : Int × Nat) (l : List (Int × Nat)) :
    prodPairs (insertSorted v l) = v.1 ^ v.2 * prodPairs l := by
  induction l with
  | nil => simp [insertSorted, prodPairs]
  | cons u us ih =>
    unfold insertSorted
    split
    · simp [prodPairs]
    · simp only [prodPairs, ih]; ring

theorem prodPairs_sortPairs (l : List (Int × Nat)) : prodPairs (sortPairs l) = prodPairs l := by
  unfold sortPairs
  induction l with
  | nil => rfl
  | cons a l ih => simp only [List.foldr_cons, prodPairs_insertSorted, ih, prodPairs]

theorem addU64_dev (a b c : Nat) (h : addU64 .dev a b = .ok c) : c = a + b := by
  unfold addU64 at h
  split at h
  · injection h with h; exact h.symm
  · cases h

theorem mulU64_dev (a b c : Nat) (h : mulU64 .dev a b = .ok c) : c = a * b := by
  unfold mulU64 at h
  split at h
  · injection h with h; exact h.symm
  · cases h

theorem mapAdd_dev (m : List (Int × Nat)) (p : Int) (mult : Nat) (m' : List (Int × Nat))
    (h : mapAdd .dev m p mult = .ok m') : prodPairs m' = prodPairs m * p ^ mult := by
  induction m generalizing m' with
  | nil =>
    unfold mapAdd at h
    cases hadd : addU64 .dev 0 mult with
    | error e => rw [hadd] at h; cases h
    | ok c =>
      rw [hadd] at h
      simp only [Except.map] at h
      injection h with h
      subst h
      have := addU64_dev _ _ _ hadd
      simp [prodPairs, this]
  | cons qe rest ih =>
    obtain ⟨q, e⟩ := qe
    unfold mapAdd at h
    split at h
    · rename_i hq
      have hq' : q = p := by simpa using hq
      cases hadd : addU64 .dev e mult with
      | error e' => rw [hadd] at h; cases h
      | ok c =>
        rw [hadd] at h
        simp only [Except.map] at h
        injection h with h
        subst h
        have := addU64_dev _ _ _ hadd
        simp only [prodPairs, this, hq', pow_add]; ring
    · cases hrec : mapAdd .dev rest p mult with
      | error e' => rw [hrec] at h; cases h
      | ok r =>
        rw [hrec] at h
        simp only [Except.map] at h
        injection h with h
        subst h
        simp only [prodPairs, ih r hrec]; ring

theorem ppSearch_spec (n k : Nat) : (NTV.Elem.ppSearch n k).1 ^ (NTV.Elem.ppSearch n k).2 = n := by
  fun_induction NTV.Elem.ppSearch n k with
  | case1 => simp
  | case2 => simp
  | case3 k b hb =>
    unfold NTV.Elem.isPerfectPower at hb
    simp only at hb
    split at hb
    · rename_i hp
      injection hb with hb
      subst hb
      exact hp
    · cases hb
  | case4 k hb ih => exact ih

theorem perfectPower_spec (n : Int) (hn : 1 < n) (b : Int) (k : Nat)
    (h : NTV.Elem.perfectPower n = some (b, k)) : b ^ k = n ∧ 1 ≤ b := by
  unfold NTV.Elem.perfectPower at h
  have h1 : ¬ n < 0 := by omega
  have h2 : ¬ n ≤ 1 := by omega
  simp only [h1, h2, ↓reduceIte, Option.some.injEq, Prod.mk.injEq] at h
  obtain ⟨hb, hk⟩ := h
  have hs := ppSearch_spec n.toNat (NTV.Elem.bits n.toNat)
  rw [hk] at hs
  have hpow : b ^ k = n := by
    rw [← hb]
    have : ((NTV.Elem.ppSearch n.toNat (NTV.Elem.bits n.toNat)).1 : Int) ^ k = ((n.toNat : Nat) : Int) := by
      exact_mod_cast hs
    rw [this]
    omega
  refine ⟨hpow, ?_⟩
  have hb0 : 0 ≤ b := by rw [← hb]; exact Int.natCast_nonneg _
  rcases Int.lt_or_eq_of_le hb0 with hpos | hzero
  · omega
  · exfalso
    rw [← hzero] at hpow
    cases k with
    | zero => simp at hpow; omega
    | succ k => simp at hpow; omega

theorem eq_dropLast_append {α : Type} (l : List α) (a : α) (h : l.getLast? = some a) :
    l = l.dropLast ++ [a] := by
  have hne : l ≠ [] := by intro h0; rw [h0] at h; simp at h
  have h2 := List.dropLast_concat_getLast hne
  rw [List.getLast?_eq_some_getLast hne] at h
  injection h with h
  rw [← h]; exact h2.symm

/-- all entries of the work stack are ≥ 1 -/
def StackPos (l : List (Int × Nat)) : Prop := ∀ e ∈ l, 1 ≤ e.1

/-- the quantity the driver preserves -/
def value (st : DState) : Int := prodPairs st.stack * prodPairs st.map

theorem stackPos_append {l1 l2 : List (Int × Nat)} (h1 : StackPos l1) (h2 : StackPos l2) : StackPos (l1 ++ l2) := by
  intro e he
  rcases List.mem_append.mp he with h | h
  · exact h1 e h
  · exact h2 e h

/-- **driver invariant**: whenever the work-stack loop (dev profile, i.e. no wrapped multiplicity)
ends with a result, the product of the result equals `∏ stack^mult · ∏ map` of the state it was
started in — provided the splitting routine only ever returns positive divisors. -/
theorem driverLoop_product (ecmFn : Int → Nat → Nat → NTV.Draw.Stream → EcmRes)
    (hE : ∀ now b1 b2 s fac c s', 1 < now → ecmFn now b1 b2 s = .found fac c s' → fac ∣ now ∧ 0 < fac)
    (bsel : Int → Option Nat) (fuel : Nat) (st : DState) (hpos : StackPos st.stack)
    (result : List (Int × Nat)) (count : Nat) (rest : NTV.Draw.Stream)
    (h : driverLoop ecmFn .dev bsel fuel st = .ok result count rest) : prodPairs result = value st := by
  induction fuel generalizing st with
  | zero =>
    unfold driverLoop at h
    split at h
    · rename_i hemp
      injection h with h1 h2 h3
      subst h1
      have : st.stack = [] := by simpa using hemp
      simp [value, this, prodPairs, prodPairs_sortPairs]
    · cases h
  | succ f ih =>
    unfold driverLoop at h
    split at h
    · rename_i hnone
      injection h with h1 h2 h3
      subst h1
      have : st.stack = [] := by simpa using hnone
      simp [value, this, prodPairs, prodPairs_sortPairs]
    · rename_i now mult hsome
      have hstack : st.stack = st.stack.dropLast ++ [(now, mult)] := eq_dropLast_append _ _ hsome
      have hposD : StackPos st.stack.dropLast := by
        intro e he
        exact hpos e (by rw [hstack]; exact List.mem_append_left _ he)
      have hnow1 : 1 ≤ now := by
        have := hpos (now, mult) (by rw [hstack]; simp)
        exact this
      have hval : value st = prodPairs st.stack.dropLast * now ^ mult * prodPairs st.map := by
        unfold value
        rw [hstack, prodPairs_append]
        simp [prodPairs]
      simp only at h
      split at h
      · -- now ≤ 1: dropped; it is 1
        rename_i hle
        have hone : now = 1 := by omega
        have := ih _ hposD h
        rw [this, hval, hone]
        simp [value]
      · rename_i hgt
        have hnow : 1 < now := by omega
        split at h
        · cases h
        · -- prime: moved into the map
          split at h
          · cases h
          · rename_i m hm
            have := ih _ hposD h
            rw [this, hval]
            simp only [value, mapAdd_dev _ _ _ _ hm]
            ring
        · split at h
          · cases h
          · rename_i base k hpp
            obtain ⟨hpow, hbase⟩ := perfectPower_spec now hnow base k hpp
            split at h
            · -- perfect power: replaced by its base with multiplied multiplicity
              split at h
              · cases h
              · rename_i m hm
                have hm' := mulU64_dev _ _ _ hm
                have hpos' : StackPos (st.stack.dropLast ++ [(base, m)]) :=
                  stackPos_append hposD (by intro e he; simp at he; subst he; exact hbase)
                have := ih _ hpos' h
                rw [this, hval]
                simp only [value, prodPairs_append, prodPairs]
                rw [hm', ← hpow, ← pow_mul, Nat.mul_comm]
                ring
            · -- split by the ECM routine
              split at h
              · cases h     -- no bound supplied for this item
              · split at h
                · cases h
                · split at h
                  · cases h
                  · cases h
                  · rename_i fac nowcount s' hfound
                    obtain ⟨hdvd, hfacpos⟩ := hE _ _ _ _ _ _ _ hnow hfound
                    split at h
                    · cases h
                    · split at h
                      · have hpos' : StackPos (st.stack.dropLast ++ [(now, mult)]) :=
                          stackPos_append hposD (by intro e he; simp at he; subst he; exact hnow1)
                        have := ih _ hpos' h
                        rw [this, hval]
                        simp only [value, prodPairs_append, prodPairs]
                        ring
                      · have hmul : fac * Int.tdiv now fac = now := Int.mul_tdiv_cancel' hdvd
                        have hother : 1 ≤ Int.tdiv now fac := by
                          by_contra hc
                          have h0 : Int.tdiv now fac ≤ 0 := by omega
                          have : fac * Int.tdiv now fac ≤ 0 := Int.mul_nonpos_of_nonneg_of_nonpos (by omega) h0
                          omega
                        have hpos' : StackPos (st.stack.dropLast ++ [(fac, mult), (Int.tdiv now fac, mult)]) :=
                          stackPos_append hposD (by
                            intro e he
                            simp at he
                            rcases he with he | he
                            · subst he; exact hfacpos
                            · subst he; exact hother)
                        have := ih _ hpos' h
                        rw [this, hval]
                        simp only [value, prodPairs_append, prodPairs]
                        have : now ^ mult = fac ^ mult * Int.tdiv now fac ^ mult := by
                          rw [← mul_pow, hmul]
                        rw [this]
                        ring

/-- **both drivers, dev profile**: if `factorize_verbose(x)` returns, the product of the returned
prime powers is exactly x (for every stream of draws, every B1 and, for the batched driver, every table
of per-item bounds) -/
theorem factorizeSeq_product (x : Int) (b : Nat) (stream : NTV.Draw.Stream) (fuel : Nat)
    (result : List (Int × Nat)) (count : Nat) (rest : NTV.Draw.Stream)
    (h : factorizeSeq x b stream fuel .dev = .ok result count rest) : prodPairs result = x := by
  unfold factorizeSeq factorizeWith at h
  split at h
  · cases h
  · rename_i hx
    have := driverLoop_product _ (fun now b1 b2 s fac c s' hnow hf => by
      obtain ⟨h1, _, h3⟩ := ecm_found_proper now hnow b1 b2 s _ _ fac c s' hf
      exact ⟨h3, by omega⟩) _ fuel _ (by intro e he; simp at he; subst he; simp; omega) result count rest h
    rw [this]
    simp [value, prodPairs]

theorem factorizePar_product (x : Int) (b : Nat) (btab : List (Int × Nat)) (stream : NTV.Draw.Stream) (fuel : Nat)
    (result : List (Int × Nat)) (count : Nat) (rest : NTV.Draw.Stream)
    (h : factorizePar x b btab stream fuel .dev = .ok result count rest) : prodPairs result = x := by
  unfold factorizePar factorizeWith at h
  split at h
  · cases h
  · rename_i hx
    have := driverLoop_product _ (fun now b1 b2 s fac c s' hnow hf => by
      obtain ⟨h1, _, h3⟩ := ecmParallel_found_proper now hnow b1 b2 s _ _ fac c s' hf
      exact ⟨h3, by omega⟩) _ fuel _ (by intro e he; simp at he; subst he; simp; omega) result count rest h
    rw [this]
    simp [value, prodPairs]

/-! ## dev profile: no arithmetic-overflow panic for B1 + 1 < 2^64 and B2 + 6 < 2^64
(`select_b` returns at most `u64::MAX / 100`, and the drivers use B2 = 100·B1 ≤ 2^64 − 16) -/

theorem addU64_dev_ok (a b : Nat) (h : a + b < two64) : addU64 .dev a b = .ok (a + b) := by
  simp [addU64, h]

theorem mulU64_dev_ok (a b : Nat) (h : a * b < two64) : mulU64 .dev a b = .ok (a * b) := by
  simp [mulU64, h]

theorem subU64_dev_ok (a b : Nat) (h : b ≤ a) : subU64 .dev a b = .ok (a - b) := by
  simp [subU64, h]

/-- the stage-2 starting exponents never underflow/overflow (this is the statement that is false for
the earlier `(b1 + 1) / 6 * 6 - 1`, at every b1 < 5) -/
theorem stage2Inits_dev (b1 : Nat) (h : b1 + 1 < two64) :
    stage2Inits .dev b1 = .ok ((b1 - 1) / 6 * 6 + 1, max ((b1 + 1) / 6 * 6) 6 - 1) := by
  have d1 := Nat.div_mul_le_self (b1 - 1) 6
  have d2 := Nat.div_mul_le_self (b1 + 1) 6
  unfold stage2Inits
  rw [mulU64_dev_ok _ _ (by omega)]
  simp only [bind, Except.bind]
  rw [addU64_dev_ok _ _ (by omega)]
  simp only
  rw [addU64_dev_ok _ _ h]
  simp only
  rw [mulU64_dev_ok _ _ (by omega)]
  simp only
  rw [subU64_dev_ok _ _ (by omega)]
  rfl

/-- a computation none of whose early exits satisfies P -/
def Avoid {α : Type} (P : Stop → Prop) (r : Except Stop α) : Prop := ∀ s, r = .error s → ¬ P s

theorem avoid_bind {α β : Type} {P : Stop → Prop} {m : Except Stop α} {f : α → Except Stop β}
    (hm : Avoid P m) (hf : ∀ a, Avoid P (f a)) : Avoid P (m >>= f) := by
  intro s h
  cases m with
  | error e =>
    have : e = s := by
      simp only [bind, Except.bind] at h
      injection h
    exact hm s (by rw [this])
  | ok a => exact hf a s h

theorem avoid_ok {α : Type} {P : Stop → Prop} (a : α) : Avoid P (.ok a : Except Stop α) := by
  intro s h; cases h

theorem avoid_liftE {α : Type} {P : Stop → Prop} (hP : ∀ d, ¬ P (.factor d)) (r : Except Int α) :
    Avoid P (liftE r) := by
  intro s h
  cases r with
  | ok a => simp [liftE] at h
  | error e =>
    simp only [liftE] at h
    injection h with h
    subst h
    exact hP _

/-- the exits that are not panics -/
structure Benign (P : Stop → Prop) : Prop where
  factor : ∀ d, ¬ P (.factor d)
  done : ¬ P .done
  fuel : ¬ P .fuel

theorem stage1_avoid {P : Stop → Prop} (hP : Benign P) (a n : Int) (f k : Nat) (pt : Point) :
    Avoid P (stage1 a n f k pt) := by
  induction f generalizing k pt with
  | zero => intro s h; simp [stage1] at h
  | succ f ih =>
    intro s h
    unfold stage1 at h
    split at h
    · injection h with h; subst h; exact hP.factor _
    · split at h
      · injection h with h; subst h; exact hP.done
      · exact ih _ _ s h

theorem stage2While_avoid {P : Stop → Prop} (hP : Benign P) (a n : Int) (b2 : Nat) (hb2 : b2 + 6 < two64)
    (p6 : Point) (f cur : Nat) (pt : Point) : Avoid P (stage2While a n .dev b2 p6 f cur pt) := by
  induction f generalizing cur pt with
  | zero =>
    intro s h
    unfold stage2While at h
    split at h
    · injection h with h; subst h; exact hP.fuel
    · cases h
  | succ f ih =>
    intro s h
    unfold stage2While at h
    split at h
    · rename_i hle
      rw [addU64_dev_ok _ _ (by omega)] at h
      simp only at h
      split at h
      · injection h with h; subst h; exact hP.factor _
      · split at h
        · injection h with h; subst h; exact hP.done
        · exact ih _ _ s h
    · cases h

theorem stage2One_avoid {P : Stop → Prop} (hP : Benign P) (a n : Int) (b2 : Nat) (hb2 : b2 + 6 < two64)
    (pt : Point) (init : Nat) : Avoid P (stage2One a n .dev b2 pt init) := by
  unfold stage2One
  refine avoid_bind (avoid_liftE hP.factor _) (fun p2 => ?_)
  refine avoid_bind (avoid_liftE hP.factor _) (fun p4 => ?_)
  refine avoid_bind (avoid_liftE hP.factor _) (fun p6 => ?_)
  refine avoid_bind (avoid_liftE hP.factor _) (fun pt' => ?_)
  split
  · intro s h; injection h with h; subst h; exact hP.done
  · exact stage2While_avoid hP _ _ _ hb2 _ _ _ _

/-- **dev profile: `ecm_oneshot` never panics** when B1 + 1 and B2 + 6 fit in u64 -/
theorem ecmOneshot_dev_no_panic (pt : Point) (a n : Int) (b1 b2 : Nat)
    (h1 : b1 + 1 < two64) (h2 : b2 + 6 < two64) (k : String) :
    ecmOneshot pt a n b1 b2 .dev ≠ .panic k := by
  intro h
  have hP : Benign (fun s => ∃ k, s = Stop.panic k) :=
    ⟨fun d ⟨k, hk⟩ => (by cases hk), fun ⟨k, hk⟩ => (by cases hk), fun ⟨k, hk⟩ => (by cases hk)⟩
  unfold ecmOneshot at h
  simp only at h
  rw [addU64_dev_ok _ _ h1, stage2Inits_dev _ h1] at h
  split at h
  · cases h
  · rename_i s hs
    subst h
    revert hs
    generalize hrun : (do
        let hi ← liftP (Except.ok (b1 + 1))
        let pt ← stage1 a n (hi - 1) 1 pt
        let inits ← liftP (Except.ok ((b1 - 1) / 6 * 6 + 1, max ((b1 + 1) / 6 * 6) 6 - 1))
        let pt ← stage2One a n .dev b2 pt inits.1
        let _ ← stage2One a n .dev b2 pt inits.2
        pure () : Except Stop Unit) = run
    intro hs
    have hav : Avoid (fun s => ∃ k, s = Stop.panic k) run := by
      rw [← hrun]
      refine avoid_bind (by simp only [liftP]; exact avoid_ok _) (fun hi => ?_)
      refine avoid_bind (stage1_avoid hP _ _ _ _ _) (fun pt1 => ?_)
      refine avoid_bind (by simp only [liftP]; exact avoid_ok _) (fun inits => ?_)
      refine avoid_bind (stage2One_avoid hP _ _ _ h2 _ _) (fun pt2 => ?_)
      refine avoid_bind (stage2One_avoid hP _ _ _ h2 _ _) (fun _ => ?_)
      exact avoid_ok _
    exact hav _ hs ⟨k, rfl⟩

/-- the pre-repair start of the second residue class, `(b1 + 1) / 6 * 6 - 1`, underflows at b1 = 4
(= `select_b(n)` for every n ≤ 1000) while the current one does not -/
example : subU64 .dev ((4 + 1) / 6 * 6) 1 = .error "overflow" := by decide
example : stage2Inits .dev 4 = .ok (1, 5) := by decide

end NTV.Ecm
