import NTV.Proofs.Lemmas.RabinMonierBound
import Mathlib.Data.Fintype.BigOperators
/-! (R3) counting accepting base vectors, and the link between the stream-driven test and
`isPrimeWith` on the decoded bases. -/
namespace NTV.Prime

/-- for odd n > 1 the test with explicit bases is "every base passes its round" -/
theorem isPrimeWith_odd (n : Nat) (hodd : n % 2 = 1) (hn : 1 < n) (bases : List Nat) :
    isPrimeWith (n : Int) bases =
      bases.all (fun r => mrRound n (splitTwos n (n - 1) 0).1 (splitTwos n (n - 1) 0).2 r) := by
  unfold isPrimeWith
  have h1 : ¬ ((n : Int) ≤ 1) := by omega
  have h2 : ((n : Int) == 2) = false := by simp; omega
  have h3 : (((n : Int) % 2) == 0) = false := by simp; omega
  simp only [h1, h2, h3, ↓reduceIte, Bool.false_eq_true, Int.toNat_natCast]

/-- the set of strong liars of the model -/
def liars (n : Nat) : Finset Nat :=
  (Finset.Icc 1 (n - 1)).filter (fun a =>
    mrRound n (splitTwos n (n - 1) 0).1 (splitTwos n (n - 1) 0).2 a = true)

/-- vectors of k bases in [1, n − 1] accepted by the test -/
def accepting (n k : Nat) : Finset (Fin k → Nat) :=
  (Fintype.piFinset (fun _ : Fin k => Finset.Icc 1 (n - 1))).filter
    (fun f => isPrimeWith (n : Int) (List.ofFn f) = true)

theorem accepting_eq_pi (n k : Nat) (hodd : n % 2 = 1) (hn : 1 < n) :
    accepting n k = Fintype.piFinset (fun _ : Fin k => liars n) := by
  ext f
  simp only [accepting, liars, Finset.mem_filter, Fintype.mem_piFinset, isPrimeWith_odd n hodd hn,
    List.all_eq_true, List.mem_ofFn]
  constructor
  · rintro ⟨h1, h2⟩ i
    exact ⟨h1 i, h2 _ ⟨i, rfl⟩⟩
  · intro h
    refine ⟨fun i => (h i).1, ?_⟩
    rintro r ⟨i, rfl⟩
    exact (h i).2

theorem card_accepting (n k : Nat) (hodd : n % 2 = 1) (hn : 1 < n) :
    (accepting n k).card = (liars n).card ^ k := by
  rw [accepting_eq_pi n k hodd hn, Fintype.card_piFinset]
  simp

theorem card_all_bases (n k : Nat) :
    (Fintype.piFinset (fun _ : Fin k => Finset.Icc 1 (n - 1))).card = (n - 1) ^ k := by
  rw [Fintype.card_piFinset]; simp

theorem accepting_even (n k : Nat) (hn : 2 < n) (he : n % 2 = 0) : accepting n k = ∅ := by
  ext f
  simp only [accepting, Finset.mem_filter, Finset.notMem_empty, iff_false, not_and]
  intro _
  rw [isPrimeWith_even (n : Int) (by omega) (by omega)]
  simp

/-- at most ((n−1)/4)^k of the (n−1)^k base vectors are accepted, n odd composite -/
theorem card_accepting_le (n k : Nat) (hodd : n % 2 = 1) (hn : 1 < n) (hcomp : ¬ n.Prime) :
    (accepting n k).card ≤ ((n - 1) / 4) ^ k := by
  rw [card_accepting n k hodd hn]
  exact Nat.pow_le_pow_left (strong_liars_le_quarter n hodd hn hcomp) k

/-- every composite n > 1: 4^k · #accepted ≤ (n−1)^k = #all -/
theorem four_pow_mul_card_accepting_le (n k : Nat) (hn : 1 < n) (hcomp : ¬ n.Prime) :
    4 ^ k * (accepting n k).card ≤ (n - 1) ^ k := by
  rcases Nat.mod_two_eq_zero_or_one n with he | hodd
  · have h2 : n ≠ 2 := by rintro rfl; exact hcomp Nat.prime_two
    rw [accepting_even n k (by omega) he]; simp
  · calc 4 ^ k * (accepting n k).card ≤ 4 ^ k * ((n - 1) / 4) ^ k :=
          Nat.mul_le_mul_left _ (card_accepting_le n k hodd hn hcomp)
      _ = (4 * ((n - 1) / 4)) ^ k := by rw [mul_pow]
      _ ≤ (n - 1) ^ k := Nat.pow_le_pow_left (Nat.mul_div_le _ _) k

/-! ### link with the stream-driven test -/

/-- the k bases decoded from the stream by `gen_bigint_range(1, n)` (specification-level helper) -/
def drawBases (n : Int) : Nat → NTV.Draw.Stream → Option (List Nat × NTV.Draw.Stream)
  | 0, s => some ([], s)
  | k + 1, s =>
    match NTV.Draw.range 1 n s with
    | none => none
    | some (r, s') =>
      match drawBases n k s' with
      | none => none
      | some (bs, rest) => some (r.toNat :: bs, rest)

theorem range_bounds (n : Int) (s s' : NTV.Draw.Stream) (r : Int)
    (h : NTV.Draw.range 1 n s = some (r, s')) (hn : 1 < n) : 1 ≤ r ∧ r < n := by
  unfold NTV.Draw.range at h
  split at h
  · simp at h
  · rename_i v rest hb
    simp only [Option.some.injEq, Prod.mk.injEq] at h
    have := NTV.Draw.below_lt _ _ _ _ hb
    obtain ⟨rfl, _⟩ := h
    omega

theorem drawBases_bounds (n : Int) (hn : 1 < n) (k : Nat) (s : NTV.Draw.Stream) (bs : List Nat)
    (rest : NTV.Draw.Stream) (h : drawBases n k s = some (bs, rest)) :
    bs.length = k ∧ ∀ r ∈ bs, 1 ≤ r ∧ (r : Int) < n := by
  induction k generalizing s bs with
  | zero =>
    simp only [drawBases, Option.some.injEq, Prod.mk.injEq] at h
    obtain ⟨rfl, _⟩ := h; simp
  | succ k ih =>
    simp only [drawBases] at h
    split at h
    · simp at h
    · rename_i r s' hr
      split at h
      · simp at h
      · rename_i bs' rest' hd
        simp only [Option.some.injEq, Prod.mk.injEq] at h
        obtain ⟨rfl, rfl⟩ := h
        obtain ⟨hl, hb⟩ := ih s' bs' hd
        obtain ⟨r1, r2⟩ := range_bounds n s s' r hr hn
        refine ⟨by simp [hl], ?_⟩
        intro x hx
        rcases List.mem_cons.mp hx with rfl | hx
        · omega
        · exact hb x hx

theorem roundsS_of_draw (n d c : Nat) (hn : 0 < n) (k : Nat) (s : NTV.Draw.Stream) (bs : List Nat)
    (rest : NTV.Draw.Stream) (h : drawBases (n : Int) k s = some (bs, rest)) :
    (roundsS n d c k s).map (·.1) = some (bs.all (fun r => mrRound n d c r)) := by
  induction k generalizing s bs with
  | zero =>
    simp only [drawBases, Option.some.injEq, Prod.mk.injEq] at h
    obtain ⟨rfl, _⟩ := h; simp [roundsS]
  | succ k ih =>
    simp only [drawBases] at h
    split at h
    · simp at h
    · rename_i r s' hr
      split at h
      · simp at h
      · rename_i bs' rest' hd
        simp only [Option.some.injEq, Prod.mk.injEq] at h
        obtain ⟨rfl, rfl⟩ := h
        simp only [roundsS, hr, mrRoundFast_eq _ _ _ _ hn, List.all_cons]
        by_cases hp : mrRound n d c r.toNat = true
        · simp only [hp, ↓reduceIte, Bool.true_and]
          exact ih s' bs' hd
        · have hp' : mrRound n d c r.toNat = false := by simpa using hp
          simp [hp']

/-- the verdict of the stream-driven test is `isPrimeWith` on the 20 bases decoded from the stream -/
theorem isPrime_eq_isPrimeWith (n : Int) (s : NTV.Draw.Stream) (bs : List Nat)
    (rest : NTV.Draw.Stream) (h : drawBases n 20 s = some (bs, rest)) :
    isPrime n s = some (isPrimeWith n bs) := by
  unfold isPrime isPrimeS isPrimeWith
  by_cases h1 : n ≤ 1
  · simp [h1]
  · simp only [h1, ↓reduceIte]
    by_cases h2 : n = 2
    · subst h2; simp
    · have h2' : (n == 2) = false := by simpa using h2
      simp only [h2', Bool.false_eq_true, ↓reduceIte]
      by_cases h3 : n % 2 = 0
      · simp [h3]
      · have h3' : (n % 2 == 0) = false := by simpa using h3
        simp only [h3', Bool.false_eq_true, ↓reduceIte]
        have hcast : ((n.toNat : Nat) : Int) = n := Int.toNat_of_nonneg (by omega)
        rw [← hcast] at h
        exact roundsS_of_draw n.toNat _ _ (by omega) 20 s bs rest h

end NTV.Prime

namespace NTV.Prime

theorem drawBases_of_roundsS_true (n d c : Nat) (k : Nat) (s rest : NTV.Draw.Stream)
    (h : roundsS n d c k s = some (true, rest)) :
    ∃ bs, drawBases (n : Int) k s = some (bs, rest) := by
  induction k generalizing s with
  | zero =>
    simp only [roundsS, Option.some.injEq, Prod.mk.injEq, true_and] at h
    subst h; exact ⟨[], rfl⟩
  | succ k ih =>
    simp only [roundsS] at h
    split at h
    · simp at h
    · rename_i r s' hr
      split at h
      · obtain ⟨bs, hbs⟩ := ih s' h
        exact ⟨r.toNat :: bs, by simp [drawBases, hr, hbs]⟩
      · simp at h

theorem ofFn_getD (bs : List Nat) (k : Nat) (hl : bs.length = k) :
    List.ofFn (fun i : Fin k => bs.getD i 0) = bs := by
  apply List.ext_getElem
  · simp [hl]
  · intro i h1 h2
    simp [List.getD_eq_getElem?_getD, h2]

/-- if the stream-driven test accepts a composite n, the vector of its 20 decoded bases lies in
`accepting n 20` -/
theorem accepted_composite (n : Nat) (hn : 1 < n) (hcomp : ¬ n.Prime) (s : NTV.Draw.Stream)
    (h : isPrime (n : Int) s = some true) :
    ∃ f ∈ accepting n 20, ∃ rest, drawBases (n : Int) 20 s = some (List.ofFn f, rest) := by
  rcases Nat.mod_two_eq_zero_or_one n with he | hodd
  · exfalso
    have h2 : n ≠ 2 := by rintro rfl; exact hcomp Nat.prime_two
    have : isPrime (n : Int) s = some false := by
      unfold isPrime isPrimeS
      have h1 : ¬ ((n : Int) ≤ 1) := by omega
      have h2 : ((n : Int) == 2) = false := by simp; omega
      have h3 : (n : Int) % 2 = 0 := by omega
      simp [h1, h2, h3]
    rw [this] at h; simp at h
  · have hroll : ∃ rest, roundsS n (splitTwos n (n - 1) 0).1 (splitTwos n (n - 1) 0).2 20 s
        = some (true, rest) := by
      unfold isPrime isPrimeS at h
      have h1 : ¬ ((n : Int) ≤ 1) := by omega
      have h2 : ((n : Int) == 2) = false := by simp; omega
      have h3 : (((n : Int) % 2) == 0) = false := by simp; omega
      simp only [h1, h2, h3, ↓reduceIte, Bool.false_eq_true, Int.toNat_natCast] at h
      cases hr : roundsS n (splitTwos n (n - 1) 0).1 (splitTwos n (n - 1) 0).2 20 s with
      | none => rw [hr] at h; simp at h
      | some v =>
        obtain ⟨b, rest⟩ := v
        rw [hr] at h
        simp only [Option.map_some, Option.some.injEq] at h
        subst h
        exact ⟨rest, rfl⟩
    obtain ⟨rest, hroll⟩ := hroll
    obtain ⟨bs, hbs⟩ := drawBases_of_roundsS_true n _ _ 20 s rest hroll
    obtain ⟨hl, hb⟩ := drawBases_bounds (n : Int) (by omega) 20 s bs rest hbs
    have hv := isPrime_eq_isPrimeWith (n : Int) s bs rest hbs
    rw [h] at hv
    have hv' : isPrimeWith (n : Int) bs = true := by simpa using hv.symm
    have hof := ofFn_getD bs 20 hl
    refine ⟨fun i : Fin 20 => bs.getD i 0, ?_, rest, by rw [hof]; exact hbs⟩
    simp only [accepting, Finset.mem_filter, Fintype.mem_piFinset, Finset.mem_Icc]
    refine ⟨?_, by rw [hof]; exact hv'⟩
    intro i
    have hi : (i : Nat) < bs.length := by rw [hl]; exact i.2
    have hmem : bs.getD i 0 ∈ bs := by
      rw [List.getD_eq_getElem?_getD, List.getElem?_eq_getElem hi]; simp
    have := hb _ hmem
    omega

end NTV.Prime
