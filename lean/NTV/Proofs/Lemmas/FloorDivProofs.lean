import NTV.Model.Hnf
import Mathlib.Tactic
namespace NTV.Hnf

theorem floorDivPos (a b : Int) (hb : 0 < b) :
    (if a < Int.tdiv a b * b then Int.tdiv a b - 1 else Int.tdiv a b) = a / b := by
  have h1 := Int.tdiv_mul_add_tmod a b
  have h2 := Int.tmod_lt_of_pos a hb
  have h3 := Int.lt_tmod_of_pos a hb
  split
  · rename_i h
    have := (Int.ediv_emod_unique hb (a := a) (q := a.tdiv b - 1) (r := a.tmod b + b)).mpr
      ⟨by nlinarith, by omega, by omega⟩
    exact this.1.symm
  · rename_i h
    have := (Int.ediv_emod_unique hb (a := a) (q := a.tdiv b) (r := a.tmod b)).mpr
      ⟨by nlinarith, by omega, by omega⟩
    exact this.1.symm

/-- `floor_div` of hnf.rs is mathematical floor division (for either sign of the divisor). -/
theorem floorDiv_eq_fdiv (a b : Int) (hb : b ≠ 0) : floorDiv a b = Int.fdiv a b := by
  unfold floorDiv
  rcases lt_or_gt_of_ne hb with hneg | hpos
  · simp only [hneg, ↓reduceIte]
    rw [floorDivPos (-a) (-b) (by omega), ← Int.neg_fdiv_neg a b, Int.fdiv_eq_ediv_of_nonneg _ (by omega)]
  · have : ¬ b < 0 := by omega
    simp only [this, ↓reduceIte]
    rw [floorDivPos a b hpos, Int.fdiv_eq_ediv_of_nonneg _ (by omega)]

/-- remainder range used by the HNF normal form: for a positive pivot the reduced entry lies in [0, b). -/
theorem floorDiv_rem_pos (a b : Int) (hb : 0 < b) : 0 ≤ a - b * floorDiv a b ∧ a - b * floorDiv a b < b := by
  rw [floorDiv_eq_fdiv a b (by omega), ← Int.fmod_def]
  exact ⟨Int.fmod_nonneg_of_pos a hb, Int.fmod_lt_of_pos a hb⟩

theorem floorDiv_rem_abs (a b : Int) (hb : b ≠ 0) : (a - b * floorDiv a b).natAbs < b.natAbs := by
  rcases lt_or_gt_of_ne hb with hneg | hpos
  · have := floorDiv_rem_pos (-a) (-b) (by omega)
    have e : floorDiv (-a) (-b) = floorDiv a b := by
      rw [floorDiv_eq_fdiv _ _ (by omega), floorDiv_eq_fdiv _ _ hb, Int.neg_fdiv_neg]
    rw [e] at this
    have e2 : -a - -b * floorDiv a b = -(a - b * floorDiv a b) := by ring
    rw [e2] at this
    omega
  · have := floorDiv_rem_pos a b hpos
    omega

end NTV.Hnf
