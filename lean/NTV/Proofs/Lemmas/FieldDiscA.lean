import Mathlib.NumberTheory.NumberField.Discriminant.Defs
/-! # The discriminant of a ℤ-basis of the ring of integers is the field discriminant (Mathlib only).

If `b` is a ℚ-basis of a number field `K` whose ℤ-span is exactly the set of elements integral over ℤ, then
`Algebra.discr ℚ b = NumberField.discr K`. -/
namespace NTV.FieldDisc
open Module

variable {K : Type*} [Field K] {ι : Type*} [Fintype ι] [DecidableEq ι]

/-- coordinates on a ℚ-basis of an element of the ℤ-span of the basis are integers -/
theorem repr_int_of_mem_span [Algebra ℚ K] (b : Basis ι ℚ K) (x : K)
    (hx : x ∈ Submodule.span ℤ (Set.range b)) (i : ι) : ∃ z : ℤ, b.repr x i = (z : ℚ) := by
  obtain ⟨c, rfl⟩ := (Submodule.mem_span_range_iff_exists_fun ℤ).mp hx
  refine ⟨c i, ?_⟩
  rw [map_sum, Finsupp.finsetSum_apply]
  rw [Finset.sum_eq_single i]
  · rw [map_zsmul, Finsupp.smul_apply, Basis.repr_self, Finsupp.single_eq_same]; simp
  · intro j _ hji
    rw [map_zsmul, Finsupp.smul_apply, Basis.repr_self, Finsupp.single_apply, if_neg hji]; simp
  · intro h; exact absurd (Finset.mem_univ i) h

theorem isIntegral_repr_of_mem_span [Algebra ℚ K] (b : Basis ι ℚ K) (x : K)
    (hx : x ∈ Submodule.span ℤ (Set.range b)) (i : ι) : IsIntegral ℤ (b.repr x i) := by
  obtain ⟨z, hz⟩ := repr_int_of_mem_span b x hx i
  rw [hz]; exact isIntegral_algebraMap (R := ℤ) (A := ℚ) (x := z)

/-- **the discriminant of a ℤ-basis of the integers of `K` is the discriminant of `K`** -/
theorem discr_eq_numberField_discr [NumberField K] (b : Basis ι ℚ K)
    (hb : ∀ x : K, IsIntegral ℤ x ↔ x ∈ Submodule.span ℤ (Set.range b)) :
    Algebra.discr ℚ b = (NumberField.discr K : ℚ) := by
  classical
  rw [NumberField.coe_discr]
  apply Algebra.discr_eq_discr_of_toMatrix_coeff_isIntegral
  · intro i j
    rw [Basis.toMatrix_apply]
    apply isIntegral_repr_of_mem_span
    rw [← hb, NumberField.integralBasis_apply]
    exact (NumberField.RingOfIntegers.isIntegral_coe _)
  · intro i j
    rw [Basis.toMatrix_apply]
    apply isIntegral_repr_of_mem_span
    rw [NumberField.mem_span_integralBasis]
    have hint : IsIntegral ℤ (b j) := (hb _).mpr (Submodule.subset_span ⟨j, rfl⟩)
    exact ⟨⟨b j, hint⟩, rfl⟩

end NTV.FieldDisc
