import NTV.Proofs.Lemmas.RabinMonierGroup
/-! Strong liars inside `(ZMod n)ˣ`: they all lie in the subgroup `{u | u^t = ±1}` for a suitable
`t` with `2t ∣ n − 1` such that `−1` is a t-th power. -/
namespace NTV.RM
open ZMod

/-- the strong-liar condition for a unit -/
def LiarU {n : ℕ} (d c : ℕ) (u : (ZMod n)ˣ) : Prop :=
  u ^ d = 1 ∨ ∃ i, i < c ∧ u ^ (d * 2 ^ i) = -1

theorem exists_t {n : ℕ} (d c : ℕ) (hd : Odd d) (hc : 1 ≤ c) (hn : n - 1 = d * 2 ^ c) :
    ∃ (t : ℕ) (a₀ : (ZMod n)ˣ), 2 * t ∣ n - 1 ∧ a₀ ^ t = -1 ∧
      ∀ u : (ZMod n)ˣ, LiarU d c u → u ∈ P (dvd_refl n) t := by
  classical
  let Q : ℕ → Prop := fun i => ∃ u : (ZMod n)ˣ, u ^ (d * 2 ^ i) = -1
  have hQ0 : Q 0 := ⟨-1, by simp [hd.neg_one_pow]⟩
  have hspec : Q (Nat.findGreatest Q (c - 1)) := Nat.findGreatest_spec (Nat.zero_le _) hQ0
  have hle : Nat.findGreatest Q (c - 1) ≤ c - 1 := Nat.findGreatest_le _
  obtain ⟨a₀, ha₀⟩ := hspec
  set i₀ := Nat.findGreatest Q (c - 1) with hi₀
  refine ⟨d * 2 ^ i₀, a₀, ?_, ha₀, ?_⟩
  · rw [hn]
    have : c = (i₀ + 1) + (c - (i₀ + 1)) := by omega
    rw [this, pow_add, pow_succ]
    exact ⟨2 ^ (c - (i₀ + 1)), by ring⟩
  · intro u hu
    rw [mem_P_self]
    rcases hu with h | ⟨i, hi, h⟩
    · left; rw [pow_mul, h, one_pow]
    · have hii : i ≤ i₀ := Nat.le_findGreatest (by omega) ⟨u, h⟩
      have : d * 2 ^ i₀ = (d * 2 ^ i) * 2 ^ (i₀ - i) := by
        rw [mul_assoc, ← pow_add]; congr 2; omega
      rw [this, pow_mul, h]
      exact neg_one_pow_eq_or _ _

end NTV.RM
