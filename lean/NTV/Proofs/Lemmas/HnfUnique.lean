import Mathlib.Data.List.Sort
import Mathlib.Algebra.BigOperators.Group.Finset.Basic
import Mathlib.Algebra.Order.BigOperators.Group.Finset
import Mathlib.Tactic
open Finset
namespace NTV.HnfU

/-- HNF shape for a family of rows `h s : ℕ → ℤ` (s < pv.length), columns `< m`. -/
structure HnfF (h : ℕ → ℕ → ℤ) (m : ℕ) (pv : List ℕ) : Prop where
  incr : pv.Pairwise (· < ·)
  lt : ∀ p ∈ pv, p < m
  pos : ∀ s (hs : s < pv.length), 0 < h s pv[s]
  last : ∀ s (hs : s < pv.length), ∀ col, pv[s] < col → col < m → h s col = 0
  below : ∀ s (hs : s < pv.length), ∀ s', s < s' → s' < pv.length →
            0 ≤ h s' pv[s] ∧ h s' pv[s] < h s pv[s]

theorem HnfF.pv_lt {h m pv} (H : HnfF h m pv) {s s' : ℕ} (hs' : s' < pv.length) (h1 : s < s') :
    pv[s]'(by omega) < pv[s'] :=
  List.pairwise_iff_getElem.mp H.incr s s' (by omega) hs' h1

theorem maxidx (c : ℕ → ℤ) (T : ℕ) (hex : ∃ s < T, c s ≠ 0) :
    ∃ s, s < T ∧ c s ≠ 0 ∧ ∀ s', s < s' → s' < T → c s' = 0 := by
  induction T with
  | zero => obtain ⟨s, hs, _⟩ := hex; omega
  | succ T ih =>
    by_cases hT : c T = 0
    · obtain ⟨s, hs, hne⟩ := hex
      have : s ≠ T := fun e => hne (e ▸ hT)
      obtain ⟨s0, h1, h2, h3⟩ := ih ⟨s, by omega, hne⟩
      refine ⟨s0, by omega, h2, ?_⟩
      intro s' hs' hlt
      by_cases e : s' = T
      · rw [e]; exact hT
      · exact h3 s' hs' (by omega)
    · exact ⟨T, by omega, hT, fun s' h1 h2 => by omega⟩

/-- Value of a combination at the pivot column of its top row, and vanishing beyond it. -/
theorem topcoef {h m pv} (H : HnfF h m pv) (c : ℕ → ℤ) (s0 : ℕ) (hs : s0 < pv.length)
    (hmax : ∀ s, s0 < s → s < pv.length → c s = 0) :
    (∑ s ∈ range pv.length, c s * h s pv[s0]) = c s0 * h s0 pv[s0] ∧
    ∀ col, pv[s0] < col → col < m → (∑ s ∈ range pv.length, c s * h s col) = 0 := by
  constructor
  · rw [Finset.sum_eq_single s0]
    · intro s hsr hne
      have hsT : s < pv.length := by simpa using hsr
      rcases Nat.lt_or_gt_of_ne hne with hlt | hgt
      · have := H.last s hsT pv[s0] (H.pv_lt hs hlt) (H.lt _ (List.getElem_mem hs))
        rw [this]; ring
      · rw [hmax s hgt hsT]; ring
    · intro hn; exact absurd (by simpa using hs) hn
  · intro col hc hm
    apply Finset.sum_eq_zero
    intro s hsr
    have hsT : s < pv.length := by simpa using hsr
    rcases Nat.lt_or_ge s0 s with hgt | hle
    · rw [hmax s hgt hsT]; ring
    · have hp : pv[s] ≤ pv[s0] := by
        rcases Nat.eq_or_lt_of_le hle with e | hlt
        · subst e; exact le_refl _
        · exact le_of_lt (H.pv_lt hs hlt)
      rw [H.last s hsT col (by omega) hm]; ring

/-- A lattice vector with last non-zero entry at column `p` is led by the row whose pivot is `p`. -/
theorem pivot_match {h m pv} (H : HnfF h m pv) (v : ℕ → ℤ) (c : ℕ → ℤ)
    (hv : ∀ col < m, v col = ∑ s ∈ range pv.length, c s * h s col)
    (p : ℕ) (hp : p < m) (hvp : v p ≠ 0) (hvlast : ∀ col, p < col → col < m → v col = 0) :
    ∃ s0, ∃ hs : s0 < pv.length, pv[s0] = p ∧ v p = c s0 * h s0 p ∧
      ∀ s, s0 < s → s < pv.length → c s = 0 := by
  have hex : ∃ s < pv.length, c s ≠ 0 := by
    by_contra hcon
    simp only [not_exists, not_and, not_not] at hcon
    apply hvp; rw [hv p hp]
    apply Finset.sum_eq_zero; intro s hs; rw [hcon s (by simpa using hs)]; ring
  obtain ⟨s0, hs, hne, hmax⟩ := maxidx c pv.length hex
  obtain ⟨t1, t2⟩ := topcoef H c s0 hs hmax
  have hpm := H.lt _ (List.getElem_mem hs)
  have hval : v pv[s0] = c s0 * h s0 pv[s0] := by rw [hv _ hpm, t1]
  have hnz : v pv[s0] ≠ 0 := by rw [hval]; exact mul_ne_zero hne (ne_of_gt (H.pos s0 hs))
  have heq : pv[s0] = p := by
    rcases Nat.lt_trichotomy pv[s0] p with hlt | heq | hgt
    · exfalso; apply hvp; rw [hv p hp]; exact t2 p hlt hp
    · exact heq
    · exfalso; exact hnz (hvlast _ hgt hpm)
  refine ⟨s0, hs, heq, ?_, hmax⟩
  rw [← heq]; exact hval

end NTV.HnfU

namespace NTV.HnfU

theorem mem_of_span {h1 h2 m pv1 pv2} (H1 : HnfF h1 m pv1) (H2 : HnfF h2 m pv2)
    (h12 : ∀ r < pv2.length, ∃ c : ℕ → ℤ, ∀ col < m, h2 r col = ∑ s ∈ range pv1.length, c s * h1 s col) :
    ∀ p, p ∈ pv2 → p ∈ pv1 := by
  intro p hp
  obtain ⟨r, hr, rfl⟩ := List.mem_iff_getElem.mp hp
  obtain ⟨c, hc⟩ := h12 r hr
  obtain ⟨s0, hs, heq, _, _⟩ := pivot_match H1 (h2 r) c hc pv2[r] (H2.lt _ hp)
    (ne_of_gt (H2.pos r hr)) (H2.last r hr)
  rw [← heq]; exact List.getElem_mem hs

/-- With a common pivot list: the leading coefficient is 1 and pivots agree. -/
theorem lead_one {h1 h2 m pv} (H1 : HnfF h1 m pv) (H2 : HnfF h2 m pv)
    (h12 : ∀ r < pv.length, ∃ c : ℕ → ℤ, ∀ col < m, h2 r col = ∑ s ∈ range pv.length, c s * h1 s col)
    (h21 : ∀ r < pv.length, ∃ c : ℕ → ℤ, ∀ col < m, h1 r col = ∑ s ∈ range pv.length, c s * h2 s col)
    (r : ℕ) (hr : r < pv.length) :
    h1 r pv[r] = h2 r pv[r] ∧
    ∃ c : ℕ → ℤ, (∀ col < m, h2 r col = ∑ s ∈ range pv.length, c s * h1 s col) ∧ c r = 1 ∧
      ∀ s, r < s → s < pv.length → c s = 0 := by
  have hpm := H1.lt _ (List.getElem_mem hr)
  have inj : ∀ s0 (hs : s0 < pv.length), pv[s0] = pv[r] → s0 = r := by
    intro s0 hs he
    rcases Nat.lt_trichotomy s0 r with h | h | h
    · have := H1.pv_lt hr h; omega
    · exact h
    · have := H1.pv_lt hs h; omega
  obtain ⟨c, hc⟩ := h12 r hr
  obtain ⟨s0, hs, heq, hval, hmax⟩ := pivot_match H1 (h2 r) c hc pv[r] hpm
    (ne_of_gt (H2.pos r hr)) (H2.last r hr)
  have e0 := inj s0 hs heq; subst e0
  obtain ⟨c', hc'⟩ := h21 s0 hr
  obtain ⟨s1, hs1, heq1, hval1, _⟩ := pivot_match H2 (h1 s0) c' hc' pv[s0] hpm
    (ne_of_gt (H1.pos s0 hr)) (H1.last s0 hr)
  have e1 := inj s1 hs1 heq1; subst e1
  have p1 := H1.pos s1 hr
  have p2 := H2.pos s1 hr
  -- d2 = c d1, d1 = c' d2, all positive ⇒ c = 1
  have hc1 : c s1 = 1 := by
    have hcpos : 0 < c s1 := by
      by_contra hn
      have : c s1 * h1 s1 pv[s1] ≤ 0 := mul_nonpos_of_nonpos_of_nonneg (by omega) (le_of_lt p1)
      omega
    have hc'pos : 0 < c' s1 := by
      by_contra hn
      have : c' s1 * h2 s1 pv[s1] ≤ 0 := mul_nonpos_of_nonpos_of_nonneg (by omega) (le_of_lt p2)
      omega
    have hprod : c' s1 * c s1 = 1 := by
      have : h1 s1 pv[s1] = (c' s1 * c s1) * h1 s1 pv[s1] := by
        calc h1 s1 pv[s1] = c' s1 * h2 s1 pv[s1] := hval1
          _ = c' s1 * (c s1 * h1 s1 pv[s1]) := by rw [hval]
          _ = _ := by ring
      have h2' : (c' s1 * c s1 - 1) * h1 s1 pv[s1] = 0 := by linarith
      rcases mul_eq_zero.mp h2' with h | h
      · linarith
      · omega
    nlinarith [Int.eq_one_or_neg_one_of_mul_eq_one' hprod]
  refine ⟨by rw [hval, hc1]; ring, c, hc, hc1, hmax⟩

theorem hnf_unique_F {h1 h2 m pv1 pv2} (H1 : HnfF h1 m pv1) (H2 : HnfF h2 m pv2)
    (h12 : ∀ r < pv2.length, ∃ c : ℕ → ℤ, ∀ col < m, h2 r col = ∑ s ∈ range pv1.length, c s * h1 s col)
    (h21 : ∀ r < pv1.length, ∃ c : ℕ → ℤ, ∀ col < m, h1 r col = ∑ s ∈ range pv2.length, c s * h2 s col) :
    pv1 = pv2 ∧ ∀ r < pv1.length, ∀ col < m, h1 r col = h2 r col := by
  have hpv : pv1 = pv2 := List.Pairwise.eq_of_mem_iff H1.incr H2.incr
    (fun p => ⟨mem_of_span H2 H1 h21 p, mem_of_span H1 H2 h12 p⟩)
  subst hpv
  refine ⟨rfl, ?_⟩
  intro r hr col hcol
  obtain ⟨_, c, hc, hc1, hmax⟩ := lead_one H1 H2 h12 h21 r hr
  -- difference coefficients
  set c2 : ℕ → ℤ := fun s => c s - (if s = r then 1 else 0) with hc2
  have hdiff : ∀ col < m, h2 r col - h1 r col = ∑ s ∈ range pv1.length, c2 s * h1 s col := by
    intro col hcol
    rw [hc col hcol]
    have : h1 r col = ∑ s ∈ range pv1.length, (if s = r then (1:ℤ) else 0) * h1 s col := by
      rw [Finset.sum_eq_single r]
      · simp
      · intro b _ hb; simp [hb]
      · intro hn; exact absurd (by simpa using hr) hn
    rw [this, ← Finset.sum_sub_distrib]
    apply Finset.sum_congr rfl; intro s _; simp only [hc2]; ring
  have hzero_hi : ∀ s, r ≤ s → s < pv1.length → c2 s = 0 := by
    intro s hs hT
    simp only [hc2]
    rcases Nat.eq_or_lt_of_le hs with e | hlt
    · subst e; simp [hc1]
    · have : ¬ s = r := by omega
      simp [this, hmax s hlt hT]
  have hall : ∀ s < pv1.length, c2 s = 0 := by
    by_contra hcon
    simp only [not_forall] at hcon
    obtain ⟨s, hs, hne⟩ := hcon
    obtain ⟨s0, hs0, hne0, hmax0⟩ := maxidx c2 pv1.length ⟨s, hs, hne⟩
    have hs0r : s0 < r := by
      by_contra hge; exact hne0 (hzero_hi s0 (by omega) hs0)
    obtain ⟨t1, _⟩ := topcoef H1 c2 s0 hs0 hmax0
    have hpm := H1.lt _ (List.getElem_mem hs0)
    have hd := hdiff pv1[s0] hpm
    rw [t1] at hd
    obtain ⟨hpe, _⟩ := lead_one H1 H2 h12 h21 s0 hs0
    have b1 := H1.below s0 hs0 r hs0r hr
    have b2 := H2.below s0 hs0 r hs0r hr
    have p1 := H1.pos s0 hs0
    -- |c2 s0 * d| ≥ d but |difference| < d
    have habs : (c2 s0 * h1 s0 pv1[s0]).natAbs ≥ (h1 s0 pv1[s0]).natAbs := by
      rw [Int.natAbs_mul]
      exact Nat.le_mul_of_pos_left _ (by omega)
    rw [← hd] at habs
    omega
  have := hdiff col hcol
  rw [Finset.sum_eq_zero (fun s hs => by rw [hall s (by simpa using hs)]; ring)] at this
  omega

end NTV.HnfU
