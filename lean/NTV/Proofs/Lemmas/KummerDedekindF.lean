import NTV.Proofs.Lemmas.KummerDedekindE
import NTV.Proofs.Lemmas.HnfDet
import Mathlib.LinearAlgebra.FreeModule.Finite.CardQuotient
/-! # Kummer–Dedekind, part F: `Ideal::norm` (the determinant of the normal form) of a full-rank ideal is the
index of its lattice in ℤⁿ. -/
namespace NTV.KD
open NTV.IdealP NTV.Hnf Matrix Finset

/-- a full-rank normal form is lower triangular with a positive diagonal: the reported determinant is `det` -/
theorem det_of_full_hnf {n : Nat} (hn : 0 < n) {P : Mat} {pv : List Nat} (hW : Wid n P) (hH : IsHNF P n pv)
    (hfull : P.length = n) :
    determinant P = (toM n n P).det ∧ 0 < (toM n n P).det := by
  have hpvlen : pv.length = n := by rw [hH.len, hfull]
  have hpv := pairwise_lt_eq_id pv n hpvlen hH.incr hH.lt
  have hlow : ∀ i j : Fin n, i.val < j.val → toM n n P i j = 0 := by
    intro i j hij
    have hi : i.val < pv.length := by rw [hpvlen]; exact i.isLt
    have := hH.last i.val hi j.val (by rw [hpv i.val hi]; exact hij) j.isLt
    simpa [toM] using this
  have hdiag : ∀ i : Fin n, 0 < toM n n P i i := by
    intro i
    have hi : i.val < pv.length := by rw [hpvlen]; exact i.isLt
    have := hH.pos i.val hi
    rw [hpv i.val hi] at this
    simpa [toM] using this
  have hdetH : (toM n n P).det = ∏ i : Fin n, toM n n P i i := by
    apply det_of_isLowerTriangular
    intro i j hij
    exact hlow i j hij
  have hmodel : determinant P = ∏ i : Fin n, toM n n P i i := by
    have hdim : dim P = deg P := by
      unfold dim deg
      cases hP : P with
      | nil => rw [hP] at hfull; simp at hfull; omega
      | cons r rs =>
        have h1 : (r :: rs).length = n := by rw [← hP]; exact hfull
        have h2 : r.length = n := hW r (by rw [hP]; simp)
        simp only; omega
    unfold determinant
    simp only [hdim, ne_eq, not_true_eq_false, ↓reduceIte]
    rw [foldl_mul_eq_prod (fun i => ent P i i) P.length, hfull,
      ← Fin.prod_univ_eq_prod_range (fun i => ent P i i) n]
    rfl
  refine ⟨by rw [hmodel, hdetH], ?_⟩
  rw [hdetH]; exact Finset.prod_pos (fun i _ => hdiag i)

/-- **norm = index**: for a full-rank ideal in normal form, `Ideal::norm` is `[ℤⁿ : L(P)]` -/
theorem norm_eq_card {n : Nat} (hn : 0 < n) {P : Mat} (hP : IsNF n P) (hfull : P.length = n) :
    0 < NTV.Ideal.norm P ∧ (NTV.Ideal.norm P).natAbs = Nat.card ((Fin n → ℤ) ⧸ Lat n P) := by
  obtain ⟨X, hX, hXP⟩ := hP
  obtain ⟨hW, ⟨pv, hH⟩, _⟩ := ideal_hnfNew_spec hX hn hXP
  obtain ⟨h1, h2⟩ := det_of_full_hnf hn hW hH hfull
  unfold NTV.Ideal.norm
  refine ⟨by rw [h1]; exact h2, ?_⟩
  rw [h1]
  have hli : LinearIndependent ℤ (fun i : Fin n => toM n n P i) :=
    Matrix.linearIndependent_rows_of_det_ne_zero (ne_of_gt h2)
  have hLat : Lat n P = Submodule.span ℤ (Set.range (fun i : Fin n => toM n n P i)) := by
    unfold Lat; rw [image_rows_eq_range hfull]
  rw [hLat]
  rw [← Submodule.natAbs_det_basis_change (Pi.basisFun ℤ (Fin n)) _ (Module.Basis.span hli)]
  congr 1
  rw [Pi.basisFun_det_apply]
  congr 1
  ext i j
  simp only [Function.comp, Module.Basis.span_apply, Matrix.of_apply]

/-! ### indices in `Rt T` and in ℤⁿ -/

variable {t : NTV.Ord.Table} {n : Nat} (T : TableRing t n)

/-- the index of an ideal of `Rt T` is the index of its lattice -/
theorem card_quot_latOf (J : Ideal (Rt T)) :
    Nat.card ((Fin n → ℤ) ⧸ latOf T J) = Nat.card (Rt T ⧸ J) := by
  have e1 : (Rt T ⧸ J.restrictScalars ℤ) ≃ₗ[ℤ] (Fin n → ℤ) ⧸ latOf T J :=
    Submodule.Quotient.equiv (J.restrictScalars ℤ) (latOf T J) (toVec T) rfl
  have e2 : (Rt T ⧸ J.restrictScalars ℤ) ≃ₗ[ℤ] Rt T ⧸ J := Submodule.Quotient.restrictScalarsEquiv ℤ J
  rw [← Nat.card_congr e1.toEquiv, Nat.card_congr e2.toEquiv]

/-- `x ∈ p·Rt T ⇔ x ∈ pℤⁿ` -/
theorem mem_span_p_iff (p : ℕ) (x : Rt T) :
    x ∈ Ideal.span {(p : Rt T)} ↔ ∃ y : Fin n → ℤ, toVec T x = (p : ℤ) • y := by
  rw [Ideal.mem_span_singleton]
  constructor
  · rintro ⟨y, rfl⟩
    refine ⟨toVec T y, ?_⟩
    rw [← map_zsmul, natCast_zsmul, nsmul_eq_mul]
  · rintro ⟨y, hy⟩
    refine ⟨ofVec T y, ?_⟩
    apply (toVec T).injective
    rw [hy, ← nsmul_eq_mul, ← natCast_zsmul, map_zsmul]
    rfl

theorem latOf_span_p (p : ℕ) (v : Fin n → ℤ) :
    v ∈ latOf T (Ideal.span {(p : Rt T)}) ↔ ∃ y : Fin n → ℤ, v = (p : ℤ) • y := by
  rw [mem_latOf, mem_span_p_iff]
  rfl

end NTV.KD
