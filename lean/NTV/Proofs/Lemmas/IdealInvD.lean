import NTV.Proofs.Lemmas.IdealInvC
import NTV.Proofs.Lemmas.LinAlgProofs
/-! # `Ideal::inv`, part D: the model `NTV.Ideal.inv` step by step.

For a table ring with non-singular trace form, `(d, H)` the output of `get_inv_diff` and `I` a normal form with `n`
rows: no step of `inv` panics (the product `C = I·H` has `n` rows, the matrix `tc = Tr · Cᵀ` is non-singular, the
quotient `(a·d) · tc⁻¹` is integral) and the returned numerator `N` has the colon lattice
`{v | v ⋆ L(I) ⊆ a·ℤⁿ}`. -/
open Matrix
namespace NTV.IdealInv
open NTV.IdealP NTV.Hnf NTV.Ord Finset
open NTV.InvDiff (traceMatrix)
open NTV.Ideal (capZ mul getInvDiff)

/-- the matrix `tc` built by `inv`: `tc[ii][jj] = trace(ω_ii · c_jj)` -/
def tcList (t : Table) (n : Nat) (C : Mat) : Mat :=
  (List.range n).map (fun ii => (List.range n).map (fun jj =>
    tau t n (vec n (tmulV t (NTV.Ideal.unit n ii) (C.getD jj [])))))

/-- the matrix `ad` built by `inv`: `m` times the identity -/
def adList (n : Nat) (m : ℤ) : Mat :=
  (List.range n).map (fun ii => (List.range n).map (fun jj => if ii = jj then m else 0))

theorem tcList_rect (t : Table) (n : Nat) (C : Mat) : NTV.RowOps.Rect n n (tcList t n C) := by
  refine ⟨by simp [tcList], ?_⟩
  intro r hr
  simp only [tcList, List.mem_map, List.mem_range] at hr
  obtain ⟨i, _, rfl⟩ := hr
  simp

theorem adList_rect (n : Nat) (m : ℤ) : NTV.RowOps.Rect n n (adList n m) := by
  refine ⟨by simp [adList], ?_⟩
  intro r hr
  simp only [adList, List.mem_map, List.mem_range] at hr
  obtain ⟨i, _, rfl⟩ := hr
  simp

theorem toM_adList (n : Nat) (m : ℤ) :
    NTV.RowOps.toM n n (adList n m) = m • (1 : Matrix (Fin n) (Fin n) ℤ) := by
  ext i j
  simp only [NTV.RowOps.toM, NTV.RowOps.ent, adList, List.getD_eq_getElem?_getD, List.getElem?_map,
    List.getElem?_range i.isLt, List.getElem?_range j.isLt, Option.map_some, Option.getD_some,
    Matrix.smul_apply, Matrix.one_apply, smul_eq_mul]
  by_cases h : i = j
  · simp [h]
  · have : i.val ≠ j.val := fun h' => h (Fin.ext h')
    simp [h, this]

theorem toM_tcList {t : Table} {n : Nat} (C : Mat) :
    NTV.RowOps.toM n n (tcList t n C) = traceMatrix t n * (NTV.Hnf.toM n n C)ᵀ := by
  ext i j
  have h1 : NTV.RowOps.toM n n (tcList t n C) i j
      = tau t n (vec n (tmulV t (NTV.Ideal.unit n i.val) (C.getD j.val []))) := by
    simp only [NTV.RowOps.toM, NTV.RowOps.ent, tcList, List.getD_eq_getElem?_getD, List.getElem?_map,
      List.getElem?_range i.isLt, List.getElem?_range j.isLt, Option.map_some, Option.getD_some]
  rw [h1, vec_tmulV (unit_length n i.val), vec_unit, ← toM_row]
  have h2 := vecMul_tc (t := t) C (e n i) j
  rw [show e n i = Pi.single i 1 from rfl, single_one_vecMul] at h2
  exact h2.symm

/-- the loop building `tc` never panics when `C` has `n` rows of length `n` -/
theorem tc_ok {t : Table} {n : Nat} {C : Mat} (ht : t.length = n) (hW : Wid n C) (hlen : C.length = n) :
    (List.range n).mapM (fun ii => (List.range n).mapM (fun jj => do
      let cj ← NTV.Ord.idx C jj
      let prod ← NTV.Ord.tmul t (NTV.Ideal.unit n ii) cj
      NTV.Ord.ttrace t prod)) = .ok (tcList t n C) := by
  unfold tcList
  apply NTV.IdealP.mapM_ok
  intro ii _
  apply NTV.IdealP.mapM_ok
  intro jj hjj
  have hj : jj < C.length := by rw [hlen]; exact List.mem_range.mp hjj
  have hrow : (C[jj]).length = n := hW _ (List.getElem_mem hj)
  have hget : C.getD jj [] = C[jj] := by simp [List.getD_eq_getElem?_getD, List.getElem?_eq_getElem hj]
  rw [idx_ok C jj hj]
  simp only [bind, Except.bind]
  rw [tmul_eq ht (unit_length n ii) hrow]
  simp only []
  rw [ttrace_eq_tau ht (by rw [tmulV_length, unit_length]), hget]

/-- shape of the result of the exact right division -/
theorem mulInv_rect {A B C : NTV.LinAlg.IMat} {n : Nat} (hn : 0 < n) (hA : NTV.RowOps.Rect n n A)
    (hB : NTV.RowOps.Rect n n B) (h : NTV.LinAlg.mulInvFromRightExact A B = .ok C) : NTV.RowOps.Rect n n C := by
  have hn0 : n ≠ 0 := by omega
  unfold NTV.LinAlg.mulInvFromRightExact at h
  simp only [NTV.LinAlg.isRect_of_rectZ hA, NTV.LinAlg.isRect_of_rectZ hB, hA.1, hB.1,
    NTV.LinAlg.width_of_rectZ hA, NTV.LinAlg.width_of_rectZ hB,
    Bool.and_self, Bool.not_true, Bool.false_eq_true, if_false, hn0, lt_irrefl, decide_false,
    Bool.or_self] at h
  cases hinv : NTV.LinAlg.invSquare (NTV.LinAlg.toRatPrefix n B) with
  | none => rw [hinv] at h; simp at h
  | some invb =>
    rw [hinv] at h
    simp only at h
    have hrs := NTV.LinAlg.rect_quotSums hA invb
    split at h
    · simp only [Except.ok.injEq] at h
      subst h
      refine ⟨by simpa [NTV.LinAlg.toInts] using hrs.1, ?_⟩
      intro r hr
      simp only [NTV.LinAlg.toInts, List.mem_map] at hr
      obtain ⟨r0, h0, rfl⟩ := hr
      simpa using hrs.2 r0 h0
    · simp at h

/-- `inv` once its intermediate values are known -/
theorem inv_ok_of {t : Table} {n : Nat} {I H C Dl N : Mat} {d a : ℤ} (ht : t.length = n) (hcap : capZ I = .ok a)
    (hmul : mul t I H = .ok C) (hW : Wid n C) (hlen : C.length = n)
    (hdiv : NTV.LinAlg.mulInvFromRightExact (adList n (a * d)) (tcList t n C) = .ok Dl)
    (hN : NTV.Ideal.hnfNew Dl = .ok N) : NTV.Ideal.inv t I (d, H) = .ok (a, N) := by
  have h := tc_ok ht hW hlen
  unfold NTV.Ideal.inv
  rw [ht]
  simp only [bind, Except.bind, pure, Except.pure] at h ⊢
  rw [hcap]
  simp only [hmul]
  rw [h]
  simp only []
  have : (List.map (fun ii => List.map (fun jj => if ii = jj then a * d else 0) (List.range n)) (List.range n))
      = adList n (a * d) := rfl
  rw [this, hdiv]
  simp only [hN]

/-- **what `inv` computes** -/
theorem inv_spec {t : Table} {n : Nat} (T : TableRing t n) {d : ℤ} {H : Mat} (hD : getInvDiff t = .ok (d, H))
    {I₀ I : Mat} (hI₀ : Wid n I₀) (hnf : NTV.Ideal.hnfNew I₀ = .ok I) (hfull : I.length = n) :
    ∃ a C N, capZ I = .ok a ∧ 0 < a ∧ (∀ z : ℤ, z • e n ⟨0, T.pos⟩ ∈ Lat n I ↔ a ∣ z) ∧
      mul t I H = .ok C ∧ C.length = n ∧ Wid n C ∧
      NTV.Ideal.inv t I (d, H) = .ok (a, N) ∧ Wid n N ∧ N.length = n ∧ (∃ pv, IsHNF N n pv) ∧
      NTV.Ideal.hnfNew N = .ok N ∧
      (∀ v, v ∈ Lat n N ↔ ∀ c ∈ Lat n C, a * d ∣ trForm t n v c) ∧
      (∀ v, v ∈ Lat n N ↔ ∀ x ∈ Lat n I, ∃ y : Fin n → ℤ, star t n v x = a • y) := by
  have D : DualData t n d H := dualData_of_getInvDiff ⟨T.len, T.shape⟩ T.pos hD
  obtain ⟨hWI, ⟨pvI, hHI⟩, _⟩ := ideal_hnfNew_spec hI₀ T.pos hnf
  obtain ⟨a, hcap, hapos, haz⟩ := capZ_core T.pos hWI hHI hfull
  have haI : a • e n ⟨0, T.pos⟩ ∈ Lat n I := (haz a).mpr (dvd_refl a)
  obtain ⟨C, hmul, hWC, ⟨pvC, hHC⟩, hLC⟩ := mul_total T.len T.pos hWI D.wid
  obtain ⟨hlenC, hdetM, ⟨Dm₀, hDm₀⟩, hall⟩ := inv_lattice_core T D hapos haI hLC hWC hHC
  have hn := T.pos
  have hrA := adList_rect n (a * d)
  have hrB := tcList_rect t n C
  obtain ⟨hok, herr⟩ := NTV.LinAlg.mulInv_spec (adList n (a * d)) (tcList t n C) n hn hrA hrB
  have hBm : NTV.LinAlg.toMZ n (tcList t n C) = traceMatrix t n * (NTV.Hnf.toM n n C)ᵀ := toM_tcList C
  have hAm : NTV.LinAlg.toMZ n (adList n (a * d)) = (a * d) • (1 : Matrix (Fin n) (Fin n) ℤ) := toM_adList n _
  cases hdiv : NTV.LinAlg.mulInvFromRightExact (adList n (a * d)) (tcList t n C) with
  | error e =>
    rcases herr e hdiv with ⟨_, h0⟩ | ⟨_, hno⟩
    · rw [hBm] at h0; exact absurd h0 hdetM
    · exact absurd ⟨Dm₀, by rw [hBm, hAm]; exact hDm₀⟩ hno
  | ok Dl =>
    have hDl := hok Dl hdiv
    rw [hBm, hAm] at hDl
    have hrD : NTV.RowOps.Rect n n Dl := mulInv_rect hn hrA hrB hdiv
    have hWD : Wid n Dl := hrD.2
    obtain ⟨N, pvN, hN, hWN, hHN, hLN⟩ := ideal_hnfNew_total hWD hn
    have hdetD : (NTV.Hnf.toM n n Dl).det ≠ 0 :=
      det_ne_zero_of_mul_eq_smul_one _ _ (a * d) (mul_ne_zero (ne_of_gt hapos) (ne_of_gt D.dpos)) hDl
    have hNlen : N.length = n := (hnfNew_square ⟨hrD.1, hrD.2⟩ hn hdetD (ideal_hnfNew_ok.mp hN)).1
    have hmem : ∀ v, v ∈ Lat n N ↔ ∃ k : Fin n → ℤ, k ᵥ* NTV.Hnf.toM n n Dl = v := by
      intro v
      rw [hLN, mem_Lat_iff (n := n) hrD.1]
      rfl
    refine ⟨a, C, N, hcap, hapos, haz, hmul, hlenC, hWC, inv_ok_of T.len hcap hmul hWC hlenC hdiv hN, hWN, hNlen,
      ⟨pvN, hHN⟩, ideal_hnfNew_idem hWD hn hN, ?_, ?_⟩
    · intro v; rw [hmem]; exact (hall _ hDl v).1
    · intro v; rw [hmem]; exact (hall _ hDl v).2

end NTV.IdealInv
