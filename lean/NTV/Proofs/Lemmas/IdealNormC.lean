import NTV.Proofs.Lemmas.IdealNormA
import Mathlib.RingTheory.Ideal.Norm.AbsNorm
/-! # Ideal norm, part C: the commutative ring `RT T` defined by a multiplication table on ℤⁿ, ideals of the
order as `Ideal (RT T)`, the model's norm as `Ideal.absNorm`, and multiplicativity of the norm when `RT T` is
a Dedekind domain. -/
namespace NTV.IdealP
open NTV.Hnf NTV.Ord Finset

/-- the ring defined by the table `t`: ℤⁿ with the product `⋆` and the identity `e_0` -/
def RT {t : Table} {n : Nat} (_T : TableRing t n) : Type := Fin n → ℤ

namespace RT
variable {t : Table} {n : Nat} (T : TableRing t n)

theorem star_zero_left (y : Fin n → ℤ) : star t n 0 y = 0 := by
  funext k; simp [star]

theorem star_zero_right (x : Fin n → ℤ) : star t n x 0 = 0 := by
  funext k; simp [star]

instance instCommRing : CommRing (RT T) :=
  { (Pi.addCommGroup : AddCommGroup (Fin n → ℤ)) with
    mul := star t n
    one := e n ⟨0, T.pos⟩
    mul_assoc := T.star_assoc
    mul_comm := T.star_comm
    one_mul := T.one_star
    mul_one := T.star_one
    left_distrib := star_add_right t n
    right_distrib := star_add_left t n
    zero_mul := star_zero_left
    mul_zero := star_zero_right
    natCast := fun k => (k : ℤ) • e n ⟨0, T.pos⟩
    natCast_zero := by
      show ((0 : ℕ) : ℤ) • e n ⟨0, T.pos⟩ = (0 : Fin n → ℤ)
      simp
    natCast_succ := fun k => by
      show ((k + 1 : ℕ) : ℤ) • e n ⟨0, T.pos⟩ = ((k : ℤ) • e n ⟨0, T.pos⟩ + e n ⟨0, T.pos⟩ : Fin n → ℤ)
      rw [Nat.cast_succ, add_smul, one_smul]
    intCast := fun z => z • e n ⟨0, T.pos⟩
    intCast_ofNat := fun k => rfl
    intCast_negSucc := fun k => by
      show (Int.negSucc k) • e n ⟨0, T.pos⟩ = (-(((k + 1 : ℕ) : ℤ) • e n ⟨0, T.pos⟩) : Fin n → ℤ)
      rw [Int.negSucc_eq, neg_smul]
      norm_cast }

/-- the underlying vector of an element (the identity map) -/
def toVecAdd : RT T ≃+ (Fin n → ℤ) where
  toFun := fun x => x
  invFun := fun x => x
  left_inv := fun _ => rfl
  right_inv := fun _ => rfl
  map_add' := fun _ _ => rfl

/-- the underlying vector of an element (the identity map), as a ℤ-linear equivalence -/
def toVec : RT T ≃ₗ[ℤ] (Fin n → ℤ) := (toVecAdd T).toIntLinearEquiv

/-- an element from its coordinate vector -/
def ofVec (v : Fin n → ℤ) : RT T := v

@[simp] theorem toVec_ofVec (v : Fin n → ℤ) : toVec T (ofVec T v) = v := rfl
@[simp] theorem ofVec_toVec (x : RT T) : ofVec T (toVec T x) = x := rfl

theorem toVec_mul (x y : RT T) : toVec T (x * y) = star t n (toVec T x) (toVec T y) := rfl
theorem toVec_one : toVec T 1 = e n ⟨0, T.pos⟩ := rfl
theorem ofVec_star (x y : Fin n → ℤ) : ofVec T (star t n x y) = ofVec T x * ofVec T y := rfl

instance instFree : Module.Free ℤ (RT T) := Module.Free.of_equiv (toVec T).symm
instance instFinite : Module.Finite ℤ (RT T) := Module.Finite.equiv (toVec T).symm
instance instNontrivial : Nontrivial (RT T) := by
  have : Nontrivial (Fin n → ℤ) := by
    have : Nonempty (Fin n) := ⟨⟨0, T.pos⟩⟩
    infer_instance
  exact (toVec T).toEquiv.nontrivial

theorem finrank_eq : Module.finrank ℤ (RT T) = n := by
  rw [(toVec T).finrank_eq]; simp

/-- the ideal of `RT T` whose elements are those of a lattice closed under the order -/
def idealOf (L : Submodule ℤ (Fin n → ℤ)) (h : ∀ a : Fin n → ℤ, ∀ v ∈ L, star t n a v ∈ L) : Ideal (RT T) where
  carrier := {x | toVec T x ∈ L}
  add_mem' := fun {a b} ha hb => by
    show toVec T (a + b) ∈ L
    rw [map_add]; exact L.add_mem ha hb
  zero_mem' := by
    show toVec T 0 ∈ L
    rw [map_zero]; exact L.zero_mem
  smul_mem' := fun a v hv => h (toVec T a) (toVec T v) hv

theorem mem_idealOf {L : Submodule ℤ (Fin n → ℤ)} {h : ∀ a : Fin n → ℤ, ∀ v ∈ L, star t n a v ∈ L}
    {x : RT T} : x ∈ idealOf T L h ↔ toVec T x ∈ L := Iff.rfl

theorem map_idealOf (L : Submodule ℤ (Fin n → ℤ)) (h : ∀ a : Fin n → ℤ, ∀ v ∈ L, star t n a v ∈ L) :
    ((idealOf T L h).restrictScalars ℤ).map ((toVec T : RT T ≃ₗ[ℤ] (Fin n → ℤ)) : RT T →ₗ[ℤ] (Fin n → ℤ)) = L := by
  ext v
  simp only [Submodule.mem_map, Submodule.restrictScalars_mem, LinearEquiv.coe_coe]
  constructor
  · rintro ⟨x, hx, rfl⟩; exact hx
  · intro hv; exact ⟨ofVec T v, hv, rfl⟩

theorem idealOf_congr {L L' : Submodule ℤ (Fin n → ℤ)} (hLL : L = L')
    (h : ∀ a : Fin n → ℤ, ∀ v ∈ L, star t n a v ∈ L) (h' : ∀ a : Fin n → ℤ, ∀ v ∈ L', star t n a v ∈ L') :
    idealOf T L h = idealOf T L' h' := by
  subst hLL; rfl

/-- the quotient of the ring by the ideal and the quotient of ℤⁿ by the lattice have the same number of
elements -/
theorem card_quot_idealOf (L : Submodule ℤ (Fin n → ℤ)) (h : ∀ a : Fin n → ℤ, ∀ v ∈ L, star t n a v ∈ L) :
    Nat.card (RT T ⧸ idealOf T L h) = Nat.card ((Fin n → ℤ) ⧸ L) := by
  have e := Submodule.Quotient.equiv ((idealOf T L h).restrictScalars ℤ) L (toVec T) (map_idealOf T L h)
  exact Nat.card_congr e.toEquiv

theorem cardQuot_idealOf (L : Submodule ℤ (Fin n → ℤ)) (h : ∀ a : Fin n → ℤ, ∀ v ∈ L, star t n a v ∈ L) :
    Submodule.cardQuot (idealOf T L h) = Nat.card ((Fin n → ℤ) ⧸ L) := by
  rw [Submodule.cardQuot_apply, card_quot_idealOf]

/-- the product of ideals is the ℤ-span of the products -/
theorem idealOf_map₂ (L M : Submodule ℤ (Fin n → ℤ)) (hL : ∀ a : Fin n → ℤ, ∀ v ∈ L, star t n a v ∈ L)
    (hM : ∀ a : Fin n → ℤ, ∀ v ∈ M, star t n a v ∈ M)
    (hLM : ∀ a : Fin n → ℤ, ∀ v ∈ Submodule.map₂ (starB t n) L M, star t n a v ∈ Submodule.map₂ (starB t n) L M) :
    idealOf T (Submodule.map₂ (starB t n) L M) hLM = idealOf T L hL * idealOf T M hM := by
  apply le_antisymm
  · intro x hx
    rw [mem_idealOf] at hx
    have hle : Submodule.map₂ (starB t n) L M ≤
        ((idealOf T L hL * idealOf T M hM).restrictScalars ℤ).map
          ((toVec T : RT T ≃ₗ[ℤ] (Fin n → ℤ)) : RT T →ₗ[ℤ] (Fin n → ℤ)) := by
      rw [Submodule.map₂_le]
      intro a ha b hb
      refine ⟨ofVec T a * ofVec T b, ?_, rfl⟩
      exact Ideal.mul_mem_mul (show ofVec T a ∈ idealOf T L hL from ha) (show ofVec T b ∈ idealOf T M hM from hb)
    obtain ⟨y, hy, hxy⟩ := hle hx
    have : y = x := (toVec T).injective hxy
    rw [← this]; exact hy
  · rw [Ideal.mul_le]
    intro r hr s hs
    rw [mem_idealOf, toVec_mul]
    exact Submodule.apply_mem_map₂ (starB t n) hr hs

/-- "maximal order": a table ring that is a domain and integrally closed (in its field of fractions) is a
Dedekind domain (it is Noetherian and of dimension ≤ 1 because it is a finite ℤ-module) -/
theorem isDedekindDomain_of_integrallyClosed [IsDomain (RT T)] [IsIntegrallyClosed (RT T)] :
    IsDedekindDomain (RT T) := by
  have h1 : IsNoetherian ℤ (RT T) := isNoetherian_of_isNoetherianRing_of_finite ℤ (RT T)
  have h2 : IsNoetherianRing (RT T) := isNoetherian_of_tower ℤ h1
  have h3 : Algebra.IsIntegral ℤ (RT T) := Algebra.IsIntegral.of_finite ℤ (RT T)
  have h4 : Ring.DimensionLEOne (RT T) := Ring.DimensionLEOne.of_isIntegral ℤ (RT T)
  exact { }

end RT

/-! ### ideals of the order as ideals of `RT T` -/

section
variable {t : Table} {n : Nat} (T : TableRing t n)

/-- the ideal of `RT T` given by an O-ideal in matrix form -/
def toIdeal (I : Mat) (oI : IsOIdeal t n I) : Ideal (RT T) := RT.idealOf T (Lat n I) (fun a v hv => oI a v hv)

theorem mem_toIdeal {I : Mat} {oI : IsOIdeal t n I} {x : RT T} :
    x ∈ toIdeal T I oI ↔ RT.toVec T x ∈ Lat n I := Iff.rfl

/-- the model's norm of a full-rank ideal in normal form is the number of elements of `RT T ⧸ I` -/
theorem norm_eq_cardQuot {I : Mat} {pv : List Nat} (hW : Wid n I) (hH : IsHNF I n pv) (hfull : I.length = n)
    (oI : IsOIdeal t n I) : NTV.Ideal.norm I = (Submodule.cardQuot (toIdeal T I oI) : ℤ) := by
  rw [(norm_eq_card T.pos hW hH hfull).2, toIdeal, RT.cardQuot_idealOf]

/-- the ideal of the product is the product of the ideals -/
theorem toIdeal_mul {I J P : Mat} (hI : Wid n I) (hJ : Wid n J) (oI : IsOIdeal t n I) (oJ : IsOIdeal t n J)
    (h : NTV.Ideal.mul t I J = .ok P) (oP : IsOIdeal t n P) :
    toIdeal T P oP = toIdeal T I oI * toIdeal T J oJ := by
  obtain ⟨_, _, hL⟩ := mul_spec T.len T.pos hI hJ h
  have hLM : ∀ a : Fin n → ℤ, ∀ v ∈ Submodule.map₂ (starB t n) (Lat n I) (Lat n J),
      star t n a v ∈ Submodule.map₂ (starB t n) (Lat n I) (Lat n J) := by
    intro a v hv; rw [← hL] at hv ⊢; exact oP a v hv
  unfold toIdeal
  rw [← RT.idealOf_map₂ T (Lat n I) (Lat n J) (fun a v hv => oI a v hv) (fun a v hv => oJ a v hv) hLM]
  exact RT.idealOf_congr T hL _ _

include T in
/-- the product of two full-rank ideals has full rank (any table ring: it contains `N(I)·N(J)·ℤⁿ`) -/
theorem mul_full_rank {I J P : Mat} {pvI pvJ : List Nat} (hI : Wid n I) (hJ : Wid n J)
    (hHI : IsHNF I n pvI) (hHJ : IsHNF J n pvJ) (fI : I.length = n) (fJ : J.length = n)
    (h : NTV.Ideal.mul t I J = .ok P) : P.length = n := by
  obtain ⟨_, ⟨pv, hHP⟩, hL⟩ := mul_spec T.len T.pos hI hJ h
  have hpI := (norm_eq_card T.pos hI hHI fI).1
  have hpJ := (norm_eq_card T.pos hJ hHJ fJ).1
  apply NTV.DecompP.full_rank hHP (NTV.Ideal.norm I * NTV.Ideal.norm J) (by positivity)
  intro y
  have h1 := norm_smul_mem T.pos hI hHI fI (e n ⟨0, T.pos⟩)
  have h2 := norm_smul_mem T.pos hJ hHJ fJ y
  have := Submodule.apply_mem_map₂ (starB t n) h1 h2
  rw [← hL, starB_apply, star_smul_left, star_smul_right, T.one_star, smul_smul] at this
  exact this

/-- **multiplicativity of the norm**, under the hypothesis that the ring of the table is a Dedekind domain
(what a maximal order provides) -/
theorem norm_mul_core [IsDedekindDomain (RT T)] {I J : Mat} {pvI pvJ : List Nat} (hI : Wid n I) (hJ : Wid n J)
    (hHI : IsHNF I n pvI) (hHJ : IsHNF J n pvJ) (fI : I.length = n) (fJ : J.length = n)
    (oI : IsOIdeal t n I) (oJ : IsOIdeal t n J) :
    ∃ P, NTV.Ideal.mul t I J = .ok P ∧ P.length = n ∧ Wid n P ∧ IsOIdeal t n P ∧
      NTV.Ideal.norm P = NTV.Ideal.norm I * NTV.Ideal.norm J := by
  obtain ⟨P, h, hP, ⟨pv, hHP⟩, hL⟩ := mul_total T.len T.pos hI hJ
  have oP : IsOIdeal t n P := isOIdeal_of_lat_mul T hL oI
  have fP := mul_full_rank T hI hJ hHI hHJ fI fJ h
  refine ⟨P, h, fP, hP, oP, ?_⟩
  rw [norm_eq_cardQuot T hP hHP fP oP, norm_eq_cardQuot T hI hHI fI oI, norm_eq_cardQuot T hJ hHJ fJ oJ,
    toIdeal_mul T hI hJ oI oJ h oP, cardQuot_mul, Nat.cast_mul]

/-- the model's norm is Mathlib's absolute norm -/
theorem norm_eq_absNorm [IsDedekindDomain (RT T)] {I : Mat} {pv : List Nat} (hW : Wid n I) (hH : IsHNF I n pv)
    (hfull : I.length = n) (oI : IsOIdeal t n I) :
    NTV.Ideal.norm I = (Ideal.absNorm (toIdeal T I oI) : ℤ) := by
  rw [Ideal.absNorm_apply]; exact norm_eq_cardQuot T hW hH hfull oI

end

end NTV.IdealP
