import NTV.Proofs.Lemmas.Round2RingG
/-! Round 2: the semantics of a whole `one_step`. For an order `o` containing 1 (closedness is certified by
the table computation) and a prime `p`, the ℤ-span of the new basis `o'` is the multiplier ring
`{x ∈ K | x·I_p ⊆ I_p}` of the `p`-radical `I_p` of `o`; in particular `o'` is closed under multiplication. -/
open Matrix Finset Polynomial
namespace NTV.Round2
open NTV.Ord NTV.PolyG NTV.R2Abs
open NTV.Hnf (InLattice)
open NTV.TableAbs (Ctx psi)
open NTV.RowOps (toM Rect ent)

/-- everything a successful `one_step` computed -/
theorem oneStep_inv2 (f : List Int) (o : Order) (p : Int) (o' : Order) (hm : Nat)
    (H : oneStep f o p = .ok (o', hm)) :
    ∃ (pow : Int) (t t2 : Table) (phiw K0 ip0 up u : IMat) (nb : QMat),
      powBound (degU f) p (degU f) 1 = .ok pow ∧ tables f o (degU f) p (p * p) = .ok (t, t2) ∧
      tabulate (degU f) (fun i =>
        powModP ((List.range (degU f)).map (fun j => if i = j then 1 else 0)) pow t p) = .ok phiw ∧
      kernelM (phiw ++ scalarRows (degU f) p) = .ok K0 ∧ hnfM K0 = .ok ip0 ∧
      (ip0.map (fun row => row.take (degU f))).foldlM
        (fun up etai => upStep (degU f) p (p * p) t2 (ip0.map (fun row => row.take (degU f))) up etai)
        (ip0.map (fun row => row.take (degU f))) = .ok up ∧
      hnfM (up ++ scalarRows (degU f) p) = .ok u ∧ u.length = degU f ∧
      newBasisM (degU f) p u o = .ok nb ∧ fromBasis nb = .ok o' := by
  unfold oneStep at H
  obtain ⟨pow, hpow, H⟩ := (bind_ok _ _ _).mp H
  obtain ⟨⟨table, table2⟩, htab, H⟩ := (bind_ok _ _ _).mp H
  simp only at H
  obtain ⟨phiw, hphiw, H⟩ := (bind_ok _ _ _).mp H
  obtain ⟨K, hK, H⟩ := (bind_ok _ _ _).mp H
  obtain ⟨ip0, hip0, H⟩ := (bind_ok _ _ _).mp H
  obtain ⟨up, hup, H⟩ := (bind_ok _ _ _).mp H
  split at H
  · cases H
  · obtain ⟨u, hu, H⟩ := (bind_ok _ _ _).mp H
    split at H
    · cases H
    · rename_i hlen
      obtain ⟨nb, hnb, H⟩ := (bind_ok _ _ _).mp H
      obtain ⟨newO, hnewO, H⟩ := (bind_ok _ _ _).mp H
      obtain ⟨index, hindex, H⟩ := (bind_ok _ _ _).mp H
      obtain ⟨hm', hhm, H⟩ := (bind_ok _ _ _).mp H
      simp only [pure, Except.pure, Except.ok.injEq, Prod.mk.injEq] at H
      obtain ⟨rfl, rfl⟩ := H
      exact ⟨pow, table, table2, phiw, K, ip0, up, u, nb, hpow, htab, hphiw, hK, hip0, hup, hu,
        by simpa using hlen, hnb, hnewO⟩

variable {f : List Int} {o : QMat} {n : Nat}

theorem _root_.NTV.Ord.Setup.degU_eq (S : Setup f o n) : degU f = n := by
  unfold degU
  have : f.isEmpty = false := by
    cases f with
    | nil => have := S.len; simp at this
    | cons a l => rfl
  simp [this, S.len]

/-- `1 ∈ O` in coordinates ⇒ `1 ∈ O` in `K` -/
theorem one_of_vec (S : Setup f o n) (c : Fin n → ℤ)
    (hc : (fun k => (c k : ℚ)) ᵥ* toM n n o = fun j => if j.val = 0 then 1 else 0) :
    el (qK f) (omegaK f o n) c = 1 := by
  unfold el
  rw [psi_eq_cls]
  have hn := S.pos
  have : toPoly ((1 : ℚ) :: List.replicate (n - 1) 0) =
      ∑ k : Fin n, C (NTV.TableAbs.castV c k) * toPoly (o.getD k []) := by
    apply toPoly_comb S.rect _ _ (by simp; omega)
    intro j hj
    have := congrFun hc ⟨j, hj⟩
    simp only [Matrix.vecMul, dotProduct] at this
    have e : ((1 : ℚ) :: List.replicate (n - 1) 0).getD j 0 = if j = 0 then 1 else 0 := by
      cases j with
      | zero => simp
      | succ j => simp [List.getD_eq_getElem?_getD, List.getElem?_replicate]; split <;> rfl
    rw [e, ← this]
    rfl
  rw [← this, toPoly_unit_row]
  simp

/-- the list-level tables are the true table modulo `p` and modulo `p²` -/
theorem tables_mod (S : Setup f o n) (P : ℕ) (t t2 : Table)
    (h : tables f o n (P : ℤ) ((P : ℤ) * (P : ℤ)) = .ok (t, t2)) (hP : P ≠ 0) :
    Cube3 n t ∧ Cube3 n t2 ∧ TableMod n t (tabT (tableOf f o n) n) P ∧
      TableMod n t2 (tabT (tableOf f o n) n) (P * P) := by
  have hp2 : (P : ℤ) * (P : ℤ) ≠ 0 := by
    have : (P : ℤ) ≠ 0 := by exact_mod_cast hP
    exact mul_ne_zero this this
  obtain ⟨_, c1, c2, hval⟩ := tables_spec S (P : ℤ) _ hp2 t t2 h
  have e1 : ∀ X M : ℤ, M ∣ Int.tmod X M - X := by
    intro X M
    have := Int.tmod_add_mul_tdiv X M
    exact ⟨-(X.tdiv M), by linarith⟩
  refine ⟨c1, c2, ?_, ?_⟩
  · intro i j k
    obtain ⟨h2, h1⟩ := hval i i.isLt j j.isLt k k.isLt
    unfold tabT
    rw [h1]
    have a1 := e1 (tent t2 i j k) (P : ℤ)
    have a2 : (P : ℤ) ∣ tent t2 i j k - tent (tableOf f o n) i j k := by
      rw [h2]
      exact dvd_trans (Dvd.intro _ rfl) (e1 _ ((P : ℤ) * (P : ℤ)))
    have := dvd_add a1 a2
    rwa [sub_add_sub_cancel] at this
  · intro i j k
    obtain ⟨h2, _⟩ := hval i i.isLt j j.isLt k k.isLt
    unfold tabT
    rw [h2]
    push_cast
    exact e1 _ _

/-- the elements of the ℤ-span of a basis `o'` with `toM o' = (p⁻¹ • (U·u)) · toM o`, `U` unimodular:
`x = el' z` iff `p·x = el v` for some `v` in the row lattice of `u` -/
theorem span_new_basis (S : Setup f o n) (o' : QMat) (ro' : Rect n n o') (P : ℕ) (hP : P ≠ 0)
    (u : IMat) (U : Matrix (Fin n) (Fin n) ℤ) (hU : IsUnit U.det)
    (hrel : toM n n o' = ((P : ℚ))⁻¹ • ((U * NTV.Hnf.toM n n u).map (Int.castRingHom ℚ) * toM n n o))
    (x : ℚ[X] ⧸ Ideal.span {NTV.Alg.modulus f}) :
    (∃ z : Fin n → ℤ, x = el (qK f) (omegaK f o' n) z) ↔
      ∃ v : Fin n → ℤ, InLattice n n u v ∧ ((P : ℕ) : ℚ[X] ⧸ Ideal.span {NTV.Alg.modulus f}) * x =
        el (qK f) (omegaK f o n) v := by
  have hPq : (P : ℚ) ≠ 0 := by exact_mod_cast hP
  have hrel' : toM n n o' = (((P : ℚ))⁻¹ • (U * NTV.Hnf.toM n n u).map (Int.castRingHom ℚ)) * toM n n o := by
    rw [hrel, Matrix.smul_mul]
  have hΩ := omegaK_of_mul (f := f) o' o ro' S.rect _ hrel'
  -- P · el' z = el (z·U·u)
  have key : ∀ z : Fin n → ℤ, ((P : ℕ) : ℚ[X] ⧸ Ideal.span {NTV.Alg.modulus f}) *
      el (qK f) (omegaK f o' n) z = el (qK f) (omegaK f o n) (z ᵥ* (U * NTV.Hnf.toM n n u)) := by
    intro z
    unfold el
    rw [psi_vecMul (qK f) (omegaK f o n) (omegaK f o' n) _ hΩ, Matrix.vecMul_smul, NTV.TableAbs.psi_smul,
      ← mul_assoc]
    have e1 : ((P : ℕ) : ℚ[X] ⧸ Ideal.span {NTV.Alg.modulus f}) * (qK f) ((P : ℚ)⁻¹) = 1 := by
      rw [← map_natCast (qK f) P, ← map_mul, mul_inv_cancel₀ hPq, map_one]
    rw [e1, one_mul]
    congr 1
    funext j
    simp [NTV.TableAbs.castV, Matrix.vecMul, dotProduct]
  constructor
  · rintro ⟨z, rfl⟩
    exact ⟨z ᵥ* (U * NTV.Hnf.toM n n u), ⟨z ᵥ* U, by rw [Matrix.vecMul_vecMul]⟩, key z⟩
  · rintro ⟨v, ⟨c, rfl⟩, hx⟩
    refine ⟨c ᵥ* U⁻¹, ?_⟩
    apply p_cancel (qK f) P hP
    rw [hx, key, Matrix.vecMul_vecMul, ← Matrix.mul_assoc, Matrix.nonsing_inv_mul _ hU, Matrix.one_mul]

/-- **semantics of `one_step`** (Cohen, Theorem 6.1.3): for an order `o` containing 1 and a prime `p`, a
successful step certifies that `o` is closed under multiplication, and the ℤ-span of the returned basis `o'` is
exactly the multiplier ring `{x ∈ K | x·I_p ⊆ I_p}` of the `p`-radical `I_p = {x ∈ O | x^(p^k) ∈ pO}`
(`p^k ≥ n`). -/
theorem oneStep_sem (S : Setup f o n) (P : ℕ) (hP : P.Prime) (o' : QMat) (hm : Nat)
    (H : oneStep f o (P : ℤ) = .ok (o', hm)) :
    Closed f o n ∧ Setup f o' n ∧
    ∀ (hC : Ctx (qK f) (omegaK f o n) (tabT (tableOf f o n) n))
      (one : ∃ e : Fin n → ℤ, el (qK f) (omegaK f o n) e = 1),
      ∃ kk : ℕ, n ≤ P ^ kk ∧ ∀ x : ℚ[X] ⧸ Ideal.span {NTV.Alg.modulus f},
        (∃ z : Fin n → ℤ, x = el (qK f) (omegaK f o' n) z) ↔
          x ∈ multR (radQ (Olat hC one) P (P ^ kk)) := by
  have hdeg := S.degU_eq
  have hn : 0 < n := S.pos
  obtain ⟨pow, t, t2, phiw, K0, ip0, up, u, nb, hpow, htab, hphiw, hK, hip0, hfold, hu, hulen, hnb, hnewO⟩ :=
    oneStep_inv2 f o (P : ℤ) o' hm H
  simp only [hdeg] at hpow htab hphiw hK hip0 hfold hu hulen hnb
  have hP0 : P ≠ 0 := hP.ne_zero
  have hp0 : (P : ℤ) ≠ 0 := by exact_mod_cast hP0
  have hpq : ((P : ℤ) : ℚ) ≠ 0 := by exact_mod_cast hP0
  have hcl : Closed f o n := tables_closed S (P : ℤ) _ (mul_ne_zero hp0 hp0) t t2 htab
  obtain ⟨ct, ct2, hT, hT2⟩ := tables_mod S P t t2 htab hP0
  obtain ⟨hpn, kk, hkk⟩ := powBound_spec n (P : ℤ) n 1 pow hpow
  rw [one_mul] at hkk
  subst hkk
  have hnk : n ≤ P ^ kk := by exact_mod_cast hpn
  -- shapes
  have rphiw : NTV.Hnf.Rect n n phiw := phiw_rect t (P : ℤ) _ n ct.cube phiw hphiw
  obtain ⟨r0, rip, hipInt⟩ := ip_lattice_int n hn (P : ℤ) phiw K0 ip0 rphiw hK hip0
  have hr0 : 0 < r0 := by
    by_contra h0
    have h0' : r0 = 0 := by omega
    subst h0'
    classical
    have hmem : InLattice 0 n (ip0.map (fun row => row.take n)) ((P : ℤ) • Pi.single (⟨0, hn⟩ : Fin n) 1) := by
      apply (hipInt _).mpr
      intro k
      rw [Matrix.smul_vecMul]
      exact ⟨_, rfl⟩
    have hz := congrFun ((inLattice_zero_rows _ _).mp hmem) ⟨0, hn⟩
    simp at hz
    exact hP0 hz
  obtain ⟨r, rup⟩ : ∃ r, NTV.Hnf.Rect r n up := by
    apply foldlM_inv (fun up => ∃ r, NTV.Hnf.Rect r n up) _ _ _ _ up ⟨r0, rip⟩ hfold
    rintro b ⟨rb, hb⟩ a ha b' hb'
    exact upStep_rect n hn (P : ℤ) ((P : ℤ) * (P : ℤ)) t2 ct2.cube _ b a (rip.2 a ha) rb hb b' hb'
  -- the linear algebra of the last part (as in `oneStep_ext`)
  obtain ⟨ru, du, _⟩ := lastHnf_spec n r hn (P : ℤ) hp0 up u rup hu
  obtain ⟨rnb, hnbM⟩ := newBasisM_spec n (P : ℤ) u o nb ru S.rect hnb
  have dnb : (toM n n nb).det ≠ 0 := by
    rw [hnbM, Matrix.det_smul, Matrix.det_mul, det_map_cast]
    refine mul_ne_zero (pow_ne_zero _ (inv_ne_zero hpq)) (mul_ne_zero ?_ S.det)
    exact_mod_cast du
  obtain ⟨O, hO, rO, U, hU, hrel⟩ := fromBasis_spans nb n hn rnb dnb
  rw [hnewO] at hO
  injection hO with hO
  subst hO
  have dO : (toM n n o').det ≠ 0 := by
    rw [hrel, Matrix.det_mul, det_map_cast]
    refine mul_ne_zero ?_ dnb
    exact_mod_cast hU.ne_zero
  have hrel2 : toM n n o' =
      ((P : ℚ))⁻¹ • ((U * NTV.Hnf.toM n n u).map (Int.castRingHom ℚ) * toM n n o) := by
    rw [hrel, hnbM, Matrix.mul_smul, Matrix.map_mul, Matrix.mul_assoc]
    simp
  refine ⟨hcl, ⟨S.canon, S.len, S.pos, rO, dO⟩, ?_⟩
  intro hC one
  refine ⟨kk, hnk, ?_⟩
  obtain ⟨r0', rip', hipI⟩ := ip_lattice hC one hn P kk hP t ct hT phiw K0 ip0 hphiw hK hip0
  have e0 : r0' = r0 := by rw [← rip'.1, rip.1]
  subst e0
  obtain ⟨r', rup', hupU⟩ := up_lattice hC one P kk hP hn t2 ct2 hT2 _ r0' hr0 rip hipI up hfold
  obtain ⟨ru', rU', hux⟩ := u_lattice hC one P kk hP hn up u r' rup' hupU hu
  have e1 : ru' = n := by rw [← rU'.1, ru.1]
  subst e1
  intro x
  rw [span_new_basis S o' rO P hP0 u U hU hrel2 x]
  exact hux x

end NTV.Round2
