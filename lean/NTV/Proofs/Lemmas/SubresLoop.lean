import NTV.Model.Resultant
import NTV.Proofs.Lemmas.PolyDivExact
import NTV.Proofs.Lemmas.SubresStep
open Polynomial
namespace NTV.Res
open NTV.PolyG

theorem tdivX_exact (x d q : Int) (h : tdivX x d = .ok (q, true)) : d ≠ 0 ∧ q * d = x := by
  unfold tdivX at h
  split at h
  · simp at h
  · rename_i hd
    simp only [Except.ok.injEq, Prod.mk.injEq, beq_iff_eq] at h
    obtain ⟨rfl, hm⟩ := h
    exact ⟨hd, Int.tdiv_mul_cancel (Int.dvd_of_tmod_eq_zero hm)⟩

theorem toPoly_map_tdiv (l : List Int) (d : Int) (h : ∀ c ∈ l, d ∣ c) :
    C d * toPoly (l.map (fun c => Int.tdiv c d)) = toPoly l := by
  induction l with
  | nil => simp [toPoly]
  | cons x xs ih =>
    simp only [List.map_cons, toPoly]
    have hx : d * Int.tdiv x d = x := Int.mul_tdiv_cancel' (h x (by simp))
    rw [mul_add, ← C_mul, hx, ← ih (fun c hc => h c (by simp [hc]))]
    ring

theorem divCoeffs_exact (h g' : List Int) (factor : Int) (hne : h ≠ [])
    (hd : divCoeffs h factor = .ok (g', true)) :
    factor ≠ 0 ∧ C factor * toPoly g' = toPoly h ∧ g'.length = h.length ∧ (Canon h → Canon g') := by
  unfold divCoeffs at hd
  have he : h.isEmpty = false := by cases h <;> simp_all
  simp only [he, Bool.false_eq_true, ↓reduceIte] at hd
  split at hd
  · simp at hd
  · rename_i hf
    simp only [Except.ok.injEq, Prod.mk.injEq] at hd
    obtain ⟨rfl, hall⟩ := hd
    have hdv : ∀ c ∈ h, factor ∣ c := by
      intro c hc
      have := List.all_eq_true.mp hall c hc
      exact Int.dvd_of_tmod_eq_zero (by simpa using this)
    refine ⟨hf, toPoly_map_tdiv h factor hdv, by simp, ?_⟩
    intro hc hne'
    have hlast : (h.map (fun c => Int.tdiv c factor)).getLast hne' = Int.tdiv (h.getLast hne) factor := by
      rw [List.getLast_map]
    rw [hlast]
    intro e
    have := Int.mul_tdiv_cancel' (hdv _ (List.getLast_mem hne))
    rw [e, mul_zero] at this
    exact hc hne this.symm

end NTV.Res

namespace NTV.Res
open NTV.PolyG

theorem divLoop_fst_length (b : List Int) (coefOf : Int → Int) (bdeg : Nat) :
    ∀ (i : Nat) (tmp acc : List Int), (divLoop b coefOf bdeg i tmp acc).1.length = i + acc.length := by
  intro i
  induction i with
  | zero => intro tmp acc; simp [divLoop]
  | succ i ih => intro tmp acc; simp only [divLoop]; rw [ih]; simp; omega

theorem pseudoDivRem_q_degree (f g : List Int) (hf : f ≠ []) (hg : g ≠ []) (hfg : g.length ≤ f.length) :
    (toPoly (pseudoDivRem f g).1).natDegree ≤ f.length - g.length := by
  unfold pseudoDivRem
  have h1 : f.isEmpty = false := by cases f <;> simp_all
  have h2 : g.isEmpty = false := by cases g <;> simp_all
  have h3 : ¬ f.length < g.length := by omega
  simp only [h1, h2, Bool.or_self, h3, decide_false, Bool.false_eq_true, ↓reduceIte, toPoly_fromRaw]
  refine le_trans (natDegree_toPoly_le _) ?_
  rw [divLoop_fst_length]; simp

/-- one round of the subresultant loop with all its divisions exact -/
theorem step_spec (f g : List Int) (a b : Int) (f' g' : List Int) (a' b' : Int)
    (hf : f ≠ []) (hg : g ≠ []) (hcg : Canon g) (hfg : g.length ≤ f.length)
    (h : step f g a b = .ok ((f', g', a', b'), true)) :
    f' = g ∧ a' = lc g ∧ g'.length < g.length ∧ Canon g' ∧
    ∃ Q P : ℤ[X], C (lc g ^ (f.length - g.length + 1)) * toPoly f = Q * toPoly g + P ∧
      Q.natDegree ≤ f.length - g.length ∧
      C (a * b ^ (f.length - g.length)) * toPoly g' = P ∧
      b' * b ^ (f.length - g.length) = lc g ^ (f.length - g.length) * b ∧
      (g' ≠ [] → a * b ^ (f.length - g.length) ≠ 0) ∧ b ^ (f.length - g.length) ≠ 0 := by
  have hlc : lc g ≠ 0 := lc_ne_zero g hg hcg
  have hgl : 0 < g.length := List.length_pos_of_ne_nil hg
  have hδ : f.length - 1 - (g.length - 1) = f.length - g.length := by omega
  unfold step at h
  simp only [pseudoRem, hlc, ↓reduceIte, bind, Except.bind, hδ] at h
  obtain ⟨p1, p2, p3, p4⟩ := pseudoDivRem_spec f g hf hg hcg hfg
  split at h
  · simp at h
  · rename_i v hdc
    obtain ⟨g1, ok1⟩ := v
    simp only at h
    split at h
    · simp at h
    · rename_i w htd
      obtain ⟨b1, ok2⟩ := w
      simp only [pure, Except.pure, Except.ok.injEq, Prod.mk.injEq, Bool.and_eq_true] at h
      obtain ⟨⟨rfl, rfl, rfl, rfl⟩, rfl, rfl⟩ := h
      obtain ⟨hb0, hbq⟩ := tdivX_exact _ _ _ htd
      by_cases hP : (pseudoDivRem f g).2 = []
      · -- remainder zero: g' = []
        have hg1 : g1 = [] := by
          simp only [divCoeffs, hP, List.isEmpty_nil, ↓reduceIte, Except.ok.injEq, Prod.mk.injEq] at hdc
          exact hdc.1.symm
        subst hg1
        refine ⟨rfl, rfl, by simpa using hgl, canon_nil, toPoly (pseudoDivRem f g).1, 0, ?_, ?_, ?_, hbq, ?_, hb0⟩
        · rw [p1, hP]; simp [toPoly]
        · exact pseudoDivRem_q_degree f g hf hg hfg
        · simp [toPoly]
        · intro hne; exact absurd rfl hne
      · obtain ⟨d1, d2, d3, d4⟩ := divCoeffs_exact _ _ _ hP hdc
        refine ⟨rfl, rfl, by rw [d3]; exact p2, d4 p4, toPoly (pseudoDivRem f g).1,
          toPoly (pseudoDivRem f g).2, p1, pseudoDivRem_q_degree f g hf hg hfg, d2, hbq, fun _ => d1, hb0⟩

end NTV.Res

namespace NTV.Res
open NTV.PolyG

theorem toggle_eq (s : Int) (m n : Nat) :
    (if m % 2 = 1 ∧ n % 2 = 1 then -s else s) = s * (-1) ^ (m * n) := by
  by_cases h : m % 2 = 1 ∧ n % 2 = 1
  · have : Odd (m * n) := (Nat.odd_iff.mpr h.1).mul (Nat.odd_iff.mpr h.2)
    rw [if_pos h, Odd.neg_one_pow this]; ring
  · have : Even (m * n) := by
      rcases Nat.even_or_odd m with hm | hm
      · exact hm.mul_right n
      · rcases Nat.even_or_odd n with hn | hn
        · exact hn.mul_left m
        · exact absurd ⟨Nat.odd_iff.mp hm, Nat.odd_iff.mp hn⟩ h
    rw [if_neg h, Even.neg_one_pow this]; ring

/-- the flag only ever decreases: a final `true` means the incoming flag was `true` -/
theorem resLoop_flag (fuel : Nat) : ∀ (f g : List Int) (a b s : Int) (ok : Bool) (v : Int),
    resLoop fuel f g a b s ok = some (.ok (v, true)) → ok = true := by
  induction fuel with
  | zero => intro f g a b s ok v h; simp [resLoop] at h
  | succ fuel ih =>
    intro f g a b s ok v h
    simp only [resLoop] at h
    split at h
    · simp only [Option.some.injEq, Except.ok.injEq, Prod.mk.injEq] at h; exact h.2
    · split at h
      · split at h
        · simp only [Option.some.injEq, Except.ok.injEq, Prod.mk.injEq] at h; exact h.2
        · simp only [bind, Except.bind, Option.some.injEq] at h
          split at h
          · simp at h
          · rename_i w _
            simp only [pure, Except.pure, Except.ok.injEq, Prod.mk.injEq, Bool.and_eq_true] at h
            exact h.2.1
      · split at h
        · exact ih _ _ _ _ _ _ _ h
        · split at h
          · simp at h
          · have := ih _ _ _ _ _ _ _ h
            simp only [Bool.and_eq_true] at this
            exact this.1

end NTV.Res

namespace NTV.Res
open NTV.PolyG

/-- loop invariant of `resultant_smart` relative to the resultant R0 of the original inputs -/
structure Inv (R0 : ℤ) (f g : List Int) (a b s : Int) : Prop where
  cf : Canon f
  cg : Canon g
  fne : f ≠ []
  a0 : a ≠ 0
  b0 : b ≠ 0
  s1 : s = 1 ∨ s = -1
  gz : g = [] → R0 = 0
  main : g ≠ [] → R0 * b ^ (f.length - 2) * a ^ (g.length - 1) = s * resultant (toPoly f) (toPoly g)
  sw : f.length < g.length → a = 1 ∧ b = 1
  c1 : f.length = 1 → s = 1 ∧ a = 1 ∧ b = 1

theorem toPoly_const (c : Int) : toPoly [c] = C c := by simp [toPoly]

theorem resLoop_correct (R0 : ℤ) (fuel : Nat) : ∀ (f g : List Int) (a b s : Int) (ok : Bool) (v : Int),
    Inv R0 f g a b s → resLoop fuel f g a b s ok = some (.ok (v, true)) → v = R0 := by
  induction fuel with
  | zero => intro f g a b s ok v _ h; simp [resLoop] at h
  | succ fuel ih =>
    intro f g a b s ok v I h
    have hfl : 0 < f.length := List.length_pos_of_ne_nil I.fne
    simp only [resLoop] at h
    split at h
    · -- g = []
      rename_i hge
      have : g = [] := by cases g <;> simp_all
      simp only [Option.some.injEq, Except.ok.injEq, Prod.mk.injEq] at h
      rw [← h.1, I.gz this]
    · rename_i hge
      have hgne : g ≠ [] := by intro e; simp [e] at hge
      have hgl : 0 < g.length := List.length_pos_of_ne_nil hgne
      have hF := natDegree_toPoly f I.fne I.cf
      have hG := natDegree_toPoly g hgne I.cg
      have hmain := I.main hgne
      split at h
      · -- deg g = 0
        rename_i hg0
        have hglen : g.length = 1 := by omega
        obtain ⟨g0, rfl⟩ : ∃ g0, g = [g0] := by
          match g, hglen with
          | [x], _ => exact ⟨x, rfl⟩
        split at h
        · -- both constants
          rename_i hf0
          have hflen : f.length = 1 := by omega
          obtain ⟨f0, rfl⟩ : ∃ f0, f = [f0] := by
            match f, hflen with
            | [x], _ => exact ⟨x, rfl⟩
          obtain ⟨hs, ha, hb⟩ := I.c1 rfl
          simp only [Option.some.injEq, Except.ok.injEq, Prod.mk.injEq] at h
          rw [← h.1]
          have hr1 : resultant (C f0) (C g0) = 1 := by simp
          have := hmain
          simp only [List.length_cons, List.length_nil, toPoly_const, hs, ha, hb, hr1] at this
          simpa using this.symm
        · rename_i hf0
          simp only [bind, Except.bind, Option.some.injEq] at h
          split at h
          · simp at h
          · rename_i w htd
            obtain ⟨r, ok'⟩ := w
            simp only [pure, Except.pure, Except.ok.injEq, Prod.mk.injEq, Bool.and_eq_true] at h
            obtain ⟨hv, _, hok'⟩ := h
            subst hok'
            obtain ⟨hbm, hr⟩ := tdivX_exact _ _ _ htd
            simp only [List.getD_cons_zero] at hr
            -- Res(F, C g0) = g0^m
            have hres : resultant (toPoly f) (toPoly [g0]) = g0 ^ (f.length - 1) := by
              rw [toPoly_const, resultant, natDegree_C, hF.1]
              exact resultant_C_zero_right _ _ _
            simp only [List.length_cons, List.length_nil, Nat.sub_self, pow_zero, mul_one, hres] at hmain
            have hexp : f.length - 1 - 1 = f.length - 2 := by omega
            rw [hexp] at hr hbm
            -- the toggle does nothing (deg g = 0 is even)
            have hs' : ¬ ((f.length - 1) % 2 = 1 ∧ ([g0].length - 1) % 2 = 1) := by
              intro hh; have := hh.2; simp at this
            rw [if_neg hs'] at hv
            have key : R0 * b ^ (f.length - 2) = (s * r) * b ^ (f.length - 2) := by
              rw [hmain, ← hr]; ring
            have hR : R0 = s * r := mul_right_cancel₀ hbm key
            rw [← hv, hR]
            rcases I.s1 with e | e <;> simp [e]
      · rename_i hg0
        have hg2 : 2 ≤ g.length := by omega
        split at h
        · -- swap
          rename_i hlt
          have hfg : f.length < g.length := by omega
          obtain ⟨ha, hb⟩ := I.sw hfg
          apply ih g f a b _ ok v _ h
          rw [toggle_eq]
          refine ⟨I.cg, I.cf, hgne, I.a0, I.b0, ?_, fun e => absurd e I.fne, ?_, fun hh => ⟨ha, hb⟩,
            fun hh => by omega⟩
          · rcases I.s1 with e | e <;> rcases neg_one_pow_eq_or ℤ ((f.length - 1) * (g.length - 1)) with e2 | e2 <;>
              simp [e, e2]
          · intro _
            rw [ha, hb] at hmain ⊢
            simp only [one_pow, mul_one] at hmain ⊢
            rw [hmain]
            have hc := resultant_comm (toPoly f) (toPoly g) (f.length - 1) (g.length - 1)
            have e1 : resultant (toPoly f) (toPoly g) = resultant (toPoly f) (toPoly g) (f.length - 1) (g.length - 1) := by
              rw [resultant, hF.1, hG.1]; rfl
            have e2 : resultant (toPoly g) (toPoly f) = resultant (toPoly g) (toPoly f) (g.length - 1) (f.length - 1) := by
              rw [resultant, hF.1, hG.1]; rfl
            rw [e1, e2, hc]
            ring
        · -- Euclidean step
          rename_i hge2
          have hfg : g.length ≤ f.length := by omega
          split at h
          · simp at h
          · rename_i f' g' a' b' ok' hstep
            have hflag := resLoop_flag fuel _ _ _ _ _ _ _ h
            simp only [Bool.and_eq_true] at hflag
            obtain ⟨_, hok'⟩ := hflag
            subst hok'
            obtain ⟨hf'e, ha'e, hlen', hcg', Q, P, hprem, hQ, hG', hb', hab, hbδ⟩ :=
              step_spec f g a b f' g' a' b' I.fne hgne I.cg hfg hstep
            rw [hf'e, ha'e] at h
            have hL0 : lc g ≠ 0 := lc_ne_zero g hgne I.cg
            have hb'0 : b' ≠ 0 := by
              intro e; rw [e, zero_mul] at hb'
              exact (mul_ne_zero (pow_ne_zero _ hL0) I.b0) hb'.symm
            apply ih g g' (lc g) b' _ (ok && true) v _ h
            rw [toggle_eq]
            -- instantiate the algebraic step
            obtain ⟨n1, hn1⟩ : ∃ n1, g.length = n1 + 2 := ⟨g.length - 2, by omega⟩
            obtain ⟨δ, hδ⟩ : ∃ δ, f.length = g.length + δ := ⟨f.length - g.length, by omega⟩
            have hδ' : f.length - g.length = δ := by omega
            rw [hδ'] at hprem hQ hG' hb' hab hbδ
            have hk : (toPoly g').natDegree = g'.length - 1 := by
              by_cases e : g' = []
              · subst e; simp [toPoly]
              · exact (natDegree_toPoly g' e hcg').1
            have hinv : R0 * b ^ (n1 + δ) * a ^ (n1 + 1) = s * resultant (toPoly f) (toPoly g) := by
              have : f.length - 2 = n1 + δ := by omega
              have e2 : g.length - 1 = n1 + 1 := by omega
              rw [← this, ← e2]; exact hmain
            have hstepres := NTV.Subres.subres_step (toPoly f) (toPoly g) Q P (toPoly g') a b (lc g) b' R0 s
              n1 δ (g'.length - 1) (f.length - 1 - (g'.length - 1))
              (by rw [hF.1]; omega) (by rw [hG.1]; omega) hG.2.1 hQ hprem hG' hk (by omega) hb' I.a0 I.b0 hL0 hinv
            have hexp : (f.length - 1) * (g.length - 1) = (n1 + 1 + δ) * (n1 + 1) := by
              congr 1 <;> omega
            rw [hexp]
            refine ⟨I.cg, hcg', hgne, hL0, hb'0, ?_, ?_, ?_, fun hh => by omega, fun hh => by omega⟩
            · rcases I.s1 with e | e <;> rcases neg_one_pow_eq_or ℤ ((n1 + 1 + δ) * (n1 + 1)) with e2 | e2 <;>
                simp [e, e2]
            · intro e
              subst e
              have hz : resultant (toPoly g) (toPoly ([] : List Int)) = 0 := by
                show resultant (toPoly g) 0 (toPoly g).natDegree (natDegree (0 : ℤ[X])) = 0
                rw [natDegree_zero, resultant_zero_right, hG.1]
                have : g.length - 1 ≠ 0 := by omega
                simp [this]
              rw [hz, mul_zero] at hstepres
              simp only [List.length_nil, Nat.zero_sub, pow_zero, mul_one] at hstepres
              rcases mul_eq_zero.mp hstepres with h0 | h0
              · exact h0
              · exact absurd h0 (pow_ne_zero _ hb'0)
            · intro _
              have e1 : g.length - 2 = n1 := by omega
              rw [e1]; exact hstepres

end NTV.Res

namespace NTV.Res
open NTV.PolyG

/-- C04 (integer routine), partial: whenever every truncated division performed by `resultant_smart`
is exact (the flag the model carries and the check asserts on every explored case), its value is the
determinant of the Sylvester matrix — for all non-zero canonical f, g ∈ ℤ[x]. -/
theorem resultantSmart_exact (f g : List Int) (hf : f ≠ []) (hg : g ≠ []) (hcf : Canon f) (hcg : Canon g)
    (v : Int) (h : resultantSmartE f g = some (.ok (v, true))) :
    v = resultant (toPoly f) (toPoly g) := by
  unfold resultantSmartE at h
  have h0 : f.isEmpty = false := by cases f <;> simp_all
  simp only [h0, Bool.false_eq_true, ↓reduceIte] at h
  apply resLoop_correct (resultant (toPoly f) (toPoly g)) _ f g 1 1 1 true v _ h
  exact ⟨hcf, hcg, hf, one_ne_zero, one_ne_zero, Or.inl rfl, fun e => absurd e hg,
    fun _ => by simp, fun _ => ⟨rfl, rfl⟩, fun _ => ⟨rfl, rfl, rfl⟩⟩

end NTV.Res
