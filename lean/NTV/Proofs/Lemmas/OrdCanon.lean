import NTV.Proofs.Lemmas.OrdProofs
import NTV.Proofs.Lemmas.HnfCanon
open Matrix
namespace NTV.Ord
open NTV.RowOps (toM Rect ent)

theorem mapM_ok {α β : Type} (l : List α) (f : α → M β) (g : α → β) (h : ∀ x ∈ l, f x = .ok (g x)) :
    l.mapM f = .ok (l.map g) := by
  induction l with
  | nil => rfl
  | cons x xs ih =>
    rw [List.mapM_cons, h x (by simp), ih (fun y hy => h y (by simp [hy]))]
    rfl

theorem tabulate_ok {α : Type} (n : Nat) (f : Nat → M α) (g : Nat → α) (h : ∀ i < n, f i = .ok (g i)) :
    tabulate n f = .ok ((List.range n).map g) :=
  mapM_ok _ f g (fun i hi => h i (List.mem_range.mp hi))

theorem idx_ok {α : Type} (v : List α) (i : Nat) (h : i < v.length) : idx v i = .ok v[i] := by
  simp [idx, List.getElem?_eq_getElem h]

/-- the integer matrix `lcm · A` computed by `hnf_reduce` -/
def scaled (A : QMat) (n : Nat) : IMat :=
  (List.range n).map (fun i => (List.range n).map (fun j => toInteger (ent A i j * ((lcmDen A 1 : Int) : Rat))))

/-- the final rescaling of `hnf_reduce` as a function of the normal form -/
def unscale (n : Nat) (L : Int) (hnf : IMat) : M QMat :=
  tabulate n (fun i => tabulate n (fun j => do
    let row ← idx hnf i
    let e ← idx row j
    pure ((e : Rat) / (L : Rat))))

/-- `hnf_reduce` depends on its argument only through the scaled integer matrix and the lcm -/
theorem hnfReduce_unfold (A : QMat) (n : Nat) (hA : Rect n n A) :
    hnfReduce A = (match NTV.Hnf.hnfNew (scaled A n) with
      | none => .error "inconclusive fuel"
      | some hnf => unscale n (lcmDen A 1) hnf) := by
  unfold hnfReduce
  have hlen : A.length = n := hA.1
  have hib : tabulate A.length (fun i => tabulate A.length (fun j => do
      let row ← idx A i
      let e ← idx row j
      pure (toInteger (e * ((lcmDen A 1 : Int) : Rat))))) = .ok (scaled A n) := by
    rw [hlen]
    apply tabulate_ok
    intro i hi
    apply tabulate_ok
    intro j hj
    have hi' : i < A.length := by omega
    have hrow : (A[i]).length = n := hA.2 _ (List.getElem_mem hi')
    have hj' : j < (A[i]).length := by omega
    rw [idx_ok A i hi']
    simp only [bind, Except.bind]
    rw [idx_ok _ j hj']
    simp only [pure, Except.pure]
    congr 2
    simp [ent, List.getD_eq_getElem?_getD, List.getElem?_eq_getElem hi', List.getElem?_eq_getElem hj']
  simp only [bind, Except.bind, hlen] at hib ⊢
  rw [hib]
  rfl

end NTV.Ord

namespace NTV.Ord
open NTV.RowOps (toM Rect ent)

/-- every denominator of the matrix divides L -/
def AllDenDvd (A : QMat) (L : Int) : Prop := ∀ row ∈ A, ∀ e ∈ row, ((e.den : Nat) : Int) ∣ L

theorem rowFold_spec (row : List Rat) (start : Int) :
    start ∣ row.foldl (fun l e => (Int.lcm l e.den : Int)) start ∧
    (∀ e ∈ row, ((e.den : Nat) : Int) ∣ row.foldl (fun l e => (Int.lcm l e.den : Int)) start) ∧
    (∀ L' : Int, start ∣ L' → (∀ e ∈ row, ((e.den : Nat) : Int) ∣ L') →
      row.foldl (fun l e => (Int.lcm l e.den : Int)) start ∣ L') := by
  induction row generalizing start with
  | nil => simp
  | cons x xs ih =>
    simp only [List.foldl_cons]
    obtain ⟨h1, h2, h3⟩ := ih ((Int.lcm start x.den : Nat) : Int)
    refine ⟨dvd_trans (Int.dvd_lcm_left _ _) h1, ?_, ?_⟩
    · intro e he
      rcases List.mem_cons.mp he with rfl | he
      · exact dvd_trans (Int.dvd_lcm_right _ _) h1
      · exact h2 e he
    · intro L' hs hall
      apply h3 L'
      · exact Int.coe_lcm_dvd hs (hall x (by simp))
      · intro e he; exact hall e (by simp [he])

theorem lcmDen_spec (A : QMat) (start : Int) :
    start ∣ lcmDen A start ∧ AllDenDvd A (lcmDen A start) ∧
    (∀ L' : Int, start ∣ L' → AllDenDvd A L' → lcmDen A start ∣ L') := by
  induction A generalizing start with
  | nil => simp [lcmDen, AllDenDvd]
  | cons r rs ih =>
    obtain ⟨r1, r2, r3⟩ := rowFold_spec r start
    obtain ⟨h1, h2, h3⟩ := ih (r.foldl (fun l e => (Int.lcm l e.den : Int)) start)
    have e : lcmDen (r :: rs) start = lcmDen rs (r.foldl (fun l e => (Int.lcm l e.den : Int)) start) := by
      simp [lcmDen]
    rw [e]
    refine ⟨dvd_trans r1 h1, ?_, ?_⟩
    · intro row hrow x hx
      rcases List.mem_cons.mp hrow with rfl | hrow
      · exact dvd_trans (r2 x hx) h1
      · exact h2 row hrow x hx
    · intro L' hs hall
      apply h3 L'
      · exact r3 L' hs (fun x hx => hall r (by simp) x hx)
      · intro row hrow x hx; exact hall row (by simp [hrow]) x hx

theorem lcmDen_nonneg (A : QMat) : 0 ≤ lcmDen A 1 := by
  have key : ∀ (A : QMat) (s : Int), 0 ≤ s → 0 ≤ lcmDen A s := by
    intro A
    induction A with
    | nil => intro s hs; simpa [lcmDen] using hs
    | cons r rs ih =>
      intro s hs
      have e : lcmDen (r :: rs) s = lcmDen rs (r.foldl (fun l e => (Int.lcm l e.den : Int)) s) := by
        simp [lcmDen]
      rw [e]
      apply ih
      have : ∀ (row : List Rat) (s : Int), 0 ≤ s → 0 ≤ row.foldl (fun l e => (Int.lcm l e.den : Int)) s := by
        intro row
        induction row with
        | nil => intro s hs; simpa using hs
        | cons x xs ihx => intro s _; simp only [List.foldl_cons]; exact ihx _ (by positivity)
      exact this r s hs
  exact key A 1 (by norm_num)

/-- the denominator of e divides L iff e·L is an integer -/
theorem den_dvd_iff (e : Rat) (L : Int) : ((e.den : Nat) : Int) ∣ L ↔ ∃ z : Int, e * (L : Rat) = (z : Rat) := by
  constructor
  · rintro ⟨k, rfl⟩
    refine ⟨e.num * k, ?_⟩
    have := Rat.mul_den_eq_num e
    push_cast
    rw [← mul_assoc, this]
  · rintro ⟨z, hz⟩
    by_cases hL : L = 0
    · subst hL; exact dvd_zero _
    · have hL' : (L : Rat) ≠ 0 := by exact_mod_cast hL
      have he : e = (z : Rat) / (L : Rat) := by field_simp; exact hz
      rw [he, ← Rat.divInt_eq_div]
      exact Rat.den_dvd z L

end NTV.Ord

namespace NTV.Ord
open NTV.RowOps (toM Rect ent)

theorem ent_mem (A : QMat) (n : Nat) (hA : Rect n n A) (i j : Nat) (hi : i < n) (hj : j < n) :
    ∃ row ∈ A, ent A i j ∈ row := by
  have hi' : i < A.length := by rw [hA.1]; exact hi
  have hrow : (A[i]).length = n := hA.2 _ (List.getElem_mem hi')
  have hj' : j < (A[i]).length := by omega
  refine ⟨A[i], List.getElem_mem hi', ?_⟩
  have : ent A i j = (A[i])[j] := by
    simp [ent, List.getD_eq_getElem?_getD, List.getElem?_eq_getElem hi', List.getElem?_eq_getElem hj']
  rw [this]; exact List.getElem_mem hj'

theorem scaled_rect (A : QMat) (n : Nat) : NTV.Hnf.Rect n n (scaled A n) := by
  refine ⟨by simp [scaled], ?_⟩
  intro r hr
  simp only [scaled, List.mem_map, List.mem_range] at hr
  obtain ⟨i, _, rfl⟩ := hr
  simp

theorem scaled_ent (A : QMat) (n : Nat) (i j : Nat) (hi : i < n) (hj : j < n) :
    NTV.Hnf.ent (scaled A n) i j = toInteger (ent A i j * ((lcmDen A 1 : Int) : Rat)) := by
  simp [NTV.Hnf.ent, scaled, List.getD_eq_getElem?_getD, hi, hj]

/-- the scaled matrix is exactly lcm · A -/
theorem scaled_cast (A : QMat) (n : Nat) (hA : Rect n n A) (i j : Fin n) :
    ((NTV.Hnf.toM n n (scaled A n) i j : Int) : Rat) = ((lcmDen A 1 : Int) : Rat) * toM n n A i j := by
  simp only [NTV.Hnf.toM, toM]
  rw [scaled_ent A n i j i.isLt j.isLt]
  obtain ⟨row, hrow, hmem⟩ := ent_mem A n hA i j i.isLt j.isLt
  obtain ⟨z, hz⟩ := (den_dvd_iff _ _).mp ((lcmDen_spec A 1).2.1 row hrow _ hmem)
  rw [hz, toInteger_intCast, ← hz]; ring

/-- the lcm of the denominators depends only on the ℤ-module: invariant under an integer change of
basis in one direction gives divisibility -/
theorem lcmDen_dvd_of_rel (A A' : QMat) (n : Nat) (hA : Rect n n A) (hA' : Rect n n A')
    (U : Matrix (Fin n) (Fin n) ℤ) (hrel : toM n n A' = U.map (Int.castRingHom ℚ) * toM n n A) :
    lcmDen A' 1 ∣ lcmDen A 1 := by
  apply (lcmDen_spec A' 1).2.2 _ (one_dvd _)
  intro row hrow e he
  -- e is an entry of A'
  obtain ⟨i, hi, rfl⟩ := List.mem_iff_getElem.mp hrow
  obtain ⟨j, hj, rfl⟩ := List.mem_iff_getElem.mp he
  have hin : i < n := by rw [← hA'.1]; exact hi
  have hrl : (A'[i]).length = n := hA'.2 _ (List.getElem_mem hi)
  have hjn : j < n := by omega
  rw [den_dvd_iff]
  have hent : (A'[i])[j] = toM n n A' ⟨i, hin⟩ ⟨j, hjn⟩ := by
    simp [toM, ent, List.getD_eq_getElem?_getD, List.getElem?_eq_getElem hi, List.getElem?_eq_getElem hj]
  rw [hent, hrel, Matrix.mul_apply]
  refine ⟨∑ k : Fin n, U ⟨i, hin⟩ k * NTV.Hnf.toM n n (scaled A n) k ⟨j, hjn⟩, ?_⟩
  push_cast
  rw [Finset.sum_mul]
  apply Finset.sum_congr rfl
  intro k _
  rw [scaled_cast A n hA k ⟨j, hjn⟩]
  simp only [Matrix.map_apply, Int.coe_castRingHom]
  ring

end NTV.Ord

namespace NTV.Ord
open NTV.RowOps (toM Rect ent)

/-- C15 canonical storage: two rational bases of the same ℤ-module (B = U·A with U an integer matrix of
unit determinant) are stored as the same order — `hnf_reduce` returns literally the same value -/
theorem hnfReduce_canonical (A A' : QMat) (n : Nat) (hn : 0 < n) (hA : Rect n n A) (hA' : Rect n n A')
    (U : Matrix (Fin n) (Fin n) ℤ) (hU : IsUnit U.det)
    (hrel : toM n n A' = U.map (Int.castRingHom ℚ) * toM n n A) :
    hnfReduce A' = hnfReduce A := by
  -- the inverse change of basis is integral too
  have hrel' : toM n n A = (U⁻¹).map (Int.castRingHom ℚ) * toM n n A' := by
    rw [hrel, ← Matrix.mul_assoc, ← Matrix.map_mul, Matrix.nonsing_inv_mul _ hU]
    simp
  -- same lcm of denominators
  have hL : lcmDen A' 1 = lcmDen A 1 :=
    Int.dvd_antisymm (lcmDen_nonneg A') (lcmDen_nonneg A)
      (lcmDen_dvd_of_rel A A' n hA hA' U hrel) (lcmDen_dvd_of_rel A' A n hA' hA U⁻¹ hrel')
  -- the scaled integer matrices are related by U
  have hS : NTV.Hnf.toM n n (scaled A' n) = U * NTV.Hnf.toM n n (scaled A n) := by
    have hinj : Function.Injective (fun M : Matrix (Fin n) (Fin n) ℤ => M.map (Int.castRingHom ℚ)) :=
      Matrix.map_injective (RingHom.injective_int (Int.castRingHom ℚ))
    apply hinj
    simp only
    rw [Matrix.map_mul]
    ext i j
    have e1 := scaled_cast A' n hA' i j
    simp only [Matrix.map_apply, Int.coe_castRingHom, Matrix.mul_apply]
    rw [e1, hL, hrel, Matrix.mul_apply, Finset.mul_sum]
    apply Finset.sum_congr rfl
    intro k _
    rw [scaled_cast A n hA k j]
    simp only [Matrix.map_apply, Int.coe_castRingHom]
    ring
  have hS' : NTV.Hnf.toM n n (scaled A n) = U⁻¹ * NTV.Hnf.toM n n (scaled A' n) := by
    rw [hS, ← Matrix.mul_assoc, Matrix.nonsing_inv_mul _ hU, Matrix.one_mul]
  -- hence the same row lattice, hence the same Hermite normal form
  have hcanon : NTV.Hnf.hnfNew (scaled A' n) = NTV.Hnf.hnfNew (scaled A n) := by
    apply NTV.Hnf.hnf_canonical (scaled A' n) (scaled A n) n n n (scaled_rect A' n) (scaled_rect A n) hn hn hn
    intro v
    constructor
    · rintro ⟨c, rfl⟩
      exact ⟨c ᵥ* U, by rw [hS, Matrix.vecMul_vecMul]⟩
    · rintro ⟨c, rfl⟩
      exact ⟨c ᵥ* U⁻¹, by rw [hS', Matrix.vecMul_vecMul]⟩
  rw [hnfReduce_unfold A' n hA', hnfReduce_unfold A n hA, hcanon, hL]

end NTV.Ord
