import NTV.Proofs.Lemmas.LinAlgImgInv
/-! The loop of `image_mod_p`, the final state, and the specification of the model `imageModP`. -/
open Matrix
namespace NTV.LinAlg
open NTV.RowOps (toM Rect)

/-! ### the loop -/

theorem image_step {p n m k : Nat} (hp : p.Prime) {M : IMat} {st : ImgSt} (H : Prop) (hk : k < n)
    (hA : InvA n m k st) (hB : H → InvB p n m k M st) :
    ∃ st', imageStep n m p st k = .ok st' ∧ InvA n m (k + 1) st' ∧ (H → InvB p n m (k + 1) M st') := by
  cases hf : findFrom 0 m (fun j => (st.mat.getD k []).getD j 0 != 0 && st.c.getD j 0 == 0) with
  | none =>
    exact ⟨_, imageStep_none hf, hA.skip, fun hh => (hB hh).skip hk hf⟩
  | some j =>
    have hp0 : (p : Int) ≠ 0 := by have := hp.pos; omega
    obtain ⟨_, hj, hpj⟩ := findFrom_some hf
    simp only [Bool.and_eq_true, bne_iff_ne, ne_eq, beq_iff_eq] at hpj
    exact ⟨_, imageStep_some hp0 hf, hA.pivot _ j _ hj hpj.2, fun hh => (hB hh).pivot hp hA hk j hf⟩

theorem image_fold {p n m : Nat} (hp : p.Prime) {M : IMat} (H : Prop) (st0 : ImgSt)
    (hA : InvA n m 0 st0) (hB : H → InvB p n m 0 M st0) : ∀ k, k ≤ n →
    ∃ st, (List.range k).foldlM (imageStep n m p) st0 = .ok st ∧ InvA n m k st ∧ (H → InvB p n m k M st) := by
  intro k
  induction k with
  | zero => intro _; exact ⟨st0, rfl, hA, hB⟩
  | succ k ih =>
    intro hk
    obtain ⟨st, e1, a1, b1⟩ := ih (by omega)
    obtain ⟨st', e2, a2, b2⟩ := image_step hp H (by omega) a1 b1
    refine ⟨st', ?_, a2, b2⟩
    rw [List.range_succ, List.foldlM_append, e1]
    simp only [List.foldlM_cons, List.foldlM_nil]
    show (imageStep n m p st k >>= fun s => pure s) = _
    rw [e2]; rfl

/-! ### reading the answer off the final state -/

theorem getD_c_mem {st : ImgSt} {m : Nat} (hc : st.c.length = m) (i : Nat) (hi : i < m) :
    st.c.getD i 0 ∈ st.c := by
  have hi2 : i < st.c.length := by rw [hc]; exact hi
  rw [List.getD_eq_getElem?_getD, List.getElem?_eq_getElem hi2]
  exact List.getElem_mem hi2

theorem mem_c_getD {st : ImgSt} {m : Nat} (hc : st.c.length = m) (x : Nat) (hx : x ∈ st.c) :
    ∃ i < m, st.c.getD i 0 = x := by
  obtain ⟨i, hi, rfl⟩ := List.mem_iff_getElem.mp hx
  refine ⟨i, by rw [← hc]; exact hi, ?_⟩
  rw [List.getD_eq_getElem?_getD, List.getElem?_eq_getElem hi]; rfl

/-- independence of the recorded rows: a relation among the input rows supported on the rows
recorded in `c` is trivial -/
theorem final_indep {p n m : Nat} {M : IMat} {st : ImgSt} (hA : InvA n m n st) (hB : InvB p n m n M st)
    (z : Fin n → ZMod p) (hz : ∀ s : Fin n, (s.val + 1) ∉ st.c → z s = 0)
    (h0 : ∀ i : Fin m, ∑ s : Fin n, z s * cm p M s i = 0) : z = 0 := by
  have h1 := (hB.rel z).mp h0
  funext s0
  by_cases hs : s0.val + 1 ∈ st.c
  · obtain ⟨i, hi, hci⟩ := mem_c_getD hA.clen _ hs
    have hsum := h1 ⟨i, hi⟩
    rw [Finset.sum_eq_single s0] at hsum
    · have hpv := hB.piv i hi (by omega) i hi
      rw [hci] at hpv
      simp only [Nat.add_sub_cancel, if_true] at hpv
      simp only at hsum
      rw [hpv] at hsum
      simpa using hsum
    · intro s _ hne
      by_cases hs' : s.val + 1 ∈ st.c
      · obtain ⟨i', hi', hci'⟩ := mem_c_getD hA.clen _ hs'
        have hpv := hB.piv i' hi' (by omega) i hi
        rw [hci'] at hpv
        simp only [Nat.add_sub_cancel] at hpv
        have hii : i ≠ i' := by
          intro e; subst e
          apply hne; apply Fin.ext; omega
        simp only
        rw [hpv, if_neg hii, mul_zero]
      · rw [hz s hs', zero_mul]
    · intro h; exact absurd (Finset.mem_univ _) h
  · exact hz s0 hs

/-- every input row is a combination of the recorded rows -/
theorem final_span {p n m : Nat} {M : IMat} {st : ImgSt} (hA : InvA n m n st) (hB : InvB p n m n M st)
    (s0 : Fin n) : ∃ z : Fin n → ZMod p, (∀ s : Fin n, (s.val + 1) ∉ st.c → z s = 0) ∧
      ∀ i : Fin m, ∑ s : Fin n, z s * cm p M s i = cm p M s0 i := by
  let w : Fin n → ZMod p := fun s =>
    ∑ i' : Fin m, if st.c.getD i' 0 = s.val + 1 then cm p st.mat s0 i' else 0
  have inner : ∀ (i i' : Fin m), ∑ s : Fin n,
      (if st.c.getD i' 0 = s.val + 1 then cm p st.mat s0 i' else 0) * cm p st.mat s i
      = if st.c.getD i' 0 ≠ 0 then cm p st.mat s0 i' * (if i = i' then -1 else 0) else 0 := by
    intro i i'
    by_cases hc : st.c.getD i' 0 = 0
    · rw [if_neg (by simpa using hc)]
      apply Finset.sum_eq_zero
      intro s _
      rw [if_neg (by omega), zero_mul]
    · rw [if_pos hc]
      have hle : st.c.getD i' 0 ≤ n := hA.cle _ (getD_c_mem hA.clen i' i'.2)
      rw [Finset.sum_eq_single (⟨st.c.getD i' 0 - 1, by omega⟩ : Fin n)]
      · simp only
        rw [if_pos (by omega), hB.piv i' i'.2 hc i i.2]
        simp only [Fin.ext_iff]
      · intro s _ hne
        have : st.c.getD i' 0 ≠ s.val + 1 := by
          intro e; apply hne; apply Fin.ext; simp only; omega
        rw [if_neg this, zero_mul]
      · intro h; exact absurd (Finset.mem_univ _) h
  have hw : ∀ i : Fin m, ∑ s : Fin n, w s * cm p st.mat s i
      = if st.c.getD i 0 ≠ 0 then - cm p st.mat s0 i else 0 := by
    intro i
    simp only [w, Finset.sum_mul]
    rw [Finset.sum_comm]
    simp only [inner]
    rw [Finset.sum_eq_single i]
    · simp
    · intro i' _ hne
      have : ¬ i = i' := fun e => hne e.symm
      simp [this]
    · intro h; exact absurd (Finset.mem_univ _) h
  let u : Fin n → ZMod p := fun s => (if s = s0 then 1 else 0) + w s
  have hu : ∀ i : Fin m, ∑ s : Fin n, u s * cm p st.mat s i = 0 := by
    intro i
    simp only [u, add_mul, Finset.sum_add_distrib, hw]
    simp only [ite_mul, one_mul, zero_mul, Finset.sum_ite_eq', Finset.mem_univ, if_true]
    by_cases hc : st.c.getD i 0 = 0
    · rw [if_neg (by simpa using hc), add_zero]
      exact hB.zero s0 s0.2 i i.2 hc
    · rw [if_pos hc]; ring
  have hM0 := (hB.rel u).mpr hu
  refine ⟨fun s => - w s, ?_, ?_⟩
  · intro s hs
    simp only [w, neg_eq_zero]
    apply Finset.sum_eq_zero
    intro i' _
    rw [if_neg]
    intro e
    apply hs; rw [← e]; exact getD_c_mem hA.clen i' i'.2
  · intro i
    have := hM0 i
    simp only [u, add_mul, Finset.sum_add_distrib] at this
    simp only [ite_mul, one_mul, zero_mul, Finset.sum_ite_eq', Finset.mem_univ, if_true] at this
    simp only [neg_mul, Finset.sum_neg_distrib]
    rw [eq_comm, ← add_eq_zero_iff_eq_neg]
    exact this

/-! ### sub-families of rows -/

theorem sub_vecMul {F : Type} [CommRing F] {n m r : Nat} (A : Matrix (Fin n) (Fin m) F) (e : Fin r → Fin n)
    (he : Function.Injective e) (z : Fin n → F) (hz : ∀ s, s ∉ Set.range e → z s = 0) :
    (fun t => z (e t)) ᵥ* A.submatrix e id = z ᵥ* A := by
  ext i
  simp only [vecMul, dotProduct, submatrix_apply, id]
  apply Finset.sum_of_injOn e he.injOn (fun _ _ => Finset.mem_coe.mpr (Finset.mem_univ _))
  · intro s _ hs
    rw [hz s (fun ⟨t, ht⟩ => hs ⟨t, Finset.mem_coe.mpr (Finset.mem_univ _), ht⟩), zero_mul]
  · intro _ _; rfl

theorem sub_indep {F : Type} [CommRing F] {n m r : Nat} (A : Matrix (Fin n) (Fin m) F) (e : Fin r → Fin n)
    (he : Function.Injective e)
    (h : ∀ z : Fin n → F, (∀ s, s ∉ Set.range e → z s = 0) → z ᵥ* A = 0 → z = 0)
    (y : Fin r → F) (hy : y ᵥ* A.submatrix e id = 0) : y = 0 := by
  let z : Fin n → F := Function.extend e y (0 : Fin n → F)
  have hze : ∀ t, z (e t) = y t := fun t => he.extend_apply y (0 : Fin n → F) t
  have hz : ∀ s, s ∉ Set.range e → z s = 0 := by
    intro s hs
    exact Function.extend_apply' y (0 : Fin n → F) s (fun ⟨t, ht⟩ => hs ⟨t, ht⟩)
  have h1 := sub_vecMul A e he z hz
  have h2 : (fun t => z (e t)) = y := funext hze
  rw [h2, hy] at h1
  have h3 := h z hz h1.symm
  funext t
  rw [← hze t, h3]; rfl

/-! ### the specification of `imageModP` -/

theorem rect_cons {A : IMat} {n m : Nat} (hr : Rect n m A) (hn : 0 < n) :
    ∃ r0 t, A = r0 :: t ∧ r0.length = m ∧ isRect A = true := by
  cases A with
  | nil => have := hr.1; simp at this; omega
  | cons r0 t =>
    have h0 : r0.length = m := hr.2 r0 (by simp)
    refine ⟨r0, t, rfl, h0, ?_⟩
    unfold isRect
    rw [List.all_eq_true]
    intro r hrm
    simp [width, h0, hr.2 r hrm]

theorem imageModP_eq {p : Int} {M : IMat} {n m : Nat} (hM : Rect n m M) (hn : 0 < n) (st : ImgSt)
    (hfold : (List.range n).foldlM (imageStep n m p) { mat := M, c := List.replicate m 0, r := 0 } = .ok st)
    (hcount : (st.c.filter (· != 0)).length = n - st.r) :
    imageModP M p = .ok ((st.c.filter (· != 0)).map (fun ci => M.getD (ci - 1) [])) := by
  obtain ⟨r0, t, rfl, hr0, hrect⟩ := rect_cons hM hn
  have hlen := hM.1
  subst hlen
  subst hr0
  unfold imageModP
  simp only [hrect, Bool.not_true, Bool.false_eq_true, if_false]
  rw [hfold]
  simp only
  rw [if_neg (not_not.mpr hcount)]

theorem imageModP_spec (p : Nat) (hp : p.Prime) (M : IMat) (n m : Nat) (hM : Rect n m M) (hn : 0 < n) :
    ∃ idx : List Nat, (∀ i ∈ idx, i < n) ∧ idx.Nodup ∧
      imageModP M p = .ok (idx.map (fun i => M.getD i [])) ∧
      ((∀ row ∈ M, ∀ x ∈ row, (p : Int) ∣ x → x = 0) →
        (∀ y : Fin idx.length → ZMod p,
          y ᵥ* (toM idx.length m (idx.map (fun i => M.getD i []))).map (Int.cast : ℤ → ZMod p) = 0 → y = 0) ∧
        (∀ s : Fin n, ∃ x : Fin idx.length → ZMod p,
          x ᵥ* (toM idx.length m (idx.map (fun i => M.getD i []))).map (Int.cast : ℤ → ZMod p)
            = (toM n m M).map (Int.cast : ℤ → ZMod p) s)) := by
  obtain ⟨st, hfold, hA, hB⟩ := image_fold hp (∀ row ∈ M, ∀ x ∈ row, (p : Int) ∣ x → x = 0)
    { mat := M, c := List.replicate m 0, r := 0 } (InvA.init hM) (fun h => InvB.init hM h) n le_rfl
  have hidx_lt : ∀ i ∈ (st.c.filter (· != 0)).map (· - 1), i < n := by
    intro i hi
    obtain ⟨x, hx, rfl⟩ := List.mem_map.mp hi
    obtain ⟨hx1, hx2⟩ := List.mem_filter.mp hx
    have := hA.cle x hx1
    have : x ≠ 0 := by simpa using hx2
    omega
  have hidx_nd : ((st.c.filter (· != 0)).map (· - 1)).Nodup := by
    apply List.Nodup.map_on _ hA.nodup
    intro x hx y hy hxy
    have hx2 : x ≠ 0 := by simpa using (List.mem_filter.mp hx).2
    have hy2 : y ≠ 0 := by simpa using (List.mem_filter.mp hy).2
    omega
  have hmem : ∀ s : Nat, s ∈ (st.c.filter (· != 0)).map (· - 1) ↔ s + 1 ∈ st.c := by
    intro s
    constructor
    · intro hs
      obtain ⟨x, hx, rfl⟩ := List.mem_map.mp hs
      obtain ⟨hx1, hx2⟩ := List.mem_filter.mp hx
      have : x ≠ 0 := by simpa using hx2
      have : x - 1 + 1 = x := by omega
      rw [this]; exact hx1
    · intro hs
      exact List.mem_map.mpr ⟨s + 1, List.mem_filter.mpr ⟨hs, by simp⟩, by omega⟩
  refine ⟨(st.c.filter (· != 0)).map (· - 1), hidx_lt, hidx_nd, ?_, ?_⟩
  · rw [imageModP_eq hM hn st hfold (by have := hA.count; omega), List.map_map]; rfl
  · intro hred
    have hB := hB hred
    generalize hidx : (st.c.filter (· != 0)).map (· - 1) = idx at hidx_lt hidx_nd hmem ⊢
    let e : Fin idx.length → Fin n := fun t => ⟨idx[t.val], hidx_lt _ (List.getElem_mem t.2)⟩
    have he : Function.Injective e := by
      intro t1 t2 h
      have h' : idx[t1.val] = idx[t2.val] := congrArg Fin.val h
      exact Fin.ext ((hidx_nd.getElem_inj_iff).mp h')
    have hrange : ∀ s : Fin n, s ∉ Set.range e → (s.val + 1) ∉ st.c := by
      intro s hs hin
      apply hs
      obtain ⟨t, ht, hts⟩ := List.mem_iff_getElem.mp ((hmem s.val).mpr hin)
      exact ⟨⟨t, ht⟩, Fin.ext hts⟩
    have hrange' : ∀ s : Fin n, (s.val + 1) ∉ st.c → s ∉ Set.range e := by
      rintro s hs ⟨t, rfl⟩
      apply hs
      exact (hmem _).mp (List.getElem_mem t.2)
    have hsub : (toM idx.length m (idx.map (fun i => M.getD i []))).map (Int.cast : ℤ → ZMod p)
        = ((toM n m M).map (Int.cast : ℤ → ZMod p)).submatrix e id := by
      ext t i
      simp only [map_apply, submatrix_apply, id]
      congr 1
      show NTV.RowOps.ent _ _ _ = NTV.RowOps.ent _ _ _
      unfold NTV.RowOps.ent
      congr 1
      simp [e, List.getD_eq_getElem?_getD]
    have hv : ∀ (z : Fin n → ZMod p) (i : Fin m),
        (z ᵥ* (toM n m M).map (Int.cast : ℤ → ZMod p)) i = ∑ s : Fin n, z s * cm p M s i := fun _ _ => rfl
    rw [hsub]
    constructor
    · apply sub_indep _ e he
      intro z hz h0
      apply final_indep hA hB z (fun s hs => hz s (hrange' s hs))
      intro i
      rw [← hv, h0]; rfl
    · intro s0
      obtain ⟨z, hz, hzs⟩ := final_span hA hB s0
      refine ⟨fun t => z (e t), ?_⟩
      rw [sub_vecMul _ e he z (fun s hs => hz s (hrange s hs))]
      ext i
      rw [hv, hzs i]; rfl

end NTV.LinAlg
