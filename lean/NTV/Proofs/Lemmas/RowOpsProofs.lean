import NTV.Model.RowOps
import Mathlib.LinearAlgebra.Matrix.Determinant.Basic
import Mathlib.LinearAlgebra.Matrix.RowCol
import Mathlib.Tactic.Ring
open Matrix
namespace NTV.RowOps
variable {R : Type} [CommRing R]

def toM (n m : Nat) (a : List (List R)) : Matrix (Fin n) (Fin m) R := fun i j => ent a i j
def Rect (n m : Nat) (a : List (List R)) : Prop := a.length = n ∧ ∀ r ∈ a, r.length = m

theorem ent_modify (a : List (List R)) (j : Nat) (f : List R → List R) (i c : Nat) :
    ent (a.modify j f) i c = if i = j ∧ j < a.length then (f (a.getD j [])).getD c 0 else ent a i c := by
  unfold ent
  simp only [List.getD_eq_getElem?_getD, List.getElem?_modify]
  by_cases h : i = j
  · subst h
    by_cases hl : i < a.length
    · simp [hl]
    · have : a[i]? = none := by simp; omega
      simp [hl, this]
  · have h' : ¬ j = i := fun e => h e.symm
    cases hai : a[i]? <;> simp [h, h']

theorem getD_rowSubMul (rj rk : List R) (q : R) (c : Nat) (h : rj.length = rk.length) :
    (rowSubMul rj rk q).getD c 0 = rj.getD c 0 - rk.getD c 0 * q := by
  unfold rowSubMul
  simp only [List.getD_eq_getElem?_getD, List.getElem?_zipWith]
  by_cases hc : c < rj.length
  · have hc' : c < rk.length := by omega
    simp [List.getElem?_eq_getElem hc, List.getElem?_eq_getElem hc']
  · have h1 : rj[c]? = none := by simp; omega
    have h2 : rk[c]? = none := by simp; omega
    simp [h1, h2]

theorem Rect.row_length {n m : Nat} {a : List (List R)} (hr : Rect n m a) (i : Nat) (hi : i < n) :
    (a.getD i []).length = m := by
  have hi' : i < a.length := by rw [hr.1]; exact hi
  have : a.getD i [] = a[i] := by simp [List.getD_eq_getElem?_getD, List.getElem?_eq_getElem hi']
  rw [this]; exact hr.2 _ (List.getElem_mem hi')

theorem ent_subMulRow {n m : Nat} {a : List (List R)} (hr : Rect n m a) (j k : Nat) (hj : j < n) (hk : k < n)
    (q : R) (r c : Nat) :
    ent (subMulRow a j k q) r c = if r = j then ent a j c - ent a k c * q else ent a r c := by
  have hj' : j < a.length := by rw [hr.1]; exact hj
  have hlen : (a.getD j []).length = (a.getD k []).length := by
    rw [hr.row_length j hj, hr.row_length k hk]
  unfold subMulRow
  rw [ent_modify]
  by_cases h : r = j
  · subst h
    simp only [hj', and_self, ↓reduceIte]
    rw [getD_rowSubMul _ _ _ _ hlen]; rfl
  · simp [h]

theorem ent_map_row (a : List (List R)) (k r c : Nat) (hk : k < a.length) (g : R → R) (hg : g 0 = 0) :
    ent (a.modify k (fun row => row.map g)) r c = if r = k then g (ent a k c) else ent a r c := by
  rw [ent_modify]
  by_cases h : r = k
  · subst h
    simp only [hk, and_self, ↓reduceIte]
    unfold ent
    simp only [List.getD_eq_getElem?_getD, List.getElem?_map]
    cases (a[r]?.getD [])[c]? <;> simp [hg]
  · simp [h]

theorem ent_swapRows (a : List (List R)) (i j r c : Nat) (hi : i < a.length) (hj : j < a.length) :
    ent (swapRows a i j) r c = if r = j then ent a i c else if r = i then ent a j c else ent a r c := by
  unfold swapRows ent
  simp only [List.getD_eq_getElem?_getD, List.getElem?_set, List.length_set]
  by_cases h1 : r = j
  · subst h1; simp [hj]
  · have h1' : ¬ j = r := fun e => h1 e.symm
    by_cases h2 : r = i
    · subst h2; simp [h1, h1', hi]
    · have h2' : ¬ i = r := fun e => h2 e.symm
      simp [h1, h1', h2, h2']

theorem toM_subMulRow (n m : Nat) (a : List (List R)) (hr : Rect n m a) (j k : Fin n) (q : R) :
    toM n m (subMulRow a j k q) = updateRow (toM n m a) j (toM n m a j + (-q) • toM n m a k) := by
  ext i c
  rw [updateRow_apply]
  show ent (subMulRow a j k q) i c = _
  rw [ent_subMulRow hr j k j.2 k.2]
  by_cases h : i = j
  · subst h; simp only [↓reduceIte, Pi.add_apply, Pi.smul_apply, smul_eq_mul]
    show _ = ent a i c + -q * ent a k c
    ring
  · have : ¬ ((i : Nat) = (j : Nat)) := fun e => h (Fin.ext e)
    simp only [this, h, ↓reduceIte]; rfl

theorem toM_scaleRow (n m : Nat) (a : List (List R)) (hr : Rect n m a) (k : Fin n) (c : R) :
    toM n m (scaleRow a k c) = updateRow (toM n m a) k (c • toM n m a k) := by
  ext i col
  have hk : (k : Nat) < a.length := by rw [hr.1]; exact k.2
  rw [updateRow_apply]
  show ent (scaleRow a k c) i col = _
  unfold scaleRow
  rw [ent_map_row a k i col hk (fun x => x * c) (by simp)]
  by_cases h : i = k
  · subst h; simp only [↓reduceIte, Pi.smul_apply, smul_eq_mul]; show ent a i col * c = c * ent a i col; ring
  · have : ¬ ((i : Nat) = (k : Nat)) := fun e => h (Fin.ext e)
    simp only [this, h, ↓reduceIte]; rfl

theorem toM_swapRows (n m : Nat) (a : List (List R)) (hr : Rect n m a) (i j : Fin n) :
    toM n m (swapRows a i j) = (toM n m a).submatrix (Equiv.swap i j) id := by
  ext r c
  have hi : (i : Nat) < a.length := by rw [hr.1]; exact i.2
  have hj : (j : Nat) < a.length := by rw [hr.1]; exact j.2
  show ent (swapRows a i j) r c = ent a (Equiv.swap i j r) c
  rw [ent_swapRows _ _ _ _ _ hi hj]
  by_cases h1 : r = j
  · subst h1; simp
  · by_cases h2 : r = i
    · subst h2
      have : ¬ ((r : Nat) = (j : Nat)) := fun e => h1 (Fin.ext e)
      simp [this]
    · have e1 : ¬ ((r : Nat) = (j : Nat)) := fun e => h1 (Fin.ext e)
      have e2 : ¬ ((r : Nat) = (i : Nat)) := fun e => h2 (Fin.ext e)
      simp [e1, e2, Equiv.swap_apply_of_ne_of_ne h2 h1]

/-- Determinant bookkeeping for the three operations. -/
theorem det_subMulRow (n : Nat) (a : List (List R)) (hr : Rect n n a) (j k : Fin n) (hjk : j ≠ k) (q : R) :
    (toM n n (subMulRow a j k q)).det = (toM n n a).det := by
  rw [toM_subMulRow n n a hr, det_updateRow_add_smul_self _ hjk]

theorem det_scaleRow (n : Nat) (a : List (List R)) (hr : Rect n n a) (k : Fin n) (c : R) :
    (toM n n (scaleRow a k c)).det = c * (toM n n a).det := by
  rw [toM_scaleRow n n a hr, det_updateRow_smul, updateRow_eq_self]

theorem det_swapRows (n : Nat) (a : List (List R)) (hr : Rect n n a) (i j : Fin n) (hij : i ≠ j) :
    (toM n n (swapRows a i j)).det = - (toM n n a).det := by
  rw [toM_swapRows n n a hr, det_permute, Equiv.Perm.sign_swap hij]; simp

/-- Mirrored operations preserve `U * A0 = A`. -/
theorem mul_subMulRow (n m : Nat) (A0 : Matrix (Fin n) (Fin m) R) (a u : List (List R)) (ha : Rect n m a) (hu : Rect n n u)
    (h : toM n n u * A0 = toM n m a) (j k : Fin n) (q : R) :
    toM n n (subMulRow u j k q) * A0 = toM n m (subMulRow a j k q) := by
  rw [toM_subMulRow n n u hu, toM_subMulRow n m a ha, updateRow_mul, ← h]
  congr 1
  rw [add_vecMul, smul_vecMul]
  ext c; simp [Matrix.mul_apply_eq_vecMul]

theorem mul_scaleRow (n m : Nat) (A0 : Matrix (Fin n) (Fin m) R) (a u : List (List R)) (ha : Rect n m a) (hu : Rect n n u)
    (h : toM n n u * A0 = toM n m a) (k : Fin n) (c : R) :
    toM n n (scaleRow u k c) * A0 = toM n m (scaleRow a k c) := by
  rw [toM_scaleRow n n u hu, toM_scaleRow n m a ha, updateRow_mul, ← h]
  congr 1
  rw [smul_vecMul]
  ext col; simp [Matrix.mul_apply_eq_vecMul]

theorem mul_swapRows (n m : Nat) (A0 : Matrix (Fin n) (Fin m) R) (a u : List (List R)) (ha : Rect n m a) (hu : Rect n n u)
    (h : toM n n u * A0 = toM n m a) (i j : Fin n) :
    toM n n (swapRows u i j) * A0 = toM n m (swapRows a i j) := by
  rw [toM_swapRows n n u hu, toM_swapRows n m a ha, ← h]
  have := Matrix.submatrix_mul (toM n n u) A0 (Equiv.swap i j) (id : Fin n → Fin n) (id : Fin m → Fin m) Function.bijective_id
  simpa using this.symm

end NTV.RowOps
