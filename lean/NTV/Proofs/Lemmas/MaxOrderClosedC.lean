import NTV.Proofs.Lemmas.MaxOrderClosedA
import NTV.Proofs.Lemmas.MaxOrderClosedB
import NTV.Proofs.Lemmas.IdealNormE
import NTV.Proofs.Lemmas.KummerDedekindD
/-! # The maximal order returned by Round 2 is integrally closed.

* `rtEquiv`: the two constructions `NTV.IdealP.RT T` (C16) and `NTV.KD.Rt T` (C17) of the ring `(ℤⁿ, +, ⋆)` of a
  multiplication table are the same ring (the identity map is a ring isomorphism);
* `RT_integrallyClosed_of_pmax`: the ring of a table realised in a field `K` by a ℚ-basis `Ω` (`Ω_0 = 1`) whose ℤ-span
  is `p`-maximal at every prime is integrally closed;
* `findIntegralBasis_integrallyClosed`: so is the ring of the table of the basis returned by `find_integral_basis`
  for `f` irreducible over ℚ. -/
open Matrix Finset Polynomial
namespace NTV.MaxOrd
open NTV.Ord NTV.PolyG NTV.Round2 NTV.IdealP NTV.R2Abs
open NTV.TableAbs (Ctx psi castV)
open NTV.RowOps (toM Rect ent)
open NTV.Alg (modulus cls cls_eq_iff)

/-! ### (L1) the two rings of a table are the same ring -/

/-- `RT T` (C16) and `Rt T` (C17) are both `ℤⁿ` with the product `⋆` of the table: the identity map is a ring
isomorphism -/
def rtEquiv {t : NTV.Ord.Table} {n : Nat} (T : TableRing t n) : RT T ≃+* NTV.KD.Rt T where
  toFun x := x
  invFun x := x
  left_inv _ := rfl
  right_inv _ := rfl
  map_mul' _ _ := rfl
  map_add' _ _ := rfl

theorem rtEquiv_toVec {t : NTV.Ord.Table} {n : Nat} (T : TableRing t n) (x : RT T) :
    NTV.KD.toVec T (rtEquiv T x) = RT.toVec T x := rfl

/-- hypotheses on the ring of a table transfer between the two constructions -/
theorem isIntegrallyClosed_Rt_iff {t : NTV.Ord.Table} {n : Nat} (T : TableRing t n) :
    IsIntegrallyClosed (NTV.KD.Rt T) ↔ IsIntegrallyClosed (RT T) :=
  ⟨fun _ => IsIntegrallyClosed.of_equiv (rtEquiv T).symm, fun _ => IsIntegrallyClosed.of_equiv (rtEquiv T)⟩

theorem isDomain_Rt_iff {t : NTV.Ord.Table} {n : Nat} (T : TableRing t n) : IsDomain (NTV.KD.Rt T) ↔ IsDomain (RT T) :=
  ⟨fun _ => (rtEquiv T).toMulEquiv.isDomain _, fun _ => (rtEquiv T).symm.toMulEquiv.isDomain _⟩

/-! ### clearing denominators -/

theorem clear_den {n : Nat} (c : Fin n → ℚ) :
    ∃ d : ℕ, d ≠ 0 ∧ ∃ z : Fin n → ℤ, ∀ i, (d : ℚ) * c i = z i := by
  classical
  refine ⟨∏ i, (c i).den, ?_, fun i => (c i).num * ∏ j ∈ Finset.univ.erase i, ((c j).den : ℤ), ?_⟩
  · exact Finset.prod_ne_zero_iff.mpr (fun i _ => (c i).den_nz)
  · intro i
    rw [← Finset.mul_prod_erase Finset.univ (fun j => (c j).den) (Finset.mem_univ i)]
    push_cast
    have := Rat.mul_den_eq_num (c i)
    calc ((c i).den : ℚ) * (∏ j ∈ Finset.univ.erase i, ((c j).den : ℚ)) * c i
        = (c i * (c i).den) * ∏ j ∈ Finset.univ.erase i, ((c j).den : ℚ) := by ring
      _ = _ := by rw [this]

/-! ### the abstract statement -/

section abstract
variable {K : Type*} [Field K] {n : ℕ} {q : ℚ →+* K} {Ω : Fin n → K} {t : NTV.Ord.Table}

/-- the embedding `x ↦ Σ x_i Ω_i` of the ring of the table -/
noncomputable def phiHom (hC : Ctx q Ω (tabT t n)) (T : TableRing t n) (hΩ : Ω ⟨0, T.pos⟩ = 1) : RT T →+* K where
  toFun x := phi q Ω (RT.toVec T x)
  map_one' := by rw [RT.toVec_one, phi_e, hΩ]
  map_mul' x y := by rw [RT.toVec_mul, phi_star hC]
  map_zero' := by rw [map_zero, phi_zero]
  map_add' x y := by
    rw [map_add]
    exact el_add _ _

theorem phiHom_range (hC : Ctx q Ω (tabT t n)) (T : TableRing t n) (hΩ : Ω ⟨0, T.pos⟩ = 1)
    (one : ∃ e : Fin n → ℤ, el q Ω e = 1) : (phiHom hC T hΩ).range = Olat hC one := by
  ext x
  constructor
  · rintro ⟨y, rfl⟩
    exact ⟨RT.toVec T y, rfl⟩
  · rintro ⟨c, rfl⟩
    exact ⟨RT.ofVec T c, rfl⟩

/-- **the reduction, for table rings**: if the ℤ-span `O` of a ℚ-basis `Ω` of the field `K` (`Ω_0 = 1`, table `t`) is
`p`-maximal at every prime, then the ring `(ℤⁿ, +, ⋆)` of the table is integrally closed -/
theorem RT_integrallyClosed_of_pmax (hC : Ctx q Ω (tabT t n)) (T : TableRing t n) (hΩ : Ω ⟨0, T.pos⟩ = 1)
    (one : ∃ e : Fin n → ℤ, el q Ω e = 1) (hspan : ∀ x : K, ∃ c : Fin n → ℚ, psi q Ω c = x)
    (hmax : ∀ p : ℕ, p.Prime → PMax (Olat hC one) p) : IsIntegrallyClosed (RT T) := by
  let _ : Algebra (RT T) K := (phiHom hC T hΩ).toAlgebra
  have halg : algebraMap (RT T) K = phiHom hC T hΩ := rfl
  have hrange : (algebraMap (RT T) K).range = Olat hC one := by rw [halg]; exact phiHom_range hC T hΩ one
  apply isIntegrallyClosed_of_maximal (R := RT T) (K := K)
  · rw [halg]
    intro x y hxy
    exact (RT.toVec T).injective (phi_inj hC hxy)
  · intro x
    obtain ⟨c, rfl⟩ := hspan x
    obtain ⟨d, hd, z, hz⟩ := clear_den c
    refine ⟨d, hd, ?_⟩
    rw [hrange]
    refine ⟨z, ?_⟩
    have e1 : ((d : ℕ) : K) = q (d : ℚ) := by rw [map_natCast]
    rw [e1, ← NTV.TableAbs.psi_smul]
    unfold el
    congr 1
    funext i
    simp only [NTV.TableAbs.castV, Pi.smul_apply, smul_eq_mul]
    exact (hz i).symm
  · rw [hrange]
    exact le_of_pmax_all (Olat hC one) hmax

end abstract

/-! ### the model -/

variable {f : List Int} {B : QMat} {n : Nat}

/-- every element of `ℚ[X]/(f)` is a rational combination of the basis vectors -/
theorem _root_.NTV.Ord.Setup.psi_surj (S : Setup f B n) (x : ℚ[X] ⧸ Ideal.span {modulus f}) :
    ∃ c : Fin n → ℚ, psi (qK f) (omegaK f B n) c = x := by
  obtain ⟨P, rfl⟩ := Ideal.Quotient.mk_surjective x
  obtain ⟨hdeg, hne⟩ := NTV.Alg.modulus_facts f S.canon S.two_le
  set r := P % modulus f with hr
  have hcls : cls f r = cls f P := by
    rw [cls_eq_iff]
    have := EuclideanDomain.div_add_mod P (modulus f)
    refine ⟨-(P / modulus f), ?_⟩
    rw [hr]
    linear_combination this
  have hlt : r.degree < (n : WithBot ℕ) := by
    have := Polynomial.degree_mod_lt P hne
    rw [Polynomial.degree_eq_natDegree hne, hdeg, S.len, Nat.add_sub_cancel] at this
    exact this
  set l : List ℚ := (List.range n).map (fun c => r.coeff c) with hl
  have hlp : toPoly l = r := by
    ext c
    rw [coeff_toPoly, hl]
    by_cases hc : c < n
    · simp [List.getD_eq_getElem?_getD, hc]
    · rw [Polynomial.coeff_eq_zero_of_degree_lt (lt_of_lt_of_le hlt (by exact_mod_cast Nat.le_of_not_lt hc))]
      simp [List.getD_eq_getElem?_getD, hc]
  refine ⟨(fun c : Fin n => r.coeff c) ᵥ* (toM n n B)⁻¹, ?_⟩
  rw [psi_eq_cls]
  show cls f _ = cls f P
  rw [← hcls]
  conv_rhs => rw [← hlp]
  congr 1
  symm
  apply toPoly_comb S.rect _ l (by simp [hl])
  intro c hc
  have key : ((fun c : Fin n => r.coeff c) ᵥ* (toM n n B)⁻¹) ᵥ* toM n n B = fun c : Fin n => r.coeff c := by
    rw [Matrix.vecMul_vecMul, Matrix.nonsing_inv_mul _ (isUnit_iff_ne_zero.mpr S.det), Matrix.vecMul_one]
  have := congrFun key ⟨c, hc⟩
  rw [hl]
  simp only [List.getD_eq_getElem?_getD, List.getElem?_map, List.getElem?_range hc, Option.map_some,
    Option.getD_some]
  exact this.symm

/-- `ℚ[X]/(f)` is a field when `f` is irreducible -/
@[reducible] noncomputable def fieldK (hirr : Irreducible (modulus f)) : Field (ℚ[X] ⧸ Ideal.span {modulus f}) :=
  haveI : Fact (Irreducible (modulus f)) := ⟨hirr⟩
  (inferInstance : Field (AdjoinRoot (modulus f)))

/-- **(L2) the ring of the table of a good order that is `p`-maximal at every prime is integrally closed**
(`f` irreducible over ℚ; "good order": stored non-singular basis containing 1, closed under multiplication) -/
theorem GoodOrder.integrallyClosed {O : QMat} (g : GoodOrder f n O) (hirr : Irreducible (modulus f))
    (hmax : ∀ p : ℕ, p.Prime → PMaximal f n O p) :
    getMultTable O f = .ok (tableOf f O n) ∧ IsTable f O n (tableOf f O n) ∧
      O.getD 0 [] = 1 :: List.replicate (n - 1) 0 ∧
      ∀ T : TableRing (tableOf f O n) n, IsDomain (RT T) ∧ IsIntegrallyClosed (RT T) := by
  obtain ⟨ht, hC⟩ := g.setup.ctx_of_closed g.closed
  have h0 := g.first_row
  have hget := g.setup.getMultTable_ok (g.setup.closed_iff.mp g.closed)
  refine ⟨hget, ht, h0, fun T => ⟨isDomain_of_isTable g.setup ht hirr T, ?_⟩⟩
  have one := g.one.el_one g.setup
  have hΩ : omegaK f O n ⟨0, T.pos⟩ = 1 := by
    unfold omegaK
    show cls f (toPoly (O.getD 0 [])) = 1
    rw [h0, toPoly_unit_row]; simp
  let _ := fieldK hirr
  exact RT_integrallyClosed_of_pmax hC T hΩ one g.setup.psi_surj
    (fun p hp => (hmax p hp).pmaxK hp.ne_zero g hC one)

/-- **(L2) the maximal order is integrally closed.** For `f` canonical and irreducible over ℚ, if
`find_integral_basis(f)` returns `O` then `get_mult_table` succeeds on `O` (with the table `tableOf f O n`), the first
row of `O` is (1, 0, …, 0), and the ring `(ℤⁿ, +, ⋆)` of the table is an integrally closed domain. -/
theorem findIntegralBasis_integrallyClosed (f : List Int) (hf : Canon f) (hirr : Irreducible (modulus f))
    (O : Order) (H : findIntegralBasis f = .ok O) :
    getMultTable O f = .ok (tableOf f O (degU f)) ∧ IsTable f O (degU f) (tableOf f O (degU f)) ∧
      O.getD 0 [] = 1 :: List.replicate (degU f - 1) 0 ∧
      ∀ T : TableRing (tableOf f O (degU f)) (degU f), IsDomain (RT T) ∧ IsIntegrallyClosed (RT T) :=
  GoodOrder.integrallyClosed (findIntegralBasis_good f hf O H) hirr
    (fun p hp => findIntegralBasis_pmaximal_all f hf O H p hp)

end NTV.MaxOrd
