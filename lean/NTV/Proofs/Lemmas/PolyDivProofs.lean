import NTV.Model.PolyDiv
import NTV.Proofs.Lemmas.PolyProofs
import Mathlib.Algebra.Polynomial.Degree.Lemmas
import Mathlib.Tactic
open Polynomial
namespace NTV.Poly

theorem toPoly_subRaw (a b : List Int) : toPoly (subRaw a b) = toPoly a - toPoly b := by
  fun_induction subRaw a b with
  | case1 a => simp [toPoly]
  | case2 y ys ih => simp only [toPoly, ih, C_neg]; ring
  | case3 x xs y ys ih => simp only [toPoly, ih, C_sub]; ring

theorem toPoly_replicate_append (i : Nat) (l : List Int) : toPoly (List.replicate i 0 ++ l) = X ^ i * toPoly l := by
  induction i with
  | zero => simp
  | succ i ih => simp only [List.replicate_succ, List.cons_append, toPoly, ih, C_0]; ring

theorem toPoly_map_mul_left (c : Int) (l : List Int) : toPoly (l.map (c * ·)) = C c * toPoly l := by
  have := toPoly_smulRaw c l
  simpa [smulRaw] using this

theorem toPoly_map_mul_right (c : Int) (l : List Int) : toPoly (l.map (· * c)) = C c * toPoly l := by
  rw [← toPoly_map_mul_left]; congr 1; apply List.map_congr_left; intro x _; ring

/-- The algebraic identity maintained by the division loop (holds whether or not the inner
divisions are exact). -/
theorem pdivLoop_identity (b : List Int) (lcb : Int) (bdeg : Nat) (i : Nat) (tmp acc : List Int) :
    toPoly (pdivLoop b lcb bdeg i tmp acc).2 + toPoly (pdivLoop b lcb bdeg i tmp acc).1 * toPoly b
      = toPoly tmp + X ^ i * toPoly acc * toPoly b := by
  induction i generalizing tmp acc with
  | zero => simp [pdivLoop]
  | succ i ih =>
    simp only [pdivLoop]
    rw [ih, toPoly_subRaw, toPoly_replicate_append, toPoly_map_mul_left]
    simp only [toPoly]
    ring

/-- C09: pseudo-division identity  lc(b)^(deg a - deg b + 1) * a = q * b + r  (model level, all inputs
taking the main branch). -/
theorem pseudoDivRem_identity (a b : Poly) (ha : a ≠ []) (hb : b ≠ []) (hab : b.length ≤ a.length) :
    C (lc b ^ (a.length - b.length + 1)) * toPoly a
      = toPoly (pseudoDivRem a b).1 * toPoly b + toPoly (pseudoDivRem a b).2 := by
  unfold pseudoDivRem
  have h1 : a.isEmpty = false := by cases a <;> simp_all
  have h2 : b.isEmpty = false := by cases b <;> simp_all
  have h3 : ¬ a.length < b.length := by omega
  simp only [h1, h2, Bool.or_self, h3, decide_false, Bool.false_eq_true, ↓reduceIte, toPoly_fromRaw]
  have := pdivLoop_identity b (lc b) (b.length - 1) (a.length - b.length + 1)
    (a.map (· * lc b ^ (a.length - b.length + 1))) []
  simp only [toPoly, mul_zero, zero_mul, add_zero, toPoly_map_mul_right] at this
  rw [← this]; ring

end NTV.Poly

namespace NTV.Poly

theorem getD_subRaw (a b : List Int) (j : Nat) : (subRaw a b).getD j 0 = a.getD j 0 - b.getD j 0 := by
  fun_induction subRaw a b generalizing j with
  | case1 a => simp
  | case2 y ys ih =>
    cases j with
    | zero => simp
    | succ j => have := ih j; simp only [List.getD_eq_getElem?_getD] at this ⊢; simpa using this
  | case3 x xs y ys ih =>
    cases j with
    | zero => simp
    | succ j => have := ih j; simp only [List.getD_eq_getElem?_getD] at this ⊢; simpa using this

theorem getD_replicate_append (i : Nat) (l : List Int) (j : Nat) :
    (List.replicate i 0 ++ l).getD j 0 = if j < i then 0 else l.getD (j - i) 0 := by
  simp only [List.getD_eq_getElem?_getD, List.getElem?_append, List.length_replicate]
  split
  · rename_i h; simp [List.getElem?_replicate, h]
  · rfl

theorem getD_map_mul (c : Int) (l : List Int) (j : Nat) : (l.map (c * ·)).getD j 0 = c * l.getD j 0 := by
  simp only [List.getD_eq_getElem?_getD, List.getElem?_map]
  cases l[j]? <;> simp

/-- Degree part of the pseudo-division contract: with every coefficient of `tmp` divisible by
`lcb^i` and `tmp` vanishing from index `i + bdeg` on, the loop ends with a remainder vanishing from
index `bdeg` on (and all truncated divisions performed were exact). -/
theorem pdivLoop_degree (b : List Int) (bdeg : Nat) (hb : b.length = bdeg + 1) (lcb : Int)
    (hlc : b.getD bdeg 0 = lcb) (hlc0 : lcb ≠ 0) (i : Nat) (tmp acc : List Int)
    (hD : ∀ j, lcb ^ i ∣ tmp.getD j 0) (hZ : ∀ j, i + bdeg ≤ j → tmp.getD j 0 = 0) :
    ∀ j, bdeg ≤ j → (pdivLoop b lcb bdeg i tmp acc).2.getD j 0 = 0 := by
  induction i generalizing tmp acc with
  | zero => intro j hj; simp only [pdivLoop]; exact hZ j (by omega)
  | succ i ih =>
    simp only [pdivLoop]
    set top := tmp.getD (i + bdeg) 0 with htop
    set coef := Int.tdiv top lcb with hcoef
    have hdvd : lcb ∣ top := Dvd.dvd.trans (Dvd.intro_left (lcb ^ i) (by ring)) (hD (i + bdeg))
    have hexact : coef * lcb = top := Int.tdiv_mul_cancel hdvd
    have hcoefD : lcb ^ i ∣ coef := by
      obtain ⟨w, hw⟩ := hD (i + bdeg)
      rw [← htop] at hw
      refine ⟨w, ?_⟩
      have : coef * lcb = lcb ^ i * w * lcb := by rw [hexact, hw]; ring
      exact mul_right_cancel₀ hlc0 this
    apply ih
    · intro j
      rw [getD_subRaw, getD_replicate_append]
      have h1 : lcb ^ i ∣ tmp.getD j 0 := Dvd.dvd.trans (Dvd.intro (lcb) (by ring)) (hD j)
      split
      · simpa using h1
      · rw [getD_map_mul]
        exact Dvd.dvd.sub h1 (Dvd.dvd.mul_right hcoefD _)
    · intro j hj
      rw [getD_subRaw, getD_replicate_append]
      have : ¬ j < i := by omega
      simp only [this, ↓reduceIte, getD_map_mul]
      by_cases hje : j = i + bdeg
      · subst hje
        have : i + bdeg - i = bdeg := by omega
        rw [this, hlc, ← htop, ← hexact]; ring
      · have h1 : tmp.getD j 0 = 0 := hZ j (by omega)
        have h2 : b.getD (j - i) 0 = 0 := by
          simp only [List.getD_eq_getElem?_getD]
          have : b[j - i]? = none := by simp; omega
          simp [this]
        rw [h1, h2]; ring

end NTV.Poly
