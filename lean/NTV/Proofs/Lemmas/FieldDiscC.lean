import NTV.Proofs.Lemmas.FieldDiscA
import NTV.Proofs.Lemmas.FieldDiscB
import NTV.Proofs.Lemmas.InvDiffD
/-! # The order returned by `find_integral_basis` is the ring of integers of ℚ[x]/(f); its discriminant is
the discriminant of the number field. -/
open Matrix Finset Polynomial
namespace NTV.FieldDisc
open NTV.Ord NTV.PolyG NTV.Round2 NTV.IdealP NTV.R2Abs NTV.MaxOrd
open NTV.TableAbs (Ctx psi castV)
open NTV.RowOps (toM Rect ent)
open NTV.Alg (modulus cls cls_eq_iff)

/-- `ℚ[X]/(F)` is a number field for `F` irreducible -/
theorem numberField_adjoinRoot (F : ℚ[X]) [hF : Fact (Irreducible F)] : NumberField (AdjoinRoot F) where
  to_charZero := charZero_of_injective_algebraMap (algebraMap ℚ (AdjoinRoot F)).injective
  to_finiteDimensional := (AdjoinRoot.powerBasis hF.out.ne_zero).finite

variable {f : List Int} {n : Nat} {O : QMat}

theorem qK_eq_algebraMap (f : List Int) (x : ℚ) :
    (qK f x : AdjoinRoot (modulus f)) = algebraMap ℚ (AdjoinRoot (modulus f)) x := rfl

/-- `psi` is the ℚ-linear combination of the `ω_i` -/
theorem psi_eq_sum_smul (c : Fin n → ℚ) :
    (psi (qK f) (omegaK f O n) c : AdjoinRoot (modulus f)) = ∑ i, c i • omegaA f O n i := by
  unfold psi
  apply Finset.sum_congr rfl
  intro i _
  rw [Algebra.smul_def]; rfl

/-- `el` is the ℤ-linear combination of the `ω_i` -/
theorem el_eq_sum_zsmul (c : Fin n → ℤ) :
    (el (qK f) (omegaK f O n) c : AdjoinRoot (modulus f)) = ∑ i, c i • omegaA f O n i := by
  unfold el
  rw [psi_eq_sum_smul]
  apply Finset.sum_congr rfl
  intro i _
  simp only [NTV.TableAbs.castV]
  rw [Int.cast_smul_eq_zsmul]

theorem _root_.NTV.Ord.Setup.linearIndependent (S : Setup f O n) :
    LinearIndependent ℚ (omegaA f O n) := by
  rw [Fintype.linearIndependent_iff]
  intro c hc i
  rw [← psi_eq_sum_smul] at hc
  exact congrFun (S.indep c hc) i

theorem _root_.NTV.Ord.Setup.span_top (S : Setup f O n) :
    ⊤ ≤ Submodule.span ℚ (Set.range (omegaA f O n)) := by
  intro x _
  obtain ⟨c, hc⟩ := S.psi_surj x
  rw [Submodule.mem_span_range_iff_exists_fun]
  exact ⟨c, by rw [← psi_eq_sum_smul]; exact hc⟩

/-- the rows of a non-singular basis matrix, as a ℚ-basis of ℚ[X]/(f) -/
noncomputable def _root_.NTV.Ord.Setup.basisK (S : Setup f O n) : Module.Basis (Fin n) ℚ (AdjoinRoot (modulus f)) :=
  Module.Basis.mk S.linearIndependent S.span_top

theorem _root_.NTV.Ord.Setup.coe_basisK (S : Setup f O n) : ⇑S.basisK = omegaA f O n :=
  Module.Basis.coe_mk _ _

/-- the value returned by `Order::discriminant` is the discriminant (determinant of the trace form of ℚ[X]/(f)) of
the family ω -/
theorem _root_.NTV.Ord.Setup.discriminantOrd_eq_discr (S : Setup f O n) (t : NTV.Ord.Table) (ht : IsTable f O n t)
    (d : ℤ) (h : discriminantOrd O f = .ok d) : (d : ℚ) = Algebra.discr ℚ (omegaA f O n) := by
  rw [Algebra.discr_def, S.traceMatrix_eq t ht]
  have e : ((NTV.InvDiff.traceMatrix t n).map (Int.castRingHom ℚ)).det
      = (((NTV.InvDiff.traceMatrix t n).det : ℤ) : ℚ) := ((Int.castRingHom ℚ).map_det _).symm
  rw [e]
  have h3 := S.det_traceMatrix t ht
  obtain ⟨d0, fl, hd0, _, hden, hval⟩ := (discriminantOrd_ok_iff O n S.rect f d).mp h
  rw [NTV.C05.discriminant_is_discr f S.canon S.two_le] at hd0
  have hd0' : (toPoly f).discr = d0 := by
    injection hd0 with hd0; exact (Prod.mk.inj hd0).1
  subst hd0'
  have hne : f ≠ [] := by intro e; have := S.len; rw [e] at this; simp at this
  have hcoef : coefAt f (degU f) = lc f := by
    rw [S.degU_eq]
    have := NTV.PolyG.lc_eq_getD f hne
    rw [S.len, Nat.add_sub_cancel] at this
    unfold coefAt
    rw [this]
  rw [← hval]
  unfold discValue
  rw [hcoef, S.degU_eq] at hden ⊢
  rw [Int.cast_pow] at hden ⊢
  rw [div_eq_iff hden]
  rw [h3]; ring

/-- membership in the ℤ-span of the ω_i, through `el` -/
theorem mem_span_omega_iff (x : AdjoinRoot (modulus f)) :
    x ∈ Submodule.span ℤ (Set.range (omegaA f O n)) ↔ ∃ c : Fin n → ℤ, el (qK f) (omegaK f O n) c = x := by
  rw [Submodule.mem_span_range_iff_exists_fun]
  constructor
  · rintro ⟨c, hc⟩; exact ⟨c, (el_eq_sum_zsmul c).trans hc⟩
  · rintro ⟨c, hc⟩; exact ⟨c, (el_eq_sum_zsmul c).symm.trans hc⟩

/-- **a good order that is `p`-maximal at every prime is the integral closure of ℤ in ℚ[X]/(f)** (f irreducible) -/
theorem _root_.NTV.Round2.GoodOrder.integral_iff (g : GoodOrder f n O) (hirr : Irreducible (modulus f))
    (hmax : ∀ p : ℕ, p.Prime → PMaximal f n O p) (x : AdjoinRoot (modulus f)) :
    IsIntegral ℤ x ↔ x ∈ Submodule.span ℤ (Set.range (omegaA f O n)) := by
  obtain ⟨ht, hC⟩ := g.setup.ctx_of_closed g.closed
  have h0 := g.first_row
  have T : TableRing (tableOf f O n) n := tableRing_of_isTable g.setup ht h0
  have one := g.one.el_one g.setup
  have hΩ : omegaK f O n ⟨0, T.pos⟩ = 1 := by
    unfold omegaK
    show cls f (toPoly (O.getD 0 [])) = 1
    rw [h0, toPoly_unit_row]; simp
  let _ := fieldK hirr
  rw [mem_span_omega_iff]
  constructor
  · intro hx
    exact mem_Olat_of_isIntegral hC T hΩ one g.setup.psi_surj
      (fun p hp => (hmax p hp).pmaxK hp.ne_zero g hC one) x hx
  · intro hx
    exact isIntegral_of_mem_Olat hC T hΩ one x hx

/-- **the discriminant of a good order that is `p`-maximal at every prime is the discriminant of the number field
ℚ[X]/(f)** -/
theorem _root_.NTV.Round2.GoodOrder.discr_eq (g : GoodOrder f n O) [hF : Fact (Irreducible (modulus f))]
    (hmax : ∀ p : ℕ, p.Prime → PMaximal f n O p) (d : ℤ) (h : discriminantOrd O f = .ok d) :
    haveI := numberField_adjoinRoot (modulus f)
    d = NumberField.discr (AdjoinRoot (modulus f)) := by
  have := numberField_adjoinRoot (modulus f)
  obtain ⟨ht, _⟩ := g.setup.ctx_of_closed g.closed
  have h1 := g.setup.discriminantOrd_eq_discr _ ht d h
  rw [← g.setup.coe_basisK] at h1
  have h2 := discr_eq_numberField_discr g.setup.basisK (fun x => by
    rw [g.setup.coe_basisK]; exact g.integral_iff hF.out hmax x)
  exact_mod_cast h1.trans h2

end NTV.FieldDisc
