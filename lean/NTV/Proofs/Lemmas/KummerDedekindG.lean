import NTV.Proofs.Lemmas.KummerDedekindF
/-! # Kummer–Dedekind, part G: the theorems on a successful run of `decompose`, in the language of lattices
(`Lat`, `star`, `vec`) and of the model functions (`norm`, `capZ`, `mul`, `principal`). -/
namespace NTV.KD
open NTV.IdealP NTV.Ord NTV.Hnf NTV.DecompP Polynomial Matrix
open NTV.Alg (modulus cls cls_eq_iff)
open NTV.RowOps (toM Rect ent)
open NTV.PolyG (toPoly coeff_toPoly Canon lc degU)
open NTV.PolyMod (mp Good Factors factorizeModP)
open NTV.Ideal (primeAbove decompose wordOf capZ principal)

/-- `Σ_k a_k ω_k = H(θ)` in ℚ[x]/(f): the element of the order with coordinate vector `a` is the value at θ of
the integer polynomial `H` (`NTV.Ord.elt B a` is the stored expression of `Σ a_k ω_k`, a rational polynomial
of degree < n) -/
def EltIs (f : List Int) (B : QMat) (a : List Int) (H : ℤ[X]) : Prop :=
  modulus f ∣ toPoly (elt B a) - H.map (Int.castRingHom ℚ)

variable {f : List Int} {B : QMat} {n : Nat} {t : Table}
variable {Cm : Matrix (Fin n) (Fin n) ℤ} {p : Nat} {s : NTV.Draw.Stream} {res : List (Mat × Nat)}

/-- the ideal of `Rt T` whose lattice is `Lat n P` (arbitrary if there is none) -/
noncomputable def idealOfMat (T : TableRing t n) (P : Mat) : Ideal (Rt T) :=
  Classical.epsilon (fun J => latOf T J = Lat n P)

theorem idealOfMat_eq (T : TableRing t n) {P : Mat} {J : Ideal (Rt T)} (h : Lat n P = latOf T J) :
    idealOfMat T P = J := by
  apply latOf_injective T
  have := Classical.epsilon_spec (p := fun J => latOf T J = Lat n P) ⟨J, h.symm⟩
  rw [← h]
  exact this

namespace Run

theorem ofVec_of_eltIs (R : Run f n B t Cm p s res) (a : List Int) (H : ℤ[X]) (h : EltIs f B a H) :
    ofVec R.tableRing (vec n a) = aeval (thetaOf R.tableRing Cm f) H :=
  ofVec_eq_aeval_of_elt R.setup R.ht R.tableRing R.h0 Cm R.hC R.monic R.natDegree a H ((cls_eq_iff f _ _).mpr h)

/-- every integer polynomial has a coordinate vector -/
theorem exists_eltIs (R : Run f n B t Cm p s res) (H : ℤ[X]) :
    ∃ a : List Int, a.length = n ∧ EltIs f B a H ∧
      ofVec R.tableRing (vec n a) = aeval (thetaOf R.tableRing Cm f) H := by
  refine ⟨List.ofFn (coordOf Cm (H %ₘ toPoly f)), by simp, ?_, ?_⟩
  · unfold EltIs
    rw [← cls_eq_iff]
    unfold elt
    rw [R.setup.cls_comb, vecQ_map_cast]
    have : vecZ (List.ofFn (coordOf Cm (H %ₘ toPoly f))) n = coordOf Cm (H %ₘ toPoly f) :=
      vec_ofFn _
    rw [this]
    exact psiZ_coordOf_mod R.hB Cm R.hC R.monic R.natDegree R.hn H
  · rw [vec_ofFn, aeval_theta R.setup R.ht R.tableRing R.h0 Cm R.hC R.monic R.natDegree]

/-- **(D1) O/pO ≅ 𝔽_p[x]/(f̄).** Every element of the order is congruent modulo p·O to some `H(θ)`,
`H ∈ ℤ[x]`; and `H(θ) ∈ p·O` exactly when `f̄` divides `H̄` in 𝔽_p[x]. -/
theorem mod_p (R : Run f n B t Cm p s res) :
    (∀ x : Fin n → ℤ, ∃ (H : ℤ[X]) (a : List Int) (y : Fin n → ℤ),
      a.length = n ∧ EltIs f B a H ∧ x = vec n a + (p : ℤ) • y) ∧
    (∀ (a : List Int) (H : ℤ[X]), EltIs f B a H →
      ((∃ y : Fin n → ℤ, vec n a = (p : ℤ) • y) ↔
        (toPoly f).map (Int.castRingHom (ZMod p)) ∣ H.map (Int.castRingHom (ZMod p)))) := by
  have : Fact p.Prime := ⟨R.hp⟩
  obtain ⟨fs, _, _, _, H, _⟩ := R.kd
  constructor
  · intro x
    obtain ⟨h, hh⟩ := H.exists_aeval (ofVec R.tableRing x)
    obtain ⟨a, ha1, ha2, ha3⟩ := R.exists_eltIs h
    rw [mem_span_p_iff] at hh
    obtain ⟨y, hy⟩ := hh
    refine ⟨h, a, y, ha1, ha2, ?_⟩
    rw [← ha3] at hy
    have : x - vec n a = (p : ℤ) • y := hy
    rw [← this]; abel
  · intro a h ha
    rw [← H.aeval_mem_span_p_iff, ← R.ofVec_of_eltIs a h ha, mem_span_p_iff]
    rfl

/-- **(D1), as rings**: `Rt T / p·Rt T ≅ 𝔽_p[x]/(f̄)` -/
theorem mod_p_equiv (R : Run f n B t Cm p s res) :
    Nonempty ((Rt R.tableRing ⧸ Ideal.span {(p : Rt R.tableRing)}) ≃+*
      (ZMod p)[X] ⧸ Ideal.span {(toPoly f).map (Int.castRingHom (ZMod p))}) := by
  have : Fact p.Prime := ⟨R.hp⟩
  obtain ⟨fs, _, _, _, H, _⟩ := R.kd
  exact ⟨(Ideal.quotEquivOfEq H.ker_rho.symm).trans (RingHom.quotientKerEquivOfSurjective H.rho_surjective)⟩

theorem degU_eq (R : Run f n B t Cm p s res) : degU f = n := by
  have : f.isEmpty = false := by
    cases hq : f with
    | nil => exact absurd hq R.ne_nil
    | cons a l => rfl
  simp [degU, this, R.hfl]

/-- **(D2) residue ring and norm.** For the i-th returned pair `(P_i, e_i)` and the i-th modular factor
`g_i`: `H(θ) ∈ P_i ⇔ ḡ_i ∣ H̄` (so O/P_i ≅ 𝔽_p[x]/(ḡ_i)); `Ideal::norm P_i = p^{deg g_i}`; `P_i` is a proper
ideal of full rank and `cap_z P_i = p`. -/
theorem quotient (R : Run f n B t Cm p s res) :
    ∃ fs : Factors, factorizeModP f (p : Int) (wordOf p) s = .ok fs ∧ ∃ hl : res.length = fs.length,
      ∀ i : Fin fs.length,
        (∀ (a : List Int) (H : ℤ[X]), EltIs f B a H →
          (vec n a ∈ Lat n (res[i.1]'(by rw [hl]; exact i.2)).1 ↔
            (toPoly fs[i.1].1).map (Int.castRingHom (ZMod p)) ∣ H.map (Int.castRingHom (ZMod p)))) ∧
        NTV.Ideal.norm (res[i.1]'(by rw [hl]; exact i.2)).1 = (p : ℤ) ^ degU fs[i.1].1 ∧
        Lat n (res[i.1]'(by rw [hl]; exact i.2)).1 ≠ ⊤ ∧
        capZ (res[i.1]'(by rw [hl]; exact i.2)).1 = .ok (p : ℤ) ∧
        (∀ z : ℤ, z • e n ⟨0, R.hn⟩ ∈ Lat n (res[i.1]'(by rw [hl]; exact i.2)).1 ↔ (p : ℤ) ∣ z) ∧
        (res[i.1]'(by rw [hl]; exact i.2)).1.length = n := by
  have : Fact p.Prime := ⟨R.hp⟩
  obtain ⟨fs, hfs, hl, _, H, hLat, hfac, _, _⟩ := R.kd
  obtain ⟨fs', hfs', _, hpt, _⟩ := R.core
  rw [hfs] at hfs'; cases hfs'
  refine ⟨fs, hfs, hl, fun i => ?_⟩
  obtain ⟨hL, hNF⟩ := hLat i
  obtain ⟨sh, hmon, hirr, hdvd⟩ := hfac i
  have hmax := H.Pof_isMaximal (toPoly fs[i.1].1) hdvd hirr
  have hne : Lat n (res[i.1]'(by rw [hl]; exact i.2)).1 ≠ ⊤ := by
    rw [hL, ← latOf_top R.tableRing]
    intro h
    exact hmax.ne_top (latOf_injective R.tableRing h)
  obtain ⟨hfull, c, hc1, hc2, hc3, hc4⟩ :=
    capZ_above R.tableRing R.degU_eq p R.hp (hpt i.1 i.2 (by rw [hl]; exact i.2)).2
  have hcp : c = p := by
    rcases hc2 with h | h
    · exact h
    · exact absurd (hc3.mp h) hne
  refine ⟨fun a h ha => ?_, ?_, hne, by rw [hc1, hcp], fun z => by rw [← hcp]; exact hc4 z, hfull⟩
  · rw [hL, mem_latOf, R.ofVec_of_eltIs a h ha]
    exact H.aeval_mem_Pof_iff _ hdvd h
  · obtain ⟨hpos, hcard⟩ := norm_eq_card R.hn hNF hfull
    rw [hL, card_quot_latOf, H.card_quot_Pof _ hdvd hmon] at hcard
    have hgne : fs[i.1].1 ≠ [] := by
      intro e; have := sh.2.2.1; rw [e] at this; simp at this
    have hd : (mp p fs[i.1].1).natDegree = degU fs[i.1].1 := by
      rw [(NTV.PolyMod.natDegree_mp p _ sh.1 hgne).1]
      have : fs[i.1].1.isEmpty = false := by cases hq : fs[i.1].1 <;> simp_all
      simp [degU, this]
    have hd' : ((toPoly fs[i.1].1).map (Int.castRingHom (ZMod p))).natDegree = degU fs[i.1].1 := hd
    rw [hd'] at hcard
    have : NTV.Ideal.norm (res[i.1]'(by rw [hl]; exact i.2)).1 =
        ((NTV.Ideal.norm (res[i.1]'(by rw [hl]; exact i.2)).1).natAbs : ℤ) := by omega
    rw [this, hcard]; push_cast; rfl

/-- **(D3) the returned ideals are prime, indeed maximal.** `a ⋆ b ∈ L(P_i) ⇒ a ∈ L(P_i) ∨ b ∈ L(P_i)`, and
every lattice closed under multiplication by the order that contains `L(P_i)` is `L(P_i)` or ℤⁿ. -/
theorem prime (R : Run f n B t Cm p s res) (i : Nat) (hi : i < res.length) :
    Lat n res[i].1 ≠ ⊤ ∧
    (∀ a b : Fin n → ℤ, star t n a b ∈ Lat n res[i].1 → a ∈ Lat n res[i].1 ∨ b ∈ Lat n res[i].1) ∧
    (∀ L : Submodule ℤ (Fin n → ℤ), (∀ a : Fin n → ℤ, ∀ x ∈ L, star t n a x ∈ L) →
      Lat n res[i].1 ≤ L → L = Lat n res[i].1 ∨ L = ⊤) := by
  have : Fact p.Prime := ⟨R.hp⟩
  obtain ⟨fs, hfs, hl, _, H, hLat, hfac, _, _⟩ := R.kd
  obtain ⟨hL, hNF⟩ := hLat ⟨i, by rw [← hl]; exact hi⟩
  obtain ⟨sh, hmon, hirr, hdvd⟩ := hfac ⟨i, by rw [← hl]; exact hi⟩
  have hmax := H.Pof_isMaximal (toPoly fs[i].1) hdvd hirr
  have hL' : Lat n res[i].1 = latOf R.tableRing (Pof p (thetaOf R.tableRing Cm f) (toPoly fs[i].1)) := hL
  refine ⟨?_, ?_, ?_⟩
  · rw [hL', ← latOf_top R.tableRing]
    intro h
    exact hmax.ne_top (latOf_injective R.tableRing h)
  · intro a b hab
    rw [hL', mem_latOf] at hab
    rw [hL', mem_latOf, mem_latOf]
    rw [ofVec_star] at hab
    exact hmax.isPrime.mem_or_mem hab
  · intro L hLc hle
    rw [hL'] at hle ⊢
    rw [← latOf_idealOfLat R.tableRing L hLc] at hle ⊢
    rw [latOf_le_iff] at hle
    by_cases htop : idealOfLat R.tableRing L hLc = ⊤
    · right; rw [htop, latOf_top]
    · left; rw [hmax.eq_of_le htop hle]

/-- **(D4) the returned ideals are pairwise comaximal, hence pairwise distinct** (as lattices and as the
normal forms returned) -/
theorem distinct (R : Run f n B t Cm p s res) (i j : Nat) (hi : i < res.length) (hj : j < res.length)
    (hij : i ≠ j) :
    Lat n res[i].1 ⊔ Lat n res[j].1 = ⊤ ∧ res[i].1 ≠ res[j].1 := by
  have : Fact p.Prime := ⟨R.hp⟩
  obtain ⟨fs, hfs, hl, _, H, hLat, hfac, hcop, _⟩ := R.kd
  have hL1 : Lat n res[i].1 = latOf R.tableRing (Pof p (thetaOf R.tableRing Cm f) (toPoly fs[i].1)) :=
    (hLat ⟨i, by rw [← hl]; exact hi⟩).1
  have hL2 : Lat n res[j].1 = latOf R.tableRing (Pof p (thetaOf R.tableRing Cm f) (toPoly fs[j].1)) :=
    (hLat ⟨j, by rw [← hl]; exact hj⟩).1
  have hc := hcop ⟨i, by rw [← hl]; exact hi⟩ ⟨j, by rw [← hl]; exact hj⟩
    (by intro h; exact hij (Fin.mk.inj h))
  have hsup : Lat n res[i].1 ⊔ Lat n res[j].1 = ⊤ := by
    rw [hL1, hL2, ← latOf_sup, Pof_sup_eq_top _ _ _ hc, latOf_top]
  refine ⟨hsup, fun heq => ?_⟩
  rw [heq, sup_idem] at hsup
  exact (R.prime j hj).1 hsup

/-- the lattices of the model's product `∏ P_i^{e_i}`, of its factors `P_i^{e_i}` and of `(p)` -/
theorem product_core (R : Run f n B t Cm p s res) [hp : Fact p.Prime] :
    ∃ fs : Factors, factorizeModP f (p : Int) (wordOf p) s = .ok fs ∧ ∃ hl : res.length = fs.length,
    ∃ Q Z : Mat, prodM t res = .ok Q ∧ principal t ((p : ℤ) :: List.replicate (n - 1) 0) = .ok Z ∧
      IsNF n Q ∧ IsNF n Z ∧ Lat n Z = latOf R.tableRing (Ideal.span {(p : Rt R.tableRing)}) ∧
      Lat n Q = latOf R.tableRing
        (∏ i : Fin fs.length, Pof p (thetaOf R.tableRing Cm f) (toPoly fs[i.1].1) ^ fs[i.1].2) ∧
      ∀ i : Fin fs.length, ∃ Qi : Mat,
        powM t (res[i.1]'(by rw [hl]; exact i.2)).1 (res[i.1]'(by rw [hl]; exact i.2)).2 = .ok Qi ∧
        Lat n Qi = latOf R.tableRing (Pof p (thetaOf R.tableRing Cm f) (toPoly fs[i.1].1) ^ fs[i.1].2) := by
  obtain ⟨fs, hfs, hl, he, H, hLat, hfac, hcop, hprod⟩ := R.kd
  refine ⟨fs, hfs, hl, ?_⟩
  set T := R.tableRing with hT
  have hW : ∀ x ∈ res, Wid n x.1 ∧ Lat n x.1 = latOf T (idealOfMat T x.1) := by
    intro x hx
    obtain ⟨i, hi, rfl⟩ := List.mem_iff_getElem.mp hx
    obtain ⟨hL, hNF⟩ := hLat ⟨i, by rw [← hl]; exact hi⟩
    exact ⟨hNF.wid T.pos, by rw [idealOfMat_eq T hL]; exact hL⟩
  obtain ⟨Q, hQ1, hQ2, hQ3⟩ := prodM_spec T res (idealOfMat T) hW
  have hplen : ((p : ℤ) :: List.replicate (n - 1) 0).length = n := by
    have := T.pos; simp; omega
  obtain ⟨Z, hZ1, _, _, hZ4, _⟩ := principal_total T hplen
  refine ⟨Q, Z, hQ1, hZ1, hQ2, isNF_of_principal T.len hplen hZ1, ?_, ?_, ?_⟩
  · rw [hZ4, vec_pelem n T.pos, natCast_eq, latOf_span_singleton]
  · rw [hQ3]
    congr 1
    rw [← Fin.prod_univ_fun_getElem res (fun x => idealOfMat T x.1 ^ x.2)]
    apply Fintype.prod_equiv (finCongr hl)
    intro i
    have hL := (hLat (finCongr hl i)).1
    have h2 := he (finCongr hl i)
    simp only [finCongr_apply, Fin.val_cast] at hL h2 ⊢
    rw [idealOfMat_eq T hL, h2]
  · intro i
    obtain ⟨hL, hNF⟩ := hLat i
    obtain ⟨Qi, h1, _, h3⟩ := powM_spec T (hNF.wid T.pos) hL (res[i.1]'(by rw [hl]; exact i.2)).2
    exact ⟨Qi, h1, by rw [h3, he i]⟩

/-- **(D5) the product, sharp form.** The model's product `∏ P_i^{e_i}` and `(p) = principal (p, 0, …, 0)` are
computed without a panic; `L((p)) = pℤⁿ`; the product is contained in `(p)`; and it **equals** `(p)` (identical
normal forms) exactly when `p` lies in every power `P_i^{e_i}`. -/
theorem product_iff (R : Run f n B t Cm p s res) :
    ∃ Q Z : Mat, prodM t res = .ok Q ∧ principal t ((p : ℤ) :: List.replicate (n - 1) 0) = .ok Z ∧
      (∀ v : Fin n → ℤ, v ∈ Lat n Z ↔ ∃ y : Fin n → ℤ, v = (p : ℤ) • y) ∧
      Lat n Q ≤ Lat n Z ∧
      (Q = Z ↔ ∀ i (hi : i < res.length), ∃ Qi : Mat, powM t res[i].1 res[i].2 = .ok Qi ∧
        (p : ℤ) • e n ⟨0, R.hn⟩ ∈ Lat n Qi) := by
  have : Fact p.Prime := ⟨R.hp⟩
  obtain ⟨fs, hfs, hl, Q, Z, hQ, hZ, nQ, nZ, lZ, lQ, hpow⟩ := R.product_core
  obtain ⟨fs', hfs', _, _, H, _, hfac, hcop, hprod⟩ := R.kd
  rw [hfs] at hfs'; cases hfs'
  set T := R.tableRing with hT
  have hle := H.prod_le (fun i : Fin fs.length => toPoly fs[i.1].1) (fun i => fs[i.1].2) hprod
  have hiff := H.prod_eq_iff (fun i : Fin fs.length => toPoly fs[i.1].1) (fun i => fs[i.1].2) hprod hcop
  refine ⟨Q, Z, hQ, hZ, fun v => by rw [lZ]; exact latOf_span_p T p v, ?_, ?_⟩
  · rw [lQ, lZ, latOf_le_iff]; exact hle
  · have h1 : Q = Z ↔ Lat n Q = Lat n Z := ⟨fun h => by rw [h], fun h => nQ.eq_of_lat_eq nZ T.pos h⟩
    rw [h1, lQ, lZ, (latOf_injective T).eq_iff, hiff]
    constructor
    · intro h i hi
      obtain ⟨Qi, h2, h3⟩ := hpow ⟨i, by rw [← hl]; exact hi⟩
      refine ⟨Qi, h2, ?_⟩
      rw [h3, mem_latOf, ← natCast_eq]
      exact h ⟨i, by rw [← hl]; exact hi⟩
    · intro h i
      obtain ⟨Qi, h2, h3⟩ := h i.1 (by rw [hl]; exact i.2)
      obtain ⟨Qi', h2', h3'⟩ := hpow i
      rw [h2] at h2'; cases h2'
      rw [h3', mem_latOf, ← natCast_eq] at h3
      exact h3

/-- the ideals `(p)` and `∏ P_i^{e_i}` coincide as soon as `p ∈ P_i^{e_i}` for all i, in the abstract form -/
theorem product_of_mem (R : Run f n B t Cm p s res) [hp : Fact p.Prime]
    (h : ∀ fs : Factors, factorizeModP f (p : Int) (wordOf p) s = .ok fs → ∀ i : Fin fs.length,
      (p : Rt R.tableRing) ∈ Pof p (thetaOf R.tableRing Cm f) (toPoly fs[i.1].1) ^ fs[i.1].2) :
    ∃ Z : Mat, prodM t res = .ok Z ∧ principal t ((p : ℤ) :: List.replicate (n - 1) 0) = .ok Z := by
  obtain ⟨fs, hfs, hl, Q, Z, hQ, hZ, nQ, nZ, lZ, lQ, hpow⟩ := R.product_core
  obtain ⟨fs', hfs', _, _, H, _, hfac, hcop, hprod⟩ := R.kd
  rw [hfs] at hfs'; cases hfs'
  have hiff := H.prod_eq_iff (fun i : Fin fs.length => toPoly fs[i.1].1) (fun i => fs[i.1].2) hprod hcop
  have : Q = Z := by
    apply nQ.eq_of_lat_eq nZ R.tableRing.pos
    rw [lQ, lZ, hiff.mpr (h fs hfs)]
  subst this
  exact ⟨Q, hQ, hZ⟩

/-- **(D5) unramified primes**: if every `e_i = 1` then `∏ P_i^{e_i} = (p)` (identical normal forms) -/
theorem product_unramified (R : Run f n B t Cm p s res) (he : ∀ x ∈ res, x.2 = 1) :
    ∃ Z : Mat, prodM t res = .ok Z ∧ principal t ((p : ℤ) :: List.replicate (n - 1) 0) = .ok Z := by
  have : Fact p.Prime := ⟨R.hp⟩
  apply R.product_of_mem
  intro fs hfs i
  obtain ⟨fs', hfs', hl, he', _⟩ := R.kd
  rw [hfs] at hfs'; cases hfs'
  have : fs[i.1].2 = 1 := by
    rw [← he' i]; exact he _ (List.getElem_mem _)
  rw [this, pow_one]
  exact p_mem_Pof _ _

/-- **(D5) maximal order**: if the ring (ℤⁿ, ⋆) of the table is an integrally closed domain (the maximal order
of the number field ℚ(θ)) then `∏ P_i^{e_i} = (p)` (identical normal forms) -/
theorem product_maximal (R : Run f n B t Cm p s res) (hdom : IsDomain (Rt R.tableRing))
    (hic : IsIntegrallyClosed (Rt R.tableRing)) :
    ∃ Z : Mat, prodM t res = .ok Z ∧ principal t ((p : ℤ) :: List.replicate (n - 1) 0) = .ok Z := by
  have : Fact p.Prime := ⟨R.hp⟩
  have hded : IsDedekindDomain (Rt R.tableRing) := isDedekindDomain_of_finite_int (toVec R.tableRing)
  apply R.product_of_mem
  intro fs hfs i
  obtain ⟨fs', hfs', _, _, H, _, hfac, hcop, hprod⟩ := R.kd
  rw [hfs] at hfs'; cases hfs'
  have heq := H.prod_eq_of_dedekind (fun i : Fin fs.length => toPoly fs[i.1].1) (fun i => fs[i.1].2) hprod
    (fun i => (hfac i).2.1) (fun i => by have := (hfac i).1.2.2.2; omega)
  exact ((H.prod_eq_iff (fun i : Fin fs.length => toPoly fs[i.1].1) (fun i => fs[i.1].2) hprod hcop).mp heq) i

/-- for an irreducible `f` the ring of the table is a domain -/
theorem isDomain (R : Run f n B t Cm p s res) (hirr : Irreducible ((toPoly f).map (Int.castRingHom ℚ))) :
    IsDomain (Rt R.tableRing) := by
  have hirr' : Irreducible (modulus f) := by rw [NTV.Ord.modulus_eq_map]; exact hirr
  have : (Ideal.span {modulus f}).IsPrime := (Ideal.span_singleton_prime hirr'.ne_zero).mpr hirr'.prime
  exact (psiHom_injective R.setup R.ht R.tableRing R.h0).isDomain (psiHom R.setup R.ht R.tableRing R.h0)

/-- **(D5) Dedekind's criterion**: write `f = ∏ g_i^{e_i} + p·h`; if no ramified `ḡ_i` (`e_i ≥ 2`) divides `h̄`
then `∏ P_i^{e_i} = (p)` (identical normal forms) -/
theorem product_criterion (R : Run f n B t Cm p s res) (h : ℤ[X])
    (hh : ∀ fs : Factors, factorizeModP f (p : Int) (wordOf p) s = .ok fs →
      toPoly f = NTV.PolyMod.factorProduct fs + C (p : ℤ) * h ∧
      ∀ x ∈ fs, 2 ≤ x.2 → ¬ (toPoly x.1).map (Int.castRingHom (ZMod p)) ∣ h.map (Int.castRingHom (ZMod p))) :
    ∃ Z : Mat, prodM t res = .ok Z ∧ principal t ((p : ℤ) :: List.replicate (n - 1) 0) = .ok Z := by
  classical
  have : Fact p.Prime := ⟨R.hp⟩
  apply R.product_of_mem
  intro fs hfs i
  obtain ⟨fs', hfs', _, _, H, _, hfac, hcop, hprod⟩ := R.kd
  rw [hfs] at hfs'; cases hfs'
  obtain ⟨hF, hnd⟩ := hh fs hfs
  by_cases he : 2 ≤ fs[i.1].2
  · have hsplit : NTV.PolyMod.factorProduct fs =
        toPoly fs[i.1].1 ^ fs[i.1].2 * ∏ j ∈ Finset.univ.erase i, toPoly fs[j.1].1 ^ fs[j.1].2 := by
      unfold NTV.PolyMod.factorProduct
      rw [← Fin.prod_univ_fun_getElem fs (fun x => toPoly x.1 ^ x.2)]
      exact (Finset.mul_prod_erase Finset.univ (fun j : Fin fs.length => toPoly fs[j.1].1 ^ fs[j.1].2)
        (Finset.mem_univ i)).symm
    rw [hsplit] at hF
    exact H.p_mem_pow_of_criterion _ _ h _ hF (hfac i).2.2.2 (hfac i).2.2.1 (hnd _ (List.getElem_mem i.2) he)
  · have h1 : fs[i.1].2 = 1 := by have := (hfac i).1.2.2.2; omega
    rw [h1, pow_one]
    exact p_mem_Pof _ _

end Run

end NTV.KD
