import NTV.Spec.Lll
import NTV.Proofs.Lemmas.LllCheckMath
import NTV.Proofs.Lemmas.RowOpsProofs
import Mathlib.Algebra.BigOperators.Fin
/-! The executable exact Gram–Schmidt data `NTV.Spec.Lll.gso` computes the mathematical
Gram–Schmidt coefficients and squared norms (`NTV.LllCheck.gsMu`, `NTV.LllCheck.bstar`). -/
open Matrix
namespace NTV.LllCheck
open NTV.Spec.Lll NTV.Spec.Mat
variable {m : Nat}

/-- row `i` of the integer list matrix `B`, as a vector of `ℚ^m` (entries via `NTV.RowOps.ent`) -/
def rowQ (m : Nat) (B : List (List Int)) (i : Nat) : Fin m → ℚ := fun c => ((NTV.RowOps.ent B i c : ℤ) : ℚ)

theorem zipWith_ofFn {α β γ : Type} (f : α → β → γ) (u : Fin m → α) (v : Fin m → β) :
    List.zipWith f (List.ofFn u) (List.ofFn v) = List.ofFn (fun i => f (u i) (v i)) := by
  apply List.ext_getElem
  · simp
  · intro i h1 h2
    simp

theorem qdot_ofFn (u v : Fin m → ℚ) : qdot (List.ofFn u) (List.ofFn v) = u ⬝ᵥ v := by
  unfold qdot
  rw [zipWith_ofFn, ← List.sum_eq_foldl, List.sum_ofFn]
  rfl

theorem toQRow_eq (B : List (List Int)) (k : Nat) (hk : k < B.length) (hl : B[k].length = m) :
    toQRow B[k] = List.ofFn (rowQ m B k) := by
  apply List.ext_getElem
  · simp [toQRow, hl]
  · intro i h1 h2
    simp [toQRow, rowQ, NTV.RowOps.ent, List.getD_eq_getElem?_getD, List.getElem?_eq_getElem hk]
    have : i < B[k].length := by simpa [toQRow] using h1
    simp [List.getElem?_eq_getElem this]

/-- the subtraction fold of `gsoStep` -/
theorem fold_sub (ps : List (ℚ × (Fin m → ℚ))) (v : Fin m → ℚ) :
    (ps.map (fun p => (p.1, (List.ofFn p.2, p.2 ⬝ᵥ p.2)))).foldl
      (fun (acc : List Rat) (p : Rat × (List Rat × Rat)) =>
        List.zipWith (fun x y => x - p.1 * y) acc p.2.1) (List.ofFn v)
      = List.ofFn (v - (ps.map (fun p => p.1 • p.2)).sum) := by
  induction ps generalizing v with
  | nil => simp
  | cons p ps ih =>
    simp only [List.map_cons, List.foldl_cons, List.sum_cons]
    rw [zipWith_ofFn]
    have : (fun i => v i - p.1 * p.2 i) = v - p.1 • p.2 := by
      funext i; simp
    rw [this, ih]
    congr 1
    abel

/-- the list of pairs `(b*_j, ‖b*_j‖²)`, `j < k`, as the checker stores it -/
def prevL (b : Nat → Fin m → ℚ) (k : Nat) : List (List ℚ × ℚ) :=
  (List.range k).map (fun j => (List.ofFn (bstar b j), bstar b j ⬝ᵥ bstar b j))

/-- the table of `μ_{i,j}` (`j < i < k`) as the checker stores it -/
def muL (b : Nat → Fin m → ℚ) (k : Nat) : List (List ℚ) :=
  (List.range k).map (fun i => (List.range i).map (fun j => gsMu b i j))

theorem gsoStep_eq (b : Nat → Fin m → ℚ) (k : Nat) :
    gsoStep (prevL b k) (List.ofFn (b k)) = ((List.range k).map (fun j => gsMu b k j), List.ofFn (bstar b k)) := by
  have hmus : (prevL b k).map (fun (bs, nb) => if nb == 0 then 0 else qdot (List.ofFn (b k)) bs / nb)
      = (List.range k).map (fun j => gsMu b k j) := by
    unfold prevL
    rw [List.map_map]
    apply List.map_congr_left
    intro j _
    simp only [Function.comp_apply, qdot_ofFn, beq_iff_eq]
    unfold gsMu
    split_ifs with h
    · rw [h, div_zero]
    · rfl
  unfold gsoStep
  simp only [hmus]
  congr 1
  have hz : List.zip ((List.range k).map (fun j => gsMu b k j)) (prevL b k)
      = ((List.range k).map (fun j => (gsMu b k j, bstar b j))).map
          (fun p => (p.1, (List.ofFn p.2, p.2 ⬝ᵥ p.2))) := by
    unfold prevL
    rw [List.zip_map', List.map_map]
    rfl
  rw [hz, fold_sub, List.map_map, bstar_eq b k]
  congr 2

/-- the state transformer of `gso`, with the pattern matching spelled out by projections -/
def gsoF (st : List (List Rat) × List (List Rat × Rat)) (row : List Int) :
    List (List Rat) × List (List Rat × Rat) :=
  (st.1 ++ [(gsoStep st.2 (toQRow row)).1],
   st.2 ++ [((gsoStep st.2 (toQRow row)).2, qnormSq (gsoStep st.2 (toQRow row)).2)])

theorem gso_unfold (B : List (List Int)) :
    gso B = ((B.foldl gsoF ([], [])).1, (B.foldl gsoF ([], [])).2.map (·.2)) := rfl

theorem gso_fold_take {n : Nat} (B : List (List Int)) (hr : NTV.RowOps.Rect n m B) (k : Nat) (hk : k ≤ n) :
    (B.take k).foldl gsoF ([], []) = (muL (rowQ m B) k, prevL (rowQ m B) k) := by
  induction k with
  | zero => simp [muL, prevL]
  | succ k ih =>
    have hkl : k < B.length := by rw [hr.1]; omega
    rw [List.take_add_one, List.foldl_append, ih (by omega), List.getElem?_eq_getElem hkl]
    simp only [Option.toList_some, List.foldl_cons, List.foldl_nil]
    unfold gsoF
    simp only
    rw [toQRow_eq B k hkl (hr.2 _ (List.getElem_mem hkl)), gsoStep_eq]
    simp only [qnormSq, qdot_ofFn]
    simp [muL, prevL, List.range_succ]

/-- **(a) the checker's Gram–Schmidt data, in closed form**: for an `n × m` integer matrix `B` the pair
`gso B` is the table of the mathematical `μ_{i,j}` (`j < i < n`) and the list of the `‖b*_i‖²`. -/
theorem gso_eq {n : Nat} (B : List (List Int)) (hr : NTV.RowOps.Rect n m B) :
    gso B = (muL (rowQ m B) n, (List.range n).map (fun i => bstar (rowQ m B) i ⬝ᵥ bstar (rowQ m B) i)) := by
  have h := gso_fold_take B hr n le_rfl
  rw [← hr.1, List.take_length] at h
  rw [gso_unfold, h, hr.1]
  simp [prevL]

/-- **(a) `gso_spec`**: shape of the tables and meaning of every entry. -/
theorem gso_spec {n : Nat} (B : List (List Int)) (hr : NTV.RowOps.Rect n m B) :
    (gso B).1.length = n ∧ (∀ i, i < n → ((gso B).1.getD i []).length = i) ∧ (gso B).2.length = n ∧
    (∀ i j, j < i → i < n → mu (gso B) i j = gsMu (rowQ m B) i j) ∧
    (∀ i, i < n → bn (gso B) i = bstar (rowQ m B) i ⬝ᵥ bstar (rowQ m B) i) := by
  rw [gso_eq B hr]
  refine ⟨by simp [muL], ?_, by simp, ?_, ?_⟩
  · intro i hi
    simp [muL, List.getD_eq_getElem?_getD, hi]
  · intro i j hj hi
    simp [mu, muL, List.getD_eq_getElem?_getD, hi, hj]
  · intro i hi
    simp [bn, List.getD_eq_getElem?_getD, hi]

example : gso [[1, 1, 1], [-1, 0, 2], [3, 5, 6]] =
    ([[], [1/3], [14/3, 13/14]], [3, 14/3, 9/14]) := by decide +kernel

end NTV.LllCheck
