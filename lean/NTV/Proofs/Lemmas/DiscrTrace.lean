import NTV.Proofs.Lemmas.NormResAdj
import Mathlib.RingTheory.Trace.Basic
import Mathlib.RingTheory.Discriminant
import Mathlib.LinearAlgebra.Matrix.Block
import Mathlib.GroupTheory.Perm.Fin
/-! Discriminant of the power basis `1, θ, …, θ^(n-1)` of `k[X]/(F)` with respect to the trace form:
`discr(1,θ,…,θ^(n-1)) · lc(F)^(2n-2) = ± discr F`, for an arbitrary non-zero `F` of degree `n ≥ 1` over a field
(not assumed irreducible, separable or monic; any characteristic). -/
open Polynomial Matrix
namespace NTV.DiscrTrace

section Sign
open Equiv

theorem revPerm_succ (n : ℕ) :
    finRotate (n + 1) * (Fin.revPerm : Perm (Fin (n + 1)))
      = Equiv.Perm.decomposeFin.symm (0, (Fin.revPerm : Perm (Fin n))) := by
  ext x
  refine Fin.cases ?_ (fun y => ?_) x
  · simp
  · simp [Fin.rev_succ]

theorem sign_revPerm (n : ℕ) :
    Equiv.Perm.sign (Fin.revPerm : Perm (Fin n)) = (-1) ^ (n * (n - 1) / 2) := by
  induction n with
  | zero => simp [Subsingleton.elim (Fin.revPerm : Perm (Fin 0)) 1]
  | succ n ih =>
    have h := congrArg Equiv.Perm.sign (revPerm_succ n)
    rw [map_mul, sign_finRotate, Equiv.Perm.decomposeFin.symm_sign, ih, Nat.add_sub_cancel, if_pos rfl, one_mul] at h
    have e : (n + 1) * (n + 1 - 1) / 2 = n * (n - 1) / 2 + n := by
      rcases n with _ | n
      · rfl
      · have : (n + 1 + 1) * (n + 1 + 1 - 1) = (n + 1) * (n + 1 - 1) + 2 * (n + 1) := by
          simp only [Nat.add_sub_cancel]; ring
        rw [this, Nat.add_mul_div_left _ _ (by norm_num)]
    rw [e, pow_add]
    have h2 : ((-1 : ℤˣ) ^ n) * ((-1) ^ n * Equiv.Perm.sign (Fin.revPerm : Perm (Fin (n+1)))) = (-1) ^ n * (-1) ^ (n * (n - 1) / 2) := by
      rw [h]
    rw [← mul_assoc, ← mul_pow] at h2
    simpa [mul_comm] using h2

end Sign

section Poly
variable {R : Type*} [CommRing R]

/-- iterated `divX`: `D m P = Σ_{l} P_{l+m} X^l` -/
noncomputable def D (m : ℕ) (P : R[X]) : R[X] := divX^[m] P

theorem D_zero (P : R[X]) : D 0 P = P := rfl

theorem D_succ (m : ℕ) (P : R[X]) : D (m + 1) P = D m (divX P) := by
  simp [D, Function.iterate_succ_apply]

theorem D_succ' (m : ℕ) (P : R[X]) : D (m + 1) P = divX (D m P) := by
  simp [D, Function.iterate_succ_apply']

theorem coeff_D (m i : ℕ) (P : R[X]) : (D m P).coeff i = P.coeff (i + m) := by
  induction m generalizing i with
  | zero => simp [D_zero]
  | succ m ih => rw [D_succ', coeff_divX, ih]; congr 1; omega

theorem natDegree_D_le (m : ℕ) (P : R[X]) : (D m P).natDegree ≤ P.natDegree - m := by
  rw [natDegree_le_iff_coeff_eq_zero]
  intro N hN
  rw [coeff_D]
  exact coeff_eq_zero_of_natDegree_lt (by omega)

/-- `D m P = X * D (m+1) P + C (P_m)` -/
theorem D_eq (m : ℕ) (P : R[X]) : D m P = X * D (m + 1) P + C (P.coeff m) := by
  rw [D_succ']
  conv_lhs => rw [← X_mul_divX_add (D m P)]
  rw [coeff_D, zero_add]

/-- `Σ_{i<N} X^i · D (i+1) P = P'` when `deg P ≤ N`. -/
theorem sum_X_pow_mul_D (N : ℕ) (P : R[X]) (h : P.natDegree ≤ N) :
    ∑ i ∈ Finset.range N, X ^ i * D (i + 1) P = derivative P := by
  induction N generalizing P with
  | zero =>
    rw [Nat.le_zero] at h
    rw [eq_C_of_natDegree_eq_zero h]; simp
  | succ N ih =>
    rw [Finset.sum_range_succ']
    have h1 : (divX P).natDegree ≤ N := by
      rw [natDegree_divX_eq_natDegree_tsub_one]; omega
    have h2 : ∀ i ∈ Finset.range N, X ^ (i + 1) * D (i + 1 + 1) P = X * (X ^ i * D (i + 1) (divX P)) := by
      intro i _
      rw [D_succ (i + 1)]; ring
    rw [Finset.sum_congr rfl h2, ← Finset.mul_sum, ih _ h1]
    have h3 : derivative P = derivative (X * divX P + C (P.coeff 0)) := by rw [X_mul_divX_add]
    rw [h3, D_succ, D_zero, derivative_add, derivative_mul, derivative_C, derivative_X]
    ring

end Poly

section Adj
variable {k : Type*} [Field k] (F : k[X]) (hF : F ≠ 0)

/-- the power basis `1, θ, …` of `k[X]/(F)` as a plain basis -/
noncomputable abbrev bas : Module.Basis (Fin F.natDegree) k (AdjoinRoot F) := AdjoinRoot.powerBasisAux hF

theorem bas_apply (i : Fin F.natDegree) : bas F hF i = AdjoinRoot.root F ^ (i : ℕ) := by
  simp [bas, AdjoinRoot.powerBasisAux]

theorem bas_apply_mk (i : Fin F.natDegree) : bas F hF i = AdjoinRoot.mk F (X ^ (i : ℕ)) := by
  rw [bas_apply, map_pow, AdjoinRoot.mk_X]

theorem repr_mk (P : k[X]) (hP : P.natDegree < F.natDegree) (i : Fin F.natDegree) :
    (bas F hF).repr (AdjoinRoot.mk F P) i = P.coeff i := by
  have h1 : AdjoinRoot.mk F P = ∑ j : Fin F.natDegree, P.coeff j • bas F hF j := by
    rw [← AdjoinRoot.aeval_eq, aeval_eq_sum_range' hP, ← Fin.sum_univ_eq_sum_range
      (fun j => P.coeff j • AdjoinRoot.root F ^ j)]
    simp only [bas_apply]
  rw [h1, Module.Basis.repr_sum_self]

variable (hn : 1 ≤ F.natDegree)

/-- last coordinate `λ` w.r.t. the power basis -/
noncomputable def lam : AdjoinRoot F →ₗ[k] k := (bas F hF).coord ⟨F.natDegree - 1, by omega⟩

theorem lam_mk (P : k[X]) (hP : P.natDegree < F.natDegree) :
    lam F hF hn (AdjoinRoot.mk F P) = P.coeff (F.natDegree - 1) := by
  rw [lam, Module.Basis.coord_apply, repr_mk F hF P hP]

theorem lam_root_pow (i : ℕ) (hi : i < F.natDegree) :
    lam F hF hn (AdjoinRoot.root F ^ i) = if i = F.natDegree - 1 then 1 else 0 := by
  rw [← AdjoinRoot.mk_X, ← map_pow, lam_mk F hF hn _ (by rw [natDegree_X_pow]; exact hi), coeff_X_pow]
  simp only [eq_comm]

theorem lam_pow_mul_D_lt (i : ℕ) (hi : i < F.natDegree) (m : ℕ) (hm : i < m) :
    lam F hF hn (AdjoinRoot.root F ^ i * AdjoinRoot.mk F (D m F))
      = if i + 1 = m then F.leadingCoeff else 0 := by
  rw [← AdjoinRoot.mk_X, ← map_pow, ← map_mul, lam_mk, coeff_X_pow_mul', if_pos (by omega), coeff_D]
  · split_ifs with h
    · subst h
      rw [leadingCoeff]; congr 1; omega
    · exact coeff_eq_zero_of_natDegree_lt (by omega)
  · refine lt_of_le_of_lt natDegree_mul_le ?_
    have := natDegree_D_le m F
    rw [natDegree_X_pow]; omega

theorem lam_pow_mul_D_ge (i : ℕ) (hi : i < F.natDegree) (m : ℕ) (hm : m ≤ i) :
    lam F hF hn (AdjoinRoot.root F ^ i * AdjoinRoot.mk F (D m F)) = 0 := by
  induction m generalizing i with
  | zero => rw [D_zero, AdjoinRoot.mk_self, mul_zero, map_zero]
  | succ m ih =>
    obtain ⟨i, rfl⟩ : ∃ i', i = i' + 1 := ⟨i - 1, by omega⟩
    have h1 : AdjoinRoot.root F ^ (i + 1) * AdjoinRoot.mk F (D (m + 1) F)
        = AdjoinRoot.root F ^ i * AdjoinRoot.mk F (D m F) - F.coeff m • AdjoinRoot.root F ^ i := by
      rw [D_eq m F, map_add, map_mul, AdjoinRoot.mk_X, AdjoinRoot.mk_C, Algebra.smul_def,
        AdjoinRoot.algebraMap_eq]
      ring
    rw [h1, map_sub, map_smul, ih i (by omega) (by omega), lam_root_pow F hF hn i (by omega),
      if_neg (by omega)]
    simp

/-- Claim A: `λ(θ^i · b_{m-1}) = lc(F)·δ_{i+1,m}` where `b_{m-1} = D m F (θ)`. -/
theorem lam_pow_mul_D (i : ℕ) (hi : i < F.natDegree) (m : ℕ) :
    lam F hF hn (AdjoinRoot.root F ^ i * AdjoinRoot.mk F (D m F))
      = if i + 1 = m then F.leadingCoeff else 0 := by
  rcases Nat.lt_or_ge i m with h | h
  · exact lam_pow_mul_D_lt F hF hn i hi m h
  · rw [lam_pow_mul_D_ge F hF hn i hi m h, if_neg (by omega)]

/-- Claim B: coordinates via the dual family: `lc(F) · y_i = λ(y · b_i)`. -/
theorem lam_mul_D (y : AdjoinRoot F) (i : Fin F.natDegree) :
    lam F hF hn (y * AdjoinRoot.mk F (D (i + 1) F)) = F.leadingCoeff * (bas F hF).repr y i := by
  have h : (lam F hF hn) ∘ₗ (LinearMap.mulRight k (AdjoinRoot.mk F (D (i + 1) F)))
      = F.leadingCoeff • (bas F hF).coord i := by
    refine (bas F hF).ext fun l => ?_
    simp only [LinearMap.comp_apply, LinearMap.mulRight_apply, LinearMap.smul_apply,
      Module.Basis.coord_apply, Module.Basis.repr_self, smul_eq_mul]
    rw [bas_apply, lam_pow_mul_D F hF hn l l.2, Finsupp.single_apply]
    by_cases hli : l = i
    · simp [hli]
    · rw [if_neg hli, if_neg (by intro h; apply hli; ext; omega), mul_zero]
  have := congrArg (fun f => f y) h
  simpa using this

/-- Claim C: `lc(F) · Tr(x) = λ(x · F'(θ))`. -/
theorem lc_mul_trace (x : AdjoinRoot F) :
    F.leadingCoeff * Algebra.trace k (AdjoinRoot F) x
      = lam F hF hn (x * AdjoinRoot.mk F (derivative F)) := by
  rw [Algebra.trace_eq_matrix_trace (bas F hF), Matrix.trace, Finset.mul_sum]
  simp only [Matrix.diag_apply, Algebra.leftMulMatrix_eq_repr_mul]
  rw [← sum_X_pow_mul_D F.natDegree F le_rfl, map_sum, Finset.mul_sum, map_sum,
    ← Fin.sum_univ_eq_sum_range (fun i => lam F hF hn (x * AdjoinRoot.mk F (X ^ i * D (i + 1) F)))]
  refine Finset.sum_congr rfl fun i _ => ?_
  rw [← lam_mul_D F hF hn, (AdjoinRoot.mk F).map_mul, ← bas_apply_mk F hF, mul_assoc]

/-- the Hankel matrix `Λ_{i m} = λ(θ^{i+m})` -/
noncomputable def Lam : Matrix (Fin F.natDegree) (Fin F.natDegree) k :=
  Matrix.of fun i m => lam F hF hn (bas F hF i * bas F hF m)

/-- `lc(F) • G = Λ * M`, `G` the Gram matrix of the trace form, `M` the matrix of multiplication by `F'(θ)`. -/
theorem lc_smul_traceMatrix :
    F.leadingCoeff • Algebra.traceMatrix k (bas F hF)
      = Lam F hF hn * Algebra.leftMulMatrix (bas F hF) (AdjoinRoot.mk F (derivative F)) := by
  ext i j
  rw [Matrix.smul_apply, Algebra.traceMatrix_apply, Algebra.traceForm_apply, smul_eq_mul,
    lc_mul_trace F hF hn, Matrix.mul_apply]
  have h1 : bas F hF j * AdjoinRoot.mk F (derivative F)
      = ∑ m, Algebra.leftMulMatrix (bas F hF) (AdjoinRoot.mk F (derivative F)) m j • bas F hF m := by
    simp only [Algebra.leftMulMatrix_eq_repr_mul]
    rw [Module.Basis.sum_repr, mul_comm]
  rw [mul_assoc, h1, Finset.mul_sum, map_sum]
  refine Finset.sum_congr rfl fun m _ => ?_
  rw [mul_smul_comm, map_smul, smul_eq_mul, mul_comm, Lam, Matrix.of_apply]

theorem Lam_apply_of_le (i m : Fin F.natDegree) (h : (i : ℕ) + m ≤ F.natDegree - 1) :
    Lam F hF hn i m = if (i : ℕ) + m = F.natDegree - 1 then 1 else 0 := by
  rw [Lam, Matrix.of_apply, bas_apply, bas_apply, ← pow_add, lam_root_pow F hF hn _ (by omega)]

theorem det_Lam_submatrix : ((Lam F hF hn).submatrix id Fin.revPerm).det = 1 := by
  rw [Matrix.det_of_isLowerTriangular]
  · refine Finset.prod_eq_one fun i _ => ?_
    rw [Matrix.submatrix_apply, id, Fin.revPerm_apply, Lam_apply_of_le F hF hn _ _ (by rw [Fin.val_rev]; omega),
      if_pos (by rw [Fin.val_rev]; omega)]
  · intro i j hij
    have hij' : i < j := hij
    rw [Fin.lt_def] at hij'
    rw [Matrix.submatrix_apply, id, Fin.revPerm_apply, Lam_apply_of_le F hF hn _ _ (by rw [Fin.val_rev]; omega),
      if_neg (by rw [Fin.val_rev]; omega)]

theorem det_Lam : (Lam F hF hn).det = 1 ∨ (Lam F hF hn).det = -1 := by
  have h := det_Lam_submatrix F hF hn
  rw [Matrix.det_permute'] at h
  rcases Int.units_eq_one_or (Equiv.Perm.sign (Fin.revPerm : Equiv.Perm (Fin F.natDegree))) with h1 | h1
  · left; simpa [h1] using h
  · right
    rw [h1] at h
    have : -(Lam F hF hn).det = 1 := by simpa using h
    rw [← this, neg_neg]

theorem det_Lam_eq : (Lam F hF hn).det = (-1) ^ (F.natDegree * (F.natDegree - 1) / 2) := by
  have h := det_Lam_submatrix F hF hn
  rw [Matrix.det_permute', sign_revPerm] at h
  have h2 : ((-1 : k) ^ (F.natDegree * (F.natDegree - 1) / 2)) * (Lam F hF hn).det = 1 := by
    simpa using h
  have h3 : ((-1 : k) ^ (F.natDegree * (F.natDegree - 1) / 2))
      * ((-1 : k) ^ (F.natDegree * (F.natDegree - 1) / 2)) = 1 := by
    rw [← mul_pow]; simp
  calc (Lam F hF hn).det
      = ((-1 : k) ^ (F.natDegree * (F.natDegree - 1) / 2) * (-1 : k) ^ (F.natDegree * (F.natDegree - 1) / 2))
          * (Lam F hF hn).det := by rw [h3, one_mul]
    _ = _ := by rw [mul_assoc, h2, mul_one]

include hF in
/-- `N(F'(θ)) · lc(F)^(n-1) = Res(F, F', n, n-1)` in any characteristic. -/
theorem norm_deriv_mul_pow :
    Algebra.norm k (AdjoinRoot.mk F (derivative F)) * F.leadingCoeff ^ (F.natDegree - 1)
      = resultant F (derivative F) F.natDegree (F.natDegree - 1) := by
  obtain ⟨c, hc⟩ : ∃ c, F.natDegree - 1 = (derivative F).natDegree + c :=
    ⟨F.natDegree - 1 - (derivative F).natDegree, by have := natDegree_derivative_le F; omega⟩
  rw [hc, resultant_add_right_deg _ _ _ _ c le_rfl, ← NTV.NormRes.norm_mk_mul_pow F _ hF,
    coeff_natDegree, pow_add]
  ring

theorem lc_pow_mul_discr :
    F.leadingCoeff ^ F.natDegree * Algebra.discr k (bas F hF)
      = (Lam F hF hn).det * Algebra.norm k (AdjoinRoot.mk F (derivative F)) := by
  have h := congrArg Matrix.det (lc_smul_traceMatrix F hF hn)
  rw [Matrix.det_smul, Matrix.det_mul, Fintype.card_fin, ← Algebra.norm_eq_matrix_det] at h
  exact h

include hn in
theorem discr_bas :
    Algebra.discr k (bas F hF) * F.leadingCoeff ^ (2 * F.natDegree - 2) = F.discr := by
  have hl : F.leadingCoeff ≠ 0 := leadingCoeff_ne_zero.mpr hF
  have h1 := lc_pow_mul_discr F hF hn
  have h2 := norm_deriv_mul_pow F hF
  rw [resultant_deriv (natDegree_pos_iff_degree_pos.mp (by omega))] at h2
  rw [det_Lam_eq] at h1
  have hs : ((-1 : k) ^ (F.natDegree * (F.natDegree - 1) / 2))
      * ((-1 : k) ^ (F.natDegree * (F.natDegree - 1) / 2)) = 1 := by
    rw [← mul_pow]; simp
  apply mul_left_cancel₀ (pow_ne_zero F.natDegree hl)
  have e1 : 2 * F.natDegree - 2 = (F.natDegree - 1) + (F.natDegree - 1) := by omega
  have e2 : F.leadingCoeff ^ F.natDegree = F.leadingCoeff ^ (F.natDegree - 1) * F.leadingCoeff := by
    rw [← pow_succ]; congr 1; omega
  calc F.leadingCoeff ^ F.natDegree * (Algebra.discr k (bas F hF) * F.leadingCoeff ^ (2 * F.natDegree - 2))
      = (F.leadingCoeff ^ F.natDegree * Algebra.discr k (bas F hF)) * F.leadingCoeff ^ (2 * F.natDegree - 2) := by
        ring
    _ = (-1) ^ (F.natDegree * (F.natDegree - 1) / 2)
          * (Algebra.norm k (AdjoinRoot.mk F (derivative F)) * F.leadingCoeff ^ (F.natDegree - 1))
          * F.leadingCoeff ^ (F.natDegree - 1) := by rw [h1, e1, pow_add]; ring
    _ = ((-1) ^ (F.natDegree * (F.natDegree - 1) / 2) * (-1) ^ (F.natDegree * (F.natDegree - 1) / 2))
          * (F.leadingCoeff ^ (F.natDegree - 1) * F.leadingCoeff) * F.discr := by rw [h2]; ring
    _ = _ := by rw [hs, ← e2, one_mul]

end Adj

/-- **Discriminant of the power basis of `k[X]/(F)` w.r.t. the trace form** (exact sign): for any non-zero `F`
of degree `n ≥ 1` over a field (any characteristic; `F` need not be irreducible, separable or monic)
`discr(1, θ, …, θ^(n-1)) · lc(F)^(2n-2) = discr F`  (`Polynomial.discr`, Mathlib's sign convention). -/
theorem discr_powerBasis_adjoinRoot_eq {k : Type*} [Field k] (F : k[X]) (hF : F ≠ 0) (hn : 1 ≤ F.natDegree) :
    Algebra.discr k (AdjoinRoot.powerBasis hF).basis * F.leadingCoeff ^ (2 * F.natDegree - 2) = F.discr :=
  discr_bas F hF hn

/-- The same, up to sign (the form requested by the callers). -/
theorem discr_powerBasis_adjoinRoot {k : Type*} [Field k] (F : k[X]) (hF : F ≠ 0) (hn : 1 ≤ F.natDegree) :
    ∃ ε : k, (ε = 1 ∨ ε = -1) ∧
      Algebra.discr k (AdjoinRoot.powerBasis hF).basis * F.leadingCoeff ^ (2 * F.natDegree - 2)
        = ε * F.discr :=
  ⟨1, Or.inl rfl, by rw [discr_powerBasis_adjoinRoot_eq F hF hn, one_mul]⟩

/-- Sanity check on `2X²+1` over `ℚ`: `Tr`-Gram matrix of `(1, θ)` is `diag(2, -1)`, `lc² = 4`, and
`discr (2X²+1) = 0² - 4·1·2 = -8 = (-2)·4`. -/
example :
    Algebra.discr ℚ (AdjoinRoot.powerBasis (show (C 2 * X ^ 2 + 1 : ℚ[X]) ≠ 0 from
        fun h => by simpa using congrArg (fun p => p.coeff 0) h)).basis = -2 := by
  have key : ∀ hF0 : (C 2 * X ^ 2 + 1 : ℚ[X]) ≠ 0,
      Algebra.discr ℚ (AdjoinRoot.powerBasis hF0).basis = -2 := by
    intro hF0
    have hd : (C 2 * X ^ 2 + 1 : ℚ[X]).natDegree = 2 := by compute_degree!
    have hdeg : (C 2 * X ^ 2 + 1 : ℚ[X]).degree = 2 := by
      rw [degree_eq_natDegree hF0, hd]; rfl
    have hl : (C 2 * X ^ 2 + 1 : ℚ[X]).leadingCoeff = 2 := by
      rw [leadingCoeff, hd]; simp [coeff_X_pow, coeff_one]
    have h := discr_powerBasis_adjoinRoot_eq (C 2 * X ^ 2 + 1 : ℚ[X]) hF0 (by omega)
    rw [discr_of_degree_eq_two hdeg, hd, hl] at h
    generalize Algebra.discr ℚ (AdjoinRoot.powerBasis hF0).basis = d at h ⊢
    simp [coeff_X_pow, coeff_one] at h
    linarith
  exact key _

end NTV.DiscrTrace
