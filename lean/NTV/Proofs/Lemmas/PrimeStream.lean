import NTV.Proofs.Lemmas.PrimeProofs
namespace NTV.Prime

theorem powModLoop_spec (n : Nat) (f base e acc : Nat) (he : e < 2 ^ f) :
    powModLoop n f base e acc % n = acc * base ^ e % n := by
  induction f generalizing base e acc with
  | zero =>
    have : e = 0 := by simpa using he
    subst this; simp [powModLoop]
  | succ f ih =>
    simp only [powModLoop]
    split
    · rename_i h0; subst h0; simp
    · rename_i h0
      have he2 : e / 2 < 2 ^ f := by
        rw [Nat.pow_succ] at he; omega
      rw [ih _ _ _ he2]
      have hdecomp : e = 2 * (e / 2) + e % 2 := by omega
      have hsq : (base * base % n) ^ (e / 2) % n = (base * base) ^ (e / 2) % n := by
        rw [Nat.pow_mod (base * base % n), Nat.mod_mod, ← Nat.pow_mod]
      split
      · rename_i hodd
        conv_rhs => rw [hdecomp, hodd, pow_add, pow_mul, pow_one]
        rw [Nat.mul_mod, hsq, Nat.mod_mod, ← Nat.mul_mod]
        have : base ^ 2 = base * base := by ring
        rw [this]; ring_nf
      · rename_i hodd
        have hev : e % 2 = 0 := by omega
        conv_rhs => rw [hdecomp, hev, add_zero, pow_mul]
        rw [Nat.mul_mod, hsq, ← Nat.mul_mod]
        have : base ^ 2 = base * base := by ring
        rw [this]

theorem powModLoop_lt (n : Nat) (hn : 0 < n) (f base e acc : Nat) (hacc : acc < n) :
    powModLoop n f base e acc < n := by
  induction f generalizing base e acc with
  | zero => simpa [powModLoop] using hacc
  | succ f ih =>
    simp only [powModLoop]
    split
    · exact hacc
    · apply ih
      split
      · exact Nat.mod_lt _ hn
      · exact hacc

/-- `modpow` computes b^e mod n -/
theorem powMod_eq (b e n : Nat) (hn : 0 < n) : powMod b e n = b ^ e % n := by
  unfold powMod
  have hlt : powModLoop n (e.log2 + 1) (b % n) e (1 % n) < n :=
    powModLoop_lt n hn _ _ _ _ (Nat.mod_lt _ hn)
  have h := powModLoop_spec n (e.log2 + 1) (b % n) e (1 % n) (Nat.lt_log2_self)
  rw [Nat.mod_eq_of_lt hlt] at h
  rw [h, Nat.mul_mod, Nat.mod_mod, ← Nat.pow_mod, ← Nat.mul_mod, one_mul]

theorem mrRoundFast_eq (n d c r : Nat) (hn : 0 < n) : mrRoundFast n d c r = mrRound n d c r := by
  unfold mrRoundFast mrRound; rw [powMod_eq _ _ _ hn]

/-- for a prime n > 2 no sequence of draws makes a round fail -/
theorem rounds_prime (p : Nat) [hp : Fact p.Prime] (hp2 : 2 < p) (d c : Nat)
    (hdc : splitTwos p (p - 1) 0 = (d, c)) (k : Nat) (s : NTV.Draw.Stream) :
    ∀ rest, roundsS p d c k s ≠ some (false, rest) := by
  induction k generalizing s with
  | zero => simp [roundsS]
  | succ k ih =>
    simp only [roundsS]
    split
    · simp
    · rename_i r s' hdraw
      -- the drawn base lies in [1, p)
      have hr : 1 ≤ r ∧ r < (p : Int) := by
        unfold NTV.Draw.range at hdraw
        split at hdraw
        · simp at hdraw
        · rename_i v rest hb
          simp only [Option.some.injEq, Prod.mk.injEq] at hdraw
          have := NTV.Draw.below_lt _ _ _ _ hb
          obtain ⟨rfl, _⟩ := hdraw
          omega
      have hround : mrRoundFast p d c r.toNat = true := by
        rw [mrRoundFast_eq _ _ _ _ (by omega)]
        have := mrRound_prime p hp2 r.toNat (by omega) (by omega)
        rw [hdc] at this
        exact this
      rw [hround]; simp only [↓reduceIte]; exact ih s'

end NTV.Prime
