import NTV.Model.Hnf
import Mathlib.LinearAlgebra.Matrix.Determinant.Basic
import Mathlib.LinearAlgebra.Matrix.RowCol
import Mathlib.Tactic.Ring
import Mathlib.Tactic.Linarith
open Matrix
namespace NTV.Hnf

def toM (n m : Nat) (a : Mat) : Matrix (Fin n) (Fin m) ℤ := fun i j => ent a i j

def Rect (n m : Nat) (a : Mat) : Prop := a.length = n ∧ ∀ r ∈ a, r.length = m

theorem ent_modify (a : Mat) (j : Nat) (f : Row → Row) (i c : Nat) :
    ent (a.modify j f) i c = if i = j ∧ j < a.length then (f (a.getD j [])).getD c 0 else ent a i c := by
  unfold ent
  simp only [List.getD_eq_getElem?_getD, List.getElem?_modify]
  by_cases h : i = j
  · subst h
    by_cases hl : i < a.length
    · simp [hl]
    · have : a[i]? = none := by simp; omega
      simp [hl, this]
  · have h' : ¬ j = i := fun e => h e.symm
    cases hai : a[i]? <;> simp [h, h']

theorem getD_rowSubMul (rj rk : Row) (q : Int) (c : Nat) (h : rj.length = rk.length) :
    (rowSubMul rj rk q).getD c 0 = rj.getD c 0 - rk.getD c 0 * q := by
  unfold rowSubMul
  simp only [List.getD_eq_getElem?_getD, List.getElem?_zipWith]
  by_cases hc : c < rj.length
  · have hc' : c < rk.length := by omega
    simp [List.getElem?_eq_getElem hc, List.getElem?_eq_getElem hc']
  · have h1 : rj[c]? = none := by simp; omega
    have h2 : rk[c]? = none := by simp; omega
    simp [h1, h2]

theorem Rect.row_length {n m : Nat} {a : Mat} (hr : Rect n m a) (i : Nat) (hi : i < n) :
    (a.getD i []).length = m := by
  have hi' : i < a.length := by rw [hr.1]; exact hi
  have : a.getD i [] = a[i] := by simp [List.getD_eq_getElem?_getD, List.getElem?_eq_getElem hi']
  rw [this]; exact hr.2 _ (List.getElem_mem hi')

theorem toM_subMulRow (n m : Nat) (a : Mat) (hr : Rect n m a) (j k : Fin n) (q : Int) :
    toM n m (subMulRow a j k q) = updateRow (toM n m a) j (fun c => toM n m a j c - q * toM n m a k c) := by
  ext i c
  have hj : (j : Nat) < a.length := by rw [hr.1]; exact j.2
  have hlen : (a.getD j []).length = (a.getD k []).length := by
    rw [hr.row_length j j.2, hr.row_length k k.2]
  rw [updateRow_apply]
  show ent (subMulRow a j k q) i c = _
  unfold subMulRow
  rw [ent_modify]
  by_cases h : i = j
  · subst h
    simp only [hj, and_self, ↓reduceIte]
    rw [getD_rowSubMul _ _ _ _ hlen]
    show _ = ent a i c - q * ent a k c
    unfold ent; ring
  · have : ¬ ((i : Nat) = (j : Nat) ∧ (j : Nat) < a.length) := by
      intro hh; exact h (Fin.ext hh.1)
    simp only [this, h, ↓reduceIte]
    rfl

/-- One reduction step preserves `U * A0 = A` and `det U`. -/
theorem subMul_inv (n m : Nat) (A0 : Matrix (Fin n) (Fin m) ℤ) (s : St)
    (ha : Rect n m s.a) (hu : Rect n n s.u) (hinv : toM n n s.u * A0 = toM n m s.a)
    (j k : Fin n) (hjk : j ≠ k) (q : Int) :
    toM n n (s.subMul j k q).u * A0 = toM n m (s.subMul j k q).a ∧
    (toM n n (s.subMul j k q).u).det = (toM n n s.u).det := by
  simp only [St.subMul]
  rw [toM_subMulRow n n _ hu, toM_subMulRow n m _ ha]
  have e1 : (fun c => toM n n s.u j c - q * toM n n s.u k c) = toM n n s.u j + (-q) • toM n n s.u k := by
    ext c; simp [sub_eq_add_neg]
  constructor
  · rw [updateRow_mul, ← hinv, e1]
    congr 1
    rw [add_vecMul, smul_vecMul]
    ext c
    simp [Matrix.mul_apply_eq_vecMul, sub_eq_add_neg]
  · rw [e1, det_updateRow_add_smul_self _ hjk]

end NTV.Hnf

namespace NTV.Hnf
open Matrix

/-! ### Rect preservation -/

theorem Rect.modify {n m : Nat} {a : Mat} (hr : Rect n m a) (j : Nat) (f : Row → Row)
    (hf : ∀ r, r.length = m → (f r).length = m) : Rect n m (a.modify j f) := by
  refine ⟨by rw [List.length_modify]; exact hr.1, ?_⟩
  intro r hrm
  obtain ⟨i, hi, rfl⟩ := List.mem_iff_getElem.mp hrm
  rw [List.getElem_modify]
  have hi' : i < a.length := by simpa using hi
  split
  · exact hf _ (hr.2 _ (List.getElem_mem hi'))
  · exact hr.2 _ (List.getElem_mem hi')

theorem length_rowSubMul (rj rk : Row) (q : Int) : (rowSubMul rj rk q).length = min rj.length rk.length := by
  simp [rowSubMul]

theorem Rect.subMulRow {n m : Nat} {a : Mat} (hr : Rect n m a) (j k : Nat) (hk : k < n) (q : Int) :
    Rect n m (subMulRow a j k q) := by
  apply hr.modify
  intro r hrl
  rw [length_rowSubMul, hrl, hr.row_length k hk]; simp

theorem Rect.negRow {n m : Nat} {a : Mat} (hr : Rect n m a) (k : Nat) : Rect n m (negRow a k) := by
  apply hr.modify
  intro r hrl; simpa using hrl

theorem Rect.swapRows {n m : Nat} {a : Mat} (hr : Rect n m a) (i j : Nat) (hi : i < n) (hj : j < n) :
    Rect n m (swapRows a i j) := by
  unfold NTV.Hnf.swapRows
  refine ⟨by simp [hr.1], ?_⟩
  intro r hrm
  rcases List.mem_or_eq_of_mem_set hrm with h | h
  · rcases List.mem_or_eq_of_mem_set h with h | h
    · exact hr.2 _ h
    · rw [h]; exact hr.row_length j hj
  · rw [h]; exact hr.row_length i hi

/-! ### neg and swap as matrix operations -/

theorem toM_negRow (n m : Nat) (a : Mat) (hr : Rect n m a) (k : Fin n) :
    toM n m (negRow a k) = updateRow (toM n m a) k (fun c => - toM n m a k c) := by
  ext i c
  have hk : (k : Nat) < a.length := by rw [hr.1]; exact k.2
  rw [updateRow_apply]
  show ent (negRow a k) i c = _
  unfold negRow
  rw [ent_modify]
  by_cases h : i = k
  · subst h
    simp only [hk, and_self, ↓reduceIte]
    show _ = - ent a i c
    unfold ent
    simp only [List.getD_eq_getElem?_getD, List.getElem?_map]
    cases (a[(i : Nat)]?.getD [])[c]? <;> simp
  · have : ¬ ((i : Nat) = (k : Nat) ∧ (k : Nat) < a.length) := fun hh => h (Fin.ext hh.1)
    simp only [this, h, ↓reduceIte]; rfl

theorem ent_swapRows (a : Mat) (i j r c : Nat) (hi : i < a.length) (hj : j < a.length) :
    ent (swapRows a i j) r c = if r = j then ent a i c else if r = i then ent a j c else ent a r c := by
  unfold swapRows ent
  simp only [List.getD_eq_getElem?_getD, List.getElem?_set, List.length_set]
  by_cases h1 : r = j
  · subst h1; simp [hj]
  · have h1' : ¬ j = r := fun e => h1 e.symm
    by_cases h2 : r = i
    · subst h2; simp [h1, h1', hi]
    · have h2' : ¬ i = r := fun e => h2 e.symm
      simp [h1, h1', h2, h2']

theorem toM_swapRows (n m : Nat) (a : Mat) (hr : Rect n m a) (i j : Fin n) :
    toM n m (swapRows a i j) = (toM n m a).submatrix (Equiv.swap i j) id := by
  ext r c
  have hi : (i : Nat) < a.length := by rw [hr.1]; exact i.2
  have hj : (j : Nat) < a.length := by rw [hr.1]; exact j.2
  show ent (swapRows a i j) r c = ent a (Equiv.swap i j r) c
  rw [ent_swapRows _ _ _ _ _ hi hj]
  by_cases h1 : r = j
  · subst h1; simp
  · by_cases h2 : r = i
    · subst h2
      have : ¬ ((r : Nat) = (j : Nat)) := fun e => h1 (Fin.ext e)
      simp [this]
    · have e1 : ¬ ((r : Nat) = (j : Nat)) := fun e => h1 (Fin.ext e)
      have e2 : ¬ ((r : Nat) = (i : Nat)) := fun e => h2 (Fin.ext e)
      simp [e1, e2, Equiv.swap_apply_of_ne_of_ne h2 h1]

/-! ### The invariant -/

structure Inv (n m : Nat) (A0 : Matrix (Fin n) (Fin m) ℤ) (s : St) : Prop where
  ra : Rect n m s.a
  ru : Rect n n s.u
  ua : toM n n s.u * A0 = toM n m s.a
  det : IsUnit (toM n n s.u).det

theorem Inv.subMul {n m A0 s} (h : Inv n m A0 s) (j k : Fin n) (hjk : j ≠ k) (q : Int) :
    Inv n m A0 (s.subMul j k q) := by
  obtain ⟨e1, e2⟩ := subMul_inv n m A0 s h.ra h.ru h.ua j k hjk q
  exact ⟨h.ra.subMulRow j k k.2 q, h.ru.subMulRow j k k.2 q, e1, by rw [e2]; exact h.det⟩

theorem Inv.neg {n m A0 s} (h : Inv n m A0 s) (k : Fin n) : Inv n m A0 (s.neg k) := by
  refine ⟨h.ra.negRow k, h.ru.negRow k, ?_, ?_⟩
  · simp only [St.neg]
    rw [toM_negRow n n _ h.ru, toM_negRow n m _ h.ra, updateRow_mul, ← h.ua]
    congr 1
    ext c
    have : (fun c => - toM n n s.u k c) = - (toM n n s.u k) := rfl
    rw [this, neg_vecMul]
    simp [Matrix.mul_apply_eq_vecMul]
  · simp only [St.neg]
    rw [toM_negRow n n _ h.ru]
    have : (fun c => - toM n n s.u k c) = (-1 : ℤ) • (toM n n s.u k) := by ext c; simp
    rw [this, det_updateRow_smul, updateRow_eq_self]
    exact (isUnit_neg_one).mul h.det

theorem Inv.swap {n m A0 s} (h : Inv n m A0 s) (i j : Fin n) : Inv n m A0 (s.swap i j) := by
  refine ⟨h.ra.swapRows i j i.2 j.2, h.ru.swapRows i j i.2 j.2, ?_, ?_⟩
  · simp only [St.swap]
    rw [toM_swapRows n n _ h.ru, toM_swapRows n m _ h.ra, ← h.ua]
    have := Matrix.submatrix_mul (toM n n s.u) A0 (Equiv.swap i j) (id : Fin n → Fin n) (id : Fin m → Fin m) Function.bijective_id
    simpa using this.symm
  · simp only [St.swap]
    rw [toM_swapRows n n _ h.ru]
    rw [det_permute]
    refine IsUnit.mul ?_ h.det
    rcases Int.units_eq_one_or (Equiv.Perm.sign (Equiv.swap i j)) with e | e <;> simp [e]

end NTV.Hnf

namespace NTV.Hnf
open Matrix

theorem Inv.subMul' {n m A0 s} (h : Inv n m A0 s) (j k : Nat) (hj : j < n) (hk : k < n) (hjk : j ≠ k) (q : Int) :
    Inv n m A0 (s.subMul j k q) :=
  Inv.subMul h ⟨j, hj⟩ ⟨k, hk⟩ (fun e => hjk (by simpa using congrArg Fin.val e)) q

theorem foldl_Inv {n m A0} {α : Type} (l : List α) (f : St → α → St) (s : St) (h : Inv n m A0 s)
    (hf : ∀ s x, x ∈ l → Inv n m A0 s → Inv n m A0 (f s x)) : Inv n m A0 (l.foldl f s) := by
  induction l generalizing s with
  | nil => exact h
  | cons x xs ih =>
    simp only [List.foldl_cons]
    exact ih _ (hf _ _ (by simp) h) (fun s y hy hs => hf s y (by simp [hy]) hs)

theorem reduceAbove_Inv {n m A0 s} (h : Inv n m A0 s) (k i : Nat) (hk : k < n) :
    Inv n m A0 (reduceAbove s k i) := by
  unfold reduceAbove
  apply foldl_Inv _ _ _ h
  intro s j hj hs
  have : j < k := by simpa using hj
  exact hs.subMul' j k (by omega) hk (by omega) _

theorem reduceBelow_Inv {n m A0 s} (h : Inv n m A0 s) (k i : Nat) (hk : k < n) :
    Inv n m A0 (reduceBelow s k i n) := by
  unfold reduceBelow
  apply foldl_Inv _ _ _ h
  intro s t ht hs
  have : t < n - (k + 1) := by simpa using ht
  exact hs.subMul' (k + 1 + t) k (by omega) hk (by omega) _

theorem pickPivot_le (a : Mat) (k i : Nat) : pickPivot a k i ≤ k := by
  unfold pickPivot
  generalize hc : (List.range (k + 1)).filter (fun j => ent a j i != 0) = cands
  have hall : ∀ j ∈ cands, j ≤ k := by
    intro j hj; rw [← hc] at hj
    have := (List.mem_filter.mp hj).1
    simp at this; omega
  cases cands with
  | nil => simp
  | cons c cs =>
    simp only
    have hc' : c ≤ k := hall c (by simp)
    have hcs : ∀ j ∈ cs, j ≤ k := fun j hj => hall j (by simp [hj])
    clear hc hall
    induction cs generalizing c with
    | nil => simpa
    | cons d ds ih =>
      simp only [List.foldl_cons]
      apply ih
      · split
        · exact hcs d (by simp)
        · exact hc'
      · intro j hj; exact hcs j (by simp [hj])

theorem inner_Inv {n m A0} (fuel : Nat) (s s' : St) (k i : Nat) (hk : k < n) (h : Inv n m A0 s)
    (hres : inner fuel s k i = some s') : Inv n m A0 s' := by
  induction fuel generalizing s with
  | zero => simp [inner] at hres
  | succ f ih =>
    unfold inner at hres
    split at hres
    · simp only [Option.some.injEq] at hres
      subst hres
      split
      · exact h.neg ⟨k, hk⟩
      · exact h
    · apply ih _ _ hres
      apply reduceAbove_Inv _ k i hk
      have hp := pickPivot_le s.a k i
      exact h.swap ⟨pickPivot s.a k i, by omega⟩ ⟨k, hk⟩

theorem stepCol_Inv {n m A0} (s s' : St) (k k' i : Nat) (hk : k < n) (h : Inv n m A0 s)
    (hres : stepCol n s k i = some (s', k')) : Inv n m A0 s' ∧ (k' = k ∨ k' = k + 1) := by
  unfold stepCol at hres
  split at hres
  · exact absurd hres (by simp)
  · rename_i s1 hinner
    have h1 := inner_Inv _ _ _ k i hk h hinner
    simp only [Option.some.injEq] at hres
    split at hres
    · simp only [Prod.mk.injEq] at hres; obtain ⟨rfl, rfl⟩ := hres; exact ⟨h1, Or.inr rfl⟩
    · simp only [Prod.mk.injEq] at hres; obtain ⟨rfl, rfl⟩ := hres
      exact ⟨reduceBelow_Inv h1 k i hk, Or.inl rfl⟩

theorem outer_Inv {n m A0} (c : Nat) (s s' : St) (k k' : Nat) (hk : k < n) (h : Inv n m A0 s)
    (hres : outer n c s k = some (s', k')) : Inv n m A0 s' ∧ k' ≤ n := by
  induction c generalizing s k with
  | zero => simp only [outer, Option.some.injEq, Prod.mk.injEq] at hres; obtain ⟨rfl, rfl⟩ := hres; exact ⟨h, by omega⟩
  | succ c ih =>
    unfold outer at hres
    split at hres
    · exact absurd hres (by simp)
    · rename_i s2 k2 hstep
      obtain ⟨h2, hk2⟩ := stepCol_Inv _ _ _ _ _ hk h hstep
      split at hres
      · simp only [Option.some.injEq, Prod.mk.injEq] at hres; obtain ⟨rfl, rfl⟩ := hres
        exact ⟨h2, by omega⟩
      · rename_i hne
        simp only [Bool.or_eq_true, beq_iff_eq, not_or] at hne
        exact ih _ _ (by omega) h2 hres

end NTV.Hnf

namespace NTV.Hnf
open Matrix

theorem ent_idMat (n i j : Nat) (hi : i < n) (hj : j < n) : ent (idMat n) i j = if i = j then 1 else 0 := by
  unfold ent idMat
  simp [List.getD_eq_getElem?_getD, hi, hj]

theorem Rect_idMat (n : Nat) : Rect n n (idMat n) := by
  refine ⟨by simp [idMat], ?_⟩
  intro r hr
  simp only [idMat, List.mem_map, List.mem_range] at hr
  obtain ⟨i, _, rfl⟩ := hr
  simp

theorem toM_idMat (n : Nat) : toM n n (idMat n) = 1 := by
  ext i j
  show ent (idMat n) i j = _
  rw [ent_idMat n i j i.2 j.2, Matrix.one_apply]
  by_cases h : i = j
  · subst h; simp
  · have : ¬ ((i : Nat) = (j : Nat)) := fun e => h (Fin.ext e)
    simp [h, this]

/-- C03 core (prototype): for every rectangular integer matrix `A` with n ≥ 1 rows, the model of
`hnf_with_u` returns `(H, U, k)` with `U` unimodular and `U * A = W` where `H` is `W` minus its first `k` rows. -/
theorem hnfWithU_UA (A : Mat) (n m : Nat) (hr : Rect n m A) (hn : 0 < n)
    (H U : Mat) (k : Nat) (hres : hnfWithU A = some (H, U, k)) :
    ∃ W : Mat, Rect n m W ∧ Rect n n U ∧ H = W.drop k ∧ k ≤ n ∧
      toM n n U * toM n m A = toM n m W ∧ IsUnit (toM n n U).det := by
  unfold hnfWithU at hres
  cases A with
  | nil => simp [Rect] at hr; omega
  | cons r0 rs =>
    simp only at hres
    have hlen : (r0 :: rs).length = n := hr.1
    have hm : r0.length = m := hr.2 r0 (by simp)
    rw [hlen, hm] at hres
    split at hres
    · exact absurd hres (by simp)
    · rename_i s k' hout
      simp only [Option.some.injEq, Prod.mk.injEq] at hres
      obtain ⟨rfl, rfl, rfl⟩ := hres
      have h0 : Inv n m (toM n m (r0 :: rs)) ⟨r0 :: rs, idMat n⟩ :=
        ⟨hr, Rect_idMat n, by simp [toM_idMat], by simp [toM_idMat]⟩
      obtain ⟨hI, hk⟩ := outer_Inv m _ _ (n - 1) _ (by omega) h0 hout
      exact ⟨s.a, hI.ra, hI.ru, rfl, hk, hI.ua, hI.det⟩

end NTV.Hnf
