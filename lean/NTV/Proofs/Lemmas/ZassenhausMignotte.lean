import Mathlib.NumberTheory.MahlerMeasure
import Mathlib.Data.Nat.Choose.Bounds
import NTV.Model.PolyZ
import NTV.Proofs.Lemmas.PolyDivZ
/-! The Landau–Mignotte coefficient bound behind `NTV.PolyZ.coeffBound` (Theorem 3.5.1 in [Cohen]), as needed
by the correctness proof of the Berlekamp–Zassenhaus recombination: every coefficient of `lc(h')·h`, for a
factorisation `a = g·h·h'` over ℤ, is smaller in absolute value than half of `coeffBound a (deg a)`, hence lies in
the symmetric residue range of any modulus `pe > coeffBound a (deg a)`. Proved through the Mahler measure. -/
open Polynomial
namespace NTV.PolyZ
open NTV.PolyG

/-- the embedding ℤ → ℂ preserves distances -/
theorem isom_intCast : Isometry (Int.castRingHom ℂ) := by
  refine Isometry.of_dist_eq fun a b => ?_
  rw [dist_eq_norm, dist_eq_norm, ← map_sub, eq_intCast, Complex.norm_intCast, Int.norm_eq_abs]

/-- **Landau–Mignotte**: if `A = g·h·h'` is a non-zero integer polynomial then every coefficient of `lc(h')·h` is bounded by
`C(deg h, j)·‖A‖₁`. (`M` the Mahler measure: `|lc h'|·|h_j| ≤ M(h')·C(deg h, j)·M(h) ≤ C(deg h, j)·M(g)·M(h)·M(h') =
C(deg h, j)·M(A) ≤ C(deg h, j)·‖A‖₁`, using `M(g) ≥ 1` for the non-zero integer polynomial `g`.) -/
theorem mignotte_divisor (A g h h' : ℤ[X]) (hA : A ≠ 0) (hfac : A = g * h * h') (j : ℕ) :
    |(C h'.leadingCoeff * h).coeff j| ≤ (h.natDegree.choose j : ℤ) * ∑ i ∈ Finset.range (A.natDegree + 1), |A.coeff i| := by
  set v := Int.castRingHom ℂ with hv
  have iso := isom_intCast
  have hg : g ≠ 0 := by rintro rfl; simp at hfac; exact hA hfac
  have h1 : (1 : ℝ) ≤ g.mapMahlerMeasure v := one_le_mahlerMeasure_of_ne_zero hg
  have h2 : ‖h.coeff j‖ ≤ (h.natDegree.choose j) * h.mapMahlerMeasure v :=
    norm_coeff_le_choose_mul_mapMahlerMeasure v iso j h
  have h3 : ‖h'.leadingCoeff‖ ≤ h'.mapMahlerMeasure v := leadingCoeff_le_mapMahlerMeasure h' v iso
  have h4 : A.mapMahlerMeasure v = g.mapMahlerMeasure v * h.mapMahlerMeasure v * h'.mapMahlerMeasure v := by
    rw [hfac, mapMahlerMeasure_mul, mapMahlerMeasure_mul]
  have h5 : A.mapMahlerMeasure v ≤ A.sum fun _ a ↦ ‖a‖ := mapMahlerMeasure_le_sum_norm_coeff A v iso
  have h6 : (A.sum fun _ a ↦ ‖a‖) = ((∑ i ∈ Finset.range (A.natDegree + 1), |A.coeff i| : ℤ) : ℝ) := by
    rw [sum_over_range _ (by simp)]
    push_cast
    simp [Int.norm_eq_abs]
  have hMh := mapMahlerMeasure_nonneg h v
  have hMh' := mapMahlerMeasure_nonneg h' v
  have hc : (0:ℝ) ≤ (h.natDegree.choose j : ℝ) := Nat.cast_nonneg _
  have key : ((|(C h'.leadingCoeff * h).coeff j| : ℤ) : ℝ) ≤
      (((h.natDegree.choose j : ℤ) * ∑ i ∈ Finset.range (A.natDegree + 1), |A.coeff i| : ℤ) : ℝ) := by
    rw [coeff_C_mul, abs_mul, Int.cast_mul (h.natDegree.choose j : ℤ), ← h6]
    push_cast
    rw [← Int.norm_eq_abs, ← Int.norm_eq_abs]
    calc ‖h'.leadingCoeff‖ * ‖h.coeff j‖
        ≤ h'.mapMahlerMeasure v * ((h.natDegree.choose j) * h.mapMahlerMeasure v) :=
          mul_le_mul h3 h2 (norm_nonneg _) hMh'
      _ = (h.natDegree.choose j) * (1 * h.mapMahlerMeasure v * h'.mapMahlerMeasure v) := by ring
      _ ≤ (h.natDegree.choose j) * (g.mapMahlerMeasure v * h.mapMahlerMeasure v * h'.mapMahlerMeasure v) := by
          gcongr
      _ = (h.natDegree.choose j) * A.mapMahlerMeasure v := by rw [h4]
      _ ≤ _ := by gcongr
  exact_mod_cast key

/-- `C(m, j) ≤ 2^(n-1)` for `m ≤ n`, `n ≥ 1` -/
theorem choose_le_two_pow_pred (m j n : ℕ) (hn : 1 ≤ n) (hm : m ≤ n) : m.choose j ≤ 2 ^ (n - 1) := by
  cases m with
  | zero =>
    calc Nat.choose 0 j ≤ 1 := by cases j <;> simp
      _ ≤ 2 ^ (n - 1) := Nat.one_le_two_pow
  | succ m =>
    calc (m + 1).choose j ≤ 2 ^ m := Nat.choose_succ_le_two_pow m j
      _ ≤ 2 ^ (n - 1) := Nat.pow_le_pow_right (by omega) (by omega)

theorem foldl_add_range (f : ℕ → ℤ) (init : ℤ) (m : ℕ) :
    (List.range m).foldl (fun s i => s + f i) init = init + ∑ i ∈ Finset.range m, f i := by
  induction m with
  | zero => simp
  | succ m ih => rw [List.range_succ, List.foldl_append, ih, Finset.sum_range_succ]; simp [add_assoc]

theorem foldl_double_range (s : ℤ) (k : ℕ) :
    (List.range k).foldl (fun b _ => b * 2) s = s * 2 ^ k := by
  induction k with
  | zero => simp
  | succ k ih => rw [List.range_succ, List.foldl_append, ih]; simp [pow_succ, mul_assoc]

/-- closed form of the two folds of `coeffBound` -/
theorem coeffBound_eq (a : List Int) (n : ℕ) :
    coeffBound a n = (|coefAt a n| + ∑ i ∈ Finset.range (n + 1), |coefAt a i|) * 2 ^ (n - 1) * 2 * |coefAt a n| := by
  unfold coeffBound
  simp only [Int.natCast_natAbs]
  rw [foldl_add_range (fun i => |coefAt a i|), foldl_double_range]

/-- **Mignotte bound for `coeffBound`**: for a non-constant canonical `a = g·h·h'` over ℤ, twice any coefficient
of `lc(h')·h` is below `coeffBound a (deg a)` in absolute value. -/
theorem mignotte_for_coeffBound (a : List Int) (ha : a ≠ []) (hca : Canon a) (hn : 2 ≤ a.length)
    (g h h' : ℤ[X]) (hfac : toPoly a = g * h * h') (j : ℕ) :
    2 * |(C h'.leadingCoeff * h).coeff j| < coeffBound a (degU a) := by
  obtain ⟨hdeg, hlc, hne⟩ := natDegree_toPoly a ha hca
  have hdU : degU a = a.length - 1 := by
    unfold degU; cases a with
    | nil => exact absurd rfl ha
    | cons x xs => simp
  have hb := mignotte_divisor (toPoly a) g h h' hne hfac j
  have hg : g ≠ 0 := by rintro rfl; simp at hfac; exact hne hfac
  have hh : h ≠ 0 := by rintro rfl; simp at hfac; exact hne hfac
  have hh' : h' ≠ 0 := by rintro rfl; simp at hfac; exact hne hfac
  have hdh : h.natDegree ≤ a.length - 1 := by
    rw [← hdeg, hfac, natDegree_mul (mul_ne_zero hg hh) hh', natDegree_mul hg hh]; omega
  have hC : (h.natDegree.choose j : ℤ) ≤ 2 ^ (a.length - 1 - 1) := by
    exact_mod_cast choose_le_two_pow_pred h.natDegree j (a.length - 1) (by omega) hdh
  rw [coeffBound_eq, hdU]
  rw [hdeg] at hb
  simp only [coeff_toPoly] at hb
  have hL : 1 ≤ |coefAt a (a.length - 1)| := by
    unfold coefAt; rw [lc_eq_getD a ha]
    exact Int.one_le_abs (lc_ne_zero a ha hca)
  have hS : 0 ≤ ∑ i ∈ Finset.range (a.length - 1 + 1), |coefAt a i| :=
    Finset.sum_nonneg fun i _ => abs_nonneg _
  change |(C h'.leadingCoeff * h).coeff j| ≤ (h.natDegree.choose j : ℤ) * ∑ i ∈ Finset.range (a.length - 1 + 1), |coefAt a i| at hb
  generalize (∑ i ∈ Finset.range (a.length - 1 + 1), |coefAt a i|) = S at *
  generalize |coefAt a (a.length - 1)| = L at *
  generalize |(C h'.leadingCoeff * h).coeff j| = c at *
  have hP : (0 : ℤ) < 2 ^ (a.length - 1 - 1) := by positivity
  generalize (2 : ℤ) ^ (a.length - 1 - 1) = P at *
  generalize (h.natDegree.choose j : ℤ) = K at *
  have h1 : K * S ≤ P * S := mul_le_mul_of_nonneg_right hC hS
  have h2 : (L + S) * P * 2 * 1 ≤ (L + S) * P * 2 * L :=
    mul_le_mul_of_nonneg_left hL (by positivity)
  nlinarith

/-- the shape used by the recombination: for a modulus `pe` above the bound and `pe2 = pe.tdiv 2`, the coefficients of
`lc(h')·h` lie in the symmetric range `[-pe2, pe - pe2)` -/
theorem mignotte_symmetric_range (a : List Int) (ha : a ≠ []) (hca : Canon a) (hn : 2 ≤ a.length)
    (g h h' : ℤ[X]) (hfac : toPoly a = g * h * h') (j : ℕ) (pe : ℤ) (hpe : coeffBound a (degU a) < pe) :
    -(Int.tdiv pe 2) ≤ (C h'.leadingCoeff * h).coeff j ∧ (C h'.leadingCoeff * h).coeff j < pe - Int.tdiv pe 2 := by
  have hm := mignotte_for_coeffBound a ha hca hn g h h' hfac j
  generalize (C h'.leadingCoeff * h).coeff j = c at *
  have hpos : 0 ≤ pe := by have := abs_nonneg c; omega
  rw [Int.tdiv_eq_ediv_of_nonneg hpos]
  rcases abs_cases c with ⟨h1, _⟩ | ⟨h1, _⟩ <;> omega

example : 2 * |(C (X + 1 : ℤ[X]).leadingCoeff * (X - 1)).coeff 0| < coeffBound [-1, 0, 1] (degU [-1, 0, 1]) :=
  mignotte_for_coeffBound [-1, 0, 1] (by simp) (by intro _; simp) (by simp) 1 (X - 1) (X + 1)
    (by simp [toPoly]; ring) 0

/-- `coeffBound [-1,0,1] 2 = 12`; with `pe = 13` the coefficient `-1` of `X - 1` lies in `[-6, 7)` -/
example : -(Int.tdiv 13 2) ≤ (C (X + 1 : ℤ[X]).leadingCoeff * (X - 1)).coeff 0 ∧
    (C (X + 1 : ℤ[X]).leadingCoeff * (X - 1)).coeff 0 < 13 - Int.tdiv 13 2 :=
  mignotte_symmetric_range [-1, 0, 1] (by simp) (by intro _; simp) (by simp) 1 (X - 1) (X + 1)
    (by simp [toPoly]; ring) 0 13 (by decide)

example : |(C (X + 1 : ℤ[X]).leadingCoeff * (X - 1)).coeff 0| ≤
    (((X - 1 : ℤ[X]).natDegree.choose 0 : ℕ) : ℤ) * ∑ i ∈ Finset.range ((X ^ 2 - 1 : ℤ[X]).natDegree + 1), |(X ^ 2 - 1 : ℤ[X]).coeff i| :=
  mignotte_divisor (X ^ 2 - 1) 1 (X - 1) (X + 1) (by simpa using X_pow_sub_C_ne_zero (R := ℤ) (n := 2) (by norm_num) 1) (by ring) 0

end NTV.PolyZ
