import NTV.Proofs.Lemmas.HenselWitness
import NTV.Proofs.Lemmas.HenselTwo
/-! C11, part 3: `hensel_lift_multiple` and `lift_factorization`. -/
open Polynomial
namespace NTV.PolyMod
open NTV.PolyG NTV.Hensel

/-! ### list bookkeeping: the `accumulated` vector read from the back -/

/-- `accumulated`, reversed, as a function of the reversed factor list -/
def raccOf (q : Int) (cur : Poly) : List Poly → List Poly
  | [] => []
  | f :: rest => polyMod (mul ((raccOf q cur rest).headD cur) f) q :: raccOf q cur rest

theorem accumulate_snoc (q : Int) : ∀ (fs : List Poly) (cur f : Poly),
    accumulate q cur (fs ++ [f]) =
      accumulate q cur fs ++ [polyMod (mul ((accumulate q cur fs).getLastD cur) f) q] := by
  intro fs
  induction fs with
  | nil => intro cur f; simp [accumulate]
  | cons x xs ih => intro cur f; simp only [List.cons_append, accumulate, ih, List.getLastD_cons]

theorem accumulate_reverse (q : Int) (cur : Poly) (fs : List Poly) :
    (accumulate q cur fs).reverse = raccOf q cur fs.reverse := by
  induction fs using List.reverseRecOn with
  | nil => simp [accumulate, raccOf]
  | append_singleton fs f ih =>
    rw [accumulate_snoc]
    simp only [List.reverse_append, List.reverse_cons, List.reverse_nil, List.nil_append,
      List.singleton_append, raccOf]
    rw [← ih]
    congr 3
    rw [List.headD_eq_head?_getD, List.head?_reverse, List.getLastD_eq_getLast?]

theorem forall₂_comp {α β γ : Type} {R1 : α → β → Prop} {R2 : β → γ → Prop} {R3 : α → γ → Prop}
    (h : ∀ a b c, R1 a b → R2 b c → R3 a c) :
    ∀ {l1 : List α} {l2 : List β} {l3 : List γ}, List.Forall₂ R1 l1 l2 → List.Forall₂ R2 l2 l3 →
      List.Forall₂ R3 l1 l3 := by
  intro l1 l2 l3 h1
  induction h1 generalizing l3 with
  | nil => intro h2; cases h2; exact List.Forall₂.nil
  | cons hab _ ih =>
    intro h2
    cases h2 with
    | cons hbc htl => exact List.Forall₂.cons (h _ _ _ hab hbc) (ih htl)

theorem map_eq_of_forall₂ {α β γ : Type} (φ : α → γ) (ψ : β → γ) :
    ∀ {l1 : List α} {l2 : List β}, List.Forall₂ (fun a b => φ a = ψ b) l1 l2 → l1.map φ = l2.map ψ := by
  intro l1 l2 h
  induction h with
  | nil => rfl
  | cons hab _ ih => simp [hab, ih]

/-! ### products of monic lists -/

/-- sum of the degrees -/
def degSum (L : List Poly) : Nat := (L.map (fun g => g.length - 1)).sum

theorem prod_monic (L : List Poly) (h : ∀ f ∈ L, lc f = 1) :
    (L.map toPoly).prod.Monic ∧ (L.map toPoly).prod.natDegree = degSum L := by
  induction L with
  | nil => simp [degSum]
  | cons f rest ih =>
    obtain ⟨i1, i2⟩ := ih (fun g hg => h g (List.mem_cons_of_mem _ hg))
    obtain ⟨m1, m2, _, _⟩ := monic_toPoly f (h f List.mem_cons_self)
    simp only [List.map_cons, List.prod_cons, degSum, List.sum_cons]
    refine ⟨m1.mul i1, ?_⟩
    rw [m1.natDegree_mul i1, m2, i2]; rfl

/-- the last accumulated product: monic, of the right degree, congruent to the product -/
theorem top_spec (q : Int) (hq : 1 < q) (L : List Poly) (h : ∀ f ∈ L, lc f = 1) :
    lc ((raccOf q [1] L).headD [1]) = 1 ∧ ((raccOf q [1] L).headD [1]).length = degSum L + 1 ∧
    PCong q (toPoly ((raccOf q [1] L).headD [1])) (L.map toPoly).prod := by
  induction L with
  | nil => simp [raccOf, lc, degSum, toPoly]; exact PCong.refl _ _
  | cons f rest ih =>
    obtain ⟨i1, i2, i3⟩ := ih (fun g hg => h g (List.mem_cons_of_mem _ hg))
    set T := (raccOf q [1] rest).headD [1]
    obtain ⟨m1, m2, _, _⟩ := monic_toPoly f (h f List.mem_cons_self)
    obtain ⟨t1, t2, _, _⟩ := monic_toPoly T i1
    have e : (raccOf q [1] (f :: rest)).headD [1] = polyMod (mul T f) q := rfl
    rw [e]
    obtain ⟨r1, c1, g1⟩ := polyMod_reduced (mul T f) q (by omega)
    rw [toPoly_mul] at g1
    have hM : (toPoly T * toPoly f).Monic := t1.mul m1
    have hD : (toPoly T * toPoly f).natDegree = degSum (f :: rest) := by
      rw [t1.natDegree_mul m1, t2, m2, i2]
      simp only [degSum, List.map_cons, List.sum_cons]; omega
    obtain ⟨k1, k2⟩ := monic_of_cong q hq _ r1 c1 _ (degSum (f :: rest)) g1
      (by intro j hj; rw [coeff_eq_zero_of_natDegree_lt (by rw [hD]; exact hj)]; exact dvd_zero q)
      (by rw [← hD]; rw [hM.coeff_natDegree]; simp)
    refine ⟨k2, k1, PCong.trans g1 ?_⟩
    simp only [List.map_cons, List.prod_cons]
    rw [mul_comm]
    exact PCong.mul (PCong.refl _ _) i3

theorem mapP_congr {p : ℕ} {a b : List Int} (h : PCong p (toPoly a) (toPoly b)) : mapP p a = mapP p b :=
  (pcong_iff_map p _ _).mp h

theorem isCoprime_list_prod_left {R : Type} [CommRing R] (x : R) :
    ∀ (L : List R), (∀ y ∈ L, IsCoprime y x) → IsCoprime L.prod x := by
  intro L
  induction L with
  | nil => intro _; simpa using isCoprime_one_left
  | cons y ys ih =>
    intro h
    rw [List.prod_cons]
    exact IsCoprime.mul_left (h y List.mem_cons_self) (ih (fun z hz => h z (List.mem_cons_of_mem _ hz)))

end NTV.PolyMod

namespace NTV.PolyMod
open NTV.PolyG NTV.Hensel

/-- relation between a lifted factor g and the factor f it lifts: monic, canonical, coefficients in
[0, m), same degree, g ≡ f (mod q) -/
def LiftRel (q m : Int) (g f : List Int) : Prop :=
  lc g = 1 ∧ Canon g ∧ Reduced m g ∧ g.length = f.length ∧ PCong q (toPoly g) (toPoly f)

/-- the main loop of `hensel_lift_multiple`, on the reversed factor list `f :: rest` -/
theorem liftLoop_spec (p : Nat) (hp : p.Prime) (q : Int) (hq : 1 < q) (hpq : (p : Int) ∣ q)
    (hgcd : ((Int.gcd (p : Int) q : Nat) : Int) = p) :
    ∀ (rest : List Poly) (f product : Poly) (res : List Poly),
      (∀ g ∈ f :: rest, lc g = 1) →
      ((f :: rest).map (mapP p)).Pairwise IsCoprime →
      lc product = 1 → product.length = degSum (f :: rest) + 1 → Reduced (q * p) product →
      PCong q (toPoly product) ((f :: rest).map toPoly).prod →
      ∃ gs, liftLoop p q (raccOf q [1] rest) (f :: rest) product res = .ok (gs ++ res) ∧
        List.Forall₂ (LiftRel q (q * p)) gs (f :: rest).reverse ∧
        PCong (q * p) (toPoly product) (gs.map toPoly).prod := by
  have hp1 : (1 : Int) < p := by exact_mod_cast hp.one_lt
  intro rest
  induction rest with
  | nil =>
    intro f product res hmon _ hpm hplen hpred hpc
    obtain ⟨_, _, hfne, _⟩ := monic_toPoly f (hmon f List.mem_cons_self)
    have hfpos := List.length_pos_of_ne_nil hfne
    refine ⟨[product], ?_, ?_, ?_⟩
    · simp [raccOf, liftLoop, pure, Except.pure]
    · simp only [List.reverse_cons, List.reverse_nil, List.nil_append]
      refine List.Forall₂.cons ⟨hpm, (monic_toPoly product hpm).2.2.2, hpred, ?_, ?_⟩ List.Forall₂.nil
      · simp only [degSum, List.map_cons, List.map_nil, List.sum_cons, List.sum_nil] at hplen; omega
      · simpa using hpc
    · simpa using PCong.refl _ _
  | cons f' rest' ih =>
    intro f product res hmon hcop hpm hplen hpred hpc
    have hmon' : ∀ g ∈ f' :: rest', lc g = 1 := fun g hg => hmon g (List.mem_cons_of_mem _ hg)
    obtain ⟨A1, A2, A3⟩ := top_spec q hq (f' :: rest') hmon'
    set A := (raccOf q [1] (f' :: rest')).headD [1] with hA
    have hAe : raccOf q [1] (f' :: rest') = A :: raccOf q [1] rest' := rfl
    have hfm := hmon f List.mem_cons_self
    obtain ⟨_, _, hfne, _⟩ := monic_toPoly f hfm
    have hfpos := List.length_pos_of_ne_nil hfne
    rw [List.map_cons, List.pairwise_cons] at hcop
    -- coprimality of the accumulated product and the factor
    have hcoA : IsCoprime (mapP p A) (mapP p f) := by
      have e : mapP p A = ((f' :: rest').map (mapP p)).prod := by
        have := (pcong_iff_map p _ _).mp (PCong.of_dvd hpq A3)
        rw [mapP, this, Polynomial.map_list_prod, List.map_map]; rfl
      rw [e]
      exact isCoprime_list_prod_left _ _ (fun y hy => (hcop.1 y hy).symm)
    obtain ⟨u, v, hw, hbez, _⟩ := polyCoprimeWitness_spec p hp A f (lcOK_of_monic p hp1 A A1)
      (lcOK_of_monic p hp1 f hfm) hcoA
    have hc : PCong q (toPoly product) (toPoly A * toPoly f) := by
      refine PCong.trans hpc ?_
      simp only [List.map_cons, List.prod_cons]
      rw [mul_comm (toPoly A)]
      exact PCong.mul (PCong.refl _ _) (by simpa using A3.symm)
    have huv : PCong (Int.gcd (p : Int) q : Int) (toPoly A * toPoly u + toPoly f * toPoly v) 1 := by
      rw [hgcd]; exact hbez
    obtain ⟨_, t2, t3, t4⟩ := henselLift_spec p q product A f u v hc huv
    obtain ⟨s1, s2, s3, s4, s5⟩ := henselLift_shape p q hq product A f u v A1
    obtain ⟨b1m, b1l⟩ := henselLift_shape_b p q hq product A f u v A1 hpm
      (by rw [hplen, A2]; simp only [degSum, List.map_cons, List.sum_cons]; omega) hc huv
    rw [hgcd] at t2 s3 s4
    rcases hh : henselLift p q product A f u v with ⟨a1, b1, m⟩
    rw [hh] at t2 t3 t4 s1 s2 s3 s4 s5 b1m b1l
    simp only at t2 t3 t4 s1 s2 s3 s4 s5 b1m b1l
    obtain ⟨gs', hok, hfa, hprod⟩ := ih f' a1 (b1 :: res) hmon' (by rw [List.map_cons]; exact hcop.2) s1
      (by rw [s2, A2]) s3 (PCong.trans t3 A3)
    refine ⟨gs' ++ [b1], ?_, ?_, ?_⟩
    · rw [hAe]
      simp only [liftLoop, hw, bind, Except.bind, hh]
      rw [hok]; simp
    · have e : (f :: f' :: rest').reverse = (f' :: rest').reverse ++ [f] := by simp
      rw [e]
      exact List.rel_append hfa (List.Forall₂.cons ⟨b1m, s5, s4, b1l, t4⟩ List.Forall₂.nil)
    · refine PCong.trans t2 ?_
      simp only [List.map_append, List.prod_append, List.map_cons, List.map_nil, List.prod_cons, List.prod_nil,
        mul_one]
      exact PCong.mul hprod (PCong.refl _ _)

/-- C11: `hensel_lift_multiple(p, q, c, factors)` for q > 1 a multiple of the prime p with gcd(p, q) = p,
monic factors pairwise coprime over F_p, and c monic, reduced modulo q·p, c ≡ ∏ factors (mod q) -/
theorem henselLiftMultiple_spec (p : Nat) (hp : p.Prime) (q : Int) (hq : 1 < q) (hpq : (p : Int) ∣ q)
    (hgcd : ((Int.gcd (p : Int) q : Nat) : Int) = p) (c : Poly) (factors : List Poly) (hne : factors ≠ [])
    (hmon : ∀ g ∈ factors, lc g = 1) (hcop : (factors.map (mapP p)).Pairwise IsCoprime)
    (hcm : lc c = 1) (hclen : c.length = degSum factors + 1) (hcred : Reduced (q * p) c)
    (hc : PCong q (toPoly c) (factors.map toPoly).prod) :
    ∃ gs, henselLiftMultiple p q c factors = .ok (gs, q * p) ∧
      List.Forall₂ (LiftRel q (q * p)) gs factors ∧
      PCong (q * p) (toPoly c) (gs.map toPoly).prod := by
  have hre : factors.reverse ≠ [] := by simpa using hne
  obtain ⟨f, rest, hfr⟩ := List.exists_cons_of_ne_nil hre
  have hmon' : ∀ g ∈ f :: rest, lc g = 1 := by
    intro g hg; rw [← hfr] at hg; exact hmon g (List.mem_reverse.mp hg)
  have hcop' : ((f :: rest).map (mapP p)).Pairwise IsCoprime := by
    rw [← hfr, List.map_reverse, List.pairwise_reverse]
    exact hcop.imp (fun h => h.symm)
  have hds : degSum (f :: rest) = degSum factors := by
    rw [← hfr]; simp only [degSum, List.map_reverse, List.sum_reverse]
  have hpr : ((f :: rest).map toPoly).prod = (factors.map toPoly).prod := by
    rw [← hfr, List.map_reverse, List.prod_reverse]
  obtain ⟨gs, hok, hfa, hprod⟩ := liftLoop_spec p hp q hq hpq hgcd rest f c [] hmon' hcop' hcm
    (by rw [hds]; exact hclen) hcred (by rw [hpr]; exact hc)
  refine ⟨gs, ?_, ?_, hprod⟩
  · unfold henselLiftMultiple
    have h1 : factors.isEmpty = false := by cases factors <;> simp_all
    simp only [h1, Bool.false_eq_true, ↓reduceIte, hgcd]
    rw [accumulate_reverse, hfr]
    have e : (raccOf q [1] (f :: rest)).tail = raccOf q [1] rest := rfl
    rw [e, hok]
    simp [bind, Except.bind, pure, Except.pure]
  · rw [← hfr, List.reverse_reverse] at hfa
    exact hfa

end NTV.PolyMod

namespace NTV.PolyMod
open NTV.PolyG NTV.Hensel

theorem forall₂_mem_left {α β : Type} {R : α → β → Prop} :
    ∀ {l1 : List α} {l2 : List β}, List.Forall₂ R l1 l2 → ∀ a ∈ l1, ∃ b ∈ l2, R a b := by
  intro l1 l2 h
  induction h with
  | nil => intro a ha; simp at ha
  | cons hab _ ih =>
    intro a ha
    rcases List.mem_cons.mp ha with rfl | ha
    · exact ⟨_, List.mem_cons_self, hab⟩
    · obtain ⟨b, hb, hr⟩ := ih a ha
      exact ⟨b, List.mem_cons_of_mem _ hb, hr⟩

/-- deg c = Σ deg fᵢ when c ≡ lc(c)·∏ fᵢ (mod p), p ∤ lc(c), fᵢ monic -/
theorem length_of_prod_cong (p : Int) (c : Poly) (hlc : ¬ p ∣ lc c) (factors : List Poly)
    (hmon : ∀ g ∈ factors, lc g = 1)
    (h : PCong p (toPoly c) (C (lc c) * (factors.map toPoly).prod)) : c.length = degSum factors + 1 := by
  have hlc0 : lc c ≠ 0 := fun e => hlc (by rw [e]; exact dvd_zero p)
  have hne := ne_nil_of_lc_ne_zero c hlc0
  have hpos := List.length_pos_of_ne_nil hne
  obtain ⟨m1, m2⟩ := prod_monic factors hmon
  have key : ∀ j, p ∣ c.getD j 0 - lc c * ((factors.map toPoly).prod).coeff j := by
    intro j
    have := (pcong_iff p _ _).mp h j
    rwa [coeff_sub, coeff_toPoly, coeff_C_mul] at this
  rcases lt_trichotomy (c.length - 1) (degSum factors) with hlt | he | hgt
  · exfalso
    have := key (degSum factors)
    rw [getD_of_length_le c _ (by omega), ← m2, m1.coeff_natDegree, mul_one, zero_sub] at this
    exact hlc ((Int.dvd_neg).mp this)
  · omega
  · exfalso
    have := key (c.length - 1)
    rw [coeff_eq_zero_of_natDegree_lt (by rw [m2]; exact hgt), mul_zero, sub_zero, lc_eq_getD c hne] at this
    exact hlc this

/-- invariant of the outer loop of `lift_factorization` at modulus m = p^j -/
def StageInv (p : Nat) (c : Poly) (factors : List Poly) (m : Int) (res : List Poly) : Prop :=
  List.Forall₂ (LiftRel p m) res factors ∧ PCong m (C (lc c) * (res.map toPoly).prod) (toPoly c)

theorem liftSteps_spec (p : Nat) (hp : p.Prime) (c : Poly) (hlc : ¬ (p : Int) ∣ lc c) (factors : List Poly)
    (hne : factors ≠ []) (hcop : (factors.map (mapP p)).Pairwise IsCoprime)
    (hclen : c.length = degSum factors + 1) :
    ∀ (k j : Nat) (res : List Poly), 1 ≤ j → StageInv p c factors ((p : Int) ^ j) res →
      ∃ gs, liftSteps p c (lc c) k ((p : Int) ^ j) res = .ok gs ∧ StageInv p c factors ((p : Int) ^ (j + k)) gs := by
  have hp1 : (1 : Int) < p := by exact_mod_cast hp.one_lt
  have hlc0 : lc c ≠ 0 := fun e => hlc (by rw [e]; exact dvd_zero _)
  have hcne := ne_nil_of_lc_ne_zero c hlc0
  intro k
  induction k with
  | zero => intro j res _ h; exact ⟨res, rfl, h⟩
  | succ k ih =>
    intro j res hj ⟨hfa, hprod⟩
    set q : Int := (p : Int) ^ j with hqd
    have hq : 1 < q := one_lt_pow₀ hp1 (by omega)
    have hpq : (p : Int) ∣ q := dvd_pow_self _ (by omega)
    have hgcd : ((Int.gcd (p : Int) q : Nat) : Int) = p := by
      exact Int.gcd_eq_left (by omega) hpq
    have hqp : q * p = (p : Int) ^ (j + 1) := by rw [hqd, pow_succ]
    have hqp1 : 1 < q * (p : Int) := by nlinarith
    -- the inverse of the leading coefficient
    have hco : Int.gcd (lc c) (q * p) = 1 := by
      rw [hqp, ← Int.isCoprime_iff_gcd_eq_one]
      have hpi : Prime (p : ℤ) := Nat.prime_iff_prime_int.mp hp
      exact (((Prime.coprime_iff_not_dvd hpi).mpr hlc).symm).pow_right
    have hinv := egcdX_inv (lc c) (q * p) hco
    set invlc := Int.fmod (egcdX (lc c) (q * p)) (q * p) with hinvd
    have hinvd' : (q * p) ∣ lc c * invlc - 1 := (Int.modEq_iff_dvd.mp hinv.symm)
    -- `divided`
    set divided := polyMod (polyMul c invlc) (q * p) with hdd
    obtain ⟨d1, d2, d3⟩ := polyMod_reduced (polyMul c invlc) (q * p) (by omega)
    rw [toPoly_polyMul] at d3
    obtain ⟨dl, dm⟩ := monic_of_cong (q * p) hqp1 divided d1 d2 _ (c.length - 1) d3
      (by intro i hi; rw [coeff_C_mul, coeff_toPoly, getD_of_length_le c i (by omega), mul_zero]; exact dvd_zero _)
      (by rw [coeff_C_mul, coeff_toPoly, lc_eq_getD c hcne, mul_comm invlc]; exact hinvd')
    have hpos := List.length_pos_of_ne_nil hcne
    -- facts about the current factors
    have hmon : ∀ g ∈ res, lc g = 1 := by
      intro g hg
      obtain ⟨f, _, hr⟩ := forall₂_mem_left hfa g hg
      exact hr.1
    have hresne : res ≠ [] := by
      intro e; rw [e] at hfa; cases hfa; exact hne rfl
    have hmapeq : res.map (mapP p) = factors.map (mapP p) :=
      map_eq_of_forall₂ _ _ (hfa.imp (fun _ _ h => mapP_congr h.2.2.2.2))
    have hdseq : degSum res = degSum factors := by
      unfold degSum
      rw [map_eq_of_forall₂ (fun g : Poly => g.length - 1) (fun g : Poly => g.length - 1)
        (hfa.imp (fun _ _ h => by rw [h.2.2.2.1]))]
    have hdc : PCong q (toPoly divided) (res.map toPoly).prod := by
      have h1 : PCong q (toPoly divided) (C invlc * toPoly c) := PCong.of_dvd (Dvd.intro _ rfl) d3
      refine PCong.trans h1 ?_
      refine PCong.trans (PCong.mul (PCong.refl _ _) hprod.symm) ?_
      have e : C invlc * (C (lc c) * (res.map toPoly).prod) = C (lc c * invlc) * (res.map toPoly).prod := by
        rw [C_mul]; ring
      rw [e]
      have := PCong.mul (pcong_C (Int.ModEq.of_mul_right (p : Int) hinv)) (PCong.refl q (res.map toPoly).prod)
      simpa using this
    obtain ⟨gs, hok, hfa2, hprod2⟩ := henselLiftMultiple_spec p hp q hq hpq hgcd divided res hresne hmon
      (by rw [hmapeq]; exact hcop) dm (by rw [dl, hdseq, hclen]; omega) d1 hdc
    have hfa3 : List.Forall₂ (LiftRel p (q * p)) gs factors := by
      refine forall₂_comp ?_ hfa2 hfa
      intro g r f h1 h2
      exact ⟨h1.1, h1.2.1, h1.2.2.1, h1.2.2.2.1.trans h2.2.2.2.1,
        PCong.trans (PCong.of_dvd hpq h1.2.2.2.2) h2.2.2.2.2⟩
    have hprod3 : PCong (q * p) (C (lc c) * (gs.map toPoly).prod) (toPoly c) := by
      refine PCong.trans (PCong.mul (PCong.refl _ _) hprod2.symm) ?_
      refine PCong.trans (PCong.mul (PCong.refl _ _) d3) ?_
      have e : C (lc c) * (C invlc * toPoly c) = C (lc c * invlc) * toPoly c := by rw [C_mul]; ring
      rw [e]
      have := PCong.mul (pcong_C hinv) (PCong.refl (q * p) (toPoly c))
      simpa using this
    have hnext := ih (j + 1) gs (by omega) (by rw [← hqp]; exact ⟨hfa3, hprod3⟩)
    rw [← hqp] at hnext
    obtain ⟨gs2, h1, h2⟩ := hnext
    refine ⟨gs2, ?_, ?_⟩
    · simp only [liftSteps]
      rw [hok]
      simpa [bind, Except.bind] using h1
    · have e : j + (k + 1) = j + 1 + k := by omega
      rw [e]; exact h2

/-- C11: `lift_factorization(p, e, c, factors)` -/
theorem liftFactorization_spec' (p : Nat) (hp : p.Prime) (e : Nat) (he : 1 ≤ e) (c : Poly)
    (hlc : ¬ (p : Int) ∣ lc c) (factors : List Poly) (hne : factors ≠ [])
    (hmon : ∀ f ∈ factors, lc f = 1) (hred : ∀ f ∈ factors, Reduced (p : Int) f)
    (hcop : (factors.map (mapP p)).Pairwise IsCoprime)
    (hprod : PCong (p : Int) (toPoly c) (C (lc c) * (factors.map toPoly).prod)) :
    ∃ gs, liftFactorization p e c factors = .ok gs ∧
      List.Forall₂ (LiftRel p ((p : Int) ^ e)) gs factors ∧
      PCong ((p : Int) ^ e) (C (lc c) * (gs.map toPoly).prod) (toPoly c) := by
  have hlc0 : lc c ≠ 0 := fun e => hlc (by rw [e]; exact dvd_zero _)
  have hcne := ne_nil_of_lc_ne_zero c hlc0
  have hclen := length_of_prod_cong p c hlc factors hmon hprod
  have h0 : StageInv p c factors ((p : Int) ^ 1) factors := by
    rw [pow_one]
    refine ⟨?_, hprod.symm⟩
    rw [List.forall₂_same]
    intro f hf
    exact ⟨hmon f hf, (monic_toPoly f (hmon f hf)).2.2.2, hred f hf, rfl, PCong.refl _ _⟩
  obtain ⟨gs, hok, hinv⟩ := liftSteps_spec p hp c hlc factors hne hcop hclen (e - 1) 1 factors (le_refl _) h0
  have e1 : 1 + (e - 1) = e := by omega
  rw [e1] at hinv
  rw [pow_one] at hok
  refine ⟨gs, ?_, hinv.1, hinv.2⟩
  unfold liftFactorization
  have e2 : coefAt c (degU c) = lc c := by
    have h1 : c.isEmpty = false := by cases c <;> simp_all
    simp only [degU, h1, Bool.false_eq_true, ↓reduceIte, coefAt]
    exact lc_eq_getD c hcne
  rw [e2]; exact hok

end NTV.PolyMod
