import NTV.Proofs.Lemmas.HenselBridge
/-! C11, part 2: shape of the two polynomials returned by one `hensel_lift` call (monic, degree, range). -/
open Polynomial
namespace NTV.PolyMod
open NTV.PolyG NTV.Hensel

theorem modinv_one (r : Int) : (1 : Int) * modinv 1 r ≡ 1 [ZMOD r] := by
  have := modpow_modEq 1 (r - 2) r
  simpa [modinv] using this

/-- the correction `v·f − a·t` of `hensel_lift` has degree < deg a modulo r, for monic a -/
theorem henselLift_corr (r : Int) (hr : 0 < r) (a W : List Int) (ha : lc a = 1) :
    ∀ j, a.length - 1 ≤ j → r ∣ (toPoly (sub W (mul a (polyDivrem W a r).1))).coeff j := by
  obtain ⟨_, _, hane, _⟩ := monic_toPoly a ha
  have hapos := List.length_pos_of_ne_nil hane
  have hrem : ∃ rem : List Int, rem.length < a.length ∧
      PCong r (toPoly (sub W (mul a (polyDivrem W a r).1))) (toPoly rem) := by
    by_cases hs : W.isEmpty || a.isEmpty || decide (W.length < a.length)
    · have e : polyDivrem W a r = ([], W) := by simp only [polyDivrem, hs, ↓reduceIte]
      refine ⟨W, ?_, ?_⟩
      · simp only [Bool.or_eq_true, decide_eq_true_eq, List.isEmpty_iff] at hs
        rcases hs with (h | h) | h
        · subst h; simpa using hapos
        · exact absurd h hane
        · exact h
      · rw [e, toPoly_sub, toPoly_mul]; simp only [toPoly, mul_zero, sub_zero]; exact PCong.refl _ _
    · have hWne : W ≠ [] := by intro e; simp [e] at hs
      have hab : a.length ≤ W.length := by
        simp only [Bool.or_eq_true, decide_eq_true_eq, not_or, not_lt] at hs; exact hs.2
      obtain ⟨c1, c2, _, _⟩ := polyDivrem_contract W a r hr hWne hane hab (by rw [ha]; exact modinv_one r)
      refine ⟨(polyDivrem W a r).2, c2, ?_⟩
      rw [toPoly_sub, toPoly_mul]
      obtain ⟨w, hw⟩ := c1
      exact ⟨w, by linear_combination hw⟩
  obtain ⟨rem, hlen, hcong⟩ := hrem
  intro j hj
  have := (pcong_iff r _ _).mp hcong j
  rw [coeff_sub, coeff_toPoly rem, getD_of_length_le rem j (by omega), sub_zero] at this
  exact this

/-- C11: shape of the result of one `hensel_lift(p, q, c, a, b, u, v)` call with q > 1 and a monic:
a₁ is monic of the degree of a, and a₁, b₁ are canonical with coefficients in [0, q·gcd(p, q)) -/
theorem henselLift_shape (p q : Int) (hq : 1 < q) (c a b u v : List Int) (ha : lc a = 1) :
    lc (henselLift p q c a b u v).1 = 1 ∧ (henselLift p q c a b u v).1.length = a.length ∧
    Reduced (q * (Int.gcd p q : Int)) (henselLift p q c a b u v).1 ∧
    Reduced (q * (Int.gcd p q : Int)) (henselLift p q c a b u v).2.1 ∧
    Canon (henselLift p q c a b u v).2.1 := by
  set r : Int := (Int.gcd p q : Int) with hr
  have hrpos : 0 < r := by
    have := Int.gcd_pos_of_ne_zero_right p (show q ≠ 0 by omega)
    omega
  have hqr : 1 < q * r := by nlinarith
  set f := polyMod (polyDiv (sub c (mul a b)) q) r with hf
  set W := mul v f with hW
  set t := (polyDivrem W a r).1 with ht
  have e1 : (henselLift p q c a b u v).1 = polyMod (add a (polyMul (sub W (mul a t)) q)) (q * r) := rfl
  have e2 : (henselLift p q c a b u v).2.1 = polyMod (add b (polyMul (add (mul u f) (mul b t)) q)) (q * r) := rfl
  rw [e1, e2]
  obtain ⟨r1, c1, g1⟩ := polyMod_reduced (add a (polyMul (sub W (mul a t)) q)) (q * r) (by omega)
  obtain ⟨r2, c2, _⟩ := polyMod_reduced (add b (polyMul (add (mul u f) (mul b t)) q)) (q * r) (by omega)
  obtain ⟨_, _, hane, _⟩ := monic_toPoly a ha
  have hapos := List.length_pos_of_ne_nil hane
  have hcorr := henselLift_corr r hrpos a W ha
  rw [toPoly_add, toPoly_polyMul] at g1
  have hm := monic_of_cong (q * r) hqr _ r1 c1 _ (a.length - 1) g1
    (by
      intro j hj
      rw [coeff_add, coeff_C_mul, coeff_toPoly, getD_of_length_le a j (by omega), zero_add]
      exact mul_dvd_mul_left q (hcorr j (by omega)))
    (by
      rw [coeff_add, coeff_C_mul, coeff_toPoly, lc_eq_getD a hane, ha]
      have : (1 : ℤ) + q * (toPoly (sub W (mul a t))).coeff (a.length - 1) - 1 =
          q * (toPoly (sub W (mul a t))).coeff (a.length - 1) := by ring
      rw [this]
      exact mul_dvd_mul_left q (hcorr _ (le_refl _)))
  exact ⟨hm.2, by omega, r1, r2, c2⟩

/-- C11: if moreover c is monic with deg c = deg a + deg b and the hypotheses of the lifting step hold
(c ≡ a·b mod q, a·u + b·v ≡ 1 mod gcd(p, q)), then b₁ is monic of the degree of b -/
theorem henselLift_shape_b (p q : Int) (hq : 1 < q) (c a b u v : List Int) (ha : lc a = 1) (hcm : lc c = 1)
    (hlen : c.length + 1 = a.length + b.length)
    (hc : PCong q (toPoly c) (toPoly a * toPoly b))
    (huv : PCong (Int.gcd p q : Int) (toPoly a * toPoly u + toPoly b * toPoly v) 1) :
    lc (henselLift p q c a b u v).2.1 = 1 ∧ (henselLift p q c a b u v).2.1.length = b.length := by
  obtain ⟨s1, s2, s3, s4, s5⟩ := henselLift_shape p q hq c a b u v ha
  obtain ⟨_, t2, _, _⟩ := henselLift_spec p q c a b u v hc huv
  have hrpos : 0 < (Int.gcd p q : Int) := by
    have := Int.gcd_pos_of_ne_zero_right p (show q ≠ 0 by omega)
    omega
  have hqr : 1 < q * (Int.gcd p q : Int) := by nlinarith
  obtain ⟨m1, m2, m3, _⟩ := monic_toPoly _ s1
  obtain ⟨n1, n2, n3, _⟩ := monic_toPoly c hcm
  obtain ⟨k1, k2, k3⟩ := monic_cofactor _ hqr _ _ m1 n1 _ s4 s5 t2
  refine ⟨k1, ?_⟩
  rw [m2, n2, s2] at k2
  have := List.length_pos_of_ne_nil k3
  have := List.length_pos_of_ne_nil m3
  have := List.length_pos_of_ne_nil n3
  omega

end NTV.PolyMod
