import NTV.Model.Trial
import Mathlib.Data.Nat.Prime.Basic
import Mathlib.Algebra.BigOperators.Group.List.Basic
import Mathlib.Tactic
namespace NTV.Trial

def prodOf (l : List (Nat × Nat)) : Nat := (l.map (fun qe => qe.1 ^ qe.2)).prod

theorem prodOf_append (l1 l2) : prodOf (l1 ++ l2) = prodOf l1 * prodOf l2 := by
  simp [prodOf]

theorem strip_spec (p n e : Nat) (hp : 2 ≤ p) (hn : 0 < n) :
    let r := strip p n e
    0 < r.1 ∧ e ≤ r.2 ∧ n = r.1 * p ^ (r.2 - e) ∧ ¬ p ∣ r.1 ∧ (e < r.2 ↔ p ∣ n) := by
  fun_induction strip p n e with
  | case1 n e h ih =>
    have hdvd : p ∣ n := Nat.dvd_of_mod_eq_zero h.2.2
    have hpos : 0 < n / p := Nat.div_pos (Nat.le_of_dvd hn hdvd) (by omega)
    obtain ⟨h1, h2, h3, h4, _⟩ := ih hpos
    refine ⟨h1, by omega, ?_, h4, ⟨fun _ => hdvd, fun _ => by omega⟩⟩
    have e1 : (strip p (n / p) (e + 1)).2 - e = ((strip p (n / p) (e + 1)).2 - (e + 1)) + 1 := by omega
    rw [e1, pow_succ, ← mul_assoc, ← h3]
    exact (Nat.div_mul_cancel hdvd).symm
  | case2 n e h =>
    have : ¬ p ∣ n := by
      intro hd; exact h ⟨hp, hn, Nat.mod_eq_zero_of_dvd hd⟩
    simp [this, hn]

/-- loop invariant -/
structure LInv (n0 p n : Nat) (acc : List (Nat × Nat)) : Prop where
  npos : 0 < n
  p2 : 2 ≤ p
  prod : n0 = n * prodOf acc
  rough : ∀ q, q.Prime → q < p → ¬ q ∣ n
  primes : ∀ qe ∈ acc, qe.1.Prime ∧ 0 < qe.2 ∧ qe.1 < p
  sorted : acc.Pairwise (fun a b => a.1 < b.1)

theorem loop_spec (n0 p n : Nat) (acc : List (Nat × Nat)) (h : LInv n0 p n acc) :
    let res := loop p n acc
    n0 = prodOf res ∧ (∀ qe ∈ res, qe.1.Prime ∧ 0 < qe.2) ∧ res.Pairwise (fun a b => a.1 < b.1) := by
  fun_induction loop p n acc with
  | case1 p n acc hc r ih =>
    obtain ⟨r1, r2, r3, r4, r5⟩ := strip_spec p n 0 hc.1 h.npos
    apply ih
    simp only [Nat.sub_zero] at r3
    refine ⟨r1, Nat.le_succ_of_le hc.1, ?_, ?_, ?_, ?_⟩
    · -- product
      split
      · rw [prodOf_append, h.prod, r3]; simp [prodOf]; ring
      · rename_i hz
        have : (strip p n 0).2 = 0 := Nat.eq_zero_of_not_pos hz
        rw [h.prod, r3, this]; simp; exact Or.inl rfl
    · -- roughness for p+1
      intro q hq hlt hd
      rcases Nat.lt_succ_iff_lt_or_eq.mp hlt with h1 | h1
      · exact h.rough q hq h1 (Dvd.dvd.trans hd (Dvd.intro _ r3.symm))
      · subst h1; exact r4 hd
    · intro qe hqe
      split at hqe
      · rcases List.mem_append.mp hqe with h1 | h1
        · obtain ⟨a, b, c⟩ := h.primes qe h1; exact ⟨a, b, by omega⟩
        · simp only [List.mem_singleton] at h1; subst h1
          rename_i hpos
          have hpd : p ∣ n := r5.mp hpos
          refine ⟨?_, hpos, by simp⟩
          -- p is prime: its least prime factor divides n, hence is ≥ p
          have hmf := Nat.minFac_prime (n := p) (by omega)
          have hle := Nat.minFac_le (n := p) (by omega)
          by_contra hnp
          have hlt : p.minFac < p := lt_of_le_of_ne hle (fun e => hnp (e ▸ hmf))
          exact h.rough _ hmf hlt (Dvd.dvd.trans (Nat.minFac_dvd p) hpd)
      · obtain ⟨a, b, c⟩ := h.primes qe hqe; exact ⟨a, b, by omega⟩
    · split
      · rw [List.pairwise_append]
        refine ⟨h.sorted, by simp, ?_⟩
        intro a ha b hb
        simp only [List.mem_singleton] at hb; subst hb
        exact (h.primes a ha).2.2
      · exact h.sorted
  | case2 p n acc hc hn =>
    -- n > 1 is prime: no prime factor below p and p*p > n
    have hnprime : n.Prime := by
      by_contra hnp
      have hmf := Nat.minFac_prime (n := n) (by omega)
      have hsq := Nat.minFac_sq_le_self (n := n) (by omega) hnp
      have hge : p ≤ n.minFac := by
        by_contra hlt; exact h.rough _ hmf (by omega) (Nat.minFac_dvd n)
      have : ¬ (2 ≤ p ∧ p * p ≤ n) := hc
      have hp2 := h.p2
      have : p * p ≤ n := by
        calc p * p ≤ n.minFac * n.minFac := Nat.mul_le_mul hge hge
          _ = n.minFac ^ 2 := by ring
          _ ≤ n := hsq
      exact hc ⟨hp2, this⟩
    have hge : p ≤ n := by
      by_contra hlt; exact h.rough n hnprime (by omega) (dvd_refl n)
    refine ⟨?_, ?_, ?_⟩
    · rw [prodOf_append, h.prod]; simp [prodOf]; ring
    · intro qe hqe
      rcases List.mem_append.mp hqe with h1 | h1
      · exact ⟨(h.primes qe h1).1, (h.primes qe h1).2.1⟩
      · simp only [List.mem_singleton] at h1; subst h1; exact ⟨hnprime, by simp⟩
    · rw [List.pairwise_append]
      refine ⟨h.sorted, by simp, ?_⟩
      intro a ha b hb
      simp only [List.mem_singleton] at hb; subst hb
      have := (h.primes a ha).2.2; simp; omega
  | case3 p n acc hc hn =>
    have : n = 1 := by have := h.npos; omega
    subst this
    exact ⟨by rw [h.prod]; simp, fun qe hqe => ⟨(h.primes qe hqe).1, (h.primes qe hqe).2.1⟩, h.sorted⟩

/-- C01 (trial division), full: for every n ≥ 1 the model of `factorize::factorize` terminates and
returns a list of (prime, positive exponent), strictly increasing in the prime, with product n. -/
theorem factorize_correct (n : Nat) (hn : 1 ≤ n) :
    n = prodOf (factorize n) ∧ (∀ qe ∈ factorize n, qe.1.Prime ∧ 0 < qe.2) ∧
      (factorize n).Pairwise (fun a b => a.1 < b.1) := by
  unfold factorize
  apply loop_spec n 2 n []
  exact ⟨by omega, le_refl 2, by simp [prodOf], fun q hq hlt => by have := hq.two_le; omega,
    by simp, List.Pairwise.nil⟩

end NTV.Trial
