import NTV.Proofs.Lemmas.IdealProofsA
/-! # Ideals, part D: `TableRing` can be checked on basis vectors (a decidable condition). -/
namespace NTV.IdealP
open NTV.Hnf NTV.Ord Finset

/-- the ring axioms for the product on ℤⁿ give `TableRing` (which is stated on lists, for `tmul`) -/
theorem tableRing_of_star {t : Table} {n : Nat} (pos : 0 < n) (len : t.length = n)
    (shape : ∀ r ∈ t, r.length = n ∧ ∀ s ∈ r, s.length = n)
    (hc : ∀ x y, star t n x y = star t n y x)
    (ha : ∀ x y z, star t n (star t n x y) z = star t n x (star t n y z))
    (h1 : ∀ x, star t n (e n ⟨0, pos⟩) x = x) : TableRing t n where
  pos := pos
  len := len
  shape := shape
  comm := by
    intro x y hx hy
    rw [tmul_eq len hx hy, tmul_eq len hy hx]
    congr 1
    apply vec_inj (n := n) (by rw [tmulV_length, hx]) (by rw [tmulV_length, hy])
    rw [vec_tmulV hx, vec_tmulV hy, hc]
  assoc := by
    intro x y z xy yz hx hy hz hxy hyz
    rw [tmul_eq len hx hy] at hxy
    rw [tmul_eq len hy hz] at hyz
    cases hxy; cases hyz
    have hxy : (tmulV t x y).length = n := by rw [tmulV_length, hx]
    have hyz : (tmulV t y z).length = n := by rw [tmulV_length, hy]
    rw [tmul_eq len hxy hz, tmul_eq len hx hyz]
    congr 1
    apply vec_inj (n := n) (by rw [tmulV_length, hxy]) (by rw [tmulV_length, hx])
    rw [vec_tmulV hxy, vec_tmulV hx, vec_tmulV hx, vec_tmulV hy, ha]
  one := by
    intro x hx
    rw [tmul_eq len (unit_length n 0) hx]
    congr 1
    apply vec_inj (n := n) (by rw [tmulV_length, unit_length]) hx
    rw [vec_tmulV (unit_length n 0), vec_unit n ⟨0, pos⟩, h1]

/-- the ring axioms on basis vectors, for the model function `tmul` (all quantifiers bounded: decidable) -/
def TableRingBasis (t : Table) (n : Nat) : Prop :=
  0 < n ∧ t.length = n ∧ (∀ r ∈ t, r.length = n ∧ ∀ s ∈ r, s.length = n) ∧
  (∀ i < n, ∀ j < n, tmul t (NTV.Ideal.unit n i) (NTV.Ideal.unit n j)
      = tmul t (NTV.Ideal.unit n j) (NTV.Ideal.unit n i)) ∧
  (∀ i < n, ∀ j < n, ∀ k < n,
    (tmul t (NTV.Ideal.unit n i) (NTV.Ideal.unit n j) >>= fun a => tmul t a (NTV.Ideal.unit n k))
      = (tmul t (NTV.Ideal.unit n j) (NTV.Ideal.unit n k) >>= fun b => tmul t (NTV.Ideal.unit n i) b)) ∧
  (∀ j < n, tmul t (NTV.Ideal.unit n 0) (NTV.Ideal.unit n j) = .ok (NTV.Ideal.unit n j))

instance (t : Table) (n : Nat) : Decidable (TableRingBasis t n) := by
  unfold TableRingBasis; infer_instance

theorem star_basis_of_tmul {t : Table} {n : Nat} (len : t.length = n) (i j : Fin n) :
    tmul t (NTV.Ideal.unit n i.val) (NTV.Ideal.unit n j.val) = .ok (tmulV t (NTV.Ideal.unit n i.val) (NTV.Ideal.unit n j.val)) ∧
    vec n (tmulV t (NTV.Ideal.unit n i.val) (NTV.Ideal.unit n j.val)) = star t n (e n i) (e n j) := by
  refine ⟨tmul_eq len (unit_length n _) (unit_length n _), ?_⟩
  rw [vec_tmulV (unit_length n _), vec_unit, vec_unit]

/-- expansion of a product on the basis -/
theorem star_expand (t : Table) (n : Nat) (x y : Fin n → ℤ) :
    star t n x y = ∑ i, x i • ∑ j, y j • star t n (e n i) (e n j) := by
  conv_lhs => rw [eq_sum_e x]
  rw [← starB_apply, map_sum, LinearMap.sum_apply]
  refine Finset.sum_congr rfl (fun i _ => ?_)
  rw [map_smul, LinearMap.smul_apply]
  congr 1
  conv_lhs => rw [eq_sum_e y]
  rw [map_sum]
  simp only [map_smul, starB_apply]

theorem star_assoc_of_basis {t : Table} {n : Nat}
    (H : ∀ i j k : Fin n, star t n (star t n (e n i) (e n j)) (e n k) = star t n (e n i) (star t n (e n j) (e n k)))
    (x y z : Fin n → ℤ) : star t n (star t n x y) z = star t n x (star t n y z) := by
  have key : star t n (star t n (∑ i, x i • e n i) (∑ i, y i • e n i)) (∑ i, z i • e n i) =
      star t n (∑ i, x i • e n i) (star t n (∑ i, y i • e n i) (∑ i, z i • e n i)) := by
    simp only [← starB_apply]
    simp only [map_sum, map_smul, LinearMap.sum_apply, LinearMap.smul_apply]
    simp only [starB_apply, H]
  rwa [← eq_sum_e x, ← eq_sum_e y, ← eq_sum_e z] at key

theorem star_comm_of_basis {t : Table} {n : Nat}
    (H : ∀ i j : Fin n, star t n (e n i) (e n j) = star t n (e n j) (e n i))
    (x y : Fin n → ℤ) : star t n x y = star t n y x := by
  rw [star_expand t n x y, star_expand t n y x]
  simp only [Finset.smul_sum]
  rw [Finset.sum_comm]
  refine Finset.sum_congr rfl (fun j _ => Finset.sum_congr rfl (fun i _ => ?_))
  rw [H i j, smul_comm]

theorem one_star_of_basis {t : Table} {n : Nat} (pos : 0 < n)
    (H : ∀ j : Fin n, star t n (e n ⟨0, pos⟩) (e n j) = e n j) (x : Fin n → ℤ) :
    star t n (e n ⟨0, pos⟩) x = x := by
  conv_rhs => rw [eq_sum_e x]
  conv_lhs => rw [eq_sum_e x]
  rw [← starB_apply]
  simp only [map_sum, map_smul, starB_apply, H]

/-- the basis check implies `TableRing` -/
theorem TableRing.of_basis {t : Table} {n : Nat} (h : TableRingBasis t n) : TableRing t n := by
  obtain ⟨pos, len, shape, hc, ha, h1⟩ := h
  apply tableRing_of_star pos len shape
  · apply star_comm_of_basis
    intro i j
    have h := hc i.val i.isLt j.val j.isLt
    rw [(star_basis_of_tmul len i j).1, (star_basis_of_tmul len j i).1] at h
    have h' := congrArg (vec n) (Except.ok.inj h)
    rwa [(star_basis_of_tmul len i j).2, (star_basis_of_tmul len j i).2] at h'
  · apply star_assoc_of_basis
    intro i j k
    have h := ha i.val i.isLt j.val j.isLt k.val k.isLt
    rw [(star_basis_of_tmul len i j).1, (star_basis_of_tmul len j k).1] at h
    have l1 : (tmulV t (NTV.Ideal.unit n i.val) (NTV.Ideal.unit n j.val)).length = n := by
      rw [tmulV_length, unit_length]
    have l2 : (tmulV t (NTV.Ideal.unit n j.val) (NTV.Ideal.unit n k.val)).length = n := by
      rw [tmulV_length, unit_length]
    have e1 : (Except.ok (tmulV t (NTV.Ideal.unit n i.val) (NTV.Ideal.unit n j.val)) >>=
        fun a => tmul t a (NTV.Ideal.unit n k.val))
        = tmul t (tmulV t (NTV.Ideal.unit n i.val) (NTV.Ideal.unit n j.val)) (NTV.Ideal.unit n k.val) := rfl
    have e2 : (Except.ok (tmulV t (NTV.Ideal.unit n j.val) (NTV.Ideal.unit n k.val)) >>=
        fun b => tmul t (NTV.Ideal.unit n i.val) b)
        = tmul t (NTV.Ideal.unit n i.val) (tmulV t (NTV.Ideal.unit n j.val) (NTV.Ideal.unit n k.val)) := rfl
    rw [e1, e2, tmul_eq len l1 (unit_length n _), tmul_eq len (unit_length n _) l2] at h
    have h' := congrArg (vec n) (Except.ok.inj h)
    have L : vec n (tmulV t (tmulV t (NTV.Ideal.unit n i.val) (NTV.Ideal.unit n j.val)) (NTV.Ideal.unit n k.val))
        = star t n (star t n (e n i) (e n j)) (e n k) := by
      rw [vec_tmulV l1, (star_basis_of_tmul len i j).2, vec_unit]
    have R : vec n (tmulV t (NTV.Ideal.unit n i.val) (tmulV t (NTV.Ideal.unit n j.val) (NTV.Ideal.unit n k.val)))
        = star t n (e n i) (star t n (e n j) (e n k)) := by
      rw [vec_tmulV (unit_length n _), (star_basis_of_tmul len j k).2, vec_unit]
    rwa [L, R] at h'
  · apply one_star_of_basis pos
    intro j
    have h := h1 j.val j.isLt
    rw [tmul_eq len (unit_length n _) (unit_length n _)] at h
    have h' := congrArg (vec n) (Except.ok.inj h)
    rwa [vec_tmulV (unit_length n _), vec_unit n ⟨0, pos⟩, vec_unit] at h'

/-- non-vacuity: the table of ℤ[√-5] (f = x² + 5, basis 1, θ) -/
example : TableRing [[[1, 0], [0, 1]], [[0, 1], [-5, 0]]] 2 := TableRing.of_basis (by decide +kernel)

end NTV.IdealP
