import NTV.Proofs.Lemmas.Round2RingC
/-! Round 2, list level: the tables computed by `one_step` are the multiplication table of the order reduced
modulo `p²` and modulo `p`; a successful `one_step` certifies that the order is closed under multiplication. -/
open Matrix Finset
namespace NTV.Round2
open NTV.Ord NTV.PolyG
open NTV.RowOps (toM Rect ent)

theorem getD_eq_getElem {α : Type} (l : List α) (d : α) (k : Nat) (h : k < l.length) : l.getD k d = l[k] := by
  simp [List.getD_eq_getElem?_getD, List.getElem?_eq_getElem h]

/-- the innermost loop of the table computation -/
theorem cell_inv (x : List Rat) (n : Nat) (hx : x.length = n) (p p2 : Int) (hp2 : p2 ≠ 0) (row : List Int)
    (h : tabulate n (fun k => do
        let e ← idx x k
        if !isInteger e then .error "panic assert"
        else
          let r2 ← remX (toInteger e) p2
          let _ ← remX r2 p
          pure r2) = .ok row) :
    row.length = n ∧ ∀ k < n, isInteger (x.getD k 0) = true ∧
      row.getD k 0 = Int.tmod (toInteger (x.getD k 0)) p2 := by
  obtain ⟨hl, hrow⟩ := tabulate_inv _ _ _ h
  refine ⟨hl, ?_⟩
  intro k hk
  have hk' : k < row.length := by omega
  have := hrow k hk hk'
  rw [idx_getD0 x k (by omega)] at this
  simp only [bind, Except.bind] at this
  by_cases hi : isInteger (x.getD k 0) = true
  · refine ⟨hi, ?_⟩
    simp only [hi, Bool.not_true, Bool.false_eq_true, if_false] at this
    unfold remX at this
    rw [if_neg hp2] at this
    simp only at this
    split at this
    · cases this
    · simp only [pure, Except.pure, Except.ok.injEq] at this
      rw [getD_eq_getElem _ _ _ hk', ← this]
  · have hi' : (!isInteger (x.getD k 0)) = true := by simpa using hi
    rw [if_pos hi'] at this
    cases this

theorem _root_.NTV.Ord.Setup.solveExpect_coords {f : List Int} {o : QMat} {n : Nat} (S : Setup f o n) (i j : Nat) :
    solveExpect o ((List.range n).map (fun k => coefAt (prodOf f o i j) k)) = .ok (coordsOf f o i j) := by
  have := (S.solve_coords i j).1
  rw [S.rect.1] at this
  unfold solveExpect
  rw [this]

/-- **the tables of `one_step`**: success certifies that all products of basis vectors have integral
coordinates; `table2` is the multiplication table reduced modulo `p²`, `table` is `table2` reduced modulo `p`
(truncated remainders) -/
theorem tables_spec {f : List Int} {o : QMat} {n : Nat} (S : Setup f o n) (p p2 : Int) (hp2 : p2 ≠ 0)
    (t t2 : Table) (h : tables f o n p p2 = .ok (t, t2)) :
    AllInt f o n ∧ Cube3 n t ∧ Cube3 n t2 ∧
    ∀ i < n, ∀ j < n, ∀ k < n,
      tent t2 i j k = Int.tmod (tent (tableOf f o n) i j k) p2 ∧
      tent t i j k = Int.tmod (tent t2 i j k) p := by
  unfold tables at h
  obtain ⟨T2, hT2, h⟩ := (bind_ok _ _ _).mp h
  simp only [pure, Except.pure, Except.ok.injEq, Prod.mk.injEq] at h
  obtain ⟨rfl, rfl⟩ := h
  obtain ⟨hl1, hrow1⟩ := tabulate_inv _ _ _ hT2
  -- the (i, j) cell
  have hcell : ∀ i (hi : i < n) j (hj : j < n),
      ∃ (h1 : i < T2.length) (h2 : j < (T2[i]).length), ((T2[i])[j]).length = n ∧ (T2[i]).length = n ∧
        ∀ k < n, isInteger ((coordsOf f o i j).getD k 0) = true ∧
          ((T2[i])[j]).getD k 0 = Int.tmod (toInteger ((coordsOf f o i j).getD k 0)) p2 := by
    intro i hi j hj
    have h1 : i < T2.length := by omega
    have hbody := hrow1 i hi h1
    rw [idx_getD o i (by rw [S.rect.1]; exact hi)] at hbody
    simp only [bind, Except.bind] at hbody
    obtain ⟨hl2, hrow2⟩ := tabulate_inv _ _ _ hbody
    have h2 : j < (T2[i]).length := by omega
    have hbody2 := hrow2 j hj h2
    rw [idx_getD o j (by rw [S.rect.1]; exact hj)] at hbody2
    simp only at hbody2
    have hm := (S.mul_omega i j hi hj).1
    unfold omega at hm
    rw [hm] at hbody2
    simp only [Except.mapError] at hbody2
    rw [S.solveExpect_coords i j] at hbody2
    simp only at hbody2
    obtain ⟨hl3, hc⟩ := cell_inv _ n (S.solve_coords i j).2.1 p p2 hp2 _ hbody2
    exact ⟨h1, h2, hl3, hl2, hc⟩
  have hAll : AllInt f o n := by
    intro i hi j hj k hk
    obtain ⟨_, _, _, _, hc⟩ := hcell i hi j hj
    exact (hc k hk).1
  have hC2 : Cube3 n T2 := by
    refine ⟨hl1, ?_, ?_⟩
    · intro ti hti
      obtain ⟨i, hi, rfl⟩ := List.mem_iff_getElem.mp hti
      obtain ⟨_, _, _, h4, _⟩ := hcell i (by omega) 0 S.pos
      exact h4
    · intro ti hti tij htij
      obtain ⟨i, hi, rfl⟩ := List.mem_iff_getElem.mp hti
      obtain ⟨j, hj, rfl⟩ := List.mem_iff_getElem.mp htij
      obtain ⟨_, _, _, h4, _⟩ := hcell i (by omega) 0 S.pos
      obtain ⟨_, _, h3, _, _⟩ := hcell i (by omega) j (by omega)
      exact h3
  have hC1 : Cube3 n (T2.map (fun ti => ti.map (fun tij => tij.map (fun x => Int.tmod x p)))) := by
    refine ⟨by simp [hl1], ?_, ?_⟩
    · intro ti hti
      obtain ⟨ti', hti', rfl⟩ := List.mem_map.mp hti
      simp [hC2.len2 ti' hti']
    · intro ti hti tij htij
      obtain ⟨ti', hti', rfl⟩ := List.mem_map.mp hti
      obtain ⟨tij', htij', rfl⟩ := List.mem_map.mp htij
      simp [hC2.len3 ti' hti' tij' htij']
  refine ⟨hAll, hC1, hC2, ?_⟩
  intro i hi j hj k hk
  obtain ⟨h1, h2, h3, h4, hc⟩ := hcell i hi j hj
  have e2 : tent T2 i j k = ((T2[i])[j]).getD k 0 := by
    unfold tent
    rw [getD_eq_getElem T2 [] i h1, getD_eq_getElem (T2[i]) [] j h2]
  refine ⟨?_, ?_⟩
  · rw [e2, (hc k hk).2, tent_tableOf i j k hi hj hk]
  · unfold tent
    simp only [List.getD_eq_getElem?_getD, List.getElem?_map, List.getElem?_eq_getElem h1, Option.map_some,
      Option.getD_some, List.getElem?_eq_getElem h2]
    have hk3 : k < ((T2[i])[j]).length := by omega
    simp [List.getElem?_eq_getElem hk3]

/-- a successful table computation certifies closedness -/
theorem tables_closed {f : List Int} {o : QMat} {n : Nat} (S : Setup f o n) (p p2 : Int) (hp2 : p2 ≠ 0)
    (t t2 : Table) (h : tables f o n p p2 = .ok (t, t2)) : Closed f o n :=
  S.closed_iff.mpr (tables_spec S p p2 hp2 t t2 h).1

end NTV.Round2
