import NTV.Proofs.Lemmas.OrdUnionCanon
import NTV.Proofs.Lemmas.AlgLaws
/-! The power-basis order of a monic θ: the Hermite normal form fixes a matrix already in normal form
(in particular the identity), so `trivial_order_monic` and `singly_gen` store the identity matrix, whose
discriminant is `disc(f)`. -/
open Matrix Finset
namespace NTV.Hnf

/-- `HNF::new` is the identity on matrices in Hermite normal form -/
theorem hnfNew_of_isHNF (H : Mat) (r m : Nat) (hr : Rect r m H) (hr0 : 0 < r) (hm : 0 < m) (pv : List Nat)
    (hH : IsHNF H m pv) : hnfNew H = some H := by
  obtain ⟨⟨H', U, k⟩, h1⟩ := Option.isSome_iff_exists.mp (hnfWithU_total H r m hr)
  obtain ⟨W, pv', R⟩ := Result.of_spec H r m hr hr0 hm H' U k h1
  have hpl : pv.length = r := by rw [hH.len, hr.1]
  have key := NTV.HnfU.hnf_unique_F hH.toF R.shape.toF
    (by
      intro t ht
      have hin := R.row_in_lattice t ht
      obtain ⟨c, hc⟩ := hin
      refine ⟨fun s => if h : s < r then c ⟨s, h⟩ else 0, ?_⟩
      intro col hcol
      have := congrFun hc ⟨col, hcol⟩
      simp only [Matrix.vecMul, dotProduct, toM] at this
      rw [← this, hpl, ← Fin.sum_univ_eq_sum_range (fun s => (if h : s < r then c ⟨s, h⟩ else 0) * ent H s col) r]
      apply Finset.sum_congr rfl
      intro x _
      simp [x.isLt])
    (by
      intro t ht
      have htr : t < r := by rw [← hpl]; exact ht
      obtain ⟨c, hc⟩ := R.lattice_as_sum _ (InLattice.row (X := H) (m := m) ⟨t, htr⟩)
      exact ⟨c, fun col hcol => by rw [← hc col hcol]; rfl⟩)
  obtain ⟨hpv, hent⟩ := key
  have hlen : r - k = r := by rw [← R.lenPv, ← hpv, hpl]
  have rH' := R.rectH
  rw [hlen] at rH'
  have : H' = H := mat_ext H' H rH' hr (fun i hi j hj => (hent i (by rw [hpl]; exact hi) j hj).symm)
  simp [hnfNew, h1, this]

theorem isHNF_idMat (n : Nat) : IsHNF (idMat n) n (List.range n) where
  len := by simp [idMat]
  incr := List.pairwise_lt_range
  lt := fun p hp => List.mem_range.mp hp
  pos := by
    intro t ht
    have htn : t < n := by simpa using ht
    simp [ent_idMat n t t htn htn]
  last := by
    intro t ht col hc hcol
    have htn : t < n := by simpa using ht
    simp only [List.getElem_range] at hc
    rw [ent_idMat n t col htn hcol, if_neg (by omega)]
  below := by
    intro t ht t' htt' ht'
    have htn : t < n := by simpa using ht
    have ht'n : t' < n := by simpa [idMat] using ht'
    simp only [List.getElem_range]
    rw [ent_idMat n t' t ht'n htn, if_neg (by omega), ent_idMat n t t htn htn]
    simp

theorem hnfNew_idMat (n : Nat) (hn : 0 < n) : hnfNew (idMat n) = some (idMat n) :=
  hnfNew_of_isHNF (idMat n) n n (Rect_idMat n) hn hn _ (isHNF_idMat n)

end NTV.Hnf

namespace NTV.Ord
open NTV.RowOps (toM Rect ent)
open NTV.PolyG (degU coefAt Canon toPoly)

theorem identityQ_rect (n : Nat) : Rect n n (identityQ n) := by
  refine ⟨by simp [identityQ], ?_⟩
  intro r hr
  simp only [identityQ, List.mem_map, List.mem_range] at hr
  obtain ⟨i, _, rfl⟩ := hr
  simp

theorem identityQ_ent (n i j : Nat) (hi : i < n) (hj : j < n) :
    ent (identityQ n) i j = if i = j then 1 else 0 := by
  simp [ent, identityQ, List.getD_eq_getElem?_getD, hi, hj]

theorem identityQ_toM (n : Nat) : toM n n (identityQ n) = 1 := by
  ext i j
  simp only [toM]
  rw [identityQ_ent n i j i.isLt j.isLt, Matrix.one_apply]
  simp [Fin.ext_iff]

theorem identityQ_lcm (n : Nat) : lcmDen (identityQ n) 1 = 1 := by
  apply Int.eq_one_of_dvd_one (lcmDen_nonneg _)
  apply (lcmDen_spec (identityQ n) 1).2.2 1 (dvd_refl 1)
  intro row hrow e he
  simp only [identityQ, List.mem_map, List.mem_range] at hrow
  obtain ⟨i, _, rfl⟩ := hrow
  simp only [List.mem_map, List.mem_range] at he
  obtain ⟨j, _, rfl⟩ := he
  split <;> simp

theorem identityQ_scaled (n : Nat) : scaled (identityQ n) n = NTV.Hnf.idMat n := by
  unfold scaled NTV.Hnf.idMat
  apply List.map_congr_left
  intro i hi
  apply List.map_congr_left
  intro j hj
  rw [identityQ_ent n i j (List.mem_range.mp hi) (List.mem_range.mp hj), identityQ_lcm]
  split <;> simp [toInteger]

/-- `hnf_reduce` stores the identity matrix as itself -/
theorem hnfReduce_identityQ (n : Nat) (hn : 0 < n) : hnfReduce (identityQ n) = .ok (identityQ n) := by
  rw [hnfReduce_unfold (identityQ n) n (identityQ_rect n), identityQ_scaled, NTV.Hnf.hnfNew_idMat n hn]
  simp only
  rw [unscale_ok n _ _ (NTV.Hnf.Rect_idMat n), identityQ_lcm]
  congr 1
  unfold identityQ
  apply List.map_congr_left
  intro i hi
  apply List.map_congr_left
  intro j hj
  rw [NTV.Hnf.ent_idMat n i j (List.mem_range.mp hi) (List.mem_range.mp hj)]
  split <;> simp

/-- the discriminant of the order stored as the identity matrix, for monic f of degree ≥ 1, is the value of
`discriminant(f)` -/
theorem discriminantOrd_identityQ (f : List Int) (hdeg : degU f ≠ 0) (hmonic : coefAt f (degU f) = 1)
    (d : Int) (fl : Bool) (hd : NTV.Res.discriminant f = .ok (d, fl)) :
    discriminantOrd (identityQ (degU f)) f = .ok d := by
  rw [discriminantOrd_ok_iff (identityQ (degU f)) (degU f) (identityQ_rect _) f d]
  refine ⟨d, fl, hd, hdeg, ?_, ?_⟩
  · rw [hmonic]; simp
  · unfold discValue
    rw [hmonic, identityQ_toM, Matrix.det_one]
    simp

open Polynomial in
/-- the monomial x^j as a stored expression -/
def xpow (j : Nat) : List Rat := List.replicate j 0 ++ [1]

theorem xpow_length (j : Nat) : (xpow j).length = j + 1 := by simp [xpow]

theorem xpow_canon (j : Nat) : Canon (xpow j) := by
  intro h
  simp [xpow]

open Polynomial in
theorem xpow_toPoly (j : Nat) : toPoly (xpow j) = (X : ℚ[X]) ^ j := by
  unfold xpow
  rw [NTV.PolyG.toPoly_replicate_append]
  simp [toPoly]

theorem xpow_reduced (f : List Int) (j : Nat) (h : j + 2 ≤ f.length) : NTV.Alg.Reduced f (xpow j) :=
  ⟨xpow_canon j, by rw [xpow_length]; omega⟩

/-- θ^j · θ = θ^(j+1) as stored lists while j + 1 < deg f; always defined for j < deg f (deg f ≥ 2) -/
theorem mul_xpow (f : List Int) (hf : Canon f) (j : Nat) (hj : j + 2 ≤ f.length) (h3 : 3 ≤ f.length) :
    ∃ r, NTV.Alg.mul f (xpow j) [0, 1] = .ok r ∧ (j + 3 ≤ f.length → r = xpow (j + 1)) := by
  have hx : NTV.Alg.Reduced f [0, 1] := by
    have : xpow 1 = [0, 1] := rfl
    rw [← this]; exact xpow_reduced f 1 (by omega)
  obtain ⟨r, h1, h2, h3'⟩ := NTV.Alg.mul_ok f hf (by omega) (xpow j) [0, 1] (xpow_reduced f j hj) hx
  refine ⟨r, h1, ?_⟩
  intro hj3
  have hr1 := xpow_reduced f (j + 1) (by omega)
  apply NTV.PolyG.toPoly_inj r (xpow (j + 1)) h2.1 (xpow_canon _)
  have e : toPoly (xpow j) * toPoly ([0, 1] : List Rat) = toPoly (xpow (j + 1)) := by
    have : xpow 1 = [0, 1] := rfl
    rw [← this, xpow_toPoly, xpow_toPoly, xpow_toPoly]; ring
  rw [h3', e, NTV.Alg.mod_self_of_reduced f hf (by omega) _ hr1]

/-- the i-th unit vector of length n -/
def unitRow (n i : Nat) : List Rat := (List.range n).map (fun j => if i = j then 1 else 0)

theorem padTo_xpow (n j : Nat) (hj : j < n) : padTo n (xpow j) = unitRow n j := by
  apply List.ext_getElem
  · simp [padTo, xpow, unitRow]; omega
  · intro t h1 h2
    simp only [padTo, xpow, unitRow, List.getElem_map, List.getElem_range, List.getElem_append,
      List.getElem_replicate, List.length_append, List.length_replicate, List.length_cons, List.length_nil]
    split_ifs <;> first | rfl | omega | simp

theorem powerRows_units (f : List Int) (hf : Canon f) (n : Nat) (hn : 2 ≤ n) (hfl : f.length = n + 1) :
    ∀ k j, j + k = n → powerRowsOf f [0, 1] k (xpow j) = .ok ((List.range k).map (fun t => unitRow n (j + t))) := by
  intro k
  induction k with
  | zero => intro j _; rfl
  | succ k ih =>
    intro j hjk
    obtain ⟨r, h1, h2⟩ := mul_xpow f hf j (by omega) (by omega)
    unfold powerRowsOf
    rw [h1]
    have hrest : powerRowsOf f [0, 1] k r = .ok ((List.range k).map (fun t => unitRow n (j + 1 + t))) := by
      cases k with
      | zero => rfl
      | succ k' =>
        rw [h2 (by omega)]
        exact ih (j + 1) (by omega)
    simp only [Except.mapError, bind, Except.bind, hrest, pure, Except.pure]
    rw [hfl, Nat.add_sub_cancel, padTo_xpow n j (by omega), List.range_succ_eq_map]
    simp only [List.map_cons, List.map_map, Nat.add_zero]
    congr 2
    apply List.map_congr_left
    intro t _
    simp only [Function.comp]
    congr 1
    omega

/-- `Order::singly_gen(θ)` for monic-or-not canonical f of degree n ≥ 2: the rows 1, θ, …, θ^(n−1) are
the unit vectors, and the stored order is the identity matrix -/
theorem singlyGen_identity (f : List Int) (hf : Canon f) (n : Nat) (hn : 2 ≤ n) (hfl : f.length = n + 1) :
    singlyGen f = .ok (identityQ n) := by
  have hne : f.isEmpty = false := by cases f <;> simp_all
  have hdeg : degU f = n := by simp [degU, hne, hfl]
  unfold singlyGen singlyGenOf
  simp only [hne, Bool.false_eq_true, if_false, hdeg]
  have h := powerRows_units f hf n hn hfl n 0 (by omega)
  have e0 : xpow 0 = [1] := rfl
  rw [e0] at h
  simp only [bind, Except.bind, h]
  have : (List.range n).map (fun t => unitRow n (0 + t)) = identityQ n := by
    unfold identityQ unitRow
    apply List.map_congr_left
    intro t _
    rw [Nat.zero_add]
  rw [this]
  exact hnfReduce_identityQ n (by omega)

/-- for a linear `min_poly` the loop of `singly_gen` multiplies by θ = `x`, which is not reduced modulo a
polynomial of degree 1: the second assertion of `mul_with_mod` fires -/
theorem singlyGen_linear (c0 c1 : Int) : singlyGen [c0, c1] = .error "panic assert" := by
  rfl

end NTV.Ord
