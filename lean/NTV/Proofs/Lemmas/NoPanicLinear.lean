import NTV.Proofs.Lemmas.PolyModLinearMain
import Mathlib.FieldTheory.Finite.Basic
/-! Panic-freedom of `find_linear_factors` (src/poly_mod/linear.rs) for prime p and f ≢ 0 mod p: whatever
the draws are, the only way the model can fail is `inconclusive stream` (the draw stream ran out).
The Fermat `debug_assert!`, the `debug_assert!` of `divide_by_x_a`, the `poly_gcd` fuel and the fuel of the
recursion itself never fire. -/
open Polynomial
namespace NTV.PolyMod
open NTV.PolyG NTV.Hensel

theorem ok_bind' {α β : Type} (a : α) (f : α → M β) : (Except.ok a : M α) >>= f = f a := rfl
theorem error_bind' {α β : Type} (e : String) (f : α → M β) : (Except.error e : M α) >>= f = .error e := rfl

/-! ### `modpow(a, p, p) == a` (Fermat) -/

theorem tmod_range (x m : Int) (hx : 0 ≤ x) (hm : 0 < m) : 0 ≤ Int.tmod x m ∧ Int.tmod x m < m := by
  rw [Int.tmod_eq_emod_of_nonneg hx]
  exact ⟨Int.emod_nonneg _ (by omega), Int.emod_lt_of_pos _ hm⟩

theorem modpowLoop_range (m : Int) (hm : 0 < m) : ∀ (n : Nat) (e product current : Int), e.toNat = n →
    0 ≤ product → product < m → 0 ≤ current →
    0 ≤ modpowLoop m e product current ∧ modpowLoop m e product current < m := by
  intro n
  induction n using Nat.strong_induction_on with
  | _ n ih =>
    intro e product current hn h0 h1 hc
    unfold modpowLoop
    by_cases hpos : e > 0
    · simp only [hpos, ↓reduceDIte]
      have hlt : (e / 2).toNat < n := by omega
      have hcc := tmod_range (current * current) m (mul_nonneg hc hc) hm
      have hpc := tmod_range (product * current) m (mul_nonneg h0 hc) hm
      apply ih (e / 2).toNat hlt (e / 2) _ _ rfl
      · split
        · exact hpc.1
        · exact h0
      · split
        · exact hpc.2
        · exact h1
      · exact hcc.1
    · simp only [hpos, ↓reduceDIte]
      exact ⟨h0, h1⟩

/-- the `debug_assert!(modpow(a, p, p) == a)` never fires for a prime p and a shift in [0, p) -/
theorem modpow_fermat (p : ℕ) [Fact p.Prime] (a : Int) (ha0 : 0 ≤ a) (ha1 : a < p) :
    modpow a (p : Int) (p : Int) = a := by
  have hpp : p.Prime := Fact.out
  have hp1 : (1 : Int) < p := by exact_mod_cast hpp.one_lt
  have hr := modpowLoop_range (p : Int) (by omega) _ (p : Int) 1 a rfl (by omega) hp1 ha0
  have hm := modpow_modEq a (p : Int) (p : Int)
  simp only [Int.toNat_natCast] at hm
  have hf : a ^ p ≡ a [ZMOD (p : Int)] := by
    rw [← ZMod.intCast_eq_intCast_iff]
    push_cast
    exact ZMod.pow_card _
  have := hm.trans hf
  unfold modpow at this hr
  rw [Int.ModEq, Int.emod_eq_of_lt hr.1 hr.2, Int.emod_eq_of_lt ha0 ha1] at this
  exact this

/-! ### `divide_by_x_a` on a root -/

/-- `divide_by_x_a(poly, a, p)` neither overflows nor trips its `debug_assert!` when `poly` is non-zero and
`a` is a root modulo p -/
theorem divideByXA_ok (p : ℕ) (hp : 0 < p) (poly : List Int) (a : Int) (hne : poly ≠ [])
    (hroot : (red p poly).eval (a : ZMod p) = 0) : ∃ q, divideByXA poly a p = .ok q := by
  cases poly with
  | nil => exact absurd rfl hne
  | cons c0 rest =>
    simp only [divideByXA]
    have hinv := divXALoop_red p a rest.reverse 0 []
    simp only [List.reverse_reverse, List.length_reverse, red_nil, mul_zero, add_zero, Int.cast_zero,
      C_0, zero_mul, zero_add] at hinv
    have hev := congrArg (Polynomial.eval (a : ZMod p)) hinv
    simp only [eval_mul, eval_X, eval_add, eval_sub, eval_C, sub_self, zero_mul, zero_add] at hev
    rw [red_cons] at hroot
    simp only [eval_add, eval_C, eval_mul, eval_X] at hroot
    rw [hev] at hroot
    have hz : Int.fmod ((divXALoop a p rest.reverse 0 []).1 + c0) p = 0 := by
      have hd : (p : Int) ∣ (divXALoop a p rest.reverse 0 []).1 + c0 := by
        rw [← ZMod.intCast_zmod_eq_zero_iff_dvd]
        push_cast
        rw [add_comm]; exact hroot
      obtain ⟨k, hk⟩ := hd
      rw [hk, Int.fmod_eq_emod_of_nonneg _ (by omega)]
      exact Int.mul_emod_right _ _
    rw [if_neg (by simpa using hz)]
    exact ⟨_, rfl⟩

theorem deflate_ok (p : ℕ) [Fact p.Prime] (poly result : List Int) (a : Int) (hg : GoodL p poly) :
    ∃ r, deflate p poly result a = .ok r := by
  have hp : 0 < p := (Fact.out : p.Prime).pos
  unfold deflate
  split
  · rename_i hz
    obtain ⟨q, hq⟩ := divideByXA_ok p hp poly a hg.ne_nil ((polyOfMod_eq_zero_iff p hp poly a).mp hz)
    rw [hq]; exact ⟨_, rfl⟩
  · exact ⟨_, rfl⟩

/-! ### `poly_gcd` never runs out of fuel -/

theorem polyGcdAux_total (p : ℕ) (hp : p.Prime) : ∀ (fuel : Nat) (a b : List Int),
    Reduced (p : Int) a → Reduced (p : Int) b → Canon a → Canon b → b ≠ [] → b.length < fuel →
    ∃ g, polyGcdAux (p : Int) fuel a b = .ok g := by
  intro fuel
  induction fuel with
  | zero => intro a b _ _ _ _ _ h; omega
  | succ fuel ih =>
    intro a b hra hrb hca hcb hb hf
    simp only [polyGcdAux]
    obtain ⟨_, _, _, hrr, hcr, hlen, _⟩ := polyDivrem_red p hp a b hra hrb hca hcb hb
    split
    · exact ⟨_, rfl⟩
    · rename_i hre
      have hr0 : (polyDivrem a b (p : Int)).2 ≠ [] := by
        intro e; rw [e] at hre; simp at hre
      exact ih b _ hrb hrr hcb hcr hr0 (by omega)

theorem polyGcd_total (p : ℕ) (hp : p.Prime) (a b : List Int)
    (hra : Reduced (p : Int) a) (hrb : Reduced (p : Int) b) (hca : Canon a) (hcb : Canon b) (hb : b ≠ []) :
    ∃ g, polyGcd a b (p : Int) = .ok g :=
  polyGcdAux_total p hp _ a b hra hrb hca hcb hb (by omega)

/-! ### the draws consume the stream -/

theorem below_length (bound : Nat) : ∀ (s : NTV.Draw.Stream) (v : Nat) (rest : NTV.Draw.Stream),
    NTV.Draw.below bound s = some (v, rest) → rest.length < s.length := by
  intro s
  induction s with
  | nil => intro v rest h; simp [NTV.Draw.below] at h
  | cons c cs ih =>
    intro v rest h
    simp only [NTV.Draw.below] at h
    split at h
    · simp at h
    · split at h
      · simp only [Option.some.injEq, Prod.mk.injEq] at h
        obtain ⟨_, rfl⟩ := h; simp
      · have := ih v rest h
        simp only [List.length_cons]; omega

theorem range_length (lo hi : Int) (s : NTV.Draw.Stream) (a : Int) (rest : NTV.Draw.Stream)
    (h : NTV.Draw.range lo hi s = some (a, rest)) : rest.length < s.length := by
  unfold NTV.Draw.range at h
  split at h
  · simp at h
  · rename_i v r hb
    simp only [Option.some.injEq, Prod.mk.injEq] at h
    obtain ⟨_, rfl⟩ := h
    exact below_length _ _ _ _ hb

/-! ### the recursion -/

/-- outcome allowed for a call started with `n` chunks left: an `inconclusive stream` error, or success
with at most `n` chunks left -/
def Post (n : Nat) : M (List Int × NTV.Draw.Stream) → Prop
  | .error e => e = "inconclusive stream"
  | .ok (_, s') => s'.length ≤ n

theorem Post.mono {n m : Nat} (h : n ≤ m) {r : M (List Int × NTV.Draw.Stream)} (hr : Post n r) : Post m r := by
  cases r with
  | error e => exact hr
  | ok v => obtain ⟨_, s'⟩ := v; exact Nat.le_trans hr h

/-- same for one gcd split -/
def Post3 (n : Nat) : M (Poly × List Int × NTV.Draw.Stream) → Prop
  | .error e => e = "inconclusive stream"
  | .ok (_, _, s') => s'.length ≤ n

theorem splitAfter_post (p : ℕ) (fuel : Nat)
    (rec : Poly → List Int → NTV.Draw.Stream → M (List Int × NTV.Draw.Stream))
    (hrec : ∀ (poly result : List Int) (s : NTV.Draw.Stream), GoodL p poly → s.length < fuel →
      Post s.length (rec poly result s))
    (gcd poly result : List Int) (s : NTV.Draw.Stream) (hgg : GoodL p gcd) (hs : s.length < fuel) :
    Post3 s.length (splitAfter p rec gcd poly result s) := by
  unfold splitAfter
  split
  · have := hrec gcd result s hgg hs
    cases hr : rec gcd result s with
    | error e => rw [hr] at this; exact this
    | ok v =>
      obtain ⟨res, s2⟩ := v
      rw [hr] at this
      exact this
  · exact Nat.le_refl _

/-- `find_linear_factors_impl` with more fuel than chunks in the stream: no panic, no fuel exhaustion -/
theorem findLinearImpl_post (p : ℕ) [Fact p.Prime] : ∀ (fuel : Nat) (poly result : List Int)
    (s : NTV.Draw.Stream), GoodL p poly → s.length < fuel →
    Post s.length (findLinearImpl p fuel poly result s) := by
  have hpp : p.Prime := Fact.out
  have hp1 : 1 < p := hpp.one_lt
  intro fuel
  induction fuel with
  | zero => intro poly result s _ h; omega
  | succ fuel ih =>
    intro poly result s hg hs
    have ihspec : RecSpec p (findLinearImpl p fuel) := findLinearImpl_spec p fuel
    rw [findLinearImpl_succ]
    split
    · exact Nat.le_refl _
    split
    · exact Nat.le_refl _
    split
    · rfl
    rename_i a s1 hdraw
    obtain ⟨ha0, ha1⟩ := draw_shift_range p s a s1 hdraw
    have hs1 := range_length _ _ _ _ _ hdraw
    rw [if_neg (by rw [modpow_fermat p a ha0 ha1]; simp)]
    -- stage 0
    obtain ⟨⟨poly1, result1⟩, hd⟩ := deflate_ok p poly result a hg
    rw [hd, ok_bind']
    obtain ⟨G1, -, -⟩ := deflate_spec p poly result a ha0 ha1 hg poly1 result1 hd
    obtain ⟨xr, xc, xe⟩ := xa_spec p hp1 a
    obtain ⟨wr, wc, -⟩ := polyModpow_red p hpp (fromRaw [Int.fmod (-a) p, 1]) poly1 (Int.tdiv ((p : Int) - 1) 2)
      G1.1 G1.2.1 G1.ne_nil xr xc
    simp only
    generalize polyModpow (fromRaw [Int.fmod (-a) p, 1]) (Int.tdiv ((p : Int) - 1) 2) poly1 p = xapow at wr wc ⊢
    obtain ⟨pr, pc, -⟩ := adjust_add_spec p hp1 xapow [1] 1 (by omega) (by omega) (getD_singleton 1)
      (by intro h; simp) wr wc
    have hfr : fromRaw [(p : Int) - 1] = [(p : Int) - 1] := by
      have : (p : Int) - 1 ≠ 0 := by omega
      simp [fromRaw, this]
    obtain ⟨mr, mc, -⟩ := adjust_add_spec p hp1 xapow (fromRaw [(p : Int) - 1]) ((p : Int) - 1) (by omega) (by omega)
      (by rw [hfr]; exact getD_singleton _) (canon_fromRaw _) wr wc
    -- stage 1
    obtain ⟨gcd1, hgcd1⟩ := polyGcd_total p hpp _ poly1 pr G1.1 pc G1.2.1 G1.ne_nil
    rw [hgcd1, ok_bind']
    obtain ⟨g1, g2, g3, -⟩ := polyGcd_red p hpp _ poly1 gcd1 pr G1.1 pc G1.2.1 G1.ne_nil hgcd1
    have hsp1 := splitAfter_post p fuel _ ih gcd1 poly1 result1 s1 (good_of p gcd1 g2 g3 g1) (by omega)
    cases hsa1 : splitAfter p (findLinearImpl p fuel) gcd1 poly1 result1 s1 with
    | error e => rw [hsa1] at hsp1; rw [error_bind']; exact hsp1
    | ok v =>
      obtain ⟨poly2, result2, s2⟩ := v
      rw [hsa1] at hsp1
      have hs2 : s2.length ≤ s1.length := hsp1
      rw [ok_bind']
      simp only
      obtain ⟨G2, -, -⟩ := splitAfter_spec p _ ihspec _ gcd1 poly1 result1 s1 pr pc G1 hgcd1 poly2 result2 s2 hsa1
      -- stage 2
      obtain ⟨gcd2, hgcd2⟩ := polyGcd_total p hpp _ poly2 mr G2.1 mc G2.2.1 G2.ne_nil
      rw [hgcd2, ok_bind']
      obtain ⟨k1, k2, k3, -⟩ := polyGcd_red p hpp _ poly2 gcd2 mr G2.1 mc G2.2.1 G2.ne_nil hgcd2
      have hsp2 := splitAfter_post p fuel _ ih gcd2 poly2 result2 s2 (good_of p gcd2 k2 k3 k1) (by omega)
      cases hsa2 : splitAfter p (findLinearImpl p fuel) gcd2 poly2 result2 s2 with
      | error e => rw [hsa2] at hsp2; rw [error_bind']; exact hsp2
      | ok v =>
        obtain ⟨poly3, result3, s3⟩ := v
        rw [hsa2] at hsp2
        have hs3 : s3.length ≤ s2.length := hsp2
        rw [ok_bind']
        simp only
        obtain ⟨G3, -, -⟩ := splitAfter_spec p _ ihspec _ gcd2 poly2 result2 s2 mr mc G2 hgcd2 poly3 result3 s3 hsa2
        split
        · exact Post.mono (by omega) (ih poly3 result3 s3 G3 (by omega))
        · show s3.length ≤ s.length
          omega

/-! ### the branch p = 2 -/

/-- the `while` loop of `find_linear_factors_impl_mod2` terminates within `poly.len()` rounds without
tripping the assertion of `divide_by_x_a` -/
theorem mod2Loop_total (val : Int) : ∀ (fuel : Nat) (poly result : List Int),
    GoodL 2 poly → poly.length < fuel → ∃ r, mod2Loop val fuel poly result = .ok r := by
  intro fuel
  induction fuel with
  | zero => intro poly result _ h; omega
  | succ fuel ih =>
    intro poly result hg hf
    simp only [mod2Loop]
    have hiff := polyOfMod_eq_zero_iff 2 (by norm_num) poly val
    simp only [Nat.cast_ofNat] at hiff
    split
    · rename_i hz
      obtain ⟨q, hq⟩ := divideByXA_ok 2 (by norm_num) poly val hg.ne_nil (hiff.mp hz)
      simp only [Nat.cast_ofNat] at hq
      rw [hq, ok_bind']
      obtain ⟨d1, d2, d3, d4⟩ := divideByXA_red 2 (by norm_num) poly val q (by simpa using hq)
      have hq0 : red 2 q ≠ 0 := by
        intro e; apply hg.2.2; rw [d1, e, mul_zero]
      exact ih q _ ⟨d2, d3, hq0⟩ (by omega)
    · exact ⟨_, rfl⟩

theorem findLinearMod2_total (poly : List Int) (hg : GoodL 2 poly) : ∃ r, findLinearMod2 poly = .ok r := by
  unfold findLinearMod2
  obtain ⟨⟨poly1, r1⟩, h1⟩ := mod2Loop_total 0 (poly.length + 2) poly [] hg (by omega)
  rw [h1, ok_bind']
  obtain ⟨k0, -, a2, -, -⟩ := mod2Loop_spec 0 _ poly [] poly1 r1 hg h1
  obtain ⟨⟨poly2, r2⟩, h2⟩ := mod2Loop_total 1 (poly1.length + 2) poly1 r1 a2 (by omega)
  simp only
  rw [h2, ok_bind']
  exact ⟨_, rfl⟩

/-! ### `find_linear_factors` -/

/-- **panic-freedom of `find_linear_factors`**: for a prime p and f ≢ 0 mod p the only possible failure of
the model is `inconclusive stream` — no assertion, no overflow, no fuel exhaustion, whatever the draws -/
theorem findLinearFactors_no_panic (p : ℕ) [Fact p.Prime] (f : List Int) (s : NTV.Draw.Stream) (e : String)
    (hf : red p f ≠ 0) (h : findLinearFactors f p s = .error e) : e = "inconclusive stream" := by
  have hpp : p.Prime := Fact.out
  have hp0 : (0 : Int) < p := by exact_mod_cast hpp.pos
  obtain ⟨m1, m2, _⟩ := polyMod_reduced f p hp0
  have hred := red_polyMod p hpp.pos f
  have hg : GoodL p (polyMod f p) := ⟨m1, m2, by rw [hred]; exact hf⟩
  unfold findLinearFactors at h
  simp only at h
  split at h
  · rename_i h2
    have hp2 : p = 2 := by exact_mod_cast h2
    subst hp2
    obtain ⟨r, hr⟩ := findLinearMod2_total _ hg
    rw [hr] at h
    simp at h
  · have hpost := findLinearImpl_post p (s.length + 2) (polyMod f p) [] s hg (by omega)
    cases hrun : findLinearImpl p (s.length + 2) (polyMod f p) [] s with
    | error e' =>
      rw [hrun] at hpost h
      rw [error_bind'] at h
      simp only [Except.error.injEq] at h
      subst h
      exact hpost
    | ok v =>
      rw [hrun, ok_bind'] at h
      obtain ⟨r, s'⟩ := v
      simp [pure, Except.pure] at h

/-- in the branch p = 2 there are no draws and the routine always succeeds -/
theorem findLinearFactors_two_total (f : List Int) (s : NTV.Draw.Stream) (hf : red 2 f ≠ 0) :
    ∃ res, findLinearFactors f 2 s = .ok res := by
  unfold findLinearFactors
  simp only [↓reduceIte]
  have hg : GoodL 2 (polyMod f 2) := by
    obtain ⟨m1, m2, _⟩ := polyMod_reduced f 2 (by norm_num)
    have hr := red_polyMod 2 (by norm_num) f
    simp only [Nat.cast_ofNat] at hr
    exact ⟨by simpa using m1, m2, by rw [hr]; exact hf⟩
  exact findLinearMod2_total _ hg

end NTV.PolyMod
