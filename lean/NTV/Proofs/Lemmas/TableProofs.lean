import NTV.Model.Order
import NTV.Proofs.Lemmas.AlgLaws
import NTV.Proofs.Lemmas.OrdCanon
import NTV.Proofs.Lemmas.TableAbs
/-! Helper lemmas for C14 (second sentence): `Order::get_mult_table` of the model `NTV.Ord`.
The table entries are the coordinates of the products of the basis vectors; the routine succeeds
exactly when they are integers. The bridge to the abstract setting `NTV.TableAbs`. -/
open Polynomial Matrix

namespace NTV.LinAlg
open NTV.RowOps (toM Rect)

theorem solveLoop_rect {n : Nat} {ab0 : QMat} (steps row : Nat) (ab ab' : QMat) (hn : steps + row = n)
    (h : SI n ab0 row ab) (hs : solveLoop n steps row ab = some ab') : Rect (n + 1) n ab' := by
  induction steps generalizing row ab with
  | zero =>
    simp only [solveLoop, Option.some.injEq] at hs
    subst hs
    exact h.rect
  | succ k ih =>
    unfold solveLoop at hs
    split at hs
    · simp at hs
    · rename_i ab1 hst
      exact ih (row + 1) ab1 (by omega) (h.step (by omega) hst) hs

/-- the solution returned by `solve_linear_system` has `n` entries -/
theorem solve_length (A : QMat) (b x : QRow) (n : Nat) (hr : Rect n n A) (hb : b.length = n)
    (h : solve A b = .ok x) : x.length = n := by
  unfold solve at h
  simp only [hr.1, hb, ne_eq, not_true_eq_false, if_false, shapeOf_square hr] at h
  split at h
  · rename_i ab hs
    simp only [Except.ok.injEq] at h
    subst h
    exact (solveLoop_rect n 0 _ ab (by omega) (SI.init hr hb) hs).row_length n (by omega)
  · simp at h

end NTV.LinAlg

namespace NTV.Ord
open NTV.RowOps (toM Rect ent)
open NTV.PolyG
open NTV.Alg (Reduced modulus cls mul_cls cls_eq_iff)

/-! ### `tabulate` -/

theorem mapM_err {α β : Type} (l : List α) (f : α → M β) (e : String)
    (h : ∀ x ∈ l, (∃ y, f x = .ok y) ∨ f x = .error e) (hex : ∃ x ∈ l, f x = .error e) :
    l.mapM f = .error e := by
  induction l with
  | nil => obtain ⟨x, hx, _⟩ := hex; simp at hx
  | cons x xs ih =>
    rw [List.mapM_cons]
    rcases h x (by simp) with ⟨y, hy⟩ | hx
    · rw [hy]
      obtain ⟨z, hz, hze⟩ := hex
      have hz' : z ∈ xs := by
        rcases List.mem_cons.mp hz with e1 | e1
        · subst e1; rw [hy] at hze; cases hze
        · exact e1
      rw [ih (fun w hw => h w (by simp [hw])) ⟨z, hz', hze⟩]
      rfl
    · rw [hx]; rfl

theorem tabulate_err {α : Type} (n : Nat) (f : Nat → M α) (e : String)
    (h : ∀ i < n, (∃ y, f i = .ok y) ∨ f i = .error e) (hex : ∃ i < n, f i = .error e) :
    tabulate n f = .error e := by
  apply mapM_err
  · intro i hi; exact h i (List.mem_range.mp hi)
  · obtain ⟨i, hi, hie⟩ := hex
    exact ⟨i, List.mem_range.mpr hi, hie⟩

theorem mapM_congr {α β : Type} (l : List α) (f g : α → M β) (h : ∀ x ∈ l, f x = g x) :
    l.mapM f = l.mapM g := by
  induction l with
  | nil => rfl
  | cons x xs ih =>
    rw [List.mapM_cons, List.mapM_cons, h x (by simp), ih (fun y hy => h y (by simp [hy]))]

theorem tabulate_congr {α : Type} (n : Nat) (f g : Nat → M α) (h : ∀ i < n, f i = g i) :
    tabulate n f = tabulate n g :=
  mapM_congr _ f g (fun i hi => h i (List.mem_range.mp hi))

theorem idx_getD {α : Type} (v : List (List α)) (i : Nat) (h : i < v.length) :
    idx v i = .ok (v.getD i []) := by
  simp [idx, List.getElem?_eq_getElem h, List.getD_eq_getElem?_getD]

theorem idx_getD0 (v : List Rat) (i : Nat) (h : i < v.length) : idx v i = .ok (v.getD i 0) := by
  simp [idx, List.getElem?_eq_getElem h, List.getD_eq_getElem?_getD]

/-- the integrality check of a coordinate row -/
def cellSpec (x : List Rat) (n : Nat) : M (List Int) :=
  if ∀ k < n, isInteger (x.getD k 0) = true then .ok ((List.range n).map fun k => toInteger (x.getD k 0))
  else .error "panic assert"

theorem tabulate_int (x : List Rat) (n : Nat) (hx : x.length = n) :
    tabulate n (fun k => do
      let e ← idx x k
      if isInteger e then pure (toInteger e) else .error "panic assert") = cellSpec x n := by
  have hbody : ∀ k < n, (do
      let e ← idx x k
      if isInteger e then pure (toInteger e) else (.error "panic assert" : M Int)) =
      (if isInteger (x.getD k 0) then .ok (toInteger (x.getD k 0)) else .error "panic assert") := by
    intro k hk
    rw [idx_getD0 x k (by omega)]
    rfl
  rw [tabulate_congr n _ _ hbody]
  unfold cellSpec
  split
  · rename_i hall
    apply tabulate_ok
    intro k hk
    rw [if_pos (hall k hk)]
  · rename_i hnot
    apply tabulate_err
    · intro k hk
      by_cases hi : isInteger (x.getD k 0) = true
      · left; exact ⟨_, by rw [if_pos hi]⟩
      · right; rw [if_neg hi]
    · simp only [not_forall] at hnot
      obtain ⟨k, hk, hi⟩ := hnot
      exact ⟨k, hk, by rw [if_neg hi]⟩

/-! ### the elements ω_i and their products -/

/-- row `i` of the basis as an element of ℚ[x]/(f) (`create_num`) -/
def omega (basis : QMat) (i : Nat) : List Rat := fromRaw (basis.getD i [])

/-- the standing hypotheses: `f` canonical of degree `n ≥ 1`, `basis` an `n × n` non-singular matrix -/
structure Setup (f : List Int) (basis : QMat) (n : Nat) : Prop where
  canon : Canon f
  len : f.length = n + 1
  pos : 1 ≤ n
  rect : Rect n n basis
  det : (toM n n basis).det ≠ 0

variable {f : List Int} {basis : QMat} {n : Nat}

theorem Setup.two_le (S : Setup f basis n) : 2 ≤ f.length := by have := S.len; have := S.pos; omega

theorem Setup.reduced_of_length {l : List Rat} (S : Setup f basis n) (hl : l.length ≤ n) :
    Reduced f (fromRaw l) := by
  refine ⟨canon_fromRaw l, ?_⟩
  rw [S.len]
  simp only [Nat.add_sub_cancel]
  exact length_fromRaw_le l n (fun j hj => getD_of_length_le l j (by omega))

theorem Setup.reduced_omega (S : Setup f basis n) (i : Nat) (hi : i < n) : Reduced f (omega basis i) :=
  S.reduced_of_length (by rw [S.rect.row_length i hi])

theorem Setup.reduced_length (S : Setup f basis n) {l : List Rat} (h : Reduced f l) : l.length ≤ n := by
  have := h.2; rw [S.len] at this; simpa using this

/-- the product ω_i ⋆ ω_j (total) -/
def prodOf (f : List Int) (basis : QMat) (i j : Nat) : List Rat :=
  match NTV.Alg.mul f (omega basis i) (omega basis j) with
  | .ok r => r
  | .error _ => []

/-- the coordinates of ω_i ⋆ ω_j in the basis (total) -/
def coordsOf (f : List Int) (basis : QMat) (i j : Nat) : List Rat :=
  match NTV.LinAlg.solve basis ((List.range basis.length).map (fun k => coefAt (prodOf f basis i j) k)) with
  | .ok x => x
  | .error _ => []

theorem Setup.mul_omega (S : Setup f basis n) (i j : Nat) (hi : i < n) (hj : j < n) :
    NTV.Alg.mul f (omega basis i) (omega basis j) = .ok (prodOf f basis i j) ∧
    Reduced f (prodOf f basis i j) ∧
    cls f (toPoly (prodOf f basis i j)) =
      cls f (toPoly (basis.getD i [])) * cls f (toPoly (basis.getD j [])) := by
  obtain ⟨r, h1, h2, h3⟩ := mul_cls f S.canon S.two_le _ _ (S.reduced_omega i hi) (S.reduced_omega j hj)
  have : prodOf f basis i j = r := by unfold prodOf; rw [h1]
  rw [this]
  refine ⟨h1, h2, ?_⟩
  rw [h3]; unfold omega; rw [toPoly_fromRaw, toPoly_fromRaw]

theorem Setup.solve_coords (S : Setup f basis n) (i j : Nat) :
    NTV.LinAlg.solve basis ((List.range basis.length).map (fun k => coefAt (prodOf f basis i j) k))
      = .ok (coordsOf f basis i j) ∧ (coordsOf f basis i j).length = n ∧
    ∀ c < n, ∑ k ∈ Finset.range n, (coordsOf f basis i j).getD k 0 * ent basis k c
      = coefAt (prodOf f basis i j) c := by
  have hb : ((List.range basis.length).map (fun k => coefAt (prodOf f basis i j) k)).length = n := by
    simp [S.rect.1]
  cases h : NTV.LinAlg.solve basis ((List.range basis.length).map (fun k => coefAt (prodOf f basis i j) k)) with
  | error e => exact absurd (NTV.LinAlg.solve_err basis _ n S.rect hb e h).2 S.det
  | ok x =>
    have : coordsOf f basis i j = x := by unfold coordsOf; rw [h]
    rw [this]
    refine ⟨rfl, NTV.LinAlg.solve_length basis _ x n S.rect hb h, ?_⟩
    intro c hc
    have := congrFun (NTV.LinAlg.solve_ok basis _ x n S.rect hb h) ⟨c, hc⟩
    simp only [Matrix.vecMul, dotProduct] at this
    rw [← Fin.sum_univ_eq_sum_range (fun k => x.getD k 0 * ent basis k c) n]
    rw [show (∑ k : Fin n, x.getD k 0 * ent basis k c) = ∑ k : Fin n, x.getD k 0 * toM n n basis k ⟨c, hc⟩ from rfl,
      this]
    simp [List.getD_eq_getElem?_getD, S.rect.1, hc]

/-- `get_mult_table` after the evaluation of the products and of the linear systems -/
theorem Setup.getMultTable_eq (S : Setup f basis n) :
    getMultTable basis f =
      tabulate n (fun i => tabulate n (fun j => cellSpec (coordsOf f basis i j) n)) := by
  unfold getMultTable
  rw [S.rect.1]
  apply tabulate_congr
  intro i hi
  apply tabulate_congr
  intro j hj
  rw [idx_getD basis i (by rw [S.rect.1]; exact hi), idx_getD basis j (by rw [S.rect.1]; exact hj)]
  have h1 := (S.mul_omega i j hi hj).1
  have h2 := (S.solve_coords i j)
  unfold omega at h1
  simp only [bind, Except.bind, pure, Except.pure] at *
  rw [h1]
  simp only [Except.mapError]
  unfold solveExpect
  rw [S.rect.1] at h2
  rw [h2.1]
  exact tabulate_int _ n h2.2.1

/-- all coordinates of the products of basis vectors are integers -/
def AllInt (f : List Int) (basis : QMat) (n : Nat) : Prop :=
  ∀ i < n, ∀ j < n, ∀ k < n, isInteger ((coordsOf f basis i j).getD k 0) = true

/-- the table that `get_mult_table` returns -/
def tableOf (f : List Int) (basis : QMat) (n : Nat) : Table :=
  (List.range n).map (fun i => (List.range n).map (fun j => (List.range n).map (fun k =>
    toInteger ((coordsOf f basis i j).getD k 0))))

theorem Setup.getMultTable_ok (S : Setup f basis n) (h : AllInt f basis n) :
    getMultTable basis f = .ok (tableOf f basis n) := by
  rw [S.getMultTable_eq]
  apply tabulate_ok
  intro i hi
  apply tabulate_ok
  intro j hj
  unfold cellSpec
  rw [if_pos (h i hi j hj)]

theorem Setup.getMultTable_err (S : Setup f basis n) (h : ¬ AllInt f basis n) :
    getMultTable basis f = .error "panic assert" := by
  rw [S.getMultTable_eq]
  have hinner : ∀ i < n, (∃ y, tabulate n (fun j => cellSpec (coordsOf f basis i j) n) = .ok y) ∨
      tabulate n (fun j => cellSpec (coordsOf f basis i j) n) = .error "panic assert" := by
    intro i hi
    by_cases hall : ∀ j < n, ∀ k < n, isInteger ((coordsOf f basis i j).getD k 0) = true
    · left
      exact ⟨_, tabulate_ok n _ _ (fun j hj => by unfold cellSpec; rw [if_pos (hall j hj)])⟩
    · right
      apply tabulate_err
      · intro j hj
        unfold cellSpec
        split
        · left; exact ⟨_, rfl⟩
        · right; rfl
      · simp only [not_forall] at hall
        obtain ⟨j, hj, k, hk, hjk⟩ := hall
        refine ⟨j, hj, ?_⟩
        unfold cellSpec
        rw [if_neg]
        simp only [not_forall]
        exact ⟨k, hk, hjk⟩
  apply tabulate_err n _ _ hinner
  unfold AllInt at h
  simp only [not_forall] at h
  obtain ⟨i, hi, j, hj, k, hk, hijk⟩ := h
  refine ⟨i, hi, ?_⟩
  rcases hinner i hi with ⟨y, hy⟩ | he
  · exfalso
    have : tabulate n (fun j => cellSpec (coordsOf f basis i j) n) = .error "panic assert" := by
      apply tabulate_err
      · intro j hj
        unfold cellSpec
        split
        · left; exact ⟨_, rfl⟩
        · right; rfl
      · refine ⟨j, hj, ?_⟩
        unfold cellSpec
        rw [if_neg]
        simp only [not_forall]
        exact ⟨k, hk, hijk⟩
    rw [this] at hy; cases hy
  · exact he

theorem tent_tableOf (i j k : Nat) (hi : i < n) (hj : j < n) (hk : k < n) :
    tent (tableOf f basis n) i j k = toInteger ((coordsOf f basis i j).getD k 0) := by
  simp [tent, tableOf, List.getD_eq_getElem?_getD, hi, hj, hk]

/-- `t` is the multiplication table of `basis`: it is `n × n × n` and
`ω_i ⋆ ω_j = Σ_k t[i][j][k] · ω_k` (coefficientwise in the power basis) -/
def IsTable (f : List Int) (basis : QMat) (n : Nat) (t : Table) : Prop :=
  t.length = n ∧ (∀ i < n, (t.getD i []).length = n ∧ ∀ j < n, ((t.getD i []).getD j []).length = n) ∧
  ∀ i < n, ∀ j < n, ∃ prod, NTV.Alg.mul f (omega basis i) (omega basis j) = .ok prod ∧
    ∀ c < n, coefAt prod c = ∑ k ∈ Finset.range n, ((tent t i j k : Int) : Rat) * ent basis k c

theorem Setup.isTable_tableOf (S : Setup f basis n) (h : AllInt f basis n) :
    IsTable f basis n (tableOf f basis n) := by
  refine ⟨by simp [tableOf], ?_, ?_⟩
  · intro i hi
    refine ⟨by simp [tableOf, List.getD_eq_getElem?_getD, hi], ?_⟩
    intro j hj
    simp [tableOf, List.getD_eq_getElem?_getD, hi, hj]
  · intro i hi j hj
    refine ⟨prodOf f basis i j, (S.mul_omega i j hi hj).1, ?_⟩
    intro c hc
    rw [← (S.solve_coords i j).2.2 c hc]
    apply Finset.sum_congr rfl
    intro k hk
    have hk' := Finset.mem_range.mp hk
    rw [tent_tableOf i j k hi hj hk']
    obtain ⟨z, hz⟩ := (isInteger_iff _).mp (h i hi j hj k hk')
    rw [hz, toInteger_intCast]

/-! ### the bridge to `NTV.TableAbs` -/

/-- ℚ → ℚ[X]/(f) -/
noncomputable def qK (f : List Int) : ℚ →+* (ℚ[X] ⧸ Ideal.span {modulus f}) := (cls f).comp C

/-- the class of ω_i -/
noncomputable def omegaK (f : List Int) (basis : QMat) (n : Nat) (i : Fin n) :
    ℚ[X] ⧸ Ideal.span {modulus f} := cls f (toPoly (basis.getD i []))

/-- the table as a function on `Fin n` -/
def tabT (t : Table) (n : Nat) (i j k : Fin n) : ℤ := tent t i j k

/-- a list of at most `n` coefficients given as a combination of the rows is that combination -/
theorem toPoly_comb (hr : Rect n n basis) (x : Fin n → ℚ) (l : List Rat) (hl : l.length ≤ n)
    (h : ∀ c < n, l.getD c 0 = ∑ k : Fin n, x k * ent basis k c) :
    toPoly l = ∑ k : Fin n, C (x k) * toPoly (basis.getD k []) := by
  ext c
  rw [coeff_toPoly, Polynomial.finsetSum_coeff]
  simp only [coeff_C_mul, coeff_toPoly]
  by_cases hc : c < n
  · rw [h c hc]; rfl
  · rw [getD_of_length_le l c (by omega)]
    symm
    apply Finset.sum_eq_zero
    intro k _
    rw [getD_of_length_le _ c (by rw [hr.row_length k k.2]; omega), mul_zero]

theorem psi_eq_cls (x : Fin n → ℚ) :
    NTV.TableAbs.psi (qK f) (omegaK f basis n) x = cls f (∑ k : Fin n, C (x k) * toPoly (basis.getD k [])) := by
  simp [NTV.TableAbs.psi, qK, omegaK, map_sum]

theorem Setup.indep (S : Setup f basis n) (x : Fin n → ℚ)
    (h : NTV.TableAbs.psi (qK f) (omegaK f basis n) x = 0) : x = 0 := by
  rw [psi_eq_cls] at h
  set P : ℚ[X] := ∑ k : Fin n, C (x k) * toPoly (basis.getD k []) with hP
  have hdvd : modulus f ∣ P := by
    have := (cls_eq_iff f P 0).mp (by rw [h, map_zero])
    simpa using this
  have hcoef : ∀ c, P.coeff c = if hc : c < n then (x ᵥ* toM n n basis) ⟨c, hc⟩ else 0 := by
    intro c
    rw [hP, Polynomial.finsetSum_coeff]
    simp only [coeff_C_mul, coeff_toPoly]
    split
    · rfl
    · rename_i hc
      apply Finset.sum_eq_zero
      intro k _
      rw [getD_of_length_le _ c (by rw [S.rect.row_length k k.2]; omega), mul_zero]
  obtain ⟨hdeg, hne⟩ := NTV.Alg.modulus_facts f S.canon S.two_le
  have hP0 : P = 0 := by
    apply Polynomial.eq_zero_of_dvd_of_degree_lt hdvd
    rw [Polynomial.degree_eq_natDegree hne, hdeg, S.len, Nat.add_sub_cancel]
    rw [Polynomial.degree_lt_iff_coeff_zero]
    intro m hm
    rw [hcoef m, dif_neg (by omega)]
  apply Matrix.eq_zero_of_vecMul_eq_zero S.det
  funext c
  have := hcoef c
  rw [hP0, dif_pos c.2] at this
  simpa using this.symm

/-- a multiplication table in the sense of `IsTable` satisfies the abstract hypotheses -/
theorem Setup.ctx (S : Setup f basis n) (t : Table) (ht : IsTable f basis n t) :
    NTV.TableAbs.Ctx (qK f) (omegaK f basis n) (tabT t n) := by
  refine ⟨S.indep, ?_⟩
  intro i j
  obtain ⟨prod, hp, hc⟩ := ht.2.2 i i.2 j j.2
  obtain ⟨h1, h2, h3⟩ := S.mul_omega i j i.2 j.2
  have : prod = prodOf f basis i j := by rw [h1] at hp; injection hp with hp; exact hp.symm
  subst this
  show omegaK f basis n i * omegaK f basis n j = NTV.TableAbs.psi (qK f) (omegaK f basis n)
    (fun k => ((tabT t n i j k : ℤ) : ℚ))
  rw [psi_eq_cls]
  unfold omegaK
  rw [← h3]
  congr 1
  apply toPoly_comb S.rect _ _ (S.reduced_length h2)
  intro c hcn
  have := hc c hcn
  unfold coefAt at this
  rw [this, ← Fin.sum_univ_eq_sum_range (fun k => ((tent t i j k : Int) : Rat) * ent basis k c) n]
  rfl

end NTV.Ord
