import NTV.Model.Ideal
import NTV.Proofs.Lemmas.HnfCanon
import Mathlib.Algebra.Module.Submodule.Bilinear
import Mathlib.Algebra.BigOperators.Pi
/-! # Ideals, part A: the product `⋆` defined by a multiplication table, as a ℤ-bilinear map on ℤⁿ,
and what `NTV.Ord.tmul` computes. -/
namespace NTV.IdealP
open NTV.Hnf NTV.Ord Finset

/-- coordinate vector of a list (entries beyond the length read 0; always used with `a.length = n`) -/
def vec (n : Nat) (a : List Int) : Fin n → ℤ := fun i => a.getD i.val 0

/-- the product defined by the table: `(x ⋆ y)_k = Σ_{i,j} x_i y_j t[i][j][k]` -/
def star (t : Table) (n : Nat) (x y : Fin n → ℤ) : Fin n → ℤ :=
  fun k => ∑ i : Fin n, ∑ j : Fin n, x i * y j * tent t i.val j.val k.val

theorem vec_inj {n : Nat} {a b : List Int} (ha : a.length = n) (hb : b.length = n) (h : vec n a = vec n b) :
    a = b := by
  apply List.ext_getElem (by rw [ha, hb])
  intro i h1 h2
  have := congrFun h ⟨i, by omega⟩
  simpa [vec, List.getD_eq_getElem?_getD, List.getElem?_eq_getElem h1, List.getElem?_eq_getElem h2] using this

theorem vec_ofFn {n : Nat} (x : Fin n → ℤ) : vec n (List.ofFn x) = x := by
  funext i
  simp [vec, List.getD_eq_getElem?_getD]

theorem foldl_add_eq_sum (g : Nat → Int) (n : Nat) (a : Int) :
    (List.range n).foldl (fun acc i => acc + g i) a = a + ∑ i ∈ range n, g i := by
  induction n with
  | zero => simp
  | succ n ih => rw [List.range_succ, List.foldl_append, ih, Finset.sum_range_succ]; simp [add_assoc]

theorem foldl2_eq_sum (f : Nat → Nat → Int) (n m : Nat) :
    (List.range n).foldl (fun acc i => (List.range m).foldl (fun acc j => acc + f i j) acc) 0
      = ∑ i ∈ range n, ∑ j ∈ range m, f i j := by
  have : (fun (acc : Int) (i : Nat) => (List.range m).foldl (fun acc j => acc + f i j) acc)
      = (fun acc i => acc + ∑ j ∈ range m, f i j) := by
    funext acc i; exact foldl_add_eq_sum (f i) m acc
  rw [this, foldl_add_eq_sum]; simp

/-- the list computed by `tmul` on its non-panicking branch -/
def tmulV (t : Table) (a b : List Int) : List Int :=
  let n := a.length
  (List.range n).map (fun k =>
      (List.range n).foldl (fun acc i => (List.range n).foldl (fun acc j =>
        acc + a.getD i 0 * b.getD j 0 * tent t i j k) acc) 0)

theorem tmul_eq {t : Table} {n : Nat} {a b : List Int} (ht : t.length = n) (ha : a.length = n)
    (hb : b.length = n) : tmul t a b = .ok (tmulV t a b) := by
  simp [tmul, tmulV, ha, hb, ht]

theorem tmulV_length (t : Table) (a b : List Int) : (tmulV t a b).length = a.length := by
  simp [tmulV]

theorem vec_tmulV {t : Table} {n : Nat} {a b : List Int} (ha : a.length = n) :
    vec n (tmulV t a b) = star t n (vec n a) (vec n b) := by
  funext k
  have hk : k.val < a.length := by rw [ha]; exact k.isLt
  simp only [vec, tmulV, star, List.getD_eq_getElem?_getD, List.getElem?_map, List.getElem?_range hk,
    Option.map_some, Option.getD_some]
  rw [foldl2_eq_sum (fun i j => a[i]?.getD 0 * b[j]?.getD 0 * tent t i j k.val), ha,
    ← Fin.sum_univ_eq_sum_range (fun i => ∑ j ∈ range n, a[i]?.getD 0 * b[j]?.getD 0 * tent t i j k.val) n]
  apply Finset.sum_congr rfl
  intro i _
  rw [← Fin.sum_univ_eq_sum_range (fun j => a[i.val]?.getD 0 * b[j]?.getD 0 * tent t i.val j k.val) n]

/-- `tmul` returns, exactly when the lengths agree with the table, the coordinates of `a ⋆ b` -/
theorem tmul_spec {t : Table} {n : Nat} {a b : List Int} (ht : t.length = n) (ha : a.length = n)
    (hb : b.length = n) :
    ∃ c, tmul t a b = .ok c ∧ c.length = n ∧ vec n c = star t n (vec n a) (vec n b) :=
  ⟨tmulV t a b, tmul_eq ht ha hb, by rw [tmulV_length, ha], vec_tmulV ha⟩

theorem tmul_ok_vec {t : Table} {n : Nat} {a b c : List Int} (ht : t.length = n) (ha : a.length = n)
    (hb : b.length = n) (h : tmul t a b = .ok c) :
    c.length = n ∧ vec n c = star t n (vec n a) (vec n b) := by
  obtain ⟨c', h1, h2, h3⟩ := tmul_spec ht ha hb
  rw [h] at h1; cases h1; exact ⟨h2, h3⟩

/-! ### bilinearity (for every table) -/

theorem star_add_left (t : Table) (n : Nat) (x x' y : Fin n → ℤ) :
    star t n (x + x') y = star t n x y + star t n x' y := by
  funext k; simp only [star, Pi.add_apply, add_mul, Finset.sum_add_distrib]

theorem star_add_right (t : Table) (n : Nat) (x y y' : Fin n → ℤ) :
    star t n x (y + y') = star t n x y + star t n x y' := by
  funext k; simp only [star, Pi.add_apply, mul_add, add_mul, Finset.sum_add_distrib]

theorem star_smul_left (t : Table) (n : Nat) (c : ℤ) (x y : Fin n → ℤ) :
    star t n (c • x) y = c • star t n x y := by
  funext k; simp only [star, Pi.smul_apply, smul_eq_mul, Finset.mul_sum, mul_assoc]

theorem star_smul_right (t : Table) (n : Nat) (c : ℤ) (x y : Fin n → ℤ) :
    star t n x (c • y) = c • star t n x y := by
  funext k; simp only [star, Pi.smul_apply, smul_eq_mul, Finset.mul_sum]
  refine Finset.sum_congr rfl (fun i _ => Finset.sum_congr rfl (fun j _ => by ring))

/-- `⋆` as a ℤ-bilinear map -/
def starB (t : Table) (n : Nat) : (Fin n → ℤ) →ₗ[ℤ] (Fin n → ℤ) →ₗ[ℤ] (Fin n → ℤ) :=
  LinearMap.mk₂ ℤ (star t n) (star_add_left t n) (star_smul_left t n) (star_add_right t n)
    (star_smul_right t n)

@[simp] theorem starB_apply (t : Table) (n : Nat) (x y : Fin n → ℤ) : starB t n x y = star t n x y := rfl

/-- the i-th basis vector -/
def e (n : Nat) (i : Fin n) : Fin n → ℤ := Pi.single i 1

theorem vec_unit (n : Nat) (i : Fin n) : vec n (NTV.Ideal.unit n i.val) = e n i := by
  funext j
  simp only [vec, NTV.Ideal.unit, e, List.getD_eq_getElem?_getD, List.getElem?_map,
    List.getElem?_range j.isLt, Option.map_some, Option.getD_some, Pi.single_apply]
  by_cases h : j = i
  · simp [h]
  · have : j.val ≠ i.val := fun h' => h (Fin.ext h')
    simp [h, this]

theorem unit_length (n i : Nat) : (NTV.Ideal.unit n i).length = n := by simp [NTV.Ideal.unit]

theorem star_e_e (t : Table) (n : Nat) (i j : Fin n) (k : Fin n) :
    star t n (e n i) (e n j) k = tent t i.val j.val k.val := by
  simp [star, e, Pi.single_apply]

/-- every vector is the combination of the basis vectors with its coordinates -/
theorem eq_sum_e {n : Nat} (x : Fin n → ℤ) : x = ∑ i, x i • e n i := by
  funext k
  simp [e, Finset.sum_apply, Pi.single_apply]

/-! ### the table defines a commutative ring with identity `e_0` -/

/-- `t` is an n×n×n table whose product `tmul t` on ℤⁿ is commutative, associative and has the first
basis vector `e_0 = (1,0,…,0)` as identity — what the table of an order with ω_0 = 1 satisfies. -/
structure TableRing (t : Table) (n : Nat) : Prop where
  pos : 0 < n
  len : t.length = n
  shape : ∀ r ∈ t, r.length = n ∧ ∀ s ∈ r, s.length = n
  comm : ∀ x y : List Int, x.length = n → y.length = n → tmul t x y = tmul t y x
  assoc : ∀ x y z xy yz : List Int, x.length = n → y.length = n → z.length = n →
    tmul t x y = .ok xy → tmul t y z = .ok yz → tmul t xy z = tmul t x yz
  one : ∀ x : List Int, x.length = n → tmul t (NTV.Ideal.unit n 0) x = .ok x

namespace TableRing
variable {t : Table} {n : Nat}

theorem star_comm (T : TableRing t n) (x y : Fin n → ℤ) : star t n x y = star t n y x := by
  have hx : (List.ofFn x).length = n := by simp
  have hy : (List.ofFn y).length = n := by simp
  have h := T.comm _ _ hx hy
  rw [tmul_eq T.len hx hy, tmul_eq T.len hy hx] at h
  have h' := congrArg (vec n) (Except.ok.inj h)
  rwa [vec_tmulV hx, vec_tmulV hy, vec_ofFn, vec_ofFn] at h'

theorem star_assoc (T : TableRing t n) (x y z : Fin n → ℤ) :
    star t n (star t n x y) z = star t n x (star t n y z) := by
  have hx : (List.ofFn x).length = n := by simp
  have hy : (List.ofFn y).length = n := by simp
  have hz : (List.ofFn z).length = n := by simp
  have hxy : (tmulV t (List.ofFn x) (List.ofFn y)).length = n := by rw [tmulV_length, hx]
  have hyz : (tmulV t (List.ofFn y) (List.ofFn z)).length = n := by rw [tmulV_length, hy]
  have h := T.assoc _ _ _ _ _ hx hy hz (tmul_eq T.len hx hy) (tmul_eq T.len hy hz)
  rw [tmul_eq T.len hxy hz, tmul_eq T.len hx hyz] at h
  have h' := congrArg (vec n) (Except.ok.inj h)
  rwa [vec_tmulV hxy, vec_tmulV hx, vec_tmulV hx, vec_tmulV hy, vec_ofFn, vec_ofFn, vec_ofFn] at h'

theorem one_star (T : TableRing t n) (x : Fin n → ℤ) : star t n (e n ⟨0, T.pos⟩) x = x := by
  have hx : (List.ofFn x).length = n := by simp
  have h := T.one _ hx
  rw [tmul_eq T.len (unit_length n 0) hx] at h
  have h' := congrArg (vec n) (Except.ok.inj h)
  rwa [vec_tmulV (unit_length n 0), vec_ofFn, vec_unit n ⟨0, T.pos⟩] at h'

theorem star_one (T : TableRing t n) (x : Fin n → ℤ) : star t n x (e n ⟨0, T.pos⟩) = x := by
  rw [T.star_comm, T.one_star]

end TableRing

end NTV.IdealP
