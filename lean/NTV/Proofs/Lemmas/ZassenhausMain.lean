import NTV.Proofs.Lemmas.ZassenhausCombine
import NTV.Proofs.Lemmas.ZassenhausPrimes
import NTV.Proofs.Lemmas.ZassenhausMignotte
import NTV.Proofs.C08
import NTV.Proofs.C11
import Mathlib.FieldTheory.Separable
/-! # Berlekamp–Zassenhaus, part 5: `get_factors_of_squarefree` returns irreducible polynomials -/
open Polynomial
namespace NTV.PolyZ
open NTV.PolyG NTV.PolyMod NTV.Hensel NTV.Zas

/-! ### `while pe <= bound { pe *= p; e += 1 }` -/

theorem powerAbove_spec (p bound : Int) : ∀ (fuel e0 : Nat) (pe0 : Int) (e : Nat) (pe : Int),
    powerAbove p bound fuel e0 pe0 = .ok (e, pe) →
    e0 ≤ e ∧ pe = pe0 * p ^ (e - e0) ∧ bound < pe ∧ (pe0 ≤ bound → e0 < e) := by
  intro fuel
  induction fuel with
  | zero => intro e0 pe0 e pe h; simp [powerAbove, throw, throwThe, MonadExceptOf.throw] at h
  | succ fuel ih =>
    intro e0 pe0 e pe h
    simp only [powerAbove] at h
    split at h
    · obtain ⟨h1, h2, h3, _⟩ := ih _ _ _ _ h
      refine ⟨by omega, ?_, h3, fun _ => by omega⟩
      rw [h2, show e - e0 = (e - (e0 + 1)) + 1 by omega, pow_succ]; ring
    · rename_i hgt
      simp only [pure, Except.pure, Except.ok.injEq, Prod.mk.injEq] at h
      obtain ⟨rfl, rfl⟩ := h
      exact ⟨le_refl _, by simp, by omega, fun h => absurd h hgt⟩

/-! ### the gcd test of the prime search: squarefree modulo p -/

theorem squarefree_of_gcd_test (P : ℕ) (hP : P.Prime) (a g : List Int)
    (hg : polyGcd (polyMod a (P : Int)) (differentialMod (polyMod a (P : Int)) (P : Int)) (P : Int) = .ok g)
    (hd : degU g = 0) : Squarefree (rd P (toPoly a)) := by
  have _ : Fact P.Prime := ⟨hP⟩
  set am := polyMod a (P : Int) with ham
  have g1 : Good P am := good_polyMod P hP.pos a
  have g2 : Good P (differentialMod am (P : Int)) := by
    unfold differentialMod
    split
    · exact good_nil P hP.pos
    · exact good_polyMod P hP.pos _
  obtain ⟨⟨i1, i2, i3⟩, gg⟩ := polyGcd_isGcd P am _ g g1 g2 hg
  have e1 : mp P am = rd P (toPoly a) := mp_polyMod P a
  have e2 : mp P (differentialMod am (P : Int)) = derivative (rd P (toPoly a)) := by
    unfold differentialMod
    split
    · rename_i he
      have : am = [] := by cases hq : am <;> simp_all
      rw [← e1, this]; simp [mp, toPoly]
    · rw [mp_polyMod, ← e1, mp, mp, toPoly_differential, derivative_map]
  rw [e1] at i1
  rw [e2] at i2
  -- g is a non-zero constant
  have hgne : g ≠ [] := by rintro rfl; simp [degU] at hd
  have hlen : g.length = 1 := by
    have he : g.isEmpty = false := by cases g <;> simp_all
    simp only [degU, he, Bool.false_eq_true, ↓reduceIte] at hd
    have := List.length_pos_of_ne_nil hgne
    omega
  obtain ⟨n1, _, n3⟩ := natDegree_mp P g gg hgne
  have hu : IsUnit (mp P g) := by
    rw [hlen] at n1
    rw [eq_C_of_natDegree_eq_zero n1]
    apply isUnit_C.mpr
    rw [isUnit_iff_ne_zero]
    intro h0
    have : mp P g = 0 := by rw [eq_C_of_natDegree_eq_zero n1, h0, C_0]
    exact hgne ((mp_eq_zero_iff P g gg).mp this)
  have hcop : IsCoprime (rd P (toPoly a)) (derivative (rd P (toPoly a))) := by
    rw [← EuclideanDomain.gcd_isUnit_iff]
    have d1 := EuclideanDomain.gcd_dvd_left (rd P (toPoly a)) (derivative (rd P (toPoly a)))
    have d2 := EuclideanDomain.gcd_dvd_right (rd P (toPoly a)) (derivative (rd P (toPoly a)))
    exact isUnit_of_dvd_unit (i3 _ (by rw [e1]; exact d1) (by rw [e2]; exact d2)) hu
  exact (Polynomial.separable_def _ |>.mpr hcop).squarefree

/-! ### inversion of a successful run -/

theorem getFactorsOfSquarefree_inv (a : List Int) (s : NTV.Draw.Stream) (out : List Poly)
    (h : getFactorsOfSquarefree a s = .ok out) :
    a ≠ [] ∧ degU a ≠ 0 ∧ ∃ (p : Int) (pu e : Nat) (pe : Int) (factors : Factors) (lifted : List Poly),
      primeSearch a (degU a) 100000 2 = .ok (p, pu) ∧
      powerAbove p (coeffBound a (degU a)) ((coeffBound a (degU a)).natAbs.log2 + 3) 0 1 = .ok (e, pe) ∧
      factorizeModP a p pu s = .ok factors ∧ (factors.all fun fe => fe.2 == 1) = true ∧
      liftFactorization p e a (factors.map (·.1)) = .ok lifted ∧
      combine pe (Int.tdiv pe 2) (2 * lifted.length + 2) a lifted 1 [] = .ok out := by
  unfold getFactorsOfSquarefree at h
  simp only [bind, Except.bind] at h
  split at h
  · simp [throw, throwThe, MonadExceptOf.throw] at h
  · rename_i hne
    have ha : a ≠ [] := by rintro rfl; simp at hne
    have hd : degU a ≠ 0 := by intro h0; simp [h0] at hne
    refine ⟨ha, hd, ?_⟩
    split at h
    · cases h
    · rename_i v1 hv1
      obtain ⟨p, pu⟩ := v1
      split at h
      · cases h
      · rename_i v2 hv2
        obtain ⟨e, pe⟩ := v2
        split at h
        · cases h
        · rename_i factors hfac
          split at h
          · simp [throw, throwThe, MonadExceptOf.throw] at h
          · rename_i hall
            split at h
            · cases h
            · rename_i lifted hl
              exact ⟨p, pu, e, pe, factors, lifted, hv1, hv2, hfac, by simpa using hall, hl, h⟩

/-! ### from the modular factorisation to the lifted list -/

theorem factorProduct_all_one : ∀ (fs : Factors), (fs.all fun fe => fe.2 == 1) = true →
    factorProduct fs = ((fs.map (·.1)).map toPoly).prod
  | [], _ => by simp [factorProduct]
  | x :: fs, h => by
    simp only [List.all_cons, Bool.and_eq_true, beq_iff_eq] at h
    have ih := factorProduct_all_one fs h.2
    simp only [factorProduct] at ih ⊢
    simp only [List.map_cons, List.prod_cons, ih, h.1, pow_one]

/-- distinct monic irreducible polynomials modulo P are pairwise coprime -/
theorem pairwise_coprime_of_nodup (P : ℕ) (hP : P.Prime) (F : List Poly) (hnd : F.Nodup)
    (hmon : ∀ f ∈ F, lc f = 1) (hgood : ∀ f ∈ F, Reduced (P : ℤ) f ∧ Canon f)
    (hirr : ∀ f ∈ F, Irreducible ((toPoly f).map (Int.castRingHom (ZMod P)))) :
    F.Pairwise (fun f g => ∃ U V : ℤ[X], PCong (P : ℤ) (toPoly f * U + toPoly g * V) 1) := by
  have _ : Fact P.Prime := ⟨hP⟩
  refine hnd.imp_of_mem ?_
  intro f g hf hg hne
  rw [coprime_iff_map]
  apply (hirr f hf).coprime_iff_not_dvd.mpr
  intro hdvd
  have hassoc := (hirr f hf).associated_of_dvd (hirr g hg) hdvd
  have m1 := ((monic_toPoly f (hmon f hf)).1).map (Int.castRingHom (ZMod P))
  have m2 := ((monic_toPoly g (hmon g hg)).1).map (Int.castRingHom (ZMod P))
  have := eq_of_monic_of_associated m1 m2 hassoc
  exact hne (mp_inj P f g (hgood f hf) (hgood g hg) this)

/-- the list produced by the Hensel stage of a run satisfies `Lifted` -/
theorem lifted_of_run (P : ℕ) (hP : P.Prime) (hP64 : P < 2 ^ 64) (e : ℕ) (he : 1 ≤ e) (a : List Int) (ha : a ≠ [])
    (hca : Canon a) (hlen : 2 ≤ a.length) (hlc : ¬ (P : ℤ) ∣ (toPoly a).leadingCoeff)
    (hsq : Squarefree (rd P (toPoly a))) (s : NTV.Draw.Stream) (factors : Factors)
    (hfac : factorizeModP a (P : ℤ) P s = .ok factors) (hall : (factors.all fun fe => fe.2 == 1) = true)
    (lifted : List Poly) (hl : liftFactorization (P : ℤ) e a (factors.map (·.1)) = .ok lifted) :
    Lifted P e (toPoly a) (lifted.map toPoly) := by
  obtain ⟨c1, c2, c3⟩ := NTV.C08.factorization_correct P hP a P s factors (fun _ => rfl)
    (fun h => by omega) hfac
  obtain ⟨d1, d2, d3⟩ := natDegree_toPoly a ha hca
  set F := factors.map (·.1) with hF
  have hmem : ∀ f ∈ F, ∃ x ∈ factors, x.1 = f := fun f hf => by
    obtain ⟨x, hx, rfl⟩ := List.mem_map.mp hf; exact ⟨x, hx, rfl⟩
  have hmon : ∀ f ∈ F, lc f = 1 := fun f hf => by
    obtain ⟨x, hx, rfl⟩ := hmem f hf; exact (c1 x hx).1
  have hred : ∀ f ∈ F, Reduced (P : ℤ) f := fun f hf => by
    obtain ⟨x, hx, rfl⟩ := hmem f hf; exact (c1 x hx).2.1
  have hgood : ∀ f ∈ F, Reduced (P : ℤ) f ∧ Canon f := fun f hf => by
    obtain ⟨x, hx, rfl⟩ := hmem f hf; exact ⟨(c1 x hx).2.1, (c1 x hx).2.2.1⟩
  have hirr : ∀ f ∈ F, Irreducible ((toPoly f).map (Int.castRingHom (ZMod P))) := fun f hf => by
    obtain ⟨x, hx, rfl⟩ := hmem f hf; exact (c1 x hx).2.2.2.2.2
  have hM : ((F.map toPoly).prod).Monic := by
    apply monic_list_prod'
    intro G hG
    obtain ⟨f, hf, rfl⟩ := List.mem_map.mp hG
    exact (monic_toPoly f (hmon f hf)).1
  rw [factorProduct_all_one factors hall] at c3
  obtain ⟨n1, n2⟩ := normalise_const hP (le_refl 1) hM hlc (by rw [pow_one]; exact c3)
  rw [pow_one, d2] at n2
  have hne : F ≠ [] := by
    intro h0
    rw [h0] at n1
    simp only [List.map_nil, List.prod_nil, natDegree_one] at n1
    omega
  have hcop := pairwise_coprime_of_nodup P hP F c2 hmon hgood hirr
  rw [d2] at hlc
  obtain ⟨gs, g1, _, g3, g4⟩ := NTV.C11.lift_factorization_spec P hP e he a hlc F hne hmon hred hcop n2.symm
  rw [hl] at g1
  simp only [Except.ok.injEq] at g1
  subst g1
  have hrel : ∀ G ∈ lifted.map toPoly, G.Monic ∧ Irreducible (rd P G) := by
    intro G hG
    obtain ⟨g, hg, rfl⟩ := List.mem_map.mp hG
    obtain ⟨f, hf, r1, _, _, _, r5⟩ := forall₂_mem_left g3 g hg
    refine ⟨(monic_toPoly g r1).1, ?_⟩
    have : rd P (toPoly g) = rd P (toPoly f) := (pcong_iff_map P _ _).mp r5
    rw [this]; exact hirr f hf
  refine ⟨hP, he, by rw [d2]; exact hlc, hsq, fun G hG => (hrel G hG).1, fun G hG => (hrel G hG).2, ?_⟩
  rw [d2]; exact g4

/-- **Z4.** Every polynomial returned by `get_factors_of_squarefree` on a canonical primitive input is
irreducible in ℤ[X] — for every draw stream. (A successful run forces deg a ≥ 1 and `a` squarefree: the prime
search only stops at a prime modulo which `a` is squarefree.) -/
theorem squarefree_factors_irreducible (a : List Int) (s : NTV.Draw.Stream) (out : List Poly) (hca : Canon a)
    (hprim : (toPoly a).IsPrimitive) (h : getFactorsOfSquarefree a s = .ok out) :
    ∀ f ∈ out, Irreducible (toPoly f) := by
  obtain ⟨ha, hd, p, pu, e, pe, factors, lifted, h1, h2, h3, h4, h5, h6⟩ := getFactorsOfSquarefree_inv a s out h
  obtain ⟨hP, rfl, hP31, hlc, g, hg, hgd⟩ := primeSearch_top a (degU a) p pu h1
  have hlen : 2 ≤ a.length := by
    have he : a.isEmpty = false := by cases a <;> simp_all
    simp only [degU, he, Bool.false_eq_true, ↓reduceIte] at hd
    omega
  obtain ⟨d1, d2, d3⟩ := natDegree_toPoly a ha hca
  rw [coefAt_degU a ha hca] at hlc
  have hsq := squarefree_of_gcd_test pu hP a g hg hgd
  have hb := mignotte_for_coeffBound a ha hca hlen 1 (toPoly a) 1 (by ring) 0
  have hbpos : (1 : Int) ≤ coeffBound a (degU a) := by
    have := abs_nonneg ((C (1 : ℤ[X]).leadingCoeff * toPoly a).coeff 0)
    omega
  obtain ⟨_, p2, p3, p4⟩ := powerAbove_spec _ _ _ _ _ _ _ h2
  have he : 1 ≤ e := p4 hbpos
  rw [one_mul, Nat.sub_zero] at p2
  have hL := lifted_of_run pu hP (by omega) e he a ha hca hlen hlc hsq s factors h3 h4 lifted h5
  have S : Setup pu e pe (Int.tdiv pe 2) (toPoly a) :=
    ⟨p2, rfl, fun g h h' hfac j => mignotte_symmetric_range a ha hca hlen g h h' hfac j pe p3⟩
  have hnu : ¬ IsUnit (toPoly a) := by
    intro hu
    have := natDegree_eq_zero_of_isUnit hu
    omega
  obtain ⟨new, hout, hall⟩ := combine_irreducible S _ a lifted 1 [] out ha hca (Inv.init hprim hL hnu) h6
  rw [List.nil_append] at hout
  subst hout
  exact hall

end NTV.PolyZ
