import NTV.Proofs.Lemmas.HenselAlg
import NTV.Proofs.Lemmas.ContPP
import NTV.Model.PolyModHensel
open Polynomial
namespace NTV.Hensel
open NTV.PolyG NTV.PolyMod

theorem PCong.refl (q : ℤ) (f : ℤ[X]) : PCong q f f := ⟨0, by simp⟩
theorem PCong.symm {q : ℤ} {f g : ℤ[X]} (h : PCong q f g) : PCong q g f := by
  obtain ⟨w, hw⟩ := h; exact ⟨-w, by linear_combination -hw⟩
theorem PCong.trans {q : ℤ} {f g k : ℤ[X]} (h1 : PCong q f g) (h2 : PCong q g k) : PCong q f k := by
  obtain ⟨w1, hw1⟩ := h1; obtain ⟨w2, hw2⟩ := h2
  exact ⟨w1 + w2, by linear_combination hw1 + hw2⟩
theorem PCong.mul {q : ℤ} {f g f' g' : ℤ[X]} (h1 : PCong q f f') (h2 : PCong q g g') : PCong q (f * g) (f' * g') := by
  obtain ⟨w1, hw1⟩ := h1; obtain ⟨w2, hw2⟩ := h2
  exact ⟨w1 * g + f' * w2, by linear_combination g * hw1 + f' * hw2⟩
theorem PCong.of_mul_right {q r : ℤ} {f g : ℤ[X]} (h : PCong (q * r) f g) : PCong q f g := by
  obtain ⟨w, hw⟩ := h; exact ⟨C r * w, by rw [hw, C_mul]; ring⟩

theorem toPoly_map_fmod (g : List Int) (m : Int) :
    toPoly g - toPoly (g.map (fun c => Int.fmod c m)) = C m * toPoly (g.map (fun c => Int.fdiv c m)) := by
  induction g with
  | nil => simp [toPoly]
  | cons x xs ih =>
    simp only [List.map_cons, toPoly]
    have hx : x - Int.fmod x m = m * Int.fdiv x m := by rw [Int.fmod_def]; ring
    have : C x - C (Int.fmod x m) = C m * C (Int.fdiv x m) := by rw [← C_sub, hx, C_mul]
    linear_combination this + X * ih

/-- `poly_mod(g, m)` is congruent to g modulo m -/
theorem polyMod_cong (g : List Int) (m : Int) : PCong m (toPoly (polyMod g m)) (toPoly g) := by
  unfold polyMod
  rw [toPoly_fromRaw]
  exact PCong.symm ⟨_, toPoly_map_fmod g m⟩

/-- `poly_mul(g, q)` multiplies by the scalar -/
theorem toPoly_polyMul (g : List Int) (q : Int) : toPoly (polyMul g q) = C q * toPoly g := by
  unfold polyMul
  rw [toPoly_fromRaw, toPoly_map_mul_right]

/-- `poly_div(g, q)` is exact when q divides every coefficient -/
theorem toPoly_polyDiv (g : List Int) (q : Int) (h : ∀ c ∈ g, q ∣ c) : C q * toPoly (polyDiv g q) = toPoly g := by
  unfold polyDiv
  rw [toPoly_fromRaw]
  exact toPoly_map_fdiv g q h

theorem coeffs_dvd_of_eq (g : List Int) (q : Int) (F : ℤ[X]) (h : toPoly g = C q * F) : ∀ c ∈ g, q ∣ c := by
  intro c hc
  obtain ⟨i, hi, rfl⟩ := List.mem_iff_getElem.mp hc
  have := congrArg (fun p => p.coeff i) h
  simp only [coeff_toPoly, coeff_C_mul] at this
  simp only [List.getD_eq_getElem?_getD, List.getElem?_eq_getElem hi, Option.getD_some] at this
  exact ⟨_, this⟩

/-- C11: the model of `hensel_lift` satisfies Cohen 3.5.5 — for all integers p, q and all polynomials:
if c ≡ a·b (mod q) and a·u + b·v ≡ 1 (mod r), r = gcd(p, q), then the returned (a₁, b₁, q·r) has
c ≡ a₁·b₁ (mod q·r), a₁ ≡ a (mod q), b₁ ≡ b (mod q). No degree or primality hypotheses are needed. -/
theorem henselLift_spec (p q : Int) (c a b u v : List Int)
    (hc : PCong q (toPoly c) (toPoly a * toPoly b))
    (huv : PCong (Int.gcd p q : Int) (toPoly a * toPoly u + toPoly b * toPoly v) 1) :
    (henselLift p q c a b u v).2.2 = q * (Int.gcd p q : Int) ∧
    PCong (q * (Int.gcd p q : Int)) (toPoly c)
      (toPoly (henselLift p q c a b u v).1 * toPoly (henselLift p q c a b u v).2.1) ∧
    PCong q (toPoly (henselLift p q c a b u v).1) (toPoly a) ∧
    PCong q (toPoly (henselLift p q c a b u v).2.1) (toPoly b) := by
  set r : Int := (Int.gcd p q : Int) with hr
  have hrq : r ∣ q := Int.gcd_dvd_right p q
  obtain ⟨F0, hF0⟩ := hc
  -- F = (c - ab)/q exactly
  set d := sub c (mul a b) with hd
  have hdP : toPoly d = C q * F0 := by rw [hd, toPoly_sub, toPoly_mul]; exact hF0
  have hdiv := toPoly_polyDiv d q (coeffs_dvd_of_eq d q F0 hdP)
  set F := toPoly (polyDiv d q) with hF
  have hcF : toPoly c - toPoly a * toPoly b = C q * F := by
    rw [hdiv, ← toPoly_mul, ← toPoly_sub]
  set f := polyMod (polyDiv d q) r with hf
  have hfF : PCong r (toPoly f) F := polyMod_cong _ _
  set t := (polyDivrem (mul v f) a r).1 with ht
  obtain ⟨s1, s2, s3⟩ := hensel_step q r hrq (toPoly a) (toPoly b) (toPoly c) (toPoly u) (toPoly v)
    (toPoly f) (toPoly t) F hcF hfF huv
  -- the two new factors, before the final reduction
  have hA : toPoly (add a (polyMul (sub (mul v f) (mul a t)) q)) =
      toPoly a + C q * (toPoly v * toPoly f - toPoly a * toPoly t) := by
    rw [toPoly_add, toPoly_polyMul, toPoly_sub, toPoly_mul, toPoly_mul]
  have hB : toPoly (add b (polyMul (add (mul u f) (mul b t)) q)) =
      toPoly b + C q * (toPoly u * toPoly f + toPoly b * toPoly t) := by
    rw [toPoly_add, toPoly_polyMul, toPoly_add, toPoly_mul, toPoly_mul]
  have hA1 := polyMod_cong (add a (polyMul (sub (mul v f) (mul a t)) q)) (q * r)
  have hB1 := polyMod_cong (add b (polyMul (add (mul u f) (mul b t)) q)) (q * r)
  rw [hA] at hA1
  rw [hB] at hB1
  refine ⟨rfl, ?_, ?_, ?_⟩
  · exact PCong.trans s1 (PCong.symm (PCong.mul hA1 hB1))
  · exact PCong.trans (PCong.of_mul_right hA1) s2
  · exact PCong.trans (PCong.of_mul_right hB1) s3

end NTV.Hensel
