import NTV.Proofs.Lemmas.FieldDiscC
import NTV.Proofs.Lemmas.FieldDiscD
/-! # The discriminant of the order returned by `find_integral_basis` depends only on the field (model level). -/
open Polynomial
namespace NTV.FieldDisc
open NTV.Ord NTV.PolyG NTV.Round2
open NTV.Alg (modulus)

/-- **the discriminant of the computed maximal order is the discriminant of the number field ℚ[X]/(f)** -/
theorem findIntegralBasis_discr (f : List Int) (hf : Canon f) [Fact (Irreducible (modulus f))] (O : Order)
    (H : findIntegralBasis f = .ok O) (d : ℤ) (hd : discriminantOrd O f = .ok d) :
    haveI := numberField_adjoinRoot (modulus f)
    d = NumberField.discr (AdjoinRoot (modulus f)) :=
  (findIntegralBasis_good f hf O H).discr_eq (fun p hp => findIntegralBasis_pmaximal_all f hf O H p hp) d hd

/-- **the order is the integral closure of ℤ** -/
theorem findIntegralBasis_integral_iff (f : List Int) (hf : Canon f) (hirr : Irreducible (modulus f)) (O : Order)
    (H : findIntegralBasis f = .ok O) (x : AdjoinRoot (modulus f)) :
    IsIntegral ℤ x ↔ x ∈ Submodule.span ℤ (Set.range (omegaA f O (degU f))) :=
  (findIntegralBasis_good f hf O H).integral_iff hirr (fun p hp => findIntegralBasis_pmaximal_all f hf O H p hp) x

/-- **field invariance** -/
theorem findIntegralBasis_discr_invariant (f g : List Int) (hf : Canon f) (hg : Canon g)
    (hif : Irreducible (modulus f)) (hig : Irreducible (modulus g))
    (e : AdjoinRoot (modulus f) ≃ₐ[ℚ] AdjoinRoot (modulus g))
    (O O' : Order) (H : findIntegralBasis f = .ok O) (H' : findIntegralBasis g = .ok O')
    (d d' : ℤ) (hd : discriminantOrd O f = .ok d) (hd' : discriminantOrd O' g = .ok d') : d = d' := by
  have : Fact (Irreducible (modulus f)) := ⟨hif⟩
  have : Fact (Irreducible (modulus g)) := ⟨hig⟩
  have := numberField_adjoinRoot (modulus f)
  have := numberField_adjoinRoot (modulus g)
  rw [findIntegralBasis_discr f hf O H d hd, findIntegralBasis_discr g hg O' H' d' hd']
  exact NumberField.discr_eq_discr_of_algEquiv _ e

/-- an affine relation between integer polynomials, over ℚ -/
theorem modulus_affine (f g : List Int) (c k u : ℤ)
    (h : (toPoly g).comp (C c * X + C k) = C u * toPoly f) :
    (modulus g).comp (C (c : ℚ) * X + C (k : ℚ)) = C (u : ℚ) * modulus f := by
  have := congrArg (Polynomial.map (Int.castRingHom ℚ)) h
  rw [Polynomial.map_comp, Polynomial.map_mul, Polynomial.map_add, Polynomial.map_mul, Polynomial.map_C,
    Polynomial.map_C, Polynomial.map_C, Polynomial.map_X, ← modulus_eq_map, ← modulus_eq_map] at this
  exact this

/-- the affine change of generator `θ' = c·θ + k` (covers `θ + k`, `−θ`, `c·θ`): if `g(c·X + k) = u·f(X)` with
`c, u ≠ 0` then `g` is irreducible when `f` is, and the discriminants of the two computed orders agree -/
theorem findIntegralBasis_discr_affine (f g : List Int) (hf : Canon f) (hg : Canon g)
    (hif : Irreducible (modulus f)) (c k u : ℤ) (hc : c ≠ 0) (hu : u ≠ 0)
    (h : (toPoly g).comp (C c * X + C k) = C u * toPoly f)
    (O O' : Order) (H : findIntegralBasis f = .ok O) (H' : findIntegralBasis g = .ok O')
    (d d' : ℤ) (hd : discriminantOrd O f = .ok d) (hd' : discriminantOrd O' g = .ok d') :
    Irreducible (modulus g) ∧ d = d' := by
  have hq := modulus_affine f g c k u h
  have hcq : (c : ℚ) ≠ 0 := by exact_mod_cast hc
  have huq : (u : ℚ) ≠ 0 := by exact_mod_cast hu
  have hig := irreducible_of_affine hcq huq hq hif
  exact ⟨hig, findIntegralBasis_discr_invariant f g hf hg hif hig (affineEquiv hcq huq hq) O O' H H' d d' hd hd'⟩

theorem reverse_map_of_injective {R S : Type*} [Semiring R] [Semiring S] (φ : R →+* S)
    (hφ : Function.Injective φ) (P : R[X]) : (P.map φ).reverse = P.reverse.map φ := by
  ext n
  rw [coeff_reverse, coeff_map, coeff_map, coeff_reverse, natDegree_map_eq_of_injective hφ]

/-- the reciprocal generator `θ' = 1/θ`: `g = u·Xⁿ·f(1/X)` (`u ≠ 0`, `f(0) ≠ 0`) -/
theorem findIntegralBasis_discr_reciprocal (f g : List Int) (hf : Canon f) (hg : Canon g)
    (hif : Irreducible (modulus f)) (hig : Irreducible (modulus g)) (u : ℤ) (hu : u ≠ 0)
    (h0 : (toPoly f).coeff 0 ≠ 0) (h : toPoly g = C u * (toPoly f).reverse)
    (O O' : Order) (H : findIntegralBasis f = .ok O) (H' : findIntegralBasis g = .ok O')
    (d d' : ℤ) (hd : discriminantOrd O f = .ok d) (hd' : discriminantOrd O' g = .ok d') : d = d' := by
  have : Fact (Irreducible (modulus f)) := ⟨hif⟩
  have : Fact (Irreducible (modulus g)) := ⟨hig⟩
  have huq : (u : ℚ) ≠ 0 := by exact_mod_cast hu
  have h0q : (modulus f).coeff 0 ≠ 0 := by
    rw [modulus_eq_map, coeff_map]
    simpa using h0
  have hq : modulus g = C (u : ℚ) * (modulus f).reverse := by
    rw [modulus_eq_map, modulus_eq_map, h, Polynomial.map_mul, Polynomial.map_C,
      reverse_map_of_injective _ (RingHom.injective_int _)]
    rfl
  exact findIntegralBasis_discr_invariant f g hf hg hif hig (reciprocalEquiv huq h0q hq) O O' H H' d d' hd hd'

end NTV.FieldDisc
