import NTV.Proofs.Lemmas.EcmDriverInv
import NTV.Proofs.Lemmas.TrialProofs
import Mathlib.Data.Nat.Factorization.Defs
/-! Uniqueness of the sorted prime factorisation as a list of (prime, exponent), and its consequences:
* any strictly increasing list of (prime, positive exponent) with product n is `NTV.Trial.factorize n`
  (and its entries are exactly the `(p, n.factorization p)` for the prime divisors p of n);
* a result of the ECM drivers all of whose entries are prime is that list. -/
namespace NTV.Trial

/-- a strictly increasing list of (prime, positive exponent) -/
structure IsPF (l : List (Nat × Nat)) : Prop where
  primes : ∀ qe ∈ l, qe.1.Prime ∧ 0 < qe.2
  sorted : l.Pairwise (fun a b => a.1 < b.1)

theorem prodOf_cons (a : Nat × Nat) (l : List (Nat × Nat)) : prodOf (a :: l) = a.1 ^ a.2 * prodOf l := by
  simp [prodOf]

theorem prodOf_ne_zero (l : List (Nat × Nat)) (h : ∀ qe ∈ l, qe.1.Prime) : prodOf l ≠ 0 := by
  induction l with
  | nil => simp [prodOf]
  | cons a l ih =>
    rw [prodOf_cons]
    exact Nat.mul_ne_zero (pow_ne_zero _ (h a (by simp)).ne_zero) (ih (fun qe hq => h qe (List.mem_cons_of_mem _ hq)))

/-- a prime that is not a key does not divide the product -/
theorem factorization_prodOf_not_key (l : List (Nat × Nat)) (h : ∀ qe ∈ l, qe.1.Prime) (q : Nat)
    (hq : ∀ qe ∈ l, qe.1 ≠ q) : (prodOf l).factorization q = 0 := by
  induction l with
  | nil => simp [prodOf]
  | cons a l ih =>
    have ha := h a (by simp)
    have hl : ∀ qe ∈ l, qe.1.Prime := fun qe hm => h qe (List.mem_cons_of_mem _ hm)
    rw [prodOf_cons, Nat.factorization_mul (pow_ne_zero _ ha.ne_zero) (prodOf_ne_zero l hl),
      Nat.Prime.factorization_pow ha]
    simp only [Finsupp.coe_add, Pi.add_apply]
    rw [ih hl (fun qe hm => hq qe (List.mem_cons_of_mem _ hm)), Finsupp.single_apply,
      if_neg (hq a (by simp))]

/-- the exponent attached to a key is its multiplicity in the product -/
theorem factorization_prodOf_key (l : List (Nat × Nat)) (hl : IsPF l) (p e : Nat) (hpe : (p, e) ∈ l) :
    (prodOf l).factorization p = e := by
  induction l with
  | nil => simp at hpe
  | cons a l ih =>
    obtain ⟨hprimes, hsorted⟩ := hl
    rw [List.pairwise_cons] at hsorted
    have ha := (hprimes a (by simp)).1
    have hlp : ∀ qe ∈ l, qe.1.Prime := fun qe hm => (hprimes qe (List.mem_cons_of_mem _ hm)).1
    rw [prodOf_cons, Nat.factorization_mul (pow_ne_zero _ ha.ne_zero) (prodOf_ne_zero l hlp),
      Nat.Prime.factorization_pow ha]
    simp only [Finsupp.coe_add, Pi.add_apply]
    rcases List.mem_cons.mp hpe with h1 | h1
    · subst h1
      rw [factorization_prodOf_not_key l hlp p (fun qe hm => by have := hsorted.1 qe hm; simp at this; omega)]
      simp
    · have hlt : a.1 < p := hsorted.1 (p, e) h1
      rw [ih ⟨fun qe hm => hprimes qe (List.mem_cons_of_mem _ hm), hsorted.2⟩ h1, Finsupp.single_apply,
        if_neg (by omega)]
      simp

/-- the entries of a sorted prime factorisation of n are exactly the `(p, v_p(n))`, p prime, p ∣ n -/
theorem mem_isPF_iff (l : List (Nat × Nat)) (hl : IsPF l) (p e : Nat) :
    (p, e) ∈ l ↔ p.Prime ∧ 0 < e ∧ (prodOf l).factorization p = e := by
  constructor
  · intro h
    exact ⟨(hl.primes _ h).1, (hl.primes _ h).2, factorization_prodOf_key l hl p e h⟩
  · rintro ⟨_, he, hf⟩
    by_cases hk : ∃ qe ∈ l, qe.1 = p
    · obtain ⟨⟨q, e'⟩, hm, hq⟩ := hk
      simp only at hq
      subst hq
      have := factorization_prodOf_key l hl q e' hm
      rw [this] at hf
      rw [← hf]; exact hm
    · exfalso
      simp only [not_exists, not_and] at hk
      rw [factorization_prodOf_not_key l (fun qe hm => (hl.primes qe hm).1) p hk] at hf
      omega

/-- **uniqueness**: two strictly increasing lists of (prime, positive exponent) with the same product
are equal -/
theorem isPF_unique (l₁ l₂ : List (Nat × Nat)) (h₁ : IsPF l₁) (h₂ : IsPF l₂) (h : prodOf l₁ = prodOf l₂) :
    l₁ = l₂ := by
  have nd : ∀ l : List (Nat × Nat), l.Pairwise (fun a b => a.1 < b.1) → l.Nodup := by
    intro l hl
    exact hl.imp (fun {a b} hab heq => by rw [heq] at hab; exact lt_irrefl _ hab)
  have hperm : l₁.Perm l₂ := by
    rw [List.perm_ext_iff_of_nodup (nd _ h₁.sorted) (nd _ h₂.sorted)]
    rintro ⟨p, e⟩
    rw [mem_isPF_iff l₁ h₁, mem_isPF_iff l₂ h₂, h]
  exact hperm.eq_of_pairwise (fun a b _ _ hab hba => absurd hab (not_lt.mpr (le_of_lt hba))) h₁.sorted h₂.sorted

theorem factorize_isPF (n : Nat) (hn : 1 ≤ n) : IsPF (factorize n) :=
  ⟨(factorize_correct n hn).2.1, (factorize_correct n hn).2.2⟩

/-- any sorted prime factorisation of n ≥ 1 is the list computed by trial division -/
theorem eq_factorize (n : Nat) (hn : 1 ≤ n) (l : List (Nat × Nat)) (hl : IsPF l) (hprod : prodOf l = n) :
    l = factorize n :=
  isPF_unique l (factorize n) hl (factorize_isPF n hn) (by rw [hprod]; exact (factorize_correct n hn).1)

/-- the entries of `factorize n` are exactly the pairs (p, v_p(n)) for the prime divisors p of n -/
theorem mem_factorize_iff (n : Nat) (hn : 1 ≤ n) (p e : Nat) :
    (p, e) ∈ factorize n ↔ p.Prime ∧ p ∣ n ∧ e = n.factorization p := by
  rw [mem_isPF_iff _ (factorize_isPF n hn), ← (factorize_correct n hn).1]
  constructor
  · rintro ⟨hp, he, hf⟩
    refine ⟨hp, ?_, hf.symm⟩
    by_contra hnd
    rw [Nat.factorization_eq_zero_of_not_dvd hnd] at hf
    omega
  · rintro ⟨hp, hd, hf⟩
    refine ⟨hp, ?_, hf.symm⟩
    rw [hf]
    exact hp.factorization_pos_of_dvd (by omega) hd

end NTV.Trial

namespace NTV.Ecm

/-- the driver's `(BigInt, u64)` entries read as naturals -/
def toNatPairs (l : List (Int × Nat)) : List (Nat × Nat) := l.map (fun pe => (pe.1.toNat, pe.2))

theorem prodOf_toNatPairs (l : List (Int × Nat)) (h : ∀ pe ∈ l, 0 ≤ pe.1) :
    ((NTV.Trial.prodOf (toNatPairs l) : Nat) : Int) = prodPairs l := by
  induction l with
  | nil => simp [toNatPairs, NTV.Trial.prodOf, prodPairs]
  | cons a l ih =>
    have h0 := h a (by simp)
    have : toNatPairs (a :: l) = (a.1.toNat, a.2) :: toNatPairs l := rfl
    rw [this, NTV.Trial.prodOf_cons]
    simp only [prodPairs, Nat.cast_mul, Nat.cast_pow]
    rw [ih (fun pe hm => h pe (List.mem_cons_of_mem _ hm)), Int.toNat_of_nonneg h0]

/-- a driver result with strictly increasing keys ≥ 2, exponents ≥ 1, product x ≥ 1 and **prime**
keys is the sorted prime factorisation of x -/
theorem result_eq_factorize (x : Int) (hx : 1 ≤ x) (result : List (Int × Nat))
    (hprod : prodPairs result = x) (hsorted : result.Pairwise (fun a b => a.1 < b.1))
    (hge : ∀ pe ∈ result, 2 ≤ pe.1 ∧ 1 ≤ pe.2) (hprime : ∀ pe ∈ result, Nat.Prime pe.1.toNat) :
    toNatPairs result = NTV.Trial.factorize x.toNat := by
  apply NTV.Trial.eq_factorize x.toNat (by omega)
  · refine ⟨?_, ?_⟩
    · intro qe hqe
      obtain ⟨pe, hpe, rfl⟩ := List.mem_map.mp hqe
      exact ⟨hprime pe hpe, (hge pe hpe).2⟩
    · unfold toNatPairs
      rw [List.pairwise_map]
      refine hsorted.imp_of_mem ?_
      intro a c ha hc hac
      have := (hge a ha).1
      have := (hge c hc).1
      simp only
      omega
  · have := prodOf_toNatPairs result (fun pe hpe => by have := (hge pe hpe).1; omega)
    rw [hprod] at this
    omega

end NTV.Ecm
