import NTV.Proofs.Lemmas.InvDiffA
import NTV.Proofs.Lemmas.InvDiffC
import NTV.Proofs.Lemmas.NormResFinal
/-! C16 (inverse different), assembly for the table of an order: the trace matrix built by `get_inv_diff` is
`P · Tr_power · Pᵀ` (P the basis matrix, Tr_power the trace matrix of 1, θ, …, θ^{n−1} in ℚ[X]/(f)), and
`det Tr · lc(f)^{2(n−1)} = (det P)² · disc(f)`. -/
open Polynomial Matrix
namespace NTV.Ord
open NTV.RowOps (toM Rect ent)
open NTV.PolyG
open NTV.Alg (Reduced modulus cls)
open NTV.TableAbs (psi castV castM reg Ctx)

variable {f : List Int} {basis : QMat} {n : Nat}

/-- a list of at most `n` coefficients as a sum of monomials -/
theorem toPoly_eq_sum_monomials (l : List Rat) (n : Nat) (hl : l.length ≤ n) :
    toPoly l = ∑ c : Fin n, C (l.getD c 0) * X ^ (c : ℕ) := by
  ext m
  rw [coeff_toPoly, Polynomial.finsetSum_coeff]
  simp only [coeff_C_mul_X_pow]
  rw [Fin.sum_univ_eq_sum_range (fun c => if m = c then l.getD c 0 else 0) n, Finset.sum_ite_eq]
  split
  · rfl
  · rename_i h
    rw [Finset.mem_range] at h
    exact getD_of_length_le l m (by omega)

/-- the classes of ω_0, …, ω_{n−1} in `AdjoinRoot (modulus f)` = ℚ[X]/(f) (`omegaK` with its type spelt as
`AdjoinRoot`) -/
noncomputable def omegaA (f : List Int) (basis : QMat) (n : Nat) : Fin n → AdjoinRoot (modulus f) :=
  omegaK f basis n

/-- ω = P · (1, θ, …, θ^{n−1}) -/
theorem Setup.omega_eq_mulVec (S : Setup f basis n) :
    omegaA f basis n
      = ((toM n n basis).map (algebraMap ℚ (AdjoinRoot (modulus f)))) *ᵥ
        (fun c : Fin n => (AdjoinRoot.root (modulus f)) ^ (c : ℕ)) := by
  funext i
  have hrow : (basis.getD i []).length ≤ n := le_of_eq (S.rect.row_length i i.2)
  show AdjoinRoot.mk (modulus f) (toPoly (basis.getD i [])) = _
  rw [toPoly_eq_sum_monomials _ n hrow, map_sum]
  simp only [Matrix.mulVec, dotProduct, Matrix.map_apply]
  apply Finset.sum_congr rfl
  intro c _
  rw [map_mul, map_pow, AdjoinRoot.mk_X, AdjoinRoot.mk_C, AdjoinRoot.algebraMap_eq]
  rfl

theorem Setup.finrank (S : Setup f basis n) : Module.finrank ℚ (AdjoinRoot (modulus f)) = n := by
  obtain ⟨hdeg, hF⟩ := NTV.Alg.modulus_facts f S.canon S.two_le
  rw [(AdjoinRoot.powerBasis hF).finrank, AdjoinRoot.powerBasis_dim, hdeg, S.len]; simp

/-- the trace matrix built by `get_inv_diff` is Mathlib's trace matrix of ω_0, …, ω_{n−1} in ℚ[X]/(f) -/
theorem Setup.traceMatrix_eq (S : Setup f basis n) (t : Table) (ht : IsTable f basis n t) :
    Algebra.traceMatrix ℚ (omegaA f basis n)
      = (NTV.InvDiff.traceMatrix t n).map (Int.castRingHom ℚ) := by
  have : NeZero n := ⟨by have := S.pos; omega⟩
  have C' : Ctx (K := AdjoinRoot (modulus f)) (qK f) (omegaA f basis n) (tabT t n) := S.ctx t ht
  rw [C'.traceMatrix_eq S.finrank]
  rfl

/-- change of basis: `Tr = P · Tr_power · Pᵀ` -/
theorem Setup.traceMatrix_rel (S : Setup f basis n) (t : Table) (ht : IsTable f basis n t) :
    (NTV.InvDiff.traceMatrix t n).map (Int.castRingHom ℚ)
      = toM n n basis * Algebra.traceMatrix ℚ (fun c : Fin n => (AdjoinRoot.root (modulus f)) ^ (c : ℕ))
        * (toM n n basis)ᵀ := by
  rw [← S.traceMatrix_eq t ht, S.omega_eq_mulVec, Algebra.traceMatrix_of_matrix_mulVec]

/-- the trace matrix of the power basis: `det · lc(f)^{2(n−1)} = disc(f)` -/
theorem Setup.det_power_traceMatrix (S : Setup f basis n) :
    (Algebra.traceMatrix ℚ (fun c : Fin n => (AdjoinRoot.root (modulus f)) ^ (c : ℕ))).det
      * (((lc f : Int) : ℚ)) ^ (2 * (n - 1)) = (((toPoly f).discr : ℤ) : ℚ) := by
  obtain ⟨hdeg, hF⟩ := NTV.Alg.modulus_facts f S.canon S.two_le
  have hne : f ≠ [] := by intro e; have := S.two_le; simp [e] at this
  have hn : (modulus f).natDegree = n := by rw [hdeg, S.len]; simp
  have hpos := S.pos
  have hlc : (modulus f).leadingCoeff = ((lc f : Int) : ℚ) := modulus_leadingCoeff f S.canon hne
  have hl0 : (modulus f).leadingCoeff ≠ 0 := leadingCoeff_ne_zero.mpr hF
  have hZ : (toPoly f).natDegree = n := by rw [(natDegree_toPoly f hne S.canon).1, S.len]; simp
  have hdisc : (modulus f).discr = (((toPoly f).discr : ℤ) : ℚ) := by
    rw [modulus_eq_map]
    exact NTV.InvDiff.discr_map_of_injective (Int.castRingHom ℚ) (RingHom.injective_int _) (toPoly f)
      (by omega)
  set G := modulus f * C (modulus f).leadingCoeff⁻¹ with hG
  have hGdeg : G.natDegree = n := by rw [hG, natDegree_mul_C (inv_ne_zero hl0), hn]
  have hFG : modulus f = C (modulus f).leadingCoeff * G := by
    rw [hG, mul_comm (modulus f), ← mul_assoc, ← C_mul, mul_inv_cancel₀ hl0, C_1, one_mul]
  have hpow : (Algebra.traceMatrix ℚ (fun c : Fin n => (AdjoinRoot.root (modulus f)) ^ (c : ℕ))).det
      = G.discr := by
    have := NTV.InvDiff.det_traceMatrix_powers (modulus f) hF
    rw [← hG] at this
    rw [← this]
    clear_value G
    clear this hGdeg hFG hG hdisc hZ
    subst hn
    rfl
  have hmul := NTV.InvDiff.discr_C_mul (modulus f).leadingCoeff hl0 G (by omega)
  rw [← hFG, hGdeg] at hmul
  rw [hpow, ← hdisc, hmul, hlc]
  ring

/-- `det Tr · lc(f)^{2(n−1)} = (det P)² · disc(f)` -/
theorem Setup.det_traceMatrix (S : Setup f basis n) (t : Table) (ht : IsTable f basis n t) :
    (((NTV.InvDiff.traceMatrix t n).det : ℤ) : ℚ) * (((lc f : Int) : ℚ)) ^ (2 * (n - 1))
      = (toM n n basis).det ^ 2 * (((toPoly f).discr : ℤ) : ℚ) := by
  have h1 := congrArg Matrix.det (S.traceMatrix_rel t ht)
  rw [det_mul, det_mul, det_transpose] at h1
  have h2 : ((NTV.InvDiff.traceMatrix t n).map (Int.castRingHom ℚ)).det
      = (((NTV.InvDiff.traceMatrix t n).det : ℤ) : ℚ) := ((Int.castRingHom ℚ).map_det _).symm
  rw [← h2, h1, ← S.det_power_traceMatrix]
  ring

/-- the table of `IsTable` is cubic in the sense of `NTV.InvDiff.Shape` -/
theorem isTable_shape (t : Table) (ht : IsTable f basis n t) : NTV.InvDiff.Shape t n := by
  refine ⟨ht.1, ?_⟩
  intro r hr
  obtain ⟨i, hi, rfl⟩ := List.mem_iff_getElem.mp hr
  have hin : i < n := by rw [← ht.1]; exact hi
  have h := ht.2.1 i hin
  have e : t.getD i [] = t[i] := by simp [List.getD_eq_getElem?_getD, List.getElem?_eq_getElem hi]
  rw [e] at h
  refine ⟨h.1, ?_⟩
  intro s hs
  obtain ⟨j, hj, rfl⟩ := List.mem_iff_getElem.mp hs
  have hjn : j < n := by rw [← h.1]; exact hj
  have := h.2 j hjn
  simpa [List.getD_eq_getElem?_getD, List.getElem?_eq_getElem hj] using this

end NTV.Ord
