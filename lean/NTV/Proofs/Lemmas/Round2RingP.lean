import NTV.Proofs.Lemmas.Round2RingN
import NTV.Proofs.Lemmas.DiscrTrace
/-! Round 2, final assembly: with the identification of the discriminant with the trace form
(`NTV.DiscrTrace.discr_powerBasis_adjoinRoot`) the result of `find_integral_basis` is `p`-maximal at EVERY prime,
hence contained in no strictly larger order; the discriminant of every good order is computed without a panic. -/
open Matrix Finset Polynomial
namespace NTV.Round2
open NTV.Ord NTV.PolyG NTV.R2Abs
open NTV.RowOps (toM Rect ent)

/-- the trace-form discriminant of the power basis of `ℚ[X]/(F)` is `discr F / lc(F)^(2n−2)` -/
theorem discrTrace : DiscrTraceStmt :=
  fun F hF hn => NTV.DiscrTrace.discr_powerBasis_adjoinRoot F hF hn

variable {f : List Int} {n : Nat}

/-- **`Order::discriminant` never panics on an order**: for a non-singular basis closed under multiplication the
value `disc(f)·det²/lc^(2n−2)` is an integer (the determinant of the trace form), so the integrality assertion
passes -/
theorem discriminantOrd_closed {B : QMat} (S : Setup f B n) (hcl : Closed f B n) :
    ∃ d : ℤ, discriminantOrd B f = .ok d := by
  obtain ⟨z, hz⟩ := discValue_int discrTrace S hcl
  refine ⟨z, (discriminantOrd_ok_iff B n S.rect f z).mpr ⟨(toPoly f).discr, true,
    NTV.C05.discriminant_is_discr f S.canon S.two_le, ?_, ?_, hz⟩⟩
  · rw [S.degU_eq]; have := S.pos; omega
  · have hne : f ≠ [] := by intro e; have := S.len; rw [e] at this; simp at this
    have hcoef : coefAt f (degU f) = lc f := by
      rw [S.degU_eq]
      have := NTV.PolyG.lc_eq_getD f hne
      rw [S.len, Nat.add_sub_cancel] at this
      unfold coefAt
      rw [this]
    rw [hcoef]
    have hlc : lc f ≠ 0 := by
      have := S.canon hne
      rw [NTV.PolyG.getLast_eq_getD f hne] at this
      rw [← NTV.PolyG.lc_eq_getD f hne]; exact this
    exact_mod_cast pow_ne_zero _ hlc

/-- **the result of `find_integral_basis` is p-maximal at every prime** -/
theorem findIntegralBasis_pmaximal_all (f : List Int) (hf : Canon f) (O : Order)
    (H : findIntegralBasis f = .ok O) (p : ℕ) (hp : p.Prime) : PMaximal f (degU f) O p :=
  findIntegralBasis_pmaximal discrTrace f hf O H p hp

/-- **the result of `find_integral_basis` is the maximal order**: it contains every order that contains it -/
theorem findIntegralBasis_maximal (f : List Int) (hf : Canon f) (O : Order)
    (H : findIntegralBasis f = .ok O) (S : QMat) (rS : Rect (degU f) (degU f) S)
    (dS : (toM (degU f) (degU f) S).det ≠ 0) (cS : Closed f S (degU f))
    (hA : ∃ A : Matrix (Fin (degU f)) (Fin (degU f)) ℤ,
      toM (degU f) (degU f) O = A.map (Int.castRingHom ℚ) * toM (degU f) (degU f) S) :
    ∃ R : Matrix (Fin (degU f)) (Fin (degU f)) ℤ,
      toM (degU f) (degU f) S = R.map (Int.castRingHom ℚ) * toM (degU f) (degU f) O :=
  maximal_of_pmaximal_all (findIntegralBasis_good f hf O H)
    (fun p hp => findIntegralBasis_pmaximal_all f hf O H p hp) S rS dS cS hA

end NTV.Round2
