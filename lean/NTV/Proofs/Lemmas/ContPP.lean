import NTV.Proofs.Lemmas.PolyDivZ
open Polynomial
namespace NTV.PolyG

/-- gcd of a list of integers as folded by `cont_pp` -/
theorem foldl_gcd_dvd (l : List Int) (g0 : Int) :
    (l.foldl (fun g c => (Int.gcd g c : Int)) g0 ∣ g0) ∧ ∀ c ∈ l, l.foldl (fun g c => (Int.gcd g c : Int)) g0 ∣ c := by
  induction l generalizing g0 with
  | nil => simp
  | cons x xs ih =>
    simp only [List.foldl_cons]
    obtain ⟨h1, h2⟩ := ih (Int.gcd g0 x : Int)
    refine ⟨dvd_trans h1 (Int.gcd_dvd_left g0 x), ?_⟩
    intro c hc
    rcases List.mem_cons.mp hc with rfl | hc
    · exact dvd_trans h1 (Int.gcd_dvd_right g0 c)
    · exact h2 c hc

theorem dvd_foldl_gcd (l : List Int) (g0 d : Int) (h0 : d ∣ g0) (hl : ∀ c ∈ l, d ∣ c) :
    d ∣ l.foldl (fun g c => (Int.gcd g c : Int)) g0 := by
  induction l generalizing g0 with
  | nil => simpa
  | cons x xs ih =>
    simp only [List.foldl_cons]
    apply ih
    · exact Int.dvd_coe_gcd h0 (hl x (by simp))
    · intro c hc; exact hl c (by simp [hc])

theorem foldl_gcd_nonneg (l : List Int) (g0 : Int) (h0 : 0 ≤ g0) :
    0 ≤ l.foldl (fun g c => (Int.gcd g c : Int)) g0 := by
  induction l generalizing g0 with
  | nil => simpa
  | cons x xs ih => simp only [List.foldl_cons]; exact ih _ (by positivity)

theorem fromRaw_of_canon (l : List Int) (h : Canon l) : fromRaw l = l :=
  toPoly_inj _ _ (canon_fromRaw l) h (toPoly_fromRaw l)

theorem toPoly_map_fdiv (l : List Int) (g : Int) (h : ∀ c ∈ l, g ∣ c) :
    C g * toPoly (l.map (fun c => Int.fdiv c g)) = toPoly l := by
  induction l with
  | nil => simp [toPoly]
  | cons x xs ih =>
    simp only [List.map_cons, toPoly]
    have hx : Int.fdiv x g * g = x := Int.fdiv_mul_cancel (h x (by simp))
    rw [mul_add, ← C_mul, mul_comm g, hx, ← ih (fun c hc => h c (by simp [hc]))]
    ring

/-- C09: content and primitive part of a non-zero polynomial: `c · pp = a`, the coefficients of `pp`
have gcd 1, and `pp` has a positive leading coefficient (so `c` carries the sign) -/
theorem contPP_spec (a : List Int) (ha : a ≠ []) (hca : Canon a) :
    C (contPP a).1 * toPoly (contPP a).2 = toPoly a ∧
    (∀ d : Int, (∀ c ∈ (contPP a).2, d ∣ c) → d ∣ 1) ∧
    0 < lc (contPP a).2 ∧ Canon (contPP a).2 := by
  have hae : a.isEmpty = false := by cases a <;> simp_all
  set G := a.foldl (fun g c => (Int.gcd g c : Int)) 0 with hG
  have hGd : ∀ c ∈ a, G ∣ c := (foldl_gcd_dvd a 0).2
  have hG0 : 0 ≤ G := foldl_gcd_nonneg a 0 (le_refl _)
  have hlc0 : lc a ≠ 0 := lc_ne_zero a ha hca
  have hlcmem : lc a ∈ a := by
    unfold lc; rw [List.getLastD_eq_getLast?, List.getLast?_eq_some_getLast ha]
    simp only [Option.getD_some]
    exact List.getLast_mem ha
  have hGne : G ≠ 0 := by
    intro e
    have := hGd (lc a) hlcmem
    rw [e] at this
    exact hlc0 (zero_dvd_iff.mp this)
  have hGpos : 0 < G := lt_of_le_of_ne hG0 (Ne.symm hGne)
  set g : Int := if lc a < 0 then -G else G with hg
  have hgG : g = G ∨ g = -G := by by_cases h : lc a < 0 <;> simp [hg, h]
  have hgne : g ≠ 0 := by rcases hgG with e | e <;> rw [e] <;> omega
  have hgd : ∀ c ∈ a, g ∣ c := by
    intro c hc
    rcases hgG with e | e <;> rw [e]
    · exact hGd c hc
    · exact (neg_dvd).mpr (hGd c hc)
  have hcont : contPP a = (g, fromRaw (a.map (fun c => Int.fdiv c g))) := by
    simp only [contPP, hae, Bool.false_eq_true, ↓reduceIte, contentAbs, ← hG, ← hg]
  rw [hcont]
  simp only
  -- the mapped list is already canonical: its last entry is lc a / g ≠ 0
  have hmapne : a.map (fun c => Int.fdiv c g) ≠ [] := by simpa using ha
  have hlcq : Int.fdiv (lc a) g * g = lc a := Int.fdiv_mul_cancel (hgd _ hlcmem)
  have hlast : (a.map (fun c => Int.fdiv c g)).getLast hmapne = Int.fdiv (lc a) g := by
    rw [List.getLast_map]
    unfold lc; rw [List.getLastD_eq_getLast?, List.getLast?_eq_some_getLast ha]; rfl
  have hqne : Int.fdiv (lc a) g ≠ 0 := by
    intro e; rw [e, zero_mul] at hlcq; exact hlc0 hlcq.symm
  have hcm : Canon (a.map (fun c => Int.fdiv c g)) := by
    intro h; rw [hlast]; exact hqne
  rw [fromRaw_of_canon _ hcm]
  refine ⟨toPoly_map_fdiv a g hgd, ?_, ?_, hcm⟩
  · -- any common divisor d of the quotients gives d*g | every coefficient, so d*g | G
    intro d hd
    have hdg : ∀ c ∈ a, d * g ∣ c := by
      intro c hc
      have h1 : d ∣ Int.fdiv c g := hd _ (List.mem_map.mpr ⟨c, hc, rfl⟩)
      have h2 : Int.fdiv c g * g = c := Int.fdiv_mul_cancel (hgd c hc)
      rw [← h2]; exact mul_dvd_mul_right h1 g
    have hdG : d * g ∣ G := dvd_foldl_gcd a 0 (d * g) (dvd_zero _) hdg
    have hdG' : d * G ∣ G := by
      rcases hgG with e | e
      · rwa [e] at hdG
      · rw [e, mul_neg] at hdG; exact (neg_dvd).mp hdG
    obtain ⟨w, hw⟩ := hdG'
    have : G * (d * w) = G * 1 := by rw [mul_one]; nlinarith
    have := mul_left_cancel₀ hGne this
    exact Dvd.intro w this
  · have hl : lc (a.map (fun c => Int.fdiv c g)) = Int.fdiv (lc a) g := by
      unfold lc
      rw [List.getLastD_eq_getLast?, List.getLast?_eq_some_getLast hmapne]; exact hlast
    rw [hl]
    -- lc a and g have the same sign
    by_cases hneg : lc a < 0
    · have e : g = -G := by simp [hg, hneg]
      rw [e] at hlcq ⊢
      by_contra hle
      have : Int.fdiv (lc a) (-G) ≤ 0 := by omega
      nlinarith
    · have e : g = G := by simp [hg, hneg]
      rw [e] at hlcq ⊢
      have hpos : 0 < lc a := by omega
      by_contra hle
      have : Int.fdiv (lc a) G ≤ 0 := by omega
      nlinarith

end NTV.PolyG
