import NTV.Model.Order
import NTV.Proofs.Lemmas.LinAlgProofs
/-! Helper lemmas for C15: `order::index` and `Order::discriminant` of the model `NTV.Ord` in terms of
Mathlib determinants (through `NTV.LinAlg.determinant_eq`). -/
open Matrix
namespace NTV.Ord
open NTV.RowOps (toM Rect)

theorem isInteger_iff (r : Rat) : isInteger r = true ↔ ∃ z : Int, r = (z : Rat) := by
  unfold isInteger
  constructor
  · intro h
    exact ⟨r.num, ((Rat.den_eq_one_iff r).mp (by simpa using h)).symm⟩
  · rintro ⟨z, rfl⟩
    simp

theorem toInteger_intCast (z : Int) : toInteger (z : Rat) = z := by
  simp [toInteger]

/-- `index` after the two determinants have been evaluated -/
theorem index_unfold (A B : QMat) (n : Nat) (hA : Rect n n A) (hB : Rect n n B) :
    index A B =
      (if (toM n n A).det = 0 then
        (if (toM n n B).det = 0 then .error "panic div0" else .error "panic other")
       else if isInteger ((toM n n B).det / (toM n n A).det)
        then .ok (toInteger ((toM n n B).det / (toM n n A).det)) else .error "panic other") := by
  unfold index
  rw [NTV.LinAlg.determinant_eq B n hB, NTV.LinAlg.determinant_eq A n hA]
  rfl

/-- `index(A, B) = i` exactly when `det B = i · det A` (for a non-singular `A`) -/
theorem index_ok_iff (A B : QMat) (n : Nat) (hA : Rect n n A) (hB : Rect n n B)
    (hdet : (toM n n A).det ≠ 0) (i : Int) :
    index A B = .ok i ↔ (toM n n B).det = (i : Rat) * (toM n n A).det := by
  rw [index_unfold A B n hA hB, if_neg hdet]
  constructor
  · intro h
    split at h
    · rename_i hint
      obtain ⟨z, hz⟩ := (isInteger_iff _).mp hint
      rw [hz, toInteger_intCast] at h
      have : z = i := by injection h
      subst this
      field_simp at hz
      rw [hz]; ring
    · cases h
  · intro h
    have hq : (toM n n B).det / (toM n n A).det = (i : Rat) := by
      rw [h]; field_simp
    rw [hq, if_pos ((isInteger_iff _).mpr ⟨i, rfl⟩), toInteger_intCast]

/-- a panic of `index` on a non-singular `A` means that `det B / det A` is not an integer -/
theorem index_err (A B : QMat) (n : Nat) (hA : Rect n n A) (hB : Rect n n B)
    (hdet : (toM n n A).det ≠ 0) (e : String) (h : index A B = .error e) :
    e = "panic other" ∧ ∀ i : Int, (toM n n B).det ≠ (i : Rat) * (toM n n A).det := by
  rw [index_unfold A B n hA hB, if_neg hdet] at h
  split at h
  · cases h
  · rename_i hni
    refine ⟨by injection h with h; exact h.symm, ?_⟩
    intro i hi
    apply hni
    apply (isInteger_iff _).mpr
    exact ⟨i, by rw [hi]; field_simp⟩

/-- the value computed by `discriminant_with_min_poly` before the integrality assertion -/
noncomputable def discValue (d : Int) (f : List Int) (detA : Rat) : Rat :=
  (d : Rat) * detA * detA / (((NTV.PolyG.coefAt f (NTV.PolyG.degU f)) ^ (2 * (NTV.PolyG.degU f - 1)) : Int) : Rat)

/-- `discriminantOrd` succeeds with `x` exactly when `discriminant(f)` evaluates to some `d`, the
degree is positive, the power of the leading coefficient is non-zero and the value is the integer `x` -/
theorem discriminantOrd_ok_iff (A : QMat) (n : Nat) (hA : Rect n n A) (f : List Int) (x : Int) :
    discriminantOrd A f = .ok x ↔
      ∃ d fl, NTV.Res.discriminant f = .ok (d, fl) ∧ NTV.PolyG.degU f ≠ 0 ∧
        (((NTV.PolyG.coefAt f (NTV.PolyG.degU f)) ^ (2 * (NTV.PolyG.degU f - 1)) : Int) : Rat) ≠ 0 ∧
        discValue d f (toM n n A).det = (x : Rat) := by
  unfold discriminantOrd discValue
  rw [NTV.LinAlg.determinant_eq A n hA]
  cases hd : NTV.Res.discriminant f with
  | error e => simp [bind, Except.bind]
  | ok p =>
    obtain ⟨d, fl⟩ := p
    simp only [bind, Except.bind]
    by_cases h0 : NTV.PolyG.degU f = 0
    · simp [h0]
    · simp only [h0, if_false]
      by_cases hden : (((NTV.PolyG.coefAt f (NTV.PolyG.degU f)) ^ (2 * (NTV.PolyG.degU f - 1)) : Int) : Rat) = 0
      · simp [hden]
      · simp only [hden, if_false]
        constructor
        · intro h
          split at h
          · rename_i hint
            obtain ⟨z, hz⟩ := (isInteger_iff _).mp hint
            rw [hz, toInteger_intCast] at h
            have : z = x := by injection h
            subst this
            exact ⟨d, fl, rfl, fun h => h0 h, hden, hz⟩
          · cases h
        · rintro ⟨d', fl', he, _, _, hv⟩
          have : d' = d := by injection he with he; injection he with h1 _; exact h1.symm
          subst this
          rw [hv, if_pos ((isInteger_iff _).mpr ⟨x, rfl⟩), toInteger_intCast]

end NTV.Ord
