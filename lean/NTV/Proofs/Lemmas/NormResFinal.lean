import NTV.Proofs.Lemmas.TableProofs2
import NTV.Proofs.Lemmas.NormResAdj
import NTV.Proofs.Lemmas.NormResCtx
import NTV.Proofs.Lemmas.ResRatProofs
import NTV.Proofs.Lemmas.OrdUnionPower
/-! C14 (norm = resultant), assembly: the determinant computed by `MultTable::norm` is
`Res(f, g) / lc(f)^{deg g}` for `g` the polynomial (degree < n) representing the element. -/
open Polynomial Matrix
namespace NTV.Ord
open NTV.RowOps (toM Rect ent)
open NTV.PolyG
open NTV.Alg (Reduced modulus cls)
open NTV.TableAbs (psi castV castM reg Ctx)

theorem toPoly_map_ringHom {R S : Type} [CommRing R] [CommRing S] (φ : R →+* S) (l : List R) :
    toPoly (l.map φ) = (toPoly l).map φ := by
  induction l with
  | nil => simp [toPoly]
  | cons c cs ih => simp [toPoly, ih]

/-- the modulus is the image of the integer polynomial -/
theorem modulus_eq_map (f : List Int) : modulus f = (toPoly f).map (Int.castRingHom ℚ) := by
  unfold modulus NTV.Alg.intsToRats
  exact toPoly_map_ringHom (Int.castRingHom ℚ) f

theorem modulus_leadingCoeff (f : List Int) (hf : Canon f) (hne : f ≠ []) :
    (modulus f).leadingCoeff = ((lc f : Int) : ℚ) := by
  rw [modulus_eq_map, leadingCoeff_map_of_injective (Int.cast_injective (α := ℚ)),
    (natDegree_toPoly f hne hf).2.1]
  rfl

variable {f : List Int} {basis : QMat} {n : Nat}

/-- `det (regular t a) · lc(f)^{deg G} = Res(F, G)` -/
theorem Setup.det_resultant (S : Setup f basis n) (t : Table) (ht : IsTable f basis n t) (a : List Int) :
    (((reg (tabT t n) (vecZ a n)).det : ℤ) : ℚ) * (modulus f).leadingCoeff ^ (toPoly (elt basis a)).natDegree
      = resultant (modulus f) (toPoly (elt basis a)) := by
  have : NeZero n := ⟨by have := S.pos; omega⟩
  obtain ⟨hdeg, hF⟩ := NTV.Alg.modulus_facts f S.canon S.two_le
  have hdim : Module.finrank ℚ (AdjoinRoot (modulus f)) = n := by
    rw [(AdjoinRoot.powerBasis hF).finrank, AdjoinRoot.powerBasis_dim, hdeg, S.len]; simp
  have C' : Ctx (K := AdjoinRoot (modulus f)) (qK f) (omegaK f basis n) (tabT t n) := S.ctx t ht
  have h1 := C'.norm_eq_det hdim (vecZ a n)
  have h2 : psi (K := AdjoinRoot (modulus f)) (qK f) (omegaK f basis n) (NTV.TableAbs.castV (vecZ a n))
      = AdjoinRoot.mk (modulus f) (toPoly (elt basis a)) := by
    have := S.cls_comb (a.map fun z => ((z : Int) : Rat))
    rw [vecQ_map_cast] at this
    exact this.symm
  rw [h2] at h1
  rw [← h1]
  exact NTV.NormRes.norm_mk_mul_pow (modulus f) _ hF

/-- the coefficients of `elt basis a` -/
theorem elt_getD (basis : QMat) (a : List Int) (c : Nat) (hc : c < basis.length) :
    (elt basis a).getD c 0 = ∑ i ∈ Finset.range basis.length, ((a.getD i 0 : Int) : Rat) * ent basis i c := by
  unfold elt comb
  rw [getD_fromRaw]
  simp only [List.getD_eq_getElem?_getD, List.getElem?_map, List.getElem?_range hc, Option.map_some,
    Option.getD_some]
  apply Finset.sum_congr rfl
  intro i _
  cases a[i]? <;> simp

theorem elt_length_le (basis : QMat) (a : List Int) : (elt basis a).length ≤ basis.length := by
  unfold elt comb
  apply length_fromRaw_le
  intro j hj
  exact getD_of_length_le _ j (by simpa using hj)

/-- in the power basis the element with integer coordinates `g` is the polynomial `g` -/
theorem toPoly_elt_identityQ (n : Nat) (g : List Int) (hg : g.length ≤ n) :
    toPoly (elt (identityQ n) g) = (toPoly g).map (Int.castRingHom ℚ) := by
  ext c
  rw [coeff_toPoly, coeff_map, coeff_toPoly]
  have hl : (identityQ n).length = n := (identityQ_rect n).1
  by_cases hc : c < n
  · rw [elt_getD _ _ _ (by rw [hl]; exact hc), hl, Finset.sum_eq_single c]
    · rw [identityQ_ent n c c hc hc]; simp
    · intro i hi hic
      rw [identityQ_ent n i c (Finset.mem_range.mp hi) hc, if_neg hic, mul_zero]
    · intro h; exact absurd (Finset.mem_range.mpr hc) h
  · have := elt_length_le (identityQ n) g
    rw [getD_of_length_le _ c (by omega), getD_of_length_le _ c (by omega)]
    simp

end NTV.Ord
