import Mathlib.LinearAlgebra.Matrix.NonsingularInverse
import Mathlib.LinearAlgebra.Matrix.Trace
import Mathlib.LinearAlgebra.Matrix.ToLinearEquiv
import Mathlib.LinearAlgebra.Matrix.Nondegenerate
/-! Abstract algebra behind the multiplication table of an order (C14, second sentence).

`K` is a commutative ring receiving the rationals through `q`, `Ω : Fin n → K` a family that is
independent over ℚ, and `T` an integral table with `Ω i * Ω j = Σ_k T i j k · Ω k`. Everything that the
routines of `mult_table.rs` compute is expressed through `psi x = Σ_i x_i · Ω_i`. No list-level model is
involved here. -/
open Matrix
namespace NTV.TableAbs

variable {K : Type*} [CommRing K] {n : ℕ}

/-- `Σ_i x_i · Ω_i` -/
def psi (q : ℚ →+* K) (Ω : Fin n → K) (x : Fin n → ℚ) : K := ∑ i, q (x i) * Ω i

/-- the hypotheses: independence of `Ω` over ℚ and the table relation -/
structure Ctx (q : ℚ →+* K) (Ω : Fin n → K) (T : Fin n → Fin n → Fin n → ℤ) : Prop where
  indep : ∀ x : Fin n → ℚ, psi q Ω x = 0 → x = 0
  table : ∀ i j, Ω i * Ω j = ∑ k, q ((T i j k : ℤ) : ℚ) * Ω k

/-- the integral matrix of the multiplication by `Σ a_i Ω_i`: `R[j][k] = Σ_i a_i · T i j k` -/
def reg (T : Fin n → Fin n → Fin n → ℤ) (a : Fin n → ℤ) : Matrix (Fin n) (Fin n) ℤ :=
  fun j k => ∑ i, a i * T i j k

/-- the coordinates of the product: `c_k = Σ_i Σ_j a_i b_j T i j k` -/
def mulVec (T : Fin n → Fin n → Fin n → ℤ) (a b : Fin n → ℤ) : Fin n → ℤ :=
  fun k => ∑ i, ∑ j, a i * b j * T i j k

/-- integer vectors as rational vectors -/
def castV (a : Fin n → ℤ) : Fin n → ℚ := fun i => (a i : ℚ)

/-- integer matrices as rational matrices -/
def castM (A : Matrix (Fin n) (Fin n) ℤ) : Matrix (Fin n) (Fin n) ℚ := A.map (fun z => (z : ℚ))

variable {q : ℚ →+* K} {Ω : Fin n → K} {T : Fin n → Fin n → Fin n → ℤ}

theorem psi_add (x y : Fin n → ℚ) : psi q Ω (x + y) = psi q Ω x + psi q Ω y := by
  simp [psi, add_mul, Finset.sum_add_distrib]

theorem psi_sub (x y : Fin n → ℚ) : psi q Ω (x - y) = psi q Ω x - psi q Ω y := by
  simp [psi, sub_mul, Finset.sum_sub_distrib]

theorem psi_zero : psi q Ω (0 : Fin n → ℚ) = 0 := by simp [psi]

theorem psi_smul (c : ℚ) (x : Fin n → ℚ) : psi q Ω (c • x) = q c * psi q Ω x := by
  simp [psi, Finset.mul_sum, mul_assoc]

theorem psi_single [DecidableEq (Fin n)] (i : Fin n) : psi q Ω (Pi.single i 1) = Ω i := by
  unfold psi
  rw [Finset.sum_eq_single i]
  · simp
  · intro j _ hj; simp [Pi.single_eq_of_ne hj]
  · simp

theorem Ctx.inj (h : Ctx q Ω T) (x y : Fin n → ℚ) (e : psi q Ω x = psi q Ω y) : x = y := by
  have := h.indep (x - y) (by rw [psi_sub, e, sub_self])
  exact sub_eq_zero.mp this

/-- the product of two combinations, expanded through the table -/
theorem Ctx.psi_mul_psi (h : Ctx q Ω T) (x y : Fin n → ℚ) :
    psi q Ω x * psi q Ω y = psi q Ω (fun k => ∑ i, ∑ j, x i * y j * (T i j k : ℚ)) := by
  unfold psi
  rw [Finset.sum_mul_sum]
  have e1 : ∀ i j, q (x i) * Ω i * (q (y j) * Ω j) = ∑ k, q (x i * y j * (T i j k : ℚ)) * Ω k := by
    intro i j
    rw [mul_mul_mul_comm, h.table i j, Finset.mul_sum]
    apply Finset.sum_congr rfl
    intro k _
    rw [map_mul, map_mul]; ring
  simp only [e1]
  simp only [map_sum, Finset.sum_mul]
  have e2 : ∀ i, ∑ j, ∑ k, q (x i * y j * (T i j k : ℚ)) * Ω k
      = ∑ k, ∑ j, q (x i * y j * (T i j k : ℚ)) * Ω k := fun i => Finset.sum_comm
  simp only [e2]
  rw [Finset.sum_comm]

/-- the table is symmetric -/
theorem Ctx.symm (h : Ctx q Ω T) (i j k : Fin n) : T i j k = T j i k := by
  have e : psi q Ω (fun k => ((T i j k : ℤ) : ℚ)) = psi q Ω (fun k => ((T j i k : ℤ) : ℚ)) := by
    unfold psi
    rw [← h.table i j, ← h.table j i, mul_comm]
  have := congrFun (h.inj _ _ e) k
  exact_mod_cast this

/-- `mulVec` on the rational side -/
theorem castV_mulVec (a b : Fin n → ℤ) :
    castV (mulVec T a b) = fun k => ∑ i, ∑ j, castV a i * castV b j * (T i j k : ℚ) := by
  funext k
  simp [castV, mulVec]

/-- the table multiplication computes the product -/
theorem Ctx.mul_agrees (h : Ctx q Ω T) (a b : Fin n → ℤ) :
    psi q Ω (castV a) * psi q Ω (castV b) = psi q Ω (castV (mulVec T a b)) := by
  rw [h.psi_mul_psi, castV_mulVec]

/-- `x ᵥ* reg a` in coordinates -/
theorem vecMul_reg (a : Fin n → ℤ) (x : Fin n → ℚ) :
    x ᵥ* castM (reg T a) = fun k => ∑ i, ∑ j, castV a i * x j * (T i j k : ℚ) := by
  funext k
  simp only [Matrix.vecMul, dotProduct, castM, reg, Matrix.map_apply, Int.cast_sum, Int.cast_mul,
    Finset.mul_sum, castV]
  rw [Finset.sum_comm]
  apply Finset.sum_congr rfl
  intro i _
  apply Finset.sum_congr rfl
  intro j _
  ring

/-- `reg a` is the matrix of the multiplication by `Σ a_i Ω_i` in the basis `Ω` (row vectors) -/
theorem Ctx.reg_is_mult (h : Ctx q Ω T) (a : Fin n → ℤ) (x : Fin n → ℚ) :
    psi q Ω (castV a) * psi q Ω x = psi q Ω (x ᵥ* castM (reg T a)) := by
  rw [h.psi_mul_psi, vecMul_reg]

/-- the product by the table is `b ᵥ* reg a` -/
theorem mulVec_eq_vecMul (a b : Fin n → ℤ) : mulVec T a b = b ᵥ* reg T a := by
  funext k
  simp only [mulVec, Matrix.vecMul, dotProduct, reg, Finset.mul_sum]
  rw [Finset.sum_comm]
  apply Finset.sum_congr rfl
  intro i _
  apply Finset.sum_congr rfl
  intro j _
  ring

theorem castM_mul (A B : Matrix (Fin n) (Fin n) ℤ) : castM (A * B) = castM A * castM B := by
  unfold castM
  exact Matrix.map_mul (f := Int.castRingHom ℚ)

theorem castM_inj (A B : Matrix (Fin n) (Fin n) ℤ) (h : castM A = castM B) : A = B := by
  ext i j
  have := congrFun (congrFun h i) j
  simp only [castM, Matrix.map_apply] at this
  exact_mod_cast this

/-- `reg (a ⋆ b) = reg b * reg a` -/
theorem Ctx.reg_mul (h : Ctx q Ω T) (a b : Fin n → ℤ) :
    reg T (mulVec T a b) = reg T b * reg T a := by
  classical
  apply castM_inj
  rw [castM_mul]
  ext i k
  have key : ∀ x : Fin n → ℚ, x ᵥ* castM (reg T (mulVec T a b)) = x ᵥ* (castM (reg T b) * castM (reg T a)) := by
    intro x
    apply h.inj
    rw [← h.reg_is_mult, ← h.mul_agrees, ← Matrix.vecMul_vecMul, ← h.reg_is_mult, ← h.reg_is_mult]
    ring
  have := congrFun (key (Pi.single i 1)) k
  simpa [Matrix.single_one_vecMul] using this

theorem det_castM (A : Matrix (Fin n) (Fin n) ℤ) : (castM A).det = ((A.det : ℤ) : ℚ) := by
  unfold castM
  exact ((Int.castRingHom ℚ).map_det A).symm

/-- the norm is multiplicative -/
theorem Ctx.det_mul (h : Ctx q Ω T) (a b : Fin n → ℤ) :
    (reg T (mulVec T a b)).det = (reg T a).det * (reg T b).det := by
  rw [h.reg_mul, Matrix.det_mul, mul_comm]

/-- the trace as computed by `MultTable::trace` (`Σ_i Σ_j a_i · T j i j`) is the trace of `reg a` -/
theorem Ctx.trace_eq (h : Ctx q Ω T) (a : Fin n → ℤ) :
    ∑ i, ∑ j, a i * T j i j = (reg T a).trace := by
  simp only [Matrix.trace, Matrix.diag, reg]
  rw [Finset.sum_comm]
  apply Finset.sum_congr rfl
  intro j _
  apply Finset.sum_congr rfl
  intro i _
  rw [h.symm j i j]

/-- a left inverse of `reg a` is the adjugate divided by the determinant -/
theorem adjugate_of_left_inv (A : Matrix (Fin n) (Fin n) ℤ) (M : Matrix (Fin n) (Fin n) ℚ)
    (hM : M * castM A = 1) (i k : Fin n) :
    M i k * ((A.det : ℤ) : ℚ) = ((A.adjugate i k : ℤ) : ℚ) := by
  have h1 : (castM A).adjugate = (castM A).det • M := by
    calc (castM A).adjugate = (M * castM A) * (castM A).adjugate := by rw [hM, one_mul]
      _ = M * (castM A * (castM A).adjugate) := by rw [Matrix.mul_assoc]
      _ = (castM A).det • M := by rw [Matrix.mul_adjugate, Matrix.mul_smul, Matrix.mul_one]
  have h2 : (castM A).adjugate = castM A.adjugate := by
    unfold castM
    exact ((Int.castRingHom ℚ).map_adjugate A).symm
  have := congrFun (congrFun h1 i) k
  rw [h2, det_castM] at this
  simp only [castM, Matrix.map_apply, Matrix.smul_apply, smul_eq_mul] at this
  rw [this]; ring

/-- the inverse: with `Ω i0 = 1`, row `i0` of a left inverse `M` of `reg a` gives the inverse of
`Σ a_i Ω_i` -/
theorem Ctx.inv_row (h : Ctx q Ω T) (a : Fin n → ℤ) (M : Matrix (Fin n) (Fin n) ℚ)
    (hM : M * castM (reg T a) = 1) (i0 : Fin n) (h1 : Ω i0 = 1) :
    psi q Ω (castV a) * psi q Ω (M i0) = 1 := by
  classical
  rw [h.reg_is_mult]
  have : M i0 ᵥ* castM (reg T a) = Pi.single i0 1 := by
    funext k
    have := congrFun (congrFun hM i0) k
    rw [Matrix.mul_apply] at this
    simp only [Matrix.vecMul, dotProduct]
    rw [this, Matrix.one_apply, Pi.single_apply]
    simp [eq_comm]
  rw [this, psi_single, h1]

/-- in a domain a non-zero element has a non-zero norm -/
theorem Ctx.det_ne_zero [NoZeroDivisors K] (h : Ctx q Ω T) (a : Fin n → ℤ) (ha : a ≠ 0) :
    (reg T a).det ≠ 0 := by
  classical
  intro hdet
  have hq : (castM (reg T a)).det = 0 := by rw [det_castM, hdet]; simp
  obtain ⟨x, hx0, hx⟩ := Matrix.exists_vecMul_eq_zero_iff.mpr hq
  have hm := h.reg_is_mult a x
  rw [hx, psi_zero] at hm
  rcases mul_eq_zero.mp hm with e | e
  · apply ha
    have := h.indep _ e
    funext i
    have := congrFun this i
    simp only [castV, Pi.zero_apply] at this ⊢
    exact_mod_cast this
  · exact hx0 (h.indep _ e)

end NTV.TableAbs
