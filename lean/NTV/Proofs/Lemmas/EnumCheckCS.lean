import NTV.Proofs.Lemmas.EnumCheckBasic
import Mathlib.LinearAlgebra.Matrix.NonsingularInverse
/-! Checker soundness for `NTV.Spec.Enum` (C20), part 2: Cauchy–Schwarz in the `Q` inner product and the
coordinate bound `x_i² ≤ (xᵀQx) · (Q⁻¹)_{ii}` that makes the box complete. -/
open Matrix
namespace NTV.EnumCheck

/-- positive definiteness of the quadratic form of `M` on rational vectors -/
def PosDefQ {n : Nat} (M : Matrix (Fin n) (Fin n) ℚ) : Prop := ∀ y : Fin n → ℚ, y ≠ 0 → 0 < qf M y

variable {n : Nat}

theorem bil_symm (M : Matrix (Fin n) (Fin n) ℚ) (hs : M.IsSymm) (x u : Fin n → ℚ) :
    u ⬝ᵥ (M *ᵥ x) = x ⬝ᵥ (M *ᵥ u) := by
  rw [dotProduct_mulVec, ← mulVec_transpose, hs.eq, dotProduct_comm]

theorem qf_add_smul (M : Matrix (Fin n) (Fin n) ℚ) (hs : M.IsSymm) (x u : Fin n → ℚ) (t : ℚ) :
    qf M (x + t • u) = qf M x + 2 * t * (x ⬝ᵥ (M *ᵥ u)) + t ^ 2 * qf M u := by
  unfold qf
  rw [mulVec_add, mulVec_smul, add_dotProduct, dotProduct_add, dotProduct_add, smul_dotProduct,
    smul_dotProduct, dotProduct_smul, dotProduct_smul, bil_symm M hs x u]
  simp only [smul_eq_mul]
  ring

theorem qf_nonneg (M : Matrix (Fin n) (Fin n) ℚ) (hp : PosDefQ M) (y : Fin n → ℚ) : 0 ≤ qf M y := by
  by_cases hy : y = 0
  · subst hy; simp [qf]
  · exact le_of_lt (hp y hy)

/-- Cauchy–Schwarz for a symmetric positive-definite form -/
theorem cauchy_schwarz (M : Matrix (Fin n) (Fin n) ℚ) (hs : M.IsSymm) (hp : PosDefQ M) (x u : Fin n → ℚ) :
    (x ⬝ᵥ (M *ᵥ u)) ^ 2 ≤ qf M x * qf M u := by
  by_cases hu : u = 0
  · subst hu; simp [qf]
  · have hc : 0 < qf M u := hp u hu
    set a := qf M x
    set b := x ⬝ᵥ (M *ᵥ u)
    set c := qf M u
    have h := qf_nonneg M hp (x + (-b / c) • u)
    rw [qf_add_smul M hs] at h
    have e : a + 2 * (-b / c) * b + (-b / c) ^ 2 * c = a - b ^ 2 / c := by
      field_simp; ring
    rw [e] at h
    have : b ^ 2 / c ≤ a := by linarith
    rwa [div_le_iff₀ hc] at this

/-- the coordinate bound: `x_i² ≤ (xᵀMx) · (M⁻¹)_{ii}` -/
theorem coord_bound (M Mi : Matrix (Fin n) (Fin n) ℚ) (hs : M.IsSymm) (hp : PosDefQ M)
    (hinv : Mi * M = 1) (x : Fin n → ℚ) (i : Fin n) :
    (x i) ^ 2 ≤ qf M x * Mi i i := by
  have hinv' : M * Mi = 1 := mul_eq_one_comm.mp hinv
  set u : Fin n → ℚ := Mi *ᵥ Pi.single i 1 with hu
  have hMu : M *ᵥ u = Pi.single i 1 := by
    rw [hu, mulVec_mulVec, hinv', one_mulVec]
  have h := cauchy_schwarz M hs hp x u
  have e1 : x ⬝ᵥ (M *ᵥ u) = x i := by rw [hMu]; simp
  have e2 : qf M u = Mi i i := by
    unfold qf; rw [hMu]; simp [hu]
  rwa [e1, e2] at h

/-- the diagonal of the inverse is non-negative (in fact positive) -/
theorem inv_diag_nonneg (M Mi : Matrix (Fin n) (Fin n) ℚ) (hp : PosDefQ M)
    (hinv : Mi * M = 1) (i : Fin n) : 0 ≤ Mi i i := by
  have hinv' : M * Mi = 1 := mul_eq_one_comm.mp hinv
  set u : Fin n → ℚ := Mi *ᵥ Pi.single i 1 with hu
  have hMu : M *ᵥ u = Pi.single i 1 := by
    rw [hu, mulVec_mulVec, hinv', one_mulVec]
  have e2 : qf M u = Mi i i := by
    unfold qf; rw [hMu]; simp [hu]
  rw [← e2]; exact qf_nonneg M hp u

end NTV.EnumCheck
