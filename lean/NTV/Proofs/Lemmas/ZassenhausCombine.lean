import NTV.Proofs.Lemmas.ZassenhausModel
/-! # Berlekamp–Zassenhaus, part 4: the recombination loop `combine` keeps the invariant
and every polynomial it outputs is irreducible in ℤ[X]. -/
open Polynomial
namespace NTV.PolyZ
open NTV.PolyG NTV.PolyMod NTV.Hensel NTV.Zas

/-- the numeric set-up of the recombination: `pe = P^e`, `pe2 = ⌊pe/2⌋`, and the Mignotte window: for every
factorisation `A = g·h·h'` the coefficients of `lc(h')·h` lie in `[-pe2, pe - pe2)` -/
structure Setup (P e : ℕ) (pe pe2 : Int) (A : ℤ[X]) : Prop where
  hpe : pe = (P : ℤ) ^ e
  hpe2 : pe2 = Int.tdiv pe 2
  bound : ∀ g h h' : ℤ[X], A = g * h * h' → ∀ j,
    -pe2 ≤ (C h'.leadingCoeff * h).coeff j ∧ (C h'.leadingCoeff * h).coeff j < pe - pe2

theorem coefAt_degU (a : List Int) (ha : a ≠ []) (hca : Canon a) : coefAt a (degU a) = (toPoly a).leadingCoeff := by
  obtain ⟨d1, _, _⟩ := natDegree_toPoly a ha hca
  have he : a.isEmpty = false := by cases a <;> simp_all
  rw [leadingCoeff, d1, coeff_toPoly]
  simp [coefAt, degU, he]

theorem toPoly_fromRaw_single (c : Int) : toPoly (fromRaw [c]) = C c := by
  rw [toPoly_fromRaw]; simp [toPoly]

/-- the candidate of a mask is congruent to `lca·∏ selected` -/
theorem cand_cong (pe pe2 lca : Int) (L : List Poly) (bits : Nat) :
    PCong pe (toPoly (cand pe pe2 lca L bits)) (C lca * ((selBits L bits).map toPoly).prod) := by
  unfold cand
  refine (symres_cong pe pe2 _).trans ?_
  have := subsetProd_cong pe L bits (fromRaw [lca])
  rwa [toPoly_fromRaw_single] at this

theorem Setup.pe_pos {P e : ℕ} {pe pe2 : Int} {A : ℤ[X]} (S : Setup P e pe pe2 A) (hP : P.Prime) :
    0 < pe ∧ 0 ≤ pe2 ∧ pe2 < pe := by
  have h1 : 0 < pe := by rw [S.hpe]; exact pow_pos (by exact_mod_cast hP.pos) _
  rw [S.hpe2, Int.tdiv_eq_ediv_of_nonneg h1.le]
  omega

section
variable {P e : ℕ} {pe pe2 : Int} {A : ℤ[X]}

/-- an accepted candidate is irreducible and the invariant is kept -/
theorem step_some (S : Setup P e pe pe2 A) {a : List Int} {L : List Poly} {d : Nat} (ha : a ≠ []) (hca : Canon a)
    (I : Inv P e A (toPoly a) (L.map toPoly) d) (hlen : 2 * d ≤ L.length) (h25 : L.length ≤ 64)
    {pp a' : List Int} {l' : List Poly}
    (h : subsetLoop pe pe2 a (coefAt a (degU a)) L d (2 ^ L.length) 0 = .ok (some (pp, a', l'))) :
    Irreducible (toPoly pp) ∧ a' ≠ [] ∧ Canon a' ∧ Inv P e A (toPoly a') (l'.map toPoly) d := by
  obtain ⟨bits, q, _, hb, hcnt, hq, hpp, hq1, hl'⟩ := subsetLoop_some pe pe2 a _ L d _ _ _ _ _ h
  rw [Nat.zero_add] at hb
  set lca := coefAt a (degU a) with hlca
  obtain ⟨hcne, _, _⟩ := divExact_sound _ _ q hq
  obtain ⟨c1, _, _, _⟩ := contPP_spec _ hcne (canon_symres _ _ _)
  obtain ⟨_, hfac, hca'⟩ := divExact_sound _ _ a' hq1
  have hne' := quot_ne_nil ha hca hfac
  have hcong : PCong ((P : ℤ) ^ e) (toPoly (cand pe pe2 lca L bits))
      (C (toPoly a).leadingCoeff * ((selBits L bits).map toPoly).prod) := by
    have e1 : C lca * ((selBits L bits).map toPoly).prod
        = C (toPoly a).leadingCoeff * ((selBits L bits).map toPoly).prod := by
      rw [hlca, coefAt_degU a ha hca]
    rw [← S.hpe, ← e1]
    exact cand_cong pe pe2 lca L bits
  have hperm : (L.map toPoly).Perm ((selBits L bits).map toPoly ++ (removeBits L bits).map toPoly) := by
    rw [← List.map_append]; exact (selBits_perm L bits).map _
  have hT : ((selBits L bits).map toPoly).length = d := by
    rw [List.length_map, ← countOnes_eq L 64 bits hb h25, hcnt]
  have hst := I.step hperm hT (by rw [List.length_map]; exact hlen) hcong
    (c := (contPP (cand pe pe2 lca L bits)).1) (pp := toPoly pp) (by rw [hpp, c1]) hfac
  rw [hl']
  exact ⟨hst.1, hne', hca', hst.2⟩

/-- an exhausted enumeration: no divisor owns exactly `d` lifted factors -/
theorem step_none (S : Setup P e pe pe2 A) {a : List Int} {L : List Poly} {d : Nat} (ha : a ≠ []) (hca : Canon a)
    (I : Inv P e A (toPoly a) (L.map toPoly) d) (h25 : L.length ≤ 64)
    (h : subsetLoop pe pe2 a (coefAt a (degU a)) L d (2 ^ L.length) 0 = .ok none) :
    Inv P e A (toPoly a) (L.map toPoly) (d + 1) := by
  classical
  apply I.next
  intro h₁ hd hnu hc
  obtain ⟨h', hfac⟩ := hd
  set lca := coefAt a (degU a) with hlca
  have hlca' : lca = (toPoly a).leadingCoeff := coefAt_degU a ha hca
  let p : Poly → Bool := fun G => decide (rd P (toPoly G) ∣ rd P h₁)
  have hfilter : (L.map toPoly).filter (fun G => decide (rd P G ∣ rd P h₁)) = (L.filter p).map toPoly := by
    rw [List.filter_map]; rfl
  have hsel := selBits_maskOf p L
  have hcnt : countOnes 64 (maskOf p L) = d := by
    rw [countOnes_eq L 64 _ (maskOf_lt p L) h25, hsel, ← hc, ← cnt_filter, hfilter, List.length_map]
  obtain ⟨hne, hnone⟩ := subsetLoop_none pe pe2 a lca L d _ _ h (maskOf p L) (Nat.zero_le _)
    (by rw [Nat.zero_add]; exact maskOf_lt p L) hcnt
  -- the true candidate
  obtain ⟨k1, k2⟩ := I.lifted.candidate hfac
  rw [hfilter, ← S.hpe] at k1
  have hcong : PCong pe (toPoly (cand pe pe2 lca L (maskOf p L)))
      (C (toPoly a).leadingCoeff * ((L.filter p).map toPoly).prod) := by
    have e1 : C lca * ((selBits L (maskOf p L)).map toPoly).prod
        = C (toPoly a).leadingCoeff * ((L.filter p).map toPoly).prod := by
      rw [hlca', hsel]
    rw [← e1]
    exact cand_cong pe pe2 lca L (maskOf p L)
  obtain ⟨p1, p2, p3⟩ := S.pe_pos I.lifted.prime
  have hr1 := symres_range pe pe2 p1 p2 p3 _ hne
  obtain ⟨g, hg⟩ := I.dvd
  have hr2 := S.bound g h₁ h' (by rw [hg, hfac]; ring)
  have heq : toPoly (cand pe pe2 lca L (maskOf p L)) = C h'.leadingCoeff * h₁ := by
    apply eq_of_cong_of_range pe (-pe2) _ _ (hcong.trans k1.symm)
    · intro j; have := hr1 j; unfold cand; constructor <;> omega
    · intro j; have := hr2 j; constructor <;> omega
  -- it divides lc(a)·a, so the trial division cannot fail
  obtain ⟨d1, d2, d3⟩ := natDegree_toPoly a ha hca
  have hlc0 : (toPoly a).leadingCoeff ≠ 0 := leadingCoeff_ne_zero.mpr d3
  have halca : toPoly (polyMul a lca) = C (toPoly a).leadingCoeff * toPoly a := by rw [toPoly_polyMul, hlca']
  have halca0 : toPoly (polyMul a lca) ≠ 0 := by
    rw [halca]; exact mul_ne_zero (by rw [Ne, C_eq_zero]; exact hlc0) d3
  have halne : polyMul a lca ≠ [] := by
    intro h0; rw [h0] at halca0; exact halca0 rfl
  have hcne : cand pe pe2 lca L (maskOf p L) ≠ [] := by
    intro h0
    rw [h0] at heq
    obtain ⟨k, hk⟩ := k2
    rw [← heq, ← halca] at hk
    simp only [toPoly, zero_mul] at hk
    exact halca0 hk
  obtain ⟨k, hk⟩ := k2
  obtain ⟨q', hq'⟩ := exists_list k
  obtain ⟨q, hq⟩ := divExact_complete (polyMul a lca) (cand pe pe2 lca L (maskOf p L)) q' halne hcne
    (by unfold polyMul; exact canon_fromRaw _) (canon_symres _ _ _) (by rw [halca, hk, heq, hq']; ring)
  rw [hnone] at hq
  cases hq

/-- **Z3 for the model**: under the invariant, every polynomial that `combine` appends is irreducible -/
theorem combine_irreducible (S : Setup P e pe pe2 A) : ∀ (fuel : Nat) (a : List Int) (L : List Poly) (d : Nat)
    (result out : List Poly), a ≠ [] → Canon a → Inv P e A (toPoly a) (L.map toPoly) d →
    combine pe pe2 fuel a L d result = .ok out →
    ∃ new : List Poly, out = result ++ new ∧ ∀ f ∈ new, Irreducible (toPoly f) := by
  intro fuel
  induction fuel with
  | zero => intro a L d result out _ _ _ h; simp [combine, throw, throwThe, MonadExceptOf.throw] at h
  | succ fuel ih =>
    intro a L d result out ha hca I h
    simp only [combine] at h
    split at h
    · rename_i hlen
      split at h
      · simp [throw, throwThe, MonadExceptOf.throw] at h
      · rename_i h25
        simp only [bind, Except.bind] at h
        split at h
        · cases h
        · rename_i v hv
          split at h
          · rename_i pp a1 l1
            obtain ⟨s1, s2, s3, s4⟩ := step_some S ha hca I hlen (by omega) hv
            obtain ⟨new, hout, hall⟩ := ih a1 l1 d _ out s2 s3 s4 h
            refine ⟨pp :: new, by rw [hout]; simp, ?_⟩
            intro f hf
            rcases List.mem_cons.mp hf with rfl | hf
            · exact s1
            · exact hall f hf
          · exact ih a L (d + 1) result out ha hca (step_none S ha hca I (by omega) hv) h
    · rename_i hlen
      simp only [pure, Except.pure, Except.ok.injEq] at h
      subst h
      refine ⟨[a], rfl, ?_⟩
      intro f hf
      simp only [List.mem_singleton] at hf; subst hf
      exact I.exit (by rw [List.length_map]; omega)

end
end NTV.PolyZ
