import NTV.Proofs.Lemmas.HnfKernel
namespace NTV.Hnf
open Matrix

/-- everything the abstract kernel/independence lemmas need, extracted from `hnfWithU_spec` -/
structure Result (A : Mat) (n m : Nat) (H U : Mat) (k : Nat) (W : Mat) (pv : List Nat) : Prop where
  rW : Rect n m W
  rU : Rect n n U
  hH : H = W.drop k
  hk : k ≤ n
  ua : toM n n U * toM n m A = toM n m W
  det : IsUnit (toM n n U).det
  zero : ∀ r < k, ∀ c < m, ent W r c = 0
  shape : IsHNF H m pv

theorem Result.of_spec (A : Mat) (n m : Nat) (hr : Rect n m A) (hn : 0 < n) (hm : 0 < m)
    (H U : Mat) (k : Nat) (hres : hnfWithU A = some (H, U, k)) : ∃ W pv, Result A n m H U k W pv := by
  obtain ⟨W, pv, h1, h2, h3, h4, h5, h6, h7, h8⟩ := hnfWithU_spec A n m hr hn hm H U k hres
  exact ⟨W, pv, h1, h2, h3, h4, h5, h6, h7, h8⟩

namespace Result
variable {A : Mat} {n m : Nat} {H U : Mat} {k : Nat} {W : Mat} {pv : List Nat}

theorem lenH (R : Result A n m H U k W pv) : H.length = n - k := by
  rw [R.hH, List.length_drop, R.rW.1]

theorem lenPv (R : Result A n m H U k W pv) : pv.length = n - k := by rw [R.shape.len, R.lenH]

theorem hpos (R : Result A n m H U k W pv) :
    ∀ t (ht : t < pv.length), ∀ (hr : k + t < n),
      toM n m W ⟨k + t, hr⟩ ⟨pv[t], R.shape.lt _ (List.getElem_mem ht)⟩ ≠ 0 := by
  intro t ht hr
  have := R.shape.pos t ht
  rw [R.hH, ent_drop] at this
  simp only [toM]; omega

theorem hlast (R : Result A n m H U k W pv) :
    ∀ t (ht : t < pv.length), ∀ (hr : k + t < n), ∀ col : Fin m, pv[t] < col.val →
      toM n m W ⟨k + t, hr⟩ col = 0 := by
  intro t ht hr col hc
  have := R.shape.last t ht col.val hc col.isLt
  rw [R.hH, ent_drop] at this
  simpa [toM] using this

theorem hzero (R : Result A n m H U k W pv) : ∀ r : Fin n, r.val < k → ∀ col, toM n m W r col = 0 := by
  intro r hr col; simp only [toM]; exact R.zero r.val hr col.val col.isLt

/-- rows `k..n-1` of `W` (the rows of `H`) are ℤ-linearly independent -/
theorem indep (R : Result A n m H U k W pv) (c : Fin n → ℤ) (hc : c ᵥ* toM n m W = 0) :
    ∀ r : Fin n, k ≤ r.val → c r = 0 :=
  echelon_indep (toM n m W) k pv R.lenPv R.hk R.shape.incr R.shape.lt R.hpos R.hlast R.hzero c hc

/-- the first `k` rows of `U` annihilate `A` -/
theorem annihilates (R : Result A n m H U k W pv) (r : Fin n) (hr : r.val < k) :
    toM n n U r ᵥ* toM n m A = 0 :=
  kernel_rows_abs (toM n n U) (toM n m A) (toM n m W) R.ua k R.hzero r hr

/-- every integer solution of `u·A = 0` is an integer combination of the first `k` rows of `U` -/
theorem saturated (R : Result A n m H U k W pv) (u : Fin n → ℤ) (hu : u ᵥ* toM n m A = 0) :
    ∃ c : Fin n → ℤ, (∀ r : Fin n, k ≤ r.val → c r = 0) ∧ c ᵥ* toM n n U = u :=
  kernel_saturated_abs (toM n n U) (toM n m A) (toM n m W) R.det R.ua k pv R.lenPv R.hk
    R.shape.incr R.shape.lt R.hpos R.hlast R.hzero u hu

/-- the rows of `U` are independent (unimodular) -/
theorem U_indep (R : Result A n m H U k W pv) (c : Fin n → ℤ) (hc : c ᵥ* toM n n U = 0) : c = 0 := by
  have h := congrArg (fun v => v ᵥ* (toM n n U)⁻¹) hc
  simp only [Matrix.vecMul_vecMul, Matrix.mul_nonsing_inv _ R.det, Matrix.vecMul_one, Matrix.zero_vecMul] at h
  exact h

/-- same row lattice: every integer combination of rows of `A` is one of the rows `k..` of `W`, and conversely -/
theorem span_eq (R : Result A n m H U k W pv) (v : Fin m → ℤ) :
    (∃ c : Fin n → ℤ, c ᵥ* toM n m A = v) ↔
    (∃ d : Fin n → ℤ, (∀ r : Fin n, r.val < k → d r = 0) ∧ d ᵥ* toM n m W = v) := by
  constructor
  · rintro ⟨c, rfl⟩
    -- d' = c * U⁻¹, then zero out the first k coordinates (the rows vanish)
    let d' := c ᵥ* (toM n n U)⁻¹
    have hd' : d' ᵥ* toM n m W = c ᵥ* toM n m A := by
      rw [← R.ua, Matrix.vecMul_vecMul, ← Matrix.mul_assoc, Matrix.nonsing_inv_mul _ R.det, Matrix.one_mul]
    refine ⟨fun r => if r.val < k then 0 else d' r, fun r hr => by simp [hr], ?_⟩
    rw [← hd']
    ext col
    simp only [Matrix.vecMul, dotProduct]
    apply Finset.sum_congr rfl
    intro r _
    by_cases hr : r.val < k
    · simp [hr, R.hzero r hr col]
    · simp [hr]
  · rintro ⟨d, _, rfl⟩
    exact ⟨d ᵥ* toM n n U, by rw [Matrix.vecMul_vecMul, R.ua]⟩

end Result
end NTV.Hnf
