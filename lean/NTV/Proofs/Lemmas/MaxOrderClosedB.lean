import NTV.Proofs.Lemmas.Round2RingP
/-! # The stored basis of an order containing 1 has first row (1, 0, …, 0).

A stored order (`fromBasis o = .ok o`) is `(1/L)·H` with `H` a Hermite normal form: lower triangular with positive
diagonal. If 1 is in the module then `1 = c_0·ω_0`, `ω_0 = 1/c_0`; if moreover the module is closed under
multiplication then `ω_0² = 1/c_0²` is an integral multiple of `ω_0`, so `c_0 = 1`. -/
open Matrix Finset Polynomial
namespace NTV.MaxOrd
open NTV.Ord NTV.PolyG NTV.Round2
open NTV.TableAbs (Ctx psi castV)
open NTV.RowOps (toM Rect ent)

/-- the normal form of a non-singular square matrix is lower triangular with positive diagonal -/
theorem hnf_lower (A : NTV.Ord.IMat) (n : Nat) (hr : NTV.Hnf.Rect n n A) (hn : 0 < n)
    (hdet : (NTV.Hnf.toM n n A).det ≠ 0) (H : NTV.Ord.IMat) (h : NTV.Hnf.hnfNew A = some H) :
    NTV.Hnf.Rect n n H ∧ (∀ i j : Fin n, i.val < j.val → NTV.Hnf.toM n n H i j = 0) ∧
      ∀ i : Fin n, 0 < NTV.Hnf.toM n n H i i := by
  unfold NTV.Hnf.hnfNew at h
  cases hw : NTV.Hnf.hnfWithU A with
  | none => rw [hw] at h; cases h
  | some res =>
    obtain ⟨H', U, k⟩ := res
    rw [hw] at h
    simp only [Option.map_some, Option.some.injEq] at h
    subst h
    obtain ⟨W, pv, R⟩ := NTV.Hnf.Result.of_spec A n n hr hn hn H' U k hw
    have hdetW : (NTV.Hnf.toM n n W).det ≠ 0 := by
      rw [← R.ua, Matrix.det_mul]
      exact mul_ne_zero (R.det.ne_zero) hdet
    have hk : k = 0 := by
      by_contra hk0
      have hkpos : 0 < k := Nat.pos_of_ne_zero hk0
      apply hdetW
      apply Matrix.det_eq_zero_of_row_eq_zero ⟨0, hn⟩
      intro j
      exact R.zero 0 hkpos j j.isLt
    subst hk
    have hHW : H' = W := by rw [R.hH]; simp
    have hrH : NTV.Hnf.Rect n n H' := by rw [hHW]; exact R.rW
    refine ⟨hrH, ?_, ?_⟩
    all_goals
      have hpvlen : pv.length = n := by rw [R.lenPv]; omega
      have hpv := NTV.Hnf.pairwise_lt_eq_id pv n hpvlen R.shape.incr R.shape.lt
    · intro i j hij
      have hi : i.val < pv.length := by rw [hpvlen]; exact i.isLt
      have := R.shape.last i.val hi j.val (by rw [hpv i.val hi]; exact hij) j.isLt
      simpa [NTV.Hnf.toM] using this
    · intro i
      have hi : i.val < pv.length := by rw [hpvlen]; exact i.isLt
      have := R.shape.pos i.val hi
      rw [hpv i.val hi] at this
      simpa [NTV.Hnf.toM] using this

/-- a non-singular stored order is lower triangular with positive diagonal -/
theorem stored_lower (o : QMat) (n : Nat) (hn : 0 < n) (ho : Rect n n o) (hdet : (toM n n o).det ≠ 0)
    (hst : fromBasis o = .ok o) :
    (∀ i j : Fin n, i.val < j.val → toM n n o i j = 0) ∧ ∀ i : Fin n, 0 < toM n n o i i := by
  have hLpos : 0 < lcmDen o 1 := lcmDen_pos o 1 one_pos
  have hL0 : lcmDen o 1 ≠ 0 := by omega
  have hLq : (0 : ℚ) < ((lcmDen o 1 : Int) : Rat) := by exact_mod_cast hLpos
  have hsc : scaled o n = scaledBy (lcmDen o 1) o n := rfl
  have hdS := scaledBy_det_ne (lcmDen o 1) o n ho (lcmDen_spec o 1).2.1 hL0 hdet
  unfold fromBasis at hst
  rw [hnfReduce_unfold o n ho, hsc] at hst
  cases hH : NTV.Hnf.hnfNew (scaledBy (lcmDen o 1) o n) with
  | none => rw [hH] at hst; cases hst
  | some H =>
    rw [hH] at hst
    simp only at hst
    obtain ⟨rH, hlow, hdiag⟩ := hnf_lower _ n (scaledBy_rect _ o n) hn hdS H hH
    rw [unscale_ok n _ H rH] at hst
    have ho' : unscaled n (lcmDen o 1) H = o := by
      injection hst
    rw [← ho', unscaled_toM]
    constructor
    · intro i j hij
      simp [Matrix.smul_apply, hlow i j hij]
    · intro i
      simp only [Matrix.smul_apply, Matrix.map_apply, smul_eq_mul, Int.coe_castRingHom]
      apply mul_pos (inv_pos.mpr hLq)
      exact_mod_cast hdiag i

/-- in a lower triangular matrix with positive diagonal, a combination of the rows equal to `e_0` uses row 0 only -/
theorem comb_lower {n : Nat} (hn : 0 < n) (M : Matrix (Fin n) (Fin n) ℚ)
    (hlow : ∀ i j : Fin n, i.val < j.val → M i j = 0) (hdiag : ∀ i : Fin n, 0 < M i i) (c : Fin n → ℚ)
    (hc : c ᵥ* M = fun j => if j.val = 0 then 1 else 0) :
    (∀ k : Fin n, 0 < k.val → c k = 0) ∧ c ⟨0, hn⟩ * M ⟨0, hn⟩ ⟨0, hn⟩ = 1 := by
  have key : ∀ d : Nat, ∀ k : Fin n, n - k.val ≤ d → 0 < k.val → c k = 0 := by
    intro d
    induction d with
    | zero => intro k hk _; have := k.isLt; omega
    | succ d ih =>
      intro k hk hk0
      have h1 := congrFun hc k
      simp only [Matrix.vecMul, dotProduct] at h1
      rw [if_neg (by omega), Finset.sum_eq_single k] at h1
      · rcases mul_eq_zero.mp h1 with h | h
        · exact h
        · exact absurd h (hdiag k).ne'
      · intro i _ hik
        rcases Nat.lt_or_ge i.val k.val with hlt | hge
        · rw [hlow i k hlt, mul_zero]
        · have hne : i.val ≠ k.val := fun e => hik (Fin.ext e)
          rw [ih i (by have := i.isLt; omega) (by omega), zero_mul]
      · intro h; exact absurd (Finset.mem_univ _) h
  refine ⟨fun k hk => key n k (by omega) hk, ?_⟩
  have h1 := congrFun hc ⟨0, hn⟩
  simp only [Matrix.vecMul, dotProduct] at h1
  rw [if_pos trivial, Finset.sum_eq_single ⟨0, hn⟩] at h1
  · exact h1
  · intro i _ hi0
    have : 0 < i.val := by
      rcases Nat.eq_zero_or_pos i.val with h | h
      · exact absurd (Fin.ext h) hi0
      · exact h
    rw [key n i (by omega) this, zero_mul]
  · intro h; exact absurd (Finset.mem_univ _) h

variable {f : List Int} {o : QMat} {n : Nat}

/-- a row `(a, 0, …, 0)` is the constant `a` -/
theorem toPoly_row_const (ho : Rect n n o) (i : Fin n) (hn : 0 < n)
    (hz : ∀ j : Fin n, 0 < j.val → toM n n o i j = 0) :
    toPoly (o.getD i []) = C (toM n n o i ⟨0, hn⟩) := by
  ext c
  rw [coeff_toPoly, coeff_C]
  by_cases hc : c < n
  · by_cases hc0 : c = 0
    · subst hc0; simp [toM, ent]
    · rw [if_neg hc0]
      exact hz ⟨c, hc⟩ (Nat.pos_of_ne_zero hc0)
  · have hc0 : c ≠ 0 := by omega
    rw [if_neg hc0]
    exact getD_of_length_le _ c (by rw [ho.row_length i i.2]; omega)

/-- **the first basis vector of a good order is 1** -/
theorem _root_.NTV.Round2.GoodOrder.first_entry (g : GoodOrder f n o) :
    toM n n o ⟨0, g.setup.pos⟩ ⟨0, g.setup.pos⟩ = 1 ∧
      ∀ j : Fin n, 0 < j.val → toM n n o ⟨0, g.setup.pos⟩ j = 0 := by
  classical
  have hn : 0 < n := g.setup.pos
  obtain ⟨hlow, hdiag⟩ := stored_lower o n hn g.setup.rect g.setup.det g.stored
  obtain ⟨c, hc⟩ := g.one
  obtain ⟨_, h00⟩ := comb_lower hn _ hlow hdiag _ hc
  have hz : ∀ j : Fin n, 0 < j.val → toM n n o ⟨0, hn⟩ j = 0 := fun j hj => hlow ⟨0, hn⟩ j hj
  refine ⟨?_, hz⟩
  set a : ℚ := toM n n o ⟨0, hn⟩ ⟨0, hn⟩ with ha
  obtain ⟨_, hC⟩ := g.setup.ctx_of_closed g.closed
  -- ω_0 is the constant a
  have hΩ : omegaK f o n ⟨0, hn⟩ = qK f a := by
    unfold omegaK
    rw [toPoly_row_const g.setup.rect ⟨0, hn⟩ hn hz]
    rfl
  -- ω_0² = a·ω_0 has integral coordinates
  have h1 := hC.table ⟨0, hn⟩ ⟨0, hn⟩
  have h2 : omegaK f o n ⟨0, hn⟩ * omegaK f o n ⟨0, hn⟩ =
      psi (qK f) (omegaK f o n) (a • (Pi.single (⟨0, hn⟩ : Fin n) (1 : ℚ))) := by
    rw [NTV.TableAbs.psi_smul, NTV.TableAbs.psi_single, ← hΩ]
  have h3 : (a • (Pi.single (⟨0, hn⟩ : Fin n) (1 : ℚ))) =
      fun k => ((tabT (tableOf f o n) n ⟨0, hn⟩ ⟨0, hn⟩ k : ℤ) : ℚ) := by
    apply hC.inj
    rw [← h2, h1]
    rfl
  have h4 := congrFun h3 ⟨0, hn⟩
  simp only [Pi.smul_apply, Pi.single_eq_same, smul_eq_mul, mul_one] at h4
  -- c_0 · a = 1 with a a positive integer
  set z : ℤ := tabT (tableOf f o n) n ⟨0, hn⟩ ⟨0, hn⟩ ⟨0, hn⟩ with hzdef
  have hpos : 0 < a := hdiag ⟨0, hn⟩
  have hzpos : 0 < z := by
    have : (0 : ℚ) < (z : ℚ) := by rw [← h4]; exact hpos
    exact_mod_cast this
  have hcz : c ⟨0, hn⟩ * z = 1 := by
    have : ((c ⟨0, hn⟩ : ℤ) : ℚ) * (z : ℚ) = 1 := by rw [← h4]; exact h00
    exact_mod_cast this
  have hz1 : z = 1 := by
    have hdvd : z ∣ 1 := ⟨c ⟨0, hn⟩, by rw [mul_comm]; exact hcz.symm⟩
    have := Int.le_of_dvd one_pos hdvd
    omega
  rw [h4, hz1]; simp

theorem getElem_eq_getD0 (l : List ℚ) (j : Nat) (h : j < l.length) : l[j] = l.getD j 0 := by
  simp [List.getD_eq_getElem?_getD, h]

/-- **the stored basis of a good order has first row (1, 0, …, 0)** -/
theorem _root_.NTV.Round2.GoodOrder.first_row (g : GoodOrder f n o) : o.getD 0 [] = 1 :: List.replicate (n - 1) 0 := by
  have hn : 0 < n := g.setup.pos
  obtain ⟨h0, hz⟩ := g.first_entry
  have hlen := g.setup.rect.row_length 0 hn
  apply List.ext_getElem
  · rw [hlen]; simp; omega
  · intro j h1 h2
    have hj : j < n := by rw [← hlen]; exact h1
    have e : (o.getD 0 [])[j] = toM n n o ⟨0, hn⟩ ⟨j, hj⟩ := by
      show (o.getD 0 [])[j] = (o.getD 0 []).getD j 0
      exact getElem_eq_getD0 _ j h1
    rw [e]
    cases j with
    | zero => simpa using h0
    | succ j =>
      rw [hz ⟨j + 1, hj⟩ (by simp)]
      simp

end NTV.MaxOrd
