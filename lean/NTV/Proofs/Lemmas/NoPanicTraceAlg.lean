import Mathlib.FieldTheory.Finite.Trace
import Mathlib.FieldTheory.Finite.Extension
import Mathlib.RingTheory.AdjoinRoot
import Mathlib.Algebra.CharP.Lemmas
import Mathlib.Algebra.Squarefree.Basic
import Mathlib.RingTheory.PrincipalIdealDomain
import Mathlib.Tactic
/-! The algebra behind `final_split_2` (equal-degree splitting over 𝔽₂ with the trace map; no model here).

`S d u = Σ_{i<d} u^(2^i)`. For a squarefree `P ∈ 𝔽₂[X]` all of whose irreducible factors have degree `d` and
which is not irreducible, the trace map `u ↦ S d u mod P` is not "trivial" (≡ 0 or ≡ 1 modulo P) on all odd
powers `X^m`, `m < deg P`: some `gcd(P, S d (X^m))` with `m` odd, `m < deg P`, is a proper factor. -/
open Polynomial
namespace NTV.TraceAlg

/-- the trace polynomial Σ_{i<d} u^(2^i) -/
noncomputable def S (d : ℕ) (u : (ZMod 2)[X]) : (ZMod 2)[X] := ∑ i ∈ Finset.range d, u ^ (2 ^ i)

theorem S_add (d : ℕ) (u v : (ZMod 2)[X]) : S d (u + v) = S d u + S d v := by
  unfold S
  rw [← Finset.sum_add_distrib]
  apply Finset.sum_congr rfl
  intro i _
  exact add_pow_char_pow u v 2 i

theorem S_sq (d : ℕ) (u : (ZMod 2)[X]) : S d (u ^ 2) = S d u ^ 2 := by
  unfold S
  have := sum_pow_char_pow (R := (ZMod 2)[X]) (p := 2) (n := 1) (Finset.range d) (fun i => u ^ (2 ^ i))
  rw [pow_one] at this
  rw [this]
  apply Finset.sum_congr rfl
  intro i _
  rw [← pow_mul, ← pow_mul, mul_comm]

theorem S_zero (d : ℕ) : S d 0 = 0 := by
  unfold S
  apply Finset.sum_eq_zero
  intro i _
  exact zero_pow (by positivity)

theorem S_one (d : ℕ) : S d 1 = (d : (ZMod 2)[X]) := by
  unfold S
  simp

theorem dvd_S_of_dvd {q u : (ZMod 2)[X]} (d : ℕ) (h : q ∣ u) : q ∣ S d u := by
  unfold S
  apply Finset.dvd_sum
  intro i _
  exact h.trans (dvd_pow_self u (by positivity))

theorem S_congr {P u v : (ZMod 2)[X]} (d : ℕ) (h : P ∣ u - v) : P ∣ S d u - S d v := by
  unfold S
  rw [← Finset.sum_sub_distrib]
  apply Finset.dvd_sum
  intro i _
  exact h.trans (sub_dvd_pow_sub_pow u v _)

theorem one_add_one_poly : (1 : (ZMod 2)[X]) + 1 = 0 := by
  have : (2 : (ZMod 2)[X]) = 0 := by
    have h : ((2 : ℕ) : (ZMod 2)[X]) = 0 := CharP.cast_eq_zero _ 2
    exact_mod_cast h
  rw [one_add_one_eq_two, this]

/-- an irreducible q of degree d: the trace is 0 or 1 modulo q, and it is not identically 0 -/
theorem irreducible_trace {q : (ZMod 2)[X]} (hq : Irreducible q) :
    (∀ u, q ∣ S q.natDegree u ∨ q ∣ S q.natDegree u + 1) ∧ ∃ w, ¬ q ∣ S q.natDegree w := by
  have : Fact (Irreducible q) := ⟨hq⟩
  have hfin : Module.finrank (ZMod 2) (AdjoinRoot q) = q.natDegree := finrank_quotient_span_eq_natDegree
  have : Module.Finite (ZMod 2) (AdjoinRoot q) := by
    apply Module.finite_of_finrank_pos
    rw [hfin]; exact hq.natDegree_pos
  have : Finite (AdjoinRoot q) := Module.finite_of_finite (ZMod 2)
  have hcard : Nat.card (ZMod 2) = 2 := by simp
  have key : ∀ u : (ZMod 2)[X], AdjoinRoot.mk q (S q.natDegree u) =
      algebraMap (ZMod 2) (AdjoinRoot q) (Algebra.trace (ZMod 2) (AdjoinRoot q) (AdjoinRoot.mk q u)) := by
    intro u
    rw [FiniteField.algebraMap_trace_eq_sum_pow, hfin, hcard]
    unfold S
    rw [map_sum]
    apply Finset.sum_congr rfl
    intro i _
    rw [map_pow]
  constructor
  · intro u
    have h01 : ∀ t : ZMod 2, t = 0 ∨ t = 1 := by decide
    rcases h01 (Algebra.trace (ZMod 2) (AdjoinRoot q) (AdjoinRoot.mk q u)) with h | h
    · left
      rw [← AdjoinRoot.mk_eq_zero, key u, h, map_zero]
    · right
      rw [← AdjoinRoot.mk_eq_zero, map_add, key u, h, map_one, map_one]
      have := congrArg (AdjoinRoot.mk q) one_add_one_poly
      rwa [map_add, map_one, map_zero] at this
  · obtain ⟨a, ha⟩ := Algebra.trace_surjective (ZMod 2) (AdjoinRoot q) 1
    obtain ⟨w, rfl⟩ := AdjoinRoot.mk_surjective a
    refine ⟨w, ?_⟩
    rw [← AdjoinRoot.mk_eq_zero, key w, ha, map_one]
    exact one_ne_zero

/-- a squarefree polynomial divides everything its irreducible factors divide -/
theorem dvd_of_irreducible_factors (P : (ZMod 2)[X]) : ∀ Y : (ZMod 2)[X], P ≠ 0 → Squarefree P →
    (∀ q, Irreducible q → q ∣ P → q ∣ Y) → P ∣ Y := by
  induction P using WfDvdMonoid.induction_on_irreducible with
  | zero => intro Y h; exact absurd rfl h
  | unit u hu => intro Y _ _ _; exact hu.dvd
  | mul a i ha hi ih =>
    intro Y _ hsq h
    have hia : ¬ i ∣ a := by
      intro hd
      obtain ⟨c, rfl⟩ := hd
      exact hi.not_isUnit (hsq i ⟨c, by ring⟩)
    have hcop : IsCoprime i a := (hi.coprime_iff_not_dvd).mpr hia
    apply hcop.mul_dvd (h i hi (dvd_mul_right i a))
    exact ih Y ha (hsq.squarefree_of_dvd (dvd_mul_left a i))
      (fun q hq hqa => h q hq (hqa.trans (dvd_mul_left a i)))

section main
variable (d : ℕ) (P : (ZMod 2)[X])

/-- the trace of u is constant modulo P -/
def Triv (u : (ZMod 2)[X]) : Prop := P ∣ S d u ∨ P ∣ S d u + 1

theorem Triv.add {u v : (ZMod 2)[X]} (hu : Triv d P u) (hv : Triv d P v) : Triv d P (u + v) := by
  unfold Triv at *
  rw [S_add]
  rcases hu with hu | hu <;> rcases hv with hv | hv
  · left; exact dvd_add hu hv
  · right; rw [add_assoc]; exact dvd_add hu hv
  · right
    have : S d u + S d v + 1 = (S d u + 1) + S d v := by ring
    rw [this]; exact dvd_add hu hv
  · left
    have : S d u + S d v = (S d u + 1) + (S d v + 1) - (1 + 1) := by ring
    rw [this, one_add_one_poly, sub_zero]; exact dvd_add hu hv

theorem Triv.sq {u : (ZMod 2)[X]} (hu : Triv d P u) : Triv d P (u ^ 2) := by
  unfold Triv at *
  rw [S_sq]
  rcases hu with hu | hu
  · left; exact hu.trans (dvd_pow_self _ two_ne_zero)
  · right
    have : S d u ^ 2 + 1 = (S d u + 1) ^ 2 - (1 + 1) * S d u := by ring
    rw [this, one_add_one_poly, zero_mul, sub_zero]
    exact hu.trans (dvd_pow_self _ two_ne_zero)

theorem Triv.zero : Triv d P 0 := by left; rw [S_zero]; exact dvd_zero P

theorem Triv.one : Triv d P 1 := by
  unfold Triv
  rw [S_one]
  rcases Nat.even_or_odd d with ⟨k, hk⟩ | ⟨k, hk⟩
  · left
    have : ((d : ℕ) : (ZMod 2)[X]) = 0 := by
      rw [hk, ← two_mul, Nat.cast_mul]
      have h : ((2 : ℕ) : (ZMod 2)[X]) = 0 := CharP.cast_eq_zero _ 2
      rw [h, zero_mul]
    rw [this]; exact dvd_zero P
  · right
    have : ((d : ℕ) : (ZMod 2)[X]) + 1 = 0 := by
      rw [hk, Nat.cast_add, Nat.cast_mul, Nat.cast_one]
      have h : ((2 : ℕ) : (ZMod 2)[X]) = 0 := CharP.cast_eq_zero _ 2
      rw [h, zero_mul, zero_add, one_add_one_poly]
    rw [this]; exact dvd_zero P

theorem Triv.congr {u v : (ZMod 2)[X]} (h : P ∣ u - v) (hv : Triv d P v) : Triv d P u := by
  unfold Triv at *
  have hc := S_congr d h
  rcases hv with hv | hv
  · left
    have : S d u = (S d u - S d v) + S d v := by ring
    rw [this]; exact dvd_add hc hv
  · right
    have : S d u + 1 = (S d u - S d v) + (S d v + 1) := by ring
    rw [this]; exact dvd_add hc hv

/-- if the trace is trivial on the odd powers below `n`, it is trivial on all powers below `n` -/
theorem triv_pow_of_odd (n : ℕ) (hodd : ∀ m, m < n → m % 2 = 1 → Triv d P (X ^ m)) :
    ∀ m, m < n → Triv d P (X ^ m) := by
  intro m
  induction m using Nat.strong_induction_on with
  | _ m ih =>
    intro hm
    rcases Nat.even_or_odd m with ⟨k, hk⟩ | ⟨k, hk⟩
    · by_cases hk0 : k = 0
      · subst hk0
        simp only [add_zero] at hk
        subst hk
        rw [pow_zero]; exact Triv.one d P
      · have := ih k (by omega) (by omega)
        have h2 := this.sq
        rwa [← pow_mul, show k * 2 = m by omega] at h2
    · exact hodd m hm (by omega)

/-- … hence on every polynomial of degree < n -/
theorem triv_of_degree_lt (n : ℕ) (hpow : ∀ m, m < n → Triv d P (X ^ m)) :
    ∀ u : (ZMod 2)[X], u.degree < n → Triv d P u := by
  intro u hu
  by_cases h0 : u = 0
  · rw [h0]; exact Triv.zero d P
  have hnd : u.natDegree < n := (Polynomial.natDegree_lt_iff_degree_lt h0).mpr hu
  rw [u.as_sum_range' n hnd]
  apply Finset.sum_induction _ (Triv d P) (fun a b ha hb => ha.add d P hb) (Triv.zero d P)
  intro i hi
  rw [Finset.mem_range] at hi
  have h01 : ∀ t : ZMod 2, t = 0 ∨ t = 1 := by decide
  rcases h01 (u.coeff i) with h | h
  · rw [h, map_zero]; exact Triv.zero d P
  · rw [h, monomial_one_right_eq_X_pow]; exact hpow i hi

end main

/-- **the trace map splits**: P squarefree, not zero, all irreducible factors of degree d, at least two
of them (deg P ≥ 2d in the form `¬ Irreducible`-free: two non-associated irreducible factors q₁ q₂ with
P = q₁·Q, q₂ ∣ Q): the trace cannot be trivial on all odd powers of X below deg P -/
theorem exists_odd_split (d : ℕ) (P : (ZMod 2)[X]) (hP0 : P ≠ 0) (hsq : Squarefree P)
    (hdeg : ∀ q, Irreducible q → q ∣ P → q.natDegree = d) (h2 : 2 * d ≤ P.natDegree) (hd : 1 ≤ d) :
    ¬ ∀ m, m < P.natDegree → m % 2 = 1 → Triv d P (X ^ m) := by
  intro hodd
  have hpow := triv_pow_of_odd d P P.natDegree hodd
  have hlow := triv_of_degree_lt d P P.natDegree hpow
  -- every u is congruent to its remainder modulo P
  have hall : ∀ u : (ZMod 2)[X], Triv d P u := by
    intro u
    apply Triv.congr d P (v := u % P)
    · exact ⟨u / P, by rw [EuclideanDomain.mod_eq_sub_mul_div]; ring⟩
    · apply hlow
      have := Polynomial.degree_mod_lt u hP0 |>.trans_le (le_of_eq (Polynomial.degree_eq_natDegree hP0))
      exact this
  -- two irreducible factors
  have hnu : ¬ IsUnit P := by
    intro hu
    have := natDegree_eq_zero_of_isUnit hu
    omega
  obtain ⟨q1, hq1, Q, hPQ⟩ := WfDvdMonoid.exists_irreducible_factor hnu hP0
  have hQ0 : Q ≠ 0 := by rintro rfl; rw [mul_zero] at hPQ; exact hP0 hPQ
  have hq1d : q1.natDegree = d := hdeg q1 hq1 ⟨Q, hPQ⟩
  have hQnu : ¬ IsUnit Q := by
    intro hu
    have h1 := natDegree_mul hq1.ne_zero hQ0
    rw [← hPQ, natDegree_eq_zero_of_isUnit hu, hq1d] at h1
    omega
  obtain ⟨q2, hq2, hq2Q⟩ := WfDvdMonoid.exists_irreducible_factor hQnu hQ0
  have hq2Q' : q2 ∣ Q := hq2Q
  have hq1Q : ¬ q1 ∣ Q := by
    intro hdv
    obtain ⟨c, rfl⟩ := hdv
    exact hq1.not_isUnit (hsq q1 ⟨c, by rw [hPQ]; ring⟩)
  obtain ⟨a, b, hab⟩ := (hq1.coprime_iff_not_dvd).mpr hq1Q
  -- the witness
  have htr := irreducible_trace hq1
  rw [hq1d] at htr
  obtain ⟨w, hw⟩ := htr.2
  set u := Q * (b * w) with hu
  have hcong : q1 ∣ u - w := by
    refine ⟨-(a * w), ?_⟩
    have : u - w = (b * Q - 1) * w := by rw [hu]; ring
    rw [this, ← hab]; ring
  have h1 : ¬ q1 ∣ S d u := by
    intro hdv
    apply hw
    have := S_congr d hcong
    have e : S d w = S d u - (S d u - S d w) := by ring
    rw [e]; exact dvd_sub hdv this
  have h2' : q2 ∣ S d u := dvd_S_of_dvd d (hq2Q'.trans (dvd_mul_right Q _))
  rcases hall u with h | h
  · exact h1 (Dvd.dvd.trans ⟨Q, hPQ⟩ h)
  · have hq2P : q2 ∣ P := hq2Q'.trans ⟨q1, by rw [hPQ]; ring⟩
    have : q2 ∣ 1 := by
      have e : (1 : (ZMod 2)[X]) = (S d u + 1) - S d u := by ring
      rw [e]; exact dvd_sub (hq2P.trans h) h2'
    exact hq2.not_isUnit (isUnit_of_dvd_one this)

/-- the closed form of the iteration `c ← c² + t` started at `t` -/
theorem iterate_eq_S (t : (ZMod 2)[X]) : ∀ k : ℕ, (fun y => y ^ 2 + t)^[k] t = S (k + 1) t := by
  intro k
  induction k with
  | zero => simp [S]
  | succ k ih =>
    rw [Function.iterate_succ_apply', ih]
    unfold S
    have := sum_pow_char_pow (R := (ZMod 2)[X]) (p := 2) (n := 1) (Finset.range (k + 1)) (fun i => t ^ (2 ^ i))
    rw [pow_one] at this
    rw [this, Finset.sum_range_succ' _ (k + 1)]
    simp only [pow_zero, pow_one]
    congr 1
    apply Finset.sum_congr rfl
    intro i _
    rw [← pow_mul, pow_succ]

end NTV.TraceAlg
