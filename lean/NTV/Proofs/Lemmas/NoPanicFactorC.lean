import NTV.Proofs.Lemmas.NoPanicFactorB
import NTV.Proofs.Lemmas.NoPanicTraceAlg
/-! Panic-freedom of `factorize_mod_p`, part C: `final_split_2` (p = 2) is TOTAL — the fuel |poly|² + 8 of the
model is never exhausted, because the trace map splits a squarefree product of ≥ 2 irreducibles of degree d
at some odd power X^m with m < deg — and the assembly: on legal input the only failure of
`factorize_mod_p` is `inconclusive stream`. -/
open Polynomial
namespace NTV.PolyMod
open NTV.PolyG NTV.Hensel NTV.TraceAlg

/-! ### the trace iteration of the model -/

theorem traceIter_spec (poly t : Poly) (hpoly : GoodNZ 2 poly) : ∀ (n : Nat) (c : Poly), Good 2 c →
    qm 2 (mp 2 poly) (mp 2 (traceIter poly t n c)) =
      (fun y => y ^ 2 + qm 2 (mp 2 poly) (mp 2 t))^[n] (qm 2 (mp 2 poly) (mp 2 c)) := by
  intro n
  induction n with
  | zero => intro c _; rfl
  | succ n ih =>
    intro c hc
    simp only [traceIter]
    obtain ⟨r1, r2⟩ := rem_spec 2 (polyMod (add (mul c c) t) 2) poly (good_polyMod 2 (by norm_num) _) hpoly
    simp only [Nat.cast_ofNat] at r1 r2
    rw [ih _ r2, Function.iterate_succ_apply]
    congr 1
    have e := mp_polyMod 2 (add (mul c c) t)
    simp only [Nat.cast_ofNat] at e
    rw [r1, e, mp_add, mp_mul, map_add, map_mul, pow_two]

theorem qm_iterate (P t : (ZMod 2)[X]) (u : (ZMod 2)[X]) : ∀ k : ℕ,
    (fun y => y ^ 2 + qm 2 P t)^[k] (qm 2 P u) = qm 2 P ((fun y => y ^ 2 + t)^[k] u) := by
  intro k
  induction k with
  | zero => rfl
  | succ k ih =>
    rw [Function.iterate_succ_apply', Function.iterate_succ_apply', ih, map_add, map_pow]

/-- the polynomial `c` of `final_split_2` is the trace Σ_{i<d} t^(2^i) modulo poly -/
theorem traceIter_trace (poly t : Poly) (d : Nat) (hd : 1 ≤ d) (hpoly : GoodNZ 2 poly) (ht : Good 2 t) :
    mp 2 poly ∣ mp 2 (traceIter poly t (d - 1) t) - S d (mp 2 t) := by
  rw [← qm_eq_iff, traceIter_spec poly t hpoly (d - 1) t ht, qm_iterate, iterate_eq_S,
    show d - 1 + 1 = d by omega]

/-! ### squarefreeness -/

theorem squarefree_of_sqF {P : (ZMod 2)[X]} (hP0 : P ≠ 0) (h : SqF 2 P) : Squarefree P := by
  rw [squarefree_iff_no_irreducibles hP0]
  intro q hq hd
  rw [← pow_two] at hd
  exact h q hq hd

/-! ### the loop -/

/-- the trace is trivial on the odd powers X^m with m < 2j + 1 (the rounds already tried) -/
def NoSplitBelow (d : Nat) (P : (ZMod 2)[X]) (j : Nat) : Prop :=
  ∀ m, m < 2 * j + 1 → m % 2 = 1 → Triv d P (X ^ m)

theorem NoSplitBelow.zero (d : Nat) (P : (ZMod 2)[X]) : NoSplitBelow d P 0 := by
  intro m hm hodd; omega

theorem NoSplitBelow.succ {d : Nat} {P : (ZMod 2)[X]} {j : Nat} (h : NoSplitBelow d P j)
    (ht : Triv d P (X ^ (2 * j + 1))) : NoSplitBelow d P (j + 1) := by
  intro m hm hodd
  by_cases hlt : m < 2 * j + 1
  · exact h m hlt hodd
  · have : m = 2 * j + 1 := by omega
    rw [this]; exact ht

/-- a `continue` of `final_split_2` means that the trace of t is trivial modulo poly -/
theorem triv_of_continue {d : Nat} {poly t b : Poly} (hpoly : EqDeg 2 d poly) (hsq : SqF 2 (mp 2 poly))
    (ht : Good 2 t) (hg : IsGcd (mp 2 b) (mp 2 poly) (mp 2 (traceIter poly t (d - 1) t))) (hb : GoodNZ 2 b)
    (hcont : degU b = 0 ∨ degU b = degU poly) : Triv d (mp 2 poly) (mp 2 t) := by
  have hd := hpoly.d_pos 2
  have hP0 := GoodNZ.mp_ne_zero 2 hpoly.1
  have htr := traceIter_trace poly t d hd hpoly.1 ht
  set P := mp 2 poly with hP
  set C := mp 2 (traceIter poly t (d - 1) t) with hC
  rcases hcont with h0 | h1
  · -- coprime: every irreducible factor of P divides the trace + 1
    right
    have hu : IsUnit (mp 2 b) := isUnit_mp_of_degU_zero 2 hb h0
    apply dvd_of_irreducible_factors P _ hP0 (squarefree_of_sqF hP0 hsq)
    intro q hq hqP
    have hqd := hpoly.2.2 q hq hqP
    have htq := (irreducible_trace hq).1 (mp 2 t)
    rw [hqd] at htq
    rcases htq with h | h
    · exfalso
      have hqC : q ∣ C := by
        have e : C = (C - S d (mp 2 t)) + S d (mp 2 t) := by ring
        rw [e]; exact dvd_add (hqP.trans htr) h
      exact hq.not_isUnit (isUnit_of_dvd_unit (hg.2.2 q hqP hqC) hu)
    · exact h
  · -- gcd = P: P divides the trace
    left
    have hnd : (mp 2 poly).natDegree ≤ (mp 2 b).natDegree := by
      rw [← degU_eq_natDegree 2 b hb.1 hb.2, ← degU_eq_natDegree 2 poly hpoly.1.1 hpoly.1.2, h1]
    have hass := associated_of_dvd_of_natDegree_le hg.1 hP0 hnd
    have hPC : P ∣ C := hass.symm.dvd.trans hg.2.1
    have e : S d (mp 2 t) = C - (C - S d (mp 2 t)) := by ring
    rw [e]; exact dvd_sub hPC htr

theorem mp_x2 : mp 2 [0, 0, 1] = X ^ 2 := by
  simp [mp, toPoly]; ring

/-- **`final_split_2` is total**: on a squarefree product of irreducibles of degree d, started at
t = X^(2j+1) after j fruitless rounds, fuel ≥ (deg)² + 1 − j suffices; the pieces have degree d -/
theorem finalSplit2_total (d : Nat) : ∀ (fuel : Nat) (poly t : Poly) (j : Nat) (result : List Poly),
    EqDeg 2 d poly → SqF 2 (mp 2 poly) → Good 2 t → mp 2 t = X ^ (2 * j + 1) →
    NoSplitBelow d (mp 2 poly) j → 2 * j ≤ nd 2 poly → nd 2 poly * nd 2 poly + 1 ≤ fuel + j →
    (∀ x ∈ result, degU x = d) →
    ∃ r, finalSplit2 d fuel poly t result = .ok r ∧ ∀ x ∈ r, degU x = d := by
  intro fuel
  induction fuel with
  | zero =>
    intro poly t j result _ _ _ _ _ hj hf _
    have := Nat.le_mul_self (nd 2 poly)
    omega
  | succ fuel ih =>
    intro poly t j result hpoly hsq ht htX hno hj hf hres
    have hd := hpoly.d_pos 2
    have hP0 := GoodNZ.mp_ne_zero 2 hpoly.1
    simp only [finalSplit2]
    rw [if_neg (by omega), if_neg (hpoly.k_pos 2)]
    split
    · rename_i hk
      refine ⟨_, rfl, ?_⟩
      intro x hx
      rcases List.mem_append.mp hx with hx | hx
      · exact hres x hx
      · simp only [List.mem_singleton] at hx; subst hx; exact hpoly.deg_of_k_one 2 hk
    rename_i hk1
    -- at least two irreducible factors
    have h2d : 2 * d ≤ nd 2 poly := by
      have hk0 := hpoly.k_pos 2
      rw [degU_nd 2 hpoly.1] at hk0 hk1
      obtain ⟨c, hc⟩ := hpoly.dvd 2
      rw [hc, Nat.mul_div_cancel_left c hd] at hk0 hk1
      rw [hc]
      have : 2 ≤ c := by omega
      calc 2 * d = d * 2 := by ring
        _ ≤ d * c := Nat.mul_le_mul_left d this
    have hsplit := exists_odd_split d (mp 2 poly) hP0 (squarefree_of_sqF hP0 hsq) hpoly.2.2 h2d hd
    have hbound : ∀ j', NoSplitBelow d (mp 2 poly) j' → 2 * j' + 2 ≤ nd 2 poly := by
      intro j' hno'
      by_contra hlt
      apply hsplit
      intro m hm hodd
      exact hno' m (by unfold nd at hlt; omega) hodd
    have hc : Good 2 (traceIter poly t (d - 1) t) := traceIter_good poly t hpoly.1 _ t ht
    obtain ⟨b, hg⟩ := polyGcd_total_good 2 poly _ hpoly.1.1 hc
    simp only [Nat.cast_ofNat] at hg
    rw [hg, ok_bind']
    obtain ⟨g1, g2⟩ := gcd_out 2 hpoly.1.1 hc (Or.inl hpoly.1.2) (by simpa using hg)
    split
    · rename_i hcond
      simp only [Bool.or_eq_true, decide_eq_true_eq] at hcond
      have htriv := triv_of_continue hpoly hsq ht g1 g2 hcond
      rw [htX] at htriv
      have hno' := hno.succ htriv
      have hb' := hbound (j + 1) hno'
      apply ih poly (mul t [0, 0, 1]) (j + 1) result hpoly hsq (good_mul_x2 2 t ht) ?_ hno' (by omega)
        (by omega) hres
      rw [mp_mul, htX, mp_x2]; ring
    · rename_i hcond
      simp only [Bool.or_eq_true, decide_eq_true_eq, not_or] at hcond
      obtain ⟨hb, hdiv⟩ := hpoly.split 2 g2 g1.1 hcond.1 hcond.2
      simp only [Nat.cast_ofNat] at hdiv
      obtain ⟨e1, e2⟩ := divide_out 2 hpoly.1 g2 g1.1
      simp only [Nat.cast_ofNat] at e1
      have hn := nd_mul 2 hpoly.1 e1
      have hb1 := hb.2.1
      have hd1 := hdiv.2.1
      have hx1 : mp 2 [0, 1] = X ^ (2 * 0 + 1) := by rw [mp_x]; simp
      have hsqb : SqF 2 (mp 2 b) := hsq.of_dvd 2 g1.1
      have hsqd : SqF 2 (mp 2 (polyDivrem poly b 2).1) := hsq.of_dvd 2 ⟨mp 2 b, e1⟩
      -- fuel arithmetic: both parts have degree ≤ n - 1, and j ≤ n / 2
      have hfuel : ∀ n' : Nat, n' + 1 ≤ nd 2 poly → n' * n' + 1 ≤ fuel + 0 := by
        intro n' hn'
        have h1 : n' * n' ≤ (nd 2 poly - 1) * (nd 2 poly - 1) := Nat.mul_le_mul (by omega) (by omega)
        obtain ⟨m, hm⟩ : ∃ m, nd 2 poly = m + 1 := ⟨nd 2 poly - 1, by omega⟩
        rw [hm] at h1 hf hj h2d
        have e : (m + 1) * (m + 1) = m * m + 2 * m + 1 := by ring
        rw [e] at hf
        simp only [Nat.add_sub_cancel] at h1
        omega
      obtain ⟨r1, hr1, hr1d⟩ := ih b [0, 1] 0 result hb hsqb (good_x 2) hx1 (NoSplitBelow.zero _ _)
        (by omega) (hfuel _ (by omega)) hres
      rw [hr1, ok_bind']
      exact ih _ [0, 1] 0 r1 hdiv hsqd (good_x 2) hx1 (NoSplitBelow.zero _ _) (by omega)
        (hfuel _ (by omega)) hr1d

/-- `final_split(poly, 2, d)` always returns (no draws, no fuel exhaustion), with pieces of degree d -/
theorem finalSplit_two_total (poly : Poly) (d : Nat) (s : NTV.Draw.Stream) (hpoly : EqDeg 2 d poly)
    (hsq : SqF 2 (mp 2 poly)) : ∃ res, finalSplit poly 2 d s = .ok (res, s) ∧ ∀ x ∈ res, degU x = d := by
  unfold finalSplit
  rw [if_neg (by decide)]
  have hl := nd_length 2 hpoly.1
  have hx1 : mp 2 [0, 1] = X ^ (2 * 0 + 1) := by rw [mp_x]; simp
  obtain ⟨r, hr, hrd⟩ := finalSplit2_total d (poly.length * poly.length + 8) poly [0, 1] 0 [] hpoly hsq
    (good_x 2) hx1 (NoSplitBelow.zero _ _) (by omega) (by
      rw [hl]
      have : nd 2 poly * nd 2 poly ≤ (nd 2 poly + 1) * (nd 2 poly + 1) := Nat.mul_le_mul (by omega) (by omega)
      omega) (by simp)
  rw [hr, ok_bind']
  exact ⟨r, rfl, hrd⟩

section prime
variable (p : ℕ) [hp : Fact p.Prime]

/-- outcome allowed for `final_split`: `inconclusive stream`, or pieces of degree d -/
def PostFS (d : Nat) : M (List Poly × NTV.Draw.Stream) → Prop
  | .error e => e = "inconclusive stream"
  | .ok (res, _) => ∀ x ∈ res, degU x = d

/-- outcome allowed for the stream-threading stages -/
def PostS {α : Type} : M α → Prop
  | .error e => e = "inconclusive stream"
  | .ok _ => True

/-- `final_split`: no panic, no fuel exhaustion, and the pieces have degree d -/
theorem finalSplit_post (poly : Poly) (d : Nat) (s : NTV.Draw.Stream) (hpoly : EqDeg p d poly)
    (hsq : SqF p (mp p poly)) : PostFS d (finalSplit poly (p : Int) d s) := by
  unfold finalSplit
  by_cases hodd : (p : Int) % 2 = 1
  · rw [if_pos hodd]
    have := finalSplitOdd_post p d (s.length + poly.length + 2) poly [] s hpoly (by simp) (by omega)
    cases hr : finalSplitOdd (p : Int) d (s.length + poly.length + 2) poly [] s with
    | error e => rw [hr] at this; exact this
    | ok v => obtain ⟨res, s'⟩ := v; rw [hr] at this; exact this.2
  · rw [if_neg hodd]
    have hp2 : p = 2 := by
      rcases hp.out.eq_two_or_odd with h2 | h2
      · exact h2
      · exfalso; apply hodd; omega
    subst hp2
    have hl := nd_length 2 hpoly.1
    have hx1 : mp 2 [0, 1] = X ^ (2 * 0 + 1) := by rw [mp_x]; simp
    obtain ⟨r, hr, hrd⟩ := finalSplit2_total d (poly.length * poly.length + 8) poly [0, 1] 0 [] hpoly hsq
      (good_x 2) hx1 (NoSplitBelow.zero _ _) (by omega) (by
        rw [hl]
        have : nd 2 poly * nd 2 poly ≤ (nd 2 poly + 1) * (nd 2 poly + 1) := Nat.mul_le_mul (by omega) (by omega)
        omega) (by simp)
    rw [hr, ok_bind']
    exact hrd

theorem splitAll_post (e : Nat) : ∀ (ds result : Factors) (s : NTV.Draw.Stream),
    (∀ x ∈ ds, GoodNZ p x.1 ∧ DegPart p x ∧ SqF p (mp p x.1)) → PostS (splitAll (p : Int) e ds result s) := by
  intro ds
  induction ds with
  | nil => intro result s _; trivial
  | cons x rest ih =>
    obtain ⟨prod, d⟩ := x
    intro result s hds
    have hprod : GoodNZ p prod := (hds (prod, d) (by simp)).1
    have hpart : DegPart p (prod, d) := (hds (prod, d) (by simp)).2.1
    have hsqp : SqF p (mp p prod) := (hds (prod, d) (by simp)).2.2
    have hrest : ∀ x ∈ rest, GoodNZ p x.1 ∧ DegPart p x ∧ SqF p (mp p x.1) := fun x hx => hds x (by simp [hx])
    simp only [splitAll]
    split
    · exact ih _ _ hrest
    · rename_i hd0
      have heq : EqDeg p d prod := ⟨hprod, by have := degU_nd p hprod; omega, hpart⟩
      have hfs := finalSplit_post p prod d s heq hsqp
      cases hr : finalSplit prod (p : Int) d s with
      | error e' => rw [hr] at hfs; rw [error_bind']; exact hfs
      | ok v =>
        obtain ⟨spl, s1⟩ := v
        rw [hr] at hfs
        rw [ok_bind']
        simp only
        obtain ⟨r1, hn⟩ := normaliseAll_total p d e spl result hfs
        rw [hn, ok_bind']
        exact ih _ _ hrest

theorem factorAll_post : ∀ (sqs result : Factors) (s : NTV.Draw.Stream),
    (∀ x ∈ sqs, Entry p x ∧ SqF p (mp p x.1)) → PostS (factorAll (p : Int) sqs result s) := by
  intro sqs
  induction sqs with
  | nil => intro result s _; trivial
  | cons x rest ih =>
    obtain ⟨sq, e⟩ := x
    intro result s hsqs
    obtain ⟨⟨hsq, he⟩, hsqf⟩ := hsqs (sq, e) (by simp)
    simp only [factorAll]
    obtain ⟨degrees, h1⟩ := degree_total p sq hsq
    rw [h1, ok_bind']
    obtain ⟨d1, d2⟩ := degree_product p sq degrees hsq h1
    have d3 := degree_sound p sq degrees hsq hsqf h1
    have hsp := splitAll_post p e degrees result s
      (fun x hx => ⟨d2 x hx, d3 x hx, hsqf.of_dvd p ((mem_dvd_pprod p hx).trans d1.dvd)⟩)
    cases hr : splitAll (p : Int) e degrees result s with
    | error e' => rw [hr] at hsp; rw [error_bind']; exact hsp
    | ok v =>
      obtain ⟨r1, s1⟩ := v
      rw [ok_bind']
      exact ih _ _ (fun x hx => hsqs x (by simp [hx]))

/-- **panic-freedom of `factorize_mod_p`** (model level): the only failure is `inconclusive stream` -/
theorem factorizeModP_no_panic (f : Poly) (pusize : Nat) (s : NTV.Draw.Stream) (e : String)
    (hf : mp p f ≠ 0) (hpu : pusize = p ∨ f.length ≤ p) (hlen : f.length ≤ 2 ^ 64)
    (h : factorizeModP f (p : Int) pusize s = .error e) : e = "inconclusive stream" := by
  unfold factorizeModP at h
  have hgood := good_polyMod p hp.out.pos f
  have hnz : GoodNZ p (polyMod f p) := goodNZ_of_mp_ne_zero p hgood (by rw [mp_polyMod]; exact hf)
  have hpu' : pusize = p ∨ (polyMod f p).length ≤ p := by
    rcases hpu with h | h
    · exact Or.inl h
    · exact Or.inr ((length_polyMod_le f p).trans h)
  obtain ⟨sq, h1⟩ := squarefree_total p (polyMod f p) pusize hnz hpu' ((length_polyMod_le f p).trans hlen)
  obtain ⟨_, q2, q3⟩ := squarefree_product p (polyMod f p) pusize sq hnz hpu' h1
  simp only at h
  rw [h1, ok_bind'] at h
  have hfa := factorAll_post p sq [] s (fun x hx => ⟨q2 x hx, q3.of_dvd p (mem_dvd_pprod p hx)⟩)
  cases hr : factorAll (p : Int) sq [] s with
  | error e' =>
    rw [hr] at hfa h
    rw [error_bind'] at h
    simp only [Except.error.injEq] at h
    subst h
    exact hfa
  | ok v =>
    rw [hr, ok_bind'] at h
    obtain ⟨r, s'⟩ := v
    simp [pure, Except.pure] at h

end prime
end NTV.PolyMod
