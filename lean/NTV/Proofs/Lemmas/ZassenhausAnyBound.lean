import NTV.Proofs.Lemmas.ZassenhausMignotte
import NTV.Spec.PolyZBound
/-! The Landau–Mignotte step of the Berlekamp–Zassenhaus correctness proof for ANY bound accepted by the
executable predicate `NTV.Spec.PolyZ.boundOk` (the check evaluates it on the bound the implementation chose),
and the fact that the model's own `coeffBound` is accepted. -/
open Polynomial
namespace NTV.PolyZ
open NTV.PolyG NTV.Spec.PolyZ

theorem boundOk_iff (a : List Int) (B : ℤ) :
    boundOk a B = true ↔ 2 ^ (a.length - 1) * ∑ i ∈ Finset.range (a.length - 1 + 1), |coefAt a i| < B := by
  unfold boundOk
  simp only [Int.natCast_natAbs, decide_eq_true_eq]
  rw [foldl_add_range (fun i => |coefAt a i|)]
  simp

/-- **Mignotte bound for any accepted bound**: for a non-constant canonical `a = g·h·h'` over ℤ and any `B` with
`boundOk a B`, twice any coefficient of `lc(h')·h` is below `B` in absolute value. -/
theorem mignotte_for_boundOk (a : List Int) (ha : a ≠ []) (hca : Canon a) (hn : 2 ≤ a.length)
    (g h h' : ℤ[X]) (hfac : toPoly a = g * h * h') (j : ℕ) (B : ℤ) (hB : boundOk a B = true) :
    2 * |(C h'.leadingCoeff * h).coeff j| < B := by
  rw [boundOk_iff] at hB
  obtain ⟨hdeg, hlc, hne⟩ := natDegree_toPoly a ha hca
  have hb := mignotte_divisor (toPoly a) g h h' hne hfac j
  have hg : g ≠ 0 := by rintro rfl; simp at hfac; exact hne hfac
  have hh : h ≠ 0 := by rintro rfl; simp at hfac; exact hne hfac
  have hh' : h' ≠ 0 := by rintro rfl; simp at hfac; exact hne hfac
  have hdh : h.natDegree ≤ a.length - 1 := by
    rw [← hdeg, hfac, natDegree_mul (mul_ne_zero hg hh) hh', natDegree_mul hg hh]; omega
  have hC : (h.natDegree.choose j : ℤ) ≤ 2 ^ (a.length - 1 - 1) := by
    exact_mod_cast choose_le_two_pow_pred h.natDegree j (a.length - 1) (by omega) hdh
  rw [hdeg] at hb
  simp only [coeff_toPoly] at hb
  have hS : 0 ≤ ∑ i ∈ Finset.range (a.length - 1 + 1), |coefAt a i| :=
    Finset.sum_nonneg fun i _ => abs_nonneg _
  have hpow : (2 : ℤ) ^ (a.length - 1) = 2 ^ (a.length - 1 - 1) * 2 := by
    rw [← pow_succ]; congr 1; omega
  rw [hpow] at hB
  change |(C h'.leadingCoeff * h).coeff j| ≤ (h.natDegree.choose j : ℤ) * ∑ i ∈ Finset.range (a.length - 1 + 1), |coefAt a i| at hb
  generalize (∑ i ∈ Finset.range (a.length - 1 + 1), |coefAt a i|) = S at *
  generalize |(C h'.leadingCoeff * h).coeff j| = c at *
  generalize (2 : ℤ) ^ (a.length - 1 - 1) = P at *
  generalize (h.natDegree.choose j : ℤ) = K at *
  have h1 : K * S ≤ P * S := mul_le_mul_of_nonneg_right hC hS
  nlinarith

/-- the shape used by the recombination, for any accepted bound: for a modulus `pe > B`, the coefficients of
`lc(h')·h` lie in the symmetric range `[-pe2, pe - pe2)`, `pe2 = pe.tdiv 2` -/
theorem mignotte_symmetric_range_boundOk (a : List Int) (ha : a ≠ []) (hca : Canon a) (hn : 2 ≤ a.length)
    (g h h' : ℤ[X]) (hfac : toPoly a = g * h * h') (j : ℕ) (B pe : ℤ) (hB : boundOk a B = true) (hpe : B < pe) :
    -(Int.tdiv pe 2) ≤ (C h'.leadingCoeff * h).coeff j ∧ (C h'.leadingCoeff * h).coeff j < pe - Int.tdiv pe 2 := by
  have hm := mignotte_for_boundOk a ha hca hn g h h' hfac j B hB
  generalize (C h'.leadingCoeff * h).coeff j = c at *
  have hpos : 0 ≤ pe := by have := abs_nonneg c; omega
  rw [Int.tdiv_eq_ediv_of_nonneg hpos]
  rcases abs_cases c with ⟨h1, _⟩ | ⟨h1, _⟩ <;> omega

/-- the model's own bound (= the bound of the unchanged Rust code) is accepted -/
theorem coeffBound_boundOk (a : List Int) (ha : a ≠ []) (hca : Canon a) (hn : 2 ≤ a.length) :
    boundOk a (coeffBound a (degU a)) = true := by
  rw [boundOk_iff]
  have hdU : degU a = a.length - 1 := by
    unfold degU; cases a with
    | nil => exact absurd rfl ha
    | cons x xs => simp
  rw [coeffBound_eq, hdU]
  have hL : 1 ≤ |coefAt a (a.length - 1)| := by
    unfold coefAt; rw [lc_eq_getD a ha]
    exact Int.one_le_abs (lc_ne_zero a ha hca)
  have hS : 0 ≤ ∑ i ∈ Finset.range (a.length - 1 + 1), |coefAt a i| :=
    Finset.sum_nonneg fun i _ => abs_nonneg _
  have hpow : (2 : ℤ) ^ (a.length - 1) = 2 ^ (a.length - 1 - 1) * 2 := by
    rw [← pow_succ]; congr 1; omega
  rw [hpow]
  have hP : (0 : ℤ) < 2 ^ (a.length - 1 - 1) := by positivity
  generalize (∑ i ∈ Finset.range (a.length - 1 + 1), |coefAt a i|) = S at *
  generalize |coefAt a (a.length - 1)| = L at *
  generalize (2 : ℤ) ^ (a.length - 1 - 1) = P at *
  nlinarith [mul_pos hP (by omega : (0 : ℤ) < L), mul_nonneg (mul_nonneg hP.le hS) (by omega : (0 : ℤ) ≤ L - 1)]

example : boundOk [-1, 0, 1] 12 = true := by decide
example : boundOk [-1, 0, 1] 8 = false := by decide
example : 2 * |(C (X + 1 : ℤ[X]).leadingCoeff * (X - 1)).coeff 0| < 9 :=
  mignotte_for_boundOk [-1, 0, 1] (by simp) (by intro _; simp) (by simp) 1 (X - 1) (X + 1)
    (by simp [toPoly]; ring) 0 9 (by decide)

end NTV.PolyZ
