import NTV.Model.Algebraic
import NTV.Proofs.Lemmas.PolyDivZ
import Mathlib.Algebra.Polynomial.FieldDivision
open Polynomial
namespace NTV.Alg
open NTV.PolyG

theorem natDegree_toPoly_le (s : List Rat) : (toPoly s).natDegree ≤ s.length - 1 := by
  rw [natDegree_le_iff_coeff_eq_zero]
  intro N hN
  rw [coeff_toPoly]; exact getD_of_length_le s N (by omega)

theorem getD_range_map (n : Nat) (f : Nat → Rat) (k : Nat) :
    ((List.range n).map f).getD k 0 = if k < n then f k else 0 := by
  simp only [List.getD_eq_getElem?_getD, List.getElem?_map, List.getElem?_range]
  split <;> simp_all

theorem getD_cons_zero (cur : List Rat) (k : Nat) :
    ((0 : Rat) :: cur).getD k 0 = if k = 0 then 0 else cur.getD (k - 1) 0 := by
  cases k with
  | zero => simp
  | succ k => simp [List.getD_eq_getElem?_getD]

/-- `cur ← cur·x mod c` subtracts a multiple of c from x·cur and has n entries -/
theorem shiftMod_spec (c : List Rat) (hc : c ≠ []) (hcc : Canon c) (cur : List Rat)
    (hlen : cur.length = c.length - 1) :
    (shiftMod c (c.length - 1) (lc c) cur).length = c.length - 1 ∧
    toPoly (shiftMod c (c.length - 1) (lc c) cur) =
      X * toPoly cur - C ((0 :: cur).getD (c.length - 1) 0 / lc c) * toPoly c := by
  have hlc : lc c ≠ 0 := by
    unfold lc; rw [List.getLastD_eq_getLast?, List.getLast?_eq_some_getLast hc]; exact hcc hc
  have hlcD : c.getD (c.length - 1) 0 = lc c := by
    unfold lc
    rw [List.getLastD_eq_getLast?, List.getLast?_eq_some_getLast hc]
    exact (getLast_eq_getD c hc).symm
  refine ⟨by simp [shiftMod], ?_⟩
  have hX : X * toPoly cur = toPoly ((0 : Rat) :: cur) := by simp [toPoly]
  rw [hX]
  ext k
  simp only [shiftMod, coeff_toPoly, getD_range_map, coeff_sub, coeff_C_mul]
  have hpos : 0 < c.length := List.length_pos_of_ne_nil hc
  by_cases hk : k < c.length - 1
  · simp only [hk, ↓reduceIte]
  · simp only [hk, ↓reduceIte]
    by_cases he : k = c.length - 1
    · subst he
      rw [hlcD]
      field_simp
      ring
    · rw [getD_of_length_le ((0 : Rat) :: cur) k (by simp; omega), getD_of_length_le c k (by omega)]
      ring

theorem toPoly_zipWith_add_mul (ai : Rat) : ∀ (result cur : List Rat), result.length = cur.length →
    toPoly (List.zipWith (fun r x => r + ai * x) result cur) = toPoly result + C ai * toPoly cur := by
  intro result
  induction result with
  | nil => intro cur h; have : cur = [] := List.length_eq_zero_iff.mp h.symm; subst this; simp [toPoly]
  | cons r rs ih =>
    intro cur h
    cases cur with
    | nil => simp at h
    | cons x xs =>
      simp only [List.zipWith_cons_cons, toPoly]
      rw [ih xs (by simpa using h)]
      simp only [C_add, C_mul]; ring

/-- loop invariant of `mul_with_mod`: the accumulated result is `result + a·cur` up to a multiple of c -/
theorem mulLoop_spec (c : List Rat) (hc : c ≠ []) (hcc : Canon c) :
    ∀ (as cur result : List Rat), cur.length = c.length - 1 → result.length = c.length - 1 →
    (mulLoop c (c.length - 1) (lc c) as cur result).length = c.length - 1 ∧
    ∃ Q : Rat[X], toPoly (mulLoop c (c.length - 1) (lc c) as cur result)
      = toPoly result + toPoly as * toPoly cur + Q * toPoly c := by
  intro as
  induction as with
  | nil => intro cur result _ hr; exact ⟨by simpa [mulLoop] using hr, 0, by simp [mulLoop, toPoly]⟩
  | cons ai rest ih =>
    intro cur result hcur hres
    cases rest with
    | nil =>
      refine ⟨by simp [mulLoop, hres, hcur], 0, ?_⟩
      simp only [mulLoop, zero_mul, add_zero]
      rw [toPoly_zipWith_add_mul ai result cur (by rw [hres, hcur])]
      simp [toPoly]
    | cons a2 rest' =>
      simp only [mulLoop]
      obtain ⟨hl, hs⟩ := shiftMod_spec c hc hcc cur hcur
      obtain ⟨h1, Q, hQ⟩ := ih (shiftMod c (c.length - 1) (lc c) cur)
        (List.zipWith (fun r x => r + ai * x) result cur) hl (by simp [hres, hcur])
      refine ⟨h1, Q - toPoly (a2 :: rest') * C ((0 :: cur).getD (c.length - 1) 0 / lc c), ?_⟩
      rw [hQ, hs, toPoly_zipWith_add_mul ai result cur (by rw [hres, hcur])]
      simp only [toPoly]
      ring

/-- C14: `mul_with_mod(a, b, f)` is the remainder of the polynomial product modulo f, of degree < n, in
canonical form — for every f of degree n ≥ 1 (any non-zero leading coefficient) and a, b of degree < n -/
theorem mulWithMod_spec (a b c : List Rat) (hc : c ≠ []) (hcc : Canon c) (hn : 2 ≤ c.length)
    (ha : a.length ≤ c.length - 1) (hb : b.length ≤ c.length - 1) :
    ∃ r, mulWithMod a b c = .ok r ∧ toPoly r = (toPoly a * toPoly b) % toPoly c ∧ Canon r ∧
      r.length ≤ c.length - 1 := by
  have hP := natDegree_toPoly c hc hcc
  by_cases hz : a.isEmpty || b.isEmpty
  · refine ⟨[], by simp [mulWithMod, hz], ?_, canon_nil, by simp⟩
    simp only [Bool.or_eq_true] at hz
    rcases hz with h | h <;> simp [isEmpty_toPoly h, toPoly]
  · have ha0 : a ≠ [] := by intro e; simp [e] at hz
    have hb0 : b ≠ [] := by intro e; simp [e] at hz
    have hal : 0 < a.length := List.length_pos_of_ne_nil ha0
    have hbl : 0 < b.length := List.length_pos_of_ne_nil hb0
    have h1 : a.length - 1 < c.length - 1 := by omega
    have h2 : b.length - 1 < c.length - 1 := by omega
    set cur := b ++ List.replicate (c.length - 1 - b.length) 0 with hcur
    have hcurlen : cur.length = c.length - 1 := by simp [hcur]; omega
    have hcurP : toPoly cur = toPoly b := by
      ext k
      simp only [coeff_toPoly, hcur, List.getD_eq_getElem?_getD, List.getElem?_append]
      split
      · rfl
      · rename_i hk
        have : b[k]? = none := by simp; omega
        simp [this, List.getElem?_replicate]
        split <;> rfl
    obtain ⟨hl, Q, hQ⟩ := mulLoop_spec c hc hcc a cur (List.replicate (c.length - 1) 0) hcurlen (by simp)
    have hzero : toPoly (List.replicate (c.length - 1) (0 : Rat)) = 0 := by
      have := toPoly_replicate_append (R := Rat) (c.length - 1) []
      simpa [toPoly] using this
    refine ⟨fromRaw (mulLoop c (c.length - 1) (lc c) a cur (List.replicate (c.length - 1) 0)), ?_, ?_,
      canon_fromRaw _, ?_⟩
    · simp [mulWithMod, hz, hc, h1, h2, hcur]
    · rw [toPoly_fromRaw]
      set R := mulLoop c (c.length - 1) (lc c) a cur (List.replicate (c.length - 1) 0) with hR
      have hdeg : (toPoly R).degree < (toPoly c).degree := by
        rw [degree_eq_natDegree hP.2.2]
        by_cases h0 : toPoly R = 0
        · rw [h0, degree_zero]; exact WithBot.bot_lt_coe _
        · rw [degree_eq_natDegree h0]
          have := natDegree_toPoly_le R
          have : (toPoly R).natDegree < (toPoly c).natDegree := by rw [hP.1]; omega
          exact_mod_cast this
      have hmodR : toPoly R % toPoly c = toPoly R := (mod_eq_self_iff hP.2.2).mpr hdeg
      rw [← hmodR]
      apply mod_eq_of_dvd_sub
      rw [hQ, hzero, hcurP]
      exact ⟨Q, by ring⟩
    · have := length_fromRaw_le (mulLoop c (c.length - 1) (lc c) a cur (List.replicate (c.length - 1) 0))
        (c.length - 1) (fun j hj => getD_of_length_le _ j (by omega))
      exact this

end NTV.Alg
