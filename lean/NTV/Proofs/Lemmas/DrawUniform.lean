import NTV.Model.Draw
import Mathlib.Tactic
/-! The byte decoder `NTV.Draw.decode` (`gen_biguint(bits)`) is *uniform*: well-formed chunks
(4·len bytes) are in bijection with the numbers N < 2^(32·len) (little-endian value), the decoded
value is an explicit function `decodeNum bits N` of N, and every v < 2^bits has exactly
2^(32·len − bits) preimages N. So uniform bytes give a uniform value in [0, 2^bits), and the rejection
loop `below bound` a uniform value in [0, bound). Only counting statements; no probability theory. -/
namespace NTV.Draw

/-- number of u32 digits `gen_biguint(bits)` asks for -/
def lenOf (bits : Nat) : Nat := bits / 32 + (if bits % 32 > 0 then 1 else 0)

/-- the 4·len little-endian bytes of N -/
def bytesOf : Nat → Nat → List Nat
  | 0, _ => []
  | len + 1, N =>
    (N % 256) :: (N / 256 % 256) :: (N / 65536 % 256) :: (N / 16777216 % 256) ::
      bytesOf len (N / 4294967296)

/-- the len little-endian base-2^32 digits of N -/
def digitsOf : Nat → Nat → List Nat
  | 0, _ => []
  | len + 1, N => (N % 4294967296) :: digitsOf len (N / 4294967296)

theorem bytesOf_length (len N : Nat) : (bytesOf len N).length = 4 * len := by
  induction len generalizing N with
  | zero => rfl
  | succ len ih => simp only [bytesOf, List.length_cons, ih]; omega

theorem bytesOf_lt (len N : Nat) : ∀ b ∈ bytesOf len N, b < 256 := by
  induction len generalizing N with
  | zero => simp [bytesOf]
  | succ len ih =>
    intro b hb
    simp only [bytesOf, List.mem_cons] at hb
    rcases hb with rfl | rfl | rfl | rfl | hb
    · omega
    · omega
    · omega
    · omega
    · exact ih _ b hb

theorem toU32s_bytesOf (len N : Nat) : toU32s (bytesOf len N) = digitsOf len N := by
  induction len generalizing N with
  | zero => rfl
  | succ len ih =>
    simp only [bytesOf, toU32s, digitsOf, ih]
    congr 1
    omega

theorem fromDigits_digitsOf (len N : Nat) : fromDigits (digitsOf len N) = N % 2 ^ (32 * len) := by
  induction len generalizing N with
  | zero => simp [digitsOf, fromDigits, Nat.mod_one]
  | succ len ih =>
    simp only [digitsOf, fromDigits, ih]
    have e : 2 ^ (32 * (len + 1)) = 4294967296 * 2 ^ (32 * len) := by
      rw [Nat.mul_succ, pow_add]; norm_num [mul_comm]
    rw [e, Nat.mod_mul]

theorem digitsOf_lt (len N : Nat) : ∀ d ∈ digitsOf len N, d < 4294967296 := by
  induction len generalizing N with
  | zero => simp [digitsOf]
  | succ len ih =>
    intro d hd
    simp only [digitsOf, List.mem_cons] at hd
    rcases hd with rfl | hd
    · omega
    · exact ih _ d hd

/-- the raw little-endian value of a chunk -/
def valueOf (c : List Nat) : Nat := fromDigits (toU32s c)

theorem valueOf_bytesOf (len N : Nat) (hN : N < 2 ^ (32 * len)) : valueOf (bytesOf len N) = N := by
  unfold valueOf
  rw [toU32s_bytesOf, fromDigits_digitsOf, Nat.mod_eq_of_lt hN]

/-- every well-formed chunk is the byte string of its value -/
theorem bytesOf_valueOf (len : Nat) (c : List Nat) (hl : c.length = 4 * len)
    (hb : ∀ b ∈ c, b < 256) : bytesOf len (valueOf c) = c ∧ valueOf c < 2 ^ (32 * len) := by
  induction len generalizing c with
  | zero =>
    have : c = [] := List.length_eq_zero_iff.mp (by omega)
    subst this
    simp [bytesOf, valueOf, toU32s, fromDigits]
  | succ len ih =>
    match c, hl with
    | b0 :: b1 :: b2 :: b3 :: rest, hl =>
      have h0 : b0 < 256 := hb b0 (by simp)
      have h1 : b1 < 256 := hb b1 (by simp)
      have h2 : b2 < 256 := hb b2 (by simp)
      have h3 : b3 < 256 := hb b3 (by simp)
      have hl' : rest.length = 4 * len := by simp only [List.length_cons] at hl; omega
      obtain ⟨i1, i2⟩ := ih rest hl' (fun b hb' => hb b (by simp [hb']))
      have e : 2 ^ (32 * (len + 1)) = 4294967296 * 2 ^ (32 * len) := by
        rw [Nat.mul_succ, pow_add]; norm_num [mul_comm]
      have hv : valueOf (b0 :: b1 :: b2 :: b3 :: rest) =
          (b0 + 256 * b1 + 65536 * b2 + 16777216 * b3) + 4294967296 * valueOf rest := by
        simp [valueOf, toU32s, fromDigits]
      set V := valueOf rest
      set D := b0 + 256 * b1 + 65536 * b2 + 16777216 * b3
      have hD : D < 4294967296 := by omega
      constructor
      · rw [hv]
        simp only [bytesOf]
        have q : (D + 4294967296 * V) / 4294967296 = V := by omega
        rw [q, i1]
        have a0 : (D + 4294967296 * V) % 256 = b0 := by omega
        have a1 : (D + 4294967296 * V) / 256 % 256 = b1 := by omega
        have a2 : (D + 4294967296 * V) / 65536 % 256 = b2 := by omega
        have a3 : (D + 4294967296 * V) / 16777216 % 256 = b3 := by omega
        rw [a0, a1, a2, a3]
      · rw [hv, e]; nlinarith

end NTV.Draw

namespace NTV.Draw

theorem pow32_succ (L : Nat) : 2 ^ (32 * (L + 1)) = 4294967296 * 2 ^ (32 * L) := by
  rw [Nat.mul_succ, pow_add]; norm_num [mul_comm]

theorem fixLast_cons_cons (rem d e : Nat) (es : List Nat) :
    fixLast rem (d :: e :: es) = d :: fixLast rem (e :: es) := by
  simp [fixLast]

theorem fromDigits_fixLast_digitsOf (rem L N : Nat) :
    fromDigits (fixLast rem (digitsOf (L + 1) N)) =
      N % 2 ^ (32 * L) + 2 ^ (32 * L) * (N / 2 ^ (32 * L) % 4294967296 / 2 ^ (32 - rem)) := by
  induction L generalizing N with
  | zero => simp [digitsOf, fixLast, fromDigits, Nat.mod_one]
  | succ L ih =>
    have hd : digitsOf (L + 1 + 1) N = (N % 4294967296) :: digitsOf (L + 1) (N / 4294967296) := rfl
    have hd' : digitsOf (L + 1) (N / 4294967296) =
        (N / 4294967296 % 4294967296) :: digitsOf L (N / 4294967296 / 4294967296) := rfl
    rw [hd, hd', fixLast_cons_cons, ← hd']
    simp only [fromDigits]
    rw [ih, pow32_succ, Nat.mod_mul, Nat.div_div_eq_div_mul]
    ring

/-- the decoded value as a function of the raw little-endian value N of the chunk:
all of N below bit K = 32·(bits/32), and the top u32 digit shifted right by s = 32·len − bits -/
def decodeNum (bits N : Nat) : Nat :=
  N % 2 ^ (32 * (bits / 32)) +
    2 ^ (32 * (bits / 32)) * (N / 2 ^ (32 * (bits / 32)) / 2 ^ (32 * lenOf bits - bits))

theorem decode_bytesOf (bits N : Nat) (hN : N < 2 ^ (32 * lenOf bits)) :
    decode bits (bytesOf (lenOf bits) N) = some (decodeNum bits N) := by
  unfold decode
  have hlen : (bytesOf (lenOf bits) N).length =
      4 * (bits / 32 + if bits % 32 > 0 then 1 else 0) := by
    rw [bytesOf_length]; rfl
  simp only [hlen, ne_eq, not_true_eq_false, ↓reduceIte, toU32s_bytesOf]
  congr 1
  unfold decodeNum
  by_cases hrem : bits % 32 > 0
  · have hl : lenOf bits = bits / 32 + 1 := by simp [lenOf, hrem]
    rw [hl] at hN ⊢
    simp only [hrem, ↓reduceIte]
    rw [fromDigits_fixLast_digitsOf]
    have hs : 32 * (bits / 32 + 1) - bits = 32 - bits % 32 := by omega
    rw [hs]
    have hq : N / 2 ^ (32 * (bits / 32)) < 4294967296 := by
      rw [Nat.div_lt_iff_lt_mul (by positivity), ← pow32_succ]; exact hN
    rw [Nat.mod_eq_of_lt hq]
  · have hl : lenOf bits = bits / 32 := by simp [lenOf, hrem]
    rw [hl] at hN ⊢
    simp only [hrem, ↓reduceIte]
    rw [fromDigits_digitsOf, Nat.div_eq_of_lt hN]
    simp

end NTV.Draw

namespace NTV.Draw

theorem fibre_iff (A B R N v : Nat) (hA : 0 < A) (hB : 0 < B) (hv : v < A * R) :
    (N < A * (B * R) ∧ N % A + A * (N / A / B) = v) ↔
      ∃ j, j < B ∧ N = v % A + A * (v / A * B + j) := by
  constructor
  · rintro ⟨_, h⟩
    refine ⟨N / A % B, Nat.mod_lt _ hB, ?_⟩
    have hlo : v % A = N % A := by
      rw [← h, Nat.add_mul_mod_self_left, Nat.mod_mod]
    have hhi : v / A = N / A / B := by
      rw [← h, Nat.add_mul_div_left _ _ hA, Nat.div_eq_of_lt (Nat.mod_lt _ hA), zero_add]
    rw [hlo, hhi, Nat.div_add_mod', Nat.mod_add_div]
  · rintro ⟨j, hj, rfl⟩
    have hlo : v % A < A := Nat.mod_lt _ hA
    have hvhi : v / A < R := by
      rw [Nat.div_lt_iff_lt_mul hA, mul_comm]; exact hv
    have m1 : (v % A + A * (v / A * B + j)) % A = v % A := by
      rw [Nat.add_mul_mod_self_left, Nat.mod_mod]
    have d1 : (v % A + A * (v / A * B + j)) / A = v / A * B + j := by
      rw [Nat.add_mul_div_left _ _ hA, Nat.div_eq_of_lt hlo, zero_add]
    have d2 : (v / A * B + j) / B = v / A := by
      rw [add_comm, Nat.add_mul_div_right _ _ hB, Nat.div_eq_of_lt hj, zero_add]
    refine ⟨?_, by rw [m1, d1, d2, Nat.mod_add_div]⟩
    have : v / A * B + j < B * R := by nlinarith
    calc v % A + A * (v / A * B + j) < A + A * (v / A * B + j) := by omega
      _ = A * (v / A * B + j + 1) := by ring
      _ ≤ A * (B * R) := Nat.mul_le_mul_left _ this

theorem pow_split (bits : Nat) :
    2 ^ bits = 2 ^ (32 * (bits / 32)) * 2 ^ (bits % 32) ∧
    2 ^ (32 * lenOf bits) =
      2 ^ (32 * (bits / 32)) * (2 ^ (32 * lenOf bits - bits) * 2 ^ (bits % 32)) := by
  have hle : bits ≤ 32 * lenOf bits := by unfold lenOf; split <;> omega
  constructor
  · rw [← pow_add]; congr 1; omega
  · rw [← pow_add, ← pow_add]; congr 1; omega

/-- the decoded value is below 2^bits -/
theorem decodeNum_lt (bits N : Nat) (hN : N < 2 ^ (32 * lenOf bits)) : decodeNum bits N < 2 ^ bits := by
  obtain ⟨e1, e2⟩ := pow_split bits
  unfold decodeNum
  set A := 2 ^ (32 * (bits / 32))
  set B := 2 ^ (32 * lenOf bits - bits)
  set R := 2 ^ (bits % 32)
  have hA : 0 < A := by positivity
  have hB : 0 < B := by positivity
  rw [e1]
  rw [e2] at hN
  have h1 : N / A < B * R := by rw [Nat.div_lt_iff_lt_mul hA, mul_comm]; exact hN
  have h2 : N / A / B < R := by rw [Nat.div_lt_iff_lt_mul hB, mul_comm]; exact h1
  have h3 : N % A < A := Nat.mod_lt _ hA
  calc N % A + A * (N / A / B) < A + A * (N / A / B) := by omega
    _ = A * (N / A / B + 1) := by ring
    _ ≤ A * R := Nat.mul_le_mul_left _ h2

/-- **uniformity of the decoder**: every v < 2^bits is the decoded value of exactly
2^(32·len − bits) of the 2^(32·len) raw values -/
theorem decodeNum_fibre_card (bits v : Nat) (hv : v < 2 ^ bits) :
    ((Finset.range (2 ^ (32 * lenOf bits))).filter (fun N => decodeNum bits N = v)).card =
      2 ^ (32 * lenOf bits - bits) := by
  obtain ⟨e1, e2⟩ := pow_split bits
  set A := 2 ^ (32 * (bits / 32)) with hAdef
  set B := 2 ^ (32 * lenOf bits - bits) with hBdef
  set R := 2 ^ (bits % 32) with hRdef
  have hA : 0 < A := by positivity
  have hB : 0 < B := by positivity
  rw [e1] at hv
  have hset : (Finset.range (2 ^ (32 * lenOf bits))).filter (fun N => decodeNum bits N = v) =
      (Finset.range B).image (fun j => v % A + A * (v / A * B + j)) := by
    ext N
    simp only [Finset.mem_filter, Finset.mem_range, Finset.mem_image]
    rw [e2]
    have := fibre_iff A B R N v hA hB hv
    unfold decodeNum
    rw [← hAdef, ← hBdef]
    rw [this]
    constructor
    · rintro ⟨j, hj, rfl⟩; exact ⟨j, hj, rfl⟩
    · rintro ⟨j, hj, rfl⟩; exact ⟨j, hj, rfl⟩
  rw [hset, Finset.card_image_of_injective, Finset.card_range]
  intro j j' h
  simp only at h
  have := Nat.eq_of_mul_eq_mul_left hA (Nat.add_left_cancel h)
  omega

end NTV.Draw

namespace NTV.Draw

/-- the well-formed chunks of len u32 digits: all byte strings of length 4·len -/
def chunks (len : Nat) : Finset (List Nat) := (Finset.range (2 ^ (32 * len))).image (bytesOf len)

theorem mem_chunks (len : Nat) (c : List Nat) :
    c ∈ chunks len ↔ c.length = 4 * len ∧ ∀ b ∈ c, b < 256 := by
  unfold chunks
  simp only [Finset.mem_image, Finset.mem_range]
  constructor
  · rintro ⟨N, _, rfl⟩
    exact ⟨bytesOf_length len N, bytesOf_lt len N⟩
  · rintro ⟨hl, hb⟩
    obtain ⟨h1, h2⟩ := bytesOf_valueOf len c hl hb
    exact ⟨valueOf c, h2, h1⟩

theorem bytesOf_injOn (len : Nat) :
    Set.InjOn (bytesOf len) (Finset.range (2 ^ (32 * len)) : Set Nat) := by
  intro N hN N' hN' h
  simp only [Finset.coe_range, Set.mem_Iio] at hN hN'
  rw [← valueOf_bytesOf len N hN, ← valueOf_bytesOf len N' hN', h]

theorem card_chunks (len : Nat) : (chunks len).card = 2 ^ (32 * len) := by
  unfold chunks
  rw [Finset.card_image_of_injOn (bytesOf_injOn len), Finset.card_range]

/-- decoding a well-formed chunk -/
theorem decode_chunk (bits : Nat) (c : List Nat) (hc : c ∈ chunks (lenOf bits)) :
    decode bits c = some (decodeNum bits (valueOf c)) ∧ decodeNum bits (valueOf c) < 2 ^ bits := by
  obtain ⟨hl, hb⟩ := (mem_chunks _ c).mp hc
  obtain ⟨h1, h2⟩ := bytesOf_valueOf (lenOf bits) c hl hb
  refine ⟨?_, decodeNum_lt bits _ h2⟩
  conv_lhs => rw [← h1]
  exact decode_bytesOf bits _ h2

/-- **uniformity of `gen_biguint(bits)`**: each value v < 2^bits is decoded from exactly
2^(32·len − bits) of the 2^(32·len) well-formed chunks -/
theorem decode_fibre_card (bits v : Nat) (hv : v < 2 ^ bits) :
    ((chunks (lenOf bits)).filter (fun c => decode bits c = some v)).card =
      2 ^ (32 * lenOf bits - bits) := by
  rw [← decodeNum_fibre_card bits v hv]
  have : (chunks (lenOf bits)).filter (fun c => decode bits c = some v) =
      ((Finset.range (2 ^ (32 * lenOf bits))).filter (fun N => decodeNum bits N = v)).image
        (bytesOf (lenOf bits)) := by
    ext c
    simp only [Finset.mem_filter, Finset.mem_image, Finset.mem_range]
    constructor
    · rintro ⟨hc, hd⟩
      obtain ⟨hl, hb⟩ := (mem_chunks _ c).mp hc
      obtain ⟨h1, h2⟩ := bytesOf_valueOf (lenOf bits) c hl hb
      rw [(decode_chunk bits c hc).1] at hd
      exact ⟨valueOf c, ⟨h2, by simpa using hd⟩, h1⟩
    · rintro ⟨N, ⟨hN, hd⟩, rfl⟩
      refine ⟨?_, by rw [decode_bytesOf bits N hN, hd]⟩
      unfold chunks
      exact Finset.mem_image.mpr ⟨N, Finset.mem_range.mpr hN, rfl⟩
  rw [this, Finset.card_image_of_injOn]
  exact (bytesOf_injOn _).mono (by
    intro N hN
    simp only [Finset.coe_filter, Finset.mem_range, Set.mem_ofPred_eq] at hN
    simpa using hN.1)

theorem lt_two_pow_bitLen (bound : Nat) : bound < 2 ^ bitLen bound := by
  unfold bitLen
  split
  · subst_vars; simp
  · exact Nat.lt_log2_self

/-- **uniformity of `gen_bigint_range(lo, hi)`** on one chunk: each r in [lo, hi) is produced from
exactly 2^(32·len − bits) well-formed chunks (the same number for every r); all other chunks are
rejected and the next chunk is tried. -/
theorem range_fibre_card (lo hi r : Int) (hr : lo ≤ r ∧ r < hi) :
    ((chunks (lenOf (bitLen (hi - lo).toNat))).filter
        (fun c => range lo hi [c] = some (r, []))).card =
      2 ^ (32 * lenOf (bitLen (hi - lo).toNat) - bitLen (hi - lo).toNat) := by
  set bound := (hi - lo).toNat with hbound
  have hv : (r - lo).toNat < bound := by omega
  rw [← decode_fibre_card (bitLen bound) (r - lo).toNat (hv.trans (lt_two_pow_bitLen bound))]
  congr 1
  ext c
  simp only [Finset.mem_filter, and_congr_right_iff]
  intro _
  unfold range below
  rw [← hbound]
  cases hd : decode (bitLen bound) c with
  | none => simp
  | some v =>
    simp only [below]
    by_cases hvb : v < bound
    · simp only [hvb, ↓reduceIte, Option.some.injEq, Prod.mk.injEq, and_true]
      omega
    · simp only [hvb, ↓reduceIte]
      constructor
      · intro h; simp at h
      · intro h
        exfalso
        simp only [Option.some.injEq] at h
        omega

end NTV.Draw
