import NTV.Proofs.Lemmas.PolyGcdMod
import Mathlib.Data.ZMod.Basic
import Mathlib.Algebra.Polynomial.RingDivision
import Mathlib.Algebra.Polynomial.FieldDivision
/-! Bridges used by the C11 proofs: `egcdX` gives a modular inverse; congruence of integer polynomials
modulo a natural number p is equality of the images in (ZMod p)[X]; monic lists. -/
open Polynomial
namespace NTV.PolyMod
open NTV.PolyG NTV.Hensel

/-! ### `egcdX` -/

theorem egcdLoop_spec (x m : Int) : ∀ r0 r1 s0 s1 : Int, r0 ≡ s0 * x [ZMOD m] → r1 ≡ s1 * x [ZMOD m] →
    (egcdLoop r0 r1 s0 s1).1 ≡ (egcdLoop r0 r1 s0 s1).2 * x [ZMOD m] ∧
    (egcdLoop r0 r1 s0 s1).1.natAbs = Int.gcd r0 r1 := by
  intro r0 r1 s0 s1
  fun_induction egcdLoop r0 r1 s0 s1 with
  | case1 r1 s0 s1 =>
    intro _ h1
    exact ⟨h1, by simp⟩
  | case2 r0 r1 s0 s1 h ih =>
    intro h0 h1
    have hr : Int.tmod r1 r0 = r1 - r0 * Int.tdiv r1 r0 := by rw [Int.tmod_def]
    obtain ⟨i1, i2⟩ := ih (by
      rw [hr]
      have := h1.sub (h0.mul_right (Int.tdiv r1 r0))
      refine this.trans ?_
      have e : s1 * x - s0 * x * r1.tdiv r0 = (s1 - r1.tdiv r0 * s0) * x := by ring
      rw [e]) h0
    refine ⟨i1, ?_⟩
    rw [i2, hr]
    have : r1 - r0 * r1.tdiv r0 = r1 + r0 * (-(r1.tdiv r0)) := by ring
    rw [this, Int.gcd_comm r0 r1, Int.gcd_add_mul_left_left]

/-- `x.extended_gcd(m).x.mod_floor(m)` is an inverse of x modulo m when gcd(x, m) = 1 -/
theorem egcdX_inv (x m : Int) (h : Int.gcd x m = 1) : x * Int.fmod (egcdX x m) m ≡ 1 [ZMOD m] := by
  obtain ⟨h1, h2⟩ := egcdLoop_spec x m m x 0 1 (by simp)
    (by simp)
  rw [Int.gcd_comm, h] at h2
  have hx : x * egcdX x m ≡ 1 [ZMOD m] := by
    unfold egcdX
    generalize egcdLoop m x 0 1 = t at h1 h2
    obtain ⟨g, s⟩ := t
    simp only at h1 h2 ⊢
    split
    · have : g = 1 := by omega
      subst this
      rw [mul_comm]; exact h1.symm
    · have : g = -1 := by omega
      subst this
      have := h1.neg
      simp only [neg_neg] at this
      have e : x * (0 - s) = -(s * x) := by ring
      rw [e]; exact this.symm
  exact ((Int.ModEq.refl x).mul (fmod_modEq _ _)).trans hx

/-! ### congruence modulo p as equality in (ZMod p)[X] -/

/-- image of a coefficient list in (ZMod p)[X] -/
noncomputable def mapP (p : ℕ) (l : List Int) : (ZMod p)[X] := (toPoly l).map (Int.castRingHom (ZMod p))

theorem pcong_iff_map (p : ℕ) (F G : ℤ[X]) :
    PCong (p : ℤ) F G ↔ F.map (Int.castRingHom (ZMod p)) = G.map (Int.castRingHom (ZMod p)) := by
  rw [pcong_iff]
  constructor
  · intro h
    ext j
    have := h j
    rw [coeff_sub] at this
    simp only [coeff_map, eq_intCast]
    rw [ZMod.intCast_eq_intCast_iff_dvd_sub]
    have e : G.coeff j - F.coeff j = -(F.coeff j - G.coeff j) := by ring
    rw [e]; exact (Int.dvd_neg).mpr this
  · intro h j
    have := congrArg (fun P => P.coeff j) h
    simp only [coeff_map, eq_intCast] at this
    rw [ZMod.intCast_eq_intCast_iff_dvd_sub] at this
    rw [coeff_sub]
    have e : F.coeff j - G.coeff j = -(G.coeff j - F.coeff j) := by ring
    rw [e]; exact (Int.dvd_neg).mpr this

theorem map_surj (p : ℕ) (P : (ZMod p)[X]) : ∃ F : ℤ[X], F.map (Int.castRingHom (ZMod p)) = P :=
  Polynomial.map_surjective _ (ZMod.intCast_surjective) P

/-- coprimality over F_p, stated on integer polynomials, is `IsCoprime` of the images -/
theorem coprime_iff_map (p : ℕ) (F G : ℤ[X]) :
    (∃ U V : ℤ[X], PCong (p : ℤ) (F * U + G * V) 1) ↔
      IsCoprime (F.map (Int.castRingHom (ZMod p))) (G.map (Int.castRingHom (ZMod p))) := by
  constructor
  · rintro ⟨U, V, h⟩
    rw [pcong_iff_map] at h
    refine ⟨U.map (Int.castRingHom (ZMod p)), V.map (Int.castRingHom (ZMod p)), ?_⟩
    simp only [Polynomial.map_add, Polynomial.map_mul, Polynomial.map_one] at h
    rw [← h]; ring
  · rintro ⟨u, v, h⟩
    obtain ⟨U, rfl⟩ := map_surj p u
    obtain ⟨V, rfl⟩ := map_surj p v
    refine ⟨U, V, ?_⟩
    rw [pcong_iff_map]
    simp only [Polynomial.map_add, Polynomial.map_mul, Polynomial.map_one]
    rw [← h]; ring

theorem PCong.of_dvd {q m : ℤ} (hd : m ∣ q) {F G : ℤ[X]} (h : PCong q F G) : PCong m F G := by
  obtain ⟨s, rfl⟩ := hd
  exact PCong.of_mul_right h

theorem PCong.sub {q : ℤ} {f g f' g' : ℤ[X]} (h1 : PCong q f f') (h2 : PCong q g g') : PCong q (f - g) (f' - g') := by
  obtain ⟨w1, hw1⟩ := h1; obtain ⟨w2, hw2⟩ := h2
  exact ⟨w1 - w2, by linear_combination hw1 - hw2⟩

end NTV.PolyMod

namespace NTV.PolyMod
open NTV.PolyG NTV.Hensel

/-! ### monic coefficient lists: `lc l = 1` (this implies non-empty and canonical) -/

theorem lc_eq_getLast (l : List Int) (h : l ≠ []) : lc l = l.getLast h := by
  unfold lc
  rw [List.getLastD_eq_getLast?, List.getLast?_eq_some_getLast h]; rfl

theorem ne_nil_of_lc_ne_zero (l : List Int) (h : lc l ≠ 0) : l ≠ [] := by
  rintro rfl; simp [lc] at h

theorem canon_of_lc_ne_zero (l : List Int) (h : lc l ≠ 0) : Canon l := by
  intro hne; rw [← lc_eq_getLast l hne]; exact h

theorem monic_toPoly (l : List Int) (h : lc l = 1) :
    (toPoly l).Monic ∧ (toPoly l).natDegree = l.length - 1 ∧ l ≠ [] ∧ Canon l := by
  have h0 : lc l ≠ 0 := by rw [h]; exact one_ne_zero
  have hne := ne_nil_of_lc_ne_zero l h0
  have hc := canon_of_lc_ne_zero l h0
  obtain ⟨d1, d2, _⟩ := natDegree_toPoly l hne hc
  exact ⟨by rw [Monic, d2, h], d1, hne, hc⟩

/-- a reduced canonical list congruent modulo m > 1 to a polynomial that is "monic of degree n
modulo m" is monic of length n + 1 -/
theorem monic_of_cong (m : Int) (hm : 1 < m) (g : List Int) (hr : Reduced m g) (hc : Canon g) (H : ℤ[X]) (n : Nat)
    (hcong : PCong m (toPoly g) H) (hdeg : ∀ j, n < j → m ∣ H.coeff j) (hn : m ∣ H.coeff n - 1) :
    g.length = n + 1 ∧ lc g = 1 := by
  have key : ∀ j, m ∣ g.getD j 0 - H.coeff j := by
    intro j
    have := (pcong_iff m _ _).mp hcong j
    rwa [coeff_sub, coeff_toPoly] at this
  have hz : ∀ j, n < j → g.getD j 0 = 0 := by
    intro j hj
    have h1 : m ∣ g.getD j 0 := by
      have := Int.dvd_add (key j) (hdeg j hj)
      simpa using this
    exact Int.eq_zero_of_dvd_of_nonneg_of_lt (hr j).1 (hr j).2 h1
  have hone : g.getD n 0 = 1 := by
    have h1 : m ∣ g.getD n 0 - 1 := by
      have := Int.dvd_add (key n) hn
      have e : g.getD n 0 - H.coeff n + (H.coeff n - 1) = g.getD n 0 - 1 := by ring
      rwa [e] at this
    have := Int.eq_zero_of_abs_lt_dvd h1 (by
      rw [abs_lt]; have := hr n; constructor <;> omega)
    omega
  have hne : g ≠ [] := by rintro rfl; simp at hone
  have hlast := getLast_eq_getD g hne
  have hnz := hc hne
  rw [hlast] at hnz
  have hlen1 : g.length - 1 ≤ n := by
    by_contra hh
    exact hnz (hz _ (by omega))
  have hlen2 : n < g.length := by
    by_contra hh
    have := getD_of_length_le g n (by omega)
    omega
  have hlen : g.length = n + 1 := by omega
  refine ⟨hlen, ?_⟩
  rw [← lc_eq_getD g hne, hlen]
  simpa using hone

/-- if C ≡ A·B modulo m > 1 with A, C monic and B reduced and canonical, then B is monic and
deg B + deg A = deg C -/
theorem monic_cofactor (m : Int) (hm : 1 < m) (A Cc : ℤ[X]) (hA : A.Monic) (hC : Cc.Monic) (b : List Int)
    (hr : Reduced m b) (hc : Canon b) (hcong : PCong m Cc (A * toPoly b)) :
    lc b = 1 ∧ b.length - 1 + A.natDegree = Cc.natDegree ∧ b ≠ [] := by
  have key : ∀ j, m ∣ Cc.coeff j - (A * toPoly b).coeff j := by
    intro j
    have := (pcong_iff m _ _).mp hcong j
    rwa [coeff_sub] at this
  have hC1 : Cc.coeff Cc.natDegree = 1 := hC
  have hne : b ≠ [] := by
    rintro rfl
    have := key Cc.natDegree
    simp only [toPoly, mul_zero, coeff_zero, sub_zero, hC1] at this
    have := Int.eq_one_of_dvd_one (by omega) this
    omega
  obtain ⟨d1, d2, d3⟩ := natDegree_toPoly b hne hc
  have hlc0 := lc_ne_zero b hne hc
  have hlcr := hr (b.length - 1)
  rw [lc_eq_getD b hne] at hlcr
  have hdeg : (A * toPoly b).natDegree = A.natDegree + (b.length - 1) := by
    rw [hA.natDegree_mul' d3, d1]
  have hlead : (A * toPoly b).coeff (A.natDegree + (b.length - 1)) = lc b := by
    rw [← hdeg, coeff_natDegree, leadingCoeff_monic_mul hA, d2]
  have hnd : ¬ m ∣ lc b := fun hd =>
    hlc0 (Int.eq_zero_of_dvd_of_nonneg_of_lt hlcr.1 hlcr.2 hd)
  have heq : A.natDegree + (b.length - 1) = Cc.natDegree := by
    rcases lt_trichotomy (A.natDegree + (b.length - 1)) Cc.natDegree with hlt | he | hgt
    · exfalso
      have := key Cc.natDegree
      rw [hC1, coeff_eq_zero_of_natDegree_lt (by rw [hdeg]; exact hlt), sub_zero] at this
      have := Int.eq_one_of_dvd_one (by omega) this
      omega
    · exact he
    · exfalso
      have := key (A.natDegree + (b.length - 1))
      rw [hlead, coeff_eq_zero_of_natDegree_lt hgt, zero_sub] at this
      exact hnd ((Int.dvd_neg).mp this)
  refine ⟨?_, by omega, hne⟩
  have := key Cc.natDegree
  rw [hC1, ← heq, hlead] at this
  have := Int.eq_zero_of_abs_lt_dvd this (by rw [abs_lt]; constructor <;> omega)
  omega

end NTV.PolyMod
