import NTV.Proofs.Lemmas.HnfGlue
import NTV.Proofs.Lemmas.HnfUnique
namespace NTV.Hnf
open Matrix Finset

/-- row lattice of a list matrix, as a predicate on vectors -/
def InLattice (n m : Nat) (A : Mat) (v : Fin m → ℤ) : Prop := ∃ c : Fin n → ℤ, c ᵥ* toM n m A = v

theorem IsHNF.toF {H : Mat} {m : Nat} {pv : List Nat} (h : IsHNF H m pv) : NTV.HnfU.HnfF (ent H) m pv where
  incr := h.incr
  lt := h.lt
  pos := h.pos
  last := h.last
  below := by
    intro s hs s' hss' hs'
    exact h.below s hs s' hss' (by rw [← h.len]; exact hs')

/-- two rectangular list matrices with the same entries are equal -/
theorem mat_ext {r m : Nat} (H1 H2 : Mat) (h1 : Rect r m H1) (h2 : Rect r m H2)
    (he : ∀ i < r, ∀ j < m, ent H1 i j = ent H2 i j) : H1 = H2 := by
  apply List.ext_getElem (by rw [h1.1, h2.1])
  intro i hi1 hi2
  have hl1 : (H1[i]).length = m := h1.2 _ (List.getElem_mem hi1)
  have hl2 : (H2[i]).length = m := h2.2 _ (List.getElem_mem hi2)
  apply List.ext_getElem (by rw [hl1, hl2])
  intro j hj1 hj2
  have := he i (by rw [← h1.1]; exact hi1) j (by rw [← hl1]; exact hj1)
  simp only [ent, List.getD_eq_getElem?_getD, List.getElem?_eq_getElem hi1, List.getElem?_eq_getElem hi2,
    Option.getD_some, List.getElem?_eq_getElem hj1, List.getElem?_eq_getElem hj2] at this
  exact this

theorem sum_fin_tail (n k : ℕ) (hk : k ≤ n) (f : ℕ → ℤ) (h0 : ∀ i < k, f i = 0) :
    ∑ i : Fin n, f i.val = ∑ s ∈ range (n - k), f (k + s) := by
  rw [Fin.sum_univ_eq_sum_range f n]
  have hn : n = k + (n - k) := by omega
  conv_lhs => rw [hn]
  rw [Finset.sum_range_add]
  have : ∑ x ∈ range k, f x = 0 := Finset.sum_eq_zero (fun i hi => h0 i (Finset.mem_range.mp hi))
  rw [this, zero_add]

namespace Result
variable {A : Mat} {n m : Nat} {H U : Mat} {k : Nat} {W : Mat} {pv : List Nat}

theorem rectH (R : Result A n m H U k W pv) : Rect (n - k) m H := by
  refine ⟨R.lenH, ?_⟩
  intro r hr
  rw [R.hH] at hr
  exact R.rW.2 r (List.mem_of_mem_drop hr)

/-- a vector of the lattice of `A`, written on the rows of `H` with coefficients indexed by ℕ -/
theorem lattice_as_sum (R : Result A n m H U k W pv) (v : Fin m → ℤ) (hv : InLattice n m A v) :
    ∃ c : ℕ → ℤ, ∀ col (hc : col < m), v ⟨col, hc⟩ = ∑ s ∈ range pv.length, c s * ent H s col := by
  obtain ⟨d, hd0, hd⟩ := (R.span_eq v).mp hv
  refine ⟨fun s => if h : k + s < n then d ⟨k + s, h⟩ else 0, ?_⟩
  intro col hc
  rw [← hd]
  simp only [Matrix.vecMul, dotProduct]
  let f : ℕ → ℤ := fun i => if h : i < n then d ⟨i, h⟩ * ent W i col else 0
  have e1 : ∑ x : Fin n, d x * toM n m W x ⟨col, hc⟩ = ∑ x : Fin n, f x.val := by
    apply Finset.sum_congr rfl
    intro x _
    simp [f, toM, x.isLt]
  rw [e1, sum_fin_tail n k R.hk f (by
    intro i hi
    simp only [f]
    split
    · rename_i h; rw [hd0 ⟨i, h⟩ hi]; ring
    · rfl), R.lenPv]
  apply Finset.sum_congr rfl
  intro s hs
  have hs' : k + s < n := by have := Finset.mem_range.mp hs; have := R.hk; omega
  simp only [f, hs', ↓reduceDIte, R.hH, ent_drop]

/-- each row of `H` lies in the lattice of `A` -/
theorem row_in_lattice (R : Result A n m H U k W pv) (t : Nat) (ht : t < pv.length) :
    InLattice n m A (fun col => ent H t col.val) := by
  have htn : k + t < n := by have := R.lenPv; have := R.hk; omega
  apply (R.span_eq _).mpr
  refine ⟨Pi.single ⟨k + t, htn⟩ 1, ?_, ?_⟩
  · intro r hr
    have : r ≠ ⟨k + t, htn⟩ := by intro e; rw [e] at hr; simp at hr
    simp [Pi.single_apply, this]
  · rw [Matrix.single_one_vecMul]
    ext col
    simp [toM, R.hH, ent_drop]

end Result

/-- C02 canonicity: two rectangular matrices with the same row lattice have the same normal form -/
theorem hnf_canonical (A A' : Mat) (n n' m : Nat) (hr : Rect n m A) (hr' : Rect n' m A')
    (hn : 0 < n) (hn' : 0 < n') (hm : 0 < m)
    (hsame : ∀ v : Fin m → ℤ, InLattice n m A v ↔ InLattice n' m A' v) :
    hnfNew A = hnfNew A' := by
  have t1 := hnfWithU_total A n m hr
  have t2 := hnfWithU_total A' n' m hr'
  obtain ⟨⟨H, U, k⟩, h1⟩ := Option.isSome_iff_exists.mp t1
  obtain ⟨⟨H', U', k'⟩, h2⟩ := Option.isSome_iff_exists.mp t2
  obtain ⟨W, pv, R⟩ := Result.of_spec A n m hr hn hm H U k h1
  obtain ⟨W', pv', R'⟩ := Result.of_spec A' n' m hr' hn' hm H' U' k' h2
  simp only [hnfNew, h1, h2, Option.map_some, Option.some.injEq]
  have key := NTV.HnfU.hnf_unique_F R.shape.toF R'.shape.toF
    (by
      intro r hrlt
      obtain ⟨c, hc⟩ := R.lattice_as_sum _ ((hsame _).mpr (R'.row_in_lattice r hrlt))
      exact ⟨c, fun col hcol => hc col hcol⟩)
    (by
      intro r hrlt
      obtain ⟨c, hc⟩ := R'.lattice_as_sum _ ((hsame _).mp (R.row_in_lattice r hrlt))
      exact ⟨c, fun col hcol => hc col hcol⟩)
  obtain ⟨hpv, hent⟩ := key
  have hlen : n - k = n' - k' := by rw [← R.lenPv, ← R'.lenPv, hpv]
  have rH := R.rectH
  have rH' := R'.rectH
  rw [← hlen] at rH'
  exact mat_ext H H' rH rH' (fun i hi j hj => hent i (by rw [R.lenPv]; exact hi) j hj)

end NTV.Hnf
