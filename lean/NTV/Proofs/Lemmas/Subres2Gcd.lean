import NTV.Proofs.Lemmas.Subres2Loop
import NTV.Proofs.Lemmas.GcdShape
/-! # Exactness and totality of `resultant_smart_gcd` on non-zero canonical inputs. -/
open Polynomial
namespace NTV.Res
open NTV.PolyG NTV.Subres

/-- `resultant_smart_gcd` never panics, never runs out of fuel and performs only exact divisions on
non-zero canonical input -/
theorem resultantSmartGcd_total (f g : List Int) (hf : f ≠ []) (hg : g ≠ []) (hcf : Canon f) (hcg : Canon g) :
    ∃ r, resultantSmartGcdE f g = some (.ok (r, true)) := by
  unfold resultantSmartGcdE
  have he : f.isEmpty = false := by cases f <;> simp_all
  simp only [he, Bool.false_eq_true, ↓reduceIte, bind, Except.bind, content_ok f hf hcf, content_ok g hg hcg,
    polyDiv_content f hf hcf, polyDiv_content g hg hcg, pure, Except.pure]
  have hsp1 := contPP_spec f hf hcf
  have hsp2 := contPP_spec g hg hcg
  obtain ⟨f2, hl⟩ := gcdLoop_total ((contPP f).2.length + (contPP g).2.length + 3) (contPP f).2 (contPP g).2 1 1 true
    (MInv_init _ _ hsp1.2.2.2 hsp2.2.2.2) (need_le _ _)
  rw [hl]
  obtain ⟨hc2, hne2⟩ := gcdLoop_canon _ _ _ _ _ _ f2 hsp1.2.2.2 hsp2.2.2.2 (pp_ne_nil f hf hcf) hl
  simp only [content_ok f2 hne2 hc2, polyDiv_content f2 hne2 hc2]
  exact ⟨_, rfl⟩

/-- (T2) the exactness flag of `resultant_smart_gcd` is always set -/
theorem resultantSmartGcd_flag (f g : List Int) (hf : f ≠ []) (hg : g ≠ []) (hcf : Canon f) (hcg : Canon g)
    (r : List Int) (ok : Bool) (h : resultantSmartGcdE f g = some (.ok (r, ok))) : ok = true := by
  obtain ⟨r', hr⟩ := resultantSmartGcd_total f g hf hg hcf hcg
  rw [hr] at h
  simp only [Option.some.injEq, Except.ok.injEq, Prod.mk.injEq] at h
  exact h.2.symm

end NTV.Res
