import NTV.Proofs.Lemmas.MaxOrderClosedC
/-! # For monic `f` the result of `find_integral_basis` contains ℤ[θ].

The matrix handed to `hnf_reduce` by `non_monic_initial_order` is integral and lower triangular with diagonal
`1, lc f, …, lc f`; for monic `f` it is unimodular, so the starting order is ℤ[θ] = ℤⁿ and the powers of θ have integral
coordinates in every order containing the starting order: `Cm · O = 1` for an integer matrix `Cm` (the hypothesis of the
Kummer–Dedekind theorems of C17). -/
open Matrix Finset Polynomial
namespace NTV.MaxOrd
open NTV.Ord NTV.PolyG NTV.Round2
open NTV.RowOps (toM Rect ent)

/-- the start basis as an integer matrix -/
def startZ (f : List Int) : Matrix (Fin (degU f)) (Fin (degU f)) ℤ := fun i j =>
  if i.val = 0 then (if j.val = 0 then 1 else 0)
  else if 1 ≤ j.val ∧ j.val ≤ i.val then coefAt f (degU f - (i.val - j.val)) else 0

theorem startBasis_toM (f : List Int) :
    toM (degU f) (degU f) (startBasis f) = (startZ f).map (Int.castRingHom ℚ) := by
  ext i j
  simp only [toM, ent, startBasis, startZ, Matrix.map_apply, Int.coe_castRingHom]
  simp only [List.getD_eq_getElem?_getD, List.getElem?_map, List.getElem?_range i.isLt, Option.map_some,
    Option.getD_some, List.getElem?_range j.isLt]
  split_ifs <;> simp

theorem startZ_det (f : List Int) (hmonic : coefAt f (degU f) = 1) : (startZ f).det = 1 := by
  have hdet : (startZ f).det = ∏ i : Fin (degU f), startZ f i i := by
    apply det_of_isLowerTriangular
    intro i j hij
    have hij' : i.val < j.val := hij
    unfold startZ
    split_ifs with h1 h2 h3
    · omega
    · rfl
    · omega
    · rfl
  rw [hdet]
  apply Finset.prod_eq_one
  intro i _
  unfold startZ
  split_ifs with h1 h2
  · rfl
  · rw [Nat.sub_self, Nat.sub_zero, hmonic]
  · omega

/-- for monic `f` the starting order of `find_integral_basis` is ℤⁿ = ℤ[θ]: its stored basis is an integer matrix with
unit determinant -/
theorem start_unimodular (f : List Int) (hmonic : coefAt f (degU f) = 1) (S : QMat)
    (hS : nonMonicInitialOrder f = .ok S) :
    ∃ W : Matrix (Fin (degU f)) (Fin (degU f)) ℤ, IsUnit W.det ∧
      toM (degU f) (degU f) S = W.map (Int.castRingHom ℚ) := by
  obtain ⟨hn, hred⟩ := nonMonicInitialOrder_inv f S hS
  have dB : (toM (degU f) (degU f) (startBasis f)).det ≠ 0 := by
    rw [startBasis_toM, det_map_cast, startZ_det f hmonic]; simp
  obtain ⟨O, hO, _, U, hU, hrel⟩ := fromBasis_spans (startBasis f) _ hn (startBasis_rect f) dB
  have hOS : O = S := by
    unfold fromBasis at hO
    rw [hred] at hO
    injection hO with hO
    exact hO.symm
  subst hOS
  refine ⟨U * startZ f, ?_, ?_⟩
  · rw [Matrix.det_mul, startZ_det f hmonic, mul_one]; exact hU
  · rw [hrel, startBasis_toM, Matrix.map_mul]

/-- **ℤ[θ] ⊆ O for monic f**: if `find_integral_basis(f)` returns `O` then the powers of θ have integral coordinates
on the basis `O` -/
theorem findIntegralBasis_contains_power_basis (f : List Int) (hmonic : coefAt f (degU f) = 1) (O : Order)
    (H : findIntegralBasis f = .ok O) :
    ∃ Cm : Matrix (Fin (degU f)) (Fin (degU f)) ℤ,
      Cm.map (Int.castRingHom ℚ) * toM (degU f) (degU f) O = 1 := by
  have H' := H
  unfold findIntegralBasis at H'
  obtain ⟨S, hS, H'⟩ := (bind_ok _ _ _).mp H'
  obtain ⟨dS, hdS, H'⟩ := (bind_ok _ _ _).mp H'
  split at H'
  · cases H'
  · rename_i hd0
    obtain ⟨hn, rS, dtS, sS, _⟩ := start_good f S dS hS hdS hd0
    have hfac := NTV.Trial.factorize_correct dS.natAbs (by omega)
    obtain ⟨i, ext, _⟩ := fold_ext f hn (NTV.Trial.factorize dS.natAbs)
      (fun pe hpe => ((hfac.2.1 pe hpe).1).pos) S O rS dtS sS H'
    obtain ⟨P, hP⟩ := ext.sub
    obtain ⟨W, hW, hSW⟩ := start_unimodular f hmonic S hS
    refine ⟨W⁻¹ * P, ?_⟩
    rw [Matrix.map_mul, Matrix.mul_assoc, ← hP, hSW, ← Matrix.map_mul, Matrix.nonsing_inv_mul _ hW]
    simp

theorem coefAt_degU_of_monic (f : List Int) (n : Nat) (hfl : f.length = n + 1) (hmonic : lc f = 1) :
    degU f = n ∧ coefAt f (degU f) = 1 ∧ Canon f := by
  have hne : f ≠ [] := by intro e; simp [e] at hfl
  have hemp : f.isEmpty = false := by cases f <;> simp_all
  have hdeg : degU f = n := by simp [degU, hemp, hfl]
  refine ⟨hdeg, ?_, ?_⟩
  · rw [hdeg]
    have := lc_eq_getD f hne
    rw [hfl, Nat.add_sub_cancel] at this
    unfold coefAt
    rw [this, hmonic]
  · intro h
    rw [getLast_eq_getD f h, lc_eq_getD f h, hmonic]
    exact one_ne_zero

end NTV.MaxOrd
