import Mathlib.RingTheory.Polynomial.Resultant.Basic
import Mathlib.Tactic
open Polynomial
namespace NTV.Subres

/-- One step of the subresultant recurrence of `resultant_smart`, assuming the two divisions it
performs are exact (`hG'`, `hb'`). Invariant: `R0 * b^(m-1) * a^n = s * Res(F, G)`. -/
theorem subres_step (F G Q P G' : ℤ[X]) (a b L b' R0 s : ℤ) (n1 δ k e : ℕ)
    -- degrees: deg G = n = n1+1, deg F = m = n + δ, deg G' = deg P = k, m = k + e
    (hF : F.natDegree = n1 + 1 + δ) (hG : G.natDegree = n1 + 1) (hL : G.leadingCoeff = L)
    (hQ : Q.natDegree ≤ δ)
    (hprem : C (L ^ (δ + 1)) * F = Q * G + P)
    (hG' : C (a * b ^ δ) * G' = P) (hk : G'.natDegree = k) (hke : k + e = n1 + 1 + δ)
    (hb' : b' * b ^ δ = L ^ δ * b) (ha : a ≠ 0) (hb : b ≠ 0) (hL0 : L ≠ 0)
    (hinv : R0 * b ^ (n1 + δ) * a ^ (n1 + 1) = s * resultant F G) :
    R0 * b' ^ n1 * L ^ k = (s * (-1) ^ ((n1 + 1 + δ) * (n1 + 1))) * resultant G G' := by
  have hab : a * b ^ δ ≠ 0 := mul_ne_zero ha (pow_ne_zero _ hb)
  have hPdeg : P.natDegree = k := by
    rw [← hG', natDegree_C_mul hab, hk]
  -- E1: scaling the second argument
  have E1 : resultant G P (n1 + 1) k = (a * b ^ δ) ^ (n1 + 1) * resultant G G' := by
    rw [← hG']
    have := resultant_C_mul_right G G' (n1 + 1) k (a * b ^ δ)
    rw [this, hG, hk]
  -- E2: raising the formal degree of the second argument from k to m
  have E2 : resultant G P (n1 + 1) (k + e) = L ^ e * resultant G P (n1 + 1) k := by
    have := resultant_add_right_deg G P (n1 + 1) k e (by rw [hPdeg])
    rw [this]
    congr 2
    rw [← hG, ← hL]; rfl
  -- E3: P = L^(δ+1) F + G * (-Q)
  have hP : P = C (L ^ (δ + 1)) * F + G * (-Q) := by linear_combination -hprem
  have E3 : resultant G P (n1 + 1) (n1 + 1 + δ) = resultant G (C (L ^ (δ + 1)) * F) (n1 + 1) (n1 + 1 + δ) := by
    rw [hP]
    apply resultant_add_mul_right
    · rw [natDegree_neg]; omega
    · rw [hG]
  -- E4, E5
  have E4 : resultant G (C (L ^ (δ + 1)) * F) (n1 + 1) (n1 + 1 + δ)
      = (L ^ (δ + 1)) ^ (n1 + 1) * resultant G F (n1 + 1) (n1 + 1 + δ) :=
    resultant_C_mul_right G F (n1 + 1) (n1 + 1 + δ) _
  have E5 : resultant G F (n1 + 1) (n1 + 1 + δ) = (-1) ^ ((n1 + 1) * (n1 + 1 + δ)) * resultant F G := by
    have := resultant_comm G F (n1 + 1) (n1 + 1 + δ)
    rw [this, hF, hG]
  -- combine
  have key : (a * b ^ δ) ^ (n1 + 1) * L ^ e * resultant G G'
      = (L ^ (δ + 1)) ^ (n1 + 1) * ((-1) ^ ((n1 + 1) * (n1 + 1 + δ)) * resultant F G) := by
    rw [← E5, ← E4, ← E3, ← hke, E2, E1]; ring
  -- cancel the non-zero factor X
  have hX : (a * b ^ δ) ^ (n1 + 1) * L ^ e * b ^ (δ * n1) ≠ 0 :=
    mul_ne_zero (mul_ne_zero (pow_ne_zero _ hab) (pow_ne_zero _ hL0)) (pow_ne_zero _ hb)
  apply mul_left_cancel₀ hX
  have hsq : ((-1 : ℤ) ^ ((n1 + 1 + δ) * (n1 + 1))) * ((-1) ^ ((n1 + 1) * (n1 + 1 + δ))) = 1 := by
    rw [mul_comm (n1 + 1 + δ), ← pow_add, ← two_mul, pow_mul]; simp
  have hbp : b' ^ n1 * b ^ (δ * n1) = (L ^ δ * b) ^ n1 := by
    rw [← hb', mul_pow, ← pow_mul]
  calc (a * b ^ δ) ^ (n1 + 1) * L ^ e * b ^ (δ * n1) * (R0 * b' ^ n1 * L ^ k)
      = R0 * a ^ (n1 + 1) * (b ^ δ) ^ (n1 + 1) * L ^ e * L ^ k * (b' ^ n1 * b ^ (δ * n1)) := by ring
    _ = R0 * a ^ (n1 + 1) * (b ^ δ) ^ (n1 + 1) * L ^ (k + e) * (L ^ δ * b) ^ n1 := by rw [hbp, pow_add]; ring
    _ = (L ^ (δ + 1)) ^ (n1 + 1) * b ^ (δ * n1) * (R0 * b ^ (n1 + δ) * a ^ (n1 + 1)) := by rw [hke]; ring
    _ = (L ^ (δ + 1)) ^ (n1 + 1) * b ^ (δ * n1) * (s * resultant F G) := by rw [hinv]
    _ = b ^ (δ * n1) * s * ((-1 : ℤ) ^ ((n1 + 1 + δ) * (n1 + 1)) * (-1) ^ ((n1 + 1) * (n1 + 1 + δ))) *
          ((L ^ (δ + 1)) ^ (n1 + 1) * resultant F G) := by rw [hsq]; ring
    _ = b ^ (δ * n1) * s * (-1 : ℤ) ^ ((n1 + 1 + δ) * (n1 + 1)) *
          ((L ^ (δ + 1)) ^ (n1 + 1) * ((-1) ^ ((n1 + 1) * (n1 + 1 + δ)) * resultant F G)) := by ring
    _ = b ^ (δ * n1) * s * (-1 : ℤ) ^ ((n1 + 1 + δ) * (n1 + 1)) *
          ((a * b ^ δ) ^ (n1 + 1) * L ^ e * resultant G G') := by rw [key]
    _ = (a * b ^ δ) ^ (n1 + 1) * L ^ e * b ^ (δ * n1) *
          ((s * (-1) ^ ((n1 + 1 + δ) * (n1 + 1))) * resultant G G') := by ring

end NTV.Subres
