import Mathlib.LinearAlgebra.Matrix.DotProduct
import Mathlib.LinearAlgebra.Dimension.OrzechProperty
import Mathlib.LinearAlgebra.LinearIndependent.Basic
import Mathlib.LinearAlgebra.Span.Basic
import Mathlib.Algebra.Order.Field.Rat
import Mathlib.Tactic.Ring
import Mathlib.Tactic.FieldSimp
/-! Mathematical Gram–Schmidt orthogonalisation over `ℚ` (no square roots, dot product `⬝ᵥ`),
defined from the textbook recursion, together with the properties that characterise it:
recursion equation, pairwise orthogonality, equality of the spans of every initial segment,
and "all `b*_i ≠ 0` iff the `b_i` are linearly independent". Independent of any code. -/
open Matrix
namespace NTV.LllCheck
variable {m : Nat}

/-- Gram–Schmidt vectors of the sequence `b 0, b 1, …` of vectors of `ℚ^m`:
`b*_i = b_i − Σ_{j<i} (⟨b_i, b*_j⟩ / ⟨b*_j, b*_j⟩) b*_j`; the quotient is `0` when `b*_j = 0`
(Lean's `x / 0 = 0`; see `gsMu_of_eq_zero`). -/
def bstar (b : Nat → Fin m → ℚ) : Nat → Fin m → ℚ
  | i => b i - ∑ j : Fin i, ((b i ⬝ᵥ bstar b j) / (bstar b j ⬝ᵥ bstar b j)) • bstar b j
termination_by i => i
decreasing_by exact j.2

/-- Gram–Schmidt coefficient `μ_{i,j} = ⟨b_i, b*_j⟩ / ⟨b*_j, b*_j⟩`. -/
def gsMu (b : Nat → Fin m → ℚ) (i j : Nat) : ℚ := (b i ⬝ᵥ bstar b j) / (bstar b j ⬝ᵥ bstar b j)

theorem gsMu_of_eq_zero (b : Nat → Fin m → ℚ) (i j : Nat) (h : bstar b j = 0) : gsMu b i j = 0 := by
  simp [gsMu, h]

/-- the defining recursion: `b*_i = b_i − Σ_{j<i} μ_{i,j} b*_j`. -/
theorem bstar_eq (b : Nat → Fin m → ℚ) (i : Nat) :
    bstar b i = b i - ∑ j ∈ Finset.range i, gsMu b i j • bstar b j := by
  rw [bstar, Finset.sum_range (fun j => gsMu b i j • bstar b j)]
  rfl

/-- `b_i = b*_i + Σ_{j<i} μ_{i,j} b*_j`. -/
theorem b_eq (b : Nat → Fin m → ℚ) (i : Nat) :
    b i = bstar b i + ∑ j ∈ Finset.range i, gsMu b i j • bstar b j := by
  rw [bstar_eq b i]; abel

theorem dot_self_eq_zero (v : Fin m → ℚ) : v ⬝ᵥ v = 0 ↔ v = 0 := dotProduct_self_eq_zero

theorem dot_self_nonneg (v : Fin m → ℚ) : 0 ≤ v ⬝ᵥ v := by
  unfold dotProduct
  exact Finset.sum_nonneg (fun i _ => mul_self_nonneg _)

theorem dot_self_pos (v : Fin m → ℚ) : 0 < v ⬝ᵥ v ↔ v ≠ 0 := by
  rw [lt_iff_le_and_ne]
  constructor
  · rintro ⟨_, h⟩ hv; exact h (by simp [hv])
  · intro h; exact ⟨dot_self_nonneg v, fun e => h ((dot_self_eq_zero v).1 e.symm)⟩

/-- `μ_{i,j} ⟨b*_j, b*_j⟩ = ⟨b_i, b*_j⟩` (also when `b*_j = 0`). -/
theorem gsMu_mul (b : Nat → Fin m → ℚ) (i j : Nat) :
    gsMu b i j * (bstar b j ⬝ᵥ bstar b j) = b i ⬝ᵥ bstar b j := by
  unfold gsMu
  by_cases h : bstar b j ⬝ᵥ bstar b j = 0
  · have := (dot_self_eq_zero _).1 h
    simp [this]
  · field_simp

/-- pairwise orthogonality, ordered form -/
theorem bstar_orth_lt (b : Nat → Fin m → ℚ) : ∀ i j, j < i → bstar b i ⬝ᵥ bstar b j = 0 := by
  intro i
  induction i using Nat.strong_induction_on with
  | _ i ih =>
    intro j hj
    rw [bstar_eq b i, sub_dotProduct, sum_dotProduct]
    rw [Finset.sum_eq_single_of_mem j (Finset.mem_range.2 hj)]
    · rw [smul_dotProduct, smul_eq_mul, gsMu_mul, sub_self]
    · intro k hk hkj
      rw [Finset.mem_range] at hk
      rw [smul_dotProduct]
      rcases Nat.lt_or_gt_of_ne hkj with h | h
      · rw [dotProduct_comm, ih j hj k h, smul_zero]
      · rw [ih k hk j h, smul_zero]

/-- **Orthogonality** of the Gram–Schmidt vectors. -/
theorem bstar_orth (b : Nat → Fin m → ℚ) (i j : Nat) (h : i ≠ j) : bstar b i ⬝ᵥ bstar b j = 0 := by
  rcases Nat.lt_or_gt_of_ne h with h | h
  · rw [dotProduct_comm]; exact bstar_orth_lt b j i h
  · exact bstar_orth_lt b i j h

/-- `⟨b_i, b*_i⟩ = ⟨b*_i, b*_i⟩` -/
theorem b_dot_bstar_self (b : Nat → Fin m → ℚ) (i : Nat) : b i ⬝ᵥ bstar b i = bstar b i ⬝ᵥ bstar b i := by
  conv_lhs => rw [b_eq b i]
  rw [add_dotProduct, sum_dotProduct, Finset.sum_eq_zero, add_zero]
  intro j hj
  rw [Finset.mem_range] at hj
  rw [smul_dotProduct, bstar_orth b j i (by omega), smul_zero]

/-- `⟨b_i, b*_j⟩ = 0` for `i < j`: `b*_j` is orthogonal to all earlier basis vectors. -/
theorem b_dot_bstar_of_lt (b : Nat → Fin m → ℚ) (i j : Nat) (h : i < j) : b i ⬝ᵥ bstar b j = 0 := by
  rw [b_eq b i, add_dotProduct, sum_dotProduct, bstar_orth b i j (by omega), zero_add]
  apply Finset.sum_eq_zero
  intro k hk
  rw [Finset.mem_range] at hk
  rw [smul_dotProduct, bstar_orth b k j (by omega), smul_zero]

/-- **Span equality** for every initial segment. -/
theorem span_bstar (b : Nat → Fin m → ℚ) (k : Nat) :
    Submodule.span ℚ (bstar b '' Set.Iio k) = Submodule.span ℚ (b '' Set.Iio k) := by
  induction k with
  | zero => simp
  | succ k ih =>
    have hI : Set.Iio (k + 1) = insert k (Set.Iio k) := by
      ext x; simp only [Set.mem_Iio, Set.mem_insert_iff]; omega
    rw [hI, Set.image_insert_eq, Set.image_insert_eq, Submodule.span_insert, Submodule.span_insert, ih]
    have hs : ∑ j ∈ Finset.range k, gsMu b k j • bstar b j ∈ Submodule.span ℚ (b '' Set.Iio k) := by
      rw [← ih]
      apply Submodule.sum_mem
      intro j hj
      exact Submodule.smul_mem _ _ (Submodule.subset_span ⟨j, Finset.mem_range.1 hj, rfl⟩)
    apply le_antisymm
    · apply sup_le _ le_sup_right
      rw [Submodule.span_singleton_le_iff_mem, bstar_eq b k]
      apply Submodule.sub_mem
      · exact Submodule.mem_sup_left (Submodule.mem_span_singleton_self _)
      · exact Submodule.mem_sup_right hs
    · apply sup_le _ le_sup_right
      rw [Submodule.span_singleton_le_iff_mem, b_eq b k]
      apply Submodule.add_mem
      · exact Submodule.mem_sup_left (Submodule.mem_span_singleton_self _)
      · exact Submodule.mem_sup_right hs

/-- span equality for the first `n` vectors, as families indexed by `Fin n`. -/
theorem span_range_bstar (b : Nat → Fin m → ℚ) (n : Nat) :
    Submodule.span ℚ (Set.range (fun i : Fin n => bstar b i)) =
      Submodule.span ℚ (Set.range (fun i : Fin n => b i)) := by
  have h : ∀ f : Nat → Fin m → ℚ, Set.range (fun i : Fin n => f i) = f '' Set.Iio n := by
    intro f; ext x
    simp only [Set.mem_range, Set.mem_image, Set.mem_Iio]
    constructor
    · rintro ⟨i, rfl⟩; exact ⟨i, i.2, rfl⟩
    · rintro ⟨i, hi, rfl⟩; exact ⟨⟨i, hi⟩, rfl⟩
  rw [h, h, span_bstar]

/-- nonzero pairwise orthogonal vectors are linearly independent -/
theorem linearIndependent_of_orth {n : Nat} (w : Fin n → Fin m → ℚ) (h0 : ∀ i, w i ≠ 0)
    (ho : ∀ i j, i ≠ j → w i ⬝ᵥ w j = 0) : LinearIndependent ℚ w := by
  rw [Fintype.linearIndependent_iff]
  intro g hg i
  have := congrArg (fun v => v ⬝ᵥ w i) hg
  simp only [sum_dotProduct, smul_dotProduct, zero_dotProduct] at this
  rw [Finset.sum_eq_single_of_mem i (Finset.mem_univ _)] at this
  · rcases mul_eq_zero.1 this with h | h
    · exact h
    · exact absurd ((dot_self_eq_zero _).1 h) (h0 i)
  · intro j _ hj
    rw [ho j i hj, smul_zero]

/-- **Independence criterion**: all Gram–Schmidt vectors `b*_0 … b*_{n-1}` are nonzero iff
`b_0 … b_{n-1}` are linearly independent over `ℚ`. -/
theorem bstar_ne_zero_iff (b : Nat → Fin m → ℚ) (n : Nat) :
    (∀ i, i < n → bstar b i ≠ 0) ↔ LinearIndependent ℚ (fun i : Fin n => b i) := by
  constructor
  · intro h
    have hli : LinearIndependent ℚ (fun i : Fin n => bstar b i) :=
      linearIndependent_of_orth _ (fun i => h i i.2)
        (fun i j hij => bstar_orth b i j (fun e => hij (Fin.ext e)))
    rw [linearIndependent_iff_card_eq_finrank_span] at hli ⊢
    rw [hli]
    unfold Set.finrank
    rw [span_range_bstar]
  · intro h i hi h0
    have hmem : b i ∈ Submodule.span ℚ (b '' Set.Iio i) := by
      rw [← span_bstar, b_eq b i, h0, zero_add]
      apply Submodule.sum_mem
      intro j hj
      exact Submodule.smul_mem _ _ (Submodule.subset_span ⟨j, Finset.mem_range.1 hj, rfl⟩)
    have hni : (⟨i, hi⟩ : Fin n) ∉ {j : Fin n | (j : Nat) < i} := by simp
    apply h.notMem_span_image hni
    show b i ∈ _
    refine Submodule.span_mono ?_ hmem
    rintro x ⟨j, hj, rfl⟩
    exact ⟨⟨j, lt_trans hj hi⟩, hj, rfl⟩

/-- all `‖b*_i‖² > 0` iff linearly independent -/
theorem bstar_pos_iff (b : Nat → Fin m → ℚ) (n : Nat) :
    (∀ i, i < n → 0 < bstar b i ⬝ᵥ bstar b i) ↔ LinearIndependent ℚ (fun i : Fin n => b i) := by
  rw [← bstar_ne_zero_iff]
  simp only [dot_self_pos]

end NTV.LllCheck
