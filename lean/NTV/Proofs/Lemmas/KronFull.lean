import NTV.Proofs.Lemmas.KronProofs
import Mathlib.Data.Nat.Factorization.Basic
open NumberTheorySymbols jacobiSym ZMod
namespace NTV.Kron

/-- (a/2): 0 for even a, 1 for a ≡ ±1 (mod 8), −1 for a ≡ ±3 (mod 8) -/
def kronTwo (a : Int) : Int := if a % 2 = 0 then 0 else if a % 8 = 1 ∨ a % 8 = 7 then 1 else -1

theorem table_eq (x : Int) : table x = kronTwo x := by
  unfold table kronTwo
  have h8 : 0 ≤ x % 8 ∧ x % 8 < 8 := ⟨Int.emod_nonneg x (by norm_num), Int.emod_lt_of_pos x (by norm_num)⟩
  have h2 : x % 2 = (x % 8) % 2 := by omega
  rw [h2]
  generalize x % 8 = r at h8 ⊢
  obtain ⟨h0, h1⟩ := h8
  interval_cases r <;> simp

theorem table_chi8 (b : Nat) : table (b : Int) = χ₈ (b : ℤ) := by
  rw [table_eq, ZMod.χ₈_int_eq_if_mod_eight]; rfl

theorem table_odd (x : Int) (h : x % 2 = 1) : table x = 1 ∨ table x = -1 := by
  rw [table_eq]; unfold kronTwo
  have : ¬ x % 2 = 0 := by omega
  simp only [this, ↓reduceIte]
  split <;> simp

theorem removeTwos_spec (t : Nat) : ∀ (fuel : Nat) (y : Int) (v0 : Nat), y % 2 = 1 → t ≤ fuel →
    removeTwos fuel (y * 2 ^ t) v0 = (y, v0 + t) := by
  induction t with
  | zero =>
    intro fuel y v0 hy _
    cases fuel with
    | zero => simp [removeTwos]
    | succ f =>
      have : ¬ (y % 2 = 0) := by omega
      simp [removeTwos, this]
  | succ t ih =>
    intro fuel y v0 hy hf
    cases fuel with
    | zero => omega
    | succ f =>
      have hy0 : y ≠ 0 := by intro e; rw [e] at hy; simp at hy
      have heven : (y * 2 ^ (t + 1)) % 2 = 0 := by
        rw [pow_succ, ← mul_assoc]; exact Int.mul_emod_left _ _
      have hne : y * 2 ^ (t + 1) ≠ 0 := mul_ne_zero hy0 (by positivity)
      have hdiv : (y * 2 ^ (t + 1)).tdiv 2 = y * 2 ^ t := by
        rw [pow_succ, ← mul_assoc]; exact Int.mul_tdiv_cancel _ (by norm_num)
      simp only [removeTwos, heven, hne, ne_eq, not_false_eq_true, and_self, ↓reduceIte, hdiv]
      rw [ih f y (v0 + 1) hy (by omega)]
      congr 1; omega

/-- every non-zero integer is an odd integer times a power of two -/
theorem odd_decomp (x : Int) (hx : x ≠ 0) : ∃ (y : Int) (t : Nat), y % 2 = 1 ∧ x = y * 2 ^ t ∧ t < x.natAbs + 1 ∧ y.natAbs ≤ x.natAbs := by
  obtain ⟨k, m, hm, hkm⟩ := Nat.exists_eq_two_pow_mul_odd (n := x.natAbs) (by omega)
  have hm2 : m % 2 = 1 := Nat.odd_iff.mp hm
  have hk : k < x.natAbs + 1 := by
    have : 2 ^ k ≤ x.natAbs := by rw [hkm]; exact Nat.le_mul_of_pos_right _ (by omega)
    have := Nat.lt_two_pow_self (n := k)
    omega
  have hmle : m ≤ x.natAbs := by rw [hkm]; exact Nat.le_mul_of_pos_left _ (by positivity)
  rcases le_or_gt 0 x with h | h
  · refine ⟨m, k, by omega, ?_, hk, by simpa using hmle⟩
    have : x = (x.natAbs : Int) := by omega
    rw [this, hkm]; push_cast; ring
  · refine ⟨-(m : Int), k, by omega, ?_, hk, by simpa using hmle⟩
    have : x = -(x.natAbs : Int) := by omega
    rw [this, hkm]; push_cast; ring

theorem pm_one_pow (u : Int) (hu : u = 1 ∨ u = -1) (t : Nat) : u ^ t = if t % 2 = 1 then u else 1 := by
  rcases Nat.even_or_odd t with he | ho
  · have : ¬ t % 2 = 1 := by have := Nat.even_iff.mp he; omega
    simp only [this, ↓reduceIte]
    rcases hu with rfl | rfl
    · simp
    · exact Even.neg_one_pow he
  · have : t % 2 = 1 := Nat.odd_iff.mp ho
    simp only [this, ↓reduceIte]
    rcases hu with rfl | rfl
    · simp
    · exact Odd.neg_one_pow ho

/-- steps 3–4 of Cohen 1.4.10: the loop multiplies k by the Jacobi symbol J(a | b), b odd -/
theorem kronLoop_spec : ∀ (fuel : Nat) (a : Int) (b : Nat) (k : Int), b % 2 = 1 → a.natAbs < fuel →
    kronLoop fuel a b k = k * J(a | b) := by
  intro fuel
  induction fuel with
  | zero => intro a b k _ h; omega
  | succ fuel ih =>
    intro a b k hb hf
    have hbodd : Odd b := Nat.odd_iff.mpr hb
    by_cases ha : a = 0
    · subst ha
      simp only [kronLoop, ↓reduceIte]
      by_cases hb1 : b = 1
      · subst hb1; simp
      · have : 1 < b := by omega
        simp [hb1, zero_left this]
    · obtain ⟨a', t, ha', hat, ht, hle⟩ := odd_decomp a ha
      have hrem : removeTwos a.natAbs a 0 = (a', t) := by
        have := removeTwos_spec t a.natAbs a' 0 ha' (by omega)
        rw [← hat] at this; simpa using this
      simp only [kronLoop, ha, ↓reduceIte, hrem]
      have hr : (a'.natAbs) % 2 = 1 := by omega
      have hr0 : a'.natAbs ≠ 0 := by omega
      -- recursive call
      have hnew : ((b : Int).tmod (a'.natAbs : Int)).natAbs < fuel := by
        have h1 : ((b : Int).tmod (a'.natAbs : Int)).natAbs < a'.natAbs := by
          rw [Int.natAbs_tmod]; simp only [Int.natAbs_natCast]
          exact Nat.mod_lt _ (by omega)
        omega
      rw [ih _ _ _ hr hnew]
      -- J(a | b) = J(2|b)^t * J(a'|b)
      have hJ : J(a | b) = J(2 | b) ^ t * J(a' | b) := by
        rw [hat, jacobiSym.mul_left, jacobiSym.pow_left, mul_comm]
      have h2 : J(2 | b) = table (b : Int) := by rw [at_two hbodd, table_chi8]; rfl
      have hrec := recip a' b ha' hb
      have hmod : J((b : Int).tmod (a'.natAbs : Int) | a'.natAbs) = J((b : Int) | a'.natAbs) := by
        have e : (b : Int).tmod (a'.natAbs : Int) = (b : Int) % (a'.natAbs : Int) :=
          Int.tmod_eq_emod_of_nonneg (by positivity)
        rw [e, ← jacobiSym.mod_left]
      rw [hmod, hJ, h2, hrec, pm_one_pow _ (table_odd _ (by omega)) t]
      split_ifs <;> ring

end NTV.Kron

namespace NTV.Kron

/-- C19 (Kronecker symbol), full: for every a and every b ≠ 0 written as b = s·2^v·b' (s = ±1, b' odd),
the model returns (a/s)·(a/2)^v·J(a | b') — the mathematical Kronecker symbol — where (a/−1) = −1 iff
a < 0, (a/2) is `kronTwo`, and J is Mathlib's Jacobi symbol. -/
theorem kronecker_eq (a : Int) (s : Int) (hs : s = 1 ∨ s = -1) (v : Nat) (b' : Nat) (hb' : b' % 2 = 1) :
    kronecker a (s * 2 ^ v * (b' : Int)) =
      (if s = -1 ∧ a < 0 then -1 else 1) * kronTwo a ^ v * J(a | b') := by
  have hb'pos : 0 < b' := by omega
  have hsb : (s * (b' : Int)) % 2 = 1 := by rcases hs with rfl | rfl <;> omega
  have hb : s * 2 ^ v * (b' : Int) = (s * (b' : Int)) * 2 ^ v := by ring
  have hbne : s * 2 ^ v * (b' : Int) ≠ 0 := by
    rcases hs with rfl | rfl <;> simp <;> omega
  have hvlt : v ≤ (s * 2 ^ v * (b' : Int)).natAbs := by
    have h1 : (s * 2 ^ v * (b' : Int)).natAbs = 2 ^ v * b' := by
      rcases hs with rfl | rfl <;> simp [Int.natAbs_mul, Int.natAbs_pow]
    rw [h1]
    have := Nat.lt_two_pow_self (n := v)
    have : 2 ^ v ≤ 2 ^ v * b' := Nat.le_mul_of_pos_right _ hb'pos
    omega
  have hrem : removeTwos (s * 2 ^ v * (b' : Int)).natAbs (s * 2 ^ v * (b' : Int)) 0 = (s * (b' : Int), v) := by
    have := removeTwos_spec v (s * 2 ^ v * (b' : Int)).natAbs (s * (b' : Int)) 0 hsb hvlt
    rw [← hb] at this; simpa using this
  have hbeven : (s * 2 ^ v * (b' : Int)) % 2 = 0 ↔ 1 ≤ v := by
    constructor
    · intro h
      by_contra hv
      have : v = 0 := by omega
      subst this
      simp at h; omega
    · intro h
      obtain ⟨w, rfl⟩ : ∃ w, v = w + 1 := ⟨v - 1, by omega⟩
      have : s * 2 ^ (w + 1) * (b' : Int) = (s * 2 ^ w * (b' : Int)) * 2 := by ring
      rw [this]; exact Int.mul_emod_left _ _
  have hnat : (s * (b' : Int)).natAbs = b' := by rcases hs with rfl | rfl <;> simp
  have hneg : (s * (b' : Int) < 0) ↔ s = -1 := by
    rcases hs with rfl | rfl
    · constructor
      · intro h; simp at h; omega
      · intro h; norm_num at h
    · constructor
      · intro _; rfl
      · intro _; simp; omega
  unfold kronecker
  simp only [hbne, ↓reduceIte]
  by_cases hboth : a % 2 = 0 ∧ (s * 2 ^ v * (b' : Int)) % 2 = 0
  · simp only [hboth, and_self, ↓reduceIte]
    have hv : 1 ≤ v := hbeven.mp hboth.2
    have : kronTwo a = 0 := by simp [kronTwo, hboth.1]
    rw [this, zero_pow (by omega)]; ring
  · simp only [hboth, ↓reduceIte, hrem, hnat]
    rw [kronLoop_spec _ _ _ _ hb' (by omega)]
    congr 1
    -- the sign and the power of (a/2)
    have hpow : kronTwo a ^ v = if v % 2 = 1 then table a else 1 := by
      by_cases hv0 : v = 0
      · subst hv0; simp
      · have hv : 1 ≤ v := by omega
        have hodd : a % 2 = 1 := by
          by_contra h
          exact hboth ⟨by omega, hbeven.mpr hv⟩
        rw [← table_eq, pm_one_pow _ (table_odd a hodd) v]
    rw [hpow]
    by_cases hcond : s * (b' : Int) < 0 ∧ a < 0
    · have h2 : s = -1 ∧ a < 0 := ⟨hneg.mp hcond.1, hcond.2⟩
      rw [if_pos hcond, if_pos h2]; ring
    · have h2 : ¬ (s = -1 ∧ a < 0) := fun h => hcond ⟨hneg.mpr h.1, h.2⟩
      rw [if_neg hcond, if_neg h2]; ring

theorem kronecker_zero (a : Int) : kronecker a 0 = if a = 1 ∨ a = -1 then 1 else 0 := by
  simp [kronecker]

/-- every non-zero b has the decomposition used in `kronecker_eq` -/
theorem decomp_exists (b : Int) (hb : b ≠ 0) :
    ∃ (s : Int) (v : Nat) (b' : Nat), (s = 1 ∨ s = -1) ∧ b' % 2 = 1 ∧ b = s * 2 ^ v * (b' : Int) := by
  obtain ⟨y, t, hy, hbt, _, _⟩ := odd_decomp b hb
  rcases le_or_gt 0 y with h | h
  · refine ⟨1, t, y.natAbs, Or.inl rfl, by omega, ?_⟩
    have : y = (y.natAbs : Int) := by omega
    rw [hbt]; conv_lhs => rw [this]
    ring
  · refine ⟨-1, t, y.natAbs, Or.inr rfl, by omega, ?_⟩
    have : y = -(y.natAbs : Int) := by omega
    rw [hbt]; conv_lhs => rw [this]
    ring

end NTV.Kron
