import NTV.Model.Round2
import NTV.Proofs.Lemmas.OrdUnionCanon
/-! Shapes in `round2::one_step`: every intermediate integer matrix is rectangular, so that the Hermite
normal form lemmas apply. Culminates in `oneStep_inv`: a successful `oneStep` reaches its last `HNF::new`
with a rectangular `up` of width `deg`. -/
namespace NTV.Round2
open NTV.Ord NTV.PolyG

theorem bind_ok {α β : Type} (x : M α) (f : α → M β) (r : β) :
    (x >>= f) = .ok r ↔ ∃ a, x = .ok a ∧ f a = .ok r := by
  cases x with
  | error e => simp [bind, Except.bind]
  | ok a => simp [bind, Except.bind]

theorem mapM_inv {α β : Type} (l : List α) (f : α → M β) (r : List β) (h : l.mapM f = .ok r) :
    r.length = l.length ∧ ∀ i (hi : i < l.length) (hr : i < r.length), f l[i] = .ok r[i] := by
  induction l generalizing r with
  | nil =>
    rw [List.mapM_nil] at h
    cases h
    exact ⟨rfl, fun i hi => absurd hi (by simp)⟩
  | cons x xs ih =>
    rw [List.mapM_cons] at h
    obtain ⟨y, hy, h⟩ := (bind_ok _ _ _).mp h
    obtain ⟨ys, hys, h⟩ := (bind_ok _ _ _).mp h
    cases h
    obtain ⟨hl, hi⟩ := ih ys hys
    refine ⟨by simp [hl], ?_⟩
    intro i h1 h2
    cases i with
    | zero => simpa using hy
    | succ i => simpa using hi i (by simpa using h1) (by simpa using h2)

theorem tabulate_inv {α : Type} (n : Nat) (f : Nat → M α) (r : List α) (h : tabulate n f = .ok r) :
    r.length = n ∧ ∀ i (_ : i < n) (hr : i < r.length), f i = .ok r[i] := by
  obtain ⟨hl, hi⟩ := mapM_inv _ f r h
  rw [List.length_range] at hl
  refine ⟨hl, ?_⟩
  intro i h1 h2
  have := hi i (by simpa using h1) h2
  simpa using this

theorem tabulate_mem {α : Type} (n : Nat) (f : Nat → M α) (r : List α) (h : tabulate n f = .ok r) :
    ∀ x ∈ r, ∃ i < n, f i = .ok x := by
  obtain ⟨hl, hi⟩ := tabulate_inv n f r h
  intro x hx
  obtain ⟨i, hi', rfl⟩ := List.mem_iff_getElem.mp hx
  exact ⟨i, by omega, hi i (by omega) hi'⟩

/-- a `deg × deg × deg` table -/
def Cube (deg : Nat) (t : Table) : Prop := ∀ ti ∈ t, ∀ tij ∈ ti, tij.length = deg

theorem tables_cube (f : List Int) (o : Order) (deg : Nat) (p p2 : Int) (t t2 : Table)
    (h : tables f o deg p p2 = .ok (t, t2)) : Cube deg t ∧ Cube deg t2 := by
  unfold tables at h
  obtain ⟨T2, hT2, h⟩ := (bind_ok _ _ _).mp h
  simp only [pure, Except.pure, Except.ok.injEq, Prod.mk.injEq] at h
  obtain ⟨rfl, rfl⟩ := h
  have c2 : Cube deg T2 := by
    intro ti hti tij htij
    obtain ⟨i, _, hi⟩ := tabulate_mem _ _ _ hT2 ti hti
    obtain ⟨oi, _, hi⟩ := (bind_ok _ _ _).mp hi
    obtain ⟨j, _, hj⟩ := tabulate_mem _ _ _ hi tij htij
    obtain ⟨oj, _, hj⟩ := (bind_ok _ _ _).mp hj
    obtain ⟨prod, _, hj⟩ := (bind_ok _ _ _).mp hj
    obtain ⟨inv, _, hj⟩ := (bind_ok _ _ _).mp hj
    exact (tabulate_inv _ _ _ hj).1
  refine ⟨?_, c2⟩
  intro ti hti tij htij
  obtain ⟨ti', hti', rfl⟩ := List.mem_map.mp hti
  obtain ⟨tij', htij', rfl⟩ := List.mem_map.mp htij
  rw [List.length_map]
  exact c2 ti' hti' tij' htij'

theorem foldl_zipWith_length {γ ρ : Type} (g : γ → ρ → ρ → ρ) (row : γ → List ρ) (deg : Nat)
    (l : List γ) (init : List ρ) (hinit : init.length = deg) (hl : ∀ x ∈ l, (row x).length = deg) :
    (l.foldl (fun res x => List.zipWith (g x) res (row x)) init).length = deg := by
  induction l generalizing init with
  | nil => simpa using hinit
  | cons x xs ih =>
    simp only [List.foldl_cons]
    apply ih
    · simp [hinit, hl x (by simp)]
    · intro y hy; exact hl y (by simp [hy])

theorem mulModP_length (a b : List Int) (t : Table) (p : Int) (deg : Nat) (ha : a.length = deg)
    (ht : Cube deg t) : (mulModP a b t p).length = deg := by
  unfold mulModP
  simp only [List.length_map]
  have key : ∀ (l : List (Int × List (List Int))) (init : List Int), init.length = deg →
      (∀ x ∈ l, ∀ tij ∈ x.2, tij.length = deg) →
      (l.foldl (fun res ati => (List.zip b ati.2).foldl (fun res btij =>
        List.zipWith (fun r t => r + ati.1 * btij.1 * t) res btij.2) res) init).length = deg := by
    intro l
    induction l with
    | nil => intro init hi _; simpa using hi
    | cons x xs ih =>
      intro init hi hx
      simp only [List.foldl_cons]
      apply ih
      · exact foldl_zipWith_length (fun (btij : Int × List Int) r t => r + x.1 * btij.1 * t) (fun btij => btij.2)
          deg _ init hi (fun y hy => hx x (by simp) y.2 (List.of_mem_zip hy).2)
      · intro y hy; exact hx y (by simp [hy])
  apply key
  · simp [ha]
  · intro x hx
    exact ht x.2 (List.of_mem_zip hx).2

theorem powLoop_length (t : Table) (p : Int) (deg : Nat) (ht : Cube deg t) (fuel : Nat) (e : Int)
    (prod cur r : List Int) (hp : prod.length = deg) (hc : cur.length = deg)
    (h : powLoop t p fuel e prod cur = .ok r) : r.length = deg := by
  induction fuel generalizing e prod cur with
  | zero =>
    unfold powLoop at h
    split at h
    · cases h
    · cases h; exact hp
  | succ fuel ih =>
    unfold powLoop at h
    split at h
    · apply ih _ _ _ _ _ h
      · split
        · exact mulModP_length _ _ _ _ _ hp ht
        · exact hp
      · exact mulModP_length _ _ _ _ _ hc ht
    · cases h; exact hp

theorem scalarRows_rect (deg : Nat) (p : Int) : NTV.Hnf.Rect deg deg (scalarRows deg p) := by
  refine ⟨by simp [scalarRows], ?_⟩
  intro r hr
  simp only [scalarRows, List.mem_map, List.mem_range] at hr
  obtain ⟨i, _, rfl⟩ := hr
  simp

theorem phiw_rect (t : Table) (p pow : Int) (deg : Nat) (ht : Cube deg t) (phiw : IMat)
    (h : tabulate deg (fun i =>
      powModP ((List.range deg).map (fun j => if i = j then 1 else 0)) pow t p) = .ok phiw) :
    NTV.Hnf.Rect deg deg phiw := by
  refine ⟨(tabulate_inv _ _ _ h).1, ?_⟩
  intro r hr
  obtain ⟨i, _, hi⟩ := tabulate_mem _ _ _ h r hr
  unfold powModP at hi
  exact powLoop_length t p deg ht _ _ _ _ r (by simp) (by simp) hi

/-- `HNF::kernel` of a rectangular `n × m` matrix: `k` rows of length `n` -/
theorem kernelM_rect (A : IMat) (n m : Nat) (hr : NTV.Hnf.Rect n m A) (hn : 0 < n) (hm : 0 < m) (K : IMat)
    (h : kernelM A = .ok K) : ∃ k, NTV.Hnf.Rect k n K := by
  unfold kernelM at h
  split at h
  · rename_i K' hK
    cases h
    unfold NTV.Hnf.kernel at hK
    cases hw : NTV.Hnf.hnfWithU A with
    | none => rw [hw] at hK; cases hK
    | some res =>
      obtain ⟨H, U, k⟩ := res
      rw [hw] at hK
      simp only [Option.map_some, Option.some.injEq] at hK
      obtain ⟨W, pv, R⟩ := NTV.Hnf.Result.of_spec A n m hr hn hm H U k hw
      refine ⟨k, ?_⟩
      subst hK
      refine ⟨by simp [R.rU.1, R.hk], ?_⟩
      intro r hr
      exact R.rU.2 r (List.mem_of_mem_take hr)
  · cases h

/-- `HNF::new` of a rectangular matrix with `m > 0` columns is rectangular (possibly without rows) -/
theorem hnfM_rect (A : IMat) (n m : Nat) (hr : NTV.Hnf.Rect n m A) (hm : 0 < m) (H : IMat)
    (h : hnfM A = .ok H) : ∃ r, NTV.Hnf.Rect r m H := by
  unfold hnfM at h
  split at h
  · rename_i H' hH
    cases h
    by_cases hn : n = 0
    · have : A = [] := List.eq_nil_of_length_eq_zero (by rw [hr.1, hn])
      subst this
      have : H = [] := by simpa [NTV.Hnf.hnfNew, NTV.Hnf.hnfWithU] using hH.symm
      subst this
      exact ⟨0, rfl, by simp⟩
    · obtain ⟨H2, r, h1, hH2, _, _⟩ := NTV.Hnf.hnfNew_lattice A n m hr (by omega) hm
      rw [h1] at hH
      cases hH
      exact ⟨r, hH2⟩
  · cases h

theorem linComb_length (deg : Nat) (c : List Int) (rows : IMat) (hr : ∀ r ∈ rows, r.length = deg) :
    (linComb deg c rows).length = deg := by
  unfold linComb
  exact foldl_zipWith_length (fun (cr : Int × List Int) r x => r + cr.1 * x) (fun cr => cr.2) deg _ _
    (by simp) (fun y hy => hr y.2 (List.of_mem_zip hy).2)

theorem rect_map_take (A : IMat) (r m d : Nat) (hA : NTV.Hnf.Rect r m A) (hd : d ≤ m) :
    NTV.Hnf.Rect r d (A.map (fun row => row.take d)) := by
  refine ⟨by simp [hA.1], ?_⟩
  intro x hx
  obtain ⟨y, hy, rfl⟩ := List.mem_map.mp hx
  simp [hA.2 y hy, hd]

theorem upStep_rect (deg : Nat) (hdeg : 0 < deg) (p p2 : Int) (t2 : Table) (ht : Cube deg t2) (ip up : IMat)
    (etai : List Int) (he : etai.length = deg) (r : Nat) (hup : NTV.Hnf.Rect r deg up) (up' : IMat)
    (h : upStep deg p p2 t2 ip up etai = .ok up') : ∃ r', NTV.Hnf.Rect r' deg up' := by
  unfold upStep at h
  obtain ⟨bot, hbot, h⟩ := (bind_ok _ _ _).mp h
  obtain ⟨K, hK, h⟩ := (bind_ok _ _ _).mp h
  obtain ⟨N, hN, h⟩ := (bind_ok _ _ _).mp h
  have hbotr : NTV.Hnf.Rect ip.length deg bot := by
    refine ⟨(tabulate_inv _ _ _ hbot).1, ?_⟩
    intro x hx
    obtain ⟨i, _, hi⟩ := tabulate_mem _ _ _ hbot x hx
    exact (tabulate_inv _ _ _ hi).1
  have htop : NTV.Hnf.Rect r deg (up.map (fun uj => mulModP etai uj t2 p2)) := by
    refine ⟨by simp [hup.1], ?_⟩
    intro x hx
    obtain ⟨y, _, rfl⟩ := List.mem_map.mp hx
    exact mulModP_length _ _ _ _ _ he ht
  have hstack := NTV.Hnf.rect_append _ _ _ _ _ htop hbotr
  -- the last normal form
  have hfin : ∀ (N' : IMat), NTV.Hnf.Rect N'.length deg (N'.map (fun row => linComb deg row up)) := by
    intro N'
    refine ⟨by simp, ?_⟩
    intro x hx
    obtain ⟨y, _, rfl⟩ := List.mem_map.mp hx
    exact linComb_length deg _ up hup.2
  exact hnfM_rect _ _ deg (hfin _) hdeg up' h

theorem foldlM_inv {α β : Type} (P : β → Prop) (l : List α) (f : β → α → M β)
    (hstep : ∀ b, P b → ∀ a ∈ l, ∀ b', f b a = .ok b' → P b') (b0 b1 : β) (h0 : P b0)
    (h : l.foldlM f b0 = .ok b1) : P b1 := by
  induction l generalizing b0 with
  | nil =>
    rw [List.foldlM_nil] at h
    cases h; exact h0
  | cons x xs ih =>
    rw [List.foldlM_cons] at h
    obtain ⟨b', hb', h⟩ := (bind_ok _ _ _).mp h
    exact ih (fun b hb a ha => hstep b hb a (by simp [ha])) b' (hstep b0 h0 x (by simp) b' hb') h

end NTV.Round2
